module verifharness

go 1.21

require (
	github.com/kilic/bls12-381 v0.1.0
	github.com/protolambda/bls12-381-util v0.1.0
	github.com/protolambda/zrnt v0.0.0
	github.com/protolambda/ztyp v0.2.2
	gopkg.in/yaml.v3 v3.0.0
)

require (
	github.com/holiman/uint256 v1.2.0 // indirect
	github.com/minio/sha256-simd v0.1.0 // indirect
	golang.org/x/sys v0.17.0 // indirect
)

replace github.com/protolambda/zrnt => /repo
