package ssz

import (
	"bufio"
	"bytes"
	"encoding/hex"
	"fmt"
	"math/rand"
	"reflect"

	"github.com/protolambda/zrnt/eth2/beacon/common"
	"github.com/protolambda/ztyp/codec"
	"github.com/protolambda/ztyp/tree"
	"github.com/protolambda/ztyp/view"

	"verifharness/internal/hreg"
)

// Caller-aliasing scenarios (property C05: a tree-backed value must not share mutable memory with the plain
// struct it was converted from / to):
//
//	alias-struct-to-view   s := struct decoded from bytes; v := s.View(); hash v; scribble over every field of s
//	                       IN PLACE (arrays, slice elements, integers); v must still serialize to the same bytes
//	                       and report the root of those bytes
//	alias-raw-from-view    v := view decoded from bytes; hash v; s := v.Raw(); scribble over s; same requirement on v
//
// and, in the state mutation sequences, `set_*_then_scribble`: a struct handed to a state setter
// (SetLatestBlockHeader, SetLatestExecutionPayloadHeader) is scribbled over after the state was hashed.
// The lines are ordinary `st` lines: reported root + serialized bytes of the view, judged by the Lean htr.

var specType = reflect.TypeOf((*common.Spec)(nil))
var viewIface = reflect.TypeOf((*view.View)(nil)).Elem()
var errIface = reflect.TypeOf((*error)(nil)).Elem()

// callConv calls obj.<name>() or obj.<name>(spec) and returns the first result if it has the wanted shape.
// why: "" (ok), "absent" (no such method, or a signature this harness does not drive), "panic" (the method exists and
// panicked), "error" (it returned a non-nil error). A method that exists but panics or fails on a struct that was
// decoded from valid bytes is reported on an `st` line, never skipped.
func callConv(obj reflect.Value, name string, spec *common.Spec, limit uint64) (res reflect.Value, ok bool, why string) {
	m := obj.MethodByName(name)
	if !m.IsValid() {
		return reflect.Value{}, false, "absent"
	}
	mt := m.Type()
	var args []reflect.Value
	switch {
	case mt.NumIn() == 0:
	case mt.NumIn() == 1 && mt.In(0) == specType:
		args = []reflect.Value{reflect.ValueOf(spec)}
	case mt.NumIn() == 1 && mt.In(0).Kind() == reflect.Uint64 && limit != 0:
		// `Balances.View(limit uint64)`: the list limit of the type's schema
		args = []reflect.Value{reflect.ValueOf(limit)}
	default:
		return reflect.Value{}, false, "absent"
	}
	if mt.NumOut() == 0 || mt.NumOut() > 2 {
		return reflect.Value{}, false, "absent"
	}
	if mt.NumOut() == 2 && !mt.Out(1).Implements(errIface) {
		return reflect.Value{}, false, "absent"
	}
	defer func() {
		if r := recover(); r != nil {
			res, ok, why = reflect.Value{}, false, "panic"
		}
	}()
	out := m.Call(args)
	if len(out) == 2 && !out[1].IsNil() {
		return reflect.Value{}, false, "error"
	}
	return out[0], true, ""
}

func listLimit(t *Ty) uint64 {
	if t != nil && t.Kind == KList {
		return t.N
	}
	return 0
}

// scribble overwrites, in place, every piece of memory reachable from v without reallocating anything.
func scribble(v reflect.Value, depth int) {
	if depth > 12 {
		return
	}
	switch v.Kind() {
	case reflect.Ptr, reflect.Interface:
		if !v.IsNil() {
			scribble(v.Elem(), depth+1)
		}
	case reflect.Struct:
		for i := 0; i < v.NumField(); i++ {
			if v.Type().Field(i).PkgPath == "" { // exported
				scribble(v.Field(i), depth+1)
			}
		}
	case reflect.Array, reflect.Slice:
		for i := 0; i < v.Len(); i++ {
			scribble(v.Index(i), depth+1)
		}
	case reflect.Uint8, reflect.Uint16, reflect.Uint32, reflect.Uint64:
		if v.CanSet() {
			v.SetUint(^v.Uint() & (1<<uint(v.Type().Bits()) - 1))
		}
	case reflect.Bool:
		if v.CanSet() {
			v.SetBool(!v.Bool())
		}
	}
}

func viewState(v view.View) (root string, ser []byte, ok bool) {
	defer func() {
		if r := recover(); r != nil {
			ok = false
		}
	}()
	var buf bytes.Buffer
	if err := v.Serialize(codec.NewEncodingWriter(&buf)); err != nil {
		return "", nil, false
	}
	r := v.HashTreeRoot(tree.GetHashFn())
	return hex.EncodeToString(r[:]), buf.Bytes(), true
}

func genAliasing(o hreg.Opts, w *bufio.Writer, rng *rand.Rand, cfgs []preset) error {
	var names []string
	for _, e := range Registry {
		if e.View != nil {
			names = append(names, e.Name)
		}
	}
	var toks []string
	for _, c := range cfgs {
		toks = append(toks, c.tok)
	}
	schemas, err := SpecSchemas(names, toks)
	if err != nil {
		return err
	}
	reps := o.Pick(2, 10)
	for _, p := range cfgs {
		spec, err := specOfToken(p.tok)
		if err != nil {
			return err
		}
		for i := range Registry {
			e := &Registry[i]
			t := schemas[e.Name+" "+p.tok]
			if e.View == nil || t == nil || t.MinSize() > 20000 {
				continue
			}
			for k := 0; k < reps; k++ {
				g := &generator{rng: rng, mode: gRand, budget: 300, overList: -1}
				if k == 0 {
					g.mode = gDistinct // neighbouring same-typed fields differ: exchanged leaves cannot go unnoticed
				}
				b, _ := Encode(t, g.gen(t))
				// struct -> view
				obj := e.New()
				so := wrap(spec, obj)
				if so != nil {
					if okd, unread := decodeAll(so, b); okd && unread == 0 {
						res, ok, why := callConv(reflect.ValueOf(obj), "View", spec, listLimit(t))
						if why == "panic" || why == "error" || (ok && res.Type().Implements(viewIface) && res.IsNil()) {
							// the struct was decoded from valid bytes: its tree form must exist
							if why == "" {
								why = "nil"
							}
							o.Stats.Add("alias", "View-"+why)
							fmt.Fprintf(w, "st view-of-struct!%s %s %s view-%s %s\n", why, e.Name, p.tok, why, hexOrDash(b))
						} else if ok && res.Type().Implements(viewIface) {
							v := res.Interface().(view.View)
							// the converted view must be the tree of the struct's own encoding: reported root of s.View()
							// against the struct's bytes (judged by the Lean htr), not only against the view's own bytes
							if root0, _, ok := viewState(v); ok {
								o.Stats.Add("alias", "view-of-struct")
								fmt.Fprintf(w, "st view-of-struct %s %s %s %s\n", e.Name, p.tok, root0, hexOrDash(b))
							}
							if _, ser1, ok := viewState(v); ok {
								scribble(reflect.ValueOf(obj), 0)
								emitAlias(w, o, "alias-struct-to-view", e.Name, p.tok, v, ser1)
							}
							// view -> struct: the typed view's Raw() result is scribbled over; the view must not change
							if _, ser2, ok := viewState(v); ok {
								raw, ok, rwhy := callConv(res, "Raw", spec, 0)
								if rwhy == "panic" || rwhy == "error" {
									o.Stats.Add("alias", "Raw-"+rwhy)
									fmt.Fprintf(w, "st raw-of-view!%s %s %s raw-%s %s\n", rwhy, e.Name, p.tok, rwhy, hexOrDash(ser2))
								} else if ok {
									if raw.Kind() != reflect.Ptr {
										// returned by value: a copy shares the backing arrays of its slices
										cp := reflect.New(raw.Type())
										cp.Elem().Set(raw)
										raw = cp
									}
									scribble(raw, 0)
									emitAlias(w, o, "alias-raw-from-view", e.Name, p.tok, v, ser2)
								} else {
									o.Stats.Add("alias", "no-Raw-method")
								}
							}
						} else {
							o.Stats.Add("alias", "no-View-method")
							o.Stats.Add("alias-no-View-method", e.Name) // the struct type has no View() / View(spec) method at all
						}
					}
				}
			}
		}
	}
	return nil
}

func emitAlias(w *bufio.Writer, o hreg.Opts, label, typ, cfg string, v view.View, before []byte) {
	root, ser, ok := viewState(v)
	o.Stats.Add("alias", label)
	if !ok {
		fmt.Fprintf(w, "st %s!panic %s %s panic -\n", label, typ, cfg)
		return
	}
	if !bytes.Equal(ser, before) {
		root = "disturbed" // the view's content changed although only the caller's struct was written
	}
	fmt.Fprintf(w, "st %s %s %s %s %s\n", label, typ, cfg, root, hexOrDash(ser))
}
