package ssz

import (
	"bufio"
	"encoding/binary"
	"encoding/hex"
	"fmt"
	"math/rand"
	"reflect"
	"sort"
	"strconv"

	"github.com/protolambda/zrnt/eth2/beacon/common"
	"github.com/protolambda/ztyp/tree"

	"verifharness/internal/hreg"
)

// hexOrDash: hex with run-length compression — a run of 12 or more equal bytes is written `hh*N.` (the byte, `*`,
// the decimal count, `.`). Nearly half of the encodings' bytes sit in long zero or 0xff runs (mandatory vectors of
// the states, zero defaults, boundary values); both executors expand the runs before anything else (parseHex here,
// parseHexRle in Zrnt.SSZ.Driver).
func hexOrDash(b []byte) string {
	if len(b) == 0 {
		return "-"
	}
	const digits = "0123456789abcdef"
	out := make([]byte, 0, 2*len(b))
	for i := 0; i < len(b); {
		j := i
		for j < len(b) && b[j] == b[i] {
			j++
		}
		if j-i >= 12 {
			out = append(out, digits[b[i]>>4], digits[b[i]&15], '*')
			out = strconv.AppendInt(out, int64(j-i), 10)
			out = append(out, '.')
		} else {
			for k := i; k < j; k++ {
				out = append(out, digits[b[k]>>4], digits[b[k]&15])
			}
		}
		i = j
	}
	return string(out)
}

type emitter struct {
	cur   *Ty // schema of the type whose lines are being emitted
	w     *bufio.Writer
	o     hreg.Opts
	bytes int64
}

func (e *emitter) line(label, typ, preset, cfg string, b []byte) {
	if e.cur != nil && hasZeroLenItem(e.cur, b) {
		label += "+zli" // content-derived class marker (see classify.go)
	}
	e.o.Stats.Add("label", label)
	e.o.Stats.Add("preset", preset)
	label += "@" + preset
	sz := "0"
	switch n := len(b); {
	case n == 0:
	case n < 32:
		sz = "1-31"
	case n < 256:
		sz = "32-255"
	case n < 4096:
		sz = "256-4095"
	case n < 65536:
		sz = "4096-65535"
	default:
		sz = "65536+"
	}
	e.o.Stats.Add("encoded-bytes", sz)
	e.bytes += int64(2 * len(b))
	fmt.Fprintf(e.w, "d %s %s %s %s\n", label, typ, cfg, hexOrDash(b))
}

func clone(b []byte) []byte { return append([]byte{}, b...) }

// mutations: structure-aware corruptions of a valid encoding. Whether a mutated string is still a canonical
// encoding is decided by the Lean decoder, not here.
func mutations(rng *rand.Rand, b []byte, marks []mark, maxPer int) (out []struct {
	label string
	b     []byte
}) {
	add := func(label string, x []byte) {
		out = append(out, struct {
			label string
			b     []byte
		}{label, x})
	}
	pick := func(kind string, n int) []mark {
		var ms []mark
		for _, m := range marks {
			if m.kind == kind {
				ms = append(ms, m)
			}
		}
		rng.Shuffle(len(ms), func(i, j int) { ms[i], ms[j] = ms[j], ms[i] })
		if len(ms) > n {
			ms = ms[:n]
		}
		return ms
	}
	// truncations at part boundaries (and one byte around them)
	seen := map[int]bool{}
	cut := func(p int) {
		if p < 0 || p >= len(b) || seen[p] {
			return
		}
		seen[p] = true
		add("m-trunc", clone(b[:p]))
	}
	cut(len(b) - 1)
	cut(0)
	for _, m := range pick("bound", maxPer) {
		cut(m.pos)
		cut(m.pos - 1)
		cut(m.pos + 1)
	}
	for _, m := range pick("off", maxPer) {
		cut(m.pos + 2)
		cut(m.pos + 4)
	}
	// trailing bytes
	add("m-trail", append(clone(b), 0))
	add("m-trail", append(clone(b), 1, 0, 0, 0))
	// offsets
	offs := pick("off", 1<<30)
	sort.Slice(offs, func(i, j int) bool { return offs[i].pos < offs[j].pos })
	chosen := pick("off", maxPer)
	for _, m := range chosen {
		cur := binary.LittleEndian.Uint32(b[m.pos:])
		set := func(label string, v uint32) {
			if v == cur {
				return
			}
			x := clone(b)
			binary.LittleEndian.PutUint32(x[m.pos:], v)
			add(label, x)
		}
		set("m-off-dec", cur-1)
		set("m-off-inc", cur+1)
		set("m-off-zero", 0)
		set("m-off-low", uint32(m.pos-m.aux)) // points into the fixed section
		set("m-off-end", uint32(len(b)-m.aux))
		set("m-off-past", uint32(len(b)-m.aux)+1)
		set("m-off-huge", 0xffffffff)
		set("m-off-align", cur+4)
		// swap with the next offset of the same scope (decreasing offsets)
		for _, n := range offs {
			if n.pos > m.pos && n.aux == m.aux {
				nv := binary.LittleEndian.Uint32(b[n.pos:])
				if nv != cur {
					x := clone(b)
					binary.LittleEndian.PutUint32(x[m.pos:], nv)
					binary.LittleEndian.PutUint32(x[n.pos:], cur)
					add("m-off-swap", x)
					y := clone(b)
					binary.LittleEndian.PutUint32(y[n.pos:], cur-1)
					add("m-off-decreasing", y)
				}
				break
			}
		}
	}
	// insert / delete a byte at a boundary without repairing offsets
	for _, m := range pick("bound", 2) {
		x := append(clone(b[:m.pos]), 0)
		x = append(x, b[m.pos:]...)
		add("m-insert", x)
		if m.pos < len(b) {
			y := append(clone(b[:m.pos]), b[m.pos+1:]...)
			add("m-delete", y)
		}
	}
	// booleans other than 0/1
	for _, m := range pick("bool", 2) {
		x := clone(b)
		x[m.pos] = []byte{2, 0x80, 0xff}[rng.Intn(3)]
		add("m-bool", x)
	}
	// bitvector padding bits
	for _, m := range pick("bvlast", 2) {
		x := clone(b)
		x[m.pos] |= 1 << uint(m.aux+rng.Intn(8-m.aux))
		add("m-bitvec-pad", x)
	}
	// bitlists: no delimiter (zero last byte), delimiter moved up/down
	for _, m := range pick("bitlast", 3) {
		x := clone(b)
		x[m.pos] = 0
		add("m-bitlist-nodelim", x)
		y := clone(b)
		if y[m.pos]&0x80 == 0 {
			// move the delimiter one position up: one more (zero) bit
			top := 7
			for y[m.pos]>>uint(top) == 0 {
				top--
			}
			y[m.pos] = (y[m.pos] &^ (1 << uint(top))) | 1<<uint(top+1)
			add("m-bitlist-shift", y)
		}
	}
	// random byte flips (mostly produce other valid values: exercises the accept path on non-generated data)
	for i := 0; i < 2 && len(b) > 0; i++ {
		x := clone(b)
		x[rng.Intn(len(x))] ^= 1 << uint(rng.Intn(8))
		add("m-flip", x)
	}
	return out
}

// subMutations plants malformed encodings of single nested variable-size nodes; the enclosing structure
// (offsets of all ancestors) stays consistent, so the corruption is local to that node's scope.
func subMutations(rng *rand.Rand, t *Ty, v *Val, maxNodes int) (out []struct {
	label string
	b     []byte
}) {
	var nodes []tnode
	varNodes(t, v, true, &nodes)
	rng.Shuffle(len(nodes), func(i, j int) { nodes[i], nodes[j] = nodes[j], nodes[i] })
	if len(nodes) > maxNodes {
		nodes = nodes[:maxNodes]
	}
	for _, n := range nodes {
		real, _ := Encode(n.t, n.v)
		plant := func(label string, raw []byte) {
			n.v.Raw, n.v.HasRaw = raw, true
			b, _ := Encode(t, v)
			n.v.Raw, n.v.HasRaw = nil, false
			out = append(out, struct {
				label string
				b     []byte
			}{label, b})
		}
		if len(real) > 0 {
			plant("m-sub-empty", nil)
			plant("m-sub-trunc", clone(real[:len(real)-1]))
		}
		plant("m-sub-extra", append(clone(real), 0))
		plant("m-sub-extra4", append(clone(real), 0, 0, 0, 0))
		if _, fixedElem := n.t.elemFixed(); n.t.Kind == KList && !fixedElem && len(real) >= 4 {
			x := clone(real)
			x[0], x[1], x[2], x[3] = 0, 0, 0, 0
			plant("m-sub-list-off0", x) // first offset 0: "no elements", yet the scope is not empty
			if len(n.v.Seq) >= 1 {
				// one more offset than elements: the last element has zero length
				k := len(n.v.Seq)
				y := make([]byte, 0, len(real)+4)
				for i := 0; i < k; i++ {
					o := binary.LittleEndian.Uint32(real[4*i:]) + 4
					y = binary.LittleEndian.AppendUint32(y, o)
				}
				y = binary.LittleEndian.AppendUint32(y, uint32(len(real)+4))
				y = append(y, real[4*k:]...)
				plant("m-sub-list-zero-item", y)
			}
		}
	}
	return out
}

func (t *Ty) elemFixed() (uint64, bool) {
	if t.Elem == nil {
		return 0, true
	}
	return t.Elem.FixedLen()
}

// sizeVectors allocates, inside a Go zero value, the slices that stand for SSZ vectors (a nil slice is not a value of
// a vector type); everything else stays as Go's zero value, in particular nil bitvector byte slices, which the
// code base documents as "the default bits".
func sizeVectors(v reflect.Value, t *Ty) {
	for v.Kind() == reflect.Ptr {
		if v.IsNil() {
			return
		}
		v = v.Elem()
	}
	switch t.Kind {
	case KContainer:
		if v.Kind() == reflect.Struct && v.NumField() == len(t.Fields) {
			for i := range t.Fields {
				sizeVectors(v.Field(i), t.Fields[i].T)
			}
		}
	case KVector:
		if v.Kind() == reflect.Slice && v.Len() == 0 && v.CanSet() && t.N < 1<<22 {
			v.Set(reflect.MakeSlice(v.Type(), int(t.N), int(t.N)))
		}
		if v.Kind() == reflect.Slice || v.Kind() == reflect.Array {
			if t.Elem.Kind == KContainer || t.Elem.Kind == KVector {
				for i := 0; i < v.Len(); i++ {
					sizeVectors(v.Index(i), t.Elem)
				}
			}
		}
	}
}

// zeroValueRoot: HashTreeRoot of the Go zero value of the type, never decoded from bytes.
func zeroValueRoot(e Entry, spec *common.Spec, t *Ty) string {
	return hreg.Guard(func() string {
		obj := e.New()
		sizeVectors(reflect.ValueOf(obj), t)
		o := wrap(spec, obj)
		if o == nil {
			return "no-ssz-interface"
		}
		r := o.HashTreeRoot(tree.GetHashFn())
		return hex.EncodeToString(r[:])
	})
}

func gen(o hreg.Opts, w *bufio.Writer) error {
	rng := o.Rand()
	ps := presets(rng)
	var names []string
	for _, e := range Registry {
		names = append(names, e.Name)
	}
	var cfgs []string
	for _, p := range ps {
		cfgs = append(cfgs, p.tok)
	}
	schemas, err := SpecSchemas(names, cfgs)
	if err != nil {
		return err
	}
	fmt.Fprintf(w, "keys %s\n", joinKeys())
	em := &emitter{w: w, o: o}
	oddTok := ""
	for _, p := range ps {
		if p.name == "odd" {
			oddTok = p.tok
		}
	}
	nRand := o.Pick(4, 60)
	budget := int64(o.Pick(1500, 6000))
	bigBudget := int64(o.Pick(6000, 100000))
	maxPer := o.Pick(2, 8)
	heavyIdx := 0
	for _, p := range ps {
		for _, e := range Registry {
			if p.name == "xdata" && !xdataTypes[e.Name] {
				continue
			}
			if p.name == "chunks" && oddTok != "" && RawSchemas[e.Name+" "+p.tok] == RawSchemas[e.Name+" "+oddTok] {
				continue // the `chunks` preset only changes some lengths of the `odd` preset: same schema, nothing new
			}
			t := schemas[e.Name+" "+p.tok]
			em.cur = t
			if t == nil {
				// the specification schema has no such entry: the model answers bad-op, the Go type answers something else
				em.line("probe", e.Name, p.name, p.tok, nil)
				continue
			}
			if spec, err := specOfToken(p.tok); err == nil && t.MinSize() < 5_000_000 {
				fmt.Fprintf(w, "z zero@%s %s %s %s\n", p.name, e.Name, p.tok, zeroValueRoot(e, spec, t))
				o.Stats.Add("label", "z-zero")
			}
			min := int64(t.MinSize())
			heavy := min > 40000 // e.g. mainnet states: megabytes of mandatory vectors
			type gv struct {
				label string
				v     *Val
			}
			var vals []gv
			mk := func(label string, m genMode, bud int64) {
				g := &generator{rng: rng, mode: m, budget: bud, overList: -1}
				vals = append(vals, gv{label, g.gen(t)})
			}
			if heavy {
				// megabytes per value: the quick tier takes a third of the heavy (type, preset) pairs per seed,
				heavyIdx++
				// rotating: pair number i is taken by the seeds congruent to i modulo 3, so seeds 1..3 hit every pair
				if o.Thorough() || heavyIdx%3 == int(o.Seed%3+3)%3 {
					mk("v-rand", gRand, budget)
					if o.Thorough() {
						mk("v-empty", gEmpty, 0)
					}
				}
			} else {
				mk("v-empty", gEmpty, 0)
				mk("v-min", gMin, budget)
				mk("v-max", gMax, bigBudget)
				mk("v-bound", gBound, budget)
				mk("v-bound", gBound, budget)
				for i := 0; i < nRand; i++ {
					mk("v-rand", gRand, budget)
				}
			}
			for _, x := range vals {
				b, _ := Encode(t, x.v)
				em.line(x.label, e.Name, p.name, p.tok, b)
			}
			if heavy {
				continue
			}
			// malformed stream: structure-aware corruptions of a few small valid encodings of the type
			var bases []*Val
			bases = append(bases, (&generator{rng: rng, mode: gMin, budget: 200, overList: -1}).gen(t))
			nb := o.Pick(1, 4)
			if p.name == "mainnet" || p.name == "odd" {
				nb = o.Pick(0, 2)
			}
			for i := 0; i < nb; i++ {
				bases = append(bases, (&generator{rng: rng, mode: gRand, budget: 300, overList: -1}).gen(t))
			}
			for _, bv := range bases {
				b, marks := Encode(t, bv)
				if len(b) > o.Pick(2500, 20000) {
					o.Stats.Add("mutation-base", "skipped-too-large")
					continue
				}
				o.Stats.Add("mutation-base", "used")
				for _, m := range mutations(rng, b, marks, maxPer) {
					em.line(m.label, e.Name, p.name, p.tok, m.b)
				}
				for _, m := range subMutations(rng, t, bv, maxPer) {
					em.line(m.label, e.Name, p.name, p.tok, m.b)
				}
			}
			// a list of variable-size elements whose first offset says "no elements" while the scope is not empty
			if _, fixedElem := t.elemFixed(); t.Kind == KList && !fixedElem {
				em.line("m-list-off0", e.Name, p.name, p.tok, []byte{0, 0, 0, 0})
				em.line("m-list-off0", e.Name, p.name, p.tok, []byte{0, 0, 0, 0, 0xff})
			}
			// one over the limit, for up to a few of the lists inside the type
			nl := countLists(t)
			idxs := rng.Perm(nl)
			if len(idxs) > o.Pick(3, 12) {
				idxs = idxs[:o.Pick(3, 12)]
			}
			for _, k := range idxs {
				g := &generator{rng: rng, mode: gMin, budget: budget, overList: k, overBudget: bigBudget}
				v := g.gen(t)
				if !g.overDone {
					o.Stats.Add("overlimit", "skipped-too-large")
					continue
				}
				b, _ := Encode(t, v)
				em.line("m-overlimit", e.Name, p.name, p.tok, b)
			}
		}
	}
	o.Stats.Add("ops-hex-megabytes", fmt.Sprintf("%d", em.bytes>>20))
	return nil
}

func joinKeys() string {
	s := ""
	for i, k := range ConfigKeys {
		if i > 0 {
			s += ","
		}
		s += k
	}
	return s
}
