package ssz

import (
	"bufio"

	"verifharness/internal/hreg"
)

func genState(o hreg.Opts, w *bufio.Writer) error {
	return nil
}
