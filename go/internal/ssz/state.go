package ssz

import (
	"bufio"
	"bytes"
	"context"
	"encoding/hex"
	"fmt"
	"math/rand"
	"reflect"
	"strings"

	"github.com/protolambda/zrnt/eth2/beacon/altair"
	"github.com/protolambda/zrnt/eth2/beacon/bellatrix"
	"github.com/protolambda/zrnt/eth2/beacon/capella"
	"github.com/protolambda/zrnt/eth2/beacon/common"
	"github.com/protolambda/zrnt/eth2/beacon/deneb"
	"github.com/protolambda/zrnt/eth2/beacon/electra"
	"github.com/protolambda/zrnt/eth2/beacon/phase0"
	"github.com/protolambda/zrnt/eth2/configs"
	"github.com/protolambda/ztyp/codec"
	"github.com/protolambda/ztyp/tree"
	"github.com/protolambda/ztyp/view"

	"verifharness/internal/hreg"
)

// Mode sszstate (property C05, "no stale cached hashes"): the GENERATOR drives the real tree-backed
// BeaconState views of every fork through mutation sequences (every setter, appends, resets, rotations,
// whole-subtree replacement, CopyState followed by diverging mutations on both copies). After every step it
// records, for every live copy, the root the mutated view reports and the bytes it serializes to:
//
//	st <step label> <fork>.BeaconState <cfg> <root reported by the mutated view> <serialized bytes>
//
// exec (Go side) rebuilds a fresh view from the bytes and answers its root and whether the reported root
// equals it; the Lean side answers `htr` of the bytes at the specification schema and the same comparison.
// A stale cached hash shows up as `claimed=stale` on both sides … and as a disagreement if Go's rebuilt root
// itself differed from the Lean root. Both are violations: the expected answer is `claimed=same`, which the
// Lean column produces only if the reported root is the root of the content.

type stateCtor struct {
	fork string
	mk   func(spec *common.Spec) common.BeaconState
	as   func(v view.View, err error) (common.BeaconState, error)
}

var stateCtors = []stateCtor{
	{"phase0", func(s *common.Spec) common.BeaconState { return phase0.NewBeaconStateView(s) },
		func(v view.View, err error) (common.BeaconState, error) { return phase0.AsBeaconStateView(v, err) }},
	{"altair", func(s *common.Spec) common.BeaconState { return altair.NewBeaconStateView(s) },
		func(v view.View, err error) (common.BeaconState, error) { return altair.AsBeaconStateView(v, err) }},
	{"bellatrix", func(s *common.Spec) common.BeaconState { return bellatrix.NewBeaconStateView(s) },
		func(v view.View, err error) (common.BeaconState, error) { return bellatrix.AsBeaconStateView(v, err) }},
	{"capella", func(s *common.Spec) common.BeaconState { return capella.NewBeaconStateView(s) },
		func(v view.View, err error) (common.BeaconState, error) { return capella.AsBeaconStateView(v, err) }},
	{"deneb", func(s *common.Spec) common.BeaconState { return deneb.NewBeaconStateView(s) },
		func(v view.View, err error) (common.BeaconState, error) { return deneb.AsBeaconStateView(v, err) }},
	{"electra", func(s *common.Spec) common.BeaconState { return electra.NewBeaconStateView(s) },
		func(v view.View, err error) (common.BeaconState, error) { return electra.AsBeaconStateView(v, err) }},
}

func rndRoot(rng *rand.Rand) (r common.Root) {
	if rng.Intn(8) != 0 {
		rng.Read(r[:])
	}
	return
}

func rndU64(rng *rand.Rand) uint64 {
	switch rng.Intn(4) {
	case 0:
		return uint64(rng.Intn(4))
	case 1:
		return ^uint64(0) - uint64(rng.Intn(3))
	}
	return rng.Uint64() >> uint(rng.Intn(64))
}

type containerLike interface {
	Get(i uint64) (view.View, error)
	Set(i uint64, v view.View) error
}

// mutator applies one random mutation to the state; returns a short label. Errors of the mutation itself are
// irrelevant (a refused mutation must leave a consistent tree too).
type mutator struct {
	rng    *rand.Rand
	spec   *common.Spec
	schema *Ty // specification schema of the state (drives whole-subtree replacement)
	stats  *hreg.Stats
	cfg    string
	extra  []string // additional op lines produced by a step (read-back of what a setter stored)
}

func (m *mutator) valCount(st common.BeaconState) uint64 {
	vals, err := st.Validators()
	if err != nil {
		return 0
	}
	n, _ := vals.ValidatorCount()
	return n
}

func (m *mutator) step(st common.BeaconState) (label string) {
	rng, spec := m.rng, m.spec
	ctx := context.Background()
	n := m.valCount(st)
	vi := common.ValidatorIndex(0)
	if n > 0 {
		vi = common.ValidatorIndex(rng.Intn(int(n)))
	}
	type op struct {
		name string
		f    func()
	}
	ops := []op{
		{"set_slot", func() { st.SetSlot(common.Slot(rndU64(rng))) }},
		{"set_genesis_time", func() { st.SetGenesisTime(common.Timestamp(rndU64(rng))) }},
		{"set_genesis_validators_root", func() { st.SetGenesisValidatorsRoot(rndRoot(rng)) }},
		{"set_fork", func() {
			var f common.Fork
			rng.Read(f.PreviousVersion[:])
			rng.Read(f.CurrentVersion[:])
			f.Epoch = common.Epoch(rndU64(rng))
			st.SetFork(f)
		}},
		{"set_header_then_scribble", func() {
			h := &common.BeaconBlockHeader{Slot: common.Slot(rndU64(rng)), ProposerIndex: common.ValidatorIndex(rndU64(rng)),
				ParentRoot: rndRoot(rng), StateRoot: rndRoot(rng), BodyRoot: rndRoot(rng)}
			hb := serializeAny(spec, h)
			st.SetLatestBlockHeader(h)
			st.HashTreeRoot(tree.GetHashFn()) // fill the caches
			if back, err := st.LatestBlockHeader(); err == nil && hb != nil {
				r := back.HashTreeRoot(tree.GetHashFn())
				m.extra = append(m.extra, fmt.Sprintf("st readback-after-set common.BeaconBlockHeader %s %s %s", m.cfg, hex.EncodeToString(r[:]), hexOrDash(hb)))
			}
			scribble(reflect.ValueOf(h), 0)   // the caller keeps using its struct
		}},
		{"set_latest_block_header", func() {
			st.SetLatestBlockHeader(&common.BeaconBlockHeader{Slot: common.Slot(rndU64(rng)), ProposerIndex: common.ValidatorIndex(rndU64(rng)),
				ParentRoot: rndRoot(rng), StateRoot: rndRoot(rng), BodyRoot: rndRoot(rng)})
		}},
		{"block_root_set", func() {
			if br, err := st.BlockRoots(); err == nil {
				br.SetRoot(common.Slot(rndU64(rng)), rndRoot(rng))
			}
		}},
		{"state_root_set", func() {
			if br, err := st.StateRoots(); err == nil {
				br.SetRoot(common.Slot(rng.Intn(20)), rndRoot(rng))
			}
		}},
		{"historical_roots_append", func() {
			if h, err := st.HistoricalRoots(); err == nil {
				h.Append(rndRoot(rng))
			}
		}},
		{"set_eth1_data", func() {
			st.SetEth1Data(common.Eth1Data{DepositRoot: rndRoot(rng), DepositCount: common.DepositIndex(rndU64(rng)), BlockHash: rndRoot(rng)})
		}},
		{"eth1_votes_append", func() {
			if v, err := st.Eth1DataVotes(); err == nil {
				v.Append(common.Eth1Data{DepositRoot: rndRoot(rng), DepositCount: common.DepositIndex(rng.Intn(5)), BlockHash: rndRoot(rng)})
			}
		}},
		{"eth1_votes_reset", func() {
			if v, err := st.Eth1DataVotes(); err == nil {
				v.Reset()
			}
		}},
		{"increment_deposit_index", func() { st.IncrementDepositIndex() }},
		{"add_validator", func() {
			var pk common.BLSPubkey
			rng.Read(pk[:])
			st.AddValidator(spec, pk, rndRoot(rng), common.Gwei(rndU64(rng)))
		}},
		{"validator_set_field", func() {
			vals, err := st.Validators()
			if err != nil || n == 0 {
				return
			}
			v, err := vals.Validator(vi)
			if err != nil {
				return
			}
			switch rng.Intn(7) {
			case 0:
				v.SetEffectiveBalance(common.Gwei(rndU64(rng)))
			case 1:
				v.MakeSlashed()
			case 2:
				v.SetExitEpoch(common.Epoch(rndU64(rng)))
			case 3:
				v.SetWithdrawableEpoch(common.Epoch(rndU64(rng)))
			case 4:
				v.SetActivationEpoch(common.Epoch(rndU64(rng)))
			case 5:
				v.SetActivationEligibilityEpoch(common.Epoch(rndU64(rng)))
			case 6:
				v.SetWithdrawalCredentials(rndRoot(rng))
			}
		}},
		{"balance_set", func() {
			if b, err := st.Balances(); err == nil && n > 0 {
				b.SetBalance(vi, common.Gwei(rndU64(rng)))
			}
		}},
		{"balance_set_out_of_range", func() {
			if b, err := st.Balances(); err == nil {
				b.SetBalance(common.ValidatorIndex(n+uint64(rng.Intn(3))), common.Gwei(rndU64(rng)))
			}
		}},
		{"set_balances", func() {
			bals := make([]common.Gwei, n)
			for i := range bals {
				bals[i] = common.Gwei(rndU64(rng))
			}
			st.SetBalances(bals)
		}},
		{"randao_set", func() {
			if r, err := st.RandaoMixes(); err == nil {
				r.SetRandomMix(common.Epoch(rndU64(rng)), rndRoot(rng))
			}
		}},
		{"seed_randao", func() { st.SeedRandao(spec, rndRoot(rng)) }},
		{"slashings_add", func() {
			if s, err := st.Slashings(); err == nil {
				s.AddSlashing(common.Epoch(rndU64(rng)), common.Gwei(rng.Intn(1000)))
			}
		}},
		{"slashings_reset", func() {
			if s, err := st.Slashings(); err == nil {
				s.ResetSlashings(common.Epoch(rng.Intn(20)))
			}
		}},
		{"set_justification_bits", func() { st.SetJustificationBits(common.JustificationBits{byte(rng.Intn(16))}) }},
		{"set_previous_justified", func() {
			st.SetPreviousJustifiedCheckpoint(common.Checkpoint{Epoch: common.Epoch(rndU64(rng)), Root: rndRoot(rng)})
		}},
		{"set_current_justified", func() {
			st.SetCurrentJustifiedCheckpoint(common.Checkpoint{Epoch: common.Epoch(rndU64(rng)), Root: rndRoot(rng)})
		}},
		{"set_finalized", func() {
			st.SetFinalizedCheckpoint(common.Checkpoint{Epoch: common.Epoch(rndU64(rng)), Root: rndRoot(rng)})
		}},
		{"replace_subtree", func() { m.replaceField(st) }},
		{"replace_subtree", func() { m.replaceField(st) }},
	}
	// fork-specific
	if p0, ok := st.(phase0.Phase0PendingAttestationsBeaconState); ok {
		ops = append(ops,
			op{"pending_attestation_append", func() {
				atts, err := p0.CurrentEpochAttestations()
				if rng.Intn(2) == 0 {
					atts, err = p0.PreviousEpochAttestations()
				}
				if err != nil {
					return
				}
				bits := make(phase0.AttestationBits, 1+rng.Intn(2))
				rng.Read(bits)
				bits[len(bits)-1] |= 1
				bits[len(bits)-1] &= 0x1f
				att := &phase0.PendingAttestation{AggregationBits: bits, InclusionDelay: common.Slot(rng.Intn(9)), ProposerIndex: common.ValidatorIndex(rng.Intn(9))}
				att.Data.Slot = common.Slot(rndU64(rng))
				att.Data.BeaconBlockRoot = rndRoot(rng)
				atts.Append(att.View(spec))
			}},
			op{"rotate_attestations", func() { phase0.ProcessParticipationRecordUpdates(ctx, spec, nil, p0) }},
		)
	}
	if al, ok := st.(altair.AltairLikeBeaconState); ok {
		ops = append(ops,
			op{"participation_set_flags", func() {
				p, err := al.CurrentEpochParticipation()
				if rng.Intn(2) == 0 {
					p, err = al.PreviousEpochParticipation()
				}
				if err == nil && n > 0 {
					p.SetFlags(vi, altair.ParticipationFlags(rng.Intn(8)))
				}
			}},
			op{"rotate_participation", func() { altair.ProcessParticipationFlagUpdates(ctx, spec, al) }},
			op{"inactivity_set_score", func() {
				if s, err := al.InactivityScores(); err == nil && n > 0 {
					s.SetScore(vi, rndU64(rng))
				}
			}},
		)
	}
	if sc, ok := st.(common.SyncCommitteeBeaconState); ok {
		mkComm := func() *common.SyncCommitteeView {
			c := common.SyncCommittee{Pubkeys: make([]common.BLSPubkey, spec.SYNC_COMMITTEE_SIZE)}
			for i := range c.Pubkeys {
				rng.Read(c.Pubkeys[i][:])
			}
			rng.Read(c.AggregatePubkey[:])
			v, err := c.View(spec)
			if err != nil {
				return nil
			}
			return v
		}
		ops = append(ops,
			op{"rotate_sync_committee", func() {
				if c := mkComm(); c != nil {
					sc.RotateSyncCommittee(c)
				}
			}},
			op{"set_current_sync_committee", func() {
				if c := mkComm(); c != nil {
					sc.SetCurrentSyncCommittee(c)
				}
			}},
		)
	}
	type withdrawalState interface {
		SetNextWithdrawalIndex(common.WithdrawalIndex) error
		SetNextWithdrawalValidatorIndex(common.ValidatorIndex) error
		IncrementNextWithdrawalIndex() error
		HistoricalSummaries() (capella.HistoricalSummariesList, error)
	}
	if ws, ok := st.(withdrawalState); ok {
		ops = append(ops,
			op{"set_next_withdrawal_index", func() { ws.SetNextWithdrawalIndex(common.WithdrawalIndex(rndU64(rng))) }},
			op{"increment_next_withdrawal_index", func() { ws.IncrementNextWithdrawalIndex() }},
			op{"set_next_withdrawal_validator_index", func() { ws.SetNextWithdrawalValidatorIndex(common.ValidatorIndex(rndU64(rng))) }},
			op{"historical_summaries_append", func() {
				if h, err := ws.HistoricalSummaries(); err == nil {
					h.Append(capella.HistoricalSummary{BlockSummaryRoot: rndRoot(rng), StateSummaryRoot: rndRoot(rng)})
				}
			}},
		)
	}
	switch s := st.(type) {
	case *bellatrix.BeaconStateView:
		ops = append(ops, op{"set_execution_payload_header", func() {
			h := &bellatrix.ExecutionPayloadHeader{ParentHash: rndRoot(rng), BlockNumber: view.Uint64View(rndU64(rng)), ExtraData: make([]byte, rng.Intn(33)), TransactionsRoot: rndRoot(rng)}
			s.SetLatestExecutionPayloadHeader(h)
		}})
	case *capella.BeaconStateView:
		ops = append(ops, op{"set_execution_payload_header", func() {
			h := &capella.ExecutionPayloadHeader{ParentHash: rndRoot(rng), BlockNumber: view.Uint64View(rndU64(rng)), ExtraData: make([]byte, rng.Intn(33)), WithdrawalsRoot: rndRoot(rng)}
			s.SetLatestExecutionPayloadHeader(h)
		}})
	case *deneb.BeaconStateView:
		ops = append(ops, op{"set_execution_payload_header", func() {
			h := &deneb.ExecutionPayloadHeader{ParentHash: rndRoot(rng), BlockNumber: view.Uint64View(rndU64(rng)), ExtraData: make([]byte, rng.Intn(33)), ExcessBlobGas: view.Uint64View(rndU64(rng))}
			s.SetLatestExecutionPayloadHeader(h)
		}})
	case *electra.BeaconStateView:
		ops = append(ops,
			op{"set_execution_payload_header", func() {
				h := &deneb.ExecutionPayloadHeader{ParentHash: rndRoot(rng), BlockNumber: view.Uint64View(rndU64(rng)), ExtraData: make([]byte, rng.Intn(33)), BlobGasUsed: view.Uint64View(rndU64(rng))}
				s.SetLatestExecutionPayloadHeader(h)
			}},
			op{"electra_set_scalar", func() {
				switch rng.Intn(6) {
				case 0:
					s.SetDepositRequestsStartIndex(view.Uint64View(rndU64(rng)))
				case 1:
					s.SetDepositBalanceToConsume(common.Gwei(rndU64(rng)))
				case 2:
					s.SetExitBalanceToConsume(common.Gwei(rndU64(rng)))
				case 3:
					s.SetEarliestExitEpoch(common.Epoch(rndU64(rng)))
				case 4:
					s.SetConsolidationBalanceToConsume(common.Gwei(rndU64(rng)))
				case 5:
					s.SetEarliestConsolidationEpoch(common.Epoch(rndU64(rng)))
				}
			}},
		)
	}
	// any fork: a payload header handed to the state, then scribbled over by the caller
	if setH := reflect.ValueOf(st).MethodByName("SetLatestExecutionPayloadHeader"); setH.IsValid() && setH.Type().NumIn() == 1 {
		ops = append(ops, op{"set_payload_header_then_scribble", func() {
			h := reflect.New(setH.Type().In(0).Elem())
			scribble(h, 0) // all-ones content …
			if f := h.Elem().FieldByName("ExtraData"); f.IsValid() {
				f.Set(reflect.MakeSlice(f.Type(), rng.Intn(33), 32))
			}
			for i := 0; i < h.Elem().NumField(); i++ {
				if f := h.Elem().Field(i); f.Kind() == reflect.Array && f.Len() == 32 {
					r := rndRoot(rng)
					reflect.Copy(f, reflect.ValueOf(r[:]))
				}
			}
			// distinct integers: exchanged same-typed leaves must show
			for i := 0; i < h.Elem().NumField(); i++ {
				if f := h.Elem().Field(i); f.Kind() == reflect.Uint64 {
					f.SetUint(rng.Uint64()>>1 + uint64(i))
				}
			}
			hb := serializeAny(spec, h.Interface())
			setH.Call([]reflect.Value{h})
			st.HashTreeRoot(tree.GetHashFn())
			// read back what the state stores: its root must be the root of the struct's encoding
			if g := reflect.ValueOf(st).MethodByName("LatestExecutionPayloadHeader"); g.IsValid() && hb != nil {
				if out := g.Call(nil); len(out) == 2 && out[1].IsNil() {
					if sv, ok := out[0].Interface().(view.View); ok {
						r := sv.HashTreeRoot(tree.GetHashFn())
						tn := strings.TrimPrefix(h.Type().String(), "*")
						m.extra = append(m.extra, fmt.Sprintf("st readback-after-set %s %s %s %s", tn, m.cfg, hex.EncodeToString(r[:]), hexOrDash(hb)))
					}
				}
			}
			scribble(h, 0)
		}})
	}
	o := ops[rng.Intn(len(ops))]
	func() {
		defer func() {
			if r := recover(); r != nil {
				label = o.name + "!panic"
			}
		}()
		o.f()
	}()
	if label == "" {
		label = o.name
	}
	m.stats.Add("mutation", label)
	return label
}

// replaceField replaces one top-level field of the state by a view freshly decoded from generated bytes
// (whole-subtree replacement through ContainerView.Set).
func (m *mutator) replaceField(st common.BeaconState) {
	cl, ok := st.(containerLike)
	td, ok2 := st.Type().(*view.ContainerTypeDef)
	if !ok || !ok2 || len(td.Fields) != len(m.schema.Fields) {
		return
	}
	i := m.rng.Intn(len(td.Fields))
	ft := m.schema.Fields[i].T
	if ft.MinSize() > 20000 {
		return
	}
	g := &generator{rng: m.rng, mode: gRand, budget: 400, overList: -1}
	b, _ := Encode(ft, g.gen(ft))
	v, err := td.Fields[i].Type.Deserialize(codec.NewDecodingReader(bytes.NewReader(b), uint64(len(b))))
	if err != nil {
		return
	}
	cl.Set(uint64(i), v)
}

// emitState writes the line of one live copy. prev (may be nil) is the serialization of the same copy before a
// mutation of ANOTHER copy: if it changed, the copy was disturbed through shared nodes; the line then
// carries `disturbed` in place of the reported root, which no oracle answer can equal.
func emitState(w *bufio.Writer, label, typ, cfg string, st common.BeaconState, prev []byte) (out []byte) {
	defer func() {
		if r := recover(); r != nil {
			// the tree is in a state in which it cannot even be hashed/serialized: a line the oracle cannot agree with
			fmt.Fprintf(w, "st %s!panic %s %s panic -\n", label, typ, cfg)
			out = nil
		}
	}()
	var buf bytes.Buffer
	if err := st.Serialize(codec.NewEncodingWriter(&buf)); err != nil {
		fmt.Fprintf(w, "st %s!serialize-error %s %s serialize-error -\n", label, typ, cfg)
		return nil
	}
	r := st.HashTreeRoot(tree.GetHashFn())
	claimed := hex.EncodeToString(r[:])
	if prev != nil && !bytes.Equal(prev, buf.Bytes()) {
		claimed = "disturbed"
	}
	fmt.Fprintf(w, "st %s %s %s %s %s\n", label, typ, cfg, claimed, hexOrDash(buf.Bytes()))
	return buf.Bytes()
}

func genState(o hreg.Opts, w *bufio.Writer) error {
	rng := o.Rand()
	// small-state presets: every vector a handful of entries, so a state is ~1-2 kB
	small := map[string]uint64{
		"SLOTS_PER_HISTORICAL_ROOT": 4, "EPOCHS_PER_HISTORICAL_VECTOR": 3, "EPOCHS_PER_SLASHINGS_VECTOR": 5,
		"SYNC_COMMITTEE_SIZE": 4, "HISTORICAL_ROOTS_LIMIT": 5, "VALIDATOR_REGISTRY_LIMIT": 21,
		"EPOCHS_PER_ETH1_VOTING_PERIOD": 2, "SLOTS_PER_EPOCH": 2, "MAX_ATTESTATIONS": 2, "MAX_VALIDATORS_PER_COMMITTEE": 12,
		"PENDING_DEPOSITS_LIMIT": 3, "PENDING_PARTIAL_WITHDRAWALS_LIMIT": 4, "PENDING_CONSOLIDATIONS_LIMIT": 2,
	}
	wide := map[string]uint64{
		"SLOTS_PER_HISTORICAL_ROOT": 8, "EPOCHS_PER_HISTORICAL_VECTOR": 8, "EPOCHS_PER_SLASHINGS_VECTOR": 4,
		"SYNC_COMMITTEE_SIZE": 8, "HISTORICAL_ROOTS_LIMIT": 1 << 24, "VALIDATOR_REGISTRY_LIMIT": 1 << 40,
	}
	cfgs := []preset{{"small", cfgToken(customSpec(small))}, {"wide-limits", cfgToken(customSpec(wide))}}
	var names []string
	for _, c := range stateCtors {
		names = append(names, c.fork+".BeaconState")
	}
	var toks []string
	for _, c := range cfgs {
		toks = append(toks, c.tok)
	}
	schemas, err := SpecSchemas(names, toks)
	if err != nil {
		return err
	}
	fmt.Fprintf(w, "keys %s\n", joinKeys())
	nSeq := o.Pick(10, 60) // per fork and preset
	nSteps := o.Pick(24, 60)
	total := 0
	for _, p := range cfgs {
		spec, err := specOfToken(p.tok)
		if err != nil {
			return err
		}
		for _, c := range stateCtors {
			typ := c.fork + ".BeaconState"
			schema := schemas[typ+" "+p.tok]
			if schema == nil {
				return fmt.Errorf("no specification schema for %s", typ)
			}
			e := byName[typ]
			for s := 0; s < nSeq; s++ {
				var st common.BeaconState
				if s%2 == 0 {
					st = c.mk(spec)
					o.Stats.Add("initial-state", "default")
				} else {
					g := &generator{rng: rng, mode: gRand, budget: 600, overList: -1}
					b, _ := Encode(schema, g.gen(schema))
					st, err = c.as(e.View(spec).Deserialize(codec.NewDecodingReader(bytes.NewReader(b), uint64(len(b)))))
					if err != nil {
						return fmt.Errorf("generated %s does not decode: %v", typ, err)
					}
					o.Stats.Add("initial-state", "generated")
				}
				m := &mutator{rng: rng, spec: spec, schema: schema, stats: o.Stats, cfg: p.tok}
				live := []common.BeaconState{st}
				last := [][]byte{emitState(w, "initial", typ, p.tok, st, nil)}
				total += len(last[0])
				for i := 0; i < nSteps; i++ {
					if len(live) < 3 && rng.Intn(8) == 0 {
						cp, err := live[rng.Intn(len(live))].CopyState()
						if err == nil {
							live = append(live, cp)
							o.Stats.Add("mutation", "copy_state")
							// the copy itself must already report a consistent root
							last = append(last, emitState(w, "copy_state", typ, p.tok, cp, nil))
							total += len(last[len(last)-1])
							continue
						}
					}
					k := rng.Intn(len(live))
					label := m.step(live[k])
					for _, x := range m.extra {
						fmt.Fprintln(w, x)
					}
					m.extra = nil
					if strings.HasSuffix(label, "!panic") {
						// a mutation of the state API panicked: a line the oracle cannot agree with (Go answers `panic`)
						fmt.Fprintf(w, "st %s %s %s panic -\n", label, typ, p.tok)
					}
					// after a mutation of one copy every live copy is checked: the mutated one for the new
					// content, the others for not having been disturbed through shared nodes
					for j, l := range live {
						if j != k {
							last[j] = emitState(w, "sibling-after-"+label, typ, p.tok, l, last[j])
						} else {
							last[j] = emitState(w, label, typ, p.tok, l, nil)
						}
						total += len(last[j])
					}
				}
				o.Stats.Add("copies-at-end", fmt.Sprintf("%d", len(live)))
			}
		}
	}
	if err := genAliasing(o, w, rng, []preset{cfgs[0], {"minimal", cfgToken(configs.Minimal)}}); err != nil {
		return err
	}
	o.Stats.Add("ops-hex-megabytes", fmt.Sprintf("%d", total*2>>20))
	_ = total
	return nil
}

func serializeAny(spec *common.Spec, obj interface{}) []byte {
	o := wrap(spec, obj)
	if o == nil {
		return nil
	}
	var buf bytes.Buffer
	if err := o.Serialize(codec.NewEncodingWriter(&buf)); err != nil {
		return nil
	}
	return buf.Bytes()
}
