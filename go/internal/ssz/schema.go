package ssz

import (
	"bufio"
	"fmt"
	"os"
	"os/exec"
	"path/filepath"
	"strconv"
	"strings"
)

// Ty mirrors Zrnt.SSZ.Ty. The harness never defines a schema of its own: it asks `zmodel ssz`
// (`schema <Type> <cfg>`) for the SPECIFICATION schema evaluated at a configuration and uses it only to
// drive the type-directed generators.
type Kind int

const (
	KUint Kind = iota
	KBool
	KBytesN
	KVector
	KList
	KBitvector
	KBitlist
	KByteList
	KContainer
)

type Field struct {
	Name string
	T    *Ty
}

type Ty struct {
	Kind   Kind
	N      uint64 // byte width / length / limit
	Elem   *Ty
	Fields []Field
}

// FixedLen returns (size, true) for fixed-size types.
func (t *Ty) FixedLen() (uint64, bool) {
	switch t.Kind {
	case KUint:
		return t.N, true
	case KBool:
		return 1, true
	case KBytesN:
		return t.N, true
	case KVector:
		s, ok := t.Elem.FixedLen()
		return s * t.N, ok
	case KBitvector:
		return (t.N + 7) / 8, true
	case KContainer:
		var sum uint64
		for _, f := range t.Fields {
			s, ok := f.T.FixedLen()
			if !ok {
				return 0, false
			}
			sum += s
		}
		return sum, true
	}
	return 0, false
}

// MinSize is the size of the smallest encoding of the type.
func (t *Ty) MinSize() uint64 {
	if s, ok := t.FixedLen(); ok {
		return s
	}
	switch t.Kind {
	case KVector:
		return t.N * (4 + t.Elem.MinSize())
	case KBitlist:
		return 1
	case KContainer:
		var sum uint64
		for _, f := range t.Fields {
			if s, ok := f.T.FixedLen(); ok {
				sum += s
			} else {
				sum += 4 + f.T.MinSize()
			}
		}
		return sum
	}
	return 0
}

type sexpParser struct {
	toks []string
	i    int
}

func tokenizeSexp(s string) []string {
	s = strings.ReplaceAll(s, "(", " ( ")
	s = strings.ReplaceAll(s, ")", " ) ")
	return strings.Fields(s)
}

func (p *sexpParser) next() (string, error) {
	if p.i >= len(p.toks) {
		return "", fmt.Errorf("unexpected end of schema expression")
	}
	t := p.toks[p.i]
	p.i++
	return t, nil
}

func (p *sexpParser) num() (uint64, error) {
	t, err := p.next()
	if err != nil {
		return 0, err
	}
	return strconv.ParseUint(t, 10, 64)
}

func (p *sexpParser) closeParen() error {
	t, err := p.next()
	if err != nil {
		return err
	}
	if t != ")" {
		return fmt.Errorf("expected ) got %q", t)
	}
	return nil
}

func (p *sexpParser) ty() (*Ty, error) {
	t, err := p.next()
	if err != nil {
		return nil, err
	}
	if t == "b" {
		return &Ty{Kind: KBool}, nil
	}
	if t != "(" {
		return nil, fmt.Errorf("unexpected token %q", t)
	}
	head, err := p.next()
	if err != nil {
		return nil, err
	}
	simple := map[string]Kind{"u": KUint, "B": KBytesN, "bv": KBitvector, "bl": KBitlist, "BL": KByteList}
	if k, ok := simple[head]; ok {
		n, err := p.num()
		if err != nil {
			return nil, err
		}
		return &Ty{Kind: k, N: n}, p.closeParen()
	}
	switch head {
	case "V", "L":
		e, err := p.ty()
		if err != nil {
			return nil, err
		}
		n, err := p.num()
		if err != nil {
			return nil, err
		}
		k := KVector
		if head == "L" {
			k = KList
		}
		return &Ty{Kind: k, N: n, Elem: e}, p.closeParen()
	case "C":
		out := &Ty{Kind: KContainer}
		for {
			if p.i < len(p.toks) && p.toks[p.i] == ")" {
				p.i++
				return out, nil
			}
			name, err := p.next()
			if err != nil {
				return nil, err
			}
			ft, err := p.ty()
			if err != nil {
				return nil, err
			}
			out.Fields = append(out.Fields, Field{name, ft})
		}
	}
	return nil, fmt.Errorf("unknown schema head %q", head)
}

func ParseTy(s string) (*Ty, error) {
	p := &sexpParser{toks: tokenizeSexp(s)}
	t, err := p.ty()
	if err != nil {
		return nil, fmt.Errorf("%v in %q", err, s)
	}
	if p.i != len(p.toks) {
		return nil, fmt.Errorf("trailing tokens in %q", s)
	}
	return t, nil
}

// zmodelPath finds the compiled model next to the harness binary (/verif/build/harness ->
// /verif/lean/.lake/build/bin/zmodel); VERIF_ZMODEL overrides.
func zmodelPath() (string, error) {
	if p := os.Getenv("VERIF_ZMODEL"); p != "" {
		return p, nil
	}
	exe, err := os.Executable()
	if err != nil {
		return "", err
	}
	exe, _ = filepath.EvalSymlinks(exe)
	cands := []string{
		filepath.Join(filepath.Dir(exe), "..", "lean", ".lake", "build", "bin", "zmodel"),
		"/verif/lean/.lake/build/bin/zmodel",
	}
	for _, c := range cands {
		if _, err := os.Stat(c); err == nil {
			return c, nil
		}
	}
	return "", fmt.Errorf("zmodel not found (looked in %v)", cands)
}

// SpecSchemas asks zmodel for the specification schema of every (type, cfg) pair. The first request is the
// `keys` handshake, so that a drift between the harness's and the model's configuration key order is an error.
// RawSchemas: the s-expressions as answered by zmodel (to tell whether two configurations give a type the same schema)
var RawSchemas = map[string]string{}

func SpecSchemas(names []string, cfgs []string) (map[string]*Ty, error) {
	zp, err := zmodelPath()
	if err != nil {
		return nil, err
	}
	var in strings.Builder
	in.WriteString("keys " + strings.Join(ConfigKeys, ",") + "\n")
	for _, c := range cfgs {
		for _, n := range names {
			fmt.Fprintf(&in, "schema %s %s\n", n, c)
		}
	}
	cmd := exec.Command(zp, "ssz")
	cmd.Stdin = strings.NewReader(in.String())
	outb, err := cmd.Output()
	if err != nil {
		return nil, fmt.Errorf("zmodel ssz: %v", err)
	}
	sc := bufio.NewScanner(strings.NewReader(string(outb)))
	sc.Buffer(make([]byte, 1<<20), 1<<26)
	if !sc.Scan() || strings.TrimSpace(sc.Text()) != "ok" {
		return nil, fmt.Errorf("configuration keys of harness and model differ (zmodel answered %q)", sc.Text())
	}
	out := map[string]*Ty{}
	for _, c := range cfgs {
		for _, n := range names {
			if !sc.Scan() {
				return nil, fmt.Errorf("zmodel: missing schema answer for %s", n)
			}
			line := strings.TrimSpace(sc.Text())
			if line == "bad-op" {
				continue // the specification schema has no entry of that name: reported by the exec/diff as bad-op
			}
			t, err := ParseTy(line)
			if err != nil {
				return nil, err
			}
			out[n+" "+c] = t
			RawSchemas[n+" "+c] = line
		}
	}
	return out, nil
}
