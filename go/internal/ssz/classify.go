package ssz

import "encoding/binary"

// hasZeroLenItem reports whether the byte string, read as an encoding of t, contains a list of
// variable-size elements one of whose elements has length zero although every valid encoding of the
// element type is non-empty. (ztyp's DecodingReader.List skips such elements and leaves them at their
// default value; see known_findings.jsonl.) The walk gives up (false) on any other inconsistency.
func hasZeroLenItem(t *Ty, b []byte) bool {
	if _, fixed := t.FixedLen(); fixed {
		return false
	}
	parts := func(ts []*Ty) ([][]byte, bool) {
		out := make([][]byte, len(ts))
		pos := 0
		var offs []int
		var idx []int
		for i, ft := range ts {
			if s, ok := ft.FixedLen(); ok {
				if pos+int(s) > len(b) {
					return nil, false
				}
				out[i] = b[pos : pos+int(s)]
				pos += int(s)
			} else {
				if pos+4 > len(b) {
					return nil, false
				}
				offs = append(offs, int(binary.LittleEndian.Uint32(b[pos:])))
				idx = append(idx, i)
				pos += 4
			}
		}
		for k, o := range offs {
			end := len(b)
			if k+1 < len(offs) {
				end = offs[k+1]
			}
			if (k == 0 && o != pos) || o > end || end > len(b) {
				return nil, false
			}
			out[idx[k]] = b[o:end]
		}
		return out, true
	}
	switch t.Kind {
	case KList, KVector:
		if _, ok := t.Elem.FixedLen(); ok {
			return false
		}
		n := int(t.N)
		if t.Kind == KList {
			if len(b) < 4 {
				return false
			}
			o := int(binary.LittleEndian.Uint32(b))
			if o%4 != 0 || o > len(b) || o == 0 {
				return false
			}
			n = o / 4
		}
		ts := make([]*Ty, n)
		for i := range ts {
			ts[i] = t.Elem
		}
		ps, ok := parts(ts)
		if !ok {
			return false
		}
		for _, p := range ps {
			if len(p) == 0 && t.Elem.MinSize() > 0 {
				return true
			}
			if hasZeroLenItem(t.Elem, p) {
				return true
			}
		}
	case KContainer:
		ts := make([]*Ty, len(t.Fields))
		for i := range ts {
			ts[i] = t.Fields[i].T
		}
		ps, ok := parts(ts)
		if !ok {
			return false
		}
		for i, p := range ps {
			if hasZeroLenItem(ts[i], p) {
				return true
			}
		}
	}
	return false
}
