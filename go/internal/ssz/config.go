package ssz

import (
	"fmt"
	"math/rand"
	"reflect"
	"strconv"
	"strings"
	"sync"

	"github.com/protolambda/zrnt/eth2/beacon/common"
	"github.com/protolambda/zrnt/eth2/configs"
)

// ConfigKeys: the configuration constants that occur in some SSZ schema, in the order used on op lines
// (must equal Zrnt.Schema.Spec.configKeys; checked by the `keys` handshake line).
var ConfigKeys = []string{
	"MAX_COMMITTEES_PER_SLOT", "MAX_VALIDATORS_PER_COMMITTEE", "SLOTS_PER_EPOCH", "EPOCHS_PER_ETH1_VOTING_PERIOD",
	"SLOTS_PER_HISTORICAL_ROOT", "EPOCHS_PER_HISTORICAL_VECTOR", "EPOCHS_PER_SLASHINGS_VECTOR",
	"HISTORICAL_ROOTS_LIMIT", "VALIDATOR_REGISTRY_LIMIT",
	"MAX_PROPOSER_SLASHINGS", "MAX_ATTESTER_SLASHINGS", "MAX_ATTESTATIONS", "MAX_DEPOSITS", "MAX_VOLUNTARY_EXITS",
	"SYNC_COMMITTEE_SIZE",
	"MAX_BYTES_PER_TRANSACTION", "MAX_TRANSACTIONS_PER_PAYLOAD",
	"MAX_BLS_TO_EXECUTION_CHANGES", "MAX_WITHDRAWALS_PER_PAYLOAD",
	"MAX_BLOB_COMMITMENTS_PER_BLOCK",
	"PENDING_DEPOSITS_LIMIT", "PENDING_PARTIAL_WITHDRAWALS_LIMIT", "PENDING_CONSOLIDATIONS_LIMIT",
	"MAX_ATTESTER_SLASHINGS_ELECTRA", "MAX_ATTESTATIONS_ELECTRA",
	"MAX_CONSOLIDATION_REQUESTS_PER_PAYLOAD", "MAX_DEPOSIT_REQUESTS_PER_PAYLOAD", "MAX_WITHDRAWAL_REQUESTS_PER_PAYLOAD",
	"MAX_EXTRA_DATA_BYTES", "BYTES_PER_LOGS_BLOOM",
}

// cfgToken renders the SSZ-relevant constants of a spec as the positional token of an op line.
func cfgToken(spec *common.Spec) string {
	v := reflect.ValueOf(spec).Elem()
	parts := make([]string, len(ConfigKeys))
	for i, k := range ConfigKeys {
		f := v.FieldByName(k)
		if !f.IsValid() {
			panic("spec has no field " + k)
		}
		parts[i] = strconv.FormatUint(f.Uint(), 10)
	}
	return strings.Join(parts, ",")
}

var specCache sync.Map

// specOfToken builds a *common.Spec whose SSZ-relevant constants are the token's values (all other
// constants are mainnet's; they do not influence any SSZ method).
func specOfToken(tok string) (*common.Spec, error) {
	if s, ok := specCache.Load(tok); ok {
		return s.(*common.Spec), nil
	}
	parts := strings.Split(tok, ",")
	if len(parts) != len(ConfigKeys) {
		return nil, fmt.Errorf("config token has %d values, want %d", len(parts), len(ConfigKeys))
	}
	cp := *configs.Mainnet
	v := reflect.ValueOf(&cp).Elem()
	for i, k := range ConfigKeys {
		n, err := strconv.ParseUint(parts[i], 10, 64)
		if err != nil {
			return nil, err
		}
		v.FieldByName(k).SetUint(n)
	}
	specCache.Store(tok, &cp)
	return &cp, nil
}

type preset struct {
	name string
	tok  string
}

func customSpec(vals map[string]uint64) *common.Spec {
	cp := *configs.Minimal
	v := reflect.ValueOf(&cp).Elem()
	for k, n := range vals {
		f := v.FieldByName(k)
		if !f.IsValid() {
			panic("spec has no field " + k)
		}
		f.SetUint(n)
	}
	return &cp
}

// presets: the two published presets and three custom ones: `tiny` (every limit reachable within a few
// hundred bytes, so "maximal" and "one over the limit" values exist for every list), `odd` (limits that are
// not powers of two and not multiples of the packing factor: Merkle depth rounding, partial last chunks),
// and one drawn from the run's PRNG.
func presets(rng *rand.Rand) []preset {
	tiny := map[string]uint64{
		"MAX_COMMITTEES_PER_SLOT": 2, "MAX_VALIDATORS_PER_COMMITTEE": 9, "SLOTS_PER_EPOCH": 3, "EPOCHS_PER_ETH1_VOTING_PERIOD": 2,
		"SLOTS_PER_HISTORICAL_ROOT": 5, "EPOCHS_PER_HISTORICAL_VECTOR": 3, "EPOCHS_PER_SLASHINGS_VECTOR": 5,
		"HISTORICAL_ROOTS_LIMIT": 3, "VALIDATOR_REGISTRY_LIMIT": 11,
		"MAX_PROPOSER_SLASHINGS": 1, "MAX_ATTESTER_SLASHINGS": 1, "MAX_ATTESTATIONS": 3, "MAX_DEPOSITS": 1, "MAX_VOLUNTARY_EXITS": 2,
		"SYNC_COMMITTEE_SIZE": 12,
		"MAX_BYTES_PER_TRANSACTION": 33, "MAX_TRANSACTIONS_PER_PAYLOAD": 3,
		"MAX_BLS_TO_EXECUTION_CHANGES": 2, "MAX_WITHDRAWALS_PER_PAYLOAD": 3,
		"MAX_BLOB_COMMITMENTS_PER_BLOCK":     5,
		"PENDING_DEPOSITS_LIMIT":             3, "PENDING_PARTIAL_WITHDRAWALS_LIMIT": 5, "PENDING_CONSOLIDATIONS_LIMIT": 2,
		"MAX_ATTESTER_SLASHINGS_ELECTRA":     1, "MAX_ATTESTATIONS_ELECTRA": 2,
		"MAX_CONSOLIDATION_REQUESTS_PER_PAYLOAD": 1, "MAX_DEPOSIT_REQUESTS_PER_PAYLOAD": 2, "MAX_WITHDRAWAL_REQUESTS_PER_PAYLOAD": 3,
	}
	odd := map[string]uint64{
		"MAX_COMMITTEES_PER_SLOT": 5, "MAX_VALIDATORS_PER_COMMITTEE": 257, "SLOTS_PER_EPOCH": 6, "EPOCHS_PER_ETH1_VOTING_PERIOD": 3,
		"SLOTS_PER_HISTORICAL_ROOT": 17, "EPOCHS_PER_HISTORICAL_VECTOR": 33, "EPOCHS_PER_SLASHINGS_VECTOR": 9,
		"HISTORICAL_ROOTS_LIMIT": 1025, "VALIDATOR_REGISTRY_LIMIT": 4097,
		"MAX_PROPOSER_SLASHINGS": 3, "MAX_ATTESTER_SLASHINGS": 3, "MAX_ATTESTATIONS": 9, "MAX_DEPOSITS": 5, "MAX_VOLUNTARY_EXITS": 7,
		"SYNC_COMMITTEE_SIZE": 36,
		"MAX_BYTES_PER_TRANSACTION": 1000, "MAX_TRANSACTIONS_PER_PAYLOAD": 17,
		"MAX_BLS_TO_EXECUTION_CHANGES": 5, "MAX_WITHDRAWALS_PER_PAYLOAD": 6,
		"MAX_BLOB_COMMITMENTS_PER_BLOCK":     9,
		"PENDING_DEPOSITS_LIMIT":             65, "PENDING_PARTIAL_WITHDRAWALS_LIMIT": 63, "PENDING_CONSOLIDATIONS_LIMIT": 10,
		"MAX_ATTESTER_SLASHINGS_ELECTRA":     2, "MAX_ATTESTATIONS_ELECTRA": 5,
		"MAX_CONSOLIDATION_REQUESTS_PER_PAYLOAD": 3, "MAX_DEPOSIT_REQUESTS_PER_PAYLOAD": 9, "MAX_WITHDRAWAL_REQUESTS_PER_PAYLOAD": 5,
	}
	rnd := map[string]uint64{}
	for _, k := range ConfigKeys {
		if k == "MAX_EXTRA_DATA_BYTES" || k == "BYTES_PER_LOGS_BLOOM" {
			continue // varied only by the `xdata` preset (zrnt hard-codes them: known finding)
		}
		switch rng.Intn(3) {
		case 0:
			rnd[k] = uint64(1 + rng.Intn(8))
		case 1:
			rnd[k] = uint64(1 + rng.Intn(70))
		default:
			rnd[k] = uint64(1) << uint(rng.Intn(11))
		}
	}
	rnd["SYNC_COMMITTEE_SIZE"] = 4 * uint64(1+rng.Intn(24))
	return []preset{
		{"mainnet", cfgToken(configs.Mainnet)},
		{"minimal", cfgToken(configs.Minimal)},
		{"tiny", cfgToken(customSpec(tiny))},
		{"odd", cfgToken(customSpec(odd))},
		{"random", cfgToken(customSpec(rnd))},
		// lengths whose chunk count is not a power of two and whose byte length is not a multiple of 32
		// (bitvectors of 2.5 / 2.7 / 0.6 chunks, vectors of 5.25 / 5 / 6 chunks)
		{"chunks", cfgToken(customSpec(mergeMaps(odd, map[string]uint64{
			"SYNC_COMMITTEE_SIZE": 640, "MAX_COMMITTEES_PER_SLOT": 700, "EPOCHS_PER_SLASHINGS_VECTOR": 21,
			"SLOTS_PER_HISTORICAL_ROOT": 6, "EPOCHS_PER_HISTORICAL_VECTOR": 5, "MAX_VALIDATORS_PER_COMMITTEE": 20,
		})))},
		// the two bellatrix preset values zrnt hard-codes (package constants 32 and 256): only the types that
		// hold them directly are run under this preset (see xdataTypes), the disagreement is a known finding
		{"xdata", cfgToken(customSpec(map[string]uint64{"MAX_EXTRA_DATA_BYTES": 48, "BYTES_PER_LOGS_BLOOM": 128}))},
	}
}

// xdataTypes: the types run under the `xdata` preset
var xdataTypes = map[string]bool{"common.ExtraData": true, "common.LogsBloom": true, "bellatrix.ExecutionPayloadHeader": true}

func mergeMaps(a, b map[string]uint64) map[string]uint64 {
	out := map[string]uint64{}
	for k, v := range a {
		out[k] = v
	}
	for k, v := range b {
		out[k] = v
	}
	return out
}
