package ssz

import (
	"encoding/binary"
	"math/rand"
)

// Val is a generated value of a schema type (shape follows the type).
type Val struct {
	Bytes []byte // uint (little endian, width N), bool (1 byte), bytesN, byteList
	Bits  []bool // bitvector, bitlist
	Seq   []*Val // vector, list, container
	// Raw, when HasRaw is set, is written in place of the node's encoding (the enclosing offsets stay
	// consistent): used to plant a malformed encoding of one nested node.
	Raw    []byte
	HasRaw bool
}

// mark: a position of structural interest in an encoding (for the structure-aware mutations)
type mark struct {
	kind string // off | bound | bool | bitlast | bvlast
	pos  int
	aux  int // off: absolute start of the scope the offset is relative to; bvlast: number of used bits in the last byte
}

type encoder struct {
	marks []mark
}

func (e *encoder) mark(kind string, pos, aux int) { e.marks = append(e.marks, mark{kind, pos, aux}) }

func packBits(bits []bool, extra bool) []byte {
	n := len(bits)
	if extra {
		n++
	}
	out := make([]byte, (n+7)/8)
	for i, b := range bits {
		if b {
			out[i/8] |= 1 << uint(i%8)
		}
	}
	if extra {
		out[len(bits)/8] |= 1 << uint(len(bits)%8)
	}
	return out
}

// encode appends the SSZ encoding of v to dst; base is the absolute position of dst[0] of the outermost buffer.
func (e *encoder) encode(t *Ty, v *Val, dst []byte) []byte {
	if v.HasRaw {
		return append(dst, v.Raw...)
	}
	switch t.Kind {
	case KUint, KBytesN, KByteList:
		return append(dst, v.Bytes...)
	case KBool:
		e.mark("bool", len(dst), 0)
		return append(dst, v.Bytes...)
	case KBitvector:
		b := packBits(v.Bits, false)
		dst = append(dst, b...)
		if t.N%8 != 0 && len(b) > 0 {
			e.mark("bvlast", len(dst)-1, int(t.N%8))
		}
		return dst
	case KBitlist:
		dst = append(dst, packBits(v.Bits, true)...)
		e.mark("bitlast", len(dst)-1, 0)
		return dst
	case KVector, KList:
		ts := make([]*Ty, len(v.Seq))
		for i := range ts {
			ts[i] = t.Elem
		}
		return e.encodeParts(ts, v.Seq, dst)
	case KContainer:
		ts := make([]*Ty, len(t.Fields))
		for i := range ts {
			ts[i] = t.Fields[i].T
		}
		return e.encodeParts(ts, v.Seq, dst)
	}
	panic("bad kind")
}

func (e *encoder) encodeParts(ts []*Ty, vs []*Val, dst []byte) []byte {
	start := len(dst)
	fixedLen := 0
	for _, t := range ts {
		if s, ok := t.FixedLen(); ok {
			fixedLen += int(s)
		} else {
			fixedLen += 4
		}
	}
	// variable parts are encoded into a side buffer first so that offsets are known
	type pend struct {
		t *Ty
		v *Val
		o int // position of the offset
	}
	var pends []pend
	for i, t := range ts {
		e.mark("bound", len(dst), 0)
		if _, ok := t.FixedLen(); ok {
			dst = e.encode(t, vs[i], dst)
		} else {
			e.mark("off", len(dst), start)
			pends = append(pends, pend{t, vs[i], len(dst)})
			dst = append(dst, 0, 0, 0, 0)
		}
	}
	for _, p := range pends {
		e.mark("bound", len(dst), 0)
		binary.LittleEndian.PutUint32(dst[p.o:], uint32(len(dst)-start))
		dst = e.encode(p.t, p.v, dst)
	}
	_ = fixedLen
	return dst
}

func Encode(t *Ty, v *Val) ([]byte, []mark) {
	e := &encoder{}
	b := e.encode(t, v, nil)
	return b, e.marks
}

// generation -------------------------------------------------------------------------------------------

type genMode int

const (
	gEmpty genMode = iota // zero values, empty lists
	gMin                  // one element per list, small numbers
	gMax                  // lists as long as the limit / the byte budget allows, all-ones data
	gBound                // list lengths at chunk (32-byte) boundaries and at limit-1 / limit
	gRand                 // per-node random choice
	gDistinct             // every scalar leaf a different non-zero value (neighbouring same-typed fields differ); lists one element
)

type generator struct {
	rng    *rand.Rand
	mode   genMode
	budget int64 // bytes that variable-size parts may still consume
	// overList >= 0: the overList-th list-like node (list, bitlist, byteList) met during generation gets limit+1 elements
	counter    int
	overList   int
	overBudget int64
	listSeen   int
	overDone   bool
}

func maxU64(a, b uint64) uint64 {
	if a > b {
		return a
	}
	return b
}

// perByte: bitlists count bits, 8 per byte
func perByte(per uint64) uint64 {
	if per == 256 {
		return 8
	}
	return 1
}

func (g *generator) nodeMode() genMode {
	if g.mode == gDistinct {
		return gDistinct
	}
	if g.mode != gRand {
		return g.mode
	}
	switch g.rng.Intn(10) {
	case 0:
		return gEmpty
	case 1:
		return gMin
	case 2, 3:
		return gBound
	case 4:
		return gMax
	}
	return gRand
}

func (g *generator) fill(n int, m genMode) []byte {
	b := make([]byte, n)
	switch m {
	case gEmpty:
	case gMin:
		if n > 0 {
			b[0] = 1
		}
	case gMax:
		for i := range b {
			b[i] = 0xff
		}
	case gDistinct:
		g.counter++
		for i := range b {
			b[i] = byte(g.counter*37 + i*11 + 1)
		}
	default:
		g.rng.Read(b)
		if n > 0 && g.rng.Intn(4) == 0 { // small numbers are common in practice
			for i := 1; i < n; i++ {
				b[i] = 0
			}
		}
	}
	return b
}

// pickLen chooses a list length. unit: bytes per element (minimum), per: elements per 32-byte chunk (0 for composite elements).
func (g *generator) pickLen(limit uint64, unit uint64, per uint64, m genMode) uint64 {
	maxByBudget := uint64(0)
	if g.budget > 0 {
		if unit == 0 {
			unit = 1
		}
		maxByBudget = uint64(g.budget) / unit
	}
	feasible := limit
	if maxByBudget < feasible {
		feasible = maxByBudget
	}
	var n uint64
	switch m {
	case gEmpty:
		n = 0
	case gMin, gDistinct:
		n = 1
	case gMax:
		n = feasible
	case gBound:
		cands := []uint64{1, 2, 3, 4, 5}
		if per > 0 {
			cands = []uint64{per - 1, per, per + 1, 2*per - 1, 2 * per, 2*per + 1, 3 * per, 8*per + 1}
		}
		if limit > 0 {
			cands = append(cands, limit-1, limit, limit, limit/2, limit/2+1)
		}
		n = cands[g.rng.Intn(len(cands))]
	default:
		switch g.rng.Intn(4) {
		case 0:
			n = uint64(g.rng.Intn(4))
		case 1:
			n = uint64(g.rng.Intn(40))
		default:
			if feasible > 0 {
				n = uint64(g.rng.Int63n(int64(feasible) + 1))
			}
		}
	}
	if n > feasible {
		n = feasible
	}
	return n
}

func (g *generator) listLen(limit, unit, per uint64) uint64 {
	idx := g.listSeen
	g.listSeen++
	if g.overList >= 0 && idx == g.overList {
		if u := maxU64(unit, 1); limit < (1<<40) && (limit+1)*u/maxU64(perByte(per), 1) <= uint64(g.overBudget) {
			g.overDone = true
			return limit + 1
		}
	}
	return g.pickLen(limit, unit, per, g.nodeMode())
}

func (g *generator) gen(t *Ty) *Val {
	switch t.Kind {
	case KUint:
		return &Val{Bytes: g.fill(int(t.N), g.nodeMode())}
	case KBool:
		m := g.nodeMode()
		b := byte(0)
		if m == gMin || m == gMax || (m != gEmpty && g.rng.Intn(2) == 0) {
			b = 1
		}
		return &Val{Bytes: []byte{b}}
	case KBytesN:
		return &Val{Bytes: g.fill(int(t.N), g.nodeMode())}
	case KByteList:
		n := g.listLen(t.N, 1, 32)
		g.budget -= int64(n)
		return &Val{Bytes: g.fill(int(n), g.nodeMode())}
	case KBitvector:
		return &Val{Bits: g.bits(int(t.N), g.nodeMode())}
	case KBitlist:
		n := g.listLen(t.N, 1, 256) // budgeted as if a bit cost a byte: conservative
		g.budget -= int64(n / 8)
		return &Val{Bits: g.bits(int(n), g.nodeMode())}
	case KVector:
		out := &Val{Seq: make([]*Val, t.N)}
		for i := range out.Seq {
			out.Seq[i] = g.gen(t.Elem)
		}
		return out
	case KList:
		unit := t.Elem.MinSize()
		per := uint64(0)
		if t.Elem.Kind == KUint || t.Elem.Kind == KBool {
			per = 32 / unit
		} else if _, ok := t.Elem.FixedLen(); !ok {
			unit += 4
		}
		n := g.listLen(t.N, unit, per)
		g.budget -= int64(n * unit)
		out := &Val{Seq: make([]*Val, n)}
		for i := range out.Seq {
			out.Seq[i] = g.gen(t.Elem)
		}
		return out
	case KContainer:
		out := &Val{Seq: make([]*Val, len(t.Fields))}
		for i, f := range t.Fields {
			out.Seq[i] = g.gen(f.T)
		}
		return out
	}
	panic("bad kind")
}

func (g *generator) bits(n int, m genMode) []bool {
	out := make([]bool, n)
	for i := range out {
		switch m {
		case gEmpty:
		case gMin:
			out[i] = i == 0
		case gDistinct:
			out[i] = (i*7+g.counter)%3 == 0
		case gMax:
			out[i] = true
		default:
			out[i] = g.rng.Intn(2) == 0
		}
	}
	return out
}

// countLists returns the number of list-like nodes met when generating a value with all lists holding one element.
func countLists(t *Ty) int {
	switch t.Kind {
	case KByteList, KBitlist:
		return 1
	case KList:
		return 1 + countLists(t.Elem)
	case KVector:
		if t.N == 0 {
			return 0
		}
		return int(t.N) * countLists(t.Elem)
	case KContainer:
		n := 0
		for _, f := range t.Fields {
			n += countLists(f.T)
		}
		return n
	}
	return 0
}

// node of a value tree together with its type
type tnode struct {
	t *Ty
	v *Val
}

// varNodes lists the nested (non-root) nodes of variable-size type.
func varNodes(t *Ty, v *Val, root bool, out *[]tnode) {
	if _, fixed := t.FixedLen(); fixed {
		return
	}
	if !root {
		*out = append(*out, tnode{t, v})
	}
	switch t.Kind {
	case KVector, KList:
		for _, e := range v.Seq {
			varNodes(t.Elem, e, false, out)
		}
	case KContainer:
		for i, f := range t.Fields {
			varNodes(f.T, v.Seq[i], false, out)
		}
	}
}
