package beaconepoch

import (
	"bufio"
	"fmt"
	"math/big"
	"math/rand"
	"strconv"

	blsu "github.com/protolambda/bls12-381-util"
	"github.com/protolambda/zrnt/eth2/beacon/common"
	"github.com/protolambda/zrnt/eth2/configs"
	"github.com/protolambda/ztyp/view"

	"verifharness/internal/flat"
	"verifharness/internal/hreg"
)

const far = ^uint64(0)

var keyCache [][48]byte

// pubkeys returns n valid BLS public keys (secret keys 1..n).
func pubkeys(n int) [][48]byte {
	for i := len(keyCache); i < n; i++ {
		var skb [32]byte
		skb[30] = byte((i + 1) >> 8)
		skb[31] = byte(i + 1)
		var sk blsu.SecretKey
		if err := sk.Deserialize(&skb); err != nil {
			panic(err)
		}
		pk, err := blsu.SkToPk(&sk)
		if err != nil {
			panic(err)
		}
		keyCache = append(keyCache, pk.Serialize())
	}
	return keyCache[:n]
}

// specVariant returns a named private copy of the minimal spec with some constants changed.
func specVariant(rng *rand.Rand, k int) (*common.Spec, string) {
	sp := *configs.Minimal
	sp.ExecutionEngine = nil
	name := "minimal"
	switch k {
	case 1:
		name = "tiny"
		sp.SLOTS_PER_EPOCH = 4
		sp.SLOTS_PER_HISTORICAL_ROOT = 16
		sp.EPOCHS_PER_HISTORICAL_VECTOR = 16
		sp.EPOCHS_PER_SLASHINGS_VECTOR = 8
		sp.EPOCHS_PER_ETH1_VOTING_PERIOD = 2
		sp.EPOCHS_PER_SYNC_COMMITTEE_PERIOD = 2
		sp.SYNC_COMMITTEE_SIZE = 8
		sp.MIN_PER_EPOCH_CHURN_LIMIT = 1
		sp.CHURN_LIMIT_QUOTIENT = 8
		sp.MAX_PER_EPOCH_ACTIVATION_CHURN_LIMIT = 2
		sp.TARGET_COMMITTEE_SIZE = 2
		sp.MAX_COMMITTEES_PER_SLOT = 2
		sp.MIN_EPOCHS_TO_INACTIVITY_PENALTY = 2
		sp.MAX_SEED_LOOKAHEAD = 2
		sp.MIN_VALIDATOR_WITHDRAWABILITY_DELAY = 4
	case 2:
		name = "mainnet-quotients"
		sp.SHUFFLE_ROUND_COUNT = 90
		sp.INACTIVITY_PENALTY_QUOTIENT = 1 << 26
		sp.MIN_SLASHING_PENALTY_QUOTIENT = 128
		sp.PROPORTIONAL_SLASHING_MULTIPLIER = 1
		sp.INACTIVITY_PENALTY_QUOTIENT_ALTAIR = 3 << 24
		sp.MIN_SLASHING_PENALTY_QUOTIENT_ALTAIR = 64
		sp.PROPORTIONAL_SLASHING_MULTIPLIER_ALTAIR = 2
		sp.INACTIVITY_PENALTY_QUOTIENT_BELLATRIX = 1 << 24
		sp.MIN_SLASHING_PENALTY_QUOTIENT_BELLATRIX = 32
		sp.PROPORTIONAL_SLASHING_MULTIPLIER_BELLATRIX = 3
		sp.CHURN_LIMIT_QUOTIENT = 16
		sp.MIN_PER_EPOCH_CHURN_LIMIT = 4
		sp.MAX_PER_EPOCH_ACTIVATION_CHURN_LIMIT = 3
		sp.MIN_EPOCHS_TO_INACTIVITY_PENALTY = 4
	case 3:
		name = "odd"
		sp.SLOTS_PER_EPOCH = 4
		sp.SLOTS_PER_HISTORICAL_ROOT = 24 // not a power of two: exercises the zero padding of the batch roots
		sp.EPOCHS_PER_HISTORICAL_VECTOR = 12
		sp.EPOCHS_PER_SLASHINGS_VECTOR = 6
		sp.EPOCHS_PER_ETH1_VOTING_PERIOD = 3
		sp.EPOCHS_PER_SYNC_COMMITTEE_PERIOD = 3
		sp.SYNC_COMMITTEE_SIZE = 12
		sp.MIN_PER_EPOCH_CHURN_LIMIT = view.Uint64View(1 + rng.Intn(3))
		sp.CHURN_LIMIT_QUOTIENT = view.Uint64View(4 + rng.Intn(12))
		sp.MAX_PER_EPOCH_ACTIVATION_CHURN_LIMIT = view.Uint64View(1 + rng.Intn(4))
		sp.TARGET_COMMITTEE_SIZE = view.Uint64View(1 + rng.Intn(4))
		sp.MAX_COMMITTEES_PER_SLOT = view.Uint64View(1 + rng.Intn(4))
		sp.MIN_EPOCHS_TO_INACTIVITY_PENALTY = common.Epoch(1 + rng.Intn(4))
		sp.MAX_SEED_LOOKAHEAD = common.Epoch(rng.Intn(5))
		sp.MIN_VALIDATOR_WITHDRAWABILITY_DELAY = common.Epoch(1 + rng.Intn(6))
		sp.SHUFFLE_ROUND_COUNT = view.Uint8View(1 + rng.Intn(20))
		sp.HYSTERESIS_QUOTIENT = view.Uint64View(2 + rng.Intn(6))
		sp.HYSTERESIS_DOWNWARD_MULTIPLIER = view.Uint64View(1 + rng.Intn(3))
		sp.HYSTERESIS_UPWARD_MULTIPLIER = view.Uint64View(1 + rng.Intn(8))
		sp.INACTIVITY_SCORE_BIAS = view.Uint64View(1 + rng.Intn(8))
		sp.INACTIVITY_SCORE_RECOVERY_RATE = view.Uint64View(1 + rng.Intn(20))
		sp.INACTIVITY_PENALTY_QUOTIENT = view.Uint64View(1 << uint(10+rng.Intn(18)))
		sp.INACTIVITY_PENALTY_QUOTIENT_ALTAIR = view.Uint64View(3 << uint(8+rng.Intn(18)))
		sp.INACTIVITY_PENALTY_QUOTIENT_BELLATRIX = view.Uint64View(1 << uint(8+rng.Intn(18)))
		sp.PROPORTIONAL_SLASHING_MULTIPLIER = view.Uint64View(1 + rng.Intn(3))
		sp.PROPORTIONAL_SLASHING_MULTIPLIER_ALTAIR = view.Uint64View(1 + rng.Intn(3))
		sp.PROPORTIONAL_SLASHING_MULTIPLIER_BELLATRIX = view.Uint64View(1 + rng.Intn(4))
		sp.BASE_REWARD_FACTOR = view.Uint64View(16 << uint(rng.Intn(4)))
		sp.PROPOSER_REWARD_QUOTIENT = view.Uint64View(2 + rng.Intn(10))
		sp.EJECTION_BALANCE = common.Gwei(uint64(8+rng.Intn(16)) * 1_000_000_000)
	case 4:
		// constants that coincide, or divide each other, in every published preset are pulled apart here: code that
		// reads the wrong one of two equal constants, or replaces a floor division by a test that only agrees when one
		// constant divides the other, is indistinguishable under the presets.
		name = "apart"
		// slots: SLOTS_PER_EPOCH does NOT divide SLOTS_PER_HISTORICAL_ROOT (batch period = floor = 2, 2, 10, 3 epochs);
		// MIN_ATTESTATION_INCLUSION_DELAY is not 1 (7/20/3 and 8/20/3: no constant divides another)
		triple := [][3]uint64{{7, 20, 3}, {8, 20, 3}, {6, 64, 2}, {6, 20, 3}}[rng.Intn(4)]
		sp.SLOTS_PER_EPOCH = common.Slot(triple[0])
		sp.SLOTS_PER_HISTORICAL_ROOT = common.Slot(triple[1])
		sp.MIN_ATTESTATION_INCLUSION_DELAY = common.Slot(triple[2])
		// epochs: pairwise coprime, none equal to another
		sp.MIN_SEED_LOOKAHEAD = 2
		sp.MIN_EPOCHS_TO_INACTIVITY_PENALTY = 3
		sp.EPOCHS_PER_SYNC_COMMITTEE_PERIOD = 5
		sp.EPOCHS_PER_SLASHINGS_VECTOR = 7 // odd: the halfway mark is a floor too
		sp.EPOCHS_PER_ETH1_VOTING_PERIOD = 11
		sp.MAX_SEED_LOOKAHEAD = 13
		sp.MIN_VALIDATOR_WITHDRAWABILITY_DELAY = 17
		sp.EPOCHS_PER_HISTORICAL_VECTOR = 19
		sp.SHARD_COMMITTEE_PERIOD = 23
		// counts
		sp.MIN_PER_EPOCH_CHURN_LIMIT = 2
		sp.MAX_PER_EPOCH_ACTIVATION_CHURN_LIMIT = 3
		sp.TARGET_COMMITTEE_SIZE = 5
		sp.MAX_COMMITTEES_PER_SLOT = 7
		sp.SYNC_COMMITTEE_SIZE = 11
		sp.SHUFFLE_ROUND_COUNT = 9
		// Gwei: electra's MIN_ACTIVATION_BALANCE stays 32 ETH (code reading it for MAX_EFFECTIVE_BALANCE shows);
		// the increment is not 1 ETH and HYSTERESIS_QUOTIENT does not divide it
		sp.EFFECTIVE_BALANCE_INCREMENT = 2_000_000_000
		sp.MAX_EFFECTIVE_BALANCE = 40_000_000_000
		sp.EJECTION_BALANCE = 17_000_000_000
		sp.HYSTERESIS_QUOTIENT = 9
		sp.HYSTERESIS_DOWNWARD_MULTIPLIER = 2
		sp.HYSTERESIS_UPWARD_MULTIPLIER = 11
		// quotients, factors, multipliers: the per-fork families all different (and permuted against the presets' order)
		sp.BASE_REWARD_FACTOR = 48
		sp.PROPOSER_REWARD_QUOTIENT = 5
		sp.WHISTLEBLOWER_REWARD_QUOTIENT = 311
		sp.CHURN_LIMIT_QUOTIENT = 7
		sp.INACTIVITY_PENALTY_QUOTIENT = 7_000_003
		sp.INACTIVITY_PENALTY_QUOTIENT_ALTAIR = 3_000_017
		sp.INACTIVITY_PENALTY_QUOTIENT_BELLATRIX = 10_000_019
		sp.MIN_SLASHING_PENALTY_QUOTIENT = 29
		sp.MIN_SLASHING_PENALTY_QUOTIENT_ALTAIR = 53
		sp.MIN_SLASHING_PENALTY_QUOTIENT_BELLATRIX = 31
		sp.PROPORTIONAL_SLASHING_MULTIPLIER = 3
		sp.PROPORTIONAL_SLASHING_MULTIPLIER_ALTAIR = 1
		sp.PROPORTIONAL_SLASHING_MULTIPLIER_BELLATRIX = 2
		sp.INACTIVITY_SCORE_BIAS = 5
		sp.INACTIVITY_SCORE_RECOVERY_RATE = 13
	}
	return &sp, name
}

// staleCtxTag marks the ProcessSlots runs on which the known finding about MAX_SEED_LOOKAHEAD=0 can show in the registry
// and balances: with a lookahead of 0 this epoch's activations and exits take effect in the very next epoch, whose
// shuffling, active indices and total stake the incrementally rotated EpochsContext computed one epoch earlier; from
// the SECOND epoch transition of a run on, rewards and the slashing penalties are computed from a stale context.
func staleCtxTag(sp *common.Spec, slot, target uint64, st *hreg.Stats) string {
	spe := uint64(sp.SLOTS_PER_EPOCH)
	if sp.MAX_SEED_LOOKAHEAD == 0 && target/spe >= slot/spe+2 {
		st.Add("slots-lookahead0-two-or-more-transitions", "yes")
		return " stalectx=1"
	}
	return ""
}

// batchPeriod is floor(SLOTS_PER_HISTORICAL_ROOT / SLOTS_PER_EPOCH), the historical accumulators' period in epochs.
func batchPeriod(sp *common.Spec) uint64 {
	return uint64(sp.SLOTS_PER_HISTORICAL_ROOT) / uint64(sp.SLOTS_PER_EPOCH)
}

// setForks makes `fork` the scheduled fork at `epoch`; the next fork is scheduled `nextIn` epochs later (0 = never).
func setForks(sp *common.Spec, forkIdx int, epoch uint64, nextIn uint64, rng *rand.Rand) {
	eps := []*common.Epoch{&sp.ALTAIR_FORK_EPOCH, &sp.BELLATRIX_FORK_EPOCH, &sp.CAPELLA_FORK_EPOCH, &sp.DENEB_FORK_EPOCH}
	for i := range eps {
		*eps[i] = common.Epoch(far)
	}
	// forks already passed: non-decreasing epochs <= epoch
	e := uint64(0)
	for i := 0; i < forkIdx; i++ {
		if epoch > e && rng.Intn(2) == 0 {
			e += uint64(rng.Intn(int(epoch-e) + 1))
		}
		*eps[i] = common.Epoch(e)
	}
	if forkIdx < 4 && nextIn > 0 {
		*eps[forkIdx] = common.Epoch(epoch + nextIn)
		// sometimes schedule the forks after that one too (same epoch or later)
		ne := epoch + nextIn
		for i := forkIdx + 1; i < 4 && rng.Intn(2) == 0; i++ {
			ne += uint64(rng.Intn(3))
			*eps[i] = common.Epoch(ne)
		}
	}
	sp.ELECTRA_FORK_EPOCH = common.Epoch(far)
	sp.FULU_FORK_EPOCH = common.Epoch(far)
}

type profile struct {
	leak        bool // finality far behind
	massSlash   bool
	bigQueues   bool // long exit and activation queues
	lowBalance  bool
	partDensity int // percent of active validators with target participation
	name        string
	// orderSens: the state is made sensitive to the ORDER of adjacent epoch stages (see orderSensitive)
	orderSens bool
	// finalizeNow: in a leak, with the justification of this very transition finalizing (the leak ends before rewards)
	finalizeNow bool
	// zeroStake 1..4: every validator active in the current or next epoch has effective balance 0 (balances below one
	// increment, hysteresis already applied), so that the active stake sum is around the clamp
	// get_total_active_balance = max(EFFECTIVE_BALANCE_INCREMENT, sum): 1 = sum 0; 2 = exactly one increment (one
	// validator); 3 = one increment - 1 Gwei (one validator; not a multiple of the increment); 4 = two increments
	zeroStake int
}

func randProfile(rng *rand.Rand) profile {
	p := profile{partDensity: []int{0, 30, 60, 67, 70, 90, 100}[rng.Intn(7)]}
	p.leak = rng.Intn(3) == 0
	p.massSlash = rng.Intn(4) == 0
	p.bigQueues = rng.Intn(3) == 0
	p.lowBalance = rng.Intn(5) == 0
	return p
}

func rnd32(rng *rand.Rand) (o [32]byte) { rng.Read(o[:]); return }

func fversion(sp *common.Spec, forkIdx int) [4]byte {
	return [][4]byte{sp.GENESIS_FORK_VERSION, sp.ALTAIR_FORK_VERSION, sp.BELLATRIX_FORK_VERSION, sp.CAPELLA_FORK_VERSION, sp.DENEB_FORK_VERSION}[forkIdx]
}

// genState builds a synthetic, mostly well-formed state of the given fork at the given slot.
func genState(rng *rand.Rand, sp *common.Spec, forkIdx int, slot uint64, n int, pr profile, st *hreg.Stats) *flat.State {
	spe := uint64(sp.SLOTS_PER_EPOCH)
	cur := slot / spe
	inc := uint64(sp.EFFECTIVE_BALANCE_INCREMENT)
	maxEff := uint64(sp.MAX_EFFECTIVE_BALANCE)
	look := uint64(sp.MAX_SEED_LOOKAHEAD)
	delay := uint64(sp.MIN_VALIDATOR_WITHDRAWABILITY_DELAY)
	halfVec := uint64(sp.EPOCHS_PER_SLASHINGS_VECTOR) / 2
	s := &flat.State{Fork: flat.Forks[forkIdx], GenesisTime: 1_600_000_000 + uint64(rng.Intn(1000)), GenesisValidatorsRoot: rnd32(rng), Slot: slot}
	s.ForkCurrVersion = fversion(sp, forkIdx)
	if forkIdx > 0 {
		s.ForkPrevVersion = fversion(sp, forkIdx-1)
		s.ForkEpoch = uint64(rng.Intn(int(cur) + 1))
	} else {
		s.ForkPrevVersion = s.ForkCurrVersion
	}
	s.Header = flat.Header{Slot: slot - uint64(rng.Intn(int(min64(slot, 3))+1)), ProposerIndex: uint64(rng.Intn(n)), ParentRoot: rnd32(rng), BodyRoot: rnd32(rng)}
	if rng.Intn(2) == 0 {
		s.Header.StateRoot = rnd32(rng)
	}
	for i := uint64(0); i < uint64(sp.SLOTS_PER_HISTORICAL_ROOT); i++ {
		s.BlockRoots = append(s.BlockRoots, rnd32(rng))
		s.StateRoots = append(s.StateRoots, rnd32(rng))
	}
	for i := 0; i < rng.Intn(3); i++ {
		s.HistoricalRoots = append(s.HistoricalRoots, rnd32(rng))
	}
	s.Eth1Data = flat.Eth1Data{DepositRoot: rnd32(rng), DepositCount: uint64(n), BlockHash: rnd32(rng)}
	for i := 0; i < rng.Intn(int(spe)*2); i++ {
		s.Eth1DataVotes = append(s.Eth1DataVotes, flat.Eth1Data{DepositRoot: rnd32(rng), DepositCount: uint64(n + rng.Intn(3)), BlockHash: rnd32(rng)})
	}
	s.Eth1DepositIndex = uint64(n)
	for i := uint64(0); i < uint64(sp.EPOCHS_PER_HISTORICAL_VECTOR); i++ {
		s.RandaoMixes = append(s.RandaoMixes, rnd32(rng))
	}
	for i := uint64(0); i < uint64(sp.EPOCHS_PER_SLASHINGS_VECTOR); i++ {
		v := uint64(0)
		if pr.massSlash && rng.Intn(2) == 0 {
			v = uint64(rng.Intn(n/2+1)) * maxEff
		} else if rng.Intn(4) == 0 {
			v = uint64(rng.Intn(3)) * maxEff
		}
		s.Slashings = append(s.Slashings, v)
	}

	// ---- registry
	pks := pubkeys(n)
	activeCount := 0
	e0 := cur + 1 + look
	// current churn limit estimate (for realistic queues)
	churn := uint64(sp.MIN_PER_EPOCH_CHURN_LIMIT)
	if c := uint64(n) / uint64(sp.CHURN_LIMIT_QUOTIENT); c > churn {
		churn = c
	}
	exitQ, exitQn := e0-uint64(rng.Intn(2)), uint64(0) // the queue may have started one epoch earlier
	if exitQ > e0 || exitQ <= cur {
		exitQ = e0
	}
	queueChurn := churn
	if rng.Intn(3) == 0 { // the churn limit may have been different when the queue was filled
		queueChurn = uint64(1 + rng.Intn(int(churn)+2))
	}
	for i := 0; i < n; i++ {
		v := flat.Validator{Pubkey: pks[i], WithdrawalCredentials: rnd32(rng)}
		v.WithdrawalCredentials[0] = byte(rng.Intn(2))
		k := uint64(maxEff / inc)
		v.EffectiveBalance = maxEff
		if rng.Intn(4) == 0 {
			v.EffectiveBalance = uint64(rng.Intn(int(k)+1)) * inc
		}
		class := rng.Intn(20)
		if i < 6 {
			class = 0 // keep a core of ordinary active validators so that the state stays usable
			v.EffectiveBalance = maxEff
		}
		if pr.bigQueues && i >= 6 {
			class = []int{9, 9, 10, 10, 12, 12, 13, 0, 0, 1}[rng.Intn(10)]
		}
		if pr.massSlash && i >= 6 && rng.Intn(3) == 0 {
			class = 14
		}
		actEpoch := uint64(0)
		if cur > 0 && rng.Intn(3) == 0 {
			actEpoch = uint64(rng.Intn(int(cur) + 1))
		}
		switch {
		case class <= 7: // active
			v.ActivationEligibilityEpoch, v.ActivationEpoch, v.ExitEpoch, v.WithdrawableEpoch = actEpoch/2, actEpoch, far, far
			if class == 7 && cur > 0 { // activated exactly in the current epoch
				v.ActivationEpoch = cur
				st.Add("validator-class", "activated-this-epoch")
			}
			if class == 1 || class == 12 { // to be ejected
				v.EffectiveBalance = uint64(rng.Intn(int(uint64(sp.EJECTION_BALANCE)/inc)+1)) * inc
			}
		case class == 8: // not yet eligible
			v.ActivationEligibilityEpoch, v.ActivationEpoch, v.ExitEpoch, v.WithdrawableEpoch = far, far, far, far
			if rng.Intn(3) == 0 {
				v.EffectiveBalance = maxEff
			}
		case class == 9 || class == 10: // in the activation queue
			lo := uint64(0)
			if cur > 6 {
				lo = cur - 6
			}
			v.ActivationEligibilityEpoch = lo + uint64(rng.Intn(int(cur+1-lo)+1))
			v.ActivationEpoch, v.ExitEpoch, v.WithdrawableEpoch = far, far, far
		case class == 11: // activation scheduled
			v.ActivationEligibilityEpoch, v.ActivationEpoch, v.ExitEpoch, v.WithdrawableEpoch = cur/2, cur+1+uint64(rng.Intn(int(look)+1)), far, far
		case class == 12: // active and ejectable
			v.ActivationEligibilityEpoch, v.ActivationEpoch, v.ExitEpoch, v.WithdrawableEpoch = 0, actEpoch, far, far
			v.EffectiveBalance = uint64(rng.Intn(int(uint64(sp.EJECTION_BALANCE)/inc)+1)) * inc
		case class == 13: // in the exit queue (filled like the real queue, with the churn limit of that time)
			v.ActivationEligibilityEpoch, v.ActivationEpoch = 0, actEpoch
			v.ExitEpoch, v.WithdrawableEpoch = exitQ, exitQ+delay
			exitQn++
			if exitQn >= queueChurn {
				exitQ, exitQn = exitQ+1+uint64(rng.Intn(5)/4), 0
			}
		case class == 14 || class == 15: // slashed
			v.Slashed = true
			v.ActivationEligibilityEpoch, v.ActivationEpoch = 0, actEpoch
			w := cur + halfVec
			switch rng.Intn(6) {
			case 0:
				w--
			case 1:
				w++
			case 2:
				w = cur + uint64(rng.Intn(int(2*halfVec)+2))
			}
			v.WithdrawableEpoch = w
			v.ExitEpoch = cur + 1 + uint64(rng.Intn(int(look)+1))
			if rng.Intn(2) == 0 && cur > 0 {
				v.ExitEpoch = uint64(rng.Intn(int(cur) + 1))
			}
			if v.ExitEpoch > v.WithdrawableEpoch {
				v.ExitEpoch = v.WithdrawableEpoch
			}
		case class == 16: // exited, waiting
			ex := uint64(rng.Intn(int(cur) + 1))
			v.ActivationEligibilityEpoch, v.ActivationEpoch, v.ExitEpoch, v.WithdrawableEpoch = 0, ex/2, ex, ex+delay
		case class == 17: // exits exactly now
			v.ActivationEligibilityEpoch, v.ActivationEpoch, v.ExitEpoch, v.WithdrawableEpoch = 0, 0, cur, cur+delay
			st.Add("validator-class", "exits-this-epoch")
		case class == 18: // exits next epoch
			v.ActivationEligibilityEpoch, v.ActivationEpoch, v.ExitEpoch, v.WithdrawableEpoch = 0, 0, cur+1, cur+1+delay
		default:
			v.ActivationEligibilityEpoch, v.ActivationEpoch, v.ExitEpoch, v.WithdrawableEpoch = 0, 0, far, far
		}
		if v.ActivationEpoch <= cur && cur < v.ExitEpoch {
			activeCount++
		}
		// balance around the hysteresis thresholds of the effective balance
		hinc := inc / uint64(sp.HYSTERESIS_QUOTIENT)
		down, up := hinc*uint64(sp.HYSTERESIS_DOWNWARD_MULTIPLIER), hinc*uint64(sp.HYSTERESIS_UPWARD_MULTIPLIER)
		bal := v.EffectiveBalance
		switch rng.Intn(12) {
		case 0:
			bal = sat(v.EffectiveBalance, down, int64(rng.Intn(3))-1, false)
		case 1:
			bal = v.EffectiveBalance + up + uint64(rng.Intn(3)) - 1
		case 2:
			bal = v.EffectiveBalance + uint64(rng.Int63n(int64(2*inc)))
		case 3:
			bal = sat(v.EffectiveBalance, uint64(rng.Int63n(int64(2*inc))), 0, false)
		case 4:
			bal = maxEff + uint64(rng.Int63n(int64(4*inc)))
		case 5:
			if pr.lowBalance {
				bal = uint64(rng.Intn(100000))
			}
		case 6:
			if pr.lowBalance {
				bal = 0
			}
		default:
			bal = v.EffectiveBalance + uint64(rng.Intn(int(inc/4)))
		}
		s.Validators = append(s.Validators, v)
		s.Balances = append(s.Balances, bal)
	}

	if pr.orderSens {
		orderSensitive(rng, sp, s, forkIdx, cur)
	}
	if pr.zeroStake > 0 {
		first := true
		for i := range s.Validators {
			v := &s.Validators[i]
			if (v.ActivationEpoch <= cur && cur < v.ExitEpoch) || (v.ActivationEpoch <= cur+1 && cur+1 < v.ExitEpoch) {
				v.EffectiveBalance = 0
				s.Balances[i] = uint64(rng.Int63n(int64(inc)))
				if rng.Intn(4) == 0 {
					s.Balances[i] = 0
				}
				if first && v.ActivationEpoch <= cur && cur < v.ExitEpoch {
					first = false
					switch pr.zeroStake {
					case 2:
						v.EffectiveBalance, s.Balances[i] = inc, inc
					case 3:
						v.EffectiveBalance, s.Balances[i] = inc-1, inc-1
					case 4:
						v.EffectiveBalance, s.Balances[i] = 2*inc, 2*inc
					}
				}
			}
		}
	}

	// ---- finality
	for i := range s.JustificationBits {
		s.JustificationBits[i] = rng.Intn(2) == 0
	}
	back := func(k uint64) uint64 {
		if cur >= k {
			return cur - k
		}
		return 0
	}
	// reachable shape: finalized <= previous justified <= current justified <= previous epoch
	// (the justified checkpoint of the running epoch is only set by the epoch transition at its end)
	cj := back(uint64(1 + rng.Intn(3)))
	pj := cj
	if rng.Intn(2) == 0 {
		pj = back(cur - cj + uint64(1+rng.Intn(2)))
	}
	fin := pj
	if rng.Intn(2) == 0 {
		fin = back(cur - pj + uint64(1+rng.Intn(2)))
	}
	if pr.leak {
		fin = back(uint64(3 + rng.Intn(40)))
		if rng.Intn(2) == 0 {
			pj = fin
			cj = fin + uint64(rng.Intn(int(back(1)-fin)+1))
		}
		if pj < fin {
			pj = fin
		}
		if cj < pj {
			cj = pj
		}
	}
	if pr.finalizeNow && cur >= 3 {
		// epochs cur-2 and cur-1 justified, finality far behind: when this transition justifies the current epoch too,
		// rule "bits[0:3], previous justified + 2 == current" finalizes cur-2 and the inactivity leak ends — BEFORE the
		// inactivity updates and rewards of the same transition read it
		cj, pj = cur-1, cur-2
		fin = back(uint64(sp.MIN_EPOCHS_TO_INACTIVITY_PENALTY) + 3 + uint64(rng.Intn(5)))
		s.JustificationBits[0], s.JustificationBits[1] = true, true
	}
	rootAt := func(epoch uint64) [32]byte { // the block root the state holds for that epoch's start slot, if still in range
		sl := epoch * spe
		if sl < slot && slot <= sl+uint64(sp.SLOTS_PER_HISTORICAL_ROOT) {
			return s.BlockRoots[sl%uint64(sp.SLOTS_PER_HISTORICAL_ROOT)]
		}
		return rnd32(rng)
	}
	s.PrevJustified = flat.Checkpoint{Epoch: pj, Root: rootAt(pj)}
	s.CurrJustified = flat.Checkpoint{Epoch: cj, Root: rootAt(cj)}
	s.Finalized = flat.Checkpoint{Epoch: fin, Root: rootAt(fin)}

	// ---- fork specific
	if forkIdx >= 1 {
		flagsFor := func(v *flat.Validator, epoch uint64) uint64 {
			active := v.ActivationEpoch <= epoch && epoch < v.ExitEpoch
			if !active && rng.Intn(10) != 0 {
				return 0
			}
			f := uint64(0)
			if rng.Intn(100) < pr.partDensity {
				f |= 2 // target
				if rng.Intn(10) != 0 {
					f |= 1
				}
				if rng.Intn(3) != 0 {
					f |= 4
				}
			} else if rng.Intn(3) == 0 {
				f |= 1
			}
			return f
		}
		prevE := cur
		if cur > 0 {
			prevE = cur - 1
		}
		for i := range s.Validators {
			s.PrevParticipation = append(s.PrevParticipation, flagsFor(&s.Validators[i], prevE))
			s.CurrParticipation = append(s.CurrParticipation, flagsFor(&s.Validators[i], cur))
			sc := uint64(0)
			switch rng.Intn(4) {
			case 0:
				sc = uint64(rng.Intn(20))
			case 1:
				if pr.leak {
					sc = uint64(rng.Intn(5000))
				}
			}
			s.InactivityScores = append(s.InactivityScores, sc)
		}
		mk := func() *flat.SyncCommittee {
			c := &flat.SyncCommittee{}
			for i := uint64(0); i < uint64(sp.SYNC_COMMITTEE_SIZE); i++ {
				c.Pubkeys = append(c.Pubkeys, pks[rng.Intn(n)])
			}
			if e, ok := aggEntry(c.Pubkeys); ok {
				b, _ := hexDecode(e[65:])
				copy(c.Aggregate[:], b)
			}
			return c
		}
		s.CurrentSyncCommittee, s.NextSyncCommittee = mk(), mk()
	}
	if forkIdx >= 2 {
		h := &flat.PayloadHeader{BaseFeePerGas: new(big.Int)}
		if rng.Intn(3) != 0 {
			h.ParentHash, h.StateRoot, h.ReceiptsRoot, h.PrevRandao, h.BlockHash, h.TransactionsRoot = rnd32(rng), rnd32(rng), rnd32(rng), rnd32(rng), rnd32(rng), rnd32(rng)
			rng.Read(h.FeeRecipient[:])
			rng.Read(h.LogsBloom[:])
			h.BlockNumber, h.GasLimit, h.GasUsed, h.Timestamp = uint64(rng.Intn(1000000)), 30_000_000, uint64(rng.Intn(30_000_000)), s.GenesisTime+slot*6
			h.ExtraData = make([]byte, rng.Intn(33))
			rng.Read(h.ExtraData)
			h.BaseFeePerGas = new(big.Int).Lsh(big.NewInt(int64(rng.Intn(1_000_000_000))), uint(rng.Intn(190)))
		}
		if forkIdx >= 3 {
			wr := rnd32(rng)
			h.WithdrawalsRoot = &wr
			s.NextWithdrawalIndex = uint64(rng.Intn(1000))
			s.NextWithdrawalValIdx = uint64(rng.Intn(n))
			for i := 0; i < rng.Intn(3); i++ {
				s.HistoricalSummaries = append(s.HistoricalSummaries, flat.Summary{Block: rnd32(rng), State: rnd32(rng)})
			}
		}
		if forkIdx >= 4 {
			a, b := uint64(rng.Intn(786432)), uint64(rng.Intn(10_000_000))
			h.BlobGasUsed, h.ExcessBlobGas = &a, &b
		}
		s.PayloadHeader = h
	}
	if forkIdx == 0 {
		addPendingAttestations(rng, sp, s, pr)
	}
	return s
}

func hexDecode(s string) ([]byte, error) {
	out := make([]byte, len(s)/2)
	for i := range out {
		v, err := strconv.ParseUint(s[2*i:2*i+2], 16, 8)
		if err != nil {
			return nil, err
		}
		out[i] = byte(v)
	}
	return out, nil
}

func min64(a, b uint64) uint64 {
	if a < b {
		return a
	}
	return b
}

// sat returns base - d + adj, not below zero.
func sat(base, d uint64, adj int64, _ bool) uint64 {
	v := int64(base) - int64(d) + adj
	if v < 0 {
		return 0
	}
	return uint64(v)
}

// orderSensitive rewrites parts of a generated registry / slashings vector so that the result of the epoch transition
// depends on the order of adjacent stages (a whole-epoch op then tells a stage-order mutant from the real code):
//   - (slashings, slashings_reset): slashings[(cur+1) % VECTOR] — the entry the reset is about to clear — is non-zero,
//     the vector's sum times the fork's multiplier stays below the total active balance (the penalty is not saturated),
//     and slashed validators have their correlation penalty due now (withdrawable == cur + VECTOR/2);
//   - (rewards, slashings): one of them has a balance below its penalty (saturating decrease, then / before the rewards);
//   - (slashings | rewards, effective_balance_updates): the penalty moves the balance far across the hysteresis band;
//   - (registry_updates, effective_balance_updates): an active validator at MAX effective balance whose balance has
//     dropped below the ejection balance (ejectable only from the NEXT epoch), and a not-yet-eligible validator whose
//     balance has reached MAX while its effective balance has not (eligible only from the next epoch).
func orderSensitive(rng *rand.Rand, sp *common.Spec, s *flat.State, forkIdx int, cur uint64) {
	inc := uint64(sp.EFFECTIVE_BALANCE_INCREMENT)
	maxEff := uint64(sp.MAX_EFFECTIVE_BALANCE)
	vec := uint64(sp.EPOCHS_PER_SLASHINGS_VECTOR)
	n := len(s.Validators)
	if n < 12 || vec < 2 {
		return
	}
	pick := func() int { return 6 + rng.Intn(n-6) }
	// due slashed validators
	due := map[int]bool{}
	for k := 0; k < 2+rng.Intn(2); k++ {
		i := pick()
		due[i] = true
		v := &s.Validators[i]
		v.Slashed = true
		v.EffectiveBalance = maxEff
		v.ActivationEligibilityEpoch, v.ActivationEpoch = 0, 0
		v.WithdrawableEpoch = cur + vec/2
		v.ExitEpoch = cur + 1
		if cur > 0 && rng.Intn(2) == 0 {
			v.ExitEpoch = uint64(rng.Intn(int(cur) + 1))
		}
		if v.ExitEpoch > v.WithdrawableEpoch {
			v.ExitEpoch = v.WithdrawableEpoch
		}
		s.Balances[i] = maxEff
		if k == 1 {
			s.Balances[i] = inc / 2 // below any non-zero penalty
		}
	}
	// registry_updates reads the effective balances of the START of the transition
	for k := 0; k < 2; k++ {
		i := pick()
		if due[i] {
			continue
		}
		v := &s.Validators[i]
		v.Slashed = false
		if k == 0 {
			v.ActivationEligibilityEpoch, v.ActivationEpoch, v.ExitEpoch, v.WithdrawableEpoch = 0, 0, far, far
			v.EffectiveBalance = maxEff
			s.Balances[i] = uint64(sp.EJECTION_BALANCE) / 2
		} else {
			v.ActivationEligibilityEpoch, v.ActivationEpoch, v.ExitEpoch, v.WithdrawableEpoch = far, far, far, far
			v.EffectiveBalance = maxEff - inc
			s.Balances[i] = maxEff + 2*inc
		}
	}
	// total active balance at the current epoch, and a slashings vector whose adjusted sum is about half of it
	total := uint64(0)
	for i := range s.Validators {
		if v := &s.Validators[i]; v.ActivationEpoch <= cur && cur < v.ExitEpoch {
			total += v.EffectiveBalance
		}
	}
	mult := uint64([]view.Uint64View{sp.PROPORTIONAL_SLASHING_MULTIPLIER, sp.PROPORTIONAL_SLASHING_MULTIPLIER_ALTAIR,
		sp.PROPORTIONAL_SLASHING_MULTIPLIER_BELLATRIX, sp.PROPORTIONAL_SLASHING_MULTIPLIER_BELLATRIX, sp.PROPORTIONAL_SLASHING_MULTIPLIER_BELLATRIX}[forkIdx])
	if mult == 0 {
		mult = 1
	}
	part := total / (4 * mult) / inc * inc
	if part < inc {
		part = inc
	}
	for i := range s.Slashings {
		s.Slashings[i] = 0
	}
	next := (cur + 1) % vec
	other := (next + 1 + uint64(rng.Intn(int(vec-1)))) % vec
	s.Slashings[next] = part
	s.Slashings[other] += part
}

// addPendingAttestations fills previous/current epoch attestations with well-shaped pending attestations
// (committee sizes are taken from the real EpochsContext; the Lean side recomputes the committees itself).
func addPendingAttestations(rng *rand.Rand, sp *common.Spec, s *flat.State, pr profile) {
	hreg.Guard(func() string {
		stv, err := s.ToView(sp)
		if err != nil {
			return ""
		}
		epc, err := common.NewEpochsContext(sp, stv)
		if err != nil {
			return ""
		}
		spe := uint64(sp.SLOTS_PER_EPOCH)
		cur := s.Slot / spe
		mkFor := func(epoch uint64, just flat.Checkpoint) []flat.PendingAtt {
			var out []flat.PendingAtt
			count, err := epc.GetCommitteeCountPerSlot(common.Epoch(epoch))
			if err != nil {
				return nil
			}
			targetRoot := [32]byte{}
			if sl := epoch * spe; sl < s.Slot {
				targetRoot = s.BlockRoots[sl%uint64(sp.SLOTS_PER_HISTORICAL_ROOT)]
			} else {
				targetRoot = rnd32(rng)
			}
			for slot := epoch * spe; slot < (epoch+1)*spe && slot < s.Slot; slot++ {
				for ci := uint64(0); ci < count; ci++ {
					if rng.Intn(100) >= pr.partDensity+10 {
						continue
					}
					comm, err := epc.GetBeaconCommittee(common.Slot(slot), common.CommitteeIndex(ci))
					if err != nil {
						continue
					}
					reps := 1 + rng.Intn(2) // sometimes two overlapping aggregates of the same committee
					for r := 0; r < reps; r++ {
						a := flat.PendingAtt{Slot: slot, Index: ci, Source: just, Target: flat.Checkpoint{Epoch: epoch, Root: targetRoot}}
						a.Bits = make([]bool, len(comm))
						for j := range a.Bits {
							a.Bits[j] = rng.Intn(100) < pr.partDensity+5
						}
						a.BeaconBlockRoot = s.BlockRoots[slot%uint64(sp.SLOTS_PER_HISTORICAL_ROOT)]
						if rng.Intn(4) == 0 {
							a.BeaconBlockRoot = rnd32(rng) // wrong head
						}
						if rng.Intn(6) == 0 {
							a.Target.Root = rnd32(rng) // wrong target
						}
						// valid pending attestations: MIN_ATTESTATION_INCLUSION_DELAY <= delay <= SLOTS_PER_EPOCH, included by now
						minDelay := uint64(sp.MIN_ATTESTATION_INCLUSION_DELAY)
						maxDelay := min64(s.Slot-slot, spe)
						if maxDelay < minDelay {
							if minDelay > 1 {
								continue // too young to have been included
							}
							maxDelay = minDelay
						}
						a.InclusionDelay = minDelay + uint64(rng.Intn(int(maxDelay-minDelay+1)))
						if rng.Intn(3) == 0 {
							a.InclusionDelay = minDelay // the fastest inclusion (full reward, timely-head flag at the altair upgrade)
						}
						a.ProposerIndex = uint64(rng.Intn(len(s.Validators)))
						out = append(out, a)
					}
				}
			}
			return out
		}
		if cur > 0 {
			s.PrevAtts = mkFor(cur-1, s.PrevJustified)
		}
		s.CurrAtts = mkFor(cur, s.CurrJustified)
		return ""
	})
}

// corrupt applies one corruption that keeps the state decodable; returns its name ("" = not applicable)
// and the sub-transitions whose verdict it decides in the pyspec.
// Only previous-epoch pending attestations are corrupted: the spec reads every one of them in
// get_source_deltas, whereas a current-epoch attestation is only read when its target matches.
// Not generated: registry/balances length mismatches, out-of-range committee indices and over-long bitlists (zrnt is lenient where the pyspec
// raises IndexError or the other way round; such states are not reachable and outside the property).
func corrupt(rng *rand.Rand, sp *common.Spec, s *flat.State) (string, []string) {
	n := len(s.Validators)
	att := func() *flat.PendingAtt {
		if len(s.PrevAtts) == 0 {
			return nil
		}
		return &s.PrevAtts[rng.Intn(len(s.PrevAtts))]
	}
	attSubs := []string{"all", "rewards"}
	switch rng.Intn(6) {
	case 0:
		if x := att(); x != nil && len(x.Bits) > 1 {
			x.Bits = x.Bits[:len(x.Bits)-1]
			return "att-bits-short", attSubs
		}
	case 1:
		// (a committee index >= committees_per_slot is NOT generated: the pyspec's get_beacon_committee has no
		// range assertion and silently yields another slot's committee, zrnt's GetBeaconCommittee rejects it)
	case 2:
		if x := att(); x != nil {
			x.InclusionDelay = 0
			for i := range x.Bits {
				x.Bits[i] = true
			}
			return "att-inclusion-delay-zero", attSubs
		}
	case 3:
		if x := att(); x != nil {
			x.ProposerIndex = uint64(n + rng.Intn(3))
			for i := range x.Bits {
				x.Bits[i] = true
			}
			return "att-proposer-out-of-range", attSubs
		}
	case 4:
		if s.Fork != "phase0" {
			// the validator whose entry goes missing is an ordinary active one, so every reader needs the entry
			last := &s.Validators[n-1]
			last.Slashed, last.ActivationEligibilityEpoch, last.ActivationEpoch, last.ExitEpoch, last.WithdrawableEpoch = false, 0, 0, far, far
			s.PrevParticipation = s.PrevParticipation[:n-1]
			return "participation-shorter-than-validators", []string{"all", "rewards", "inactivity", "justification"}
		}
	case 5:
		if s.Fork != "phase0" {
			last := &s.Validators[n-1]
			last.Slashed, last.ActivationEligibilityEpoch, last.ActivationEpoch, last.ExitEpoch, last.WithdrawableEpoch = false, 0, 0, far, far
			s.InactivityScores = s.InactivityScores[:n-1]
			return "inactivity-scores-shorter-than-validators", []string{"all", "inactivity"}
		}
	}
	return "", nil
}

// ---------------------------------------------------------------------------------------------
// statistics of the state shapes (the "histories" the property text names)

func shapeStats(st *hreg.Stats, sp *common.Spec, s *flat.State) {
	spe := uint64(sp.SLOTS_PER_EPOCH)
	cur := s.Slot / spe
	exitEpochs := map[uint64]int{}
	eject, queue, slashedHalf, active := 0, 0, 0, 0
	for _, v := range s.Validators {
		isActive := v.ActivationEpoch <= cur && cur < v.ExitEpoch
		if isActive {
			active++
		}
		if v.ExitEpoch != far && v.ExitEpoch > cur {
			exitEpochs[v.ExitEpoch]++
		}
		if isActive && v.ExitEpoch == far && v.EffectiveBalance <= uint64(sp.EJECTION_BALANCE) {
			eject++
		}
		if v.ActivationEpoch == far && v.ActivationEligibilityEpoch <= cur {
			queue++
		}
		if v.Slashed && cur+uint64(sp.EPOCHS_PER_SLASHINGS_VECTOR)/2 == v.WithdrawableEpoch {
			slashedHalf++
		}
	}
	churn := uint64(sp.MIN_PER_EPOCH_CHURN_LIMIT)
	if c := uint64(active) / uint64(sp.CHURN_LIMIT_QUOTIENT); c > churn {
		churn = c
	}
	if eject > 0 {
		st.Add("history", fmt.Sprintf("ejections-with-exit-queue-spanning-%s-epochs", bucket(len(exitEpochs), []int{0, 1, 2, 3})))
	}
	if uint64(eject) > churn {
		st.Add("history", "more-ejections-than-churn")
	}
	if uint64(queue) > churn {
		if s.Finalized.Epoch+2 < cur {
			st.Add("history", "activation-queue-longer-than-churn-under-non-finality")
		} else {
			st.Add("history", "activation-queue-longer-than-churn")
		}
	}
	prev := cur
	if cur > 0 {
		prev = cur - 1
	}
	if prev >= s.Finalized.Epoch && prev-s.Finalized.Epoch > uint64(sp.MIN_EPOCHS_TO_INACTIVITY_PENALTY) {
		st.Add("history", "in-inactivity-leak")
	} else {
		st.Add("history", "no-leak")
	}
	if slashedHalf > 0 {
		st.Add("history", "slashed-at-halfway-mark-"+bucket(slashedHalf, []int{1, 2, 4, 8}))
	}
	if (cur+1)%uint64(sp.EPOCHS_PER_SYNC_COMMITTEE_PERIOD) == 0 && s.Fork != "phase0" {
		st.Add("history", "sync-committee-period-boundary")
	}
	if (cur+1)%(uint64(sp.SLOTS_PER_HISTORICAL_ROOT)/spe) == 0 {
		st.Add("history", "historical-batch-boundary")
		if uint64(sp.SLOTS_PER_HISTORICAL_ROOT)%spe != 0 {
			st.Add("history", "historical-batch-boundary-spe-not-dividing-sphr")
		}
	} else if uint64(sp.SLOTS_PER_HISTORICAL_ROOT)%spe != 0 && ((cur+1)*spe)%uint64(sp.SLOTS_PER_HISTORICAL_ROOT) == 0 {
		// the start slot of the next epoch wraps the roots vector, but no batch is due (floor period)
		st.Add("history", "roots-vector-wraps-but-no-batch-due")
	}
	// the slashings vector: which entries are non-zero relative to the one the reset is about to clear, and wrap-around
	vec := uint64(len(s.Slashings))
	if vec > 0 {
		for i, x := range s.Slashings {
			if x != 0 {
				rel := (uint64(i) + vec - (cur+1)%vec) % vec
				switch {
				case rel == 0:
					st.Add("slashings-nonzero-entry", s.Fork+":about-to-be-reset")
					if slashedHalf > 0 {
						st.Add("slashings-nonzero-entry", s.Fork+":about-to-be-reset-with-penalty-due")
					}
				case rel == vec-1:
					st.Add("slashings-nonzero-entry", s.Fork+":current-epoch")
				default:
					st.Add("slashings-nonzero-entry", s.Fork+":older")
				}
				st.Add("slashings-nonzero-index", strconv.Itoa(i%16))
			}
		}
		if cur >= vec {
			st.Add("slashings-vector-wrapped", s.Fork)
		}
	}
	st.Add("epoch", bucket(int(cur), []int{0, 1, 2, 3, 8, 32}))
	st.Add("validators", strconv.Itoa(len(s.Validators)))
}

func bucket(v int, edges []int) string {
	for i := len(edges) - 1; i >= 0; i-- {
		if v >= edges[i] {
			if i == len(edges)-1 {
				return strconv.Itoa(edges[i]) + "+"
			}
			if edges[i+1]-edges[i] == 1 {
				return strconv.Itoa(edges[i])
			}
			return strconv.Itoa(edges[i]) + "-" + strconv.Itoa(edges[i+1]-1)
		}
	}
	return "<" + strconv.Itoa(edges[0])
}

// ---------------------------------------------------------------------------------------------

func gen(o hreg.Opts, w *bufio.Writer) error {
	rng := o.Rand()
	st := o.Stats
	emit := func(op string, sp *common.Spec, s *flat.State, extra string) {
		fmt.Fprintf(w, "%s %s %s %s\n", op, extra, flat.SpecTokens(sp), s.String())
	}
	sizes := []int{16, 32, 64}
	if o.Thorough() {
		sizes = []int{8, 16, 32, 64, 96, 128}
	}
	nStates := o.Pick(30, 150) // per fork
	for forkIdx := 0; forkIdx < 5; forkIdx++ {
		for i := 0; i < nStates; i++ {
			variant := []int{0, 4, 1, 2, 3}[i%5]
			sp, spName := specVariant(rng, variant)
			spe := uint64(sp.SLOTS_PER_EPOCH)
			epoch := uint64([]int{0, 1, 2, 3, 5, 7, 8, 9, 10, 15, 19, 23, 40}[rng.Intn(13)])
			if i%7 == 3 || (variant == 4 && i%2 == 0) {
				// sit on a sync-committee / historical-batch boundary
				per := uint64(sp.EPOCHS_PER_SYNC_COMMITTEE_PERIOD)
				if rng.Intn(2) == 0 {
					per = uint64(sp.SLOTS_PER_HISTORICAL_ROOT) / spe
				}
				epoch = per*uint64(1+rng.Intn(4)) - 1
			}
			setForks(sp, forkIdx, epoch, 0, rng)
			n := sizes[rng.Intn(len(sizes))]
			pr := randProfile(rng)
			pr.orderSens = i%3 == 1
			if i%6 == 4 {
				pr.finalizeNow, pr.leak, pr.partDensity = true, true, 100
			}
			if i%5 == 2 {
				// around the clamp of the total active balance (i%5 == 2 also rotates through the presets: i = 2, 7, 12, ...)
				pr.zeroStake = 1 + (i/5)%4
				pr.orderSens = false
			}
			s := genState(rng, sp, forkIdx, epoch*spe+spe-1, n, pr, st)
			st.Add("spec", spName)
			st.Add("fork", s.Fork)
			if pr.zeroStake > 0 {
				st.Add("active-stake-around-clamp", s.Fork+":"+[]string{"", "sum-0", "one-increment", "one-increment-minus-1", "two-increments"}[pr.zeroStake])
			}
			if pr.orderSens {
				st.Add("stage-order-sensitive-state", s.Fork)
			}
			if pr.finalizeNow && epoch >= 3 {
				st.Add("leak-with-finalization-due-in-this-transition", s.Fork)
			}
			shapeStats(st, sp, s)
			if i == 0 {
				emit("echo", sp, s, "aggs=-")
				st.Add("op", "echo")
			}
			for _, sub := range Subs {
				if s.Fork == "phase0" && (sub == "inactivity" || sub == "sync_committee") {
					continue
				}
				// the cheap, state-independent resets are sampled, the interesting sub-transitions always run
				if (sub == "eth1_reset" || sub == "slashings_reset" || sub == "randao_reset" || sub == "participation") && i%3 != 0 {
					continue
				}
				e := extrasForEpoch(sp, s, sub)
				emit("epoch "+sub, sp, s, e.tokens())
				st.Add("op", "epoch-"+sub)
			}
		}
	}
	// whole ProcessSlots runs, including across fork boundaries
	nSlots := o.Pick(80, 500)
	for i := 0; i < nSlots; i++ {
		forkIdx := rng.Intn(5)
		variant := []int{0, 1, 4, 2, 3}[i%5]
		sp, spName := specVariant(rng, variant)
		spe := uint64(sp.SLOTS_PER_EPOCH)
		epoch := uint64([]int{0, 1, 2, 3, 5, 7, 8, 15, 23}[rng.Intn(9)])
		crossBatch := variant == 4 && i%3 != 0
		if crossBatch {
			// the run ends an epoch whose successor is a multiple of the (floor) batch period
			epoch = batchPeriod(sp)*uint64(1+rng.Intn(5)) - 1
		}
		nextIn := uint64(0)
		if forkIdx < 4 && rng.Intn(3) != 0 {
			nextIn = uint64(1 + rng.Intn(3))
		}
		setForks(sp, forkIdx, epoch, nextIn, rng)
		n := sizes[rng.Intn(len(sizes))]
		if n > 64 {
			n = 64
		}
		pr := randProfile(rng)
		slot := epoch*spe + uint64(rng.Intn(int(spe)))
		if rng.Intn(2) == 0 {
			slot = epoch*spe + spe - 1
		}
		if i%8 == 5 {
			pr.zeroStake = 1 + (i/8)%4
			st.Add("active-stake-around-clamp-slots", flat.Forks[forkIdx])
		}
		pr.orderSens = i%3 == 1 && pr.zeroStake == 0 // the run crosses the end of this epoch (span >= 1 slot from its last or an earlier slot)
		if pr.orderSens || pr.zeroStake > 0 {
			slot = epoch*spe + spe - 1 - uint64(rng.Intn(2))
			st.Add("stage-order-sensitive-state-slots", flat.Forks[forkIdx])
		}
		s := genState(rng, sp, forkIdx, slot, n, pr, st)
		span := uint64(1 + rng.Intn(int(3*spe)))
		if rng.Intn(4) == 0 {
			span = 3*spe + uint64(rng.Intn(int(spe)))
		}
		if crossBatch && span < spe {
			span = spe + uint64(rng.Intn(int(2*spe)))
		}
		if (pr.orderSens || pr.zeroStake > 0) && span < 2 {
			span = 2
		}
		target := slot + span
		e, steps, crossed := extrasForSlots(sp, s, target)
		st.Add("spec", spName)
		if p := batchPeriod(sp); uint64(sp.SLOTS_PER_HISTORICAL_ROOT)%spe != 0 && target/spe/p > slot/spe/p {
			st.Add("slots-cross-batch-boundary-spe-not-dividing-sphr", s.Fork)
		}
		st.Add("slots-span-epochs", strconv.Itoa(int(target/spe-slot/spe)))
		st.Add("slots-forks-crossed", strconv.Itoa(crossed))
		if uint64(steps) < span {
			st.Add("slots-go-rejected-at-gen", "yes")
		}
		shapeStats(st, sp, s)
		emit("slots", sp, s, "target="+strconv.FormatUint(target, 10)+staleCtxTag(sp, slot, target, st)+" "+e.tokens())
		st.Add("op", "slots-from-"+s.Fork)
	}
	// spans that cross three or four fork boundaries (consecutive or coinciding fork epochs)
	nMulti := o.Pick(10, 60)
	for i := 0; i < nMulti; i++ {
		sp, spName := specVariant(rng, []int{0, 1, 3, 4}[i%4])
		spe := uint64(sp.SLOTS_PER_EPOCH)
		epoch := uint64(1 + rng.Intn(6))
		forkIdx := rng.Intn(2) // start in phase0 or altair
		setForks(sp, forkIdx, epoch, 0, rng)
		eps := []*common.Epoch{&sp.ALTAIR_FORK_EPOCH, &sp.BELLATRIX_FORK_EPOCH, &sp.CAPELLA_FORK_EPOCH, &sp.DENEB_FORK_EPOCH}
		ne := epoch
		for k := forkIdx; k < 4; k++ {
			ne += uint64(rng.Intn(2)) // same epoch as the previous fork, or the next one
			if k == forkIdx && ne == epoch {
				ne++
			}
			*eps[k] = common.Epoch(ne)
		}
		pr := randProfile(rng)
		slot := epoch*spe + uint64(rng.Intn(int(spe)))
		s := genState(rng, sp, forkIdx, slot, []int{16, 32}[rng.Intn(2)], pr, st)
		target := (ne+1)*spe + uint64(rng.Intn(int(spe)))
		e, _, crossed := extrasForSlots(sp, s, target)
		st.Add("spec", spName)
		st.Add("slots-forks-crossed", strconv.Itoa(crossed))
		if pr.leak {
			st.Add("history", "leak-while-crossing-"+strconv.Itoa(crossed)+"-forks")
		}
		emit("slots", sp, s, "target="+strconv.FormatUint(target, 10)+staleCtxTag(sp, slot, target, st)+" "+e.tokens())
		st.Add("op", "slots-multi-fork-from-"+s.Fork)
	}
	// isolated upgrades at the fork slot
	nUp := o.Pick(16, 80)
	for i := 0; i < nUp; i++ {
		forkIdx := i % 4
		sp, _ := specVariant(rng, []int{0, 1, 3, 0, 4}[i%5])
		spe := uint64(sp.SLOTS_PER_EPOCH)
		epoch := uint64(1 + rng.Intn(9))
		setForks(sp, forkIdx, epoch, 0, rng)
		eps := []*common.Epoch{&sp.ALTAIR_FORK_EPOCH, &sp.BELLATRIX_FORK_EPOCH, &sp.CAPELLA_FORK_EPOCH, &sp.DENEB_FORK_EPOCH}
		*eps[forkIdx] = common.Epoch(epoch)
		s := genState(rng, sp, forkIdx, epoch*spe, sizes[rng.Intn(2)], randProfile(rng), st)
		e := &extras{aggs: map[string]bool{}}
		hreg.Guard(func() string {
			v, err := s.ToView(sp)
			if err != nil {
				return ""
			}
			post, err := runUpgrade(sp, v)
			if err == nil {
				e.addAggsOf(sp, post)
			}
			return ""
		})
		emit("upgrade", sp, s, e.tokens())
		st.Add("op", "upgrade-from-"+s.Fork)
	}
	// arbitrary-but-decodable states: one corruption each; both sides may reject (accept/reject is compared)
	nBad := o.Pick(80, 500)
	for i := 0; i < nBad; i++ {
		forkIdx := []int{0, 0, 0, 1, 2, 3, 4}[rng.Intn(7)]
		sp, _ := specVariant(rng, []int{0, 1, 3}[i%3])
		spe := uint64(sp.SLOTS_PER_EPOCH)
		epoch := uint64(2 + rng.Intn(9))
		setForks(sp, forkIdx, epoch, 0, rng)
		pr := randProfile(rng)
		pr.partDensity = 90
		s := genState(rng, sp, forkIdx, epoch*spe+spe-1, 16, pr, st)
		kind, subs := "", []string(nil)
		for try := 0; try < 8 && kind == ""; try++ {
			kind, subs = corrupt(rng, sp, s)
		}
		if kind == "" {
			continue
		}
		sub := subs[rng.Intn(len(subs))]
		e := extrasForEpoch(sp, s, sub)
		emit("epoch "+sub, sp, s, e.tokens())
		st.Add("op", "corrupted-epoch-"+sub)
		st.Add("corruption", kind)
	}
	// states reached by valid chains with blocks (second source)
	chainOps(o, rng, st, emit)
	// malformed lines
	fmt.Fprintln(w, "epoch all fork=phase0")
	fmt.Fprintln(w, "nonsense")
	st.Add("op", "malformed")
	st.Add("op", "malformed")
	return nil
}
