// Package beaconepoch: property C02 — slot, epoch and fork-upgrade processing of the real zrnt code,
// driven per epoch sub-transition and as whole ProcessSlots runs, on flat-format states (internal/flat).
package beaconepoch

import (
	"bufio"
	"context"
	"crypto/sha256"
	"encoding/hex"
	"fmt"
	"os"
	"strconv"
	"strings"

	blsu "github.com/protolambda/bls12-381-util"
	"github.com/protolambda/zrnt/eth2/beacon"
	"github.com/protolambda/zrnt/eth2/beacon/altair"
	"github.com/protolambda/zrnt/eth2/beacon/bellatrix"
	"github.com/protolambda/zrnt/eth2/beacon/capella"
	"github.com/protolambda/zrnt/eth2/beacon/common"
	"github.com/protolambda/zrnt/eth2/beacon/deneb"
	"github.com/protolambda/zrnt/eth2/beacon/phase0"
	"github.com/protolambda/zrnt/eth2/configs"
	"github.com/protolambda/ztyp/tree"

	"verifharness/internal/flat"
	"verifharness/internal/hreg"
)

func init() { hreg.Register(&hreg.Mode{Name: "c02", Gen: gen, Exec: exec}) }

// Subs are the epoch sub-transitions that can be run in isolation (op `epoch <sub>`).
var Subs = []string{"justification", "inactivity", "rewards", "registry", "slashings", "eth1_reset", "effective_balance",
	"slashings_reset", "randao_reset", "historical", "participation", "sync_committee", "all"}

// baseSpec returns a private copy of the minimal spec, overwritten by the constants on the op line.
func specOf(kv map[string]string) (*common.Spec, error) {
	sp := *configs.Minimal
	sp.ExecutionEngine = nil
	if err := flat.ApplySpecTokens(&sp, kv); err != nil {
		return nil, err
	}
	return &sp, nil
}

type altairLike interface {
	altair.AltairLikeBeaconState
}

// runSub runs one epoch sub-transition of the real code on state, the way the fork's ProcessEpoch would call it.
func runSub(spec *common.Spec, state common.BeaconState, sub string) error {
	ctx := context.Background()
	epc, err := common.NewEpochsContext(spec, state)
	if err != nil {
		return err
	}
	if sub == "all" {
		return state.ProcessEpoch(ctx, spec, epc)
	}
	vals, err := state.Validators()
	if err != nil {
		return err
	}
	flats, err := common.FlattenValidators(vals)
	if err != nil {
		return err
	}
	// fork-independent sub-transitions
	switch sub {
	case "slashings":
		return phase0.ProcessEpochSlashings(ctx, spec, epc, flats, state)
	case "eth1_reset":
		return phase0.ProcessEth1DataReset(ctx, spec, epc, state)
	case "effective_balance":
		return phase0.ProcessEffectiveBalanceUpdates(ctx, spec, epc, flats, state)
	case "slashings_reset":
		return phase0.ProcessSlashingsReset(ctx, spec, epc, state)
	case "randao_reset":
		return phase0.ProcessRandaoMixesReset(ctx, spec, epc, state)
	}
	if p0, ok := state.(*phase0.BeaconStateView); ok {
		switch sub {
		case "justification", "rewards":
			ad, err := phase0.ComputeEpochAttesterData(ctx, spec, epc, flats, p0)
			if err != nil {
				return err
			}
			if sub == "rewards" {
				return phase0.ProcessEpochRewardsAndPenalties(ctx, spec, epc, ad, p0)
			}
			just := phase0.JustificationStakeData{CurrentEpoch: epc.CurrentEpoch.Epoch, TotalActiveStake: epc.TotalActiveStake,
				PrevEpochUnslashedTargetStake: ad.PrevEpochUnslashedStake.TargetStake, CurrEpochUnslashedTargetStake: ad.CurrEpochUnslashedTargetStake}
			return phase0.ProcessEpochJustification(ctx, spec, &just, p0)
		case "registry":
			return phase0.ProcessEpochRegistryUpdates(ctx, spec, epc, flats, p0)
		case "historical":
			return phase0.ProcessHistoricalRootsUpdate(ctx, spec, epc, p0)
		case "participation":
			return phase0.ProcessParticipationRecordUpdates(ctx, spec, epc, p0)
		}
		return errBadOp
	}
	al, ok := state.(altairLike)
	if !ok {
		return errBadOp
	}
	switch sub {
	case "justification", "rewards", "inactivity":
		ad, err := altair.ComputeEpochAttesterData(ctx, spec, epc, flats, al)
		if err != nil {
			return err
		}
		switch sub {
		case "rewards":
			return altair.ProcessEpochRewardsAndPenalties(ctx, spec, epc, ad, al)
		case "inactivity":
			return altair.ProcessInactivityUpdates(ctx, spec, ad, al)
		}
		just := phase0.JustificationStakeData{CurrentEpoch: epc.CurrentEpoch.Epoch, TotalActiveStake: epc.TotalActiveStake,
			PrevEpochUnslashedTargetStake: ad.PrevEpochUnslashedStake.TargetStake, CurrEpochUnslashedTargetStake: ad.CurrEpochUnslashedTargetStake}
		return phase0.ProcessEpochJustification(ctx, spec, &just, state)
	case "registry":
		if _, isDeneb := state.(*deneb.BeaconStateView); isDeneb {
			return deneb.ProcessEpochRegistryUpdates(ctx, spec, epc, flats, state)
		}
		return phase0.ProcessEpochRegistryUpdates(ctx, spec, epc, flats, state)
	case "historical":
		switch s := state.(type) {
		case *capella.BeaconStateView:
			return capella.ProcessHistoricalSummariesUpdate(ctx, spec, epc, s)
		case *deneb.BeaconStateView:
			return capella.ProcessHistoricalSummariesUpdate(ctx, spec, epc, s)
		}
		return phase0.ProcessHistoricalRootsUpdate(ctx, spec, epc, state)
	case "participation":
		return altair.ProcessParticipationFlagUpdates(ctx, spec, al)
	case "sync_committee":
		sc, ok := state.(common.SyncCommitteeBeaconState)
		if !ok {
			return errBadOp
		}
		return altair.ProcessSyncCommitteeUpdates(ctx, spec, epc, sc)
	}
	return errBadOp
}

type badOp struct{}

func (badOp) Error() string { return "bad-op" }

var errBadOp = badOp{}

var _ = bellatrix.UpgradeToBellatrix

// runSlots runs the real ProcessSlots (with UpgradeMaybe) up to target.
func runSlots(spec *common.Spec, state common.BeaconState, target uint64) (common.BeaconState, error) {
	epc, err := common.NewEpochsContext(spec, state)
	if err != nil {
		return nil, err
	}
	us := &beacon.StandardUpgradeableBeaconState{BeaconState: state}
	if err := common.ProcessSlots(context.Background(), spec, epc, us, common.Slot(target)); err != nil {
		return nil, err
	}
	return us.BeaconState, nil
}

func runUpgrade(spec *common.Spec, state common.BeaconState) (common.BeaconState, error) {
	epc, err := common.NewEpochsContext(spec, state)
	if err != nil {
		return nil, err
	}
	us := &beacon.StandardUpgradeableBeaconState{BeaconState: state}
	if err := us.UpgradeMaybe(context.Background(), spec, epc); err != nil {
		return nil, err
	}
	return us.BeaconState, nil
}

func dump(spec *common.Spec, st common.BeaconState) string {
	f, err := flat.From(spec, st)
	if err != nil {
		return "err-dump"
	}
	if os.Getenv("C02_FULL") != "" { // debugging aid: full flat form instead of the abbreviated one
		return "ok " + f.String()
	}
	return "ok " + f.Abbrev()
}

// ExecLine answers one op line with the real code.
func ExecLine(line string) string {
	kv, rest := flat.KV(line)
	if len(rest) == 0 {
		return "bad-op"
	}
	spec, err := specOf(kv)
	if err != nil {
		return "bad-op"
	}
	fs, err := flat.Parse(kv)
	if err != nil {
		return "bad-op"
	}
	// A Go panic on a state is answered `err`: C02 compares accept/reject and the accepted post-state;
	// (panic-freedom on invalid input is property C03's subject).
	res := hreg.Guard(func() string {
		state, err := fs.ToView(spec)
		if err != nil {
			return "err"
		}
		switch {
		case rest[0] == "echo" && len(rest) == 1:
			f, err := flat.From(spec, state)
			if err != nil {
				return "err-dump"
			}
			return f.Abbrev()
		case rest[0] == "epoch" && len(rest) == 2:
			if err := runSub(spec, state, rest[1]); err != nil {
				if err == errBadOp {
					return "bad-op"
				}
				return "err"
			}
			return dump(spec, state)
		case rest[0] == "slots" && len(rest) == 1:
			target, perr := strconv.ParseUint(kv["target"], 10, 64)
			if _, ok := kv["sroots"]; perr != nil || !ok {
				return "bad-op"
			}
			post, err := runSlots(spec, state, target)
			if err != nil {
				return "err"
			}
			return dump(spec, post)
		case rest[0] == "upgrade" && len(rest) == 1:
			post, err := runUpgrade(spec, state)
			if err != nil {
				return "err"
			}
			return dump(spec, post)
		}
		return "bad-op"
	})
	if res == "panic" {
		return "err"
	}
	return res
}

func exec(o hreg.Opts, sc *bufio.Scanner, w *bufio.Writer) error {
	for sc.Scan() {
		fmt.Fprintln(w, ExecLine(sc.Text()))
	}
	return sc.Err()
}

// ---------------------------------------------------------------------------------------------
// inputs supplied to the Lean side

var aggCache = map[[32]byte][48]byte{}

// aggEntry returns `<sha256(pk1‖…‖pkn)>:<aggregate>` computed with the real BLS library from the pubkeys alone.
func aggEntry(pubkeys [][48]byte) (string, bool) {
	h := sha256.New()
	for _, p := range pubkeys {
		h.Write(p[:])
	}
	var key [32]byte
	copy(key[:], h.Sum(nil))
	agg, ok := aggCache[key]
	if !ok {
		var pks []*blsu.Pubkey
		for _, p := range pubkeys {
			var pk blsu.Pubkey
			pp := p
			if err := pk.Deserialize(&pp); err != nil {
				return "", false
			}
			pks = append(pks, &pk)
		}
		a, err := blsu.AggregatePubkeys(pks)
		if err != nil {
			return "", false
		}
		agg = a.Serialize()
		aggCache[key] = agg
	}
	return hex.EncodeToString(key[:]) + ":" + hex.EncodeToString(agg[:]), true
}

type extras struct {
	aggs   map[string]bool
	sroots []string
}

func (e *extras) addAggsOf(spec *common.Spec, st common.BeaconState) {
	f, err := flat.From(spec, st)
	if err != nil {
		return
	}
	for _, c := range []*flat.SyncCommittee{f.CurrentSyncCommittee, f.NextSyncCommittee} {
		if c != nil {
			if s, ok := aggEntry(c.Pubkeys); ok {
				e.aggs[s] = true
			}
		}
	}
}

func (e *extras) tokens() string {
	var a []string
	for k := range e.aggs {
		a = append(a, k)
	}
	// deterministic order
	for i := 1; i < len(a); i++ {
		for j := i; j > 0 && a[j] < a[j-1]; j-- {
			a[j], a[j-1] = a[j-1], a[j]
		}
	}
	out := "aggs=" + orDash(strings.Join(a, ","))
	if e.sroots != nil {
		out += " sroots=" + orDash(strings.Join(e.sroots, ","))
	}
	return out
}

func orDash(s string) string {
	if s == "" {
		return "-"
	}
	return s
}

// extrasForEpoch runs the real sub-transition on a copy to learn which pubkey lists need an aggregate.
func extrasForEpoch(spec *common.Spec, fs *flat.State, sub string) *extras {
	e := &extras{aggs: map[string]bool{}}
	if fs.Fork == "phase0" || (sub != "all" && sub != "sync_committee") {
		return e
	}
	hreg.Guard(func() string {
		st, err := fs.ToView(spec)
		if err != nil {
			return ""
		}
		if err := runSub(spec, st, sub); err != nil {
			return ""
		}
		e.addAggsOf(spec, st)
		return ""
	})
	return e
}

// extrasForSlots steps the real code one slot at a time and records the state root before every slot
// and the aggregates of every sync committee that appears.
func extrasForSlots(spec *common.Spec, fs *flat.State, target uint64) (e *extras, steps int, forksCrossed int) {
	e = &extras{aggs: map[string]bool{}, sroots: []string{}}
	hreg.Guard(func() string {
		st, err := fs.ToView(spec)
		if err != nil {
			return ""
		}
		epc, err := common.NewEpochsContext(spec, st)
		if err != nil {
			return ""
		}
		us := &beacon.StandardUpgradeableBeaconState{BeaconState: st}
		for slot := fs.Slot; slot < target; slot++ {
			root := us.BeaconState.HashTreeRoot(tree.GetHashFn())
			e.sroots = append(e.sroots, strconv.FormatUint(slot, 10)+":"+hex.EncodeToString(root[:]))
			before := fmt.Sprintf("%T", us.BeaconState)
			if err := common.ProcessSlots(context.Background(), spec, epc, us, common.Slot(slot+1)); err != nil {
				return ""
			}
			steps++
			if fmt.Sprintf("%T", us.BeaconState) != before {
				forksCrossed++
			}
			e.addAggsOf(spec, us.BeaconState)
		}
		return ""
	})
	return
}
