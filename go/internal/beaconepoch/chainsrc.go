package beaconepoch

import (
	"fmt"
	"math/rand"
	"strconv"

	"github.com/protolambda/zrnt/eth2/beacon/common"

	"verifharness/internal/chain"
	"verifharness/internal/flat"
	"verifharness/internal/hreg"
)

// chainOps: second source of pre-states — states reached by VALID CHAINS with blocks on the real code
// (internal/chain): every last-slot-of-epoch post-state gets the whole epoch transition and the
// sub-transitions in isolation, and sampled states get ProcessSlots spans (skipped slots, fork boundaries).
func chainOps(o hreg.Opts, rng *rand.Rand, st *hreg.Stats, emit func(op string, sp *common.Spec, s *flat.State, extra string)) {
	type plan struct {
		cfg    *chain.Config
		n      int
		policy string
		epochs int
	}
	plans := []plan{
		{chain.Fast(1, 2, 3, 4), 32, "leak-recover", 13},
		{chain.Fast(2, 2, 3, 3), 32, "eventful", 7},
		{chain.RandomConfig(o.Seed), 32, "exits", 6},
		{chain.Fast(1, 3, 5, 7), 32, "default", 9},       // two epochs in each of altair, bellatrix, capella
		{chain.Fast(5, 6, 7, 8), 32, "leak-recover", 11}, // the leak (epochs 4..8 sparse) runs across all four fork boundaries
	}
	if o.Thorough() {
		plans = append(plans,
			plan{chain.Fast(0, 1, 2, 3), 64, "sparse", 16},
			plan{chain.Fast(1, 1, 1, 2), 48, "default", 12},
			plan{chain.MinimalAt(1, 2, 3, 4), 64, "deposits", 10},
			plan{chain.RandomConfig(o.Seed + 1), 64, "eventful", 10},
			plan{chain.RandomConfig(o.Seed + 2), 32, "leak-recover", 14},
			plan{chain.RandomConfig(o.Seed + 3), 32, "under", 8},
			plan{chain.RandomConfig(o.Seed + 4), 32, "over", 8},
		)
	}
	for pi, p := range plans {
		var c *chain.Chain
		res := hreg.Guard(func() string {
			var err error
			c, err = chain.NewChain(p.cfg, p.n, "mixed", o.Seed+int64(pi))
			if err != nil {
				return "err"
			}
			return "ok"
		})
		if res != "ok" || c == nil {
			st.Add("chain", "genesis-failed")
			continue
		}
		c.Policy = chain.PolicyByName(p.policy)
		spe := uint64(c.Spec.SLOTS_PER_EPOCH)
		slots := p.epochs * int(spe)
		for i := 0; i < slots; i++ {
			var step *chain.Step
			r := hreg.Guard(func() string {
				var err error
				step, err = c.NextSlot(nil)
				if err != nil {
					return "err"
				}
				return "ok"
			})
			if r != "ok" || step == nil {
				st.Add("chain", "stopped-early")
				break
			}
			f, err := flat.From(c.Spec, step.Post)
			if err != nil || len(f.Validators) > 96 {
				continue
			}
			slot := uint64(step.Slot)
			if (slot+1)%spe == 0 {
				shapeStats(st, c.Spec, f)
				for _, sub := range []string{"all", "justification", "rewards", "registry", "slashings", "effective_balance", "inactivity", "sync_committee"} {
					if f.Fork == "phase0" && (sub == "inactivity" || sub == "sync_committee") {
						continue
					}
					e := extrasForEpoch(c.Spec, f, sub)
					emit("epoch "+sub, c.Spec, f, e.tokens())
					st.Add("op", "chain-epoch-"+sub)
				}
				st.Add("chain-state-fork", f.Fork)
			}
			if rng.Intn(5) == 0 {
				target := slot + 1 + uint64(rng.Intn(int(2*spe)))
				e, _, crossed := extrasForSlots(c.Spec, f, target)
				emit("slots", c.Spec, f, "target="+strconv.FormatUint(target, 10)+" "+e.tokens())
				st.Add("op", "chain-slots-from-"+f.Fork)
				st.Add("slots-forks-crossed", strconv.Itoa(crossed))
			}
		}
		k := &c.Counters
		st.Add("chain", fmt.Sprintf("policy=%s", p.policy))
		add := func(name string, v int) {
			for j := 0; j < v; j++ {
				st.Add("chain-history", name)
			}
		}
		add("epoch-transitions", k.Epochs)
		add("leak-epochs", k.LeakEpochs)
		add("fork-upgrades", k.Upgrades)
		add("ejections", k.Ejections)
		add("activations", k.Activations)
		add("exits-begun", k.ExitsBegun)
		add("slashed", k.Slashed)
		add("finality-advances", k.FinalityAdvances)
		add("sync-period-boundaries", k.SyncPeriodBoundaries)
		add("historical-accumulations", k.HistoricalAccumulations)
		st.Add("chain-max-exit-queue-span", bucket(k.MaxExitQueueSpan, []int{0, 1, 2, 3, 5, 8}))
		st.Add("chain-max-pending-activations", bucket(k.MaxPendingActivations, []int{0, 1, 2, 4, 8}))
	}
}
