// Package genesischeck drives phase0.GenesisFromEth1 / KickStartState[WithSignatures] / IsValidGenesisState
// (property C13) on generated deposit lists and prints the resulting state in the flat format, to be
// compared with the Lean transcription of initialize_beacon_state_from_eth1.
//
// Everything the *generator* computes (deposit-data roots, deposit signing roots, the incremental deposit
// tree and its proofs, signatures and their verdicts) is computed here with crypto/sha256 and the BLS
// library directly — never through zrnt — so that a change to zrnt cannot move the generator along with it.
package genesischeck

import (
	"bufio"
	"crypto/sha256"
	"encoding/binary"
	"encoding/hex"
	"fmt"
	"math/rand"
	"strconv"
	"strings"
	"sync"

	kbls "github.com/kilic/bls12-381"
	blsu "github.com/protolambda/bls12-381-util"
	"github.com/protolambda/zrnt/eth2/beacon/common"
	"github.com/protolambda/zrnt/eth2/beacon/phase0"
	"github.com/protolambda/zrnt/eth2/configs"
	"github.com/protolambda/ztyp/view"

	"verifharness/internal/ctxcheck"
	"verifharness/internal/flat"
	"verifharness/internal/hreg"
)

func init() { hreg.Register(&hreg.Mode{Name: "c13", Gen: gen, Exec: exec}) }

// ---------------------------------------------------------------------------------------------
// independent hashing (SSZ shapes of the deposit objects, written out by hand)

type root = [32]byte

func h2(a, b root) root {
	var buf [64]byte
	copy(buf[:32], a[:])
	copy(buf[32:], b[:])
	return sha256.Sum256(buf[:])
}

func chunkU64(v uint64) (r root) { binary.LittleEndian.PutUint64(r[:8], v); return }

func htr48(b [48]byte) root {
	var a, c root
	copy(a[:], b[:32])
	copy(c[:], b[32:])
	return h2(a, c)
}

func htr96(b [96]byte) root {
	var x, y, z root
	copy(x[:], b[:32])
	copy(y[:], b[32:64])
	copy(z[:], b[64:])
	return h2(h2(x, y), h2(z, root{}))
}

type dep struct {
	pk     [48]byte
	wc     root
	amount uint64
	sig    [96]byte
	proof  []root // nil: no proof (the ignore / kickstart paths)
	sk     *[32]byte
	// verdicts of the real BLS library
	pkOk, sigDec, verOk bool
	sroot               root
	kind                string
}

func (d *dep) dataRoot() root {
	return h2(h2(htr48(d.pk), d.wc), h2(chunkU64(d.amount), htr96(d.sig)))
}

func (d *dep) messageRoot() root {
	return h2(h2(htr48(d.pk), d.wc), h2(chunkU64(d.amount), root{}))
}

func depositDomain(version [4]byte, gvr root) (dom root) {
	var v root
	copy(v[:4], version[:])
	fdr := h2(v, gvr)
	dom[0] = 3 // DOMAIN_DEPOSIT
	copy(dom[4:], fdr[:28])
	return
}

func signingRoot(msgRoot, domain root) root { return h2(msgRoot, domain) }

var zeroHashes = func() (z [33]root) {
	for i := 1; i < len(z); i++ {
		z[i] = h2(z[i-1], z[i-1])
	}
	return
}()

func lenChunk(n uint64) root { return chunkU64(n) }

// treeWalk: depth-32 root over leaves[:count]; collects the sibling path of index when branch != nil.
func treeWalk(leaves []root, count, index uint64, branch []root) root {
	layer := append([]root(nil), leaves[:count]...)
	for d := 0; d < 32; d++ {
		if branch != nil {
			sib := (index >> uint(d)) ^ 1
			if sib < uint64(len(layer)) {
				branch[d] = layer[sib]
			} else {
				branch[d] = zeroHashes[d]
			}
		}
		next := make([]root, 0, (len(layer)+1)/2)
		for i := 0; i < len(layer); i += 2 {
			r := zeroHashes[d]
			if i+1 < len(layer) {
				r = layer[i+1]
			}
			next = append(next, h2(layer[i], r))
		}
		layer = next
	}
	if len(layer) == 0 {
		return zeroHashes[32]
	}
	return layer[0]
}

// proofAt: the 33-element branch of leaf index against the tree holding the first count leaves.
func proofAt(leaves []root, index, count uint64) []root {
	p := make([]root, 33)
	treeWalk(leaves, count, index, p[:32])
	p[32] = lenChunk(count)
	return p
}

// ---------------------------------------------------------------------------------------------
// keys and signatures (real BLS), cached per process

type keyset struct {
	mu  sync.Mutex
	sk  []*blsu.SecretKey
	skb [][32]byte
	pk  [][48]byte
}

var keys keyset

func (k *keyset) get(i int) (*blsu.SecretKey, [32]byte, [48]byte) {
	k.mu.Lock()
	defer k.mu.Unlock()
	for len(k.sk) <= i {
		j := len(k.sk)
		var b [32]byte
		for ctr := uint64(0); ; ctr++ {
			var seed [32]byte
			copy(seed[:], "verif-genesischeck-key")
			binary.LittleEndian.PutUint64(seed[22:], uint64(j))
			seed[31] = byte(ctr)
			b = sha256.Sum256(seed[:])
			b[0] &= 0x3f
			var sk blsu.SecretKey
			if err := sk.Deserialize(&b); err == nil {
				pub, err := blsu.SkToPk(&sk)
				if err != nil {
					panic(err)
				}
				k.sk = append(k.sk, &sk)
				k.skb = append(k.skb, b)
				k.pk = append(k.pk, pub.Serialize())
				break
			}
		}
	}
	return k.sk[i], k.skb[i], k.pk[i]
}

func verdicts(d *dep, version [4]byte) {
	d.sroot = signingRoot(d.messageRoot(), depositDomain(version, root{}))
	var pub blsu.Pubkey
	d.pkOk = pub.Deserialize(&d.pk) == nil
	var sig blsu.Signature
	d.sigDec = sig.Deserialize(&d.sig) == nil
	d.verOk = d.pkOk && d.sigDec && blsu.Verify(&pub, d.sroot[:], &sig)
}

func placeholderSig() [96]byte { return (*blsu.Signature)(kbls.NewG2().One()).Serialize() }

// ---------------------------------------------------------------------------------------------
// generator

type preset struct {
	name string
	spec *common.Spec
}

func cloneSpec(s *common.Spec) *common.Spec { c := *s; return &c }

func pickU(rng *rand.Rand, l ...uint64) uint64 { return l[rng.Intn(len(l))] }

// customSpec: the minimal preset with randomised genesis parameters (and a few structural constants that
// enter the genesis state: rounding constants, list limits of the empty body, vector lengths).
// forksAtGenesis gives the spec pairwise different fork versions and schedules the first `k` later forks
// (altair, bellatrix, capella, deneb) at epoch 0; the others at later epochs. zrnt's genesis is a phase0 state whatever
// the schedule says: initialize_beacon_state_from_eth1 writes GENESIS_FORK_VERSION as previous AND current version.
func forksAtGenesis(rng *rand.Rand, c *common.Spec, k int) {
	vers := []*common.Version{&c.ALTAIR_FORK_VERSION, &c.BELLATRIX_FORK_VERSION, &c.CAPELLA_FORK_VERSION, &c.DENEB_FORK_VERSION,
		&c.ELECTRA_FORK_VERSION}
	for i, v := range vers {
		rng.Read(v[:])
		v[0] = byte(0x10 + i) // pairwise different, and different from a genesis version that starts with another byte
	}
	if c.GENESIS_FORK_VERSION[0] >= 0x10 && c.GENESIS_FORK_VERSION[0] <= 0x14 {
		c.GENESIS_FORK_VERSION[0] = 0x77
	}
	epochs := []*common.Epoch{&c.ALTAIR_FORK_EPOCH, &c.BELLATRIX_FORK_EPOCH, &c.CAPELLA_FORK_EPOCH, &c.DENEB_FORK_EPOCH}
	next := common.Epoch(0)
	for i, e := range epochs {
		if i >= k {
			next += common.Epoch(1 + rng.Intn(3))
		}
		*e = next
	}
}

func customSpec(rng *rand.Rand) *common.Spec {
	c := cloneSpec(configs.Minimal)
	c.MIN_GENESIS_ACTIVE_VALIDATOR_COUNT = view64(pickU(rng, 0, 1, 4, 8, 16, 33, 64, 100))
	c.GENESIS_DELAY = common.Timestamp(pickU(rng, 0, 1, 300, 604800, 1<<40))
	c.MIN_GENESIS_TIME = common.Timestamp(pickU(rng, 0, 1, 1578009600, 1606824000, 1<<41))
	rng.Read(c.GENESIS_FORK_VERSION[:])
	if rng.Intn(2) == 0 {
		forksAtGenesis(rng, c, rng.Intn(5))
	}
	if rng.Intn(2) == 0 {
		c.SLOTS_PER_EPOCH = common.Slot(pickU(rng, 4, 8, 16))
	}
	if rng.Intn(3) == 0 {
		c.EFFECTIVE_BALANCE_INCREMENT = common.Gwei(pickU(rng, 1000000000, 500000000, 3, 1))
		c.MAX_EFFECTIVE_BALANCE = common.Gwei(pickU(rng, 32000000000, 16000000000, 31500000000))
	}
	if rng.Intn(3) == 0 {
		c.MAX_DEPOSITS = view64(pickU(rng, 1, 16, 17, 32))
		c.MAX_ATTESTATIONS = view64(pickU(rng, 1, 64, 128, 200))
		c.MAX_VOLUNTARY_EXITS = view64(pickU(rng, 1, 16, 5))
	}
	if rng.Intn(3) == 0 {
		c.VALIDATOR_REGISTRY_LIMIT = view64(pickU(rng, 1<<40, 1<<20, 1000, 512))
	}
	if rng.Intn(3) == 0 {
		// vector lengths, including non-powers of two (SeedRandao fills EPOCHS_PER_HISTORICAL_VECTOR entries)
		c.EPOCHS_PER_HISTORICAL_VECTOR = common.Epoch(pickU(rng, 64, 32, 96, 12, 24, 72))
		c.SLOTS_PER_HISTORICAL_ROOT = common.Slot(pickU(rng, 64, 32, 128, 24, 48))
		c.EPOCHS_PER_SLASHINGS_VECTOR = common.Epoch(pickU(rng, 64, 16, 12))
	}
	if rng.Intn(4) == 0 {
		// "apart"-style balance constants: every combination of cap / increment / ejection differs from the published one
		c.MAX_EFFECTIVE_BALANCE = common.Gwei(pickU(rng, 24000000000, 48000000000, 20000000000))
		c.EFFECTIVE_BALANCE_INCREMENT = common.Gwei(pickU(rng, 1000000000, 2000000000, 4000000000, 250000000))
		c.EJECTION_BALANCE = common.Gwei(pickU(rng, 8000000000, 12000000000))
		c.MIN_DEPOSIT_AMOUNT = common.Gwei(pickU(rng, 1000000000, 500000000))
		if rng.Intn(2) == 0 {
			c.SLOTS_PER_EPOCH = 6
		}
	}
	return c
}

type gcase struct {
	mode  string // eth1 | eth1-ignore | kickstart | kickstart-sigs
	label string
	spec  *common.Spec
	hash  root
	time  uint64
	deps  []*dep
}

var amountsOf = func(rng *rand.Rand, spec *common.Spec) uint64 {
	max, inc := uint64(spec.MAX_EFFECTIVE_BALANCE), uint64(spec.EFFECTIVE_BALANCE_INCREMENT)
	switch rng.Intn(14) {
	case 0:
		return max
	case 1:
		return max
	case 2:
		return max
	case 3:
		return max - 1
	case 4:
		return max + 1
	case 5:
		return 2*max + uint64(rng.Intn(3)) - 1
	case 6:
		return uint64(spec.MIN_DEPOSIT_AMOUNT)
	case 7:
		return max / 2
	case 8:
		return uint64(rng.Int63n(int64(max) + 1))
	case 9:
		return max + uint64(rng.Int63n(int64(max)+1))
	case 10:
		k := uint64(rng.Intn(40))
		return k*inc + uint64(rng.Intn(3)) - 1 + 1 // around a multiple of the increment (never underflows)
	case 11:
		return 0
	case 12:
		return max - inc + uint64(rng.Intn(3)) - 1
	default:
		return max
	}
}

// genCase builds one deposit list. nextKey hands out fresh key indices (keys are shared between cases so
// that public keys are derived once per process).
func genCase(rng *rand.Rand, st *hreg.Stats, mode string, spec *common.Spec, n int, mostlyValid bool) *gcase {
	c := &gcase{mode: mode, spec: spec}
	rng.Read(c.hash[:])
	version := [4]byte(spec.GENESIS_FORK_VERSION)
	var used []int // key indices with at least one deposit so far
	fresh := 0
	ph := placeholderSig()
	sign := func(d *dep, key int, ver [4]byte, gvr root) {
		sk, _, _ := keys.get(key)
		sr := signingRoot(d.messageRoot(), depositDomain(ver, gvr))
		d.sig = blsu.Sign(sk, sr[:]).Serialize()
	}
	for i := 0; i < n; i++ {
		d := &dep{}
		rng.Read(d.wc[:])
		if rng.Intn(2) == 0 {
			d.wc[0] = 0
		}
		d.amount = amountsOf(rng, spec)
		k := rng.Intn(100)
		if mostlyValid && k >= 12 {
			k = 99
		}
		key := -1
		switch {
		case mode == "kickstart-sigs":
			// only real keys (the API signs itself); duplicates are top-ups
			if len(used) > 0 && rng.Intn(5) == 0 {
				key = used[rng.Intn(len(used))]
				d.kind = "topup"
			} else {
				key = fresh
				fresh++
				d.kind = "new-valid"
			}
			_, _, d.pk = keys.get(key)
			sign(d, key, version, root{})
		case k < 10 && len(used) > 0: // top-up of an earlier pubkey (whatever happened to it), signature irrelevant
			key = used[rng.Intn(len(used))]
			_, _, d.pk = keys.get(key)
			switch rng.Intn(3) {
			case 0:
				sign(d, key, version, root{})
				d.kind = "repeat-signed"
			case 1:
				rng.Read(d.sig[:])
				d.kind = "repeat-garbage-sig"
			default:
				d.sig = ph
				d.kind = "repeat-placeholder-sig"
			}
			if rng.Intn(3) == 0 { // amounts that only together reach the maximum
				d.amount = uint64(spec.MAX_EFFECTIVE_BALANCE) / 2
			}
		case k < 13: // signed by another key
			key = fresh
			fresh++
			_, _, d.pk = keys.get(key)
			sign(d, key+1000, version, root{})
			d.kind = "bad-pop-wrong-key"
		case k < 16: // signed over a different message
			key = fresh
			fresh++
			_, _, d.pk = keys.get(key)
			d.amount++
			sign(d, key, version, root{})
			d.amount--
			d.kind = "bad-pop-wrong-amount"
		case k < 19: // wrong domain: another fork version, or a non-zero genesis validators root
			key = fresh
			fresh++
			_, _, d.pk = keys.get(key)
			if rng.Intn(2) == 0 {
				v := version
				v[rng.Intn(4)] ^= 1 << uint(rng.Intn(8))
				sign(d, key, v, root{})
				d.kind = "bad-pop-fork-version"
			} else {
				var gvr root
				gvr[rng.Intn(32)] = 1
				sign(d, key, version, gvr)
				d.kind = "bad-pop-genesis-root"
			}
		case k < 21: // undecodable / invalid signature bytes
			key = fresh
			fresh++
			_, _, d.pk = keys.get(key)
			switch rng.Intn(3) {
			case 0:
				rng.Read(d.sig[:])
				d.kind = "sig-garbage"
			case 1:
				d.sig = [96]byte{0xc0} // infinity
				d.kind = "sig-infinity"
			default:
				d.kind = "sig-zero"
			}
		case k < 24: // pubkeys that are not valid keys
			switch rng.Intn(4) {
			case 0:
				rng.Read(d.pk[:])
				d.kind = "pk-garbage"
			case 1:
				d.pk = [48]byte{0xc0} // infinity: not a valid public key
				d.kind = "pk-infinity"
			case 2:
				d.kind = "pk-zero"
			default: // a garbage key used twice: still never a validator, never a top-up
				d.pk = [48]byte{0xde, 0xad}
				d.kind = "pk-garbage-repeated"
			}
			rng.Read(d.sig[:])
			if rng.Intn(2) == 0 {
				d.sig = ph
			}
		case k < 27 && len(used) > 0: // the wrong-message trick on a key that is ALREADY a validator or was skipped
			key = used[rng.Intn(len(used))]
			_, _, d.pk = keys.get(key)
			sign(d, key+1000, version, root{})
			d.kind = "repeat-bad-sig"
		default:
			key = fresh
			fresh++
			_, _, d.pk = keys.get(key)
			sign(d, key, version, root{})
			d.kind = "new-valid"
		}
		if mode == "kickstart" {
			d.sig = ph
			d.kind = "ks-" + strings.SplitN(d.kind, "-", 2)[0]
		}
		if key >= 0 {
			seen := false
			for _, u := range used {
				seen = seen || u == key
			}
			if !seen {
				used = append(used, key)
			}
			if mode == "kickstart-sigs" {
				_, skb, _ := keys.get(key)
				d.sk = &skb
			}
		}
		verdicts(d, version)
		st.Add("deposit-kind", d.kind)
		switch {
		case !d.pkOk:
			st.Add("verdict", "pubkey-invalid")
		case !d.sigDec:
			st.Add("verdict", "signature-undecodable")
		case !d.verOk:
			st.Add("verdict", "verify-false")
		default:
			st.Add("verdict", "verify-true")
		}
		c.deps = append(c.deps, d)
	}
	// proofs against the incrementally growing tree (eth1 mode only)
	if mode == "eth1" {
		leaves := make([]root, len(c.deps))
		for i, d := range c.deps {
			leaves[i] = d.dataRoot()
		}
		for i, d := range c.deps {
			d.proof = proofAt(leaves, uint64(i), uint64(i+1))
		}
		c.label = "honest-proofs"
		if n > 0 && rng.Intn(100) < 14 {
			j := rng.Intn(n)
			d := c.deps[j]
			switch rng.Intn(5) {
			case 0:
				d.proof[rng.Intn(33)][rng.Intn(32)] ^= 1 << uint(rng.Intn(8))
				c.label = "proof-bitflip"
			case 1:
				d.proof = proofAt(leaves, uint64(j), uint64(n)) // proof against the FINAL tree, not the snapshot
				c.label = "proof-against-final-tree"
				if j == n-1 {
					c.label = "honest-proofs"
				}
			case 2:
				d.proof = proofAt(leaves, uint64(rng.Intn(j+1)), uint64(j+1))
				c.label = "proof-of-other-leaf"
				if n == 1 || string(rootsBytes(d.proof)) == string(rootsBytes(proofAt(leaves, uint64(j), uint64(j+1)))) {
					c.label = "honest-proofs"
				}
			case 3:
				d.proof[32] = lenChunk(uint64(j)) // length mix-in before instead of after appending
				c.label = "proof-length-before-append"
			default:
				d.amount ^= 1 // data changed after the proof was made (verdicts stay those of the old message: recompute)
				verdicts(d, version)
				c.label = "data-changed-after-proof"
			}
		}
	} else {
		c.label = "no-proofs"
	}
	return c
}

func rootsBytes(l []root) []byte {
	out := make([]byte, 0, 32*len(l))
	for i := range l {
		out = append(out, l[i][:]...)
	}
	return out
}

func b01(b bool) string {
	if b {
		return "1"
	}
	return "0"
}

func hexOrDash(b []byte) string {
	if len(b) == 0 {
		return "-"
	}
	return hex.EncodeToString(b)
}

func (c *gcase) line() string {
	var sb strings.Builder
	sb.WriteString("genesis mode=" + c.mode + " case=" + c.label + " hash=" + hex.EncodeToString(c.hash[:]) +
		" time=" + strconv.FormatUint(c.time, 10) + " deps=")
	if len(c.deps) == 0 {
		sb.WriteString("-")
	}
	for i, d := range c.deps {
		if i > 0 {
			sb.WriteByte(';')
		}
		sk := "-"
		if d.sk != nil {
			sk = hex.EncodeToString(d.sk[:])
		}
		sb.WriteString(hex.EncodeToString(d.pk[:]) + ":" + hex.EncodeToString(d.wc[:]) + ":" +
			strconv.FormatUint(d.amount, 10) + ":" + hex.EncodeToString(d.sig[:]) + ":" + hexOrDash(rootsBytes(d.proof)) + ":" +
			b01(d.pkOk) + ":" + b01(d.sigDec) + ":" + b01(d.verOk) + ":" + hex.EncodeToString(d.sroot[:]) + ":" + sk)
	}
	sb.WriteString(" " + flat.SpecTokens(c.spec))
	return sb.String()
}


func view64(v uint64) view.Uint64View { return view.Uint64View(v) }

func pickTime(rng *rand.Rand, spec *common.Spec) uint64 {
	min, delay := uint64(spec.MIN_GENESIS_TIME), uint64(spec.GENESIS_DELAY)
	base := uint64(0)
	if min > delay {
		base = min - delay
	}
	switch rng.Intn(8) {
	case 0:
		return 0
	case 1:
		return base
	case 2:
		return base + 1
	case 3:
		if base > 0 {
			return base - 1
		}
		return 0
	case 4:
		return ^uint64(0) - delay + uint64(rng.Intn(3)) - 1 // around the uint64 overflow of time + GENESIS_DELAY
	case 5:
		return rng.Uint64() >> uint(rng.Intn(40))
	default:
		return base + uint64(rng.Intn(1<<20))
	}
}

func gen(o hreg.Opts, w *bufio.Writer) error {
	rng := o.Rand()
	st := o.Stats
	emit := func(preset string, c *gcase) {
		st.Add("mode", c.mode)
		st.Add("preset", preset)
		st.Add("case", c.label)
		n := len(c.deps)
		switch {
		case n == 0:
			st.Add("deposits", "0")
		case n < 8:
			st.Add("deposits", "1-7")
		case n < 33:
			st.Add("deposits", "8-32")
		case n < 129:
			st.Add("deposits", "33-128")
		default:
			st.Add("deposits", "129-300")
		}
		fmt.Fprintln(w, c.line())
	}
	modes := []string{"eth1", "eth1", "eth1", "eth1-ignore", "kickstart", "kickstart-sigs"}
	sizes := func() int {
		switch rng.Intn(10) {
		case 0:
			return rng.Intn(8) // 0..7: fewer validators than slots per epoch
		case 1, 2, 3:
			return 8 + rng.Intn(25)
		case 4, 5, 6:
			return 16 + rng.Intn(64)
		case 7, 8:
			return 64 + rng.Intn(65)
		default:
			return 129 + rng.Intn(172) // ..300
		}
	}
	// fixed shapes first: empty list, one deposit, exactly SLOTS_PER_EPOCH validators, 300 deposits
	for _, mode := range []string{"eth1", "eth1-ignore", "kickstart", "kickstart-sigs"} {
		for _, n := range []int{0, 1, 7, 8, 9} {
			c := genCase(rng, st, mode, configs.Minimal, n, true)
			c.time = pickTime(rng, configs.Minimal)
			emit("minimal", c)
		}
	}
	{
		c := genCase(rng, st, "eth1", configs.Minimal, 300, false)
		c.time = pickTime(rng, configs.Minimal)
		emit("minimal", c)
		// nobody reaches the maximum: validators but no active one
		c = genCase(rng, st, "eth1", configs.Minimal, 12, true)
		for _, d := range c.deps {
			d.amount = uint64(configs.Minimal.MAX_EFFECTIVE_BALANCE) - 1 - uint64(rng.Intn(1000))
		}
		c = regen(rng, st, c)
		emit("minimal", c)
	}
	// is_valid_genesis_state at its thresholds: exactly / one below / one above MIN_GENESIS_ACTIVE_VALIDATOR_COUNT
	// active validators, with a genesis time exactly at / just below MIN_GENESIS_TIME
	for _, n := range []int{9, 16} {
		for _, delta := range []int{-1, 0, 1} {
			for _, tdelta := range []int{-1, 0} {
				spec := cloneSpec(configs.Minimal)
				spec.MIN_GENESIS_ACTIVE_VALIDATOR_COUNT = view64(uint64(n + delta))
				c := genCase(rng, st, "eth1", spec, n, true)
				for _, d := range c.deps {
					d.amount = uint64(spec.MAX_EFFECTIVE_BALANCE)
				}
				c = regen(rng, st, c)
				c.label = fmt.Sprintf("threshold-active%+d-time%+d", delta, tdelta)
				c.time = uint64(int64(spec.MIN_GENESIS_TIME) - int64(spec.GENESIS_DELAY) + int64(tdelta))
				emit("custom", c)
			}
		}
	}
	// enough validators in total, but fewer fully funded (activated) ones than MIN_GENESIS_ACTIVE_VALIDATOR_COUNT:
	// 12 funded + 6 at half balance against minima 12 (valid), 13 and 18 (invalid although 18 validators exist)
	for _, min := range []uint64{12, 13, 18} {
		spec := cloneSpec(configs.Minimal)
		spec.MIN_GENESIS_ACTIVE_VALIDATOR_COUNT = view64(min)
		c := genCase(rng, st, "eth1", spec, 18, true)
		for i, d := range c.deps {
			d.amount = uint64(spec.MAX_EFFECTIVE_BALANCE)
			if i%3 == 2 {
				d.amount /= 2
			}
		}
		c = regen(rng, st, c)
		c.label = fmt.Sprintf("underfunded-6-of-18-min-%d", min)
		c.time = uint64(spec.MIN_GENESIS_TIME) // genesis time is late enough: the count decides
		emit("custom", c)
	}
	// fork schedules with later forks already at epoch 0 (altair only; altair+bellatrix; all): the phase0 genesis state's
	// fork field must not depend on the schedule
	for _, k := range []int{1, 2, 4} {
		for _, mode := range []string{"eth1", "kickstart", "kickstart-sigs"} {
			spec := cloneSpec(configs.Minimal)
			forksAtGenesis(rng, spec, k)
			c := genCase(rng, st, mode, spec, 10+rng.Intn(8), true)
			c.label = fmt.Sprintf("%s-forks-at-genesis-%d", c.label, k)
			c.time = pickTime(rng, spec)
			emit("custom", c)
		}
	}
	total := o.Pick(110, 1500)
	for i := 0; i < total; i++ {
		var p preset
		switch k := rng.Intn(10); {
		case k < 5:
			p = preset{"minimal", configs.Minimal}
		case k < 6:
			p = preset{"mainnet", configs.Mainnet}
		default:
			p = preset{"custom", customSpec(rng)}
		}
		mode := modes[rng.Intn(len(modes))]
		n := sizes()
		if p.name == "mainnet" && n > 80 {
			n = 32 + rng.Intn(48)
		}
		if spe := int(p.spec.SLOTS_PER_EPOCH); n < spe && rng.Intn(5) != 0 {
			n = spe + rng.Intn(20) // most lists are long enough for zrnt to accept them
		}
		c := genCase(rng, st, mode, p.spec, n, rng.Intn(3) != 0)
		c.time = pickTime(rng, p.spec)
		emit(p.name, c)
	}
	fmt.Fprintln(w, "genesis mode=eth1 malformed")
	fmt.Fprintln(w, "nonsense")
	return nil
}

// regen re-signs and re-proves a case whose amounts were edited by hand.
func regen(rng *rand.Rand, st *hreg.Stats, c *gcase) *gcase {
	version := [4]byte(c.spec.GENESIS_FORK_VERSION)
	for i, d := range c.deps {
		sk, _, pk := keys.get(5000 + i)
		d.pk = pk
		sr := signingRoot(d.messageRoot(), depositDomain(version, root{}))
		d.sig = blsu.Sign(sk, sr[:]).Serialize()
		verdicts(d, version)
	}
	leaves := make([]root, len(c.deps))
	for i, d := range c.deps {
		leaves[i] = d.dataRoot()
	}
	for i, d := range c.deps {
		d.proof = proofAt(leaves, uint64(i), uint64(i+1))
	}
	c.label = "nobody-active"
	return c
}

// ---------------------------------------------------------------------------------------------
// executor: the real code

func parseDeps(s string) ([]common.Deposit, [][32]byte, error) {
	if s == "-" {
		return nil, nil, nil
	}
	var out []common.Deposit
	var sks [][32]byte
	for _, rec := range strings.Split(s, ";") {
		f := strings.Split(rec, ":")
		if len(f) != 10 {
			return nil, nil, fmt.Errorf("bad deposit record")
		}
		var d common.Deposit
		get := func(dst []byte, h string) error {
			b, err := hex.DecodeString(h)
			if err != nil || len(b) != len(dst) {
				return fmt.Errorf("bad hex field")
			}
			copy(dst, b)
			return nil
		}
		if err := get(d.Data.Pubkey[:], f[0]); err != nil {
			return nil, nil, err
		}
		if err := get(d.Data.WithdrawalCredentials[:], f[1]); err != nil {
			return nil, nil, err
		}
		a, err := strconv.ParseUint(f[2], 10, 64)
		if err != nil {
			return nil, nil, err
		}
		d.Data.Amount = common.Gwei(a)
		if err := get(d.Data.Signature[:], f[3]); err != nil {
			return nil, nil, err
		}
		if f[4] != "-" {
			b, err := hex.DecodeString(f[4])
			if err != nil || len(b) != 33*32 {
				return nil, nil, fmt.Errorf("bad proof")
			}
			for i := range d.Proof {
				copy(d.Proof[i][:], b[32*i:])
			}
		}
		for _, k := range []int{5, 6, 7} {
			if f[k] != "0" && f[k] != "1" {
				return nil, nil, fmt.Errorf("bad verdict")
			}
		}
		var sr [32]byte
		if err := get(sr[:], f[8]); err != nil {
			return nil, nil, err
		}
		var sk [32]byte
		if f[9] != "-" {
			if err := get(sk[:], f[9]); err != nil {
				return nil, nil, err
			}
		}
		sks = append(sks, sk)
		out = append(out, d)
	}
	return out, sks, nil
}

func render(spec *common.Spec, state *phase0.BeaconStateView, epc *common.EpochsContext) string {
	fs, err := flat.From(spec, state)
	if err != nil {
		return "err-flat"
	}
	prefix := ""
	active := 0
	for _, v := range fs.Validators {
		if v.ActivationEpoch == 0 && 0 < v.ExitEpoch {
			active++
		}
	}
	if uint64(len(fs.Validators)) < uint64(spec.SLOTS_PER_EPOCH) {
		prefix = "fewvals:"
	} else if active == 0 {
		prefix = "noactive:"
	}
	valid, err := phase0.IsValidGenesisState(spec, state)
	if err != nil {
		return "err-valid"
	}
	return "ok " + prefix + fs.Abbrev() + " valid=" + hreg.B2S(valid) + " ctx=" + ctxcheck.CompareWithFresh(spec, epc, state)
}

func execLine(line string) string {
	toks := hreg.Fields(line)
	if len(toks) == 0 || toks[0] != "genesis" {
		return "bad-op"
	}
	kv, rest := flat.KV(strings.Join(toks[1:], " "))
	if len(rest) != 0 {
		return "bad-op"
	}
	spec := cloneSpec(configs.Minimal)
	if err := flat.ApplySpecTokens(spec, kv); err != nil {
		return "bad-op"
	}
	for _, k := range []string{"mode", "hash", "time", "deps", "SLOTS_PER_EPOCH", "GENESIS_DELAY", "MAX_EFFECTIVE_BALANCE"} {
		if _, ok := kv[k]; !ok {
			return "bad-op"
		}
	}
	var hash common.Root
	hb, err := hex.DecodeString(kv["hash"])
	if err != nil || len(hb) != 32 {
		return "bad-op"
	}
	copy(hash[:], hb)
	time, err := strconv.ParseUint(kv["time"], 10, 64)
	if err != nil {
		return "bad-op"
	}
	deps, sks, err := parseDeps(kv["deps"])
	if err != nil {
		return "bad-op"
	}
	return hreg.Guard(func() string {
		var state *phase0.BeaconStateView
		var epc *common.EpochsContext
		var err error
		switch kv["mode"] {
		case "eth1":
			state, epc, err = phase0.GenesisFromEth1(spec, hash, common.Timestamp(time), deps, false)
		case "eth1-ignore":
			state, epc, err = phase0.GenesisFromEth1(spec, hash, common.Timestamp(time), deps, true)
		case "kickstart", "kickstart-sigs":
			vals := make([]phase0.KickstartValidatorData, len(deps))
			for i := range deps {
				vals[i] = phase0.KickstartValidatorData{Pubkey: deps[i].Data.Pubkey,
					WithdrawalCredentials: deps[i].Data.WithdrawalCredentials, Balance: deps[i].Data.Amount}
			}
			if kv["mode"] == "kickstart" {
				state, epc, err = phase0.KickStartState(spec, hash, common.Timestamp(time), vals)
			} else {
				state, epc, err = phase0.KickStartStateWithSignatures(spec, hash, common.Timestamp(time), vals, sks)
			}
		default:
			return "bad-op"
		}
		if err != nil {
			return "err"
		}
		return render(spec, state, epc)
	})
}

func exec(o hreg.Opts, r *bufio.Scanner, w *bufio.Writer) error {
	for r.Scan() {
		fmt.Fprintln(w, execLine(r.Text()))
	}
	return r.Err()
}
