// Package conc drives the REAL shared components of zrnt (fork-choice wrapper, pubkey cache incl. the
// cached keys it hands out, operation pools) from many goroutines (C17). It is meant to be built with
// `go build -race`. Three kinds of runs (cmd/conc):
//
//   - replays of the schedules the Monitor model derives from a failing lock-discipline row: a re-entrant
//     call under a watchdog (`deadlock`), two calls racing on a field (`pair`), a two-section operation
//     interleaved with itself (`nonlin`), a handed-out alias used while a writer runs (`handout`);
//   - a race-mode stress: all operations of one component from many goroutines with NO harness
//     synchronisation between calls (so that the happens-before based race detector is not blinded);
//   - a linearizability-mode stress: every call is time-stamped and its result is checked against what
//     some sequential order of the overlapping calls could return (necessary conditions over monotone
//     histories: never a false alarm), under a global watchdog.
//
// Race reports are printed by the Go runtime (GORACE log_path) and parsed by vlib/props/c17.py.
package conc

import (
	"context"
	"crypto/sha256"
	"encoding/binary"
	"fmt"
	"reflect"
	"sort"
	"strings"

	blsu "github.com/protolambda/bls12-381-util"
	"github.com/protolambda/zrnt/eth2/beacon/altair"
	"github.com/protolambda/zrnt/eth2/beacon/common"
	"github.com/protolambda/zrnt/eth2/beacon/phase0"
	"github.com/protolambda/zrnt/eth2/configs"
	"github.com/protolambda/zrnt/eth2/forkchoice"
	"github.com/protolambda/zrnt/eth2/forkchoice/proto"
	"github.com/protolambda/zrnt/eth2/pool"
	"github.com/protolambda/ztyp/view"
)

const (
	NBlocks  = 48 // blocks per writer chain
	NChains  = 4
	NKeys    = 24
	NItems   = 64
	NSubnets = 4
	NGrow    = 64 // attestation data entries whose aggregate list keeps growing
	GrowComm = 32 // committee size of those
)

type Blk struct {
	Root, Parent common.Root
	Slot         common.Slot
}

// Env is one instance of every shared component plus pre-generated, read-only inputs.
type Env struct {
	Spec   *common.Spec
	Anchor common.Root
	FC     forkchoice.Forkchoice
	Chains [][]Blk // Chains[w] is a chain of blocks on top of the anchor, in insertion order

	PC   *common.PubkeyCache
	Keys []common.BLSPubkey

	AP *pool.AttestationPool
	VE *pool.VoluntaryExitPool
	AS *pool.AttesterSlashingPool
	PS *pool.ProposerSlashingPool
	SP *pool.SyncCommitteePool

	Atts []*phase0.Attestation
	// Grow[d][j]: aggregate for growth data d with participants {0, j+1} of GrowComms[d]
	Grow      [][]*phase0.Attestation
	GrowComms []common.CommitteeIndices
	Comms     []common.CommitteeIndices
	Indiv     []*phase0.Attestation
	Exits     []*phase0.SignedVoluntaryExit
	ASl       []*phase0.AttesterSlashing
	PSl       []*phase0.ProposerSlashing
	Msgs      []*altair.SyncCommitteeMessage
	Contrs    []*altair.SyncCommitteeContribution
}

func rootOf(tag string, i int) (r common.Root) {
	h := sha256.Sum256([]byte(fmt.Sprintf("%s/%d", tag, i)))
	copy(r[:], h[:])
	return
}

var keyCache []common.BLSPubkey

// Pubkeys returns n valid compressed BLS public keys (deterministic).
func Pubkeys(n int) []common.BLSPubkey {
	for i := len(keyCache); i < n; i++ {
		var b [32]byte
		h := sha256.Sum256([]byte(fmt.Sprintf("conc-key/%d", i)))
		copy(b[:], h[:])
		b[0] &= 0x3f
		var sk blsu.SecretKey
		if err := sk.Deserialize(&b); err != nil {
			panic(err)
		}
		pk, err := blsu.SkToPk(&sk)
		if err != nil {
			panic(err)
		}
		keyCache = append(keyCache, common.BLSPubkey(pk.Serialize()))
	}
	return keyCache[:n]
}

func bitlist(n int, set func(i int) bool) phase0.AttestationBits {
	b := make([]byte, n/8+1)
	for i := 0; i < n; i++ {
		if set(i) {
			b[i/8] |= 1 << uint(i%8)
		}
	}
	b[n/8] |= 1 << uint(n%8) // delimiter bit
	return phase0.AttestationBits(b)
}

// NewEnv builds fresh instances. Constructors that panic (sequential defects owned by other properties)
// leave the corresponding field nil; the operations on it then report "skip".
func NewEnv() *Env {
	e := &Env{Spec: configs.Mainnet}
	e.Anchor = rootOf("anchor", 0)
	cp := common.Checkpoint{Epoch: 0, Root: e.Anchor}
	bals := make([]common.Gwei, 64)
	for i := range bals {
		bals[i] = 32_000_000_000
	}
	func() {
		defer func() { _ = recover() }()
		sink := proto.NodeSinkFn(func(ctx context.Context, ref common.NodeRef, canonical bool) error { return nil })
		fc, err := proto.NewProtoForkChoice(e.Spec, cp, cp, e.Anchor, 0, common.Root{}, bals, sink)
		if err == nil {
			e.FC = fc
		}
	}()
	for w := 0; w < NChains; w++ {
		var ch []Blk
		parent := e.Anchor
		for i := 0; i < NBlocks; i++ {
			b := Blk{Root: rootOf(fmt.Sprintf("blk/%d", w), i), Parent: parent, Slot: common.Slot(1 + i*2 + w%2)}
			if i > 0 && b.Slot <= ch[i-1].Slot {
				b.Slot = ch[i-1].Slot + 1
			}
			ch = append(ch, b)
			parent = b.Root
		}
		e.Chains = append(e.Chains, ch)
	}

	e.Keys = Pubkeys(NKeys)
	e.PC = common.EmptyPubkeyCache()

	e.AP = pool.NewAttestationPool(e.Spec)
	e.VE = pool.NewVoluntaryExitPool(e.Spec)
	e.AS = pool.NewAttesterSlashingPool(e.Spec)
	e.PS = pool.NewProposerSlashingPool(e.Spec)
	e.SP = pool.NewSyncCommitteePool(e.Spec)

	for i := 0; i < NItems; i++ {
		comm := common.CommitteeIndices{common.ValidatorIndex(4 * i), common.ValidatorIndex(4*i + 1), common.ValidatorIndex(4*i + 2), common.ValidatorIndex(4*i + 3)}
		data := phase0.AttestationData{Slot: common.Slot(64 + i%8), Index: common.CommitteeIndex(i / 8),
			BeaconBlockRoot: rootOf("attblock", i), Source: common.Checkpoint{Epoch: 1}, Target: common.Checkpoint{Epoch: 2, Root: rootOf("target", 0)}}
		e.Comms = append(e.Comms, comm)
		e.Atts = append(e.Atts, &phase0.Attestation{AggregationBits: bitlist(4, func(int) bool { return true }), Data: data})
		e.Indiv = append(e.Indiv, &phase0.Attestation{AggregationBits: bitlist(4, func(j int) bool { return j == i%4 }), Data: data})
		e.Exits = append(e.Exits, &phase0.SignedVoluntaryExit{Message: phase0.VoluntaryExit{Epoch: 3, ValidatorIndex: common.ValidatorIndex(i)}})
		hdr := func(tag string) common.SignedBeaconBlockHeader {
			return common.SignedBeaconBlockHeader{Message: common.BeaconBlockHeader{Slot: 5, ProposerIndex: common.ValidatorIndex(i), BodyRoot: rootOf(tag, i)}}
		}
		e.PSl = append(e.PSl, &phase0.ProposerSlashing{SignedHeader1: hdr("h1"), SignedHeader2: hdr("h2")})
		ia := func(tag string) phase0.IndexedAttestation {
			d := data
			d.BeaconBlockRoot = rootOf(tag, i)
			return phase0.IndexedAttestation{AttestingIndices: []common.ValidatorIndex{common.ValidatorIndex(i)}, Data: d}
		}
		e.ASl = append(e.ASl, &phase0.AttesterSlashing{Attestation1: ia("as1"), Attestation2: ia("as2")})
		e.Msgs = append(e.Msgs, &altair.SyncCommitteeMessage{Slot: common.Slot(10 + i%3 - 1), BeaconBlockRoot: rootOf("sync", i%3), ValidatorIndex: common.ValidatorIndex(i)})
		e.Contrs = append(e.Contrs, &altair.SyncCommitteeContribution{Slot: common.Slot(10 + i%3 - 1), BeaconBlockRoot: rootOf("sync", i%3),
			SubcommitteeIndex: view.Uint64View(i % NSubnets), AggregationBits: altair.SyncCommitteeSubnetBits(make([]byte, 16))})
	}
	for d := 0; d < NGrow; d++ {
		comm := make(common.CommitteeIndices, GrowComm)
		for m := range comm {
			comm[m] = common.ValidatorIndex(10000 + d*GrowComm + m)
		}
		data := phase0.AttestationData{Slot: common.Slot(80 + d%16), Index: common.CommitteeIndex(d / 16),
			BeaconBlockRoot: rootOf("growblock", d), Source: common.Checkpoint{Epoch: 1}, Target: common.Checkpoint{Epoch: 2, Root: rootOf("target", 0)}}
		var row []*phase0.Attestation
		for j := 0; j < GrowComm-1; j++ {
			jj := j
			row = append(row, &phase0.Attestation{AggregationBits: bitlist(GrowComm, func(b int) bool { return b == 0 || b == jj+1 }), Data: data})
		}
		e.Grow = append(e.Grow, row)
		e.GrowComms = append(e.GrowComms, comm)
	}
	return e
}

// Op is one exported method of a shared component with arguments derived from (g, k).
type Op struct {
	Type, Method string
	Call         func(e *Env, g, k int) string
}

func (o Op) Name() string { return o.Type + "." + o.Method }

func boolS(b bool) string {
	if b {
		return "true"
	}
	return "false"
}
func errS(err error) string {
	if err != nil {
		return "err"
	}
	return "ok"
}

func (e *Env) blk(g, k int) Blk {
	ch := e.Chains[g%NChains]
	return ch[k%len(ch)]
}

var ctx = context.Background()

// Ops is the table of known operations. Methods that are not in it (added by a change to zrnt) are called
// through reflection with zero arguments (ReflectOp).
var Ops = []Op{
	// ---- ProtoForkChoice
	{"ProtoForkChoice", "ProcessBlock", func(e *Env, g, k int) string {
		b := e.blk(g, k)
		return boolS(e.FC.ProcessBlock(b.Parent, b.Root, b.Slot, 0, 0))
	}},
	{"ProtoForkChoice", "ProcessSlot", func(e *Env, g, k int) string {
		b := e.blk(g, k)
		e.FC.ProcessSlot(b.Root, b.Slot+1, 0, 0)
		return "done"
	}},
	{"ProtoForkChoice", "ProcessAttestation", func(e *Env, g, k int) string {
		b := e.blk(g, k)
		return boolS(e.FC.ProcessAttestation(common.ValidatorIndex((g*7+k)%64), b.Root, b.Slot))
	}},
	{"ProtoForkChoice", "GetSlot", func(e *Env, g, k int) string {
		b := e.blk(g, k)
		s, ok := e.FC.GetSlot(b.Root)
		if ok && s != b.Slot {
			return fmt.Sprintf("wrong-slot %d", s)
		}
		return boolS(ok)
	}},
	{"ProtoForkChoice", "InSubtree", func(e *Env, g, k int) string {
		b := e.blk(g, k)
		unknown, in := e.FC.InSubtree(e.Anchor, b.Root)
		return boolS(unknown) + "/" + boolS(in)
	}},
	{"ProtoForkChoice", "Head", func(e *Env, g, k int) string {
		_, err := e.FC.Head()
		return errS(err)
	}},
	{"ProtoForkChoice", "FindHead", func(e *Env, g, k int) string {
		_, err := e.FC.FindHead(e.Anchor, 0)
		return errS(err)
	}},
	{"ProtoForkChoice", "CanonicalChain", func(e *Env, g, k int) string {
		_, err := e.FC.CanonicalChain(e.Anchor, 0)
		return errS(err)
	}},
	{"ProtoForkChoice", "Search", func(e *Env, g, k int) string {
		_, _, err := e.FC.Search(common.NodeRef{Root: e.Anchor, Slot: 0}, nil, nil)
		return errS(err)
	}},
	{"ProtoForkChoice", "ClosestToSlot", func(e *Env, g, k int) string {
		b := e.blk(g, k)
		_, err := e.FC.ClosestToSlot(b.Root, b.Slot+1)
		return errS(err)
	}},
	{"ProtoForkChoice", "CanonAtSlot", func(e *Env, g, k int) string {
		b := e.blk(g, k)
		_, err := e.FC.CanonAtSlot(e.Anchor, b.Slot, k%2 == 0)
		return errS(err)
	}},
	{"ProtoForkChoice", "Pin", func(e *Env, g, k int) string {
		p := e.FC.Pin()
		if p != nil {
			_ = p.Root
			_ = p.Slot
		}
		return "done"
	}},
	{"ProtoForkChoice", "SetPin", func(e *Env, g, k int) string {
		return errS(e.FC.SetPin(e.Anchor, 0))
	}},
	{"ProtoForkChoice", "Justified", func(e *Env, g, k int) string { return fmt.Sprint(e.FC.Justified().Epoch) }},
	{"ProtoForkChoice", "Finalized", func(e *Env, g, k int) string { return fmt.Sprint(e.FC.Finalized().Epoch) }},
	{"ProtoForkChoice", "UpdateJustified", func(e *Env, g, k int) string {
		// an EFFECTIVE update (justified epoch grows, finalized unchanged: no pruning), trigger = the pinned
		// anchor and trigger = another root in turn
		trigger := e.Anchor
		if k%2 == 1 {
			trigger = e.blk(g, k).Root
		}
		j := common.Checkpoint{Epoch: common.Epoch(1 + g*1000 + k), Root: e.Anchor}
		f := common.Checkpoint{Epoch: 0, Root: e.Anchor}
		bals := make([]common.Gwei, 64)
		for i := range bals {
			bals[i] = 32_000_000_000
		}
		return errS(e.FC.UpdateJustified(ctx, trigger, j, f, func() ([]common.Gwei, error) { return bals, nil }))
	}},
	// ---- PubkeyCache / CachedPubkey
	{"PubkeyCache", "AddValidator", func(e *Env, g, k int) string {
		i := k % NKeys
		pc, err := e.PC.AddValidator(common.ValidatorIndex(i), e.Keys[i])
		if err != nil {
			return "err"
		}
		if pc != e.PC {
			return "forked"
		}
		return "ok"
	}},
	{"PubkeyCache", "Pubkey", func(e *Env, g, k int) string {
		i := k % NKeys
		p, ok := e.PC.Pubkey(common.ValidatorIndex(i))
		if !ok {
			return "none"
		}
		if p.Compressed != e.Keys[i] {
			return "wrong-key"
		}
		return "ok"
	}},
	{"PubkeyCache", "ValidatorIndex", func(e *Env, g, k int) string {
		i := k % NKeys
		idx, ok := e.PC.ValidatorIndex(e.Keys[i])
		if !ok {
			return "none"
		}
		if int(idx) != i {
			return fmt.Sprintf("wrong-index %d", idx)
		}
		return "ok"
	}},
	{"CachedPubkey", "Pubkey", func(e *Env, g, k int) string {
		i := k % NKeys
		p, ok := e.PC.Pubkey(common.ValidatorIndex(i))
		if !ok {
			return "none"
		}
		pub, err := p.Pubkey()
		if err != nil || pub == nil {
			return "err"
		}
		cp := *pub // Serialize normalises its receiver in place (kilic G1.Affine): never call it on the shared key
		if common.BLSPubkey(cp.Serialize()) != e.Keys[i] {
			return "wrong-key"
		}
		return "ok"
	}},
	// ---- pools
	{"AttestationPool", "AddAttestation", func(e *Env, g, k int) string {
		i := k % NItems
		switch g % 3 {
		case 0: // a full aggregate for data i: always accepted
			return errS(e.AP.AddAttestation(ctx, e.Atts[i], e.Comms[i]))
		case 1: // an individual attestation
			return errS(e.AP.AddAttestation(ctx, e.Indiv[i], e.Comms[i]))
		}
		// an aggregate that EXTENDS existing data: same AttestationData, new participants {0, j+1} of a
		// 64-member committee (the only branch of AddAttestation that grows MinAggregates.Aggregates)
		d, j := k%NGrow, (k/NGrow)%(GrowComm-1)
		return errS(e.AP.AddAttestation(ctx, e.Grow[d][j], e.GrowComms[d]))
	}},
	{"AttestationPool", "Search", func(e *Env, g, k int) string {
		slot := common.Slot(64 + k%8)
		if (g/2)%2 == 1 {
			slot = common.Slot(80 + k%16) // the slots of the growing aggregates
		}
		out := e.AP.Search(pool.WithSlot(slot))
		var ids []string
		for _, a := range out {
			ids = append(ids, fmt.Sprintf("%x", a.Data.BeaconBlockRoot[:4]))
		}
		sort.Strings(ids)
		return strings.Join(ids, ",")
	}},
	{"AttestationPool", "Prune", func(e *Env, g, k int) string {
		e.AP.Prune(common.Epoch(k % 3)) // epochs 0..2: nothing of target epoch 2 is old enough to go
		return "done"
	}},
	{"AttestationPool", "Packing", func(e *Env, g, k int) string {
		_, err := e.AP.Packing(ctx, common.Checkpoint{}, common.Checkpoint{}, common.Root{}, 0, 1, 0, nil)
		return errS(err)
	}},
	{"VoluntaryExitPool", "AddVoluntaryExit", func(e *Env, g, k int) string {
		return errS(e.VE.AddVoluntaryExit(ctx, e.Exits[k%NItems]))
	}},
	{"VoluntaryExitPool", "All", func(e *Env, g, k int) string {
		var ids []int
		for _, x := range e.VE.All() {
			ids = append(ids, int(x.Message.ValidatorIndex))
		}
		return idList(ids)
	}},
	{"VoluntaryExitPool", "Pack", func(e *Env, g, k int) string { e.VE.Pack(nil, 1); return "done" }},
	{"AttesterSlashingPool", "AddAttesterSlashing", func(e *Env, g, k int) string {
		return errS(e.AS.AddAttesterSlashing(ctx, e.ASl[k%NItems]))
	}},
	{"AttesterSlashingPool", "All", func(e *Env, g, k int) string {
		var ids []int
		for _, x := range e.AS.All() {
			ids = append(ids, int(x.Attestation1.AttestingIndices[0]))
		}
		return idList(ids)
	}},
	{"AttesterSlashingPool", "Pack", func(e *Env, g, k int) string { e.AS.Pack(nil, 1); return "done" }},
	{"ProposerSlashingPool", "AddProposerSlashing", func(e *Env, g, k int) string {
		return errS(e.PS.AddProposerSlashing(ctx, e.PSl[k%NItems]))
	}},
	{"ProposerSlashingPool", "All", func(e *Env, g, k int) string {
		var ids []int
		for _, x := range e.PS.All() {
			ids = append(ids, int(x.SignedHeader1.Message.ProposerIndex))
		}
		return idList(ids)
	}},
	{"ProposerSlashingPool", "Pack", func(e *Env, g, k int) string { e.PS.Pack(nil, 1); return "done" }},
	{"SyncCommitteePool", "Reset", func(e *Env, g, k int) string {
		e.SP.Reset(common.Slot(10 + k%2)) // 10 <-> 11: slots 10 and 11 stay inside the window either way
		return "done"
	}},
	{"SyncCommitteePool", "AddSyncCommitteeMessage", func(e *Env, g, k int) string {
		m := *e.Msgs[k%NItems]
		if k%5 == 4 {
			m.Slot = 40 // outside the window whatever Reset did
		} else {
			m.Slot = common.Slot(10 + k%2)
		}
		return errS(e.SP.AddSyncCommitteeMessage(ctx, &m))
	}},
	{"SyncCommitteePool", "AddSyncCommitteeContribution", func(e *Env, g, k int) string {
		c := *e.Contrs[k%NItems]
		if k%5 == 4 {
			c.Slot = 40
		} else {
			c.Slot = common.Slot(10 + k%2)
		}
		return errS(e.SP.AddSyncCommitteeContribution(ctx, &c))
	}},
	{"SyncCommitteePool", "PackContribution", func(e *Env, g, k int) string {
		_, err := e.SP.PackContribution(ctx, 10, common.Root{}, 0, nil)
		return errS(err)
	}},
	{"SyncCommitteePool", "PackAggregate", func(e *Env, g, k int) string {
		_, err := e.SP.PackAggregate(ctx, 10, common.Root{}, nil)
		return errS(err)
	}},
}

func idList(ids []int) string {
	sort.Ints(ids)
	var sb strings.Builder
	for i, x := range ids {
		if i > 0 {
			sb.WriteByte(',')
		}
		fmt.Fprintf(&sb, "%d", x)
	}
	return sb.String()
}

func FindOp(typ, method string) (Op, bool) {
	for _, o := range Ops {
		if o.Type == typ && o.Method == method {
			return o, true
		}
	}
	return Op{}, false
}

// Target returns the instance of the named shared type in e.
func (e *Env) Target(typ string) interface{} {
	switch typ {
	case "ProtoForkChoice":
		return e.FC
	case "PubkeyCache":
		return e.PC
	case "CachedPubkey":
		p, _ := e.PC.Pubkey(0)
		return p
	case "AttestationPool":
		return e.AP
	case "VoluntaryExitPool":
		return e.VE
	case "AttesterSlashingPool":
		return e.AS
	case "ProposerSlashingPool":
		return e.PS
	case "SyncCommitteePool":
		return e.SP
	}
	return nil
}

// touch reads everything reachable from v one or two levels deep (map iteration, slice elements, pointer
// targets), so that the race detector sees the reads a caller of a handed-out alias would make.
func touch(v reflect.Value, depth int) int {
	n := 0
	if !v.IsValid() || depth > 3 {
		return 0
	}
	switch v.Kind() {
	case reflect.Map:
		if v.IsNil() {
			return 0
		}
		it := v.MapRange()
		for it.Next() {
			n += 1 + touch(it.Value(), depth+1)
		}
	case reflect.Slice:
		if v.IsNil() {
			return 0
		}
		for i := 0; i < v.Len() && i < 64; i++ {
			n += 1 + touch(v.Index(i), depth+1)
		}
	case reflect.Ptr, reflect.Interface:
		if v.IsNil() {
			return 0
		}
		n += touch(v.Elem(), depth+1)
	case reflect.Struct:
		for i := 0; i < v.NumField(); i++ {
			f := v.Field(i)
			if f.CanInterface() {
				n += touch(f, depth+1)
			}
		}
	case reflect.Uint64, reflect.Uint8, reflect.Uint32, reflect.Int, reflect.Int64, reflect.Bool:
		n++
	case reflect.Array:
		if v.Len() > 0 {
			n += touch(v.Index(0), depth+1)
		}
	}
	return n
}

// ReflectOp calls an exported method that is not in Ops with zero-valued arguments and reads through
// whatever it returns.
func ReflectOp(typ, method string) (Op, bool) {
	probe := NewEnv()
	if _, err := probe.PC.AddValidator(0, probe.Keys[0]); err != nil {
		return Op{}, false
	}
	t := probe.Target(typ)
	if t == nil {
		return Op{}, false
	}
	m := reflect.ValueOf(t).MethodByName(method)
	if !m.IsValid() {
		return Op{}, false
	}
	return Op{Type: typ, Method: method, Call: func(e *Env, g, k int) string {
		mv := reflect.ValueOf(e.Target(typ)).MethodByName(method)
		mt := mv.Type()
		args := make([]reflect.Value, 0, mt.NumIn())
		for i := 0; i < mt.NumIn(); i++ {
			if mt.IsVariadic() && i == mt.NumIn()-1 {
				break
			}
			it := mt.In(i)
			if it.Kind() == reflect.Interface && it.Name() == "Context" {
				args = append(args, reflect.ValueOf(ctx))
				continue
			}
			if it.Kind() == reflect.Ptr {
				args = append(args, reflect.New(it.Elem()))
				continue
			}
			args = append(args, reflect.Zero(it))
		}
		n := 0
		for _, r := range mv.Call(args) {
			n += touch(r, 0)
		}
		return fmt.Sprintf("touched %d", n)
	}}, true
}

// ExportedMethods lists the exported methods of the named type's instance (for discovering methods that
// are not in Ops).
func ExportedMethods(e *Env, typ string) []string {
	t := e.Target(typ)
	if t == nil {
		return nil
	}
	rt := reflect.TypeOf(t)
	var out []string
	for i := 0; i < rt.NumMethod(); i++ {
		out = append(out, rt.Method(i).Name)
	}
	return out
}

var _ = binary.LittleEndian
