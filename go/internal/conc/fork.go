package conc

import (
	"crypto/sha256"
	"fmt"
	"time"

	"github.com/protolambda/zrnt/eth2/beacon/common"
)

// Forked pubkey caches. A conflicting deposit at a known index forks a child cache out of its parent; the child
// keeps answering lookups of the shared history (indices below the fork point) THROUGH the parent, while the
// parent (and the siblings) keep appending. The lock of the child does not protect the parent: the scenario
// hammers lookups through children and a grandchild while the parent and the children append, with no
// harness synchronisation between calls, and checks every answer (all of them are the same in every
// sequential order: shared history is immutable, entries of the other side of a fork are never visible).

const (
	forkBase     = 8 // validators in the parent before the forks
	forkChildren = 4
)

func fakeKey(tag string, i int) (k common.BLSPubkey) {
	h := sha256.Sum256([]byte(fmt.Sprintf("%s/%d", tag, i)))
	copy(k[:], h[:])
	copy(k[32:], h[:16])
	return
}

type forkEnv struct {
	parent   *common.PubkeyCache
	children []*common.PubkeyCache
	forkAt   []int
	grand    *common.PubkeyCache
}

func newForkEnv() (fe *forkEnv, note string) {
	defer func() {
		if r := recover(); r != nil {
			fe, note = nil, "sequential panic while forking caches"
		}
	}()
	fe = &forkEnv{parent: common.EmptyPubkeyCache()}
	for i := 0; i < forkBase; i++ {
		if pc, err := fe.parent.AddValidator(common.ValidatorIndex(i), fakeKey("base", i)); err != nil || pc != fe.parent {
			return nil, "sequential AddValidator did not append"
		}
	}
	for j := 0; j < forkChildren; j++ {
		at := 3 + j
		child, err := fe.parent.AddValidator(common.ValidatorIndex(at), fakeKey("alt", j))
		if err != nil || child == nil || child == fe.parent {
			return nil, "a conflicting deposit at a known index did not fork the cache (sequential behaviour, C16)"
		}
		fe.children = append(fe.children, child)
		fe.forkAt = append(fe.forkAt, at)
	}
	g, err := fe.children[0].AddValidator(common.ValidatorIndex(fe.forkAt[0]), fakeKey("alt2", 0))
	if err != nil || g == nil || g == fe.children[0] {
		return nil, "second-level fork did not happen (sequential behaviour, C16)"
	}
	fe.grand = g
	return fe, ""
}

// StressFork runs the scenario from `goroutines` goroutines (roles by g%4: parent appender, child appender,
// two kinds of lookups through forks).
func StressFork(goroutines, iters int, timeout time.Duration, out *Out) {
	// sequential probe of the scenario itself, under a watchdog
	type probeRes struct {
		fe   *forkEnv
		note string
	}
	ch := make(chan probeRes, 1)
	go func() { fe, n := newForkEnv(); ch <- probeRes{fe, n} }()
	var fe *forkEnv
	select {
	case r := <-ch:
		if r.fe == nil {
			out.Note("skip pubkeyfork: " + r.note)
			fmt.Fprintf(out.W, "returned stress-race pubkeyfork\n")
			return
		}
		fe = r.fe
	case <-time.After(2 * timeout):
		fmt.Fprintf(out.W, "blocked PubkeyCache.AddValidator\n")
		out.Note("forking a cache blocks even without concurrency")
		return
	}
	maxAppend := 2000
	bad := func(m, what string) string {
		out.Violation(fmt.Sprintf("result: PubkeyCache.%s through a forked cache %s (the same in every sequential order: shared history is immutable, the other side of a fork is invisible)", m, what))
		return "bad"
	}
	ops := []Op{
		{"PubkeyCache", "AddValidator", func(_ *Env, g, k int) string { // parent appends, in order
			i := forkBase + k%maxAppend
			pc, err := fe.parent.AddValidator(common.ValidatorIndex(i), fakeKey("base", i))
			if err != nil || pc != fe.parent {
				return bad("AddValidator", "(parent appending the next index, or re-adding a present pair) failed or forked")
			}
			return "ok"
		}},
		{"PubkeyCache", "AddValidator", func(_ *Env, g, k int) string { // a child appends, in order
			j := (g / 4) % forkChildren
			i := fe.forkAt[j] + 1 + k%maxAppend
			pc, err := fe.children[j].AddValidator(common.ValidatorIndex(i), fakeKey(fmt.Sprintf("side%d", j), i))
			if err != nil || pc != fe.children[j] {
				return bad("AddValidator", "(child appending the next index, or re-adding a present pair) failed or forked")
			}
			return "ok"
		}},
		{"PubkeyCache", "ValidatorIndex", func(_ *Env, g, k int) string {
			j := k % (forkChildren + 1)
			c, at := fe.grand, fe.forkAt[0]
			if j < forkChildren {
				c, at = fe.children[j], fe.forkAt[j]
			}
			i := k % (forkBase + 40)
			idx, ok := c.ValidatorIndex(fakeKey("base", i))
			if i < at {
				if !ok || int(idx) != i {
					return bad("ValidatorIndex", "did not find a key of the shared history")
				}
			} else if ok {
				return bad("ValidatorIndex", "found a key that exists only on the parent's side of the fork")
			}
			return "ok"
		}},
		{"PubkeyCache", "Pubkey", func(_ *Env, g, k int) string {
			j := k % (forkChildren + 1)
			c, at := fe.grand, fe.forkAt[0]
			alt := fakeKey("alt2", 0)
			if j < forkChildren {
				c, at = fe.children[j], fe.forkAt[j]
				alt = fakeKey("alt", j)
			}
			i := k % (at + 1)
			p, ok := c.Pubkey(common.ValidatorIndex(i))
			want := fakeKey("base", i)
			if i == at {
				want = alt
			}
			if !ok || p == nil || p.Compressed != want {
				return bad("Pubkey", "returned a wrong or no key for an index of the fork's own history")
			}
			return "ok"
		}},
	}
	plan := make([][]int, goroutines)
	for g := range plan {
		plan[g] = []int{g % 4}
	}
	ok := runWorkers(nil, ops, plan, iters, timeout, out, func(g, k int, o Op, res string) {
		if res == "panic" {
			out.Violation("panic: PubkeyCache." + o.Method + " panicked in the forked-cache scenario (sequential set-up was clean)")
		}
	})
	out.Stat("race_calls_pubkeyfork", LastCalls)
	out.Stat("race_ops_pubkeyfork", len(ops))
	if ok {
		fmt.Fprintf(out.W, "returned stress-race pubkeyfork\n")
	}
}
