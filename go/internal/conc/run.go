package conc

import (
	"fmt"
	"io"
	"regexp"
	"sort"
	"strings"
	"sync"
	"sync/atomic"
	"time"

	"github.com/protolambda/zrnt/eth2/beacon/common"
)

// Deadline is the time budget of a run (zero = none): when it has passed, workers stop ISSUING calls, the
// run joins and reports what it covered. Running out of time is never a finding.
var Deadline time.Time

// LastCalls is the number of calls the last runWorkers actually performed.
var LastCalls int

func overBudget() bool { return !Deadline.IsZero() && time.Now().After(Deadline) }

// Out collects the protocol lines of one run: `stat k v`, `violation <descriptor>`, `blocked T.M`, `note ..`.
type Out struct {
	mu    sync.Mutex
	W     io.Writer
	stats map[string]int
	viol  map[string]bool
}

func NewOut(w io.Writer) *Out { return &Out{W: w, stats: map[string]int{}, viol: map[string]bool{}} }

func (o *Out) Stat(k string, n int) {
	o.mu.Lock()
	o.stats[k] += n
	o.mu.Unlock()
}

// Violation prints a violation descriptor once; it returns true the first time.
func (o *Out) Violation(d string) bool {
	o.mu.Lock()
	defer o.mu.Unlock()
	if !o.viol[d] {
		o.viol[d] = true
		fmt.Fprintf(o.W, "violation %s\n", d)
		return true
	}
	return false
}
func (o *Out) Note(s string) {
	o.mu.Lock()
	fmt.Fprintf(o.W, "note %s\n", s)
	o.mu.Unlock()
}
func (o *Out) Flush() {
	o.mu.Lock()
	var ks []string
	for k := range o.stats {
		ks = append(ks, k)
	}
	sort.Strings(ks)
	for _, k := range ks {
		fmt.Fprintf(o.W, "stat %s %d\n", k, o.stats[k])
	}
	o.mu.Unlock()
}

// guard runs f and converts a Go panic into the result "panic".
func guard(f func() string) (res string) {
	defer func() {
		if r := recover(); r != nil {
			res = "panic"
		}
	}()
	return f()
}

// SeqProbe runs every operation a few times on a fresh Env, sequentially, each call under a watchdog.
// Operations that panic sequentially are sequential defects (owned by C16/C20/C09-C11), not concurrency
// defects. An operation that does not return even sequentially (a call that re-acquires its own lock) is
// printed as `blocked T.M`; probing stops there because the object's lock is lost.
func SeqProbe(ops []Op, out *Out, timeout time.Duration) (bad map[string]bool, blocked string) {
	bad = map[string]bool{}
	e := NewEnv()
	for rep := 0; rep < 3; rep++ {
		for _, o := range ops {
			if skipOp(e, o) {
				bad[o.Name()] = true
				continue
			}
			for k := 0; k < 6; k++ {
				res := make(chan string, 1)
				go func() { res <- guard(func() string { return o.Call(e, rep, k) }) }()
				select {
				case r := <-res:
					if r == "panic" {
						bad[o.Name()] = true
					}
				case <-time.After(2 * timeout):
					if out != nil {
						fmt.Fprintf(out.W, "blocked %s\n", o.Name())
						out.Note("the call blocks even without any concurrency (sequential probe, call #" + fmt.Sprint(rep*6+k) + ")")
					}
					return bad, o.Name()
				}
			}
		}
	}
	return bad, ""
}

func skipOp(e *Env, o Op) bool { return e.Target(o.Type) == nil && o.Type != "CachedPubkey" }

// inflight is the per-goroutine "what am I executing" slot read by the watchdog only.
type inflight struct {
	op    atomic.Int32 // index+1 into the ops slice, 0 = idle
	since atomic.Int64
}

// runWorkers starts one goroutine per entry of plan (plan[g] = the op indices goroutine g cycles through),
// each doing iters calls, with NO synchronisation between calls. Returns false when the watchdog fired;
// then the blocked operations have been printed.
func runWorkers(e *Env, ops []Op, plan [][]int, iters int, timeout time.Duration, out *Out, onRes func(g, k int, o Op, res string)) bool {
	slots := make([]inflight, len(plan))
	counts := make([]int, len(plan)) // each written by its own goroutine only, read after the join
	LastCalls = 0
	var wg sync.WaitGroup
	start := make(chan struct{})
	for g := range plan {
		wg.Add(1)
		go func(g int) {
			defer wg.Done()
			<-start
			for k := 0; k < iters; k++ {
				if k%16 == 0 && overBudget() {
					break
				}
				counts[g]++
				oi := plan[g][k%len(plan[g])]
				o := ops[oi]
				slots[g].since.Store(time.Now().UnixNano())
				slots[g].op.Store(int32(oi + 1))
				res := guard(func() string { return o.Call(e, g, k) })
				slots[g].op.Store(0)
				if onRes != nil {
					onRes(g, k, o, res)
				}
			}
		}(g)
	}
	close(start)
	done := make(chan struct{})
	go func() { wg.Wait(); close(done) }()
	// Watchdog loop: every `timeout` look at each goroutine's (operation, start time) slot. A call is taken
	// to be blocked only when the very same call has been in flight over THREE consecutive looks (>= 2*timeout
	// without returning) — the run may legitimately take long, single calls are microseconds.
	prev := make([]int64, len(slots))
	strikes := make([]int, len(slots))
	blocked := map[string]int64{}
	for len(blocked) == 0 {
		select {
		case <-done:
			for _, c := range counts {
				LastCalls += c
			}
			return true
		case <-time.After(timeout):
		}
		for g := range slots {
			oi := slots[g].op.Load()
			since := slots[g].since.Load()
			if oi != 0 && since == prev[g] {
				strikes[g]++
			} else {
				strikes[g] = 0
			}
			prev[g] = since
			if strikes[g] >= 2 {
				n := ops[oi-1].Name()
				if t, ok := blocked[n]; !ok || since < t {
					blocked[n] = since
				}
			}
		}
	}
	// the culprit of a lock that is never released is the OLDEST blocked call on that object
	type bt struct {
		n string
		t int64
	}
	var bl []bt
	for n, t := range blocked {
		bl = append(bl, bt{n, t})
	}
	sort.Slice(bl, func(i, j int) bool { return bl[i].t < bl[j].t })
	seenType := map[string]bool{}
	for _, b := range bl {
		typ := strings.SplitN(b.n, ".", 2)[0]
		if seenType[typ] {
			fmt.Fprintf(out.W, "note also-blocked %s\n", b.n)
			continue
		}
		seenType[typ] = true
		fmt.Fprintf(out.W, "blocked %s\n", b.n)
	}
	return false
}

// Deadlock: one call of the operation on a fresh instance, under a watchdog.
func Deadlock(o Op, timeout time.Duration, out *Out) {
	e := NewEnv()
	if skipOp(e, o) {
		out.Note("skip " + o.Name() + ": constructor failed")
		return
	}
	// the same arguments twice in a row, so that duplicate / already-present paths are taken as well
	rep := Op{Type: o.Type, Method: o.Method, Call: func(e *Env, g, k int) string { return o.Call(e, g, k/2) }}
	ok := runWorkers(e, []Op{rep}, [][]int{{0}}, 8, timeout, out, nil)
	if ok {
		fmt.Fprintf(out.W, "returned %s\n", o.Name())
	}
}

// Pair: the two operations from several goroutines each on one shared instance (race replay).
func Pair(a, b Op, prefill []Op, iters int, timeout time.Duration, out *Out) {
	e := NewEnv()
	if skipOp(e, a) || skipOp(e, b) {
		out.Note("skip pair: constructor failed")
		return
	}
	// put something into the object first, sequentially, so that both operations have state to touch
	for _, p := range prefill {
		done := make(chan struct{})
		go func() {
			for k := 0; k < 8; k++ {
				guard(func() string { return p.Call(e, 0, k) })
			}
			close(done)
		}()
		select {
		case <-done:
		case <-time.After(2 * timeout):
			fmt.Fprintf(out.W, "blocked %s\n", p.Name())
			return
		}
	}
	ops := []Op{a, b}
	plan := [][]int{{0}, {1}, {0}, {1}, {0}, {1}} // six goroutines: the op tables vary their inputs with g%3 and (g/2)%2
	panics := atomic.Int64{}
	ok := runWorkers(e, ops, plan, iters, timeout, out, func(g, k int, o Op, res string) {
		if res == "panic" {
			panics.Add(1)
		}
	})
	out.Stat("pair_calls", LastCalls)
	out.Stat("pair_panics", int(panics.Load()))
	if ok {
		fmt.Fprintf(out.W, "returned %s %s\n", a.Name(), b.Name())
	}
}

// NonLin: the two-section replay. All goroutines perform the same sequence AddValidator(0,K0), (1,K1), ...
// on one cache. Whenever a goroutine calls AddValidator(j, Kj) it has itself completed AddValidator(j-1, ..),
// so in EVERY sequential order of the calls the call returns (same cache, nil): either j is the next index
// (appended) or j is already there with this key (no-op). An error or a forked cache is a result no
// sequential order produces. Generic for any op: results of the same (g-independent) call sequence must
// not contain "err"/"forked".
func NonLin(o Op, rounds, goroutines int, timeout time.Duration, out *Out) {
	hits := atomic.Int64{}
	calls := 0
	for r := 0; r < rounds && hits.Load() == 0 && !overBudget(); r++ {
		e := NewEnv()
		plan := make([][]int, goroutines)
		for g := range plan {
			plan[g] = []int{0}
		}
		var first atomic.Value
		ok := runWorkers(e, []Op{o}, plan, NKeys, timeout, out, func(g, k int, op Op, res string) {
			if res != "ok" {
				hits.Add(1)
				first.CompareAndSwap(nil, fmt.Sprintf("round %d goroutine %d call #%d %s(%d, key%d) returned %s", r, g, k, op.Name(), k%NKeys, k%NKeys, res))
			}
		})
		calls += goroutines * NKeys
		if !ok {
			return
		}
		if v := first.Load(); v != nil {
			if out.Violation(fmt.Sprintf("nonlin: %s check-then-act: %d goroutines each make the same calls (index 0, 1, 2, .. in order); every sequential order returns ok (same object, no error) for every call, one call returned something else",
				o.Name(), goroutines)) {
				out.Note("first occurrence: " + v.(string))
			}
		}
	}
	out.Stat("nonlin_calls", calls)
	out.Stat("nonlin_hits", int(hits.Load()))
}

// ---- stress ----------------------------------------------------------------------------------------------

// Components groups the operations of the table by the shared object they run on.
var Components = map[string][]string{
	"fc":     {"ProtoForkChoice"},
	"pubkey": {"PubkeyCache", "CachedPubkey"},
	"pools":  {"AttestationPool", "VoluntaryExitPool", "AttesterSlashingPool", "ProposerSlashingPool", "SyncCommitteePool"},
}

func opsOf(types []string, extra []Op) []Op {
	var out []Op
	for _, o := range Ops {
		for _, t := range types {
			if o.Type == t {
				out = append(out, o)
			}
		}
	}
	for _, o := range extra {
		for _, t := range types {
			if o.Type == t {
				out = append(out, o)
			}
		}
	}
	return out
}

var lockMethods = map[string]bool{"Lock": true, "Unlock": true, "RLock": true, "RUnlock": true, "TryLock": true, "TryRLock": true, "RLocker": true}

// DiscoverOps returns reflection-driven operations for exported methods that are not in Ops.
func DiscoverOps(types []string) []Op {
	e := NewEnv()
	guard(func() string { e.PC.AddValidator(0, e.Keys[0]); return "" })
	var out []Op
	for _, t := range types {
		for _, m := range ExportedMethods(e, t) {
			if lockMethods[m] {
				continue
			}
			if _, ok := FindOp(t, m); ok {
				continue
			}
			if o, ok := ReflectOp(t, m); ok {
				out = append(out, o)
			}
		}
	}
	return out
}

// StressRace: every operation of the component from `goroutines` goroutines, no harness synchronisation.
func StressRace(comp string, goroutines, iters int, seed int64, timeout time.Duration, out *Out) {
	if comp == "pubkeyfork" {
		StressFork(goroutines, iters, timeout, out)
		return
	}
	types := Components[comp]
	ops := opsOf(types, DiscoverOps(types))
	bad, blk := SeqProbe(ops, out, timeout)
	if blk != "" {
		return
	}
	var live []Op
	for _, o := range ops {
		if bad[o.Name()] {
			out.Note("sequential-panic (not a concurrency finding, still exercised for races): " + o.Name())
		}
		live = append(live, o)
	}
	e := NewEnv()
	if comp == "pools" {
		guard(func() string { e.SP.Reset(10); return "" })
	}
	plan := make([][]int, goroutines)
	for g := range plan {
		// every goroutine cycles through all operations, starting at a different offset
		for i := range live {
			if skipOp(e, live[(i+g)%len(live)]) {
				continue
			}
			plan[g] = append(plan[g], (i+g*int(1+seed%7))%len(live))
		}
		if len(plan[g]) == 0 {
			out.Note("skip component " + comp + ": constructor failed")
			return
		}
		// two goroutines of the pools run stay on one operation each, so that a long Search keeps overlapping
		// with aggregates that extend existing attestation data (g=2 adds growing aggregates, g=3 searches their slots)
		if focus, ok := map[string]map[int]string{"pools": {2: "AttestationPool.AddAttestation", 3: "AttestationPool.Search"}}[comp][g]; ok {
			for i, o := range live {
				if o.Name() == focus && !skipOp(e, o) {
					plan[g] = []int{i}
				}
			}
		}
	}
	var panics sync.Map
	ok := runWorkers(e, live, plan, iters, timeout, out, func(g, k int, o Op, res string) {
		if res == "panic" && !bad[o.Name()] {
			panics.Store(o.Name(), true)
		}
	})
	out.Stat("race_calls_"+comp, LastCalls)
	if overBudget() {
		out.Note(fmt.Sprintf("time budget reached: %d of %d planned calls made", LastCalls, goroutines*iters))
	}
	out.Stat("race_ops_"+comp, len(live))
	panics.Range(func(k, v interface{}) bool {
		out.Note("panic under concurrency only (sequential probe was clean): " + k.(string))
		return true
	})
	if ok {
		fmt.Fprintf(out.W, "returned stress-race %s\n", comp)
	}
}

var itemRe = regexp.MustCompile(`(item|block|aggregate|index)\s+\d+`)

type rec struct {
	op         string
	arg        int
	g          int
	start, end int64
	res        string
}

// StressLin: time-stamped calls, results checked against necessary conditions of linearizability.
func StressLin(comp string, goroutines, iters int, timeout time.Duration, out *Out) {
	switch comp {
	case "pubkey":
		linPubkey(goroutines, iters, timeout, out)
	case "pools":
		linPools(goroutines, iters, timeout, out)
	case "fc":
		linFC(goroutines, iters, timeout, out)
	}
}

type history struct {
	clock atomic.Int64
	recs  [][]rec
}

func newHistory(g int) *history { return &history{recs: make([][]rec, g)} }

func (h *history) do(g int, op string, arg int, f func() string) string {
	s := h.clock.Add(1)
	res := guard(f)
	e := h.clock.Add(1)
	h.recs[g] = append(h.recs[g], rec{op: op, arg: arg, g: g, start: s, end: e, res: res})
	return res
}

func (h *history) all() []rec {
	var out []rec
	for _, r := range h.recs {
		out = append(out, r...)
	}
	return out
}

// runLin runs body(g) in `goroutines` goroutines under the watchdog; body reports its current op via set.
func runLin(goroutines int, timeout time.Duration, out *Out, body func(g int, set func(name string))) bool {
	names := []string{}
	var nmu sync.Mutex
	idx := map[string]int{}
	ops := func(name string) int {
		nmu.Lock()
		defer nmu.Unlock()
		if i, ok := idx[name]; ok {
			return i
		}
		idx[name] = len(names)
		names = append(names, name)
		return len(names) - 1
	}
	slots := make([]inflight, goroutines)
	var wg sync.WaitGroup
	for g := 0; g < goroutines; g++ {
		wg.Add(1)
		go func(g int) {
			defer wg.Done()
			body(g, func(name string) {
				if name == "" {
					slots[g].op.Store(0)
					return
				}
				slots[g].since.Store(time.Now().UnixNano())
				slots[g].op.Store(int32(ops(name) + 1))
			})
			slots[g].op.Store(0)
		}(g)
	}
	done := make(chan struct{})
	go func() { wg.Wait(); close(done) }()
	prev := make([]int64, goroutines)
	strikes := make([]int, goroutines)
	seen := map[string]bool{}
	for len(seen) == 0 {
		select {
		case <-done:
			return true
		case <-time.After(timeout):
		}
		nmu.Lock()
		for g := range slots {
			oi := slots[g].op.Load()
			since := slots[g].since.Load()
			if oi != 0 && since == prev[g] {
				strikes[g]++
			} else {
				strikes[g] = 0
			}
			prev[g] = since
			if strikes[g] >= 2 && !seen[names[oi-1]] {
				seen[names[oi-1]] = true
				fmt.Fprintf(out.W, "blocked %s\n", names[oi-1])
			}
		}
		nmu.Unlock()
	}
	return false
}

func linPubkey(goroutines, iters int, timeout time.Duration, out *Out) {
	probe, blk := SeqProbe(opsOf(Components["pubkey"], nil), out, timeout)
	if blk != "" {
		return
	}
	if probe["PubkeyCache.AddValidator"] || probe["PubkeyCache.Pubkey"] {
		out.Note("skip lin pubkey: sequential panic")
		return
	}
	rounds := iters / NKeys
	if rounds < 1 {
		rounds = 1
	}
	calls, viol := 0, 0
	for r := 0; r < rounds && !overBudget(); r++ {
		e := NewEnv()
		h := newHistory(goroutines)
		ok := runLin(goroutines, timeout, out, func(g int, set func(string)) {
			for j := 0; j < NKeys; j++ {
				add, _ := FindOp("PubkeyCache", "AddValidator")
				set(add.Name())
				h.do(g, "add", j, func() string { return add.Call(e, g, j) })
				// after my own add of j completed, index j and key j are known to every later lookup
				for _, q := range []string{"Pubkey", "ValidatorIndex"} {
					o, _ := FindOp("PubkeyCache", q)
					set(o.Name())
					h.do(g, q, j, func() string { return o.Call(e, g, j) })
				}
				cp, _ := FindOp("CachedPubkey", "Pubkey")
				set(cp.Name())
				h.do(g, "Decompress", j, func() string { return cp.Call(e, g, j) })
				// an index nobody adds
				o, _ := FindOp("PubkeyCache", "Pubkey")
				set(o.Name())
				h.do(g, "PubkeyBeyond", NKeys+j, func() string {
					if _, ok := e.PC.Pubkey(1000 + 1); ok {
						return "ok"
					}
					return "none"
				})
				set("")
			}
		})
		if !ok {
			return
		}
		for _, rc := range h.all() {
			calls++
			bad := ""
			switch rc.op {
			case "add", "Pubkey", "ValidatorIndex", "Decompress":
				if rc.res != "ok" {
					bad = "every sequential order returns ok"
				}
			case "PubkeyBeyond":
				if rc.res != "none" {
					bad = "every sequential order returns none"
				}
			}
			if bad != "" {
				viol++
				name := map[string]string{"add": "PubkeyCache.AddValidator", "Pubkey": "PubkeyCache.Pubkey", "ValidatorIndex": "PubkeyCache.ValidatorIndex",
					"Decompress": "CachedPubkey.Pubkey", "PubkeyBeyond": "PubkeyCache.Pubkey"}[rc.op]
				kind := "result"
				if rc.res == "panic" {
					kind = "panic"
				} else if rc.op == "add" {
					kind = "nonlin"
				}
				if out.Violation(fmt.Sprintf("%s: %s returned %s while %d goroutines add indices 0..%d in order (%s)", kind, name, rc.res, goroutines, NKeys-1, bad)) {
					out.Note(fmt.Sprintf("first occurrence: round %d goroutine %d index %d", r, rc.g, rc.arg))
				}
			}
		}
	}
	out.Stat("lin_calls_pubkey", calls)
	out.Stat("lin_violations_pubkey", viol)
	fmt.Fprintf(out.W, "returned stress-lin pubkey\n")
}

// grow-only keyed pools: add(x) is ok exactly for the first add of x in the linearization, All() returns the
// items added before it.
type setPool struct {
	typ, add, all string
}

func linPools(goroutines, iters int, timeout time.Duration, out *Out) {
	probe, blk := SeqProbe(opsOf(Components["pools"], nil), out, timeout)
	if blk != "" {
		return
	}
	pools := []setPool{
		{"VoluntaryExitPool", "AddVoluntaryExit", "All"},
		{"AttesterSlashingPool", "AddAttesterSlashing", "All"},
		{"ProposerSlashingPool", "AddProposerSlashing", "All"},
	}
	e := NewEnv()
	h := newHistory(goroutines)
	syncOK := !probe["SyncCommitteePool.Reset"] && !probe["SyncCommitteePool.AddSyncCommitteeMessage"] && !probe["SyncCommitteePool.AddSyncCommitteeContribution"]
	if syncOK {
		guard(func() string { e.SP.Reset(10); return "" })
	} else {
		out.Note("skip lin SyncCommitteePool: sequential panic")
	}
	attOK := !probe["AttestationPool.AddAttestation"] && !probe["AttestationPool.Search"]
	if !attOK {
		out.Note("skip lin AttestationPool: sequential panic")
	}
	ok := runLin(goroutines, timeout, out, func(g int, set func(string)) {
		for k := 0; k < iters && !(k%8 == 0 && overBudget()); k++ {
			x := (k*7 + g*3) % NItems
			for _, p := range pools {
				if probe[p.typ+"."+p.add] || probe[p.typ+"."+p.all] {
					continue
				}
				add, _ := FindOp(p.typ, p.add)
				set(add.Name())
				h.do(g, p.typ+".add", x, func() string { return add.Call(e, g, x) })
				if k%4 == 0 {
					all, _ := FindOp(p.typ, p.all)
					set(all.Name())
					h.do(g, p.typ+".all", 0, func() string { return all.Call(e, g, k) })
				}
			}
			if syncOK {
				for _, m := range []string{"AddSyncCommitteeMessage", "AddSyncCommitteeContribution", "Reset"} {
					o, _ := FindOp("SyncCommitteePool", m)
					if m == "Reset" && k%8 != 0 {
						continue
					}
					set(o.Name())
					h.do(g, "sync."+m, k, func() string { return o.Call(e, g, k) })
				}
			}
			if attOK {
				add, _ := FindOp("AttestationPool", "AddAttestation")
				set(add.Name())
				// aggregates only (even g in the op table): always accepted, whatever the order
				h.do(g, "att.add", x, func() string { return add.Call(e, 0, x) })
				// aggregates extending existing data with new participants: accepted in every order as well
				h.do(g, "att.grow", k, func() string { return add.Call(e, 2, k*7+g) })
				if k%4 == 2 {
					s, _ := FindOp("AttestationPool", "Search")
					set(s.Name())
					h.do(g, "att.searchgrow", k%4, func() string { return s.Call(e, 2, k) })
				}
				if k%4 == 0 {
					s, _ := FindOp("AttestationPool", "Search")
					set(s.Name())
					h.do(g, "att.search", k%8, func() string { return s.Call(e, 0, k) })
				}
			}
			set("")
		}
	})
	if !ok {
		return
	}
	recs := h.all()
	viol := 0
	report := func(d string) {
		viol++
		canon := itemRe.ReplaceAllString(d, "$1 N")
		if out.Violation(canon) {
			out.Note("first occurrence: " + d)
		}
	}
	for _, p := range pools {
		okAdds := map[int][]rec{}
		adds := map[int][]rec{}
		for _, r := range recs {
			if r.op == p.typ+".add" {
				adds[r.arg] = append(adds[r.arg], r)
				if r.res == "ok" {
					okAdds[r.arg] = append(okAdds[r.arg], r)
				}
				if r.res == "panic" {
					report(fmt.Sprintf("panic: %s.%s(item %d) panicked under concurrency (sequential probe clean)", p.typ, p.add, r.arg))
				}
			}
		}
		for x, as := range adds {
			if len(okAdds[x]) != 1 {
				report(fmt.Sprintf("result: %s.%s(item %d) accepted %d times out of %d calls; every sequential order accepts exactly the first", p.typ, p.add, x, len(okAdds[x]), len(as)))
				continue
			}
			w := okAdds[x][0]
			for _, a := range as {
				if a.res == "err" && !(w.start < a.end) {
					report(fmt.Sprintf("result: %s.%s(item %d) refused as duplicate before the accepted add began", p.typ, p.add, x))
				}
			}
		}
		for _, r := range recs {
			if r.op != p.typ+".all" {
				continue
			}
			if r.res == "panic" {
				report(fmt.Sprintf("panic: %s.%s panicked under concurrency", p.typ, p.all))
				continue
			}
			got := map[int]bool{}
			if r.res != "" {
				for _, s := range strings.Split(r.res, ",") {
					var x int
					fmt.Sscan(s, &x)
					got[x] = true
				}
			}
			for x := range got {
				if len(okAdds[x]) == 0 || !(okAdds[x][0].start < r.end) {
					report(fmt.Sprintf("result: %s.%s returned item %d before any add of it began", p.typ, p.all, x))
				}
			}
			for x, ws := range okAdds {
				if len(ws) == 1 && ws[0].end < r.start && !got[x] {
					report(fmt.Sprintf("result: %s.%s misses item %d whose add had completed", p.typ, p.all, x))
				}
			}
		}
	}
	for _, r := range recs {
		switch {
		case strings.HasPrefix(r.op, "sync.Add"):
			want := "ok"
			if r.arg%5 == 4 {
				want = "err"
			}
			if r.res != want {
				kind := "result"
				if r.res == "panic" {
					kind = "panic"
				}
				report(fmt.Sprintf("%s: SyncCommitteePool.%s returned %s, every sequential order returns %s (slot inside/outside the window under every Reset)", kind, strings.TrimPrefix(r.op, "sync."), r.res, want))
			}
		case r.op == "sync.Reset" && r.res == "panic":
			report("panic: SyncCommitteePool.Reset panicked under concurrency")
		case r.op == "att.add" && r.res != "ok":
			kind := "result"
			if r.res == "panic" {
				kind = "panic"
			}
			report(fmt.Sprintf("%s: AttestationPool.AddAttestation(aggregate %d) returned %s, every sequential order returns ok", kind, r.arg, r.res))
		case r.op == "att.grow" && r.res != "ok":
			kind := "result"
			if r.res == "panic" {
				kind = "panic"
			}
			report(fmt.Sprintf("%s: AttestationPool.AddAttestation(aggregate with new participants for existing data) returned %s, every sequential order returns ok", kind, r.res))
		case (r.op == "att.search" || r.op == "att.searchgrow") && r.res == "panic":
			report("panic: AttestationPool.Search panicked under concurrency (sequential probe clean)")
		}
	}
	if attOK {
		// Search(slot s) must contain the aggregate of every data with that slot whose add completed before
		done := map[int]int64{}
		for _, r := range recs {
			if r.op == "att.add" && r.res == "ok" {
				if t, ok := done[r.arg]; !ok || r.end < t {
					done[r.arg] = r.end
				}
			}
		}
		for _, r := range recs {
			if r.op != "att.search" || r.res == "panic" {
				continue
			}
			for x, t := range done {
				if x%8 == r.arg && t < r.start {
					id := fmt.Sprintf("%x", e.Atts[x].Data.BeaconBlockRoot[:4])
					if !strings.Contains(r.res, id) {
						report(fmt.Sprintf("result: AttestationPool.Search misses aggregate %d whose add had completed", x))
					}
				}
			}
		}
	}
	out.Stat("lin_calls_pools", len(recs))
	out.Stat("lin_violations_pools", viol)
	fmt.Fprintf(out.W, "returned stress-lin pools\n")
}

func linFC(goroutines, iters int, timeout time.Duration, out *Out) {
	e := NewEnv()
	if e.FC == nil {
		out.Note("skip lin fc: constructor failed")
		return
	}
	h := newHistory(goroutines)
	ok := runLin(goroutines, timeout, out, func(g int, set func(string)) {
		w := g % NChains
		writer := g < NChains
		for k := 0; k < iters && !(k%8 == 0 && overBudget()); k++ {
			if writer {
				if k < NBlocks {
					b := e.Chains[w][k]
					set("ProtoForkChoice.ProcessBlock")
					h.do(g, "block", w*1000+k, func() string { return boolS(e.FC.ProcessBlock(b.Parent, b.Root, b.Slot, 0, 0)) })
					set("ProtoForkChoice.ProcessAttestation")
					h.do(g, "attest", w*1000+k, func() string { return boolS(e.FC.ProcessAttestation(common.ValidatorIndex(g*8+k%8), b.Root, b.Slot)) })
				}
				if k%6 == 5 {
					o, _ := FindOp("ProtoForkChoice", "UpdateJustified")
					set(o.Name())
					h.do(g, "justify", k, func() string { return o.Call(e, g, k) })
				}
			} else {
				cw := (g + k) % NChains
				ci := (k * 5) % NBlocks
				b := e.Chains[cw][ci]
				set("ProtoForkChoice.GetSlot")
				h.do(g, "getslot", cw*1000+ci, func() string {
					s, ok := e.FC.GetSlot(b.Root)
					if ok && s != b.Slot {
						return "wrong-slot"
					}
					return boolS(ok)
				})
				set("ProtoForkChoice.InSubtree")
				h.do(g, "insubtree", cw*1000+ci, func() string {
					unknown, _ := e.FC.InSubtree(e.Anchor, b.Root)
					return boolS(!unknown)
				})
				for _, m := range []string{"Head", "Justified", "Finalized", "Pin", "CanonicalChain", "ClosestToSlot"} {
					if k%3 != 0 && m != "Head" {
						continue
					}
					o, _ := FindOp("ProtoForkChoice", m)
					set(o.Name())
					h.do(g, m, k, func() string { return o.Call(e, g, k) })
				}
			}
			set("")
		}
	})
	if !ok {
		return
	}
	recs := h.all()
	viol := 0
	report := func(d string) {
		viol++
		canon := itemRe.ReplaceAllString(d, "$1 N")
		if out.Violation(canon) {
			out.Note("first occurrence: " + d)
		}
	}
	// monotone facts: a block is known to every call that starts after its ProcessBlock returned true, and
	// unknown to every call that ends before its ProcessBlock began
	ins := map[int]rec{}
	for _, r := range recs {
		if r.op == "block" {
			if r.res == "true" {
				ins[r.arg] = r
			} else if r.res == "false" {
				// the writer inserts its own chain in order: the parent's insertion completed before
				report(fmt.Sprintf("result: ProtoForkChoice.ProcessBlock refused block %d of a chain whose parent the same goroutine had inserted", r.arg))
			}
		}
	}
	for _, r := range recs {
		switch r.op {
		case "getslot", "insubtree":
			name := map[string]string{"getslot": "GetSlot", "insubtree": "InSubtree"}[r.op]
			b, inserted := ins[r.arg]
			if r.res == "true" && !(inserted && b.start < r.end) {
				report(fmt.Sprintf("result: ProtoForkChoice.%s knows block %d before its ProcessBlock began", name, r.arg))
			}
			if r.res == "false" && inserted && b.end < r.start {
				report(fmt.Sprintf("result: ProtoForkChoice.%s does not know block %d whose ProcessBlock had returned", name, r.arg))
			}
			if r.res == "wrong-slot" {
				report(fmt.Sprintf("result: ProtoForkChoice.GetSlot returned a slot that block %d never had", r.arg))
			}
		case "attest":
			if r.res == "false" {
				report(fmt.Sprintf("result: ProtoForkChoice.ProcessAttestation refused a vote for block %d which the same goroutine had just inserted", r.arg))
			}
		}
	}
	out.Stat("lin_calls_fc", len(recs))
	out.Stat("lin_violations_fc", viol)
	fmt.Fprintf(out.W, "returned stress-lin fc\n")
}
