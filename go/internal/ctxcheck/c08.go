package ctxcheck

// c08.go: harness mode `c08` (stateful; one chain per sequence).
//
// gen   builds valid chains with the chain generator (real zrnt code, real BLS) and writes, per step, the SSZ
//       block and the flat state after the step (for the Lean side, which answers with `ctxOf`).
// exec  replays the lines on ONE long-lived (state, epochs context) pair per chain — the pair the genesis code
//       returned, advanced only by common.ProcessSlots / common.PostSlotTransition, never cloned, never
//       repaired — and prints after every line:
//         root=<state root>                      (must be the root the generator saw)
//         fresh=same|diff:<keys>                 dump(live context) vs dump(NewEpochsContext(spec, state))
//         reload=none|same|diff:root|diff:<keys> the reload experiment: a second pair made from the SSZ bytes of
//                                                the live state with a fresh context, fed the same blocks; and a
//                                                third pair (state copy, EpochsContext.Clone()) likewise (diff:clone…)
//         hyps=ok                                (the Lean side evaluates the step theorems' hypotheses here)
//         <abbreviated dump of the live context> compared with Lean's incremental model AND Lean's ctxOf(state)
//       `retain` keeps (copy of the live state, liveContext.Clone()) for later; `sibling` advances such a pair along
//       another continuation (empty slots across epoch boundaries / upgrades) while the live pair follows the blocks;
//       `sibblock` feeds a retained pair the blocks of an independent sibling chain (chain.Branch) — different blocks
//       than the live chain's, deposits on both branches in different orders (the clones share the pubkey cache),
//       slashings/exits on one side only, over epoch boundaries and fork upgrades;
//       `clone` splits a retained pair into two (CopyState + EpochsContext.Clone), `xdeposit` applies the exported
//       phase0.ProcessDeposit(…, ignoreSignatureAndProof=true) with a NEW validator to a retained pair: the deposit-tree
//       scenario (prefix deposit, split into 2–3 siblings, deposits of different amounts on each, recheck of ALL);
//       `recheck` re-dumps a retained pair (root, fresh=…, dump) at later moments: a clone must keep matching ITS state
//       whatever the other clones do.

import (
	"bufio"
	"context"
	"encoding/hex"
	"fmt"
	"strconv"
	"strings"

	kbls "github.com/kilic/bls12-381"
	blsu "github.com/protolambda/bls12-381-util"
	"github.com/protolambda/zrnt/eth2/beacon"
	"github.com/protolambda/zrnt/eth2/beacon/common"
	"github.com/protolambda/zrnt/eth2/beacon/phase0"
	"github.com/protolambda/ztyp/tree"

	"verifharness/internal/chain"
	"verifharness/internal/flat"
	"verifharness/internal/hreg"
)

func init() { hreg.Register(&hreg.Mode{Name: "c08", Gen: gen, Exec: exec}) }

type plan struct {
	cfg      string
	n        int
	balances string
	seed     int64
	gmode    string
	policy   string
	slots    int
}

func rootOf(s common.BeaconState) common.Root { return s.HashTreeRoot(tree.GetHashFn()) }

func hx(r common.Root) string { return hex.EncodeToString(r[:]) }

func hasOp(st *chain.Step, prefix string) bool {
	for _, o := range st.Ops {
		if strings.HasPrefix(string(o.Kind), prefix) {
			return true
		}
	}
	return false
}

// placeholderSig is the G2 generator (what KickStartState puts into its deposits): it deserialises, which is all
// ProcessDeposit(…, ignoreSignatureAndProof=true) asks of a signature.
func placeholderSig() common.BLSSignature {
	return common.BLSSignature((*blsu.Signature)(kbls.NewG2().One()).Serialize())
}

// directDeposit applies the exported phase0.ProcessDeposit with ignoreSignatureAndProof=true (the path genesis and
// KickStart use) to a (state, context) pair: a deposit of a NEW validator outside any block.
func directDeposit(spec *common.Spec, epc *common.EpochsContext, st common.BeaconState, pk common.BLSPubkey, wc common.Root, amount common.Gwei) error {
	dep := common.Deposit{Data: common.DepositData{Pubkey: pk, WithdrawalCredentials: wc, Amount: amount, Signature: placeholderSig()}}
	return phase0.ProcessDeposit(spec, epc, st, &dep, true)
}

func gen(o hreg.Opts, w *bufio.Writer) error {
	rng := o.Rand()
	st := o.Stats
	plans := []plan{
		// every fork within four epochs, sync-committee period of two epochs, deposits arriving all the time
		{"fast@1,2,3,4", 64, "mixed", 11, "kickstart", "deposits", 56},
		{"fast@1,2,3,4", 32, "mixed", 12, "eth1", "eventful", 48},
		// altair from genesis / at epoch 2: sync-committee period boundaries with real rotations
		{"fast@0,1,2,3", 48, "uniform", 13, "kickstart", "deposits", 48},
		{"fast@2,3,3,5", 64, "rich", 14, "kickstart", "default", 52},
		// published minimal preset, phase0 only and with forks
		{"minimal", 64, "mixed", 15, "kickstart", "default", 32},
		{"minimal@1,2,3,4", 64, "mixed", 16, "kickstart", "showcase", 40},
		// all per-fork constants different, non-power-of-two vectors (EPOCHS_PER_HISTORICAL_VECTOR 12/24/72/96), odd sync
		// committee sizes, SLOTS_PER_EPOCH 8 or 6; fork-boundary blocks carrying every operation kind; early exits
		{"apart:" + strconv.FormatInt(1+o.Seed%97, 10), 48, "mixed", 17, "kickstart", "showcase", 52},
		{"apart:" + strconv.FormatInt(100+o.Seed%89, 10), 40, "mixed", 18, "eth1", "earlyexit", 48},
		{"rand2:" + strconv.FormatInt(7+o.Seed%83, 10), 48, "rich", 19, "kickstart", "deposits", 48},
	}
	extra := o.Pick(1, 60)
	pols := []string{"default", "deposits", "eventful", "exits", "sparse", "quiet", "earlyexit", "showcase", "late", "full", "edge"}
	bals := []string{"mixed", "uniform", "rich", "poor"}
	for i := 0; i < extra; i++ {
		p := plan{n: 16 + rng.Intn(80), balances: bals[rng.Intn(len(bals))], seed: rng.Int63n(1 << 40),
			gmode: []string{"kickstart", "kickstart", "eth1"}[rng.Intn(3)], policy: pols[rng.Intn(len(pols))], slots: 40 + rng.Intn(40)}
		switch rng.Intn(5) {
		case 0:
			p.cfg = fmt.Sprintf("rand:%d", rng.Int63n(1<<30))
		case 3:
			p.cfg = fmt.Sprintf("apart:%d", rng.Int63n(1<<30))
		case 4:
			p.cfg = fmt.Sprintf("rand2:%d", rng.Int63n(1<<30))
		case 1:
			e := rng.Intn(3)
			p.cfg = fmt.Sprintf("fast@%d,%d,%d,%d", e, e+rng.Intn(2), e+1+rng.Intn(2), e+3)
		default:
			p.cfg = fmt.Sprintf("fast@%d,%d,%d,%d", 1+rng.Intn(2), 3, 4+rng.Intn(2), 6)
		}
		plans = append(plans, p)
	}
	if o.Thorough() {
		plans = append(plans, plan{"mainnet", 64, "uniform", 99, "kickstart", "default", 70})
	}
	for _, p := range plans {
		cfg, err := chain.ConfigByID(p.cfg)
		if err != nil {
			return err
		}
		if p.n < int(cfg.Spec.SLOTS_PER_EPOCH)*2 {
			p.n = int(cfg.Spec.SLOTS_PER_EPOCH) * 2
		}
		c, err := chain.NewChainOpts(cfg, chain.GenesisOpts{Validators: p.n, Balances: p.balances, Seed: p.seed, Mode: p.gmode})
		if err != nil {
			// never silently: the generator must be able to build genesis on the code under test
			st.Add("chain", "genesis-failed")
			fmt.Fprintln(w, "reset")
			fmt.Fprintf(w, "genesisfail x_cfg=%s x_n=%d x_seed=%d\n", p.cfg, p.n, p.seed)
			continue
		}
		c.Policy = chain.PolicyByName(p.policy)
		spec := c.Spec
		spe := uint64(spec.SLOTS_PER_EPOCH)
		fmt.Fprintln(w, "reset")
		st.Add("config", strings.SplitN(p.cfg, "@", 2)[0])
		st.Add("genesis-mode", p.gmode)
		st.Add("policy", p.policy)
		fs, err := flat.From(spec, c.Genesis)
		if err != nil {
			return err
		}
		root := rootOf(c.Genesis)
		fmt.Fprintf(w, "genesis x_cfg=%s x_n=%d x_bal=%s x_seed=%d x_gmode=%s x_root=%s %s %s\n", p.cfg, p.n, p.balances, p.seed, p.gmode,
			hx(root), flat.SpecTokens(spec), fs.String())
		st.Add("op", "genesis")
		st.Add("fork-at-point", fs.Fork)
		reloadLeft := 0
		interesting := ""
		emitState := func(kind, head string, s common.BeaconState) error {
			f, err := flat.From(spec, s)
			if err != nil {
				return err
			}
			r := rootOf(s)
			fmt.Fprintf(w, "%s x_pre=%s x_root=%s %s\n", head, hx(root), hx(r), f.String())
			root = r
			st.Add("op", kind)
			st.Add("fork-at-point", f.Fork)
			return nil
		}
		prevFork := c.Fork()
		// Retained pairs: copies of older states whose contexts (EpochsContext.Clone() of the live one, on the exec
		// side) are kept while the live pair and the other clones move on — the situation of a chain TREE (fork
		// choice keeps a context per block). `sibling` advances a retained pair along a DIFFERENT continuation
		// (empty slots, over epoch boundaries / upgrades); `recheck` re-dumps a retained pair later on.
		type gret struct {
			st   *beacon.StandardUpgradeableBeaconState
			root common.Root
			// br: an independent sibling CHAIN branched at the retained head (chain.Branch): its blocks — different
			// from the live chain's — are fed to the retained (state copy, context clone) pair on the exec side
			br      *chain.Chain
			brSteps int
		}
		branches := 0
		var kept []*gret
		recheckAll := func(why string) {
			for _, r := range kept {
				fmt.Fprintf(w, "recheck x_r=%s\n", hx(r.root))
				st.Add("op", "recheck")
				st.Add("recheck-at", why)
			}
		}
		retain := func(why string) {
			if len(kept) >= 4 {
				return
			}
			r := &gret{st: chain.WrapState(c.State), root: root}
			if branches < 2 && rng.Intn(3) != 0 {
				if br, err := c.Branch(rng.Int63()); err == nil {
					br.Policy = chain.PolicyByName([]string{"eventful", "deposits", "exits", "default"}[rng.Intn(4)])
					r.br = br
					branches++
					st.Add("point", "branch-created")
				}
			}
			kept = append(kept, r)
			fmt.Fprintf(w, "retain x_pre=%s\n", hx(root))
			st.Add("op", "retain")
			st.Add("retain-at", why)
		}
		// one more slot of a sibling chain: its block (or empty slot) goes to the retained pair
		siblingBlock := func(r *gret) error {
			step, err := r.br.NextSlot(nil)
			if err != nil {
				st.Add("chain", "branch-stopped-early")
				r.br = nil
				return nil
			}
			r.brSteps++
			f, err := flat.From(spec, step.Post)
			if err != nil {
				return err
			}
			nr := rootOf(step.Post)
			if step.Skipped {
				fmt.Fprintf(w, "sibling x_r=%s x_to=%d x_root=%s %s\n", hx(r.root), step.Slot, hx(nr), f.String())
				st.Add("op", "sibling")
			} else {
				fmt.Fprintf(w, "sibblock x_r=%s x_slot=%d x_fork=%s x_ssz=%s x_root=%s %s\n", hx(r.root), step.Slot,
					step.Block.Fork.String(), hex.EncodeToString(step.Block.Bytes(spec)), hx(nr), f.String())
				st.Add("op", "sibblock")
				for _, k := range []string{"deposit_new", "deposit_topup", "proposer_slashing", "attester_slashing", "voluntary_exit"} {
					if hasOp(step, k) {
						st.Add("point", "sibling-block-with-"+k)
					}
				}
			}
			if uint64(step.Slot)%spe == 0 {
				st.Add("point", "sibling-chain-epoch-boundary")
			}
			if step.Fork != chain.ForkOfState(r.st) {
				st.Add("point", "sibling-chain-fork-upgrade")
				r.st = chain.WrapState(step.Post)
			}
			r.root = nr
			if r.brSteps >= int(2*spe)+2 {
				r.br = nil // the pair stays retained and keeps being rechecked
			}
			if uint64(step.Slot)%spe == 0 || rng.Intn(8) == 0 || hasOp(step, "deposit_new") {
				recheckAll("after-sibling-block")
			}
			return nil
		}
		sibling := func() error {
			if len(kept) == 0 {
				return nil
			}
			r := kept[rng.Intn(len(kept))]
			if r.br != nil || r.brSteps > 0 {
				return nil // this pair follows a sibling chain
			}
			cur, err := r.st.Slot()
			if err != nil {
				return err
			}
			to := (uint64(cur)/spe+1)*spe + uint64(rng.Intn(2)) // over the next epoch boundary
			if rng.Intn(4) == 0 {
				to = uint64(cur) + 1
			}
			// the generator computes the continuation with a context of its own, made from scratch
			epc, err := chain.FreshEpc(spec, r.st)
			if err != nil {
				return nil
			}
			preFork := chain.ForkOfState(r.st)
			if err := common.ProcessSlots(context.Background(), spec, epc, r.st, common.Slot(to)); err != nil {
				return nil
			}
			f, err := flat.From(spec, r.st)
			if err != nil {
				return err
			}
			nr := rootOf(r.st)
			fmt.Fprintf(w, "sibling x_r=%s x_to=%d x_root=%s %s\n", hx(r.root), to, hx(nr), f.String())
			r.root = nr
			st.Add("op", "sibling")
			if to/spe != uint64(cur)/spe {
				st.Add("point", "sibling-crosses-epoch-boundary")
			}
			if chain.ForkOfState(r.st) != preFork {
				st.Add("point", "sibling-fork-upgrade")
			}
			recheckAll("after-sibling")
			return nil
		}
		// The deposit TREE scenario (wave-6 mutant F-hx6-m4: in-place append to the shared EffectiveBalances array):
		// a copy P of the live head gets one new-validator deposit (the common prefix: the context's per-validator
		// slices now may have spare capacity), then P is split into 2 or 3 siblings (CopyState + EpochsContext.Clone),
		// and every sibling gets a new-validator deposit of a DIFFERENT amount (different effective balance, different
		// pubkey at the same registry index) — in the same slot, or after one sibling moved a slot. After EVERY deposit
		// all contexts of the scenario and all retained ones are re-dumped against NewEpochsContext and Lean ctxOf.
		// Deposits go through the exported phase0.ProcessDeposit(…, ignoreSignatureAndProof=true), as in genesis.
		scenarioKey := 20000
		depositTree := func(siblings int) error {
			type node struct {
				st   *beacon.StandardUpgradeableBeaconState
				root common.Root
			}
			incr, max := spec.EFFECTIVE_BALANCE_INCREMENT, spec.MAX_EFFECTIVE_BALANCE
			amounts := []common.Gwei{max, max/2 + incr, max - 3*incr, max + 5*incr}
			var nodes []*node
			recheckScenario := func() {
				for _, n := range nodes {
					fmt.Fprintf(w, "recheck x_r=%s\n", hx(n.root))
					st.Add("op", "recheck")
					st.Add("recheck-at", "after-tree-deposit")
				}
				recheckAll("after-tree-deposit")
			}
			deposit := func(n *node, amount common.Gwei) error {
				pk := chain.Keys().Pubkey(scenarioKey)
				wc := chain.Keys().BLSCredentials(scenarioKey)
				scenarioKey++
				epc, err := chain.FreshEpc(spec, n.st)
				if err != nil {
					return nil
				}
				if err := directDeposit(spec, epc, n.st, pk, wc, amount); err != nil {
					return nil
				}
				f, err := flat.From(spec, n.st)
				if err != nil {
					return err
				}
				nr := rootOf(n.st)
				fmt.Fprintf(w, "xdeposit x_r=%s x_pk=%s x_wc=%s x_amount=%d x_root=%s %s\n", hx(n.root), hex.EncodeToString(pk[:]),
					hex.EncodeToString(wc[:]), uint64(amount), hx(nr), f.String())
				n.root = nr
				st.Add("op", "xdeposit")
				recheckScenario()
				return nil
			}
			// P: a retained copy of the live head
			p0 := &node{st: chain.WrapState(c.State), root: root}
			nodes = append(nodes, p0)
			fmt.Fprintf(w, "retain x_pre=%s\n", hx(root))
			st.Add("op", "retain")
			st.Add("retain-at", "deposit-tree-prefix")
			if err := deposit(p0, amounts[0]); err != nil { // the common prefix deposit
				return err
			}
			for k := 0; k < siblings; k++ {
				fmt.Fprintf(w, "clone x_r=%s\n", hx(p0.root))
				st.Add("op", "clone")
				nodes = append(nodes, &node{st: chain.WrapState(p0.st), root: p0.root})
			}
			for k, n := range nodes[1:] {
				if k > 0 && rng.Intn(2) == 0 {
					// this sibling deposits in a later slot (same epoch)
					cur, err := n.st.Slot()
					if err != nil {
						return err
					}
					if (uint64(cur)+1)%spe != 0 {
						if epc, err := chain.FreshEpc(spec, n.st); err == nil {
							if common.ProcessSlots(context.Background(), spec, epc, n.st, cur+1) == nil {
								f, err := flat.From(spec, n.st)
								if err != nil {
									return err
								}
								nr := rootOf(n.st)
								fmt.Fprintf(w, "sibling x_r=%s x_to=%d x_root=%s %s\n", hx(n.root), uint64(cur)+1, hx(nr), f.String())
								n.root = nr
								st.Add("op", "sibling")
								st.Add("point", "tree-sibling-deposits-in-later-slot")
							}
						}
					}
				}
				if err := deposit(n, amounts[1+k%3]); err != nil {
					return err
				}
			}
			// and one more on the first sibling: it appends again next to what the others wrote
			if err := deposit(nodes[1], amounts[3]); err != nil {
				return err
			}
			st.Add("point", fmt.Sprintf("deposit-tree-%d-siblings", siblings))
			return nil
		}
		treesDone := 0
		for i := 0; i < p.slots; i++ {
			if treesDone < 2 && i >= 3 && (uint64(c.Slot())%spe == 1 || uint64(c.Slot())%spe == 3) && rng.Intn(3) == 0 {
				if err := depositTree(2 + treesDone); err != nil {
					return err
				}
				treesDone++
			}
			if i == 2 || rng.Intn(12) == 0 {
				retain(map[bool]string{true: "early", false: "random-point"}[i == 2])
			}
			if rng.Intn(9) == 0 {
				if err := sibling(); err != nil {
					return err
				}
			}
			for _, r := range kept {
				if r.br != nil && rng.Intn(3) != 0 {
					if err := siblingBlock(r); err != nil {
						return err
					}
				}
			}
			if reloadLeft == 0 && (interesting != "" && rng.Intn(2) == 0 || rng.Intn(14) == 0) {
				fmt.Fprintf(w, "reload x_pre=%s\n", hx(root))
				st.Add("op", "reload")
				if interesting == "" {
					interesting = "random-point"
				}
				st.Add("reload-at", interesting)
				reloadLeft = int(spe) + rng.Intn(int(spe)+2)
			}
			interesting = ""
			step, err := c.NextSlot(nil)
			if err != nil {
				// The generator could not extend the chain on this code (a valid block of its own making was
				// refused, or the context could not name a proposer, ...). Do not stop silently: advance the
				// state by plain slot processing so that the context after this point is still compared, and
				// end the chain with a line the two sides answer differently.
				st.Add("chain", "stopped-early")
				next := c.Slot() + 1
				work, wepc := chain.WrapState(c.State), c.Epc.Clone()
				if perr := common.ProcessSlots(context.Background(), spec, wepc, work, next); perr == nil {
					if err := emitState("slots", fmt.Sprintf("slots x_to=%d", next), work.BeaconState); err != nil {
						return err
					}
				}
				fmt.Fprintf(w, "genfail x_pre=%s\n", hx(root))
				break
			}
			boundary := uint64(step.Slot)%spe == 0
			epoch := uint64(step.Slot) / spe
			if boundary {
				st.Add("point", "epoch-boundary")
				if step.Fork >= chain.Altair && epoch%uint64(spec.EPOCHS_PER_SYNC_COMMITTEE_PERIOD) == 0 {
					st.Add("point", "sync-committee-period-boundary")
					interesting = "sync-period-boundary"
				}
			}
			if step.Fork != prevFork {
				st.Add("point", "fork-upgrade:"+step.Fork.String())
				interesting = "after-upgrade"
				prevFork = step.Fork
			}
			switch {
			case step.Skipped:
				if err := emitState("slots", fmt.Sprintf("slots x_to=%d", step.Slot), step.Post); err != nil {
					return err
				}
			default:
				if boundary {
					if err := emitState("slots", fmt.Sprintf("slots x_to=%d", step.Slot), step.PreBlock); err != nil {
						return err
					}
				}
				head := fmt.Sprintf("block x_slot=%d x_fork=%s x_ssz=%s", step.Slot, step.Block.Fork.String(), hex.EncodeToString(step.Block.Bytes(spec)))
				if err := emitState("block", head, step.Post); err != nil {
					return err
				}
				if hasOp(step, "deposit_new") {
					st.Add("point", "block-with-new-validator-deposit")
					interesting = "after-new-validator-deposit"
				}
				if hasOp(step, "deposit_topup") {
					st.Add("point", "block-with-topup")
				}
			}
			if boundary {
				recheckAll("after-live-epoch-boundary")
			} else if rng.Intn(25) == 0 {
				recheckAll("random-point")
			}
			if interesting != "" && rng.Intn(2) == 0 {
				retain(interesting)
			}
			if reloadLeft > 0 {
				reloadLeft--
				if reloadLeft == 0 {
					fmt.Fprintln(w, "endreload")
					st.Add("op", "endreload")
				}
			}
		}
		st.Add("chain", "done")
	}
	fmt.Fprintln(w, "reset")
	fmt.Fprintln(w, "slots x_to=3 x_pre=00 x_root=00")
	fmt.Fprintln(w, "nonsense")
	return nil
}

// ---------------------------------------------------------------------------------------------

type session struct {
	spec      *common.Spec
	gvr       common.Root
	live      *beacon.StandardUpgradeableBeaconState
	liveEpc   *common.EpochsContext
	shadow    *beacon.StandardUpgradeableBeaconState
	shadowEpc *common.EpochsContext
	// a copy of the live state with EpochsContext.Clone() of the live context, made at the same point as the reload
	// and advanced alongside: clones must stay equal to the original along the same history (and not disturb it)
	clone    *beacon.StandardUpgradeableBeaconState
	cloneEpc *common.EpochsContext
	root     common.Root
	kept     []*keptPair
}

// keptPair: a copy of an older state with the EpochsContext.Clone() that belonged to it when it was retained.
type keptPair struct {
	st   *beacon.StandardUpgradeableBeaconState
	epc  *common.EpochsContext
	root common.Root
}

func (s *session) findKept(r string) *keptPair {
	for _, k := range s.kept {
		if hx(k.root) == r {
			return k
		}
	}
	return nil
}

func (k *keptPair) report(spec *common.Spec) string {
	k.root = rootOf(k.st)
	d, err := Of(spec, k.epc, k.st.BeaconState)
	if err != nil {
		return "err-dump"
	}
	return "ok root=" + hx(k.root) + " fresh=" + CompareWithFresh(spec, k.epc, k.st.BeaconState) + " " + d.Abbrev()
}

func (s *session) report() string {
	s.root = rootOf(s.live)
	d, err := Of(s.spec, s.liveEpc, s.live.BeaconState)
	if err != nil {
		return "err-dump"
	}
	reload := "none"
	if s.shadow != nil {
		if rootOf(s.shadow) != s.root {
			reload = "diff:root"
		} else if sd, err := Of(s.spec, s.shadowEpc, s.shadow.BeaconState); err != nil {
			reload = "err"
		} else if diff := Diff(d, sd); len(diff) > 0 {
			reload = "diff:" + strings.Join(diff, ",")
		} else if rootOf(s.clone) != s.root {
			reload = "diff:clone-root"
		} else if cd, err := Of(s.spec, s.cloneEpc, s.clone.BeaconState); err != nil {
			reload = "err"
		} else if diff := Diff(d, cd); len(diff) > 0 {
			reload = "diff:clone:" + strings.Join(diff, ",")
		} else {
			reload = "same"
		}
	}
	return "ok root=" + hx(s.root) + " fresh=" + CompareWithFresh(s.spec, s.liveEpc, s.live.BeaconState) + " reload=" + reload + " hyps=ok " + d.Abbrev()
}

// advance runs f on the live pair and, if there is one, on the reloaded pair.
func (s *session) advance(f func(st *beacon.StandardUpgradeableBeaconState, epc *common.EpochsContext) error) error {
	if err := f(s.live, s.liveEpc); err != nil {
		return err
	}
	if s.shadow != nil {
		if err := f(s.shadow, s.shadowEpc); err != nil {
			return fmt.Errorf("reloaded pair: %w", err)
		}
		if err := f(s.clone, s.cloneEpc); err != nil {
			return fmt.Errorf("cloned pair: %w", err)
		}
	}
	return nil
}

func exec(o hreg.Opts, r *bufio.Scanner, w *bufio.Writer) error {
	var s *session
	ctx := context.Background()
	for r.Scan() {
		line := r.Text()
		toks := hreg.Fields(line)
		if len(toks) == 0 {
			fmt.Fprintln(w, "bad-op")
			continue
		}
		if toks[0] == "reset" && len(toks) == 1 {
			s = nil
			fmt.Fprintln(w, "reset")
			continue
		}
		kv, rest := flat.KV(strings.Join(toks[1:], " "))
		out := hreg.Guard(func() string {
			switch toks[0] {
			case "genesis":
				if len(rest) != 0 {
					return "bad-op"
				}
				cfg, err := chain.ConfigByID(kv["x_cfg"])
				if err != nil {
					return "bad-op"
				}
				n, err1 := strconv.Atoi(kv["x_n"])
				seed, err2 := strconv.ParseInt(kv["x_seed"], 10, 64)
				if err1 != nil || err2 != nil || kv["x_root"] == "" {
					return "bad-op"
				}
				if _, err := flat.Parse(kv); err != nil { // the Lean side refuses a line without a well-formed state
					return "bad-op"
				}
				c, err := chain.NewChainOpts(cfg, chain.GenesisOpts{Validators: n, Balances: kv["x_bal"], Seed: seed, Mode: kv["x_gmode"]})
				if err != nil {
					return "err"
				}
				s = &session{spec: c.Spec, gvr: c.GenesisValidatorsRoot, live: c.State, liveEpc: c.Epc}
				return s.report()
			case "slots", "block":
				if s == nil || len(rest) != 0 || kv["x_pre"] != hx(s.root) || kv["x_root"] == "" {
					return "bad-op"
				}
				if _, err := flat.Parse(kv); err != nil {
					return "bad-op"
				}
				if toks[0] == "slots" {
					to, err := strconv.ParseUint(kv["x_to"], 10, 64)
					if err != nil {
						return "bad-op"
					}
					if err := s.advance(func(st *beacon.StandardUpgradeableBeaconState, epc *common.EpochsContext) error {
						return common.ProcessSlots(ctx, s.spec, epc, st, common.Slot(to))
					}); err != nil {
						return "err"
					}
					return s.report()
				}
				slot, err := strconv.ParseUint(kv["x_slot"], 10, 64)
				f, okf := chain.ParseFork(kv["x_fork"])
				data, err2 := hex.DecodeString(kv["x_ssz"])
				if err != nil || !okf || err2 != nil {
					return "bad-op"
				}
				if err := s.advance(func(st *beacon.StandardUpgradeableBeaconState, epc *common.EpochsContext) error {
					blk, err := chain.DecodeBlock(s.spec, f, data)
					if err != nil {
						return err
					}
					cur, err := st.Slot()
					if err != nil {
						return err
					}
					if cur < common.Slot(slot) {
						if err := common.ProcessSlots(ctx, s.spec, epc, st, common.Slot(slot)); err != nil {
							return err
						}
					}
					fk, err := st.Fork()
					if err != nil {
						return err
					}
					return common.PostSlotTransition(ctx, s.spec, epc, st, blk.Envelope(s.spec, fk.CurrentVersion, s.gvr), true)
				}); err != nil {
					return "err"
				}
				return s.report()
			case "reload":
				if s == nil || len(rest) != 0 || kv["x_pre"] != hx(s.root) {
					return "bad-op"
				}
				st2, err := chain.DecodeState(s.spec, chain.ForkOfState(s.live), chain.StateBytes(s.live))
				if err != nil {
					return "err"
				}
				epc2, err := common.NewEpochsContext(s.spec, st2)
				if err != nil {
					return "err"
				}
				s.shadow, s.shadowEpc = &beacon.StandardUpgradeableBeaconState{BeaconState: st2}, epc2
				s.clone, s.cloneEpc = chain.WrapState(s.live), s.liveEpc.Clone()
				return "ok"
			case "retain":
				if s == nil || len(rest) != 0 || kv["x_pre"] != hx(s.root) {
					return "bad-op"
				}
				s.kept = append(s.kept, &keptPair{st: chain.WrapState(s.live), epc: s.liveEpc.Clone(), root: s.root})
				return "ok"
			case "recheck":
				if s == nil || len(rest) != 0 {
					return "bad-op"
				}
				k := s.findKept(kv["x_r"])
				if k == nil {
					return "bad-op"
				}
				return k.report(s.spec)
			case "sibling":
				if s == nil || len(rest) != 0 || kv["x_root"] == "" {
					return "bad-op"
				}
				k := s.findKept(kv["x_r"])
				to, err := strconv.ParseUint(kv["x_to"], 10, 64)
				if k == nil || err != nil {
					return "bad-op"
				}
				if _, err := flat.Parse(kv); err != nil {
					return "bad-op"
				}
				if err := common.ProcessSlots(ctx, s.spec, k.epc, k.st, common.Slot(to)); err != nil {
					return "err"
				}
				return k.report(s.spec)
			case "clone":
				if s == nil || len(rest) != 0 {
					return "bad-op"
				}
				k := s.findKept(kv["x_r"])
				if k == nil {
					return "bad-op"
				}
				s.kept = append(s.kept, &keptPair{st: chain.WrapState(k.st), epc: k.epc.Clone(), root: k.root})
				return "ok"
			case "xdeposit":
				if s == nil || len(rest) != 0 || kv["x_root"] == "" {
					return "bad-op"
				}
				k := s.findKept(kv["x_r"])
				pkb, e1 := hex.DecodeString(kv["x_pk"])
				wcb, e2 := hex.DecodeString(kv["x_wc"])
				amount, e3 := strconv.ParseUint(kv["x_amount"], 10, 64)
				if k == nil || e1 != nil || e2 != nil || e3 != nil || len(pkb) != 48 || len(wcb) != 32 {
					return "bad-op"
				}
				if _, err := flat.Parse(kv); err != nil {
					return "bad-op"
				}
				var pk common.BLSPubkey
				var wc common.Root
				copy(pk[:], pkb)
				copy(wc[:], wcb)
				if err := directDeposit(s.spec, k.epc, k.st, pk, wc, common.Gwei(amount)); err != nil {
					return "err"
				}
				return k.report(s.spec)
			case "sibblock":
				if s == nil || len(rest) != 0 || kv["x_root"] == "" {
					return "bad-op"
				}
				k := s.findKept(kv["x_r"])
				slot, err := strconv.ParseUint(kv["x_slot"], 10, 64)
				f, okf := chain.ParseFork(kv["x_fork"])
				data, err2 := hex.DecodeString(kv["x_ssz"])
				if k == nil || err != nil || !okf || err2 != nil {
					return "bad-op"
				}
				if _, err := flat.Parse(kv); err != nil {
					return "bad-op"
				}
				blk, err := chain.DecodeBlock(s.spec, f, data)
				if err != nil {
					return "err"
				}
				cur, err := k.st.Slot()
				if err != nil {
					return "err"
				}
				if cur < common.Slot(slot) {
					if err := common.ProcessSlots(ctx, s.spec, k.epc, k.st, common.Slot(slot)); err != nil {
						return "err"
					}
				}
				fk, err := k.st.Fork()
				if err != nil {
					return "err"
				}
				if err := common.PostSlotTransition(ctx, s.spec, k.epc, k.st, blk.Envelope(s.spec, fk.CurrentVersion, s.gvr), true); err != nil {
					return "err"
				}
				return k.report(s.spec)
			case "genesisfail":
				return "generator-could-not-build-genesis"
			case "genfail":
				// the chain generator failed to extend a chain on the code under test (see gen)
				if s == nil || len(rest) != 0 || kv["x_pre"] != hx(s.root) {
					return "bad-op"
				}
				return "generator-could-not-extend-chain"
			case "endreload":
				if s == nil || len(toks) != 1 {
					return "bad-op"
				}
				s.shadow, s.shadowEpc, s.clone, s.cloneEpc = nil, nil, nil, nil
				return "ok"
			}
			return "bad-op"
		})
		fmt.Fprintln(w, out)
	}
	return r.Err()
}
