// Package ctxcheck is the Go side of property C08: the incrementally maintained EpochsContext must be
// identical to the context computed from scratch from the state.
//
// dump.go: the canonical context dump — every answer an EpochsContext can give about the validators of a
// state, as an ordered list of key=value tokens (same value syntax as the flat state format: decimal
// scalars, lowercase hex, `,`-joined lists, `-` for empty). The Lean side (Zrnt/Beacon/Ctx.lean, `ctxOf`)
// prints the same tokens from the flat state.
//
// Keys, in this order:
//
//	prev_epoch prev_active prev_shuffling prev_committees prev_count      (PreviousEpoch *ShufflingEpoch)
//	cur_epoch  cur_active  cur_shuffling  cur_committees  cur_count       (CurrentEpoch)
//	next_epoch next_active next_shuffling next_committees next_count      (NextEpoch)
//	    *_committees: slots joined by `;`, the committees of a slot joined by `/`, members joined by `,`,
//	                  an empty committee is `-`;   *_count: GetCommitteeCountPerSlot(epoch)
//	proposers_epoch proposers proposers_cps     (Proposers: epoch, one index per slot, the CommitteesPerSlot field)
//	proposer_lookup                             GetBeaconProposer for every slot of the current epoch
//	eff_len eff_balances                        len(EffectiveBalances) and its entries
//	total_active_stake total_active_stake_sqrt
//	sync_current_indices sync_current_pubkeys sync_next_indices sync_next_pubkeys     (`nil` when the field is nil)
//	idx2pub      for every index below the state's validator count: the cached pubkey (`?` = not found)
//	pub2idx      for the pubkey of every validator of the state, in registry order: the cached index (`?` = not found)
//
// A shuffling pointer that is nil is rendered as `nil` in all five of its keys.
package ctxcheck

import (
	"encoding/hex"
	"sort"
	"strconv"
	"strings"

	"github.com/protolambda/zrnt/eth2/beacon/common"

	"verifharness/internal/flat"
	"verifharness/internal/hreg"
)

type KV struct{ K, V string }

type Dump []KV

func u(v uint64) string { return strconv.FormatUint(v, 10) }

func idxList(l []common.ValidatorIndex) string {
	if len(l) == 0 {
		return "-"
	}
	var sb strings.Builder
	for i, v := range l {
		if i > 0 {
			sb.WriteByte(',')
		}
		sb.WriteString(u(uint64(v)))
	}
	return sb.String()
}

func shuffling(prefix string, epc *common.EpochsContext, sh *common.ShufflingEpoch) []KV {
	if sh == nil {
		return []KV{{prefix + "_epoch", "nil"}, {prefix + "_active", "nil"}, {prefix + "_shuffling", "nil"},
			{prefix + "_committees", "nil"}, {prefix + "_count", "nil"}}
	}
	var slots []string
	for _, slot := range sh.Committees {
		var cs []string
		for _, c := range slot {
			cs = append(cs, idxList(c))
		}
		if len(cs) == 0 {
			slots = append(slots, "none")
		} else {
			slots = append(slots, strings.Join(cs, "/"))
		}
	}
	comms := "-"
	if len(slots) > 0 {
		comms = strings.Join(slots, ";")
	}
	count := hreg.Guard(func() string {
		n, err := epc.GetCommitteeCountPerSlot(sh.Epoch)
		if err != nil {
			return "err"
		}
		return u(n)
	})
	return []KV{{prefix + "_epoch", u(uint64(sh.Epoch))}, {prefix + "_active", idxList(sh.ActiveIndices)},
		{prefix + "_shuffling", idxList(sh.Shuffling)}, {prefix + "_committees", comms}, {prefix + "_count", count}}
}

func syncCommittee(prefix string, isc *common.IndexedSyncCommittee) []KV {
	if isc == nil {
		return []KV{{prefix + "_indices", "nil"}, {prefix + "_pubkeys", "nil"}}
	}
	pubs := make([]string, len(isc.CachedPubkeys))
	for i, p := range isc.CachedPubkeys {
		if p == nil {
			pubs[i] = "?"
		} else {
			pubs[i] = hex.EncodeToString(p.Compressed[:])
		}
	}
	ps := "-"
	if len(pubs) > 0 {
		ps = strings.Join(pubs, ",")
	}
	return []KV{{prefix + "_indices", idxList(isc.Indices)}, {prefix + "_pubkeys", ps}}
}

// Of dumps the context with respect to the validators of the given state.
func Of(spec *common.Spec, epc *common.EpochsContext, state common.BeaconState) (Dump, error) {
	var d Dump
	d = append(d, shuffling("prev", epc, epc.PreviousEpoch)...)
	d = append(d, shuffling("cur", epc, epc.CurrentEpoch)...)
	d = append(d, shuffling("next", epc, epc.NextEpoch)...)
	if epc.Proposers == nil {
		d = append(d, KV{"proposers_epoch", "nil"}, KV{"proposers", "nil"}, KV{"proposers_cps", "nil"}, KV{"proposer_lookup", "nil"})
	} else {
		p := epc.Proposers
		d = append(d, KV{"proposers_epoch", u(uint64(p.Epoch))}, KV{"proposers", idxList(p.Proposers)}, KV{"proposers_cps", u(p.CommitteesPerSlot)})
		var look []string
		if epc.CurrentEpoch != nil {
			start := uint64(epc.CurrentEpoch.Epoch) * uint64(spec.SLOTS_PER_EPOCH)
			for i := uint64(0); i < uint64(spec.SLOTS_PER_EPOCH); i++ {
				look = append(look, hreg.Guard(func() string {
					v, err := epc.GetBeaconProposer(common.Slot(start + i))
					if err != nil {
						return "err"
					}
					return u(uint64(v))
				}))
			}
		}
		l := "-"
		if len(look) > 0 {
			l = strings.Join(look, ",")
		}
		d = append(d, KV{"proposer_lookup", l})
	}
	effs := make([]string, len(epc.EffectiveBalances))
	for i, e := range epc.EffectiveBalances {
		effs[i] = u(uint64(e))
	}
	es := "-"
	if len(effs) > 0 {
		es = strings.Join(effs, ",")
	}
	d = append(d, KV{"eff_len", u(uint64(len(effs)))}, KV{"eff_balances", es},
		KV{"total_active_stake", u(uint64(epc.TotalActiveStake))}, KV{"total_active_stake_sqrt", u(uint64(epc.TotalActiveStakeSqRoot))})
	d = append(d, syncCommittee("sync_current", epc.CurrentSyncCommittee)...)
	d = append(d, syncCommittee("sync_next", epc.NextSyncCommittee)...)
	vals, err := state.Validators()
	if err != nil {
		return nil, err
	}
	n, err := vals.ValidatorCount()
	if err != nil {
		return nil, err
	}
	i2p := make([]string, 0, n)
	p2i := make([]string, 0, n)
	for i := uint64(0); i < n; i++ {
		if pub, ok := epc.ValidatorPubkeyCache.Pubkey(common.ValidatorIndex(i)); ok && pub != nil {
			i2p = append(i2p, hex.EncodeToString(pub.Compressed[:]))
		} else {
			i2p = append(i2p, "?")
		}
		v, err := vals.Validator(common.ValidatorIndex(i))
		if err != nil {
			return nil, err
		}
		pk, err := v.Pubkey()
		if err != nil {
			return nil, err
		}
		if idx, ok := epc.ValidatorPubkeyCache.ValidatorIndex(pk); ok {
			p2i = append(p2i, u(uint64(idx)))
		} else {
			p2i = append(p2i, "?")
		}
	}
	j := func(l []string) string {
		if len(l) == 0 {
			return "-"
		}
		return strings.Join(l, ",")
	}
	d = append(d, KV{"idx2pub", j(i2p)}, KV{"pub2idx", j(p2i)})
	return d, nil
}

// String is the full dump.
func (d Dump) String() string {
	parts := make([]string, len(d))
	for i, kv := range d {
		parts[i] = kv.K + "=" + kv.V
	}
	return strings.Join(parts, " ")
}

// Abbrev is the dump with long values replaced by a digest (flat.AbbrevValue), for result lines.
func (d Dump) Abbrev() string {
	parts := make([]string, len(d))
	for i, kv := range d {
		parts[i] = kv.K + "=" + flat.AbbrevValue(kv.V)
	}
	return strings.Join(parts, " ")
}

// Diff lists the keys whose values differ (sorted); empty = identical.
func Diff(a, b Dump) []string {
	am := map[string]string{}
	for _, kv := range a {
		am[kv.K] = kv.V
	}
	seen := map[string]bool{}
	var out []string
	for _, kv := range b {
		seen[kv.K] = true
		if v, ok := am[kv.K]; !ok || v != kv.V {
			out = append(out, kv.K)
		}
	}
	for _, kv := range a {
		if !seen[kv.K] {
			out = append(out, kv.K)
		}
	}
	sort.Strings(out)
	return out
}

// CompareWithFresh compares the given (live) context with common.NewEpochsContext(spec, state):
// "same", or "diff:<key>,<key>…", or "err" when either dump or the fresh construction fails.
func CompareWithFresh(spec *common.Spec, epc *common.EpochsContext, state common.BeaconState) string {
	return hreg.Guard(func() string {
		live, err := Of(spec, epc, state)
		if err != nil {
			return "err"
		}
		fresh, err := common.NewEpochsContext(spec, state)
		if err != nil {
			return "err-fresh"
		}
		fd, err := Of(spec, fresh, state)
		if err != nil {
			return "err"
		}
		if diff := Diff(live, fd); len(diff) > 0 {
			return "diff:" + strings.Join(diff, ",")
		}
		return "same"
	})
}
