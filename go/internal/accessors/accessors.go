// Package accessors: harness mode c15 (state accessors exact; state copies independent).
//
// Part 1 — accessors. A sequence is `reset`, `new <viewKey> field=hex …` (a random container value given
// field by field, exactly as the Go *struct* side serialises each field), then accessor operations on the
// *view* built from it by loading the encoded bytes. Every method of every view type is found by
// reflection over the type's method set (minus the methods promoted from *ContainerView) and classified
// by its signature; a method that fits no class is emitted as `unclassified` (and so reported).
// Results are observed through the struct side again (`Raw()`), never through the accessors under test:
// after a write, the fields of `Raw()` that differ from before are listed with their new bytes.
//
// Part 2 — copies. `live h fork seed` builds a kick-started chain state of the given fork with its epochs
// context; `copy a b` = CopyState + EpochsContext.Clone; `mut h …` mutates or advances one handle. After
// every mutation the bytes, root and a dump of the context of every other handle are compared with what
// they were before.
package accessors

import (
	"bufio"
	"bytes"
	"context"
	"crypto/sha256"
	"encoding/binary"
	"encoding/hex"
	"fmt"
	"math/rand"
	"reflect"
	"sort"
	"strconv"
	"strings"

	blsu "github.com/protolambda/bls12-381-util"
	"github.com/protolambda/zrnt/eth2/beacon"
	"github.com/protolambda/zrnt/eth2/beacon/altair"
	"github.com/protolambda/zrnt/eth2/beacon/bellatrix"
	"github.com/protolambda/zrnt/eth2/beacon/capella"
	"github.com/protolambda/zrnt/eth2/beacon/common"
	"github.com/protolambda/zrnt/eth2/beacon/deneb"
	"github.com/protolambda/zrnt/eth2/beacon/electra"
	"github.com/protolambda/zrnt/eth2/beacon/phase0"
	"github.com/protolambda/zrnt/eth2/configs"
	"github.com/protolambda/ztyp/codec"
	"github.com/protolambda/ztyp/tree"
	"github.com/protolambda/ztyp/view"

	"verifharness/internal/chain"
	"verifharness/internal/hreg"
)

func init() { hreg.Register(&hreg.Mode{Name: "c15", Gen: gen, Exec: exec}) }

var spec = configs.Minimal

// oddSpec: the minimal preset with every configurable vector length set to a value that is NOT a power of two
// (index arithmetic by masking instead of modulo only goes wrong here)
var oddSpec = func() *common.Spec {
	s := *configs.Minimal
	s.SLOTS_PER_HISTORICAL_ROOT = 96
	s.EPOCHS_PER_HISTORICAL_VECTOR = 72
	s.EPOCHS_PER_SLASHINGS_VECTOR = 48
	s.SYNC_COMMITTEE_SIZE = 24
	s.MAX_COMMITTEES_PER_SLOT = 6
	return &s
}()

func usePreset(id string) bool {
	switch id {
	case "minimal":
		spec = configs.Minimal
	case "odd":
		spec = oddSpec
	default:
		return false
	}
	return true
}

// ---------------------------------------------------------------------------------------------
// registry of view types

type desc struct {
	key       string
	newStruct func() interface{} // pointer to the struct form
	viewType  reflect.Type       // pointer type of the view
	load      func(structPtr interface{}) (interface{}, error)
}

func loadBytes(structPtr interface{}, typ view.TypeDef) (view.View, error) {
	b, err := serAny(reflect.ValueOf(structPtr))
	if err != nil {
		return nil, err
	}
	return typ.Deserialize(codec.NewDecodingReader(bytes.NewReader(b), uint64(len(b))))
}

var registry []desc

func init() {
	add := func(key string, ns func() interface{}, vt interface{}, load func(interface{}) (interface{}, error)) {
		registry = append(registry, desc{key, ns, reflect.TypeOf(vt), load})
	}
	// beacon states: loaded from their encoded bytes
	add("phase0.BeaconStateView", func() interface{} { return new(phase0.BeaconState) }, (*phase0.BeaconStateView)(nil), func(s interface{}) (interface{}, error) {
		return phase0.AsBeaconStateView(loadBytes(s, phase0.BeaconStateType(spec)))
	})
	add("altair.BeaconStateView", func() interface{} { return new(altair.BeaconState) }, (*altair.BeaconStateView)(nil), func(s interface{}) (interface{}, error) {
		return altair.AsBeaconStateView(loadBytes(s, altair.BeaconStateType(spec)))
	})
	add("bellatrix.BeaconStateView", func() interface{} { return new(bellatrix.BeaconState) }, (*bellatrix.BeaconStateView)(nil), func(s interface{}) (interface{}, error) {
		return bellatrix.AsBeaconStateView(loadBytes(s, bellatrix.BeaconStateType(spec)))
	})
	add("capella.BeaconStateView", func() interface{} { return new(capella.BeaconState) }, (*capella.BeaconStateView)(nil), func(s interface{}) (interface{}, error) {
		return capella.AsBeaconStateView(loadBytes(s, capella.BeaconStateType(spec)))
	})
	add("deneb.BeaconStateView", func() interface{} { return new(deneb.BeaconState) }, (*deneb.BeaconStateView)(nil), func(s interface{}) (interface{}, error) {
		return deneb.AsBeaconStateView(loadBytes(s, deneb.BeaconStateType(spec)))
	})
	add("electra.BeaconStateView", func() interface{} { return new(electra.BeaconState) }, (*electra.BeaconStateView)(nil), func(s interface{}) (interface{}, error) {
		return electra.AsBeaconStateView(loadBytes(s, electra.BeaconStateType(spec)))
	})
	// typed sub-views: loaded from their encoded bytes as well
	add("common.CheckpointView", func() interface{} { return new(common.Checkpoint) }, (*common.CheckpointView)(nil), func(s interface{}) (interface{}, error) {
		return common.AsCheckPoint(loadBytes(s, common.CheckpointType))
	})
	add("common.ForkView", func() interface{} { return new(common.Fork) }, (*common.ForkView)(nil), func(s interface{}) (interface{}, error) {
		return common.AsFork(loadBytes(s, common.ForkType))
	})
	add("common.BeaconBlockHeaderView", func() interface{} { return new(common.BeaconBlockHeader) }, (*common.BeaconBlockHeaderView)(nil), func(s interface{}) (interface{}, error) {
		return common.AsBeaconBlockHeader(loadBytes(s, common.BeaconBlockHeaderType))
	})
	add("common.Eth1DataView", func() interface{} { return new(common.Eth1Data) }, (*common.Eth1DataView)(nil), func(s interface{}) (interface{}, error) {
		return common.AsEth1Data(loadBytes(s, common.Eth1DataType))
	})
	add("common.SyncCommitteeView", func() interface{} { return new(common.SyncCommittee) }, (*common.SyncCommitteeView)(nil), func(s interface{}) (interface{}, error) {
		return common.AsSyncCommittee(loadBytes(s, common.SyncCommitteeType(spec)))
	})
	add("common.WithdrawalView", func() interface{} { return new(common.Withdrawal) }, (*common.WithdrawalView)(nil), func(s interface{}) (interface{}, error) {
		return common.AsWithdrawal(loadBytes(s, common.WithdrawalType))
	})
	add("common.BLSToExecutionChangeView", func() interface{} { return new(common.BLSToExecutionChange) }, (*common.BLSToExecutionChangeView)(nil), func(s interface{}) (interface{}, error) {
		return common.AsBLSToExecutionChange(loadBytes(s, common.BLSToExecutionChangeType))
	})
	add("phase0.ValidatorView", func() interface{} { return new(phase0.Validator) }, (*phase0.ValidatorView)(nil), func(s interface{}) (interface{}, error) {
		return phase0.AsValidator(loadBytes(s, phase0.ValidatorType))
	})
	add("bellatrix.ExecutionPayloadHeaderView", func() interface{} { return new(bellatrix.ExecutionPayloadHeader) }, (*bellatrix.ExecutionPayloadHeaderView)(nil), func(s interface{}) (interface{}, error) {
		return bellatrix.AsExecutionPayloadHeader(loadBytes(s, bellatrix.ExecutionPayloadHeaderType))
	})
	add("capella.ExecutionPayloadHeaderView", func() interface{} { return new(capella.ExecutionPayloadHeader) }, (*capella.ExecutionPayloadHeaderView)(nil), func(s interface{}) (interface{}, error) {
		return capella.AsExecutionPayloadHeader(loadBytes(s, capella.ExecutionPayloadHeaderType))
	})
	add("deneb.ExecutionPayloadHeaderView", func() interface{} { return new(deneb.ExecutionPayloadHeader) }, (*deneb.ExecutionPayloadHeaderView)(nil), func(s interface{}) (interface{}, error) {
		return deneb.AsExecutionPayloadHeader(loadBytes(s, deneb.ExecutionPayloadHeaderType))
	})
	// the remaining container views of eth2/beacon (not reachable from a state accessor)
	add("common.SignedBLSToExecutionChangeView", func() interface{} { return new(common.SignedBLSToExecutionChange) }, (*common.SignedBLSToExecutionChangeView)(nil), func(s interface{}) (interface{}, error) {
		return common.AsSignedBLSToExecutionChange(loadBytes(s, common.SignedBLSToExecutionChangeType))
	})
	add("phase0.AttestationDataView", func() interface{} { return new(phase0.AttestationData) }, (*phase0.AttestationDataView)(nil), func(s interface{}) (interface{}, error) {
		return phase0.AsAttestationData(loadBytes(s, phase0.AttestationDataType))
	})
	add("phase0.HistoricalBatchView", func() interface{} { return new(phase0.HistoricalBatch) }, (*phase0.HistoricalBatchView)(nil), func(s interface{}) (interface{}, error) {
		return phase0.AsHistoricalBatch(loadBytes(s, phase0.HistoricalBatchType(spec)))
	})
	add("phase0.PendingAttestationView", func() interface{} { return new(phase0.PendingAttestation) }, (*phase0.PendingAttestationView)(nil), func(s interface{}) (interface{}, error) {
		return phase0.AsPendingAttestation(loadBytes(s, phase0.PendingAttestationType(spec)))
	})
	add("altair.SyncAggregateView", func() interface{} { return new(altair.SyncAggregate) }, (*altair.SyncAggregateView)(nil), func(s interface{}) (interface{}, error) {
		return altair.AsSyncAggregate(loadBytes(s, altair.SyncAggregateType(spec)))
	})
	add("altair.SyncCommitteeMessageView", func() interface{} { return new(altair.SyncCommitteeMessage) }, (*altair.SyncCommitteeMessageView)(nil), func(s interface{}) (interface{}, error) {
		return altair.AsSyncCommitteeMessage(loadBytes(s, altair.SyncCommitteeMessageType))
	})
	add("altair.SyncCommitteeContributionView", func() interface{} { return new(altair.SyncCommitteeContribution) }, (*altair.SyncCommitteeContributionView)(nil), func(s interface{}) (interface{}, error) {
		return altair.AsSyncCommitteeContribution(loadBytes(s, altair.SyncCommitteeContributionType(spec)))
	})
	add("altair.ContributionAndProofView", func() interface{} { return new(altair.ContributionAndProof) }, (*altair.ContributionAndProofView)(nil), func(s interface{}) (interface{}, error) {
		return altair.AsContributionAndProof(loadBytes(s, altair.ContributionAndProofType(spec)))
	})
	add("altair.SignedContributionAndProofView", func() interface{} { return new(altair.SignedContributionAndProof) }, (*altair.SignedContributionAndProofView)(nil), func(s interface{}) (interface{}, error) {
		return altair.AsSignedContributionAndProof(loadBytes(s, altair.SignedContributionAndProofType(spec)))
	})
	add("bellatrix.ExecutionPayloadView", func() interface{} { return new(bellatrix.ExecutionPayload) }, (*bellatrix.ExecutionPayloadView)(nil), func(s interface{}) (interface{}, error) {
		return bellatrix.AsExecutionPayload(loadBytes(s, bellatrix.ExecutionPayloadType(spec)))
	})
	add("capella.ExecutionPayloadView", func() interface{} { return new(capella.ExecutionPayload) }, (*capella.ExecutionPayloadView)(nil), func(s interface{}) (interface{}, error) {
		return capella.AsExecutionPayload(loadBytes(s, capella.ExecutionPayloadType(spec)))
	})
	add("deneb.ExecutionPayloadView", func() interface{} { return new(deneb.ExecutionPayload) }, (*deneb.ExecutionPayloadView)(nil), func(s interface{}) (interface{}, error) {
		return deneb.AsExecutionPayload(loadBytes(s, deneb.ExecutionPayloadType(spec)))
	})
}

func findDesc(key string) *desc {
	for i := range registry {
		if registry[i].key == key {
			return &registry[i]
		}
	}
	return nil
}

// ---------------------------------------------------------------------------------------------
// generic serialisation by reflection

var encWriterT = reflect.TypeOf((*codec.EncodingWriter)(nil))
var decReaderT = reflect.TypeOf((*codec.DecodingReader)(nil))
var specT = reflect.TypeOf((*common.Spec)(nil))
var errT = reflect.TypeOf((*error)(nil)).Elem()

// serAny serialises a value through its own Serialize method (plain or spec-parametrised), falling back on
// the kind for plain integers / bools.
func serAny(v reflect.Value) ([]byte, error) {
	if v.Kind() == reflect.Interface && !v.IsNil() {
		v = v.Elem()
	}
	if v.Kind() != reflect.Ptr && !v.CanAddr() { // a returned struct value: Serialize may have a pointer receiver
		p := reflect.New(v.Type())
		p.Elem().Set(v)
		v = p.Elem()
	}
	for _, cand := range []reflect.Value{v, addr(v)} {
		if !cand.IsValid() {
			continue
		}
		if cand.Kind() == reflect.Ptr && cand.IsNil() {
			continue
		}
		if m := cand.MethodByName("Serialize"); m.IsValid() {
			var buf bytes.Buffer
			w := codec.NewEncodingWriter(&buf)
			var out []reflect.Value
			switch {
			case m.Type().NumIn() == 1 && m.Type().In(0) == encWriterT:
				out = m.Call([]reflect.Value{reflect.ValueOf(w)})
			case m.Type().NumIn() == 2 && m.Type().In(0) == specT && m.Type().In(1) == encWriterT:
				out = m.Call([]reflect.Value{reflect.ValueOf(spec), reflect.ValueOf(w)})
			default:
				continue
			}
			if !out[0].IsNil() {
				return nil, out[0].Interface().(error)
			}
			return buf.Bytes(), nil
		}
	}
	for v.Kind() == reflect.Ptr || v.Kind() == reflect.Interface {
		if v.IsNil() {
			return nil, fmt.Errorf("nil value")
		}
		v = v.Elem()
	}
	switch v.Kind() {
	case reflect.Uint64:
		var b [8]byte
		binary.LittleEndian.PutUint64(b[:], v.Uint())
		return b[:], nil
	case reflect.Uint8:
		return []byte{byte(v.Uint())}, nil
	case reflect.Bool:
		if v.Bool() {
			return []byte{1}, nil
		}
		return []byte{0}, nil
	case reflect.Slice: // []common.Gwei and friends
		var out []byte
		for i := 0; i < v.Len(); i++ {
			b, err := serAny(v.Index(i))
			if err != nil {
				return nil, err
			}
			out = append(out, b...)
		}
		return out, nil
	}
	return nil, fmt.Errorf("cannot serialise %s", v.Type())
}

func addr(v reflect.Value) reflect.Value {
	if v.IsValid() && v.CanAddr() {
		return v.Addr()
	}
	return reflect.Value{}
}

// deserInto fills the value pointed to by ptr from bytes.
func deserInto(ptr reflect.Value, b []byte) error {
	// start from the zero value: ztyp's DecodingReader.ByteList keeps a longer existing slice and then reads
	// past its scope (a dependency quirk when decoding into a used destination; not what is under test here)
	ptr.Elem().Set(reflect.Zero(ptr.Elem().Type()))
	if m := ptr.MethodByName("Deserialize"); m.IsValid() {
		dr := codec.NewDecodingReader(bytes.NewReader(b), uint64(len(b)))
		var out []reflect.Value
		switch {
		case m.Type().NumIn() == 1 && m.Type().In(0) == decReaderT:
			out = m.Call([]reflect.Value{reflect.ValueOf(dr)})
		case m.Type().NumIn() == 2 && m.Type().In(0) == specT && m.Type().In(1) == decReaderT:
			out = m.Call([]reflect.Value{reflect.ValueOf(spec), reflect.ValueOf(dr)})
		}
		if out != nil {
			if !out[0].IsNil() {
				return out[0].Interface().(error)
			}
			return nil
		}
	}
	e := ptr.Elem()
	switch e.Kind() {
	case reflect.Uint64:
		if len(b) != 8 {
			return fmt.Errorf("need 8 bytes")
		}
		e.SetUint(binary.LittleEndian.Uint64(b))
		return nil
	case reflect.Uint8:
		if len(b) != 1 {
			return fmt.Errorf("need 1 byte")
		}
		e.SetUint(uint64(b[0]))
		return nil
	case reflect.Bool:
		if len(b) != 1 || b[0] > 1 {
			return fmt.Errorf("bad bool")
		}
		e.SetBool(b[0] == 1)
		return nil
	case reflect.Slice:
		if e.Type().Elem().Kind() == reflect.Uint64 && len(b)%8 == 0 {
			sl := reflect.MakeSlice(e.Type(), len(b)/8, len(b)/8)
			for i := 0; i < len(b)/8; i++ {
				sl.Index(i).SetUint(binary.LittleEndian.Uint64(b[8*i:]))
			}
			e.Set(sl)
			return nil
		}
	}
	return fmt.Errorf("cannot deserialise into %s", e.Type())
}

type field struct {
	name string
	val  []byte
}

func jsonName(f reflect.StructField) string {
	return strings.Split(f.Tag.Get("json"), ",")[0]
}

// structFields serialises every field of the struct form on its own.
func structFields(structPtr interface{}) ([]field, error) {
	v := reflect.ValueOf(structPtr)
	for v.Kind() == reflect.Ptr {
		v = v.Elem()
	}
	var out []field
	for i := 0; i < v.NumField(); i++ {
		b, err := serAny(v.Field(i))
		if err != nil {
			return nil, fmt.Errorf("%s: %v", v.Type().Field(i).Name, err)
		}
		out = append(out, field{jsonName(v.Type().Field(i)), b})
	}
	return out, nil
}

func short(b []byte) string {
	if len(b) > 64 {
		h := sha256.Sum256(b)
		return "#" + hex.EncodeToString(h[:])
	}
	return hx(b)
}

func hx(b []byte) string {
	if len(b) == 0 {
		return "-"
	}
	return hex.EncodeToString(b)
}

func unhx(s string) ([]byte, bool) {
	if s == "-" {
		return nil, true
	}
	b, err := hex.DecodeString(s)
	return b, err == nil
}

// ---------------------------------------------------------------------------------------------
// random values

// fillZero: when set, fill produces the zero value of every basic component (vectors keep their lengths,
// lists keep nvals elements): the "default" state, where a stored component equals the zero of a new one.
var fillZero bool

// extraLen: when >= 0, the length fill gives every ExtraData byte list (0, 5, 32 are the interesting ones)
var extraLen = -1

func fill(rng *rand.Rand, v reflect.Value, nvals int) {
	if fillZero {
		rng = rand.New(zeroSource{})
	}
	t := v.Type()
	vecLen := func(name string) int {
		switch name {
		case "HistoricalBatchRoots":
			return int(spec.SLOTS_PER_HISTORICAL_ROOT)
		case "RandaoMixes":
			return int(spec.EPOCHS_PER_HISTORICAL_VECTOR)
		case "SlashingsHistory":
			return int(spec.EPOCHS_PER_SLASHINGS_VECTOR)
		case "SyncCommitteePubkeys":
			return int(spec.SYNC_COMMITTEE_SIZE)
		case "ValidatorRegistry", "Balances", "ParticipationRegistry", "InactivityScores":
			return nvals
		}
		return -1
	}
	switch t.Kind() {
	case reflect.Struct:
		for i := 0; i < v.NumField(); i++ {
			fill(rng, v.Field(i), nvals)
		}
	case reflect.Array:
		if t.Elem().Kind() == reflect.Uint8 {
			b := make([]byte, v.Len())
			rng.Read(b)
			if t.Name() == "JustificationBits" {
				b[0] &= 0x0f
			}
			reflect.Copy(v, reflect.ValueOf(b))
			return
		}
		for i := 0; i < v.Len(); i++ {
			fill(rng, v.Index(i), nvals)
		}
	case reflect.Uint64:
		v.SetUint(rng.Uint64() >> uint(rng.Intn(64)))
	case reflect.Uint8, reflect.Uint16, reflect.Uint32:
		if strings.Contains(t.Name(), "Participation") {
			v.SetUint(uint64(rng.Intn(8)))
		} else {
			v.SetUint(uint64(rng.Intn(256)))
		}
	case reflect.Bool:
		v.SetBool(rng.Intn(2) == 0)
	case reflect.Ptr:
		v.Set(reflect.New(t.Elem()))
		fill(rng, v.Elem(), nvals)
	case reflect.Slice:
		if t.Elem().Kind() == reflect.Uint8 && t.Name() != "ParticipationRegistry" {
			var b []byte
			switch t.Name() {
			case "SyncCommitteeBits":
				b = make([]byte, (uint64(spec.SYNC_COMMITTEE_SIZE)+7)/8)
				rng.Read(b)
				if r := uint64(spec.SYNC_COMMITTEE_SIZE) % 8; r != 0 {
					b[len(b)-1] &= byte(1<<r) - 1
				}
			case "SyncCommitteeSubnetBits":
				bits := uint64(spec.SYNC_COMMITTEE_SIZE) / common.SYNC_COMMITTEE_SUBNET_COUNT
				b = make([]byte, (bits+7)/8)
				rng.Read(b)
				if r := bits % 8; r != 0 { // bitvector: the unused high bits of the last byte are zero
					b[len(b)-1] &= byte(1<<r) - 1
				}
			case "AttestationBits":
				n := rng.Intn(40)
				b = make([]byte, n/8+1)
				rng.Read(b)
				b[n/8] &= byte(1<<uint(n%8)) - 1
				b[n/8] |= 1 << uint(n%8)
			case "ExtraData":
				n := rng.Intn(33)
				if extraLen >= 0 {
					n = extraLen
				}
				b = make([]byte, n)
				rng.Read(b)
				for i := range b { // never all-zero, so that an overwrite by another value shows
					b[i] |= 1
				}
			default:
				b = make([]byte, rng.Intn(40))
				rng.Read(b)
			}
			v.Set(reflect.ValueOf(b).Convert(t))
			return
		}
		n := vecLen(t.Name())
		if n < 0 {
			n = rng.Intn(3)
		}
		sl := reflect.MakeSlice(t, n, n)
		for i := 0; i < n; i++ {
			fill(rng, sl.Index(i), nvals)
		}
		v.Set(sl)
	}
}

type zeroSource struct{}

func (zeroSource) Int63() int64 { return 0 }
func (zeroSource) Seed(int64)   {}
func (zeroSource) Uint64() uint64 {
	return 0
}

// ---------------------------------------------------------------------------------------------
// method classification

var containerViewMethods = func() map[string]bool {
	m := map[string]bool{}
	t := reflect.TypeOf((*view.ContainerView)(nil))
	for i := 0; i < t.NumMethod(); i++ {
		m[t.Method(i).Name] = true
	}
	return m
}()

// not accessors of one field: transitions, conversions, whole-value operations
var nonAccessors = map[string]bool{
	"Raw": true, "CopyState": true, "ForkSettings": true, "ProcessEpoch": true, "ProcessBlock": true,
	"Flatten": true, "IsValid": true,
	// derived predicates of the bellatrix+ states (read several fields)
	"IsExecutionEnabled": true, "IsTransitionBlock": true, "IsTransitionCompleted": true,
	// own (non-promoted) redefinitions on sub-views
	"HashTreeRoot": true,
}

var specials = map[string]bool{
	"IncrementDepositIndex": true, "IncrementNextWithdrawalIndex": true, "MakeSlashed": true,
	"RotateSyncCommittee": true, "SeedRandao": true, "AddValidator": true,
	"Set": true, // CheckpointView.Set: replaces the whole value
}

func ownMethods(t reflect.Type) []reflect.Method {
	var out []reflect.Method
	for i := 0; i < t.NumMethod(); i++ {
		m := t.Method(i)
		if containerViewMethods[m.Name] && !declaredOn(t, m.Name) {
			continue
		}
		out = append(out, m)
	}
	return out
}

// declaredOn: a method with the name of a promoted ContainerView method that the view type re-declares
// itself (e.g. CheckpointView.Set) has a different signature than the promoted one.
func declaredOn(t reflect.Type, name string) bool {
	cv, _ := reflect.TypeOf((*view.ContainerView)(nil)).MethodByName(name)
	m, _ := t.MethodByName(name)
	if m.Type.NumIn() != cv.Type.NumIn() || m.Type.NumOut() != cv.Type.NumOut() {
		return true
	}
	for i := 1; i < m.Type.NumIn(); i++ {
		if m.Type.In(i) != cv.Type.In(i) {
			return true
		}
	}
	return false
}

func classify(m reflect.Method) string {
	mt := m.Type
	switch {
	case specials[m.Name]:
		return "call"
	case nonAccessors[m.Name]:
		return "skip"
	case mt.NumIn() == 1 && mt.NumOut() == 2 && mt.Out(1) == errT:
		return "get"
	case mt.NumIn() == 2 && mt.NumOut() == 1 && mt.Out(0) == errT && strings.HasPrefix(m.Name, "Set"):
		return "set"
	}
	return "unclassified"
}

// argBytes makes a random argument for a setter parameter and returns its SSZ bytes.
func argBytes(rng *rand.Rand, pt reflect.Type, nvals int) ([]byte, error) {
	if pt == reflect.TypeOf((*common.SyncCommitteeView)(nil)) {
		var sc common.SyncCommittee
		fill(rng, reflect.ValueOf(&sc).Elem(), nvals)
		return serAny(reflect.ValueOf(&sc))
	}
	var v reflect.Value
	if pt.Kind() == reflect.Ptr {
		v = reflect.New(pt.Elem())
		fill(rng, v.Elem(), nvals)
		return serAny(v)
	}
	v = reflect.New(pt)
	fill(rng, v.Elem(), nvals)
	if pt.Kind() == reflect.Slice && pt.Elem().Kind() == reflect.Uint64 { // SetBalances: any length
		n := rng.Intn(6)
		sl := reflect.MakeSlice(pt, n, n)
		for i := 0; i < n; i++ {
			sl.Index(i).SetUint(rng.Uint64())
		}
		v.Elem().Set(sl)
	}
	return serAny(v)
}

// shareArg builds an argument for a setter from the value currently stored in the struct-side field `cur`:
// a composite keeps a random subset of its components and gets fresh ones for the rest (mode 1), changes
// exactly one component (mode 2) or is the stored value itself (mode 0); a basic value is kept or replaced.
// It returns the argument's struct-side value (to keep tracking) and its bytes.
func shareArg(rng *rand.Rand, cur reflect.Value, mode int, nvals int) (reflect.Value, []byte, error) {
	v := reflect.New(cur.Type()).Elem()
	v.Set(cur)
	// deep-copy slices so that the tracked value is not aliased
	if b, err := serAny(cur); err == nil {
		nv := reflect.New(cur.Type())
		if deserInto(nv, b) == nil {
			v = nv.Elem()
		}
	}
	if mode != 0 {
		switch v.Kind() {
		case reflect.Struct:
			n := v.NumField()
			one := rng.Intn(n)
			for i := 0; i < n; i++ {
				if (mode == 2 && i == one) || (mode == 1 && rng.Intn(2) == 0) {
					fill(rng, v.Field(i), nvals)
				}
			}
		case reflect.Slice:
			if v.Len() > 0 && v.Type().Elem().Kind() == reflect.Uint64 {
				v.Index(rng.Intn(v.Len())).SetUint(rng.Uint64())
			} else {
				fill(rng, v, nvals)
			}
		case reflect.Array:
			if v.Len() > 1 && v.Type().Elem().Kind() == reflect.Uint8 && v.Type().Name() != "JustificationBits" {
				// keep one half of the bytes
				half := v.Len() / 2
				for i := 0; i < half; i++ {
					v.Index(rng.Intn(v.Len())).SetUint(uint64(rng.Intn(256)))
				}
			} else {
				fill(rng, v, nvals)
			}
		default:
			fill(rng, v, nvals)
		}
	}
	p := reflect.New(v.Type())
	p.Elem().Set(v)
	b, err := serAny(p)
	return v, b, err
}

func argFromBytes(pt reflect.Type, b []byte) (reflect.Value, error) {
	if pt == reflect.TypeOf((*common.SyncCommitteeView)(nil)) {
		var sc common.SyncCommittee
		if err := deserInto(reflect.ValueOf(&sc), b); err != nil {
			return reflect.Value{}, err
		}
		scv, err := sc.View(spec)
		if err != nil {
			return reflect.Value{}, err
		}
		return reflect.ValueOf(scv), nil
	}
	if pt.Kind() == reflect.Ptr {
		v := reflect.New(pt.Elem())
		return v, deserInto(v, b)
	}
	v := reflect.New(pt)
	return v.Elem(), deserInto(v, b)
}

// ---------------------------------------------------------------------------------------------
// generator

// presetOf: rounds 0,1 minimal (random / default value), rounds 2,3 the odd-length preset, then alternating
func presetOf(r int) string {
	if (r/2)%2 == 1 {
		return "odd"
	}
	return "minimal"
}

func gen(o hreg.Opts, w *bufio.Writer) error {
	rng := o.Rand()
	st := o.Stats
	emit := func(kind, f string, a ...interface{}) {
		st.Add("op", kind)
		fmt.Fprintf(w, kind+f+"\n", a...)
	}
	rounds := o.Pick(4, 40)
	for r := 0; r < rounds; r++ {
		for _, d := range registry {
			usePreset(presetOf(r))
			st.Add("preset", presetOf(r))
			nvals := 1 + rng.Intn(5)
			sp := d.newStruct()
			fillZero = r%2 == 1 // odd rounds start from the default (all-zero) value
			extraLen = []int{-1, 0, 32, 5}[r%4]
			fill(rng, reflect.ValueOf(sp).Elem(), nvals)
			fillZero = false
			extraLen = -1
			st.Add("initial-value", map[bool]string{true: "default", false: "random"}[r%2 == 1])
			fs, err := structFields(sp)
			if err != nil {
				return fmt.Errorf("%s: %v", d.key, err)
			}
			fmt.Fprintln(w, "reset")
			emit("preset", " %s", presetOf(r))
			var parts []string
			for _, f := range fs {
				parts = append(parts, f.name+"="+hx(f.val))
			}
			emit("new", " %s %s", d.key, strings.Join(parts, " "))
			st.Add("view", d.key)
			if r == 0 {
				emit("methods", "")
			}
			ms := ownMethods(d.viewType)
			var gets, sets, calls []reflect.Method
			for _, m := range ms {
				switch classify(m) {
				case "get":
					gets = append(gets, m)
				case "set":
					sets = append(sets, m)
				case "call":
					calls = append(calls, m)
				case "unclassified":
					emit("unclassified", " %s", m.Name)
					st.Add("unclassified-method", d.key+"."+m.Name)
				}
			}
			doGets := func() {
				for _, m := range gets {
					emit("get", " %s", m.Name)
				}
			}
			doGets()
			emit("raw", "")
			// results a caller holds on to survive later reads (on another value, and on this one)
			for _, m := range gets {
				emit("held", " %s %d %d", m.Name, []int{0, 5, 32, 17}[rng.Intn(4)], rng.Int63n(1<<40))
			}
			if _, ok := d.viewType.MethodByName("Raw"); ok {
				for _, ln := range []int{0, 5, 32} {
					emit("held", " Raw %d %d", ln, rng.Int63n(1<<40))
				}
			}
			// writes in random order, each followed by the matching read (and a few unrelated reads)
			perm := rng.Perm(len(sets))
			sv := reflect.ValueOf(sp).Elem()
			// trackable: the struct side has a field named like the setter (SetX <-> X) whose encoding is the
			// setter's argument encoding
			tracked := func(m reflect.Method) (reflect.Value, bool) {
				f := sv.FieldByName(strings.TrimPrefix(m.Name, "Set"))
				return f, f.IsValid()
			}
			afterSet := func(m reflect.Method) {
				getter := strings.TrimPrefix(m.Name, "Set")
				if _, ok := d.viewType.MethodByName(getter); ok {
					emit("get", " %s", getter)
				}
			}
			for _, i := range perm {
				m := sets[i]
				b, err := argBytes(rng, m.Type.In(1), nvals)
				if err != nil {
					return fmt.Errorf("%s.%s: %v", d.key, m.Name, err)
				}
				emit("set", " %s %s", m.Name, hx(b))
				if f, ok := tracked(m); ok {
					if deserInto(f.Addr(), b) != nil {
						return fmt.Errorf("%s.%s: cannot track the argument", d.key, m.Name)
					}
				}
				afterSet(m)
				if len(gets) > 0 {
					emit("get", " %s", gets[rng.Intn(len(gets))].Name)
				}
			}
			// repeated writes of the same field whose new value shares components with the stored one: the same
			// value again, exactly one component changed, a random subset changed — for every setter
			for _, i := range rng.Perm(len(sets)) {
				m := sets[i]
				f, ok := tracked(m)
				if !ok {
					continue
				}
				for _, mode := range []int{2, 0, 1, 2, 2} {
					nv, b, err := shareArg(rng, f, mode, nvals)
					if err != nil {
						return fmt.Errorf("%s.%s: %v", d.key, m.Name, err)
					}
					st.Add("shared-component-set", []string{"same-value", "random-subset", "one-component"}[mode])
					emit("set", " %s %s", m.Name, hx(b))
					f.Set(nv)
					afterSet(m)
				}
			}
			for _, m := range calls {
				switch m.Name {
				case "RotateSyncCommittee":
					b, _ := argBytes(rng, m.Type.In(1), nvals)
					emit("call", " %s %s", m.Name, hx(b))
				case "AddValidator":
					var pub [48]byte
					var cred [32]byte
					var bal [8]byte
					rng.Read(pub[:])
					rng.Read(cred[:])
					cred[0] = byte(rng.Intn(2))
					binary.LittleEndian.PutUint64(bal[:], uint64(rng.Int63n(40000000000)))
					emit("call", " %s %s %s %s", m.Name, hx(pub[:]), hx(cred[:]), hx(bal[:]))
				case "Set":
					// whole-value replacement, sharing components with what is stored
					cur := reflect.ValueOf(sp).Elem()
					for _, mode := range []int{2, 0, 1, 2} {
						nv, b, err := shareArg(rng, cur, mode, nvals)
						if err != nil {
							return err
						}
						emit("call", " Set %s", hx(b))
						cur.Set(nv)
						emit("raw", "")
					}
				case "SeedRandao":
					var seed [32]byte
					rng.Read(seed[:])
					emit("call", " %s %s", m.Name, hx(seed[:]))
				default:
					emit("call", " %s", m.Name)
				}
			}
			if strings.HasSuffix(d.key, "BeaconStateView") {
				for k := 0; k < 20; k++ {
					idx := rng.Uint64() >> uint(rng.Intn(64))
					switch rng.Intn(4) {
					case 0: // in the top part of the vector: at or above the largest power of two below its length
						idx = 32 + uint64(rng.Intn(64))
					case 1: // far above the length: wraps around several times
						idx = uint64(1+rng.Intn(1000))*96 + uint64(rng.Intn(96))
					}
					var r32 [32]byte
					rng.Read(r32[:])
					var u8 [8]byte
					rng.Read(u8[:])
					switch rng.Intn(15) {
					case 9:
						i := rng.Intn(nvals + 1)
						emit("elem", " InactivityScores SetScore %d %s", i, hx(u8[:]))
						emit("elem", " InactivityScores GetScore %d", i)
					case 10:
						i := rng.Intn(nvals + 1)
						g := []string{"PreviousEpochParticipation", "CurrentEpochParticipation"}[rng.Intn(2)]
						emit("elem", " %s SetFlags %d %s", g, i, hx([]byte{byte(rng.Intn(8))}))
						emit("elem", " %s GetFlags %d", g, i)
						emit("elem", " PreviousEpochParticipation GetFlags %d", i)
					case 11:
						emit("elem", " HistoricalRoots Append 0 %s", hx(r32[:]))
						emit("get", " HistoricalRoots")
					case 12:
						var e1 [72]byte
						rng.Read(e1[:])
						emit("elem", " Eth1DataVotes Append 0 %s", hx(e1[:]))
						emit("elem", " Eth1DataVotes Length 0")
					case 13:
						emit("elem", " Eth1DataVotes Reset 0")
						emit("elem", " Eth1DataVotes Length 0")
					case 14:
						emit("elem", " Balances AppendBalance 0 %s", hx(u8[:]))
						emit("elem", " Balances GetBalance %d", nvals)
					case 0:
						emit("elem", " BlockRoots SetRoot %d %s", idx, hx(r32[:]))
						emit("elem", " BlockRoots GetRoot %d", idx)
					case 1:
						emit("elem", " StateRoots SetRoot %d %s", idx, hx(r32[:]))
						emit("elem", " StateRoots GetRoot %d", idx)
						emit("elem", " BlockRoots GetRoot %d", idx)
					case 2:
						emit("elem", " RandaoMixes SetRandomMix %d %s", idx, hx(r32[:]))
						emit("elem", " RandaoMixes GetRandomMix %d", idx)
					case 3:
						emit("elem", " Slashings AddSlashing %d %s", idx, hx(u8[:]))
						emit("elem", " Slashings GetSlashingsValue %d", idx)
					case 4:
						emit("elem", " Slashings ResetSlashings %d", idx)
					case 5:
						i := rng.Intn(nvals + 1) // one past the end: refused
						emit("elem", " Balances SetBalance %d %s", i, hx(u8[:]))
						emit("elem", " Balances GetBalance %d", i)
					default:
						i := rng.Intn(nvals + 1)
						vm := validatorAccessors[rng.Intn(len(validatorAccessors))]
						switch {
						case vm == "MakeSlashed":
							emit("velem", " %d %s", i, vm)
						case strings.HasPrefix(vm, "Set"):
							arg := u8[:]
							if vm == "SetWithdrawalCredentials" {
								arg = r32[:]
							}
							emit("velem", " %d %s %s", i, vm, hx(arg))
							emit("velem", " %d %s", i, strings.TrimPrefix(vm, "Set"))
						default:
							emit("velem", " %d %s", i, vm)
						}
					}
				}
			}
			doGets()
			emit("raw", "")
		}
	}
	usePreset("minimal")
	genCopies(o, rng, w)
	fmt.Fprintln(w, "reset")
	fmt.Fprintln(w, "get Slot") // no value yet
	fmt.Fprintln(w, "nonsense")
	return nil
}

var validatorAccessors = []string{"Pubkey", "WithdrawalCredentials", "SetWithdrawalCredentials", "EffectiveBalance", "SetEffectiveBalance",
	"Slashed", "MakeSlashed", "ActivationEligibilityEpoch", "SetActivationEligibilityEpoch", "ActivationEpoch", "SetActivationEpoch",
	"ExitEpoch", "SetExitEpoch", "WithdrawableEpoch", "SetWithdrawableEpoch"}

// ---------------------------------------------------------------------------------------------
// executor

type session struct {
	d      *desc
	view   interface{}
	fields []field
}

func (s *session) raw() ([]field, error) {
	rv := reflect.ValueOf(s.view)
	m := rv.MethodByName("Raw")
	if !m.IsValid() {
		// no struct conversion on the view: decode its bytes into the struct form
		b, err := serAny(rv)
		if err != nil {
			return nil, err
		}
		sp := s.d.newStruct()
		if err := deserInto(reflect.ValueOf(sp), b); err != nil {
			return nil, err
		}
		return structFields(sp)
	}
	var out []reflect.Value
	if m.Type().NumIn() == 1 {
		out = m.Call([]reflect.Value{reflect.ValueOf(spec)})
	} else {
		out = m.Call(nil)
	}
	if !out[1].IsNil() {
		return nil, out[1].Interface().(error)
	}
	res := out[0]
	if res.Kind() != reflect.Ptr {
		p := reflect.New(res.Type())
		p.Elem().Set(res)
		res = p
	}
	return structFields(res.Interface())
}

func (s *session) diff() string {
	now, err := s.raw()
	if err != nil {
		return "raw-failed"
	}
	out := "ok"
	for i := range now {
		if i >= len(s.fields) || !bytes.Equal(now[i].val, s.fields[i].val) {
			out += " " + now[i].name + "=" + short(now[i].val)
		}
	}
	s.fields = now
	return out
}

func callErr(out []reflect.Value) bool {
	last := out[len(out)-1]
	return !last.IsNil()
}

func digest(fs []field) string {
	var sb strings.Builder
	for _, f := range fs {
		sb.WriteString(f.name + "=" + hx(f.val) + ";")
	}
	h := sha256.Sum256([]byte(sb.String()))
	return hex.EncodeToString(h[:])
}

func (s *session) step(f []string) string {
	if s.view == nil && f[0] != "new" {
		return "bad-op"
	}
	rv := reflect.ValueOf(s.view)
	switch {
	case f[0] == "new" && len(f) >= 2:
		d := findDesc(f[1])
		if d == nil {
			return "unknown-view"
		}
		sp := d.newStruct()
		sv := reflect.ValueOf(sp).Elem()
		if len(f)-2 != sv.NumField() {
			return "field-list-differs"
		}
		for i := 0; i < sv.NumField(); i++ {
			kv := strings.SplitN(f[2+i], "=", 2)
			if len(kv) != 2 || kv[0] != jsonName(sv.Type().Field(i)) {
				return "field-list-differs"
			}
			b, ok := unhx(kv[1])
			if !ok {
				return "bad-op"
			}
			if err := deserInto(sv.Field(i).Addr(), b); err != nil {
				return "bad-op"
			}
		}
		v, err := d.load(sp)
		if err != nil {
			return "err"
		}
		s.d, s.view = d, v
		fs, err := s.raw()
		if err != nil {
			return "raw-failed"
		}
		s.fields = fs
		return "ok"
	case f[0] == "methods" && len(f) == 1:
		var ns []string
		for _, m := range ownMethods(s.d.viewType) {
			ns = append(ns, m.Name)
		}
		sort.Strings(ns)
		return "ok " + strings.Join(ns, ",")
	case f[0] == "unclassified" && len(f) == 2:
		// a method of a shape this harness does not know how to drive: not exercised here (recorded in the
		// input distribution); the table theorems still demand an expectation for it if it accesses a field
		return "ok not-driven"
	case f[0] == "get" && len(f) == 2:
		m := rv.MethodByName(f[1])
		if !m.IsValid() || m.Type().NumIn() != 0 || m.Type().NumOut() != 2 {
			return "unknown-method"
		}
		out := m.Call(nil)
		if callErr(out) {
			return "err"
		}
		b, err := serAny(out[0])
		if err != nil {
			return "unserialisable"
		}
		return "ok " + short(b)
	case f[0] == "set" && len(f) == 3:
		m := rv.MethodByName(f[1])
		if !m.IsValid() || m.Type().NumIn() != 1 {
			return "unmodelled"
		}
		b, ok := unhx(f[2])
		if !ok {
			return "bad-op"
		}
		arg, err := argFromBytes(m.Type().In(0), b)
		if err != nil {
			return "bad-op"
		}
		if callErr(m.Call([]reflect.Value{arg})) {
			return "err"
		}
		return s.diff()
	case f[0] == "call" && len(f) >= 2:
		m := rv.MethodByName(f[1])
		if !m.IsValid() {
			return "unmodelled"
		}
		var args []reflect.Value
		switch f[1] {
		case "IncrementDepositIndex", "IncrementNextWithdrawalIndex", "MakeSlashed":
			if len(f) != 2 {
				return "bad-op"
			}
		case "AddValidator":
			if len(f) != 5 {
				return "bad-op"
			}
			pb, ok1 := unhx(f[2])
			cb, ok2 := unhx(f[3])
			bb, ok3 := unhx(f[4])
			if !ok1 || !ok2 || !ok3 || len(pb) != 48 || len(cb) != 32 || len(bb) != 8 {
				return "bad-op"
			}
			var pub common.BLSPubkey
			var cred common.Root
			copy(pub[:], pb)
			copy(cred[:], cb)
			args = []reflect.Value{reflect.ValueOf(spec), reflect.ValueOf(pub), reflect.ValueOf(cred), reflect.ValueOf(common.Gwei(binary.LittleEndian.Uint64(bb)))}
		case "Set":
			if len(f) != 3 {
				return "bad-op"
			}
			b, ok := unhx(f[2])
			if !ok {
				return "bad-op"
			}
			a, err := argFromBytes(m.Type().In(0), b)
			if err != nil {
				return "bad-op"
			}
			args = []reflect.Value{a}
		case "SeedRandao":
			if len(f) != 3 {
				return "bad-op"
			}
			b, ok := unhx(f[2])
			if !ok || len(b) != 32 {
				return "bad-op"
			}
			var r common.Root
			copy(r[:], b)
			args = []reflect.Value{reflect.ValueOf(spec), reflect.ValueOf(r)}
		case "RotateSyncCommittee":
			if len(f) != 3 {
				return "bad-op"
			}
			b, ok := unhx(f[2])
			if !ok {
				return "bad-op"
			}
			a, err := argFromBytes(m.Type().In(0), b)
			if err != nil {
				return "bad-op"
			}
			args = []reflect.Value{a}
		default:
			return "bad-op"
		}
		if callErr(m.Call(args)) {
			return "err"
		}
		return s.diff()
	case f[0] == "elem" && len(f) >= 4:
		size := 0
		switch f[1] {
		case "BlockRoots", "StateRoots", "RandaoMixes", "HistoricalRoots":
			size = 32
		case "Slashings", "Balances", "InactivityScores":
			size = 8
		case "PreviousEpochParticipation", "CurrentEpochParticipation":
			size = 1
		case "Eth1DataVotes":
			size = 72
		default:
			return "bad-op"
		}
		g := rv.MethodByName(f[1])
		idx, err := strconv.ParseUint(f[3], 10, 64)
		if err != nil {
			return "bad-op"
		}
		if !g.IsValid() {
			return "unmodelled" // this fork's state has no such getter
		}
		out := g.Call(nil)
		if callErr(out) {
			return "err"
		}
		sub := out[0]
		if sub.Kind() == reflect.Interface {
			sub = sub.Elem()
		}
		m := sub.MethodByName(f[2])
		if !m.IsValid() {
			return "bad-op"
		}
		switch f[2] {
		case "Append", "AppendBalance":
			if len(f) != 5 {
				return "bad-op"
			}
			b, ok := unhx(f[4])
			if !ok || len(b) != size {
				return "bad-op"
			}
			a, err := argFromBytes(m.Type().In(0), b)
			if err != nil {
				return "bad-op"
			}
			if callErr(m.Call([]reflect.Value{a})) {
				return "err"
			}
			return s.diff()
		case "Reset":
			if len(f) != 4 {
				return "bad-op"
			}
			if callErr(m.Call(nil)) {
				return "err"
			}
			return s.diff()
		case "Length":
			if len(f) != 4 {
				return "bad-op"
			}
			res := m.Call(nil)
			if callErr(res) {
				return "err"
			}
			b, _ := serAny(res[0])
			return "ok " + hx(b)
		}
		if m.Type().NumIn() < 1 {
			return "bad-op"
		}
		args := []reflect.Value{reflect.ValueOf(idx).Convert(m.Type().In(0))}
		switch f[2] {
		case "GetRoot", "GetRandomMix", "GetBalance", "GetSlashingsValue", "GetScore", "GetFlags":
			if len(f) != 4 {
				return "bad-op"
			}
			res := m.Call(args)
			if callErr(res) {
				return "err"
			}
			b, _ := serAny(res[0])
			return "ok " + hx(b)
		case "ResetSlashings":
			if len(f) != 4 {
				return "bad-op"
			}
		case "SetRoot", "SetRandomMix", "SetBalance", "AddSlashing", "SetScore", "SetFlags":
			if len(f) != 5 {
				return "bad-op"
			}
			b, ok := unhx(f[4])
			want := size
			if !ok || len(b) != want {
				return "bad-op"
			}
			a, err := argFromBytes(m.Type().In(1), b)
			if err != nil {
				return "bad-op"
			}
			args = append(args, a)
		default:
			return "bad-op"
		}
		if callErr(m.Call(args)) {
			return "err"
		}
		return s.diff()
	case f[0] == "velem" && len(f) >= 3:
		g := rv.MethodByName("Validators")
		idx, err := strconv.ParseUint(f[1], 10, 64)
		if !g.IsValid() || err != nil {
			return "bad-op"
		}
		out := g.Call(nil)
		if callErr(out) {
			return "err"
		}
		reg := out[0].Interface().(common.ValidatorRegistry)
		val, err := reg.Validator(common.ValidatorIndex(idx))
		if err != nil {
			return "err"
		}
		m := reflect.ValueOf(val).MethodByName(f[2])
		if !m.IsValid() {
			return "bad-op"
		}
		switch {
		case len(f) == 3 && m.Type().NumIn() == 0 && m.Type().NumOut() == 2:
			res := m.Call(nil)
			if callErr(res) {
				return "err"
			}
			b, _ := serAny(res[0])
			return "ok " + hx(b)
		case len(f) == 3 && f[2] == "MakeSlashed":
			if callErr(m.Call(nil)) {
				return "err"
			}
			return s.diff()
		case len(f) == 4 && m.Type().NumIn() == 1:
			b, ok := unhx(f[3])
			if !ok {
				return "bad-op"
			}
			a, err := argFromBytes(m.Type().In(0), b)
			if err != nil {
				return "bad-op"
			}
			if callErr(m.Call([]reflect.Value{a})) {
				return "err"
			}
			return s.diff()
		}
		return "bad-op"
	case f[0] == "held" && len(f) == 4:
		// held M len seed: results a caller still HOLDS must not change when more reads happen. Read through M
		// (and, if the result has one, its Raw()), snapshot the result's bytes; then read the same thing on
		// ANOTHER value of the same type (different contents, extra_data of the given length) and once more on this
		// one; then serialise the held first result again.
		ln, err1 := strconv.Atoi(f[2])
		seed, err2 := strconv.ParseInt(f[3], 10, 64)
		if err1 != nil || err2 != nil || ln < 0 || ln > 32 {
			return "bad-op"
		}
		read := func(v reflect.Value) ([]reflect.Value, bool) {
			m := v.MethodByName(f[1])
			if !m.IsValid() {
				return nil, false
			}
			var out []reflect.Value
			switch {
			case m.Type().NumIn() == 0 && m.Type().NumOut() == 2:
				out = m.Call(nil)
			case m.Type().NumIn() == 1 && m.Type().In(0) == specT && m.Type().NumOut() == 2:
				out = m.Call([]reflect.Value{reflect.ValueOf(spec)})
			default:
				return nil, false
			}
			if callErr(out) {
				return nil, false
			}
			res := []reflect.Value{out[0]}
			r := out[0]
			if r.Kind() == reflect.Interface && !r.IsNil() {
				r = r.Elem()
			}
			if rm := r.MethodByName("Raw"); rm.IsValid() && rm.Type().NumOut() == 2 {
				var ro []reflect.Value
				if rm.Type().NumIn() == 0 {
					ro = rm.Call(nil)
				} else if rm.Type().NumIn() == 1 && rm.Type().In(0) == specT {
					ro = rm.Call([]reflect.Value{reflect.ValueOf(spec)})
				}
				if ro != nil && !callErr(ro) {
					res = append(res, ro[0])
				}
			}
			return res, true
		}
		first, ok := read(rv)
		if !ok {
			return "err"
		}
		var snaps [][]byte
		for _, v := range first {
			b, err := serAny(v)
			if err != nil {
				return "unserialisable"
			}
			snaps = append(snaps, append([]byte(nil), b...))
		}
		// another value of the same type
		other := s.d.newStruct()
		extraLen = ln
		fill(rand.New(rand.NewSource(seed)), reflect.ValueOf(other).Elem(), 2)
		extraLen = -1
		intact := func() bool {
			for i, v := range first {
				b, err := serAny(v)
				if err != nil || !bytes.Equal(b, snaps[i]) {
					return false
				}
			}
			return true
		}
		// (a read of the same value again would write the same bytes: check after each further read separately)
		if ov, err := s.d.load(other); err == nil {
			read(reflect.ValueOf(ov))
			if !intact() {
				return "ok CLOBBERED-by-read-of-another-value"
			}
		}
		read(rv)
		if !intact() {
			return "ok CLOBBERED-by-second-read"
		}
		return "ok held"
	case f[0] == "raw" && len(f) == 1:
		fs, err := s.raw()
		if err != nil {
			return "err"
		}
		return "ok " + digest(fs)
	}
	return "bad-op"
}

func exec(o hreg.Opts, sc *bufio.Scanner, w *bufio.Writer) error {
	s := &session{}
	cw := newCopyWorld()
	for sc.Scan() {
		line := sc.Text()
		f := hreg.Fields(line)
		if len(f) == 1 && f[0] == "reset" {
			s = &session{}
			cw = newCopyWorld()
			usePreset("minimal")
			fmt.Fprintln(w, "reset")
			continue
		}
		if len(f) == 0 {
			fmt.Fprintln(w, "bad-op")
			continue
		}
		res := hreg.Guard(func() string {
			if f[0] == "preset" && len(f) == 2 {
				if s.view != nil || !usePreset(f[1]) {
					return "bad-op"
				}
				return "ok"
			}
			if r, ok := cw.step(f); ok {
				return r
			}
			return s.step(f)
		})
		fmt.Fprintln(w, res)
	}
	return sc.Err()
}

// ---------------------------------------------------------------------------------------------
// copies

type handle struct {
	state *beacon.StandardUpgradeableBeaconState
	epc   *common.EpochsContext
	spec  *common.Spec
	// set for handles made by `chain`: the generated chain, the next (not yet applied) step whose pre-state
	// the handle started from, and the single-corruption mutants of that step's block
	ch   *chain.Chain
	step *chain.Step
	muts *[]chain.Mutant
	// term: how the value was made (constructor line + every mutation applied since); two handles with the same
	// term must hold the same value, whatever happened to other handles in between
	term []string
}

type copyWorld struct {
	h     map[string]*handle
	order []string
}

func newCopyWorld() *copyWorld { return &copyWorld{h: map[string]*handle{}} }

func secretKey(i int) *blsu.SecretKey {
	var b [32]byte
	binary.BigEndian.PutUint64(b[24:], uint64(i)+1)
	b[0] = 0x02
	b[1] = byte(i * 11)
	var sk blsu.SecretKey
	if err := sk.Deserialize(&b); err != nil {
		panic(err)
	}
	return &sk
}

var pubCache = map[int]common.BLSPubkey{}

func pubkey(i int) common.BLSPubkey {
	if p, ok := pubCache[i]; ok {
		return p
	}
	pk, err := blsu.SkToPk(secretKey(i))
	if err != nil {
		panic(err)
	}
	p := common.BLSPubkey(pk.Serialize())
	pubCache[i] = p
	return p
}

var sigCache *common.BLSSignature

func someSignature() common.BLSSignature {
	if sigCache == nil {
		sg := common.BLSSignature(blsu.Sign(secretKey(0), []byte("deposit placeholder message 32b!")).Serialize())
		sigCache = &sg
	}
	return *sigCache
}

var forkIdx = map[string]int{"phase0": 0, "altair": 1, "bellatrix": 2, "capella": 3, "deneb": 4}

// liveState: a kick-started minimal chain advanced into the requested fork (one fork per epoch from epoch 1).
func liveState(fork string, seed int64) (*handle, error) {
	k, ok := forkIdx[fork]
	if !ok {
		return nil, fmt.Errorf("unsupported fork")
	}
	sp := *configs.Minimal
	far := common.FAR_FUTURE_EPOCH
	eps := []*common.Epoch{&sp.ALTAIR_FORK_EPOCH, &sp.BELLATRIX_FORK_EPOCH, &sp.CAPELLA_FORK_EPOCH, &sp.DENEB_FORK_EPOCH}
	for i, e := range eps {
		if i < k {
			*e = common.Epoch(i + 1)
		} else {
			*e = far
		}
	}
	sp.ELECTRA_FORK_EPOCH, sp.FULU_FORK_EPOCH = far, far
	n := 16 + int(seed%8)
	vals := make([]phase0.KickstartValidatorData, n)
	for i := range vals {
		var wc common.Root
		wc[31] = byte(i)
		bal := sp.MAX_EFFECTIVE_BALANCE
		if i%5 == 4 && seed%2 == 1 { // some validators below the activation balance
			bal -= 1000000000
		}
		vals[i] = phase0.KickstartValidatorData{Pubkey: pubkey(i), WithdrawalCredentials: wc, Balance: bal}
	}
	st, epc, err := phase0.KickStartState(&sp, common.Root{byte(seed)}, 1600000000, vals)
	if err != nil {
		return nil, err
	}
	h := &handle{state: &beacon.StandardUpgradeableBeaconState{BeaconState: st}, epc: epc, spec: &sp}
	target := common.Slot(uint64(k)*uint64(sp.SLOTS_PER_EPOCH) + 1 + uint64(seed%5))
	if err := common.ProcessSlots(context.Background(), &sp, epc, h.state, target); err != nil {
		return nil, err
	}
	return h, nil
}

type obs struct {
	bytes, root, ctx string
}

func observe(h *handle) obs {
	var buf bytes.Buffer
	if err := h.state.BeaconState.Serialize(codec.NewEncodingWriter(&buf)); err != nil {
		return obs{"ser-err", "", ""}
	}
	bh := sha256.Sum256(buf.Bytes())
	root := h.state.BeaconState.HashTreeRoot(tree.GetHashFn())
	return obs{hex.EncodeToString(bh[:8]), hex.EncodeToString(root[:8]), ctxDump(h)}
}

// ctxDump: everything a user can read from an epochs context, in a canonical text form, hashed.
func ctxDump(h *handle) string {
	e := h.epc
	var sb strings.Builder
	sh := func(name string, s *common.ShufflingEpoch) {
		if s == nil {
			fmt.Fprintf(&sb, "%s:nil;", name)
			return
		}
		fmt.Fprintf(&sb, "%s:%d:%v:%v:%v;", name, s.Epoch, s.ActiveIndices, s.Shuffling, s.Committees)
	}
	sh("prev", e.PreviousEpoch)
	sh("cur", e.CurrentEpoch)
	sh("next", e.NextEpoch)
	if e.Proposers != nil {
		fmt.Fprintf(&sb, "prop:%d:%v:%d;", e.Proposers.Epoch, e.Proposers.Proposers, e.Proposers.CommitteesPerSlot)
	}
	fmt.Fprintf(&sb, "eff:%v;stake:%d:%d;", e.EffectiveBalances, e.TotalActiveStake, e.TotalActiveStakeSqRoot)
	for _, c := range []*common.IndexedSyncCommittee{e.CurrentSyncCommittee, e.NextSyncCommittee} {
		if c == nil {
			sb.WriteString("sc:nil;")
		} else {
			fmt.Fprintf(&sb, "sc:%v;", c.Indices)
		}
	}
	// the pubkey cache as seen for this state's own validators
	vals, err := h.state.BeaconState.Validators()
	if err == nil {
		n, _ := vals.ValidatorCount()
		for i := uint64(0); i < n; i++ {
			p, ok := e.ValidatorPubkeyCache.Pubkey(common.ValidatorIndex(i))
			if !ok {
				fmt.Fprintf(&sb, "pk%d:none;", i)
				continue
			}
			idx, ok2 := e.ValidatorPubkeyCache.ValidatorIndex(p.Compressed)
			fmt.Fprintf(&sb, "pk%d:%x:%d:%v;", i, p.Compressed[:4], idx, ok2)
		}
		// entries beyond this state's registry are documented as "known pubkey, not necessarily part of the
		// current state" (shared append-only cache, guarded at use): not part of the observation (see C16)
	}
	hh := sha256.Sum256([]byte(sb.String()))
	return hex.EncodeToString(hh[:8])
}

func (cw *copyWorld) others(h string) []string {
	var o []string
	for _, n := range cw.order {
		if n != h {
			o = append(o, n)
		}
	}
	sort.Strings(o)
	return o
}

func (cw *copyWorld) step(f []string) (string, bool) {
	switch f[0] {
	case "live":
		if len(f) != 4 {
			return "bad-op", true
		}
		seed, err := strconv.ParseInt(f[3], 10, 64)
		if err != nil {
			return "bad-op", true
		}
		h, err := liveState(f[2], seed)
		if err != nil {
			return "err", true
		}
		if _, ok := cw.h[f[1]]; !ok {
			cw.order = append(cw.order, f[1])
		}
		h.term = []string{strings.Join(append([]string{f[0]}, f[2:]...), " ")}
		cw.h[f[1]] = h
		return "ok", true
	case "chain":
		// chain h cfg nvals policy seed warmup: a generated valid chain (real blocks, real BLS) run for `warmup`
		// slots; the handle is a copy of the head state + context BEFORE the next block, which is kept aside
		if len(f) != 7 {
			return "bad-op", true
		}
		cfg, err := chain.ConfigByID(f[2])
		n, err2 := strconv.Atoi(f[3])
		seed, err3 := strconv.ParseInt(f[5], 10, 64)
		warm, err4 := strconv.Atoi(f[6])
		if err != nil || err2 != nil || err3 != nil || err4 != nil {
			return "bad-op", true
		}
		// the chain library could not build/extend this chain on the code under test (a defect elsewhere in the
		// transition): answered `genfail`, which the flow classifies as a broken tie, not as a failing input of C15
		c, err := chain.NewChain(cfg, n, "mixed", seed)
		if err != nil {
			return "genfail", true
		}
		c.Policy = chain.PolicyByName(f[4])
		if _, err := c.Run(warm); err != nil {
			return "genfail", true
		}
		var step *chain.Step
		for try := 0; try < 4; try++ {
			st, err := c.NextSlot(&chain.SlotOpts{Propose: true})
			if err != nil {
				return "genfail", true
			}
			if !st.Skipped {
				step = st
				break
			}
		}
		if step == nil {
			return "genfail", true
		}
		h := &handle{state: chain.WrapState(step.Pre), epc: chain.CopyEpc(step.PreEpc), spec: c.Spec, ch: c, step: step, muts: new([]chain.Mutant),
			term: []string{strings.Join(append([]string{f[0]}, f[2:]...), " ")}}
		if _, ok := cw.h[f[1]]; !ok {
			cw.order = append(cw.order, f[1])
		}
		cw.h[f[1]] = h
		return "ok", true
	case "copy":
		if len(f) != 3 {
			return "bad-op", true
		}
		a, ok := cw.h[f[1]]
		if !ok || f[1] == f[2] {
			return "bad-op", true
		}
		cs, err := a.state.BeaconState.CopyState()
		if err != nil {
			return "err", true
		}
		b := &handle{state: &beacon.StandardUpgradeableBeaconState{BeaconState: cs}, epc: a.epc.Clone(), spec: a.spec, ch: a.ch, step: a.step, muts: a.muts,
			term: append([]string(nil), a.term...)}
		if _, ok := cw.h[f[2]]; !ok {
			cw.order = append(cw.order, f[2])
		}
		cw.h[f[2]] = b
		if observe(a) == observe(b) {
			return "ok same-as=" + f[1], true
		}
		return "ok DIFFERENT-FROM=" + f[1], true
	case "fresh":
		// fresh a r: a copy of the state with a context computed from scratch (nothing shared): the reference
		// against which a copy with a cloned context is compared after both went through the same operations
		if len(f) != 3 {
			return "bad-op", true
		}
		a, ok := cw.h[f[1]]
		if !ok || f[1] == f[2] {
			return "bad-op", true
		}
		cs, err := a.state.BeaconState.CopyState()
		if err != nil {
			return "err", true
		}
		epc, err := common.NewEpochsContext(a.spec, cs)
		if err != nil {
			return "err", true
		}
		if sc, ok := cs.(common.SyncCommitteeBeaconState); ok {
			if err := epc.LoadSyncCommittees(sc); err != nil {
				return "err", true
			}
		}
		b := &handle{state: &beacon.StandardUpgradeableBeaconState{BeaconState: cs}, epc: epc, spec: a.spec, ch: a.ch, step: a.step, muts: a.muts,
			term: append([]string(nil), a.term...)}
		if _, ok := cw.h[f[2]]; !ok {
			cw.order = append(cw.order, f[2])
		}
		cw.h[f[2]] = b
		return "ok", true
	case "same":
		// same x y: two handles made the same way hold the same state (bytes and root)
		if len(f) != 3 {
			return "bad-op", true
		}
		a, ok1 := cw.h[f[1]]
		b, ok2 := cw.h[f[2]]
		if !ok1 || !ok2 {
			return "bad-op", true
		}
		if strings.Join(a.term, ";") != strings.Join(b.term, ";") {
			return "ok incomparable", true
		}
		oa, ob := observe(a), observe(b)
		if oa.bytes == ob.bytes && oa.root == ob.root {
			return "ok equal", true
		}
		return "ok DIFFERENT", true
	case "mut":
		if len(f) < 3 {
			return "bad-op", true
		}
		h, ok := cw.h[f[1]]
		if !ok {
			return "bad-op", true
		}
		before := map[string]obs{}
		for _, n := range cw.others(f[1]) {
			before[n] = observe(cw.h[n])
		}
		extra := ""
		if r := mutate(h, f[2:]); strings.HasPrefix(r, "+") {
			extra = " " + r[1:]
		} else if r == "bad-op" {
			return r, true
		}
		h.term = append(h.term, strings.Join(f[2:], " "))
		// a mutation the real code refuses (full list, index out of range, …) may have been applied partly:
		// either way the other handles must be what they were
		var same []string
		for _, n := range cw.others(f[1]) {
			if observe(cw.h[n]) == before[n] {
				same = append(same, n)
			}
		}
		return "ok unchanged=" + strings.Join(same, ",") + extra, true
	}
	return "", false
}

// mutate applies one mutation; "" = done, otherwise the canonical failure answer.
func mutate(h *handle, a []string) string {
	st := h.state.BeaconState
	u := func(s string) uint64 { v, _ := strconv.ParseUint(s, 10, 64); return v }
	switch {
	case (a[0] == "block" && len(a) == 1) || ((a[0] == "mutant" || a[0] == "mutantvalid") && len(a) == 2):
		// a full state transition (slots + block, signatures and state root validated) with the chain's next
		// block, or with a single-corruption mutant of it (valid boundary mutant / arbitrary mutant). Whether
		// the real code accepts or refuses it does not matter here: the OTHER handles must not change.
		if h.ch == nil || h.step == nil {
			return "bad-op"
		}
		blk := h.step.Block
		if a[0] != "block" {
			if len(*h.muts) == 0 {
				for _, m := range h.ch.Mutations(h.step, 2) {
					if m.Engine == nil && m.Block != nil {
						*h.muts = append(*h.muts, m)
					}
				}
			}
			var pool []chain.Mutant
			for _, m := range *h.muts {
				if a[0] == "mutant" || m.ExpectValid {
					pool = append(pool, m)
				}
			}
			if len(pool) > 0 {
				blk = pool[int(u(a[1]))%len(pool)].Block
			}
		}
		verdict := "refused"
		func() {
			defer func() { recover() }() // a panic inside the transition of a corrupt block is C03's business
			if chain.Transition(context.Background(), h.spec, h.epc, h.state, h.step.EnvelopeOf(blk), true, !h.ch.FollowCodeSyncCommittee) == nil {
				verdict = "applied"
			}
		}()
		if a[0] != "mutant" {
			return "+" + verdict
		}
	case a[0] == "slots" && len(a) == 2:
		cur, err := st.Slot()
		if err != nil {
			return "err"
		}
		if err := common.ProcessSlots(context.Background(), h.spec, h.epc, h.state, cur+common.Slot(u(a[1]))); err != nil {
			return "err"
		}
	case a[0] == "slot" && len(a) == 2:
		if err := st.SetSlot(common.Slot(u(a[1]))); err != nil {
			return "err"
		}
	case a[0] == "balance" && len(a) == 3:
		b, err := st.Balances()
		if err != nil || b.SetBalance(common.ValidatorIndex(u(a[1])), common.Gwei(u(a[2]))) != nil {
			return "err"
		}
	case a[0] == "exit" && len(a) == 3:
		vals, err := st.Validators()
		if err != nil {
			return "err"
		}
		v, err := vals.Validator(common.ValidatorIndex(u(a[1])))
		if err != nil || v.SetExitEpoch(common.Epoch(u(a[2]))) != nil {
			return "err"
		}
	case a[0] == "root" && len(a) == 3:
		br, err := st.BlockRoots()
		var r common.Root
		r[0], r[31] = byte(u(a[2])), 0xee
		if err != nil || br.SetRoot(common.Slot(u(a[1])), r) != nil {
			return "err"
		}
	case a[0] == "mix" && len(a) == 3:
		mx, err := st.RandaoMixes()
		var r common.Root
		r[0], r[31] = byte(u(a[2])), 0xdd
		if err != nil || mx.SetRandomMix(common.Epoch(u(a[1])), r) != nil {
			return "err"
		}
	case a[0] == "checkpoint" && len(a) == 2:
		var r common.Root
		r[3] = byte(u(a[1]))
		if st.SetFinalizedCheckpoint(common.Checkpoint{Epoch: common.Epoch(u(a[1])), Root: r}) != nil {
			return "err"
		}
	case a[0] == "header" && len(a) == 2:
		hd, err := st.LatestBlockHeader()
		if err != nil {
			return "err"
		}
		hd.StateRoot[5] ^= byte(1 + u(a[1]))
		if st.SetLatestBlockHeader(hd) != nil {
			return "err"
		}
	case a[0] == "addval" && len(a) == 2:
		// a new validator extends the registry, the balances (and the altair lists) and the pubkey cache
		i := 1000 + int(u(a[1]))
		var wc common.Root
		wc[30] = 0x77
		vals, err := st.Validators()
		if err != nil {
			return "err"
		}
		n, _ := vals.ValidatorCount()
		if err := st.AddValidator(h.spec, pubkey(i), wc, h.spec.MAX_EFFECTIVE_BALANCE); err != nil {
			return "err"
		}
		pc, err := h.epc.ValidatorPubkeyCache.AddValidator(common.ValidatorIndex(n), pubkey(i))
		if err != nil {
			return "err"
		}
		h.epc.ValidatorPubkeyCache = pc
	case a[0] == "dep" && len(a) == 3:
		// the real deposit processing (proof and signature checks off): a new validator for an unknown key, a
		// top-up for a key the (shared, possibly forked) pubkey cache knows at an index inside this registry
		dep := &common.Deposit{Data: common.DepositData{Pubkey: pubkey(5000 + int(u(a[1]))), WithdrawalCredentials: common.Root{0xaa, byte(u(a[1]))}, Amount: common.Gwei(u(a[2])),
			Signature: someSignature()}} // must deserialise (its validity is not checked with the flag below)
		if err := phase0.ProcessDeposit(h.spec, h.epc, st, dep, true); err != nil {
			return "err"
		}
	case a[0] == "eth1vote" && len(a) == 2:
		votes, err := st.Eth1DataVotes()
		if err != nil {
			return "err"
		}
		var d common.Eth1Data
		d.DepositCount = common.DepositIndex(u(a[1]))
		if votes.Append(d) != nil {
			return "err"
		}
	case a[0] == "histroot" && len(a) == 2:
		hr, err := st.HistoricalRoots()
		if err != nil {
			return "err"
		}
		var r common.Root
		r[1] = byte(u(a[1]))
		if hr.Append(r) != nil {
			return "err"
		}
	default:
		return "bad-op"
	}
	return ""
}

// genSiblings: copies of a generated chain's head, each sibling taking a different continuation: the chain's
// own next block, a different still-valid block, a corrupted block (refused somewhere in the middle of
// processing), empty slots across the next epoch / fork boundary, setters and appends.
func genSiblings(o hreg.Opts, rng *rand.Rand, w *bufio.Writer) {
	st := o.Stats
	n := o.Pick(12, 150)
	cfgs := []string{"fast@1,2,3,4", "minimal@1,1,2,3", "fast@0,0,1,2", "fast@1,1,1,1", "minimal@2,3,3,4", "fast@0,0,0,0"}
	pols := []string{"deposits", "eventful", "default", "deposits"}
	for i := 0; i < n; i++ {
		cfg := cfgs[i%len(cfgs)]
		if i >= len(cfgs) && rng.Intn(3) == 0 {
			cfg = fmt.Sprintf("rand:%d", rng.Intn(1000))
		}
		pol := pols[rng.Intn(len(pols))]
		// half of the time the kept-aside block is the first block of an epoch (fork upgrades happen there)
		warm := rng.Intn(40)
		if rng.Intn(2) == 0 {
			warm = 8*(1+rng.Intn(4)) - 1
		}
		st.Add("sibling-config", strings.SplitN(cfg, ":", 2)[0])
		if (warm+1)%8 == 0 {
			st.Add("sibling-block-at", "epoch-start")
		} else {
			st.Add("sibling-block-at", "mid-epoch")
		}
		st.Add("sibling-policy", pol)
		fmt.Fprintln(w, "reset")
		fmt.Fprintf(w, "chain a %s %d %s %d %d\n", cfg, 32+8*rng.Intn(3), pol, rng.Intn(10000), warm)
		fmt.Fprintln(w, "copy a b")
		fmt.Fprintln(w, "copy a c")
		fmt.Fprintln(w, "copy b d")
		names := []string{"a", "b", "c", "d"}
		did := map[string]bool{}
		// first every sibling takes its own continuation from the common value, in random order: the chain's
		// block, a different valid block, a corrupted block, empty slots (sometimes one sibling is touched first)
		conts := []string{"block", "mutantvalid", "mutant", "slots"}
		if rng.Intn(3) == 0 {
			conts[rng.Intn(4)] = []string{"block", "mutantvalid", "balance", "addval"}[rng.Intn(4)]
		}
		for _, i := range rng.Perm(4) {
			h := names[i]
			st.Add("sibling-op", conts[i])
			switch conts[i] {
			case "block":
				did[h] = true
				fmt.Fprintf(w, "mut %s block\n", h)
			case "mutant", "mutantvalid":
				did[h] = true
				fmt.Fprintf(w, "mut %s %s %d\n", h, conts[i], rng.Intn(1000))
			case "slots":
				fmt.Fprintf(w, "mut %s slots %d\n", h, []int{1, 8, 9, 17}[rng.Intn(4)])
			case "balance":
				fmt.Fprintf(w, "mut %s balance %d %d\n", h, rng.Intn(32), balVal(rng))
			case "addval":
				fmt.Fprintf(w, "mut %s addval 99\n", h)
			}
		}
		ops := 4 + rng.Intn(8)
		for k := 0; k < ops; k++ {
			h := names[rng.Intn(4)]
			kind := []string{"block", "mutantvalid", "mutant", "mutant", "slots", "addval", "balance", "exit", "eth1vote", "block"}[rng.Intn(10)]
			if (kind == "block" || kind == "mutant" || kind == "mutantvalid") && did[h] {
				kind = "slots" // the kept-aside block only fits the state it was built for
			}
			st.Add("sibling-op", kind)
			switch kind {
			case "block":
				did[h] = true
				fmt.Fprintf(w, "mut %s block\n", h)
			case "mutant", "mutantvalid":
				did[h] = true
				fmt.Fprintf(w, "mut %s %s %d\n", h, kind, rng.Intn(1000))
			case "slots":
				fmt.Fprintf(w, "mut %s slots %d\n", h, []int{1, 3, 8, 9, 17}[rng.Intn(5)])
			case "addval":
				fmt.Fprintf(w, "mut %s addval %d\n", h, k)
			case "balance":
				fmt.Fprintf(w, "mut %s balance %d %d\n", h, rng.Intn(32), balVal(rng))
			case "exit":
				fmt.Fprintf(w, "mut %s exit %d %d\n", h, rng.Intn(32), 50+rng.Intn(100))
			case "eth1vote":
				fmt.Fprintf(w, "mut %s eth1vote %d\n", h, rng.Intn(1000))
			}
		}
	}
}

// balVal: balances that move the effective balance at the next epoch boundary (below / around / above 32 ETH)
func balVal(rng *rand.Rand) uint64 {
	switch rng.Intn(4) {
	case 0:
		return uint64(rng.Intn(16)) * 1000000000
	case 1:
		return 16000000000 + uint64(rng.Int63n(17000000000))
	case 2:
		return 31000000000 + uint64(rng.Int63n(2000000000))
	}
	return rng.Uint64() >> 10
}

// genDeposits: a state copy with a cloned context and the original take CONFLICTING deposit histories (the
// original registers key A at index n, the copy key B at index n, then the copy deposits A …); the copy must
// end up exactly like a reference copy with a context computed from scratch that saw the same deposits while
// nobody else did anything.
func genDeposits(o hreg.Opts, rng *rand.Rand, w *bufio.Writer) {
	st := o.Stats
	n := o.Pick(10, 150)
	forks := []string{"phase0", "altair", "bellatrix", "capella", "deneb"}
	amounts := []uint64{32000000000, 17000000000, 1000000000, 31000000000, 40000000000}
	for i := 0; i < n; i++ {
		fmt.Fprintln(w, "reset")
		if i%3 == 2 {
			fmt.Fprintf(w, "chain a fast@1,2,3,4 32 deposits %d %d\n", rng.Intn(1000), 3+rng.Intn(36))
			st.Add("deposit-conflict-base", "chain")
		} else {
			fmt.Fprintf(w, "live a %s %d\n", forks[i%len(forks)], rng.Int63n(1000))
			st.Add("deposit-conflict-base", "kickstart-"+forks[i%len(forks)])
		}
		fmt.Fprintln(w, "copy a b")
		fmt.Fprintln(w, "fresh a r")
		// what the original does (only to `a`): registers keys the copy will meet later, in its own order
		keys := rng.Perm(6)
		na := 1 + rng.Intn(3)
		for _, k := range keys[:na] {
			fmt.Fprintf(w, "mut a dep %d %d\n", k, amounts[rng.Intn(len(amounts))])
		}
		if rng.Intn(3) == 0 {
			fmt.Fprintf(w, "mut a slots %d\n", 1+rng.Intn(9))
		}
		// what the copy and the reference both do: first a key the original did NOT use at that index (conflict),
		// then keys the original used, top-ups of both, slots in between
		var seq []string
		other := keys[na:]
		seq = append(seq, fmt.Sprintf("dep %d %d", other[0], amounts[rng.Intn(len(amounts))]))
		for _, k := range keys[:na] {
			seq = append(seq, fmt.Sprintf("dep %d %d", k, amounts[rng.Intn(len(amounts))]))
		}
		for j := 0; j < 2+rng.Intn(4); j++ {
			switch rng.Intn(4) {
			case 0:
				seq = append(seq, fmt.Sprintf("slots %d", []int{1, 8, 9}[rng.Intn(3)]))
			default:
				seq = append(seq, fmt.Sprintf("dep %d %d", rng.Intn(8), amounts[rng.Intn(len(amounts))]))
			}
		}
		st.Add("deposit-conflict-len", strconv.Itoa(len(seq)))
		for _, op := range seq {
			// interleave: the same operation on the copy and on the reference, in either order
			if rng.Intn(2) == 0 {
				fmt.Fprintf(w, "mut b %s\nmut r %s\n", op, op)
			} else {
				fmt.Fprintf(w, "mut r %s\nmut b %s\n", op, op)
			}
			fmt.Fprintln(w, "same b r")
		}
		fmt.Fprintln(w, "same a b") // different histories: not comparable
	}
}

// genDepositPermutations: k siblings cloned from ONE (state, context) each process a random permutation of the
// SAME set of new-validator deposits, interleaved with each other (A:X, B:Y, A:Y, B:X …), followed by repeats /
// top-ups of those keys; every sibling is compared, after each of its steps, with its own reference — a copy
// made with a from-scratch context before anything happened — that applied the same sequence in isolation.
func genDepositPermutations(o hreg.Opts, rng *rand.Rand, w *bufio.Writer) {
	st := o.Stats
	n := o.Pick(12, 200)
	forks := []string{"phase0", "altair", "bellatrix", "capella", "deneb"}
	amounts := []uint64{32000000000, 17000000000, 1000000000, 31000000000, 40000000000}
	for i := 0; i < n; i++ {
		fmt.Fprintln(w, "reset")
		fmt.Fprintf(w, "live a %s %d\n", forks[i%len(forks)], rng.Int63n(1000))
		k := 2 + rng.Intn(2) // siblings (the original is one of them)
		sib := []string{"a", "b", "c"}[:k]
		for _, h := range sib[1:] {
			fmt.Fprintf(w, "copy a %s\n", h)
		}
		for _, h := range sib {
			fmt.Fprintf(w, "fresh a r%s\n", h)
		}
		nk := 2 + rng.Intn(2) // keys
		st.Add("deposit-permutation", fmt.Sprintf("%d-siblings-%d-keys", k, nk))
		// per sibling: a permutation of the keys, then repeats and top-ups
		seqs := make([][]string, k)
		for j := range seqs {
			for _, key := range rng.Perm(nk) {
				seqs[j] = append(seqs[j], fmt.Sprintf("dep %d %d", 20+key, amounts[rng.Intn(len(amounts))]))
			}
			for r := 0; r < 1+rng.Intn(3); r++ {
				seqs[j] = append(seqs[j], fmt.Sprintf("dep %d %d", 20+rng.Intn(nk), amounts[rng.Intn(len(amounts))]))
			}
			if rng.Intn(3) == 0 {
				seqs[j] = append(seqs[j], fmt.Sprintf("slots %d", []int{1, 8, 9}[rng.Intn(3)]))
				seqs[j] = append(seqs[j], fmt.Sprintf("dep %d %d", 20+rng.Intn(nk), amounts[rng.Intn(len(amounts))]))
			}
		}
		// interleave: repeatedly pick a sibling that still has steps
		pos := make([]int, k)
		for {
			var live []int
			for j := range seqs {
				if pos[j] < len(seqs[j]) {
					live = append(live, j)
				}
			}
			if len(live) == 0 {
				break
			}
			j := live[rng.Intn(len(live))]
			op := seqs[j][pos[j]]
			pos[j]++
			fmt.Fprintf(w, "mut %s %s\nmut r%s %s\nsame %s r%s\n", sib[j], op, sib[j], op, sib[j], sib[j])
		}
	}
}

// genDepositDivergent: new-validator deposits on the COMMON prefix (so that per-validator slices of the context
// have grown, possibly with spare capacity), then CopyState + Clone into siblings, then DIFFERENT new-validator
// deposits (different keys, different amounts, hence different effective balances) on each sibling, interleaved
// with slots. After every step on any handle the bytes, root and context dump (effective balances included) of
// every other handle must be what they were; each sibling is also compared with a from-scratch reference.
func genDepositDivergent(o hreg.Opts, rng *rand.Rand, w *bufio.Writer) {
	st := o.Stats
	n := o.Pick(12, 200)
	forks := []string{"phase0", "altair", "bellatrix", "capella", "deneb"}
	amounts := []uint64{32000000000, 17000000000, 1000000000, 31000000000, 40000000000, 24000000000, 9000000000}
	for i := 0; i < n; i++ {
		fmt.Fprintln(w, "reset")
		fmt.Fprintf(w, "live a %s %d\n", forks[i%len(forks)], rng.Int63n(1000))
		// make sure the context carries per-validator stake data (loaded at an epoch boundary)
		if rng.Intn(4) != 0 {
			fmt.Fprintf(w, "mut a slots %d\n", 8+rng.Intn(3))
		}
		np := 1 + rng.Intn(3) // deposits on the common prefix
		for j := 0; j < np; j++ {
			fmt.Fprintf(w, "mut a dep %d %d\n", 40+j, amounts[rng.Intn(len(amounts))])
		}
		k := 2 + rng.Intn(2)
		sib := []string{"a", "b", "c"}[:k]
		for _, h := range sib[1:] {
			fmt.Fprintf(w, "copy a %s\n", h)
		}
		for _, h := range sib {
			fmt.Fprintf(w, "fresh a r%s\n", h)
		}
		st.Add("deposit-divergent", fmt.Sprintf("%d-prefix-%d-siblings", np, k))
		steps := 3 + rng.Intn(6)
		key := 50
		for j := 0; j < steps; j++ {
			x := rng.Intn(k)
			var op string
			switch rng.Intn(6) {
			case 0:
				op = fmt.Sprintf("slots %d", []int{1, 8, 9}[rng.Intn(3)])
			case 1: // top-up of a prefix validator
				op = fmt.Sprintf("dep %d %d", 40+rng.Intn(np), amounts[rng.Intn(len(amounts))])
			default: // a NEW validator only this sibling gets, with its own amount
				op = fmt.Sprintf("dep %d %d", key, amounts[(j+x+rng.Intn(3))%len(amounts)])
				key++
			}
			fmt.Fprintf(w, "mut %s %s\nmut r%s %s\nsame %s r%s\n", sib[x], op, sib[x], op, sib[x], sib[x])
		}
	}
}

func genCopies(o hreg.Opts, rng *rand.Rand, w *bufio.Writer) {
	genSiblings(o, rng, w)
	genDeposits(o, rng, w)
	genDepositPermutations(o, rng, w)
	genDepositDivergent(o, rng, w)
	st := o.Stats
	n := o.Pick(25, 500)
	forks := []string{"phase0", "altair", "bellatrix", "capella", "deneb"}
	for i := 0; i < n; i++ {
		fmt.Fprintln(w, "reset")
		fork := forks[i%len(forks)]
		st.Add("copy-fork", fork)
		fmt.Fprintf(w, "live a %s %d\n", fork, rng.Int63n(1000))
		names := []string{"a"}
		next := 'b'
		ops := 6 + rng.Intn(10)
		for k := 0; k < ops; k++ {
			if (k == 0 || rng.Intn(4) == 0) && len(names) < 4 {
				src := names[rng.Intn(len(names))]
				dst := string(next)
				next++
				names = append(names, dst)
				fmt.Fprintf(w, "copy %s %s\n", src, dst)
				st.Add("copy-op", "copy")
				continue
			}
			h := names[rng.Intn(len(names))]
			kind := []string{"slots", "slots", "balance", "exit", "root", "mix", "checkpoint", "header", "addval", "eth1vote", "histroot", "slot"}[rng.Intn(12)]
			st.Add("copy-op", kind)
			switch kind {
			case "slots":
				fmt.Fprintf(w, "mut %s slots %d\n", h, []int{1, 2, 7, 8, 9, 17}[rng.Intn(6)])
			case "slot":
				fmt.Fprintf(w, "mut %s slot %d\n", h, rng.Intn(1000))
			case "balance":
				fmt.Fprintf(w, "mut %s balance %d %d\n", h, rng.Intn(16), balVal(rng))
			case "exit":
				fmt.Fprintf(w, "mut %s exit %d %d\n", h, rng.Intn(16), 50+rng.Intn(100))
			case "root":
				fmt.Fprintf(w, "mut %s root %d %d\n", h, rng.Intn(200), rng.Intn(255))
			case "mix":
				fmt.Fprintf(w, "mut %s mix %d %d\n", h, rng.Intn(200), rng.Intn(255))
			case "checkpoint":
				fmt.Fprintf(w, "mut %s checkpoint %d\n", h, 1+rng.Intn(200))
			case "header":
				fmt.Fprintf(w, "mut %s header %d\n", h, rng.Intn(200))
			case "addval":
				fmt.Fprintf(w, "mut %s addval %d\n", h, k)
			case "eth1vote":
				fmt.Fprintf(w, "mut %s eth1vote %d\n", h, rng.Intn(1000))
			case "histroot":
				fmt.Fprintf(w, "mut %s histroot %d\n", h, rng.Intn(255))
			}
		}
	}
}
