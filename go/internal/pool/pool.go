// Package pool drives the five operation pools of eth2/pool and phase0.AttestationBits (property C20).
//
// Operation lines (mode c20, stateful; `reset` creates five fresh pools with the New...Pool constructors):
//
//	spec <SYNC_COMMITTEE_SIZE> <MAX_VALIDATORS_PER_COMMITTEE> <SLOTS_PER_EPOCH> <MAX_ATTESTATIONS> <MAX_ATTESTER_SLASHINGS>
//	     <MAX_PROPOSER_SLASHINGS> <MAX_VOLUNTARY_EXITS> <MAX_BLS_TO_EXECUTION_CHANGES>
//	                                                              recreate the five pools with a copy of the minimal preset carrying
//	                                                              these constants -> ok (bad-op when SYNC_COMMITTEE_SIZE > 4096 or
//	                                                              MAX_VALIDATORS_PER_COMMITTEE is not in 1..1048576). What the pools
//	                                                              do must not depend on the preset: the model ignores the values.
//	att <slot> <index> <target> <tag> <bits> <sig> <committee>   AddAttestation        -> ok | err | panic
//	search <slot|*> <index|*>                                     Search(WithSlot, WithCommittee) -> ok <n> item;item..  (sorted)
//	prune <epoch>                                                 Prune                 -> ok
//	aslash <a> <b> / aslashes                                     AttesterSlashingPool  -> ok | err / ok <n> a.b;...
//	pslash <proposer> <id> / pslashes                             ProposerSlashingPool  -> ok | err / ok <n> proposer.id;...
//	exit <validator> <epoch> / exits                              VoluntaryExitPool     -> ok | err / ok <n> validator.epoch;...
//	smsg <slot> <validator> <root>                                AddSyncCommitteeMessage      -> ok | err | panic
//	scontrib <slot> <root> <subnet> <bits> <sig>                  AddSyncCommitteeContribution -> ok | err | panic
//	sreset <slot>                                                 SyncCommitteePool.Reset      -> ok
//	sdump                                                         contents of the six SyncCommitteePool buffers (through the
//	                                                              read-only `verif` hook eth2/pool/verif_export.go; the exported API
//	                                                              cannot read them) -> ok cur=<slot> m=[prev|cur|next] c=[prev|cur|next] keys=<bool>
//	select <root> <members> <v:root,...>                          SyncCommitteeMessages.Select -> ok <validators in member order>
//	covers <a> <b> | single <bits> <committee> | ones <bits> | bitlen <bits> | getbit <bits> <i>   AttestationBits functions
//
// <bits> is the raw SSZ bitlist (hex, `-` = empty); <committee>/<members> are comma lists (`-` = empty);
// <tag> stands for the beacon block root of the attestation data, <sig> for the signature (the pools do
// not verify signatures; a 96-byte value with a recognisable pattern is stored and checked on the way out).
// An attestation item is rendered `slot.index.target.tag:bits:sig`.
package pool

import (
	"bufio"
	"context"
	"encoding/hex"
	"fmt"
	"math/rand"
	"sort"
	"strconv"
	"strings"

	"github.com/protolambda/zrnt/eth2/beacon/altair"
	"github.com/protolambda/zrnt/eth2/beacon/common"
	"github.com/protolambda/zrnt/eth2/beacon/phase0"
	"github.com/protolambda/zrnt/eth2/configs"
	zpool "github.com/protolambda/zrnt/eth2/pool"
	"github.com/protolambda/ztyp/view"

	"verifharness/internal/hreg"
)

func init() { hreg.Register(&hreg.Mode{Name: "c20", Gen: gen, Exec: exec}) }

const maxU = ^uint64(0)

type world struct {
	att   *zpool.AttestationPool
	asl   *zpool.AttesterSlashingPool
	psl   *zpool.ProposerSlashingPool
	exits *zpool.VoluntaryExitPool
	sync  *zpool.SyncCommitteePool
}

func newWorld() *world { return newWorldWith(configs.Minimal) }

// customSpec is the minimal preset with the constants the pool package (or the types it stores) can read replaced.
func customSpec(n []uint64) *common.Spec {
	s := *configs.Minimal
	s.SYNC_COMMITTEE_SIZE = view.Uint64View(n[0])
	s.MAX_VALIDATORS_PER_COMMITTEE = view.Uint64View(n[1])
	s.SLOTS_PER_EPOCH = common.Slot(n[2])
	s.MAX_ATTESTATIONS = view.Uint64View(n[3])
	s.MAX_ATTESTER_SLASHINGS = view.Uint64View(n[4])
	s.MAX_PROPOSER_SLASHINGS = view.Uint64View(n[5])
	s.MAX_VOLUNTARY_EXITS = view.Uint64View(n[6])
	s.MAX_BLS_TO_EXECUTION_CHANGES = view.Uint64View(n[7])
	return &s
}

func newWorldWith(spec *common.Spec) *world {
	return &world{
		att:   zpool.NewAttestationPool(spec),
		asl:   zpool.NewAttesterSlashingPool(spec),
		psl:   zpool.NewProposerSlashingPool(spec),
		exits: zpool.NewVoluntaryExitPool(spec),
		sync:  zpool.NewSyncCommitteePool(spec),
	}
}

func num(s string) (uint64, bool) {
	v, err := strconv.ParseUint(s, 10, 64)
	return v, err == nil
}

func nums(f []string) ([]uint64, bool) {
	out := make([]uint64, len(f))
	for i, s := range f {
		v, ok := num(s)
		if !ok {
			return nil, false
		}
		out[i] = v
	}
	return out, true
}

func list(s string) ([]uint64, bool) {
	if s == "-" {
		return []uint64{}, true
	}
	return nums(strings.Split(s, ","))
}

func bitsOf(s string) ([]byte, bool) {
	if s == "-" {
		return []byte{}, true
	}
	b, err := hex.DecodeString(s)
	if err != nil || strings.ToLower(s) != s {
		return nil, false
	}
	return b, true
}

func hexOf(b []byte) string {
	if len(b) == 0 {
		return "-"
	}
	return hex.EncodeToString(b)
}

func rootOf(tag uint64) (r common.Root) {
	r[0] = byte(tag)
	r[1] = byte(tag >> 8)
	r[31] = 0xaa
	return
}

func tagOf(r common.Root) string {
	t := uint64(r[0]) | uint64(r[1])<<8
	if r != rootOf(t) {
		return "corrupt"
	}
	return strconv.FormatUint(t, 10)
}

func sigOf(id uint64) (s common.BLSSignature) {
	for i := range s {
		s[i] = byte(id) ^ byte(i*7)
	}
	s[1] = byte(id >> 8)
	return
}

func sigID(s common.BLSSignature) string {
	id := uint64(s[0]) | uint64(s[1])<<8
	if s != sigOf(id) {
		return "corrupt"
	}
	return strconv.FormatUint(id, 10)
}

func attData(slot, index, target, tag uint64) phase0.AttestationData {
	return phase0.AttestationData{
		Slot:            common.Slot(slot),
		Index:           common.CommitteeIndex(index),
		BeaconBlockRoot: rootOf(tag),
		Source:          common.Checkpoint{Epoch: 0, Root: rootOf(7)},
		Target:          common.Checkpoint{Epoch: common.Epoch(target), Root: rootOf(9)},
	}
}

func dataStr(d *phase0.AttestationData) string {
	if d.Source != (common.Checkpoint{Epoch: 0, Root: rootOf(7)}) || d.Target.Root != rootOf(9) {
		return "corrupt"
	}
	return fmt.Sprintf("%d.%d.%d.%s", uint64(d.Slot), uint64(d.Index), uint64(d.Target.Epoch), tagOf(d.BeaconBlockRoot))
}

func errStr(err error) string {
	if err != nil {
		return "err"
	}
	return "ok"
}

func joined(items []string) string {
	sort.Strings(items)
	if len(items) == 0 {
		return "ok 0"
	}
	return "ok " + strconv.Itoa(len(items)) + " " + strings.Join(items, ";")
}

func valIdx(l []uint64) []common.ValidatorIndex {
	out := make([]common.ValidatorIndex, len(l))
	for i, v := range l {
		out[i] = common.ValidatorIndex(v)
	}
	return out
}

func (w *world) step(f []string) string {
	ctx := context.Background()
	switch f[0] {
	case "att":
		if len(f) != 8 {
			return "bad-op"
		}
		n, ok := nums(f[1:5])
		bits, ok2 := bitsOf(f[5])
		sig, ok3 := num(f[6])
		comm, ok4 := list(f[7])
		if !(ok && ok2 && ok3 && ok4) || sig >= 65536 || n[3] >= 65536 {
			return "bad-op"
		}
		att := &phase0.Attestation{AggregationBits: phase0.AttestationBits(bits), Data: attData(n[0], n[1], n[2], n[3]), Signature: sigOf(sig)}
		return errStr(w.att.AddAttestation(ctx, att, common.CommitteeIndices(valIdx(comm))))
	case "search":
		if len(f) != 3 {
			return "bad-op"
		}
		var opts []zpool.AttSearchOption
		if f[1] != "*" {
			s, ok := num(f[1])
			if !ok {
				return "bad-op"
			}
			opts = append(opts, zpool.WithSlot(common.Slot(s)))
		}
		if f[2] != "*" {
			c, ok := num(f[2])
			if !ok {
				return "bad-op"
			}
			opts = append(opts, zpool.WithCommittee(common.CommitteeIndex(c)))
		}
		res := w.att.Search(opts...)
		items := make([]string, 0, len(res))
		for _, a := range res {
			if a == nil {
				items = append(items, "nil")
				continue
			}
			items = append(items, dataStr(&a.Data)+":"+hexOf(a.AggregationBits)+":"+sigID(a.Signature))
		}
		return joined(items)
	case "prune":
		if len(f) != 2 {
			return "bad-op"
		}
		e, ok := num(f[1])
		if !ok {
			return "bad-op"
		}
		w.att.Prune(common.Epoch(e))
		return "ok"
	case "aslash":
		if len(f) != 3 {
			return "bad-op"
		}
		n, ok := nums(f[1:3])
		if !ok {
			return "bad-op"
		}
		sl := &phase0.AttesterSlashing{
			Attestation1: phase0.IndexedAttestation{AttestingIndices: common.CommitteeIndices{common.ValidatorIndex(n[0])}, Data: attData(n[1], 0, 1, 1), Signature: sigOf(1)},
			Attestation2: phase0.IndexedAttestation{AttestingIndices: common.CommitteeIndices{common.ValidatorIndex(n[0])}, Data: attData(n[1], 0, 1, 2), Signature: sigOf(2)},
		}
		return errStr(w.asl.AddAttesterSlashing(ctx, sl))
	case "aslashes":
		if len(f) != 1 {
			return "bad-op"
		}
		var items []string
		for _, s := range w.asl.All() {
			ok := s != nil && len(s.Attestation1.AttestingIndices) == 1 && len(s.Attestation2.AttestingIndices) == 1 &&
				s.Attestation1.AttestingIndices[0] == s.Attestation2.AttestingIndices[0] &&
				s.Attestation1.Data == attData(uint64(s.Attestation1.Data.Slot), 0, 1, 1) &&
				s.Attestation2.Data == attData(uint64(s.Attestation1.Data.Slot), 0, 1, 2) &&
				s.Attestation1.Signature == sigOf(1) && s.Attestation2.Signature == sigOf(2)
			if !ok {
				items = append(items, "corrupt")
				continue
			}
			items = append(items, fmt.Sprintf("%d.%d", uint64(s.Attestation1.AttestingIndices[0]), uint64(s.Attestation1.Data.Slot)))
		}
		return joined(items)
	case "pslash":
		if len(f) != 3 {
			return "bad-op"
		}
		n, ok := nums(f[1:3])
		if !ok {
			return "bad-op"
		}
		sl := &phase0.ProposerSlashing{
			SignedHeader1: common.SignedBeaconBlockHeader{Message: common.BeaconBlockHeader{Slot: common.Slot(n[1]), ProposerIndex: common.ValidatorIndex(n[0]), BodyRoot: rootOf(1)}, Signature: sigOf(1)},
			SignedHeader2: common.SignedBeaconBlockHeader{Message: common.BeaconBlockHeader{Slot: common.Slot(n[1]), ProposerIndex: common.ValidatorIndex(n[0]), BodyRoot: rootOf(2)}, Signature: sigOf(2)},
		}
		return errStr(w.psl.AddProposerSlashing(ctx, sl))
	case "pslashes":
		if len(f) != 1 {
			return "bad-op"
		}
		var items []string
		for _, s := range w.psl.All() {
			if s == nil {
				items = append(items, "nil")
				continue
			}
			h1, h2 := s.SignedHeader1, s.SignedHeader2
			want1 := common.SignedBeaconBlockHeader{Message: common.BeaconBlockHeader{Slot: h1.Message.Slot, ProposerIndex: h1.Message.ProposerIndex, BodyRoot: rootOf(1)}, Signature: sigOf(1)}
			want2 := common.SignedBeaconBlockHeader{Message: common.BeaconBlockHeader{Slot: h1.Message.Slot, ProposerIndex: h1.Message.ProposerIndex, BodyRoot: rootOf(2)}, Signature: sigOf(2)}
			if h1 != want1 || h2 != want2 {
				items = append(items, "corrupt")
				continue
			}
			items = append(items, fmt.Sprintf("%d.%d", uint64(h1.Message.ProposerIndex), uint64(h1.Message.Slot)))
		}
		return joined(items)
	case "exit":
		if len(f) != 3 {
			return "bad-op"
		}
		n, ok := nums(f[1:3])
		if !ok {
			return "bad-op"
		}
		e := &phase0.SignedVoluntaryExit{Message: phase0.VoluntaryExit{Epoch: common.Epoch(n[1]), ValidatorIndex: common.ValidatorIndex(n[0])}, Signature: sigOf(n[1] % 65536)}
		return errStr(w.exits.AddVoluntaryExit(ctx, e))
	case "exits":
		if len(f) != 1 {
			return "bad-op"
		}
		var items []string
		for _, e := range w.exits.All() {
			if e == nil || e.Signature != sigOf(uint64(e.Message.Epoch)%65536) {
				items = append(items, "corrupt")
				continue
			}
			items = append(items, fmt.Sprintf("%d.%d", uint64(e.Message.ValidatorIndex), uint64(e.Message.Epoch)))
		}
		return joined(items)
	case "smsg":
		if len(f) != 4 {
			return "bad-op"
		}
		n, ok := nums(f[1:4])
		if !ok {
			return "bad-op"
		}
		msg := &altair.SyncCommitteeMessage{Slot: common.Slot(n[0]), BeaconBlockRoot: rootOf(n[2] % 65536), ValidatorIndex: common.ValidatorIndex(n[1]), Signature: sigOf(3)}
		return errStr(w.sync.AddSyncCommitteeMessage(ctx, msg))
	case "scontrib":
		if len(f) != 6 {
			return "bad-op"
		}
		n, ok := nums(f[1:4])
		bits, ok2 := bitsOf(f[4])
		sig, ok3 := num(f[5])
		if !(ok && ok2 && ok3) {
			return "bad-op"
		}
		c := &altair.SyncCommitteeContribution{Slot: common.Slot(n[0]), BeaconBlockRoot: rootOf(n[1] % 65536), SubcommitteeIndex: view.Uint64View(n[2]),
			AggregationBits: altair.SyncCommitteeSubnetBits(bits), Signature: sigOf(sig % 65536)}
		return errStr(w.sync.AddSyncCommitteeContribution(ctx, c))
	case "sreset":
		if len(f) != 2 {
			return "bad-op"
		}
		s, ok := num(f[1])
		if !ok {
			return "bad-op"
		}
		w.sync.Reset(common.Slot(s))
		return "ok"
	case "sdump":
		if len(f) != 1 {
			return "bad-op"
		}
		snap := w.sync.VerifSnapshot()
		buf := func(alloc bool, items []string) string {
			if !alloc {
				return "-"
			}
			sort.Strings(items)
			return "{" + strings.Join(items, ",") + "}"
		}
		var ms, cs [3]string
		for i := 0; i < 3; i++ {
			var items []string
			for _, m := range snap.Msgs[i] {
				if m.Signature != sigOf(3) {
					items = append(items, "corrupt")
					continue
				}
				items = append(items, fmt.Sprintf("%d.%d.%s", uint64(m.Slot), uint64(m.ValidatorIndex), tagOf(m.BeaconBlockRoot)))
			}
			ms[i] = buf(snap.MsgsAllocated[i], items)
			items = nil
			for _, c := range snap.Contribs[i] {
				items = append(items, fmt.Sprintf("%s.%d.%s.%s", tagOf(c.BeaconBlockRoot), c.SubcommitteeIndex, hexOf(c.AggregationBits), sigID(c.Signature)))
			}
			cs[i] = buf(snap.ContribsAlloc[i], items)
		}
		return fmt.Sprintf("ok cur=%d m=[%s] c=[%s] keys=%s", uint64(snap.CurrentSlot), strings.Join(ms[:], "|"), strings.Join(cs[:], "|"), hreg.B2S(snap.MsgKeysMatching))
	case "select":
		if len(f) != 4 {
			return "bad-op"
		}
		root, ok := num(f[1])
		members, ok2 := list(f[2])
		if !(ok && ok2) {
			return "bad-op"
		}
		msgs := zpool.SyncCommitteeMessages{}
		if f[3] != "-" {
			for _, t := range strings.Split(f[3], ",") {
				p := strings.Split(t, ":")
				if len(p) != 2 {
					return "bad-op"
				}
				v, ok1 := num(p[0])
				r, ok2 := num(p[1])
				if !(ok1 && ok2) {
					return "bad-op"
				}
				msgs[common.ValidatorIndex(v)] = &altair.SyncCommitteeMessage{Slot: 1, BeaconBlockRoot: rootOf(r % 65536), ValidatorIndex: common.ValidatorIndex(v), Signature: sigOf(3)}
			}
		}
		sel := msgs.Select(rootOf(root%65536), valIdx(members))
		out := make([]string, 0, len(sel))
		for _, m := range sel {
			if m == nil {
				out = append(out, "nil")
				continue
			}
			out = append(out, strconv.FormatUint(uint64(m.ValidatorIndex), 10))
		}
		if len(out) == 0 {
			return "ok -"
		}
		return "ok " + strings.Join(out, ",")
	case "covers":
		if len(f) != 3 {
			return "bad-op"
		}
		a, ok := bitsOf(f[1])
		b, ok2 := bitsOf(f[2])
		if !(ok && ok2) {
			return "bad-op"
		}
		c, err := phase0.AttestationBits(a).Covers(phase0.AttestationBits(b))
		if err != nil {
			return "err"
		}
		return "ok " + hreg.B2S(c)
	case "single":
		if len(f) != 3 {
			return "bad-op"
		}
		a, ok := bitsOf(f[1])
		comm, ok2 := list(f[2])
		if !(ok && ok2) {
			return "bad-op"
		}
		v, err := phase0.AttestationBits(a).SingleParticipant(valIdx(comm))
		if err != nil {
			return "err"
		}
		return "ok " + strconv.FormatUint(uint64(v), 10)
	case "ones", "bitlen":
		if len(f) != 2 {
			return "bad-op"
		}
		a, ok := bitsOf(f[1])
		if !ok {
			return "bad-op"
		}
		if f[0] == "ones" {
			return "ok " + strconv.FormatUint(phase0.AttestationBits(a).OnesCount(), 10)
		}
		return "ok " + strconv.FormatUint(phase0.AttestationBits(a).BitLen(), 10)
	case "getbit":
		if len(f) != 3 {
			return "bad-op"
		}
		a, ok := bitsOf(f[1])
		i, ok2 := num(f[2])
		if !(ok && ok2) {
			return "bad-op"
		}
		return "ok " + hreg.B2S(phase0.AttestationBits(a).GetBit(i))
	}
	return "bad-op"
}

func exec(o hreg.Opts, sc *bufio.Scanner, w *bufio.Writer) error {
	wd := newWorld()
	for sc.Scan() {
		line := strings.TrimSpace(sc.Text())
		if line == "reset" {
			wd = newWorld()
			fmt.Fprintln(w, "reset")
			continue
		}
		f := hreg.Fields(line)
		if len(f) == 0 {
			fmt.Fprintln(w, "bad-op")
			continue
		}
		if f[0] == "spec" {
			n, ok := nums(f[1:])
			if len(f) != 9 || !ok || len(n) != 8 || n[0] > 4096 || n[1] < 1 || n[1] > 1048576 {
				fmt.Fprintln(w, "bad-op")
				continue
			}
			fmt.Fprintln(w, hreg.Guard(func() string { wd = newWorldWith(customSpec(n)); return "ok" }))
			continue
		}
		fmt.Fprintln(w, hreg.Guard(func() string { return wd.step(f) }))
	}
	return sc.Err()
}

// ------------------------------------------------------------------------------------------------
// generator

func encodeBits(b []bool) []byte {
	out := make([]byte, len(b)/8+1)
	for i, v := range b {
		if v {
			out[i/8] |= 1 << uint(i%8)
		}
	}
	out[len(b)/8] |= 1 << uint(len(b)%8)
	return out
}

func commaList(l []uint64) string {
	if len(l) == 0 {
		return "-"
	}
	s := make([]string, len(l))
	for i, v := range l {
		s[i] = strconv.FormatUint(v, 10)
	}
	return strings.Join(s, ",")
}

type attLine struct {
	slot, index, target, tag uint64
	bits                     []byte
	sig                      uint64
	comm                     []uint64
}

func (a attLine) String() string {
	return fmt.Sprintf("att %d %d %d %d %s %d %s", a.slot, a.index, a.target, a.tag, hexOf(a.bits), a.sig, commaList(a.comm))
}

func randBits(rng *rand.Rand, n int, mode int) []bool {
	b := make([]bool, n)
	if n == 0 {
		return b
	}
	switch mode {
	case 1: // single
		b[rng.Intn(n)] = true
	case 0: // empty
	default:
		for i := range b {
			b[i] = rng.Intn(2) == 0
		}
		if rng.Intn(3) == 0 {
			for i := range b {
				b[i] = rng.Intn(4) != 0
			}
		}
	}
	return b
}

func malformedBits(rng *rand.Rand) []byte {
	switch rng.Intn(5) {
	case 0:
		return []byte{}
	case 1:
		return []byte{byte(rng.Intn(256)), 0}
	case 2:
		return []byte{0}
	case 3:
		return []byte{byte(rng.Intn(256)), byte(rng.Intn(256)), byte(rng.Intn(4))}
	default:
		b := make([]byte, 1+rng.Intn(3))
		rng.Read(b)
		return b
	}
}

func gen(o hreg.Opts, w *bufio.Writer) error {
	rng := o.Rand()
	st := o.Stats
	emit := func(kind, s string) {
		st.Add("op", kind)
		fmt.Fprintln(w, s)
	}
	// 1. histories named in the property text and in DESIGN.md section 8
	fixed := [][]string{
		{ // first aggregate; search with only individual attestations; duplicates; double votes
			"search * *",
			"att 5 0 1 0 05 1 3,4", "search * *", "search 5 *", "search * 0", "search 6 *", "search * 1",
			"att 5 0 1 0 07 2 3,4", "search * *",
			"att 5 0 1 0 07 2 3,4", "att 5 0 1 0 06 3 3,4", "att 5 0 1 0 05 1 3,4", "search * *",
			"att 5 0 1 1 05 4 3,4", "att 5 0 1 1 07 5 3,4", "att 5 0 1 1 06 6 3,4",
			"att 6 1 1 0 0d 7 3,9,10", "att 6 1 1 0 0e 8 3,9,10", "att 6 1 1 0 0e 8 3,9,10", "att 6 1 1 0 0b 9 3,9,10", "att 6 1 1 0 0b 9 3,9,10", "search * *", "search 6 1",
			"prune 2", "search * *", "prune 3", "search * *", "att 5 0 1 0 07 2 3,4", "search * *",
		},
		{ // aggregate whose bits do not match the committee; empty; malformed
			"att 1 0 0 0 07 1 1,2,3,4,5,6,7,8,9,10", "att 1 0 0 0 ff01 1 1,2", "att 1 0 0 0 01 1 -", "att 1 0 0 0 - 1 -", "att 1 0 0 0 0700 1 1,2,3,4,5,6,7,8",
			"att 1 0 0 0 03 1 1,2", "att 1 0 0 0 03 1 1", "search * *",
		},
		{ // three aggregates: the duplicate of the second must be absorbed
			"att 2 0 0 0 13 1 1,2,3,4", "att 2 0 0 0 1c 2 1,2,3,4", "att 2 0 0 0 1c 2 1,2,3,4", "search * *", "att 2 0 0 0 1f 3 1,2,3,4", "att 2 0 0 0 16 4 1,2,3,4", "search * *",
		},
		{ // sync pool: before any Reset the pool sits one slot before slot 0
			"sdump", "smsg 0 1 1", "scontrib 0 1 0 0f 1", "sdump", "smsg 18446744073709551615 1 1", "smsg 18446744073709551614 2 1", "smsg 1 1 1", "smsg 18446744073709551613 1 1",
			"sreset 0", "smsg 0 1 1", "smsg 1 1 1", "smsg 18446744073709551615 1 1", "smsg 2 1 1", "scontrib 1 1 3 0f 1", "scontrib 2 1 3 0f 1",
			"sreset 1", "smsg 0 2 2", "smsg 2 2 2", "smsg 3 2 2", "sreset 0", "smsg 18446744073709551615 2 2", "smsg 1 1 1", "smsg 2 1 1",
			"sreset 18446744073709551615", "smsg 0 1 1", "smsg 18446744073709551614 1 1", "smsg 1 1 1", "sreset 18446744073709551615", "sreset 77", "smsg 76 1 1", "smsg 77 1 1", "smsg 78 1 1", "smsg 79 1 1", "smsg 75 1 1", "sdump",
			"scontrib 77 2 1 0f 4", "scontrib 77 2 1 03 5", "scontrib 78 2 0 01 6", "smsg 77 1 2", "sdump", "sreset 78", "sdump", "sreset 77", "sdump", "sreset 79", "sdump", "sreset 78", "sdump", "sreset 78", "sdump",
		},
		{
			"select 1 1,2,3 1:1,3:1", "select 1 1,2,3 -", "select 1 - 1:1", "select 2 3,1,1 1:2,3:2,2:1", "select 1 5 5:1", "select 5 1 1:5,1:6", "select 6 1 1:5,1:6", "select 5 1,1,2 1:5,2:5,1:5",
			"aslash 1 1", "aslash 1 1", "aslash 1 2", "aslashes", "pslash 4 1", "pslash 4 2", "pslash 5 1", "pslashes", "exit 3 9", "exit 3 10", "exit 4 9", "exits",
			"aslashes", "pslashes", "exits",
		},
		{ // presets whose sync subcommittee (SYNC_COMMITTEE_SIZE/4) is not a whole number of bytes: 12, 4, 5, 1, 9 bits
			"spec 48 2048 8 128 2 16 16 16", "scontrib 0 1 0 4108 1", "scontrib 0 1 0 0008 2", "scontrib 0 1 1 ff0f 3", "smsg 0 1 1", "sdump",
			"sreset 0", "sdump", "scontrib 1 2 3 000f 4", "sdump",
			"spec 16 7 6 1 1 1 1 1", "sdump", "scontrib 0 1 0 0d 1", "scontrib 0 1 2 08 2", "sdump",
			"spec 20 9 32 7 3 5 4 2", "scontrib 0 1 0 1f 1", "scontrib 0 1 0 10 2", "sdump",
			"spec 4 1 1 2 2 2 2 2", "scontrib 0 1 0 01 1", "sdump",
			"spec 39 8 3 4 1 9 3 7", "scontrib 0 1 0 ff01 1", "scontrib 0 1 0 0001 1", "sdump",
			"spec 0 1 8 128 2 16 16 16", "scontrib 0 1 0 - 1", "sdump",
			"spec 512 2048 32 128 2 16 16 16", "scontrib 0 1 0 000000000000000000000000000000ff 1", "sdump",
			"att 5 0 1 0 07 2 3,4", "att 5 0 1 0 03 2 3", "att 5 0 1 0 ff01 2 1,2,3,4,5,6,7,8", "att 5 1 1 0 ff03 2 1,2,3,4,5,6,7,8,9", "att 5 1 1 0 ff 2 1,2,3,4,5,6,7", "search * *",
			"aslash 1 1", "aslashes", "spec 48 2048 8 128 2 16 16 16", "search * *", "aslashes",
			"spec 4097 8 8 8 8 8 8 8", "spec 8 0 8 8 8 8 8 8", "spec 8 8 8", "spec 8 x 8 8 8 8 8 8", "spec 8 1048577 8 8 8 8 8 8",
		},
		{ // malformed lines
			"att", "att 1 2 3", "att x 0 0 0 05 1 1,2", "att 1 0 0 0 zz 1 1,2", "att 1 0 0 0 05 1 1,,2", "search", "search 1", "prune", "prune x", "frob", "covers 05", "single 05",
			"smsg 1 2", "sreset", "select 1 2", "exit 1", "pslash 1", "aslash 1", "att 1 0 0 0 0F 1 1,2", "getbit 05 x",
		},
	}
	for _, seq := range fixed {
		fmt.Fprintln(w, "reset")
		for _, l := range seq {
			emit("fixed", l)
		}
	}
	// 1b. long histories: far more than 16 / 64 items of one kind in one pool (a silent cap anywhere would show)
	longAtt := func(n, count int, pairs bool, slot uint64) {
		comm := make([]uint64, n)
		for j := range comm {
			comm[j] = uint64(j)
		}
		made := 0
		for k := 0; made < count; k++ {
			b := make([]bool, n)
			if pairs {
				if 2*k+1 >= n {
					break
				}
				b[2*k], b[2*k+1] = true, true
			} else { // one new attester per aggregate (bit 0 is shared: a single bit would be an individual attestation)
				if k+1 >= n {
					break
				}
				b[0], b[k+1] = true, true
			}
			made++
			emit("att-long", attLine{slot: slot, index: 1, target: slot / 4, tag: 0, bits: encodeBits(b), sig: uint64(1000 + k), comm: comm}.String())
			if made == 16 || made == 17 || made == 27 || made == 65 {
				emit("search", "search * *")
			}
		}
		st.Add("same-data-aggregates", strconv.Itoa(made))
		emit("search", "search * *")
		emit("search", fmt.Sprintf("search %d 1", slot))
	}
	longOthers := func(count int, slot uint64) {
		for k := 0; k < count; k++ {
			emit("exit", fmt.Sprintf("exit %d %d", k, k%3))
			emit("pslash", fmt.Sprintf("pslash %d %d", k, k%2))
			emit("aslash", fmt.Sprintf("aslash %d %d", k, k%5))
			emit("smsg", fmt.Sprintf("smsg %d %d %d", slot, k, k%3))
			emit("scontrib", fmt.Sprintf("scontrib %d %d %d %s %d", slot, k%2, k%4, hexOf([]byte{byte(k + 1)}), k))
			// individual attestations: one per validator, all for the same data
			b := make([]bool, count)
			b[k] = true
			comm := make([]uint64, count)
			for j := range comm {
				comm[j] = uint64(200 + j)
			}
			emit("att-long", attLine{slot: 9, index: 0, target: 2, tag: 1, bits: encodeBits(b), sig: uint64(k), comm: comm}.String())
		}
		st.Add("items-per-pool", strconv.Itoa(count))
		for _, l := range []string{"exits", "pslashes", "aslashes", "sdump", "search * *", "exit 0 0", "pslash 1 1", "aslash 2 2"} {
			emit("long-query", l)
		}
		// a double vote by the last of the many individual attesters is still reported
		b := make([]bool, count)
		b[count-1] = true
		comm := make([]uint64, count)
		for j := range comm {
			comm[j] = uint64(200 + j)
		}
		emit("att-long", attLine{slot: 9, index: 0, target: 2, tag: 2, bits: encodeBits(b), sig: 7, comm: comm}.String())
	}
	for _, c := range []struct {
		n, count int
		pairs    bool
	}{{24, 20, false}, {40, 33, false}, {128, 70, false}, {40, 20, true}, {128, 64, true}, {18, 17, false}} {
		fmt.Fprintln(w, "reset")
		longAtt(c.n, c.count, c.pairs, 5)
		emit("prune", "prune 3")
		emit("search", "search * *")
	}
	for _, c := range []int{20, 70} {
		fmt.Fprintln(w, "reset")
		emit("sreset", "sreset 40")
		longOthers(c, 40)
		emit("sreset", "sreset 41")
		emit("sdump", "sdump")
	}
	// 2. AttestationBits functions: exhaustive over all one-byte and a grid of two-byte bitlists
	fmt.Fprintln(w, "reset")
	for a := 0; a < 256; a++ {
		ab := []byte{byte(a)}
		emit("bits", "ones "+hexOf(ab))
		emit("bits", "bitlen "+hexOf(ab))
		emit("bits", "single "+hexOf(ab)+" "+commaList([]uint64{10, 11, 12, 13, 14, 15, 16, 17}[:bitLenOf(ab)]))
		for _, b := range []int{a, a & 0x55, a | 1, a ^ 0x10, 255 - a, rng.Intn(256), rng.Intn(256)} {
			emit("bits", "covers "+hexOf(ab)+" "+hexOf([]byte{byte(b)}))
		}
	}
	nb := o.Pick(10000, 100000)
	for i := 0; i < nb; i++ {
		var a, b []byte
		n := rng.Intn(18)
		switch rng.Intn(6) {
		case 0:
			a, b = malformedBits(rng), malformedBits(rng)
		case 1:
			a, b = encodeBits(randBits(rng, n, 2)), encodeBits(randBits(rng, rng.Intn(18), 2))
		default:
			x := randBits(rng, n, 2)
			y := make([]bool, n)
			for j := range y {
				y[j] = x[j] && rng.Intn(2) == 0
			}
			if rng.Intn(2) == 0 && n > 0 {
				y[rng.Intn(n)] = true
			}
			a, b = encodeBits(x), encodeBits(y)
		}
		emit("bits", "covers "+hexOf(a)+" "+hexOf(b))
		emit("bits", "ones "+hexOf(a))
		emit("bits", "bitlen "+hexOf(b))
		comm := make([]uint64, bitLenOf(a))
		for j := range comm {
			comm[j] = uint64(rng.Intn(64))
		}
		if rng.Intn(5) == 0 {
			comm = append(comm, 99)
		}
		if rng.Intn(3) == 0 {
			a = encodeBits(randBits(rng, n, 1))
			comm = make([]uint64, n)
			for j := range comm {
				comm[j] = uint64(rng.Intn(64))
			}
		}
		emit("bits", "single "+hexOf(a)+" "+commaList(comm))
		if len(a) > 0 {
			emit("bits", fmt.Sprintf("getbit %s %d", hexOf(a), rng.Intn(len(a)*8+3)))
		}
	}
	// 3. random pool histories
	nSeq := o.Pick(12000, 200000)
	for s := 0; s < nSeq; s++ {
		fmt.Fprintln(w, "reset")
		// committees of this sequence: (slot, index) -> members
		nSlotsInPlay := 2 + rng.Intn(6)
		baseSlot := uint64(rng.Intn(3)) * 4
		type ck struct{ s, i uint64 }
		comms := map[ck][]uint64{}
		committee := func(slot, index uint64) []uint64 {
			k := ck{slot, index}
			if c, ok := comms[k]; ok {
				return c
			}
			n := 1 + rng.Intn(9)
			if rng.Intn(6) == 0 {
				n = 8 + rng.Intn(3)
			}
			perm := rng.Perm(12)
			c := make([]uint64, n)
			for j := range c {
				c[j] = uint64(perm[j%12])
				if j >= 12 {
					c[j] = uint64(12 + j)
				}
			}
			comms[k] = c
			return c
		}
		// the preset of this sequence: every constant the pool package can read takes several values; half of the
		// sequences keep the minimal preset (no spec line)
		subBits := 8 // SYNC_COMMITTEE_SIZE / SYNC_COMMITTEE_SUBNET_COUNT of the minimal preset
		if rng.Intn(2) == 0 {
			size := []uint64{16, 48, 20, 4, 5, 7, 32, 128, 512, 36, 100}[rng.Intn(11)]
			if rng.Intn(4) == 0 {
				size = uint64(4*rng.Intn(40) + rng.Intn(4))
			}
			mvpc := []uint64{1, 7, 8, 9, 2048, 5, 64}[rng.Intn(7)]
			spe := []uint64{8, 32, 6, 1, 3}[rng.Intn(5)]
			mx := func() uint64 { return []uint64{1, 2, 7, 16, 128}[rng.Intn(5)] }
			emit("spec", fmt.Sprintf("spec %d %d %d %d %d %d %d %d", size, mvpc, spe, mx(), mx(), mx(), mx(), mx()))
			subBits = int(size / 4)
			st.Add("sync-subcommittee-bits", strconv.Itoa(subBits))
			st.Add("preset-MAX_VALIDATORS_PER_COMMITTEE", strconv.FormatUint(mvpc, 10))
			st.Add("preset-SLOTS_PER_EPOCH", strconv.FormatUint(spe, 10))
		} else {
			st.Add("sync-subcommittee-bits", "8 (minimal)")
		}
		// aggregation bits of a contribution: a bitvector of subBits bits; often only the last (partial) byte is used
		contribBits := func() []byte {
			n := (subBits + 7) / 8
			b := make([]byte, n)
			if n == 0 {
				return b
			}
			lastMask := byte(0xff)
			if subBits%8 != 0 {
				lastMask = byte(1<<uint(subBits%8)) - 1
			}
			switch rng.Intn(4) {
			case 0: // only the last byte
				b[n-1] = byte(1+rng.Intn(255)) & lastMask
				if b[n-1] == 0 {
					b[n-1] = lastMask & -lastMask
				}
				st.Add("contrib-bits", "last-byte-only")
			case 1: // only the top bit of the vector
				b[n-1] = lastMask ^ (lastMask >> 1)
				st.Add("contrib-bits", "top-bit-only")
			default:
				rng.Read(b)
				b[n-1] &= lastMask
				st.Add("contrib-bits", "random")
			}
			if rng.Intn(12) == 0 { // a length the preset does not call for (the pool does not validate it)
				b = append(b, byte(rng.Intn(256)))
				st.Add("contrib-bits", "over-long")
			}
			return b
		}
		var past []attLine
		curSync := maxU
		nOps := 5 + rng.Intn(26)
		if rng.Intn(60) == 0 { // a long same-data history, then the ordinary mix on top of it
			st.Add("seq-kind", "long-same-data")
			longAtt(18+rng.Intn(112), 17+rng.Intn(60), rng.Intn(3) == 0, baseSlot+1)
		} else if rng.Intn(120) == 0 {
			st.Add("seq-kind", "long-other-pools")
			longOthers(17+rng.Intn(70), maxU)
		}
		syncFocus := rng.Intn(5) == 0 // a sequence that mostly drives the sync-committee pool
		if syncFocus {
			st.Add("seq-kind", "sync-focus")
			if rng.Intn(2) == 0 {
				curSync = []uint64{0, 1, 5, maxU - 1, maxU, 1 << 40}[rng.Intn(6)]
				emit("sreset", fmt.Sprintf("sreset %d", curSync))
			}
		} else {
			st.Add("seq-kind", "mixed")
		}
		for i := 0; i < nOps; i++ {
			c := rng.Intn(100)
			if syncFocus && c < 88 {
				c = 88 + rng.Intn(10) // 88..92 add message/contribution, 93..97 reset
				if rng.Intn(3) != 0 {
					c = 88
				}
			}
			switch {
			case c < 55:
				var a attLine
				if len(past) > 0 && rng.Intn(5) == 0 { // exact duplicate
					a = past[rng.Intn(len(past))]
					st.Add("att-kind", "duplicate")
				} else {
					a.slot = baseSlot + uint64(rng.Intn(nSlotsInPlay))
					a.index = uint64(rng.Intn(2))
					a.target = a.slot / 4
					if rng.Intn(12) == 0 {
						a.target = uint64(rng.Intn(4))
					}
					a.tag = 0
					if rng.Intn(4) == 0 {
						a.tag = uint64(rng.Intn(3))
					}
					a.comm = committee(a.slot, a.index)
					a.sig = uint64(rng.Intn(60000))
					n := len(a.comm)
					switch k := rng.Intn(20); {
					case k < 7:
						a.bits = encodeBits(randBits(rng, n, 1))
						st.Add("att-kind", "single")
					case k < 17:
						a.bits = encodeBits(randBits(rng, n, 2))
						st.Add("att-kind", "aggregate")
					case k < 18:
						a.bits = encodeBits(randBits(rng, n, 0))
						st.Add("att-kind", "empty")
					case k < 19:
						a.bits = encodeBits(randBits(rng, n+rng.Intn(3)-1+8*rng.Intn(2), 2))
						st.Add("att-kind", "length-mismatch")
					default:
						a.bits = malformedBits(rng)
						st.Add("att-kind", "malformed-bits")
					}
					if len(past) > 0 && rng.Intn(6) == 0 { // superset / subset / variation of an earlier aggregate
						p := past[rng.Intn(len(past))]
						a = p
						a.sig = uint64(rng.Intn(60000))
						nb := append([]byte{}, p.bits...)
						if len(nb) > 0 {
							j := rng.Intn(len(nb))
							if rng.Intn(2) == 0 {
								nb[j] |= byte(1 << uint(rng.Intn(8)))
							} else {
								nb[j] &^= byte(1 << uint(rng.Intn(8)))
							}
							if bitLenOf(nb) == bitLenOf(p.bits) {
								a.bits = nb
							}
						}
						if rng.Intn(3) == 0 {
							a.tag = uint64(rng.Intn(3))
						}
						st.Add("att-kind", "variation")
					}
				}
				past = append(past, a)
				st.Add("committee-size", strconv.Itoa(len(a.comm)))
				emit("att", a.String())
			case c < 65:
				sl, ix := "*", "*"
				if rng.Intn(2) == 0 {
					sl = strconv.FormatUint(baseSlot+uint64(rng.Intn(nSlotsInPlay+1)), 10)
				}
				if rng.Intn(2) == 0 {
					ix = strconv.Itoa(rng.Intn(3))
				}
				emit("search", "search "+sl+" "+ix)
			case c < 72:
				e := uint64(rng.Intn(6))
				if rng.Intn(15) == 0 {
					e = maxU - uint64(rng.Intn(2))
				}
				emit("prune", fmt.Sprintf("prune %d", e))
			case c < 76:
				emit("aslash", fmt.Sprintf("aslash %d %d", rng.Intn(3), rng.Intn(3)))
			case c < 78:
				emit("aslashes", "aslashes")
			case c < 81:
				emit("pslash", fmt.Sprintf("pslash %d %d", rng.Intn(4), rng.Intn(3)))
			case c < 83:
				emit("pslashes", "pslashes")
			case c < 86:
				emit("exit", fmt.Sprintf("exit %d %d", rng.Intn(4), rng.Intn(3)))
			case c < 88:
				emit("exits", "exits")
			case c < 93:
				d := []uint64{0, 0, 1, maxU, 2, maxU - 1, 3}[rng.Intn(7)] // maxU = -1
				slot := curSync + d
				if rng.Intn(20) == 0 {
					slot = []uint64{0, 1, maxU, maxU - 1, 2}[rng.Intn(5)]
				}
				st.Add("sync-offset", offBucket(int64(slot-curSync)))
				if rng.Intn(3) == 0 {
					emit("scontrib", fmt.Sprintf("scontrib %d %d %d %s %d", slot, rng.Intn(3), rng.Intn(4), hexOf(contribBits()), rng.Intn(100)))
				} else {
					emit("smsg", fmt.Sprintf("smsg %d %d %d", slot, rng.Intn(6), rng.Intn(3)))
				}
			case c < 98:
				d := []uint64{1, 1, 1, 0, maxU, 2, maxU - 1, 5}[rng.Intn(8)]
				slot := curSync + d
				if rng.Intn(10) == 0 {
					slot = []uint64{0, 1, maxU, maxU - 1, 1000}[rng.Intn(5)]
				}
				st.Add("sreset-offset", offBucket(int64(slot-curSync)))
				curSync = slot
				emit("sreset", fmt.Sprintf("sreset %d", slot))
				emit("sdump", "sdump")
			default:
				var ms []string
				for v := 0; v < 5; v++ {
					if rng.Intn(2) == 0 {
						ms = append(ms, fmt.Sprintf("%d:%d", v, rng.Intn(2)))
					}
				}
				m := "-"
				if len(ms) > 0 {
					m = strings.Join(ms, ",")
				}
				mem := make([]uint64, rng.Intn(5))
				for j := range mem {
					mem[j] = uint64(rng.Intn(5))
				}
				emit("select", fmt.Sprintf("select %d %s %s", rng.Intn(2), commaList(mem), m))
			}
		}
		emit("search", "search * *")
		emit("sdump", "sdump")
	}
	return nil
}

func offBucket(d int64) string {
	switch {
	case d < -3:
		return "<-3"
	case d > 3:
		return ">3"
	}
	return strconv.FormatInt(d, 10)
}

// bitLenOf mirrors bitfields.BitlistLen (used only to build matching committees)
func bitLenOf(b []byte) int {
	if len(b) == 0 {
		return 0
	}
	last := b[len(b)-1]
	idx := 0
	for i := 7; i >= 0; i-- {
		if last&(1<<uint(i)) != 0 {
			idx = i
			break
		}
	}
	return (len(b)-1)*8 + idx
}
