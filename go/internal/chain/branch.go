package chain

import (
	"math/rand"

	"github.com/protolambda/zrnt/eth2/beacon"
	"github.com/protolambda/zrnt/eth2/beacon/common"
)

// Branch returns a deep copy of the chain at its current head: a sibling that can be advanced with DIFFERENT
// blocks from the common ancestor, without any effect on c (and vice versa). Everything the generator keeps is
// copied: head state, deposit contract, attestation duties and what was already included, participation
// sets, key bookkeeping, eth1 vote of the running period, remembered block headers, counters, policy.
//
// The sibling gets its own spec copy with its own MockEngine, a FRESH epochs context computed from the head
// state (nothing shared with c.Epc, in particular not the validator pubkey cache, which diverges as soon as
// the siblings include different deposits), and a new random stream seeded with seed — give siblings
// different seeds to make them choose different blocks; the same seed on two branches of the same head gives
// identical continuations. (The method cannot be called Fork: Chain.Fork() reports the head's format.)
func (c *Chain) Branch(seed int64) (*Chain, error) {
	spec := cloneSpec(c.Spec)
	eng := NewMockEngine(spec)
	eng.Default = c.Engine.Default
	spec.ExecutionEngine = eng

	head := CopyState(c.State)
	epc, err := FreshEpc(spec, head)
	if err != nil {
		return nil, err
	}
	n := &Chain{
		Cfg: c.Cfg, Spec: spec, Keys: c.Keys, Engine: eng,
		State:                   &beacon.StandardUpgradeableBeaconState{BeaconState: head},
		Epc:                     epc,
		Contract:                &DepositTree{Data: append([]common.DepositData(nil), c.Contract.Data...), leaves: append([]common.Root(nil), c.Contract.leaves...)},
		Rng:                     rand.New(rand.NewSource(seed)),
		GenesisValidatorsRoot:   c.GenesisValidatorsRoot,
		GenesisTime:             c.GenesisTime,
		GenesisFork:             c.GenesisFork,
		Genesis:                 c.Genesis,
		FollowCodeSyncCommittee: c.FollowCodeSyncCommittee,
		NoHealMutants:           c.NoHealMutants,
		Policy:                  c.Policy,
		duties:                  map[common.Slot][]*duty{},
		partSets:                map[common.Epoch]map[common.ValidatorIndex]bool{},
		depMeta:                 append([]depMeta(nil), c.depMeta...),
		genesisN:                c.genesisN,
		nextKey:                 c.nextKey,
		burnedKeys:              append([]int(nil), c.burnedKeys...),
		votePeriod:              c.votePeriod,
		voteData:                c.voteData,
		haveVote:                c.haveVote,
		proposed:                map[common.Slot]common.BeaconBlockHeader{},
		mergeDelay:              c.mergeDelay,
		prevFlat:                append([]common.FlatValidator(nil), c.prevFlat...),
		lastFork:                c.lastFork,
		lastEth1Cnt:             c.lastEth1Cnt,
	}
	for s, ds := range c.duties {
		cp := make([]*duty, len(ds))
		for i, d := range ds {
			x := *d
			x.committee = append([]common.ValidatorIndex(nil), d.committee...)
			x.want = append([]bool(nil), d.want...)
			x.done = append([]bool(nil), d.done...)
			cp[i] = &x
		}
		n.duties[s] = cp
	}
	for e, set := range c.partSets {
		m := make(map[common.ValidatorIndex]bool, len(set))
		for v, b := range set {
			m[v] = b
		}
		n.partSets[e] = m
	}
	for s, h := range c.proposed {
		n.proposed[s] = h
	}
	n.Counters = c.Counters
	n.Counters.Ops = make(map[string]int, len(c.Counters.Ops))
	for k, v := range c.Counters.Ops {
		n.Counters.Ops[k] = v
	}
	n.Counters.Forks = make(map[string]bool, len(c.Counters.Forks))
	for k, v := range c.Counters.Forks {
		n.Counters.Forks[k] = v
	}
	return n, nil
}
