package chain

import (
	"errors"
	"fmt"
	"os"
	"sort"
	"strconv"
	"testing"
	"time"

	"github.com/protolambda/zrnt/eth2/beacon/common"
	"github.com/protolambda/ztyp/tree"
)

func runChain(t *testing.T, cfg *Config, n int, bal string, seed int64, slots int, pol *Policy) *Chain {
	t.Helper()
	t0 := time.Now()
	c, err := NewChain(cfg, n, bal, seed)
	if err != nil {
		t.Fatalf("%s: genesis: %v", cfg.ID, err)
	}
	if pol != nil {
		c.Policy = *pol
	}
	for i := 0; i < slots; i++ {
		if _, err := c.NextSlot(nil); err != nil {
			t.Fatalf("%s n=%d seed=%d: %v\n%s", cfg.ID, n, seed, err, c.Counters.Summary())
		}
	}
	t.Logf("%s n=%d seed=%d %.2fs: %s", cfg.ID, n, seed, time.Since(t0).Seconds(), c.Counters.Summary())
	return c
}

func TestAllForksFast(t *testing.T) {
	c := runChain(t, Fast(1, 2, 3, 4), 64, "mixed", 1, 8*8, nil)
	for _, f := range forkNames {
		if !c.Counters.Forks[f] {
			t.Errorf("fork %s not reached", f)
		}
	}
	if c.Counters.Upgrades != 4 {
		t.Errorf("upgrades = %d", c.Counters.Upgrades)
	}
}

func TestFinalityOnFullParticipation(t *testing.T) {
	q := QuietPolicy()
	c := runChain(t, Minimal(), 64, "uniform", 2, 5*8, &q)
	if c.Counters.Finalized < 2 {
		t.Errorf("finalized epoch %d after 5 full epochs", c.Counters.Finalized)
	}
	if c.Counters.LeakEpochs != 0 {
		t.Errorf("leak on a fully participating chain")
	}
}

func TestLeakOnSparseParticipation(t *testing.T) {
	p := DefaultPolicy()
	p.Participation = func(common.Epoch) Pattern { return Sparse }
	c := runChain(t, Fast(1, 1, 2, 3), 64, "uniform", 3, 8*8, &p)
	if c.Counters.Finalized != 0 {
		t.Errorf("finalized %d on a sparse chain", c.Counters.Finalized)
	}
	if c.Counters.LeakEpochs == 0 {
		t.Errorf("no leak epochs")
	}
}

func TestGenesisInLaterForks(t *testing.T) {
	for _, cfg := range []*Config{Fast(0, 1, 2, 3), Fast(0, 0, 1, 2), Fast(0, 0, 0, 1), Fast(0, 0, 0, 0), Fast(0, 0, 0, Never), Fast(0, 0, Never, Never), Fast(0, Never, Never, Never), MinimalAt(0, 0, 0, 0)} {
		c := runChain(t, cfg, 48, "mixed", 5, 2*8+4, nil)
		if c.GenesisFork != ForkAtEpoch(cfg.Spec, 0) {
			t.Errorf("%s: genesis fork %s", cfg.ID, c.GenesisFork)
		}
	}
}

func TestEth1Genesis(t *testing.T) {
	c, err := NewChainOpts(Fast(1, 2, 3, 4), GenesisOpts{Validators: 32, Balances: "mixed", Seed: 9, Mode: "eth1"})
	if err != nil {
		t.Fatal(err)
	}
	if _, err := c.Run(16); err != nil {
		t.Fatal(err)
	}
}

func TestRandomConfigsRun(t *testing.T) {
	n := 6
	if testing.Short() {
		n = 3
	}
	tot := newCounters()
	for seed := int64(0); seed < int64(n); seed++ {
		cfg := RandomConfig(seed)
		nv := []int{16, 32, 64, 100, 128}[seed%5]
		c := runChain(t, cfg, nv, []string{"mixed", "uniform", "rich", "poor"}[seed%4], seed, 6*int(cfg.Spec.SLOTS_PER_EPOCH), nil)
		tot.Add(&c.Counters)
	}
	t.Logf("TOTAL %s", tot.Summary())
}

func TestDeterministic(t *testing.T) {
	run := func() ([]byte, string) {
		c, err := NewChain(Fast(1, 2, 2, 3), 48, "mixed", 77)
		if err != nil {
			t.Fatal(err)
		}
		steps, err := c.Run(40)
		if err != nil {
			t.Fatal(err)
		}
		var all []byte
		for _, s := range steps {
			if s.Block != nil {
				all = append(all, s.Block.Bytes(c.Spec)...)
			}
		}
		all = append(all, StateBytes(c.State)...)
		return all, c.Counters.Summary()
	}
	a, sa := run()
	b, sb := run()
	if string(a) != string(b) || sa != sb {
		t.Fatalf("two runs with the same seed differ\n%s\n%s", sa, sb)
	}
}

func TestSSZRoundTrip(t *testing.T) {
	c, err := NewChain(Fast(1, 2, 3, 4), 32, "mixed", 4)
	if err != nil {
		t.Fatal(err)
	}
	steps, err := c.Run(5 * 8)
	if err != nil {
		t.Fatal(err)
	}
	for _, s := range steps {
		st, err := DecodeState(c.Spec, s.Fork, StateBytes(s.Post))
		if err != nil {
			t.Fatalf("slot %d: %v", s.Slot, err)
		}
		if r := st.HashTreeRoot(tree.GetHashFn()); r != s.PostRoot {
			t.Fatalf("slot %d: state root changed by SSZ round trip", s.Slot)
		}
		if s.Block != nil {
			b := s.Block.Clone(c.Spec)
			if b.Root(c.Spec) != s.Block.Root(c.Spec) {
				t.Fatalf("slot %d: block root changed by SSZ round trip", s.Slot)
			}
			// the step's pre-state + block reproduce the post-state through the public helper
			post, err := s.Apply(b)
			if err != nil {
				t.Fatalf("slot %d: Apply: %v", s.Slot, err)
			}
			if post.HashTreeRoot(tree.GetHashFn()) != s.PostRoot {
				t.Fatalf("slot %d: Apply gives another post state", s.Slot)
			}
		}
	}
}

func TestMutants(t *testing.T) {
	type stat struct{ n, rejected, accepted, panics int }
	byRule := map[string]*stat{}
	var bad []string
	total := 0
	for ci, cfg := range []*Config{Fast(1, 2, 3, 4), Fast(0, 0, 1, 2), RandomConfig(6)} {
		c, err := NewChain(cfg, 48, "mixed", int64(100+ci))
		if err != nil {
			t.Fatal(err)
		}
		c.Policy.ProposerSlashings, c.Policy.AttesterSlashings, c.Policy.Exits = 0.3, 0.3, 0.4
		every := 11
		if testing.Short() {
			every = 19
		}
		for i := 0; i < 6*int(cfg.Spec.SLOTS_PER_EPOCH); i++ {
			s, err := c.NextSlot(nil)
			if err != nil {
				t.Fatal(err)
			}
			if s.Block == nil || i%every != 0 {
				continue
			}
			for _, mu := range c.Mutations(s, 2) {
				mu := mu
				total++
				o := c.ApplyMutant(s, &mu)
				st := byRule[mu.Rule]
				if st == nil {
					st = &stat{}
					byRule[mu.Rule] = st
				}
				st.n++
				switch {
				case o.Panic != nil:
					st.panics++
					bad = append(bad, fmt.Sprintf("%s slot %d %s: PANIC %v", cfg.ID, s.Slot, mu.Label, o.Panic))
				case o.Accepted:
					st.accepted++
					if !mu.ExpectValid && !mu.Unclassified {
						bad = append(bad, fmt.Sprintf("%s slot %d (%s) %s [%s]: ACCEPTED", cfg.ID, s.Slot, s.Fork, mu.Label, mu.Rule))
					}
				default:
					st.rejected++
					if mu.ExpectValid {
						bad = append(bad, fmt.Sprintf("%s slot %d (%s) %s: valid mutant REJECTED: %v", cfg.ID, s.Slot, s.Fork, mu.Label, o.Err))
					}
				}
			}
		}
	}
	rules := make([]string, 0, len(byRule))
	for r := range byRule {
		rules = append(rules, r)
	}
	sort.Strings(rules)
	for _, r := range rules {
		s := byRule[r]
		t.Logf("%-40s n=%-4d rejected=%-4d accepted=%-4d panics=%d", r, s.n, s.rejected, s.accepted, s.panics)
	}
	t.Logf("%d mutants", total)
	seen := map[string]bool{}
	for _, b := range bad {
		if !seen[b] {
			t.Error(b)
			seen[b] = true
		}
	}
}

// TestSoak: CHAIN_SOAK=<n> runs n random configurations for 12 epochs each with every policy flavour.
func TestSoak(t *testing.T) {
	n, _ := strconv.Atoi(os.Getenv("CHAIN_SOAK"))
	if n == 0 {
		t.Skip("set CHAIN_SOAK=<n>")
	}
	tot := newCounters()
	fails := 0
	for seed := int64(1000); seed < 1000+int64(n); seed++ {
		cfg := RandomConfig(seed)
		nv := 16 + int(seed*37%240)
		if nv < int(cfg.Spec.SLOTS_PER_EPOCH) {
			nv = int(cfg.Spec.SLOTS_PER_EPOCH)
		}
		c, err := NewChainOpts(cfg, GenesisOpts{Validators: nv, Balances: []string{"mixed", "uniform", "rich", "poor"}[seed%4], Seed: seed, Mode: []string{"kickstart", "eth1"}[seed%2]})
		if err != nil {
			t.Errorf("%s: genesis: %v", cfg.ID, err)
			fails++
			continue
		}
		c.Policy = PolicyByName([]string{"default", "eventful", "leak-recover", "sparse", "under", "over", "quiet"}[seed%7])
		for i := 0; i < 12*int(cfg.Spec.SLOTS_PER_EPOCH); i++ {
			if _, err := c.NextSlot(nil); err != nil {
				t.Errorf("%s n=%d seed=%d: %v", cfg.ID, nv, seed, err)
				fails++
				break
			}
		}
		tot.Add(&c.Counters)
	}
	t.Logf("failures=%d TOTAL %s", fails, tot.Summary())
}

// With FollowCodeSyncCommittee every block must go through the PLAIN common.StateTransition, live epochs
// context and all.
func TestFollowCodeMode(t *testing.T) {
	c, err := NewChain(Fast(0, 1, 2, 3), 48, "mixed", 21)
	if err != nil {
		t.Fatal(err)
	}
	c.FollowCodeSyncCommittee = true
	steps, err := c.Run(8 * 8)
	if err != nil {
		t.Fatal(err)
	}
	for _, s := range steps {
		if s.EpcRepaired || s.PlainRejected {
			t.Fatalf("slot %d: repair in follow-code mode", s.Slot)
		}
	}
	t.Log(c.Counters.Summary())
}

// TestRepoDefectSyncCommitteeRotation documents (does not fail on) the /repo defect: driven through
// common.ProcessSlots with beacon.StandardUpgradeableBeaconState, EpochsContext.RotateEpochs never rotates
// the sync committees, because the wrapper does not implement common.SyncCommitteeBeaconState.
func TestRepoDefectSyncCommitteeRotation(t *testing.T) {
	c, err := NewChain(Fast(0, Never, Never, Never), 48, "uniform", 1)
	if err != nil {
		t.Fatal(err)
	}
	c.Policy = QuietPolicy()
	var wrapped common.BeaconState = c.State
	_, ok := wrapped.(common.SyncCommitteeBeaconState)
	t.Logf("wrapper implements SyncCommitteeBeaconState: %v (inner state: %T)", ok, c.State.BeaconState)
	present := false
	for i := 0; i < 5*8; i++ {
		s, err := c.NextSlot(&SlotOpts{Propose: true})
		if err != nil {
			t.Fatal(err)
		}
		if s.PlainRejected {
			_, perr := s.ApplyPlain(s.Block)
			_, rerr := s.Apply(s.Block)
			t.Logf("slot %d (epoch %d): spec-valid block: plain StateTransition: %v; with epc sync committees reloaded from the state: %v", s.Slot, c.Spec.SlotToEpoch(s.Slot), perr, rerr)
			present = true
		}
	}
	t.Logf("defect present: %v; %s", present, c.Counters.Summary())
}

func TestByteMutationsNoPanic(t *testing.T) {
	c, err := NewChain(Fast(1, 2, 3, 4), 32, "mixed", 8)
	if err != nil {
		t.Fatal(err)
	}
	acc, rej := 0, 0
	for i := 0; i < 5*8; i++ {
		s, err := c.NextSlot(nil)
		if err != nil {
			t.Fatal(err)
		}
		for _, mu := range c.ByteMutations(s, 5, int64(i)) {
			mu := mu
			o := c.ApplyMutant(s, &mu)
			if o.Panic != nil {
				t.Errorf("slot %d %s: panic %v", s.Slot, mu.Label, o.Panic)
			} else if o.Accepted {
				acc++
			} else {
				rej++
			}
		}
	}
	t.Logf("byte mutants: %d rejected, %d accepted", rej, acc)
}

func TestMainnetPresetShort(t *testing.T) {
	if testing.Short() {
		t.Skip()
	}
	cfg := Mainnet()
	setForks(cfg.Spec, [4]common.Epoch{1, 1, 2, 2})
	cfg.ID = "mainnet@1,1,2,2"
	q := DefaultPolicy()
	runChain(t, cfg, 64, "mixed", 3, 3*32, &q)
}

func TestRejectedErrorCarriesTheBlock(t *testing.T) {
	c, err := NewChain(Fast(0, 0, 0, 0), 32, "uniform", 3)
	if err != nil {
		t.Fatal(err)
	}
	// an Edit that breaks the block: the real code must refuse it and the error must carry the input
	_, err = c.NextSlot(&SlotOpts{Propose: true, Edit: func(b *SignedBlock, _ common.BeaconState, _ *common.EpochsContext) error {
		*b.Body().Payload.Timestamp++
		return nil
	}})
	var re *RejectedError
	if !errors.As(err, &re) || !errors.Is(err, ErrNotAccepted) || c.LastRejected == nil || re.Step.Block == nil || re.Step.Pre == nil {
		t.Fatalf("expected a RejectedError with the block, got %v", err)
	}
	t.Log(err)
	// the chain itself did not move and goes on normally
	if c.Slot() != 0 {
		t.Fatalf("chain advanced to %d on a refused block", c.Slot())
	}
	if _, err := c.NextSlot(nil); err != nil || c.LastRejected != nil {
		t.Fatalf("next slot after a refusal: %v", err)
	}
}
