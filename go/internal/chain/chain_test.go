package chain

import (
	"testing"
	"time"

	"github.com/protolambda/zrnt/eth2/beacon/common"
)

func runChain(t *testing.T, cfg *Config, n int, bal string, seed int64, slots int, pol *Policy) *Chain {
	t.Helper()
	t0 := time.Now()
	c, err := NewChain(cfg, n, bal, seed)
	if err != nil {
		t.Fatalf("%s: genesis: %v", cfg.ID, err)
	}
	if pol != nil {
		c.Policy = *pol
	}
	for i := 0; i < slots; i++ {
		if _, err := c.NextSlot(nil); err != nil {
			t.Fatalf("%s n=%d seed=%d: %v\n%s", cfg.ID, n, seed, err, c.Counters.Summary())
		}
	}
	t.Logf("%s n=%d seed=%d %.2fs: %s", cfg.ID, n, seed, time.Since(t0).Seconds(), c.Counters.Summary())
	return c
}

func TestAllForksFast(t *testing.T) {
	c := runChain(t, Fast(1, 2, 3, 4), 64, "mixed", 1, 8*8, nil)
	for _, f := range forkNames {
		if !c.Counters.Forks[f] {
			t.Errorf("fork %s not reached", f)
		}
	}
	if c.Counters.Upgrades != 4 {
		t.Errorf("upgrades = %d", c.Counters.Upgrades)
	}
}

func TestFinalityOnFullParticipation(t *testing.T) {
	q := QuietPolicy()
	c := runChain(t, Minimal(), 64, "uniform", 2, 5*8, &q)
	if c.Counters.Finalized < 2 {
		t.Errorf("finalized epoch %d after 5 full epochs", c.Counters.Finalized)
	}
	if c.Counters.LeakEpochs != 0 {
		t.Errorf("leak on a fully participating chain")
	}
}

func TestLeakOnSparseParticipation(t *testing.T) {
	p := DefaultPolicy()
	p.Participation = func(common.Epoch) Pattern { return Sparse }
	c := runChain(t, Fast(1, 1, 2, 3), 64, "uniform", 3, 8*8, &p)
	if c.Counters.Finalized != 0 {
		t.Errorf("finalized %d on a sparse chain", c.Counters.Finalized)
	}
	if c.Counters.LeakEpochs == 0 {
		t.Errorf("no leak epochs")
	}
}
