package chain

import (
	"context"
	"fmt"

	"github.com/protolambda/zrnt/eth2/beacon/altair"
	"github.com/protolambda/zrnt/eth2/beacon/common"
	"github.com/protolambda/zrnt/eth2/beacon/phase0"
	"github.com/protolambda/ztyp/tree"
)

// Mutant is one corruption of a valid signed block.
type Mutant struct {
	// Label names the corruption, "<area>.<field>:<variant>", e.g. "attestation[2].data.source:epoch+1".
	Label string
	// Rule names the consensus rule the mutant is meant to violate (the first check of the spec's
	// process_block / state_transition that should fail), e.g. "attestation.source". "valid" for the
	// boundary mutants that stay valid.
	Rule string
	// ExpectValid: the mutant is still a valid block (boundary case on the allowed side, harmless
	// reordering); its state root was recomputed and it was re-signed.
	ExpectValid bool
	// Resigned: the proposer signature was made again after the corruption (so it is valid and an inner
	// rule is what fails). False for the mutants that are about the block signature itself.
	Resigned bool
	// Healed: the real code's block processing (run without signature/state-root validation) did NOT object to
	// the corruption; the state root was then set to what it produced and the block re-signed, so the fully
	// validated transition will accept this mutant. For a must-reject mutant that is a finding in itself.
	Healed bool
	// Unclassified: validity is not known by construction (byte-level mutants); neither "must reject" nor
	// "must accept" may be concluded from the mutant alone.
	Unclassified bool
	Block        *SignedBlock
	// Engine, when non-nil, is the script to install in the mock execution engine before applying the
	// (otherwise unchanged) block: the corruption is the engine's answer.
	Engine []Verdict
}

type mutator struct {
	c     *Chain
	s     *Step
	st    common.BeaconState    // state after slot processing, before the block
	epc   *common.EpochsContext // its epochs context
	fork  common.Fork
	epoch common.Epoch
	flats []common.FlatValidator
	out   []Mutant
}

// Mutations returns the single-corruption mutants of the step's block (nil for a skipped slot). The result
// is deterministic for a given step. maxPerKind bounds how many operations of each kind are mutated
// (0 = all).
func (c *Chain) Mutations(s *Step, maxPerKind int) (out []Mutant) {
	if s == nil || s.Block == nil {
		return nil
	}
	m := &mutator{c: c, s: s, st: s.PreBlock, epc: s.PreBlockEpc, epoch: c.Spec.SlotToEpoch(s.Slot)}
	var err error
	if m.fork, err = m.st.Fork(); err != nil {
		return nil
	}
	if vals, err := m.st.Validators(); err == nil {
		m.flats, _ = common.FlattenValidators(vals)
	}
	if maxPerKind <= 0 {
		maxPerKind = 1 << 30
	}
	m.blockLevel()
	m.randao()
	m.attestations(maxPerKind)
	m.inclusionWindow()
	m.proposerSlashings(maxPerKind)
	m.attesterSlashings(maxPerKind)
	m.deposits(maxPerKind)
	m.exits(maxPerKind)
	m.blsChanges(maxPerKind)
	m.syncAggregate()
	m.payload()
	m.lists()
	m.crossFork()
	m.engine()
	return m.out
}

// add clones the block, applies f (false = not applicable) and records the mutant.
func (m *mutator) add(label, rule string, resign bool, f func(b *SignedBlock, body BodyRef) bool) {
	b := m.s.Block.Clone(m.c.Spec)
	if !f(b, b.Body()) {
		return
	}
	healed := false
	if resign {
		healed = m.heal(b)
		m.c.SignBlock(b, m.st)
	}
	m.out = append(m.out, Mutant{Label: label, Rule: rule, Resigned: resign, Healed: healed, Block: b})
}

// heal runs the real transition WITHOUT result validation on the corrupted block. If the real code's block
// processing lets the corruption through, the block's state root is set to the state it produced, so that the
// only thing wrong with the mutant is the corruption itself (otherwise a missing check in /repo would hide
// behind "invalid state root"). On a correct tree this never succeeds for a must-reject mutant.
func (m *mutator) heal(b *SignedBlock) (ok bool) {
	if m.c.NoHealMutants {
		return false
	}
	defer func() {
		if recover() != nil {
			ok = false
		}
	}()
	st := WrapState(m.s.Pre)
	epc, err := FreshEpc(m.c.Spec, st)
	if err != nil {
		return false
	}
	mark := m.c.Engine.Mark()
	defer m.c.Engine.truncate(mark)
	if err := Transition(context.Background(), m.c.Spec, epc, st, m.s.EnvelopeOf(b), false, m.s.repair); err != nil {
		return false
	}
	*b.Header().StateRoot = st.HashTreeRoot(tree.GetHashFn())
	return true
}

// addValid is add for mutants that stay valid: the state root is recomputed with the real transition and the
// block re-signed. If the real code refuses the block the mutant is still emitted (ExpectValid stays true:
// the claim is about the consensus rules, the consumer's oracle decides) with the original state root.
func (m *mutator) addValid(label string, f func(b *SignedBlock, body BodyRef) bool) {
	b := m.s.Block.Clone(m.c.Spec)
	if !f(b, b.Body()) {
		return
	}
	func() {
		defer func() { _ = recover() }()
		st := WrapState(m.s.Pre)
		epc, err := FreshEpc(m.c.Spec, st)
		if err != nil {
			return
		}
		mark := m.c.Engine.Mark()
		defer m.c.Engine.truncate(mark)
		if err := Transition(context.Background(), m.c.Spec, epc, st, m.s.EnvelopeOf(b), false, m.s.repair); err != nil {
			return
		}
		*b.Header().StateRoot = st.HashTreeRoot(tree.GetHashFn())
	}()
	m.c.SignBlock(b, m.st)
	m.out = append(m.out, Mutant{Label: label, Rule: "valid", ExpectValid: true, Resigned: true, Block: b})
}

// sameProposerLater looks at the mutant just added (the block moved d slots into the future): if the block's
// proposer also is the proposer of that later slot — which happens in small validator sets — the moved block
// can be a perfectly valid block of the later slot, so the mutant is marked Unclassified instead of must-reject.
func (m *mutator) sameProposerLater(d common.Slot) {
	if len(m.out) == 0 {
		return
	}
	defer func() { _ = recover() }()
	st := WrapState(m.s.Pre)
	epc, err := FreshEpc(m.c.Spec, st)
	if err != nil {
		return
	}
	if err := common.ProcessSlots(context.Background(), m.c.Spec, epc, st, m.s.Slot+d); err != nil {
		return
	}
	if p, err := epc.GetBeaconProposer(m.s.Slot + d); err == nil && p == m.s.Proposer {
		mu := &m.out[len(m.out)-1]
		mu.Unclassified, mu.Rule = true, "header.slot(same-proposer-later)"
	}
}

func flip(sig *common.BLSSignature) { sig[len(sig)/2] ^= 0x01 }

func (m *mutator) key(v common.ValidatorIndex) (int, bool) { return m.c.keyOfIn(m.st, v) }

// otherVersion is a fork version different from the state's current one: the previous one if the chain has
// upgraded, otherwise the version of a neighbouring fork.
func (m *mutator) otherVersion() common.Version {
	if m.fork.PreviousVersion != m.fork.CurrentVersion {
		return m.fork.PreviousVersion
	}
	f := ForkOfState(m.st)
	if f > Phase0 {
		return ForkVersionOf(m.c.Spec, f-1)
	}
	return ForkVersionOf(m.c.Spec, f+1)
}

func otherRoot(r common.Root) common.Root {
	r[0] ^= 0xff
	r[31] ^= 0x01
	return r
}

// ---------------------------------------------------------------------------------------------- block level

func (m *mutator) blockLevel() {
	c, spec, gvr := m.c, m.c.Spec, m.c.GenesisValidatorsRoot
	prop := m.s.Proposer
	pk, _ := m.key(prop)
	signWith := func(b *SignedBlock, key int, dom common.BLSDomain) {
		*b.Header().Signature = c.Keys.Sign(key, common.ComputeSigningRoot(b.Root(spec), dom))
	}
	// signature bytes
	m.add("block.signature:bitflip", "block.signature", false, func(b *SignedBlock, _ BodyRef) bool { flip(b.Header().Signature); return true })
	m.add("block.signature:zero", "block.signature", false, func(b *SignedBlock, _ BodyRef) bool { *b.Header().Signature = common.BLSSignature{}; return true })
	m.add("block.signature:infinity", "block.signature", false, func(b *SignedBlock, _ BodyRef) bool { *b.Header().Signature = InfinitySignature(); return true })
	m.add("block.signature:other-key", "block.signature", false, func(b *SignedBlock, _ BodyRef) bool {
		signWith(b, pk+1, common.ComputeDomain(common.DOMAIN_BEACON_PROPOSER, m.fork.CurrentVersion, gvr))
		return true
	})
	// replay across domains, forks and chains: right key, right object, other domain
	m.add("block.signature:cross-domain(randao)", "block.signature.domain", false, func(b *SignedBlock, _ BodyRef) bool {
		signWith(b, pk, common.ComputeDomain(common.DOMAIN_RANDAO, m.fork.CurrentVersion, gvr))
		return true
	})
	m.add("block.signature:cross-domain(attester)", "block.signature.domain", false, func(b *SignedBlock, _ BodyRef) bool {
		signWith(b, pk, common.ComputeDomain(common.DOMAIN_BEACON_ATTESTER, m.fork.CurrentVersion, gvr))
		return true
	})
	m.add("block.signature:cross-fork(other-version)", "block.signature.fork", false, func(b *SignedBlock, _ BodyRef) bool {
		signWith(b, pk, common.ComputeDomain(common.DOMAIN_BEACON_PROPOSER, m.otherVersion(), gvr))
		return true
	})
	m.add("block.signature:cross-chain(other-genesis-validators-root)", "block.signature.chain", false, func(b *SignedBlock, _ BodyRef) bool {
		signWith(b, pk, common.ComputeDomain(common.DOMAIN_BEACON_PROPOSER, m.fork.CurrentVersion, otherRoot(gvr)))
		return true
	})
	// header fields (re-signed: the signature is right for the corrupted header)
	m.add("header.slot:+1", "header.slot/proposer", true, func(b *SignedBlock, _ BodyRef) bool { *b.Header().Slot++; return true })
	m.sameProposerLater(1)
	m.add("header.slot:-1", "header.slot", true, func(b *SignedBlock, _ BodyRef) bool { *b.Header().Slot--; return true })
	m.add("header.slot:+epoch", "header.slot/proposer", true, func(b *SignedBlock, _ BodyRef) bool {
		*b.Header().Slot += spec.SLOTS_PER_EPOCH
		return true
	})
	m.sameProposerLater(spec.SLOTS_PER_EPOCH)
	other := common.ValidatorIndex((uint64(prop) + 1) % uint64(len(m.flats)))
	m.add("header.proposer_index:other(signed-by-real-proposer)", "header.proposer_index", false, func(b *SignedBlock, _ BodyRef) bool {
		*b.Header().ProposerIndex = other
		signWith(b, pk, common.ComputeDomain(common.DOMAIN_BEACON_PROPOSER, m.fork.CurrentVersion, gvr))
		return true
	})
	// SignBlock signs with the key of the index named in the block: here the impostor's own, valid signature
	m.add("header.proposer_index:other(signed-by-impostor)", "header.proposer_index", true, func(b *SignedBlock, _ BodyRef) bool {
		*b.Header().ProposerIndex = other
		return true
	})
	m.add("header.proposer_index:out-of-range", "header.proposer_index", false, func(b *SignedBlock, _ BodyRef) bool {
		*b.Header().ProposerIndex = common.ValidatorIndex(len(m.flats))
		signWith(b, pk, common.ComputeDomain(common.DOMAIN_BEACON_PROPOSER, m.fork.CurrentVersion, gvr))
		return true
	})
	m.add("header.parent_root:other", "header.parent_root", true, func(b *SignedBlock, _ BodyRef) bool {
		*b.Header().ParentRoot = otherRoot(*b.Header().ParentRoot)
		return true
	})
	m.add("header.parent_root:grandparent", "header.parent_root", true, func(b *SignedBlock, _ BodyRef) bool {
		lh, err := m.s.Pre.LatestBlockHeader()
		if err != nil {
			return false
		}
		*b.Header().ParentRoot = lh.ParentRoot
		return true
	})
	// (state-root mutants are signed here and not "healed": the stale root is the corruption)
	m.add("header.state_root:other", "block.state_root", false, func(b *SignedBlock, _ BodyRef) bool {
		*b.Header().StateRoot = otherRoot(*b.Header().StateRoot)
		c.SignBlock(b, m.st)
		return true
	})
	m.add("header.state_root:pre-state", "block.state_root", false, func(b *SignedBlock, _ BodyRef) bool {
		*b.Header().StateRoot = m.st.HashTreeRoot(tree.GetHashFn())
		c.SignBlock(b, m.st)
		return true
	})
	m.add("body.graffiti:changed(stale-state-root)", "block.state_root", false, func(b *SignedBlock, body BodyRef) bool {
		body.Graffiti[31] ^= 0x55
		c.SignBlock(b, m.st)
		return true
	})
	for i := len(m.out) - 3; i < len(m.out); i++ {
		if i >= 0 {
			m.out[i].Resigned = true
		}
	}
}

func (m *mutator) randao() {
	c, h := m.c, tree.GetHashFn()
	pk, _ := m.key(m.s.Proposer)
	sign := func(key int, e common.Epoch, dom common.BLSDomain) common.BLSSignature {
		return c.Keys.Sign(key, common.ComputeSigningRoot(e.HashTreeRoot(h), dom))
	}
	cur := common.ComputeDomain(common.DOMAIN_RANDAO, m.fork.CurrentVersion, c.GenesisValidatorsRoot)
	m.add("randao_reveal:bitflip", "randao.signature", true, func(_ *SignedBlock, body BodyRef) bool { flip(body.RandaoReveal); return true })
	m.add("randao_reveal:epoch+1", "randao.signature", true, func(_ *SignedBlock, body BodyRef) bool {
		*body.RandaoReveal = sign(pk, m.epoch+1, cur)
		return true
	})
	m.add("randao_reveal:other-key", "randao.signature", true, func(_ *SignedBlock, body BodyRef) bool {
		*body.RandaoReveal = sign(pk+1, m.epoch, cur)
		return true
	})
	m.add("randao_reveal:cross-domain(proposer)", "randao.signature.domain", true, func(_ *SignedBlock, body BodyRef) bool {
		*body.RandaoReveal = sign(pk, m.epoch, common.ComputeDomain(common.DOMAIN_BEACON_PROPOSER, m.fork.CurrentVersion, c.GenesisValidatorsRoot))
		return true
	})
	m.add("randao_reveal:cross-fork(other-version)", "randao.signature.fork", true, func(_ *SignedBlock, body BodyRef) bool {
		*body.RandaoReveal = sign(pk, m.epoch, common.ComputeDomain(common.DOMAIN_RANDAO, m.otherVersion(), c.GenesisValidatorsRoot))
		return true
	})
	m.add("randao_reveal:cross-chain(other-genesis-validators-root)", "randao.signature.chain", true, func(_ *SignedBlock, body BodyRef) bool {
		*body.RandaoReveal = sign(pk, m.epoch, common.ComputeDomain(common.DOMAIN_RANDAO, m.fork.CurrentVersion, otherRoot(c.GenesisValidatorsRoot)))
		return true
	})
}

// ---------------------------------------------------------------------------------------------- attestations

func (m *mutator) opsOf(k OpKind) []OpInfo {
	var out []OpInfo
	for _, o := range m.s.Ops {
		if o.Kind == k {
			out = append(out, o)
		}
	}
	return out
}

func (m *mutator) attestations(max int) {
	c, spec := m.c, m.c.Spec
	for n, info := range m.opsOf(OpAttestation) {
		if n >= max {
			break
		}
		i, who := info.Index, info.Validators
		lbl := func(s string) string { return fmt.Sprintf("attestation[%d].%s", i, s) }
		resign := func(a *phase0.Attestation) { a.Signature = c.SignIndexed(m.st, &a.Data, who) }
		// data fields, re-signed by the same attesters: the inner rule fails, not the signature
		m.add(lbl("data.source.epoch:+1"), "attestation.source", true, func(_ *SignedBlock, body BodyRef) bool {
			a := &(*body.Attestations)[i]
			a.Data.Source.Epoch++
			resign(a)
			return true
		})
		m.add(lbl("data.source.root:other"), "attestation.source", true, func(_ *SignedBlock, body BodyRef) bool {
			a := &(*body.Attestations)[i]
			a.Data.Source.Root = otherRoot(a.Data.Source.Root)
			resign(a)
			return true
		})
		m.add(lbl("data.target.epoch:+1"), "attestation.target.epoch", true, func(_ *SignedBlock, body BodyRef) bool {
			a := &(*body.Attestations)[i]
			a.Data.Target.Epoch++
			resign(a)
			return true
		})
		m.add(lbl("data.target.epoch:-1"), "attestation.target.epoch", true, func(_ *SignedBlock, body BodyRef) bool {
			a := &(*body.Attestations)[i]
			if a.Data.Target.Epoch == 0 {
				return false
			}
			a.Data.Target.Epoch--
			resign(a)
			return true
		})
		m.add(lbl("data.slot:other-epoch"), "attestation.target.epoch", true, func(_ *SignedBlock, body BodyRef) bool {
			a := &(*body.Attestations)[i]
			a.Data.Slot += spec.SLOTS_PER_EPOCH
			resign(a)
			return true
		})
		m.add(lbl("data.slot:neighbour(other-committee)"), "attestation.committee/signature", true, func(_ *SignedBlock, body BodyRef) bool {
			a := &(*body.Attestations)[i]
			e := spec.SlotToEpoch(a.Data.Slot)
			if a.Data.Slot > 0 && spec.SlotToEpoch(a.Data.Slot-1) == e {
				a.Data.Slot--
			} else if spec.SlotToEpoch(a.Data.Slot+1) == e && a.Data.Slot+1 < m.s.Slot {
				a.Data.Slot++
			} else {
				return false
			}
			resign(a)
			return true
		})
		m.add(lbl("data.index:committee-count"), "attestation.index", true, func(_ *SignedBlock, body BodyRef) bool {
			a := &(*body.Attestations)[i]
			n, err := m.epc.GetCommitteeCountPerSlot(a.Data.Target.Epoch)
			if err != nil {
				return false
			}
			a.Data.Index = common.CommitteeIndex(n)
			resign(a)
			return true
		})
		m.add(lbl("data.index:max-committees"), "attestation.index", true, func(_ *SignedBlock, body BodyRef) bool {
			a := &(*body.Attestations)[i]
			a.Data.Index = common.CommitteeIndex(spec.MAX_COMMITTEES_PER_SLOT)
			resign(a)
			return true
		})
		// data changed behind the attesters' backs: the aggregate signature no longer covers it
		m.add(lbl("data.beacon_block_root:other(not-resigned)"), "attestation.signature", true, func(_ *SignedBlock, body BodyRef) bool {
			a := &(*body.Attestations)[i]
			a.Data.BeaconBlockRoot = otherRoot(a.Data.BeaconBlockRoot)
			return true
		})
		m.add(lbl("data.target.root:other(not-resigned)"), "attestation.signature", true, func(_ *SignedBlock, body BodyRef) bool {
			a := &(*body.Attestations)[i]
			a.Data.Target.Root = otherRoot(a.Data.Target.Root)
			return true
		})
		// aggregation bits
		m.add(lbl("aggregation_bits:empty"), "attestation.bits.empty", true, func(_ *SignedBlock, body BodyRef) bool {
			a := &(*body.Attestations)[i]
			a.AggregationBits = newBitlist(int(a.AggregationBits.BitLen()))
			a.Signature = InfinitySignature()
			return true
		})
		m.add(lbl("aggregation_bits:length+1"), "attestation.bits.length", true, func(_ *SignedBlock, body BodyRef) bool {
			a := &(*body.Attestations)[i]
			old := a.AggregationBits
			nb := newBitlist(int(old.BitLen()) + 1)
			for j := uint64(0); j < old.BitLen(); j++ {
				nb.SetBit(j, old.GetBit(j))
			}
			a.AggregationBits = nb
			return true
		})
		m.add(lbl("aggregation_bits:length-1"), "attestation.bits.length", true, func(_ *SignedBlock, body BodyRef) bool {
			a := &(*body.Attestations)[i]
			old := a.AggregationBits
			if old.BitLen() < 2 {
				return false
			}
			nb := newBitlist(int(old.BitLen()) - 1)
			for j := uint64(0); j+1 < old.BitLen(); j++ {
				nb.SetBit(j, old.GetBit(j))
			}
			a.AggregationBits = nb
			return true
		})
		m.add(lbl("aggregation_bits:zero-length"), "attestation.bits.length", true, func(_ *SignedBlock, body BodyRef) bool {
			(*body.Attestations)[i].AggregationBits = newBitlist(0)
			return true
		})
		m.add(lbl("aggregation_bits:extra-participant"), "attestation.signature", true, func(_ *SignedBlock, body BodyRef) bool {
			a := &(*body.Attestations)[i]
			for j := uint64(0); j < a.AggregationBits.BitLen(); j++ {
				if !a.AggregationBits.GetBit(j) {
					a.AggregationBits.SetBit(j, true)
					return true
				}
			}
			return false
		})
		m.add(lbl("aggregation_bits:missing-participant"), "attestation.signature", true, func(_ *SignedBlock, body BodyRef) bool {
			a := &(*body.Attestations)[i]
			if len(who) < 2 {
				return false
			}
			for j := uint64(0); j < a.AggregationBits.BitLen(); j++ {
				if a.AggregationBits.GetBit(j) {
					a.AggregationBits.SetBit(j, false)
					return true
				}
			}
			return false
		})
		// signature: bytes, domains, forks, chains
		m.add(lbl("signature:bitflip"), "attestation.signature", true, func(_ *SignedBlock, body BodyRef) bool {
			flip(&(*body.Attestations)[i].Signature)
			return true
		})
		m.add(lbl("signature:infinity"), "attestation.signature", true, func(_ *SignedBlock, body BodyRef) bool {
			(*body.Attestations)[i].Signature = InfinitySignature()
			return true
		})
		signDom := func(a *phase0.Attestation, dom common.BLSDomain) {
			keys := make([]int, 0, len(who))
			for _, v := range who {
				if k, ok := m.key(v); ok {
					keys = append(keys, k)
				}
			}
			a.Signature = c.Keys.SignAggregate(keys, common.ComputeSigningRoot(a.Data.HashTreeRoot(tree.GetHashFn()), dom))
		}
		ver := func(a *phase0.Attestation) common.Version {
			if a.Data.Target.Epoch < m.fork.Epoch {
				return m.fork.PreviousVersion
			}
			return m.fork.CurrentVersion
		}
		m.add(lbl("signature:cross-domain(sync-committee)"), "attestation.signature.domain", true, func(_ *SignedBlock, body BodyRef) bool {
			a := &(*body.Attestations)[i]
			signDom(a, common.ComputeDomain(common.DOMAIN_SYNC_COMMITTEE, ver(a), c.GenesisValidatorsRoot))
			return true
		})
		m.add(lbl("signature:cross-fork(other-version)"), "attestation.signature.fork", true, func(_ *SignedBlock, body BodyRef) bool {
			a := &(*body.Attestations)[i]
			v := m.fork.CurrentVersion
			if ver(a) == v {
				v = m.otherVersion()
			}
			if v == ver(a) {
				return false
			}
			signDom(a, common.ComputeDomain(common.DOMAIN_BEACON_ATTESTER, v, c.GenesisValidatorsRoot))
			return true
		})
		m.add(lbl("signature:cross-chain(other-genesis-validators-root)"), "attestation.signature.chain", true, func(_ *SignedBlock, body BodyRef) bool {
			a := &(*body.Attestations)[i]
			signDom(a, common.ComputeDomain(common.DOMAIN_BEACON_ATTESTER, ver(a), otherRoot(c.GenesisValidatorsRoot)))
			return true
		})
	}
}

// freshAttestation makes a fully valid-looking attestation of committee 0 of slot a (honest data as the
// pre-block state sees it, signed by the whole committee).
func (m *mutator) freshAttestation(a common.Slot) (*phase0.Attestation, bool) {
	spec := m.c.Spec
	e := spec.SlotToEpoch(a)
	if e != m.epoch && e != m.epoch.Previous() {
		return nil, false
	}
	com, err := m.epc.GetBeaconCommittee(a, 0)
	if err != nil || len(com) == 0 {
		return nil, false
	}
	d := phase0.AttestationData{Slot: a}
	if a < m.s.Slot {
		if d.BeaconBlockRoot, err = common.GetBlockRootAtSlot(spec, m.st, a); err != nil {
			return nil, false
		}
	} else {
		d.BeaconBlockRoot = *m.s.Block.Header().ParentRoot
	}
	d.Target.Epoch = e
	if ss, _ := spec.EpochStartSlot(e); ss < m.s.Slot {
		if d.Target.Root, err = common.GetBlockRoot(spec, m.st, e); err != nil {
			return nil, false
		}
	} else {
		d.Target.Root = d.BeaconBlockRoot
	}
	if e == m.epoch {
		d.Source, err = m.st.CurrentJustifiedCheckpoint()
	} else {
		d.Source, err = m.st.PreviousJustifiedCheckpoint()
	}
	if err != nil {
		return nil, false
	}
	bits := newBitlist(len(com))
	for j := range com {
		bits.SetBit(uint64(j), true)
	}
	return &phase0.Attestation{AggregationBits: bits, Data: d, Signature: m.c.SignIndexed(m.st, &d, com)}, true
}

// inclusionWindow: off-by-one on both sides of the inclusion window, with otherwise perfect attestations.
func (m *mutator) inclusionWindow() {
	spec := m.c.Spec
	slot := m.s.Slot
	room := func(body BodyRef) bool { return uint64(len(*body.Attestations)) < uint64(spec.MAX_ATTESTATIONS) }
	inject := func(label, rule string, valid bool, a common.Slot) {
		f := func(_ *SignedBlock, body BodyRef) bool {
			if !room(body) {
				return false
			}
			att, ok := m.freshAttestation(a)
			if !ok {
				return false
			}
			*body.Attestations = append(*body.Attestations, *att)
			return true
		}
		if valid {
			m.addValid(label, f)
		} else {
			m.add(label, rule, true, f)
		}
	}
	// newest side: delay 0 is too new, delay MIN_ATTESTATION_INCLUSION_DELAY is the first allowed one
	inject("attestation+.inclusion_delay:0(too-new)", "attestation.inclusion.too-new", false, slot)
	if slot >= spec.MIN_ATTESTATION_INCLUSION_DELAY {
		inject("attestation+.inclusion_delay:min(allowed)", "valid", true, slot-spec.MIN_ATTESTATION_INCLUSION_DELAY)
	}
	// oldest side
	if ForkOfState(m.st) < Deneb {
		if slot >= spec.SLOTS_PER_EPOCH {
			inject("attestation+.inclusion_delay:slots_per_epoch(allowed)", "valid", true, slot-spec.SLOTS_PER_EPOCH)
		}
		if slot >= spec.SLOTS_PER_EPOCH+1 && spec.SlotToEpoch(slot-spec.SLOTS_PER_EPOCH-1)+1 == m.epoch {
			inject("attestation+.inclusion_delay:slots_per_epoch+1(too-old)", "attestation.inclusion.too-old", false, slot-spec.SLOTS_PER_EPOCH-1)
		}
	} else if m.epoch >= 1 {
		// deneb: everything of the previous epoch is allowed, however old
		first := common.Slot(m.epoch-1) * spec.SLOTS_PER_EPOCH
		if slot-first > spec.SLOTS_PER_EPOCH {
			inject("attestation+.inclusion_delay:first-slot-of-previous-epoch(allowed-since-deneb)", "valid", true, first)
		}
	}
}

// ---------------------------------------------------------------------------------------------- slashings

func (m *mutator) proposerSlashings(max int) {
	c := m.c
	for n, info := range m.opsOf(OpProposerSlashing) {
		if n >= max {
			break
		}
		i := info.Index
		lbl := func(s string) string { return fmt.Sprintf("proposer_slashing[%d].%s", i, s) }
		k, _ := m.key(info.Validators[0])
		m.add(lbl("headers:identical"), "proposer_slashing.headers-differ", true, func(_ *SignedBlock, body BodyRef) bool {
			ps := &(*body.ProposerSlashings)[i]
			ps.SignedHeader2 = ps.SignedHeader1
			return true
		})
		m.add(lbl("header_2.slot:+1"), "proposer_slashing.same-slot", true, func(_ *SignedBlock, body BodyRef) bool {
			ps := &(*body.ProposerSlashings)[i]
			h := ps.SignedHeader2.Message
			h.Slot++
			ps.SignedHeader2 = c.SignHeader(m.st, h, k)
			return true
		})
		m.add(lbl("header_2.proposer_index:other"), "proposer_slashing.same-proposer", true, func(_ *SignedBlock, body BodyRef) bool {
			ps := &(*body.ProposerSlashings)[i]
			h := ps.SignedHeader2.Message
			h.ProposerIndex = common.ValidatorIndex((uint64(h.ProposerIndex) + 1) % uint64(len(m.flats)))
			k2, ok := m.key(h.ProposerIndex)
			if !ok {
				return false
			}
			ps.SignedHeader2 = c.SignHeader(m.st, h, k2)
			return true
		})
		m.add(lbl("proposer_index:out-of-range"), "proposer_slashing.index", true, func(_ *SignedBlock, body BodyRef) bool {
			ps := &(*body.ProposerSlashings)[i]
			h1, h2 := ps.SignedHeader1.Message, ps.SignedHeader2.Message
			h1.ProposerIndex, h2.ProposerIndex = common.ValidatorIndex(len(m.flats)), common.ValidatorIndex(len(m.flats))
			ps.SignedHeader1, ps.SignedHeader2 = c.SignHeader(m.st, h1, k), c.SignHeader(m.st, h2, k)
			return true
		})
		m.add(lbl("header_1.signature:bitflip"), "proposer_slashing.signature", true, func(_ *SignedBlock, body BodyRef) bool {
			flip(&(*body.ProposerSlashings)[i].SignedHeader1.Signature)
			return true
		})
		m.add(lbl("header_2.signature:other-key"), "proposer_slashing.signature", true, func(_ *SignedBlock, body BodyRef) bool {
			ps := &(*body.ProposerSlashings)[i]
			ps.SignedHeader2 = c.SignHeader(m.st, ps.SignedHeader2.Message, k+1)
			return true
		})
		m.add(lbl("header_2.signature:cross-domain(attester)"), "proposer_slashing.signature.domain", true, func(_ *SignedBlock, body BodyRef) bool {
			ps := &(*body.ProposerSlashings)[i]
			dom, err := common.GetDomain(m.st, common.DOMAIN_BEACON_ATTESTER, c.Spec.SlotToEpoch(ps.SignedHeader2.Message.Slot))
			if err != nil {
				return false
			}
			ps.SignedHeader2.Signature = c.Keys.Sign(k, common.ComputeSigningRoot(ps.SignedHeader2.Message.HashTreeRoot(tree.GetHashFn()), dom))
			return true
		})
		signHdr := func(h common.BeaconBlockHeader, ver common.Version, gvr common.Root) common.SignedBeaconBlockHeader {
			dom := common.ComputeDomain(common.DOMAIN_BEACON_PROPOSER, ver, gvr)
			return common.SignedBeaconBlockHeader{Message: h, Signature: c.Keys.Sign(k, common.ComputeSigningRoot(h.HashTreeRoot(tree.GetHashFn()), dom))}
		}
		verOf := func(h common.BeaconBlockHeader) common.Version {
			if c.Spec.SlotToEpoch(h.Slot) < m.fork.Epoch {
				return m.fork.PreviousVersion
			}
			return m.fork.CurrentVersion
		}
		m.add(lbl("header_1.signature:cross-chain(other-genesis-validators-root)"), "proposer_slashing.signature.chain", true, func(_ *SignedBlock, body BodyRef) bool {
			ps := &(*body.ProposerSlashings)[i]
			ps.SignedHeader1 = signHdr(ps.SignedHeader1.Message, verOf(ps.SignedHeader1.Message), otherRoot(c.GenesisValidatorsRoot))
			return true
		})
		m.add(lbl("header_1.signature:cross-fork(other-version)"), "proposer_slashing.signature.fork", true, func(_ *SignedBlock, body BodyRef) bool {
			ps := &(*body.ProposerSlashings)[i]
			right := verOf(ps.SignedHeader1.Message)
			wrong := m.fork.CurrentVersion
			if wrong == right {
				wrong = m.otherVersion()
			}
			if wrong == right {
				return false
			}
			ps.SignedHeader1 = signHdr(ps.SignedHeader1.Message, wrong, c.GenesisValidatorsRoot)
			return true
		})
		m.add(lbl("duplicated"), "proposer_slashing.not-slashable", true, func(_ *SignedBlock, body BodyRef) bool {
			if uint64(len(*body.ProposerSlashings)) >= uint64(c.Spec.MAX_PROPOSER_SLASHINGS) {
				return false
			}
			*body.ProposerSlashings = append(*body.ProposerSlashings, (*body.ProposerSlashings)[i])
			return true
		})
	}
	// injected: a formally perfect slashing of somebody who cannot be slashed (any more / yet)
	inject := func(label, rule string, pick func(f *common.FlatValidator) bool) {
		m.add(label, rule, true, func(_ *SignedBlock, body BodyRef) bool {
			if uint64(len(*body.ProposerSlashings)) >= uint64(c.Spec.MAX_PROPOSER_SLASHINGS) {
				return false
			}
			for vi := range m.flats {
				if !pick(&m.flats[vi]) {
					continue
				}
				v := common.ValidatorIndex(vi)
				k, ok := m.key(v)
				if !ok {
					continue
				}
				h1 := common.BeaconBlockHeader{Slot: m.s.Slot, ProposerIndex: v, BodyRoot: common.Root{1}}
				h2 := h1
				h2.BodyRoot = common.Root{2}
				*body.ProposerSlashings = append(*body.ProposerSlashings, phase0.ProposerSlashing{SignedHeader1: c.SignHeader(m.st, h1, k), SignedHeader2: c.SignHeader(m.st, h2, k)})
				return true
			}
			return false
		})
	}
	inject("proposer_slashing+:already-slashed", "proposer_slashing.not-slashable", func(f *common.FlatValidator) bool { return f.Slashed })
	inject("proposer_slashing+:not-yet-active", "proposer_slashing.not-slashable", func(f *common.FlatValidator) bool { return f.ActivationEpoch > m.epoch })
	inject("proposer_slashing+:withdrawable", "proposer_slashing.not-slashable", func(f *common.FlatValidator) bool { return f.WithdrawableEpoch <= m.epoch })
}

func (m *mutator) attesterSlashings(max int) {
	c := m.c
	for n, info := range m.opsOf(OpAttesterSlashing) {
		if n >= max {
			break
		}
		i := info.Index
		lbl := func(s string) string { return fmt.Sprintf("attester_slashing[%d].%s", i, s) }
		resign := func(a *phase0.IndexedAttestation) { a.Signature = c.SignIndexed(m.st, &a.Data, a.AttestingIndices) }
		m.add(lbl("data:identical"), "attester_slashing.slashable-data", true, func(_ *SignedBlock, body BodyRef) bool {
			as := &(*body.AttesterSlashings)[i]
			as.Attestation2.Data = as.Attestation1.Data
			resign(&as.Attestation2)
			return true
		})
		m.add(lbl("data:different-targets-no-surround"), "attester_slashing.slashable-data", true, func(_ *SignedBlock, body BodyRef) bool {
			as := &(*body.AttesterSlashings)[i]
			as.Attestation2.Data = as.Attestation1.Data
			as.Attestation2.Data.Target.Epoch++
			resign(&as.Attestation2)
			return true
		})
		if info.Detail == "surround" {
			m.add(lbl("attestations:swapped(surrounded-first)"), "attester_slashing.slashable-data", true, func(_ *SignedBlock, body BodyRef) bool {
				as := &(*body.AttesterSlashings)[i]
				as.Attestation1, as.Attestation2 = as.Attestation2, as.Attestation1
				return true
			})
		} else {
			m.addValid(lbl("attestations:swapped(double-vote-is-symmetric)"), func(_ *SignedBlock, body BodyRef) bool {
				as := &(*body.AttesterSlashings)[i]
				as.Attestation1, as.Attestation2 = as.Attestation2, as.Attestation1
				return true
			})
		}
		m.add(lbl("attestation_1.indices:unsorted"), "attester_slashing.indices-sorted", true, func(_ *SignedBlock, body BodyRef) bool {
			a := &(*body.AttesterSlashings)[i].Attestation1
			if len(a.AttestingIndices) < 2 {
				return false
			}
			a.AttestingIndices[0], a.AttestingIndices[1] = a.AttestingIndices[1], a.AttestingIndices[0]
			return true
		})
		m.add(lbl("attestation_2.indices:duplicate"), "attester_slashing.indices-sorted", true, func(_ *SignedBlock, body BodyRef) bool {
			a := &(*body.AttesterSlashings)[i].Attestation2
			a.AttestingIndices = append(common.CommitteeIndices{a.AttestingIndices[0]}, a.AttestingIndices...)
			resign(a)
			return true
		})
		m.add(lbl("attestation_1.indices:empty"), "attester_slashing.indices-nonempty", true, func(_ *SignedBlock, body BodyRef) bool {
			a := &(*body.AttesterSlashings)[i].Attestation1
			a.AttestingIndices = nil
			a.Signature = InfinitySignature()
			return true
		})
		m.add(lbl("attestation_2.indices:out-of-range"), "attester_slashing.indices-range", true, func(_ *SignedBlock, body BodyRef) bool {
			a := &(*body.AttesterSlashings)[i].Attestation2
			a.AttestingIndices = append(a.AttestingIndices, common.ValidatorIndex(len(m.flats)))
			return true
		})
		m.add(lbl("indices:disjoint"), "attester_slashing.nobody-slashed", true, func(_ *SignedBlock, body BodyRef) bool {
			as := &(*body.AttesterSlashings)[i]
			in1 := map[common.ValidatorIndex]bool{}
			for _, v := range as.Attestation1.AttestingIndices {
				in1[v] = true
			}
			var rest common.CommitteeIndices
			for _, v := range as.Attestation2.AttestingIndices {
				if !in1[v] {
					rest = append(rest, v)
				}
			}
			if len(rest) == 0 {
				for v := range m.flats {
					if !in1[common.ValidatorIndex(v)] {
						rest = common.CommitteeIndices{common.ValidatorIndex(v)}
						break
					}
				}
			}
			if len(rest) == 0 {
				return false
			}
			as.Attestation2.AttestingIndices = rest
			resign(&as.Attestation2)
			return true
		})
		m.add(lbl("attestation_1.signature:bitflip"), "attester_slashing.signature", true, func(_ *SignedBlock, body BodyRef) bool {
			flip(&(*body.AttesterSlashings)[i].Attestation1.Signature)
			return true
		})
		m.add(lbl("attestation_2.signature:cross-domain(proposer)"), "attester_slashing.signature.domain", true, func(_ *SignedBlock, body BodyRef) bool {
			a := &(*body.AttesterSlashings)[i].Attestation2
			dom, err := common.GetDomain(m.st, common.DOMAIN_BEACON_PROPOSER, a.Data.Target.Epoch)
			if err != nil {
				return false
			}
			var keys []int
			for _, v := range a.AttestingIndices {
				if k, ok := m.key(v); ok {
					keys = append(keys, k)
				}
			}
			a.Signature = c.Keys.SignAggregate(keys, common.ComputeSigningRoot(a.Data.HashTreeRoot(tree.GetHashFn()), dom))
			return true
		})
		m.add(lbl("attestation_1.signature:cross-chain(other-genesis-validators-root)"), "attester_slashing.signature.chain", true, func(_ *SignedBlock, body BodyRef) bool {
			a := &(*body.AttesterSlashings)[i].Attestation1
			ver := m.fork.CurrentVersion
			if a.Data.Target.Epoch < m.fork.Epoch {
				ver = m.fork.PreviousVersion
			}
			var keys []int
			for _, v := range a.AttestingIndices {
				if k, ok := m.key(v); ok {
					keys = append(keys, k)
				}
			}
			dom := common.ComputeDomain(common.DOMAIN_BEACON_ATTESTER, ver, otherRoot(c.GenesisValidatorsRoot))
			a.Signature = c.Keys.SignAggregate(keys, common.ComputeSigningRoot(a.Data.HashTreeRoot(tree.GetHashFn()), dom))
			return true
		})
		m.add(lbl("duplicated"), "attester_slashing.nobody-slashed", true, func(_ *SignedBlock, body BodyRef) bool {
			if uint64(len(*body.AttesterSlashings)) >= uint64(c.Spec.MAX_ATTESTER_SLASHINGS) {
				return false
			}
			*body.AttesterSlashings = append(*body.AttesterSlashings, (*body.AttesterSlashings)[i])
			return true
		})
	}
	// injected: a correct double vote of validators that are all already slashed
	m.add("attester_slashing+:all-already-slashed", "attester_slashing.nobody-slashed", true, func(_ *SignedBlock, body BodyRef) bool {
		if uint64(len(*body.AttesterSlashings)) >= uint64(c.Spec.MAX_ATTESTER_SLASHINGS) {
			return false
		}
		var who common.CommitteeIndices
		for v := range m.flats {
			if m.flats[v].Slashed && len(who) < 3 {
				who = append(who, common.ValidatorIndex(v))
			}
		}
		if len(who) == 0 {
			return false
		}
		d1 := phase0.AttestationData{Slot: m.s.Slot, Target: common.Checkpoint{Epoch: m.epoch}, BeaconBlockRoot: common.Root{1}}
		d2 := d1
		d2.BeaconBlockRoot = common.Root{2}
		*body.AttesterSlashings = append(*body.AttesterSlashings, phase0.AttesterSlashing{
			Attestation1: phase0.IndexedAttestation{AttestingIndices: who, Data: d1, Signature: c.SignIndexed(m.st, &d1, who)},
			Attestation2: phase0.IndexedAttestation{AttestingIndices: who, Data: d2, Signature: c.SignIndexed(m.st, &d2, who)}})
		return true
	})
}

// ---------------------------------------------------------------------------------------------- deposits

func (m *mutator) deposits(max int) {
	c := m.c
	nDeps := len(*m.s.Block.Body().Deposits)
	for i := 0; i < nDeps && i < max; i++ {
		i := i
		lbl := func(s string) string { return fmt.Sprintf("deposit[%d].%s", i, s) }
		m.add(lbl("proof[0]:other"), "deposit.proof", true, func(_ *SignedBlock, body BodyRef) bool {
			d := &(*body.Deposits)[i]
			d.Proof[0] = otherRoot(d.Proof[0])
			return true
		})
		m.add(lbl("proof[32]:count+1"), "deposit.proof", true, func(_ *SignedBlock, body BodyRef) bool {
			d := &(*body.Deposits)[i]
			d.Proof[32][0]++
			return true
		})
		m.add(lbl("data.amount:+1"), "deposit.proof", true, func(_ *SignedBlock, body BodyRef) bool {
			(*body.Deposits)[i].Data.Amount++
			return true
		})
		m.add(lbl("data.withdrawal_credentials:other"), "deposit.proof", true, func(_ *SignedBlock, body BodyRef) bool {
			d := &(*body.Deposits)[i]
			d.Data.WithdrawalCredentials = otherRoot(d.Data.WithdrawalCredentials)
			return true
		})
	}
	if nDeps > 0 {
		m.add("deposits:last-one-missing", "deposit.count", true, func(_ *SignedBlock, body BodyRef) bool {
			*body.Deposits = (*body.Deposits)[:nDeps-1]
			return true
		})
		m.add("deposits:first-one-missing", "deposit.count", true, func(_ *SignedBlock, body BodyRef) bool {
			*body.Deposits = (*body.Deposits)[1:]
			return true
		})
		m.add("deposits:last-one-duplicated", "deposit.count", true, func(_ *SignedBlock, body BodyRef) bool {
			if uint64(nDeps) >= uint64(c.Spec.MAX_DEPOSITS) {
				return false
			}
			*body.Deposits = append(*body.Deposits, (*body.Deposits)[nDeps-1])
			return true
		})
	}
	if nDeps >= 2 {
		m.add("deposits:reordered", "deposit.proof", true, func(_ *SignedBlock, body BodyRef) bool {
			d := *body.Deposits
			d[0], d[1] = d[1], d[0]
			return true
		})
	}
	if nDeps == 0 {
		// a correctly proven deposit that the state does not expect (yet)
		m.add("deposits+:unexpected", "deposit.count", true, func(_ *SignedBlock, body BodyRef) bool {
			idx, err := m.st.Eth1DepositIndex()
			if err != nil || uint64(idx) == 0 {
				return false
			}
			e1, err := m.st.Eth1Data()
			if err != nil || uint64(e1.DepositCount) > c.Contract.Count() || uint64(idx) > uint64(e1.DepositCount) {
				return false
			}
			*body.Deposits = append(*body.Deposits, c.Contract.Deposit(uint64(idx)-1, uint64(e1.DepositCount)))
			return true
		})
	}
}

// ---------------------------------------------------------------------------------------------- exits

func (m *mutator) exits(max int) {
	c, spec := m.c, m.c.Spec
	for n, info := range m.opsOf(OpExit) {
		if n >= max {
			break
		}
		i := info.Index
		k, _ := m.key(info.Validators[0])
		lbl := func(s string) string { return fmt.Sprintf("voluntary_exit[%d].%s", i, s) }
		m.add(lbl("epoch:current+1"), "exit.epoch-reached", true, func(_ *SignedBlock, body BodyRef) bool {
			e := &(*body.VoluntaryExits)[i]
			msg := e.Message
			msg.Epoch = m.epoch + 1
			*e = c.SignExit(m.st, msg, k)
			return true
		})
		m.addValid(lbl("epoch:current(allowed)"), func(_ *SignedBlock, body BodyRef) bool {
			e := &(*body.VoluntaryExits)[i]
			msg := e.Message
			if msg.Epoch == m.epoch {
				return false
			}
			msg.Epoch = m.epoch
			*e = c.SignExit(m.st, msg, k)
			return true
		})
		m.add(lbl("validator_index:out-of-range"), "exit.index", true, func(_ *SignedBlock, body BodyRef) bool {
			e := &(*body.VoluntaryExits)[i]
			msg := e.Message
			msg.ValidatorIndex = common.ValidatorIndex(len(m.flats))
			*e = c.SignExit(m.st, msg, k)
			return true
		})
		m.add(lbl("signature:bitflip"), "exit.signature", true, func(_ *SignedBlock, body BodyRef) bool {
			flip(&(*body.VoluntaryExits)[i].Signature)
			return true
		})
		m.add(lbl("signature:other-key"), "exit.signature", true, func(_ *SignedBlock, body BodyRef) bool {
			e := &(*body.VoluntaryExits)[i]
			*e = c.SignExit(m.st, e.Message, k+1)
			return true
		})
		m.add(lbl("signature:cross-domain(proposer)"), "exit.signature.domain", true, func(_ *SignedBlock, body BodyRef) bool {
			e := &(*body.VoluntaryExits)[i]
			dom, err := common.GetDomain(m.st, common.DOMAIN_BEACON_PROPOSER, e.Message.Epoch)
			if err != nil {
				return false
			}
			e.Signature = c.Keys.Sign(k, common.ComputeSigningRoot(e.Message.HashTreeRoot(tree.GetHashFn()), dom))
			return true
		})
		m.add(lbl("signature:cross-chain(other-genesis-validators-root)"), "exit.signature.chain", true, func(_ *SignedBlock, body BodyRef) bool {
			e := &(*body.VoluntaryExits)[i]
			v := m.fork.CurrentVersion
			if ForkOfState(m.st) >= Deneb {
				v = spec.CAPELLA_FORK_VERSION
			} else if e.Message.Epoch < m.fork.Epoch {
				v = m.fork.PreviousVersion
			}
			dom := common.ComputeDomain(common.DOMAIN_VOLUNTARY_EXIT, v, otherRoot(c.GenesisValidatorsRoot))
			e.Signature = c.Keys.Sign(k, common.ComputeSigningRoot(e.Message.HashTreeRoot(tree.GetHashFn()), dom))
			return true
		})
		m.add(lbl("signature:cross-fork(other-version)"), "exit.signature.fork", true, func(_ *SignedBlock, body BodyRef) bool {
			e := &(*body.VoluntaryExits)[i]
			right := m.fork.CurrentVersion
			if ForkOfState(m.st) >= Deneb {
				right = spec.CAPELLA_FORK_VERSION
			} else if e.Message.Epoch < m.fork.Epoch {
				right = m.fork.PreviousVersion
			}
			wrong := m.fork.CurrentVersion
			if wrong == right {
				wrong = m.otherVersion()
			}
			if wrong == right {
				return false
			}
			dom := common.ComputeDomain(common.DOMAIN_VOLUNTARY_EXIT, wrong, c.GenesisValidatorsRoot)
			e.Signature = c.Keys.Sign(k, common.ComputeSigningRoot(e.Message.HashTreeRoot(tree.GetHashFn()), dom))
			return true
		})
		m.add(lbl("duplicated"), "exit.already-initiated", true, func(_ *SignedBlock, body BodyRef) bool {
			if uint64(len(*body.VoluntaryExits)) >= uint64(spec.MAX_VOLUNTARY_EXITS) {
				return false
			}
			*body.VoluntaryExits = append(*body.VoluntaryExits, (*body.VoluntaryExits)[i])
			return true
		})
	}
	if len(m.opsOf(OpExit)) >= 2 {
		m.addValid("voluntary_exits:reordered", func(_ *SignedBlock, body BodyRef) bool {
			e := *body.VoluntaryExits
			e[0], e[1] = e[1], e[0]
			return true
		})
	}
	// injected exits of validators that may not exit
	gone := map[common.ValidatorIndex]bool{}
	for _, o := range m.s.Ops {
		if o.Kind == OpExit || o.Kind == OpProposerSlashing || o.Kind == OpAttesterSlashing {
			for _, v := range o.Validators {
				gone[v] = true
			}
		}
	}
	inject := func(label, rule string, pick func(v common.ValidatorIndex, f *common.FlatValidator) bool, exitEpoch func() common.Epoch) {
		m.add(label, rule, true, func(_ *SignedBlock, body BodyRef) bool {
			if uint64(len(*body.VoluntaryExits)) >= uint64(spec.MAX_VOLUNTARY_EXITS) {
				return false
			}
			for vi := range m.flats {
				v := common.ValidatorIndex(vi)
				if gone[v] || !pick(v, &m.flats[vi]) {
					continue
				}
				k, ok := m.key(v)
				if !ok {
					continue
				}
				*body.VoluntaryExits = append(*body.VoluntaryExits, c.SignExit(m.st, phase0.VoluntaryExit{Epoch: exitEpoch(), ValidatorIndex: v}, k))
				return true
			}
			return false
		})
	}
	cur := func() common.Epoch { return m.epoch }
	inject("voluntary_exit+:too-early(shard-committee-period)", "exit.too-early", func(_ common.ValidatorIndex, f *common.FlatValidator) bool {
		return f.IsActive(m.epoch) && f.ExitEpoch == common.FAR_FUTURE_EPOCH && m.epoch < f.ActivationEpoch+spec.SHARD_COMMITTEE_PERIOD
	}, cur)
	inject("voluntary_exit+:already-exiting", "exit.already-initiated", func(_ common.ValidatorIndex, f *common.FlatValidator) bool {
		return f.IsActive(m.epoch) && f.ExitEpoch != common.FAR_FUTURE_EPOCH
	}, cur)
	inject("voluntary_exit+:not-active(exited)", "exit.not-active", func(_ common.ValidatorIndex, f *common.FlatValidator) bool {
		return f.ExitEpoch <= m.epoch
	}, cur)
	inject("voluntary_exit+:not-active(pending)", "exit.not-active", func(_ common.ValidatorIndex, f *common.FlatValidator) bool {
		return f.ActivationEpoch > m.epoch
	}, cur)
	inject("voluntary_exit+:epoch-in-future", "exit.epoch-reached", func(_ common.ValidatorIndex, f *common.FlatValidator) bool {
		return f.IsActive(m.epoch) && f.ExitEpoch == common.FAR_FUTURE_EPOCH && m.epoch >= f.ActivationEpoch+spec.SHARD_COMMITTEE_PERIOD
	}, func() common.Epoch { return m.epoch + 1 })
	// old enough by exactly zero epochs: allowed
	m.addValid("voluntary_exit+:exactly-old-enough(allowed)", func(_ *SignedBlock, body BodyRef) bool {
		if uint64(len(*body.VoluntaryExits)) >= uint64(spec.MAX_VOLUNTARY_EXITS) {
			return false
		}
		for vi := range m.flats {
			f := &m.flats[vi]
			v := common.ValidatorIndex(vi)
			if gone[v] || !(f.IsActive(m.epoch) && f.ExitEpoch == common.FAR_FUTURE_EPOCH && m.epoch == f.ActivationEpoch+spec.SHARD_COMMITTEE_PERIOD) {
				continue
			}
			k, ok := m.key(v)
			if !ok {
				continue
			}
			*body.VoluntaryExits = append(*body.VoluntaryExits, c.SignExit(m.st, phase0.VoluntaryExit{Epoch: m.epoch, ValidatorIndex: v}, k))
			return true
		}
		return false
	})
}

// ---------------------------------------------------------------------------------------------- bls changes

func (m *mutator) blsChanges(max int) {
	c, spec := m.c, m.c.Spec
	if ForkOfState(m.st) < Capella {
		return
	}
	for n, info := range m.opsOf(OpBLSChange) {
		if n >= max {
			break
		}
		i := info.Index
		k, _ := m.key(info.Validators[0])
		lbl := func(s string) string { return fmt.Sprintf("bls_to_execution_change[%d].%s", i, s) }
		m.add(lbl("from_bls_pubkey:other-withdrawal-key"), "bls_change.credentials", true, func(_ *SignedBlock, body BodyRef) bool {
			ch := (*body.BLSChanges)[i].BLSToExecutionChange
			ch.FromBLSPubKey = c.Keys.WithdrawalPubkey(k + 1)
			(*body.BLSChanges)[i] = c.SignBLSChange(ch, k+1)
			return true
		})
		m.add(lbl("from_bls_pubkey:signing-key"), "bls_change.credentials", true, func(_ *SignedBlock, body BodyRef) bool {
			ch := (*body.BLSChanges)[i].BLSToExecutionChange
			ch.FromBLSPubKey = c.Keys.Pubkey(k)
			dom := common.ComputeDomain(common.DOMAIN_BLS_TO_EXECUTION_CHANGE, spec.GENESIS_FORK_VERSION, c.GenesisValidatorsRoot)
			(*body.BLSChanges)[i] = common.SignedBLSToExecutionChange{BLSToExecutionChange: ch,
				Signature: c.Keys.Sign(k, common.ComputeSigningRoot(ch.HashTreeRoot(tree.GetHashFn()), dom))}
			return true
		})
		m.add(lbl("validator_index:out-of-range"), "bls_change.index", true, func(_ *SignedBlock, body BodyRef) bool {
			ch := (*body.BLSChanges)[i].BLSToExecutionChange
			ch.ValidatorIndex = common.ValidatorIndex(len(m.flats))
			(*body.BLSChanges)[i] = c.SignBLSChange(ch, k)
			return true
		})
		m.add(lbl("validator_index:other-validator"), "bls_change.credentials", true, func(_ *SignedBlock, body BodyRef) bool {
			ch := (*body.BLSChanges)[i].BLSToExecutionChange
			ch.ValidatorIndex = common.ValidatorIndex((uint64(ch.ValidatorIndex) + 1) % uint64(len(m.flats)))
			(*body.BLSChanges)[i] = c.SignBLSChange(ch, k)
			return true
		})
		m.add(lbl("to_execution_address:changed(not-resigned)"), "bls_change.signature", true, func(_ *SignedBlock, body BodyRef) bool {
			(*body.BLSChanges)[i].BLSToExecutionChange.ToExecutionAddress[0] ^= 1
			return true
		})
		m.add(lbl("signature:bitflip"), "bls_change.signature", true, func(_ *SignedBlock, body BodyRef) bool {
			flip(&(*body.BLSChanges)[i].Signature)
			return true
		})
		m.add(lbl("signature:signing-key"), "bls_change.signature", true, func(_ *SignedBlock, body BodyRef) bool {
			ch := &(*body.BLSChanges)[i]
			dom := common.ComputeDomain(common.DOMAIN_BLS_TO_EXECUTION_CHANGE, spec.GENESIS_FORK_VERSION, c.GenesisValidatorsRoot)
			ch.Signature = c.Keys.Sign(k, common.ComputeSigningRoot(ch.BLSToExecutionChange.HashTreeRoot(tree.GetHashFn()), dom))
			return true
		})
		m.add(lbl("signature:cross-fork(current-version-instead-of-genesis)"), "bls_change.signature.fork", true, func(_ *SignedBlock, body BodyRef) bool {
			ch := &(*body.BLSChanges)[i]
			if m.fork.CurrentVersion == spec.GENESIS_FORK_VERSION {
				return false
			}
			dom := common.ComputeDomain(common.DOMAIN_BLS_TO_EXECUTION_CHANGE, m.fork.CurrentVersion, c.GenesisValidatorsRoot)
			ch.Signature = c.Keys.SignWithdrawal(k, common.ComputeSigningRoot(ch.BLSToExecutionChange.HashTreeRoot(tree.GetHashFn()), dom))
			return true
		})
		m.add(lbl("signature:cross-domain(exit)"), "bls_change.signature.domain", true, func(_ *SignedBlock, body BodyRef) bool {
			ch := &(*body.BLSChanges)[i]
			dom := common.ComputeDomain(common.DOMAIN_VOLUNTARY_EXIT, spec.GENESIS_FORK_VERSION, c.GenesisValidatorsRoot)
			ch.Signature = c.Keys.SignWithdrawal(k, common.ComputeSigningRoot(ch.BLSToExecutionChange.HashTreeRoot(tree.GetHashFn()), dom))
			return true
		})
		m.add(lbl("signature:cross-chain(other-genesis-validators-root)"), "bls_change.signature.chain", true, func(_ *SignedBlock, body BodyRef) bool {
			ch := &(*body.BLSChanges)[i]
			dom := common.ComputeDomain(common.DOMAIN_BLS_TO_EXECUTION_CHANGE, spec.GENESIS_FORK_VERSION, otherRoot(c.GenesisValidatorsRoot))
			ch.Signature = c.Keys.SignWithdrawal(k, common.ComputeSigningRoot(ch.BLSToExecutionChange.HashTreeRoot(tree.GetHashFn()), dom))
			return true
		})
		m.add(lbl("duplicated"), "bls_change.credentials", true, func(_ *SignedBlock, body BodyRef) bool {
			if uint64(len(*body.BLSChanges)) >= uint64(spec.MAX_BLS_TO_EXECUTION_CHANGES) {
				return false
			}
			*body.BLSChanges = append(*body.BLSChanges, (*body.BLSChanges)[i])
			return true
		})
	}
	// injected: change for a validator whose credentials already are 0x01
	m.add("bls_to_execution_change+:already-execution-credentials", "bls_change.credentials", true, func(_ *SignedBlock, body BodyRef) bool {
		if uint64(len(*body.BLSChanges)) >= uint64(spec.MAX_BLS_TO_EXECUTION_CHANGES) {
			return false
		}
		vals, err := m.st.Validators()
		if err != nil {
			return false
		}
		for vi := range m.flats {
			v, err := vals.Validator(common.ValidatorIndex(vi))
			if err != nil {
				return false
			}
			wc, err := v.WithdrawalCredentials()
			if err != nil || wc[0] != common.ETH1_ADDRESS_WITHDRAWAL_PREFIX {
				continue
			}
			k, ok := m.key(common.ValidatorIndex(vi))
			if !ok {
				continue
			}
			ch := common.BLSToExecutionChange{ValidatorIndex: common.ValidatorIndex(vi), FromBLSPubKey: c.Keys.WithdrawalPubkey(k), ToExecutionAddress: c.Keys.ExecutionAddress(k)}
			*body.BLSChanges = append(*body.BLSChanges, c.SignBLSChange(ch, k))
			return true
		}
		return false
	})
}

// ---------------------------------------------------------------------------------------------- sync aggregate

func (m *mutator) syncAggregate() {
	c := m.c
	if ForkOfState(m.st) < Altair || m.epc.CurrentSyncCommittee == nil {
		return
	}
	size := uint64(c.Spec.SYNC_COMMITTEE_SIZE)
	keysOf := func(bits altair.SyncCommitteeBits) []int {
		var keys []int
		for i := uint64(0); i < size; i++ {
			if bits.GetBit(i) {
				if k, ok := m.key(m.epc.CurrentSyncCommittee.Indices[i]); ok {
					keys = append(keys, k)
				}
			}
		}
		return keys
	}
	prev := m.s.Slot.Previous()
	blockRoot, err := common.GetBlockRootAtSlot(c.Spec, m.st, prev)
	if err != nil {
		return
	}
	verAt := func(e common.Epoch) common.Version {
		if e < m.fork.Epoch {
			return m.fork.PreviousVersion
		}
		return m.fork.CurrentVersion
	}
	right := verAt(c.Spec.SlotToEpoch(prev))
	m.add("sync_aggregate.signature:bitflip", "sync_aggregate.signature", true, func(_ *SignedBlock, body BodyRef) bool {
		flip(&body.SyncAggregate.SyncCommitteeSignature)
		return true
	})
	m.add("sync_aggregate.bits:extra-participant", "sync_aggregate.signature", true, func(_ *SignedBlock, body BodyRef) bool {
		for i := uint64(0); i < size; i++ {
			if !body.SyncAggregate.SyncCommitteeBits.GetBit(i) {
				body.SyncAggregate.SyncCommitteeBits.SetBit(i, true)
				return true
			}
		}
		return false
	})
	m.add("sync_aggregate.bits:missing-participant", "sync_aggregate.signature", true, func(_ *SignedBlock, body BodyRef) bool {
		n := 0
		for i := uint64(0); i < size; i++ {
			if body.SyncAggregate.SyncCommitteeBits.GetBit(i) {
				n++
			}
		}
		if n < 2 {
			return false
		}
		for i := uint64(0); i < size; i++ {
			if body.SyncAggregate.SyncCommitteeBits.GetBit(i) {
				body.SyncAggregate.SyncCommitteeBits.SetBit(i, false)
				return true
			}
		}
		return false
	})
	m.add("sync_aggregate.bits:none-but-signature-kept", "sync_aggregate.signature", true, func(_ *SignedBlock, body BodyRef) bool {
		if len(keysOf(body.SyncAggregate.SyncCommitteeBits)) == 0 {
			return false
		}
		body.SyncAggregate.SyncCommitteeBits = make(altair.SyncCommitteeBits, (size+7)/8)
		return true
	})
	m.add("sync_aggregate.bits:length+8", "sync_aggregate.bits.length", true, func(_ *SignedBlock, body BodyRef) bool {
		body.SyncAggregate.SyncCommitteeBits = append(body.SyncAggregate.SyncCommitteeBits, 0)
		return true
	})
	m.add("sync_aggregate.signature:signs-current-block-parent-state-root", "sync_aggregate.signature", true, func(_ *SignedBlock, body BodyRef) bool {
		keys := keysOf(body.SyncAggregate.SyncCommitteeBits)
		if len(keys) == 0 {
			return false
		}
		dom := common.ComputeDomain(common.DOMAIN_SYNC_COMMITTEE, right, c.GenesisValidatorsRoot)
		body.SyncAggregate.SyncCommitteeSignature = c.Keys.SignAggregate(keys, common.ComputeSigningRoot(otherRoot(blockRoot), dom))
		return true
	})
	m.add("sync_aggregate.signature:cross-domain(attester)", "sync_aggregate.signature.domain", true, func(_ *SignedBlock, body BodyRef) bool {
		keys := keysOf(body.SyncAggregate.SyncCommitteeBits)
		if len(keys) == 0 {
			return false
		}
		dom := common.ComputeDomain(common.DOMAIN_BEACON_ATTESTER, right, c.GenesisValidatorsRoot)
		body.SyncAggregate.SyncCommitteeSignature = c.Keys.SignAggregate(keys, common.ComputeSigningRoot(blockRoot, dom))
		return true
	})
	m.add("sync_aggregate.signature:cross-fork(other-version)", "sync_aggregate.signature.fork", true, func(_ *SignedBlock, body BodyRef) bool {
		keys := keysOf(body.SyncAggregate.SyncCommitteeBits)
		wrong := m.fork.CurrentVersion
		if wrong == right {
			wrong = m.otherVersion()
		}
		if len(keys) == 0 || wrong == right {
			return false
		}
		dom := common.ComputeDomain(common.DOMAIN_SYNC_COMMITTEE, wrong, c.GenesisValidatorsRoot)
		body.SyncAggregate.SyncCommitteeSignature = c.Keys.SignAggregate(keys, common.ComputeSigningRoot(blockRoot, dom))
		return true
	})
	m.add("sync_aggregate.signature:cross-chain(other-genesis-validators-root)", "sync_aggregate.signature.chain", true, func(_ *SignedBlock, body BodyRef) bool {
		keys := keysOf(body.SyncAggregate.SyncCommitteeBits)
		if len(keys) == 0 {
			return false
		}
		dom := common.ComputeDomain(common.DOMAIN_SYNC_COMMITTEE, right, otherRoot(c.GenesisValidatorsRoot))
		body.SyncAggregate.SyncCommitteeSignature = c.Keys.SignAggregate(keys, common.ComputeSigningRoot(blockRoot, dom))
		return true
	})
}

// ---------------------------------------------------------------------------------------------- payload

func (m *mutator) payload() {
	c, spec := m.c, m.c.Spec
	f := ForkOfState(m.st)
	if f < Bellatrix {
		return
	}
	_, _, preMerge, err := payloadParent(m.st)
	if err != nil {
		return
	}
	empty := len(m.opsOf(OpEmptyPayload)) > 0
	if !empty {
		if !preMerge {
			m.add("payload.parent_hash:other", "payload.parent_hash", true, func(_ *SignedBlock, body BodyRef) bool {
				*body.Payload.ParentHash = otherRoot(*body.Payload.ParentHash)
				return true
			})
		}
		m.add("payload.prev_randao:other", "payload.prev_randao", true, func(_ *SignedBlock, body BodyRef) bool {
			*body.Payload.PrevRandao = otherRoot(*body.Payload.PrevRandao)
			return true
		})
		m.add("payload.prev_randao:post-block-mix", "payload.prev_randao", true, func(_ *SignedBlock, body BodyRef) bool {
			mixes, err := m.s.Post.RandaoMixes()
			if err != nil {
				return false
			}
			mix, err := mixes.GetRandomMix(m.epoch)
			if err != nil {
				return false
			}
			*body.Payload.PrevRandao = mix
			return true
		})
		m.add("payload.timestamp:+1", "payload.timestamp", true, func(_ *SignedBlock, body BodyRef) bool { *body.Payload.Timestamp++; return true })
		m.add("payload.timestamp:-1", "payload.timestamp", true, func(_ *SignedBlock, body BodyRef) bool { *body.Payload.Timestamp--; return true })
		m.add("payload.timestamp:next-slot", "payload.timestamp", true, func(_ *SignedBlock, body BodyRef) bool {
			*body.Payload.Timestamp += spec.SECONDS_PER_SLOT
			return true
		})
	} else {
		// before the merge an empty payload is the only thing that needs no engine; a payload with a wrong
		// timestamp turns the block into a (bad) merge transition block
		m.add("payload:nonempty-with-wrong-timestamp", "payload.timestamp", true, func(_ *SignedBlock, body BodyRef) bool {
			mixes, err := m.st.RandaoMixes()
			if err != nil {
				return false
			}
			if *body.Payload.PrevRandao, err = mixes.GetRandomMix(m.epoch); err != nil {
				return false
			}
			*body.Payload.BlockHash = common.Root{1}
			*body.Payload.Timestamp = 1
			return true
		})
	}
	if f >= Capella {
		nw := len(m.s.ExpectedWithdrawals)
		if nw > 0 {
			m.add("payload.withdrawals:last-one-missing", "payload.withdrawals", true, func(_ *SignedBlock, body BodyRef) bool {
				*body.Payload.Withdrawals = (*body.Payload.Withdrawals)[:nw-1]
				return true
			})
			m.add("payload.withdrawals[0].amount:+1", "payload.withdrawals", true, func(_ *SignedBlock, body BodyRef) bool {
				(*body.Payload.Withdrawals)[0].Amount++
				return true
			})
			m.add("payload.withdrawals[0].address:other", "payload.withdrawals", true, func(_ *SignedBlock, body BodyRef) bool {
				(*body.Payload.Withdrawals)[0].Address[0] ^= 1
				return true
			})
			m.add("payload.withdrawals[0].index:+1", "payload.withdrawals", true, func(_ *SignedBlock, body BodyRef) bool {
				(*body.Payload.Withdrawals)[0].Index++
				return true
			})
			m.add("payload.withdrawals[0].validator_index:+1", "payload.withdrawals", true, func(_ *SignedBlock, body BodyRef) bool {
				(*body.Payload.Withdrawals)[0].ValidatorIndex++
				return true
			})
			m.add("payload.withdrawals:last-one-duplicated", "payload.withdrawals", true, func(_ *SignedBlock, body BodyRef) bool {
				if uint64(nw) >= uint64(spec.MAX_WITHDRAWALS_PER_PAYLOAD) {
					return false
				}
				*body.Payload.Withdrawals = append(*body.Payload.Withdrawals, (*body.Payload.Withdrawals)[nw-1])
				return true
			})
		}
		if nw >= 2 {
			m.add("payload.withdrawals:reordered", "payload.withdrawals", true, func(_ *SignedBlock, body BodyRef) bool {
				w := *body.Payload.Withdrawals
				w[0], w[1] = w[1], w[0]
				return true
			})
		}
		if nw == 0 {
			m.add("payload.withdrawals+:unexpected", "payload.withdrawals", true, func(_ *SignedBlock, body BodyRef) bool {
				*body.Payload.Withdrawals = append(*body.Payload.Withdrawals, common.Withdrawal{Index: 0, ValidatorIndex: 0, Amount: 1})
				return true
			})
		}
	}
	if f >= Deneb {
		m.add("blob_kzg_commitments:max_blobs_per_block+1", "payload.blob-limit", true, func(_ *SignedBlock, body BodyRef) bool {
			for uint64(len(*body.BlobKZGCommitments)) <= uint64(spec.MAX_BLOBS_PER_BLOCK) {
				*body.BlobKZGCommitments = append(*body.BlobKZGCommitments, common.KZGCommitment(c.Keys.Pubkey(0)))
			}
			return true
		})
		m.addValid("blob_kzg_commitments:exactly-max_blobs_per_block(allowed)", func(_ *SignedBlock, body BodyRef) bool {
			if uint64(len(*body.BlobKZGCommitments)) == uint64(spec.MAX_BLOBS_PER_BLOCK) {
				return false
			}
			for uint64(len(*body.BlobKZGCommitments)) < uint64(spec.MAX_BLOBS_PER_BLOCK) {
				*body.BlobKZGCommitments = append(*body.BlobKZGCommitments, common.KZGCommitment(c.Keys.Pubkey(0)))
			}
			return true
		})
	}
}

// ---------------------------------------------------------------------------------------------- list limits, order

func (m *mutator) lists() {
	spec := m.c.Spec
	body0 := m.s.Block.Body()
	if n := len(*body0.Attestations); n > 0 {
		m.add("attestations:max_attestations+1", "limits.attestations", true, func(_ *SignedBlock, body BodyRef) bool {
			for uint64(len(*body.Attestations)) <= uint64(spec.MAX_ATTESTATIONS) {
				*body.Attestations = append(*body.Attestations, (*body.Attestations)[0])
			}
			return true
		})
		m.addValid("attestations:first-one-duplicated(allowed)", func(_ *SignedBlock, body BodyRef) bool {
			if uint64(len(*body.Attestations)) >= uint64(spec.MAX_ATTESTATIONS) {
				return false
			}
			*body.Attestations = append(*body.Attestations, (*body.Attestations)[0])
			return true
		})
		if n >= 2 {
			m.addValid("attestations:reordered(allowed)", func(_ *SignedBlock, body BodyRef) bool {
				a := *body.Attestations
				a[0], a[n-1] = a[n-1], a[0]
				return true
			})
		}
	}
	if n := len(*body0.VoluntaryExits); n > 0 {
		m.add("voluntary_exits:max_voluntary_exits+1", "limits.voluntary_exits", true, func(_ *SignedBlock, body BodyRef) bool {
			for uint64(len(*body.VoluntaryExits)) <= uint64(spec.MAX_VOLUNTARY_EXITS) {
				*body.VoluntaryExits = append(*body.VoluntaryExits, (*body.VoluntaryExits)[0])
			}
			return true
		})
	}
	if n := len(*body0.ProposerSlashings); n > 0 {
		m.add("proposer_slashings:max_proposer_slashings+1", "limits.proposer_slashings", true, func(_ *SignedBlock, body BodyRef) bool {
			for uint64(len(*body.ProposerSlashings)) <= uint64(spec.MAX_PROPOSER_SLASHINGS) {
				*body.ProposerSlashings = append(*body.ProposerSlashings, (*body.ProposerSlashings)[0])
			}
			return true
		})
	}
	if n := len(*body0.AttesterSlashings); n > 0 {
		m.add("attester_slashings:max_attester_slashings+1", "limits.attester_slashings", true, func(_ *SignedBlock, body BodyRef) bool {
			for uint64(len(*body.AttesterSlashings)) <= uint64(spec.MAX_ATTESTER_SLASHINGS) {
				*body.AttesterSlashings = append(*body.AttesterSlashings, (*body.AttesterSlashings)[0])
			}
			return true
		})
	}
	if n := len(*body0.Deposits); n > 0 {
		m.add("deposits:max_deposits+1", "limits.deposits", true, func(_ *SignedBlock, body BodyRef) bool {
			for uint64(len(*body.Deposits)) <= uint64(spec.MAX_DEPOSITS) {
				*body.Deposits = append(*body.Deposits, (*body.Deposits)[0])
			}
			return true
		})
	}
	if body0.BLSChanges != nil && len(*body0.BLSChanges) > 0 {
		m.add("bls_to_execution_changes:max+1", "limits.bls_to_execution_changes", true, func(_ *SignedBlock, body BodyRef) bool {
			for uint64(len(*body.BLSChanges)) <= uint64(spec.MAX_BLS_TO_EXECUTION_CHANGES) {
				*body.BLSChanges = append(*body.BLSChanges, (*body.BLSChanges)[0])
			}
			return true
		})
	}
}

// ---------------------------------------------------------------------------------------------- other fork's format

// convertBlock re-expresses block b in the format of fork f, copying every field both formats share.
func convertBlock(b *SignedBlock, f Fork) *SignedBlock {
	n := NewBlock(f)
	sh, dh := b.Header(), n.Header()
	*dh.Slot, *dh.ProposerIndex, *dh.ParentRoot, *dh.StateRoot, *dh.Signature = *sh.Slot, *sh.ProposerIndex, *sh.ParentRoot, *sh.StateRoot, *sh.Signature
	sb, db := b.Body(), n.Body()
	*db.RandaoReveal, *db.Eth1Data, *db.Graffiti = *sb.RandaoReveal, *sb.Eth1Data, *sb.Graffiti
	*db.ProposerSlashings, *db.AttesterSlashings, *db.Attestations = *sb.ProposerSlashings, *sb.AttesterSlashings, *sb.Attestations
	*db.Deposits, *db.VoluntaryExits = *sb.Deposits, *sb.VoluntaryExits
	if sb.SyncAggregate != nil && db.SyncAggregate != nil {
		*db.SyncAggregate = *sb.SyncAggregate
	} else if db.SyncAggregate != nil {
		// an absent sync aggregate becomes the empty one (the shape is not known without a spec: leave nil bits)
		db.SyncAggregate.SyncCommitteeSignature = InfinitySignature()
	}
	if sb.Payload != nil && db.Payload != nil {
		s, d := sb.Payload, db.Payload
		*d.ParentHash, *d.FeeRecipient, *d.StateRoot, *d.ReceiptsRoot, *d.LogsBloom, *d.PrevRandao = *s.ParentHash, *s.FeeRecipient, *s.StateRoot, *s.ReceiptsRoot, *s.LogsBloom, *s.PrevRandao
		*d.BlockNumber, *d.GasLimit, *d.GasUsed, *d.Timestamp, *d.ExtraData, *d.BaseFeePerGas = *s.BlockNumber, *s.GasLimit, *s.GasUsed, *s.Timestamp, *s.ExtraData, *s.BaseFeePerGas
		*d.BlockHash, *d.Transactions = *s.BlockHash, *s.Transactions
		if s.Withdrawals != nil && d.Withdrawals != nil {
			*d.Withdrawals = *s.Withdrawals
		}
	}
	if sb.BLSChanges != nil && db.BLSChanges != nil {
		*db.BLSChanges = *sb.BLSChanges
	}
	if sb.BlobKZGCommitments != nil && db.BlobKZGCommitments != nil {
		*db.BlobKZGCommitments = *sb.BlobKZGCommitments
	}
	return n
}

func (m *mutator) crossFork() {
	c := m.c
	f := ForkOfState(m.st)
	try := func(g Fork, name string) {
		b := convertBlock(m.s.Block.Clone(c.Spec), g)
		if sa := b.Body().SyncAggregate; sa != nil && len(sa.SyncCommitteeBits) == 0 {
			sa.SyncCommitteeBits = make(altair.SyncCommitteeBits, (uint64(c.Spec.SYNC_COMMITTEE_SIZE)+7)/8)
		}
		c.SignBlock(b, m.st)
		m.out = append(m.out, Mutant{Label: "block.format:" + name + "(" + g.String() + ")", Rule: "block.fork-format", Resigned: true, Block: b})
	}
	if f > Phase0 {
		try(f-1, "previous-fork")
	}
	if f < Deneb {
		try(f+1, "next-fork")
	}
}

// engine: the block is untouched, the execution engine disagrees.
func (m *mutator) engine() {
	if len(m.s.EngineCalls) == 0 {
		return
	}
	b := m.s.Block
	m.out = append(m.out,
		Mutant{Label: "engine:invalid-block-hash", Rule: "payload.engine-invalid", Resigned: false, Block: b, Engine: []Verdict{EngineInvalid}},
		Mutant{Label: "engine:error", Rule: "payload.engine-error", Resigned: false, Block: b, Engine: []Verdict{EngineError}})
	if n := len(m.s.EngineCalls); n >= 2 {
		script := make([]Verdict, n)
		script[n-1] = EngineInvalid
		m.out = append(m.out, Mutant{Label: "engine:invalid-on-notify", Rule: "payload.engine-invalid", Block: b, Engine: script})
		script2 := make([]Verdict, n)
		script2[n-1] = EngineError
		m.out = append(m.out, Mutant{Label: "engine:error-on-notify", Rule: "payload.engine-error", Block: b, Engine: script2})
	}
}

// ByteMutations returns up to n mutants made by changing one byte of the block's SSZ encoding somewhere in the
// message (not in the outer signature), keeping only those that still decode, re-signed by the proposer.
// Whether such a block is valid is not known by construction (Rule "ssz-byte", Unclassified): almost all
// are invalid (stale state root at the least), the consumer's oracle decides.
func (c *Chain) ByteMutations(s *Step, n int, seed int64) (out []Mutant) {
	if s == nil || s.Block == nil {
		return nil
	}
	rng := rngFor(seed, "ssz-byte-mutations")
	raw := s.Block.Bytes(c.Spec)
	for tries := 0; len(out) < n && tries < 20*n; tries++ {
		b := append([]byte(nil), raw...)
		// the signed block is (offset:4, signature:96, message...): stay inside the message
		pos := 100 + rng.Intn(len(b)-100)
		var x byte
		switch rng.Intn(3) {
		case 0:
			x = 1 << uint(rng.Intn(8))
		case 1:
			x = 0xff
		default:
			x = byte(1 + rng.Intn(255))
		}
		b[pos] ^= x
		blk, err := DecodeBlock(c.Spec, s.Block.Fork, b)
		if err != nil {
			continue
		}
		c.SignBlock(blk, s.PreBlock)
		out = append(out, Mutant{Label: fmt.Sprintf("ssz.byte[%d]^=%#02x", pos, x), Rule: "ssz-byte", Unclassified: true, Resigned: true, Block: blk})
	}
	return out
}

// Outcome of applying a mutant to the real code.
type Outcome struct {
	Accepted bool
	Err      error // rejection reason (nil if accepted or panicked)
	Panic    interface{}
	Post     common.BeaconState
}

// ApplyMutant runs the real common.StateTransition (full validation, fresh epochs context, copy of step.Pre)
// on a mutant, with the engine scripted as the mutant asks; a panic is caught and reported.
func (c *Chain) ApplyMutant(s *Step, mu *Mutant) (o Outcome) {
	mark := c.Engine.Mark()
	saved, savedPer := c.Engine.script, c.Engine.per
	c.Engine.script, c.Engine.per = append([]Verdict(nil), mu.Engine...), map[string][]Verdict{}
	defer func() {
		c.Engine.script, c.Engine.per = saved, savedPer
		c.Engine.truncate(mark)
		if r := recover(); r != nil {
			o = Outcome{Panic: r}
		}
	}()
	post, err := s.Apply(mu.Block)
	if err != nil {
		return Outcome{Err: err}
	}
	return Outcome{Accepted: true, Post: post}
}
