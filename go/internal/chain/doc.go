// Package chain is the reusable chain generator of the verification harness: it produces VALID beacon chains
// on the REAL zrnt code (/repo) for phase0, altair, bellatrix, capella and deneb, deterministically from a
// seed, offline, with real BLS (blsu) signatures.
//
// # What it gives a consumer
//
//	cfg  := chain.Fast(1, 2, 3, 4)                      // or Minimal(), MinimalAt(..), RandomConfig(seed), ConfigByID(id)
//	c, _ := chain.NewChain(cfg, 64, "mixed", seed)      // genesis through the real genesis code
//	step, err := c.NextSlot(nil)                        // one slot: skip, or build+sign+apply a block of the real proposer
//	step.Pre, step.PreEpc                               // state / live epochs context before the slot (copies)
//	step.PreBlock, step.PreBlockEpc                     // after ProcessSlots, before the block
//	step.Block (typed, .Fork, .Bytes(spec)), step.Post, step.PostEpc, step.PostRoot
//	step.Ops                                            // operations in the block with their kinds
//	step.ExpectedWithdrawals, step.EngineCalls
//	step.Envelope() / step.EnvelopeOf(block)            // envelope for common.StateTransition on a copy of step.Pre
//	step.Apply(block) / step.ApplyPlain(block)          // run the real transition on a copy of step.Pre
//	c.Mutations(step, maxPerKind) []Mutant              // single-corruption mutants of the block (C03)
//	c.ApplyMutant(step, &m) Outcome                     // real transition on a mutant, panic caught
//	chain.CopyState / WrapState / CopyEpc / FreshEpc    // copies; StateBytes / DecodeState / DecodeBlock: SSZ
//	c.Counters.Summary()                                // what happened (ops per kind, forks, finality, leak ...)
//
// # Keys
//
// KeySet (Keys() is the shared instance): key i has a signing key pair and an independent withdrawal key pair;
// BLSCredentials(i) = 0x00 || sha256(withdrawal pubkey)[1:], ExecutionCredentials(i) = 0x01 || 0^11 || address(i).
// Genesis validator v uses key v; later deposits use the next unused key. Sign is cached; SignAggregate signs
// once with the sum of the secret keys (the same bytes as aggregating the single signatures). With
// KeySet.Record every produced signature is logged (signers, message, signature): the provenance table.
//
// # Configurations
//
// Minimal() / Mainnet() are the published presets untouched; MinimalAt(a,b,c,d) only sets the fork epochs;
// Fast(a,b,c,d) is minimal with every waiting time cut down (exits after 1 epoch, withdrawable 1 epoch later,
// eth1 voting period 1 epoch, sync-committee period 2 epochs, leak after 2 epochs, ejection at 31 ETH, ...) so
// that every kind of event happens within a handful of epochs; RandomConfig(seed) randomises fork epochs
// (monotone: equal, adjacent, far future, never, 0 = genesis already in a later fork), SLOTS_PER_EPOCH 4/8,
// committee parameters, churn, SHARD_COMMITTEE_PERIOD, withdrawability delay, MAX_SEED_LOOKAHEAD, ejection
// balance, hysteresis, leak parameters, eth1 voting period, sync-committee size/period, every MAX_* per-block
// limit, SECONDS_PER_SLOT and the state vector lengths, inside the structural constraints noted in config.go.
// Every configuration is identified by a string (Config.ID) from which ConfigByID re-creates it.
//
// Round 2 added families in which constants that coincide in the minimal preset are pulled apart (the old ids
// keep producing the very same chains; TestGoldenChains pins that):
//
//	apart:<seed>           per-fork constants pairwise different across forks (MIN_SLASHING_PENALTY_QUOTIENT*,
//	                       PROPORTIONAL_SLASHING_MULTIPLIER*, INACTIVITY_PENALTY_QUOTIENT*), activation cap != churn,
//	                       all MAX_* per-block limits pairwise different, TARGET_COMMITTEE_SIZE != MAX_COMMITTEES_PER_SLOT,
//	                       vector lengths that are not powers of two (SLOTS_PER_HISTORICAL_ROOT 3/5/6/12 epochs,
//	                       EPOCHS_PER_HISTORICAL_VECTOR 12/24/72/96, EPOCHS_PER_SLASHINGS_VECTOR 6/10/12/48,
//	                       SYNC_COMMITTEE_SIZE 12/20/24), sweep 7/11/13/311, waiting times pairwise different,
//	                       MIN_ATTESTATION_INCLUSION_DELAY untouched, SLOTS_PER_EPOCH 8 or 6, strictly increasing
//	                       fork schedule through all five forks
//	                       round 3 (applyApart3): for part of the seeds SLOTS_PER_HISTORICAL_ROOT is NOT a multiple of
//	                       SLOTS_PER_EPOCH (15/8, 11/6: period 1; 20/8, 14/6: period 2 with forks 2,4,6,8; 20/6: period 3
//	                       with forks 3,6,9,12), MAX_EFFECTIVE_BALANCE 16 or 64 ETH with many new deposits above the cap,
//	                       MAX_BLOBS_PER_BLOCK 7/9/12 with blocks carrying that many; always: eth1 voting period not a
//	                       divisor of SLOTS_PER_HISTORICAL_ROOT, slashings vector != historical vector, every electra
//	                       constant different from the earlier constant of the same unit
//	apart0:<seed>          apart:<seed> as it was before round 3
//	rand2:<seed>           rand:<seed> with each "apart" ingredient applied with probability 1/2
//	rand3:<seed>           rand2:<seed> with each round-3 ingredient applied with probability 1/2
//	mainnetconst@a,b,c,d   the published mainnet preset+config with SLOTS_PER_EPOCH 8
//	fast2@a,b,c,d          fast@ with a 4-epoch eth1 voting period and MAX_DEPOSITS 3 (for policy "showcase")
//
// # Genesis
//
// phase0.KickStartStateWithSignatures (default) or phase0.GenesisFromEth1 with proofs and signatures verified
// (GenesisOpts.Mode "eth1"), over the harness's own incremental deposit-contract tree (DepositTree), whose
// root/count must reproduce the state's eth1_data. zrnt only has a phase0 genesis; when the spec's first
// fork epochs are 0, the phase0 genesis state is upgraded at slot 0 with the real Upgrade* functions and gets
// fork = (version, version, 0), the empty-body latest_block_header of that fork and (bellatrix+, optional)
// a non-empty execution payload header — the consensus spec's testing-only later-fork genesis.
//
// # Blocks
//
// NextSlot builds the block on the post-slots state: RANDAO reveal, eth1 vote (all blocks of a voting period
// vote for the contract snapshot taken at its start, so new deposits get adopted; occasional noise votes),
// proposer slashings (real double proposals where the victim did propose, else two signed headers),
// attester slashings (double and surround votes; at least one slashable, not yet slashed validator in the
// intersection), attestations for every slot of the inclusion window (per-epoch participation pattern:
// full, just over / just under 2/3 of the stake, sparse, nobody; held-back, split and overlapping
// aggregates; a few wrong-head / wrong-target votes), the deposits the state demands with Merkle proofs
// against the adopted snapshot (new validators, invalid proofs of possession, top-ups, repeats), voluntary
// exits, BLS-to-execution changes (capella+), the sync aggregate with a random subset of bits (altair+), the
// execution payload (bellatrix+: empty before the merge, then the merge transition block; parent hash,
// prev_randao, timestamp as prescribed; capella+: the withdrawals capella.GetExpectedWithdrawals returns for
// the pre-block state, also exposed as Step.ExpectedWithdrawals; deneb: 0..MAX_BLOBS_PER_BLOCK commitments).
// The state root comes from a first run of the real ProcessBlock without result validation; the block is then
// signed and — unless SlotOpts.NoVerify — run again from step.Pre through the real common.StateTransition
// with signature and state-root validation ON. A slot whose proposer is slashed is skipped (Step.Forced).
// The execution engine is MockEngine: answers valid by default, scriptable per call (valid / invalid /
// error), records the arguments of every call.
//
// # Unusual but valid block shapes (round 2)
//
// Policy knobs, all off in the round-1 policies: LateMode (planned inclusion delays: minimum, isqrt(SLOTS_PER_EPOCH)
// -1/+0/+1, exactly SLOTS_PER_EPOCH, and in deneb later than SLOTS_PER_EPOCH), ReincludeProb (aggregates included
// again as supersets), BurstProb / OpMix.Fill (exactly MAX_x proposer slashings, attester slashings, exits,
// deposits, BLS changes in one block), PayloadEdgeProb / OpMix.PayloadEdge (extra_data of 0/31/32 bytes, no or
// several transactions, 0 or MAX_BLOBS_PER_BLOCK commitments), ExitAtEarliest (deposit-activated validators exit in
// the first block of activation_epoch + SHARD_COMMITTEE_PERIOD), Showcase (the first slot of every fork epoch has
// a block with every signed operation kind, deposits included by timing the eth1 votes). Named policies: late,
// full, edge, earlyexit, showcase, leak-recover-calm. Counters.Ops records that the shapes occur: att_delay:<bucket>,
// attestation_reincluded, block_full:<list>, extra_data:<n>, txs:0 / txs:many, voluntary_exit:at-earliest,
// fork_boundary_block:<fork>, fork_boundary_complete:<fork>, fork_boundary_missing:<kind>, eth1_vote:held.
//
// # Sibling chains
//
// c.Branch(seed) deep-copies the chain at its head (state, deposit contract, duties, participation sets, key
// bookkeeping, eth1 vote, counters; own spec copy, own MockEngine, fresh epochs context, new random stream):
// siblings advance independently with different blocks from the common ancestor.
//
// # The /repo defect the generator works around (see Chain.FollowCodeSyncCommittee)
//
// common.ProcessSlots hands EpochsContext.RotateEpochs the UpgradeableBeaconState wrapper
// (*beacon.StandardUpgradeableBeaconState). RotateEpochs asks `state.(SyncCommitteeBeaconState)`; the wrapper
// embeds the interface common.BeaconState and therefore does not have CurrentSyncCommittee/NextSyncCommittee,
// so the assertion is false and the epochs context's sync committees are never rotated. From the first
// period boundary at which the state's current sync committee really changes, the live epochs context names
// a stale committee: the real transition rejects a block whose sync aggregate is signed by the state's
// committee ("invalid sync committee signature") and accepts one signed by the stale committee, paying the
// stale members. By default the generator produces spec-correct blocks and reloads the sync committees from
// the state after slot processing (RepairSyncCommittees); Counters.EpcRepairs / PlainRejected count how often
// that mattered. With FollowCodeSyncCommittee the blocks are what the unpatched code accepts.
//
// # Trust and limits
//
// Proposers, committees and sync committees are read from the real EpochsContext and domains from the real
// common.GetDomain: their correctness is what C07/C08/C03 establish, the generator does not second-guess
// them (except for the sync-committee reload above). Withdrawals come from the repo's GetExpectedWithdrawals
// as exposed in Step.ExpectedWithdrawals. A Chain is not safe for concurrent use, and chains should not be
// run concurrently in one process at all: ztyp caches hash-tree-roots inside tree nodes without
// synchronisation and the default subtrees of global type definitions are shared by all states.
//
// # Harness mode
//
// Mode "chainselftest" (selftest.go): op lines
// `chain <cfgId> <n> <seed> <slots> [balances] [policy] [mutants=k] [mode=eth1] [followcode] [branch=k] [want:...]`;
// Exec builds the chain and answers `ok <counters>` or `err slot=<n>`.
package chain
