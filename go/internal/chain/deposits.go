package chain

import (
	"encoding/binary"
	"fmt"

	"github.com/protolambda/zrnt/eth2/beacon/common"
	"github.com/protolambda/ztyp/tree"
)

// DepositTree is the deposit contract seen from the consensus layer: an append-only list of DepositData
// whose hash-tree-root (a depth-32 Merkle tree of the data roots with the count mixed in) is what
// eth1_data.deposit_root commits to. Roots and proofs can be taken against any historical size, because a
// block's deposits are proven against the snapshot (deposit_root, deposit_count) the state has adopted,
// not against the newest contract state.
type DepositTree struct {
	Data   []common.DepositData
	leaves []common.Root
}

var zeroHashes = func() (z [common.DEPOSIT_CONTRACT_TREE_DEPTH + 1]common.Root) {
	for i := 1; i < len(z); i++ {
		z[i] = tree.Hash(z[i-1], z[i-1])
	}
	return
}()

// Add appends a deposit and returns its index.
func (t *DepositTree) Add(d common.DepositData) uint64 {
	t.Data = append(t.Data, d)
	t.leaves = append(t.leaves, d.HashTreeRoot(tree.GetHashFn()))
	return uint64(len(t.leaves) - 1)
}

// Count is the current number of deposits in the contract.
func (t *DepositTree) Count() uint64 { return uint64(len(t.leaves)) }

func lengthMixin(count uint64) (r common.Root) {
	binary.LittleEndian.PutUint64(r[:8], count)
	return
}

// walk computes the depth-32 root over the first count leaves; if branch != nil it also collects the
// sibling path of leaf index.
func (t *DepositTree) walk(count uint64, index uint64, branch []common.Root) common.Root {
	layer := append([]common.Root(nil), t.leaves[:count]...)
	for d := 0; d < common.DEPOSIT_CONTRACT_TREE_DEPTH; d++ {
		if branch != nil {
			sib := (index >> uint(d)) ^ 1
			if sib < uint64(len(layer)) {
				branch[d] = layer[sib]
			} else {
				branch[d] = zeroHashes[d]
			}
		}
		next := make([]common.Root, 0, (len(layer)+1)/2)
		for i := 0; i < len(layer); i += 2 {
			r := zeroHashes[d]
			if i+1 < len(layer) {
				r = layer[i+1]
			}
			next = append(next, tree.Hash(layer[i], r))
		}
		layer = next
	}
	if len(layer) == 0 {
		return zeroHashes[common.DEPOSIT_CONTRACT_TREE_DEPTH]
	}
	return layer[0]
}

// RootAt is the deposit root when the contract held exactly count deposits.
func (t *DepositTree) RootAt(count uint64) common.Root {
	if count > t.Count() {
		panic(fmt.Sprintf("deposit tree: root at %d > count %d", count, t.Count()))
	}
	return tree.Hash(t.walk(count, 0, nil), lengthMixin(count))
}

// Root is the current deposit root.
func (t *DepositTree) Root() common.Root { return t.RootAt(t.Count()) }

// Proof returns the 33-element Merkle branch of deposit index against the tree of the first count deposits.
func (t *DepositTree) Proof(index, count uint64) (p common.DepositProof) {
	if index >= count || count > t.Count() {
		panic(fmt.Sprintf("deposit tree: proof %d/%d (have %d)", index, count, t.Count()))
	}
	t.walk(count, index, p[:common.DEPOSIT_CONTRACT_TREE_DEPTH])
	p[common.DEPOSIT_CONTRACT_TREE_DEPTH] = lengthMixin(count)
	return
}

// Deposit returns deposit index with its proof against the snapshot of size count.
func (t *DepositTree) Deposit(index, count uint64) common.Deposit {
	return common.Deposit{Proof: t.Proof(index, count), Data: t.Data[index]}
}

// Eth1DataAt is the eth1 data an honest proposer would vote for when the contract held count deposits.
// The block hash is a deterministic function of count (there is no real eth1 chain).
func (t *DepositTree) Eth1DataAt(count uint64) common.Eth1Data {
	var h common.Root
	binary.LittleEndian.PutUint64(h[:8], count)
	h[31] = 0xe1
	return common.Eth1Data{DepositRoot: t.RootAt(count), DepositCount: common.DepositIndex(count), BlockHash: tree.Hash(h, h)}
}
