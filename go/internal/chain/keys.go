package chain

import (
	"crypto/sha256"
	"encoding/binary"
	"sort"
	"sync"

	kbls "github.com/kilic/bls12-381"
	blsu "github.com/protolambda/bls12-381-util"
	"github.com/protolambda/zrnt/eth2/beacon/common"
	"github.com/protolambda/zrnt/eth2/util/hashing"
)

// KeySet is an unbounded, lazily filled, deterministic set of BLS key pairs.
//
// Key i has a *signing* key pair (the validator key) and a *withdrawal* key pair (a second, independent
// key whose hashed public key forms the 0x00 BLS withdrawal credentials, so BLS-to-execution changes can
// be signed). All keys are a pure function of the index: the same index gives the same key in every
// process. The set is safe for concurrent use; public keys and single-key signatures are cached.
type KeySet struct {
	mu      sync.Mutex
	sk      []*blsu.SecretKey
	pk      []common.BLSPubkey
	wsk     []*blsu.SecretKey
	wpk     []common.BLSPubkey
	byPub   map[common.BLSPubkey]int
	byWPub  map[common.BLSPubkey]int
	sigs    map[sigKey]common.BLSSignature
	Signed  uint64 // number of signing operations actually performed (not cache hits)
	Record  bool   // when set, every produced signature is appended to Log (provenance table)
	Log     []SigRecord
	maxSigs int
}

// SigRecord is one line of signature provenance: which keys signed which 32-byte message.
// Withdrawal keys are recorded as -(index+1).
type SigRecord struct {
	Keys      []int
	Message   common.Root
	Signature common.BLSSignature
}

type sigKey struct {
	key int // withdrawal keys: -(i+1)
	msg common.Root
}

var (
	defaultKeys     *KeySet
	defaultKeysOnce sync.Once
)

// Keys returns the process-wide shared key set (so that key derivation is paid once per process).
func Keys() *KeySet {
	defaultKeysOnce.Do(func() { defaultKeys = NewKeySet() })
	return defaultKeys
}

func NewKeySet() *KeySet {
	return &KeySet{
		byPub:   map[common.BLSPubkey]int{},
		byWPub:  map[common.BLSPubkey]int{},
		sigs:    map[sigKey]common.BLSSignature{},
		maxSigs: 1 << 16,
	}
}

func deriveSecret(tag string, i int) *blsu.SecretKey {
	var buf [8]byte
	for ctr := uint64(0); ; ctr++ {
		h := sha256.New()
		h.Write([]byte(tag))
		binary.LittleEndian.PutUint64(buf[:], uint64(i))
		h.Write(buf[:])
		binary.LittleEndian.PutUint64(buf[:], ctr)
		h.Write(buf[:])
		var b [32]byte
		copy(b[:], h.Sum(nil))
		b[0] &= 0x3f // keep below the group order r (~2^254.8) so that no reduction happens
		var sk blsu.SecretKey
		if err := sk.Deserialize(&b); err == nil {
			return &sk
		}
	}
}

// ensure derives keys up to and including index i. Caller holds mu.
func (k *KeySet) ensure(i int) {
	for len(k.sk) <= i {
		j := len(k.sk)
		sk := deriveSecret("verif-chain-signing-key", j)
		wsk := deriveSecret("verif-chain-withdrawal-key", j)
		pub, err := blsu.SkToPk(sk)
		if err != nil {
			panic(err)
		}
		wpub, err := blsu.SkToPk(wsk)
		if err != nil {
			panic(err)
		}
		p, wp := common.BLSPubkey(pub.Serialize()), common.BLSPubkey(wpub.Serialize())
		k.sk = append(k.sk, sk)
		k.wsk = append(k.wsk, wsk)
		k.pk = append(k.pk, p)
		k.wpk = append(k.wpk, wp)
		k.byPub[p] = j
		k.byWPub[wp] = j
	}
}

// Secret returns the signing secret key of key i.
func (k *KeySet) Secret(i int) *blsu.SecretKey {
	k.mu.Lock()
	defer k.mu.Unlock()
	k.ensure(i)
	return k.sk[i]
}

// SecretBytes returns the 32-byte big-endian form (what phase0.KickStartStateWithSignatures wants).
func (k *KeySet) SecretBytes(i int) [32]byte { return k.Secret(i).Serialize() }

// Pubkey returns the compressed signing public key of key i.
func (k *KeySet) Pubkey(i int) common.BLSPubkey {
	k.mu.Lock()
	defer k.mu.Unlock()
	k.ensure(i)
	return k.pk[i]
}

// WithdrawalSecret returns the withdrawal secret key of key i.
func (k *KeySet) WithdrawalSecret(i int) *blsu.SecretKey {
	k.mu.Lock()
	defer k.mu.Unlock()
	k.ensure(i)
	return k.wsk[i]
}

// WithdrawalPubkey returns the compressed withdrawal public key of key i.
func (k *KeySet) WithdrawalPubkey(i int) common.BLSPubkey {
	k.mu.Lock()
	defer k.mu.Unlock()
	k.ensure(i)
	return k.wpk[i]
}

// IndexOf maps a signing public key back to its key index (only for keys derived so far).
func (k *KeySet) IndexOf(pub common.BLSPubkey) (int, bool) {
	k.mu.Lock()
	defer k.mu.Unlock()
	i, ok := k.byPub[pub]
	return i, ok
}

// BLSCredentials are the 0x00 withdrawal credentials of key i: 0x00 || sha256(withdrawal pubkey)[1:].
func (k *KeySet) BLSCredentials(i int) common.Root {
	wp := k.WithdrawalPubkey(i)
	h := hashing.Hash(wp[:])
	h[0] = common.BLS_WITHDRAWAL_PREFIX
	return h
}

// ExecutionAddress is the deterministic execution-layer address associated with key i.
func (k *KeySet) ExecutionAddress(i int) (a common.Eth1Address) {
	var buf [8]byte
	binary.LittleEndian.PutUint64(buf[:], uint64(i))
	h := sha256.Sum256(append([]byte("verif-chain-exec-address"), buf[:]...))
	copy(a[:], h[:20])
	return
}

// ExecutionCredentials are the 0x01 withdrawal credentials of key i: 0x01 || 0^11 || address.
func (k *KeySet) ExecutionCredentials(i int) (c common.Root) {
	a := k.ExecutionAddress(i)
	c[0] = common.ETH1_ADDRESS_WITHDRAWAL_PREFIX
	copy(c[12:], a[:])
	return
}

func (k *KeySet) record(keys []int, msg common.Root, sig common.BLSSignature) {
	if k.Record {
		k.Log = append(k.Log, SigRecord{Keys: append([]int(nil), keys...), Message: msg, Signature: sig})
	}
}

func (k *KeySet) signWith(id int, sk *blsu.SecretKey, msg common.Root) common.BLSSignature {
	key := sigKey{id, msg}
	k.mu.Lock()
	if s, ok := k.sigs[key]; ok {
		k.mu.Unlock()
		return s
	}
	k.mu.Unlock()
	sig := common.BLSSignature(blsu.Sign(sk, msg[:]).Serialize())
	k.mu.Lock()
	if len(k.sigs) >= k.maxSigs {
		k.sigs = map[sigKey]common.BLSSignature{}
	}
	k.sigs[key] = sig
	k.Signed++
	k.record([]int{id}, msg, sig)
	k.mu.Unlock()
	return sig
}

// Sign signs the 32-byte signing root with signing key i (real BLS; cached).
func (k *KeySet) Sign(i int, msg common.Root) common.BLSSignature {
	return k.signWith(i, k.Secret(i), msg)
}

// SignWithdrawal signs with the withdrawal key of key i.
func (k *KeySet) SignWithdrawal(i int, msg common.Root) common.BLSSignature {
	return k.signWith(-(i + 1), k.WithdrawalSecret(i), msg)
}

// InfinitySignature is the compressed G2 point at infinity (the aggregate of no signatures).
func InfinitySignature() (s common.BLSSignature) {
	s[0] = 0xc0
	return
}

// SignAggregate returns the aggregate signature of the given signing keys (with multiplicity: a key listed
// twice signs twice) over one common message. It is computed as one signature with the sum of the secret
// keys, which is the same group element — hence the same bytes — as aggregating the individual
// signatures, at the price of a single signing operation. No keys: the point at infinity.
func (k *KeySet) SignAggregate(keys []int, msg common.Root) common.BLSSignature {
	if len(keys) == 0 {
		return InfinitySignature()
	}
	if len(keys) == 1 {
		return k.Sign(keys[0], msg)
	}
	sum := kbls.NewFr().Zero()
	for _, i := range keys {
		sum.Add(sum, (*kbls.Fr)(k.Secret(i)))
	}
	if sum.IsZero() {
		// cannot be signed as one key (would never happen with hashed keys); aggregate the long way
		sigs := make([]*blsu.Signature, 0, len(keys))
		for _, i := range keys {
			sigs = append(sigs, blsu.Sign(k.Secret(i), msg[:]))
		}
		agg, err := blsu.Aggregate(sigs)
		if err != nil {
			panic(err)
		}
		return agg.Serialize()
	}
	sig := common.BLSSignature(blsu.Sign((*blsu.SecretKey)(sum), msg[:]).Serialize())
	k.mu.Lock()
	k.Signed++
	if k.Record {
		s := append([]int(nil), keys...)
		sort.Ints(s)
		k.record(s, msg, sig)
	}
	k.mu.Unlock()
	return sig
}
