package chain

import (
	"crypto/sha256"
	"encoding/hex"
	"fmt"
	"testing"

	"github.com/protolambda/ztyp/tree"
)

// goldenLines: chains of configuration ids / policies that existed at the end of round 1. Other components'
// evidence depends on them reproducing bit for bit, so later additions to the generator must not disturb them.
var goldenLines = []struct {
	cfg, bal, policy string
	n                int
	seed             int64
	slots            int
	want             string
}{
	{"fast@1,2,3,4", "mixed", "default", 64, 1, 48, "551e97149b360c214c37a151"},
	{"fast@0,0,1,2", "mixed", "eventful", 48, 7, 40, "d29f4f843517cdc052d63682"},
	{"rand:6", "poor", "default", 32, 6, 48, "ec701702677ad8174acd835a"},
	{"rand:9", "mixed", "exits", 100, 9, 40, "6a399a518d5b5cbc322278e3"},
	{"minimal@1,2,3,4", "uniform", "quiet", 64, 2, 40, "c58aaca84fa16375f1bef4e0"},
	{"fast@2,4,6,8", "uniform", "leak-recover", 48, 3, 80, "30de59bde2c44932d44511a3"},
	{"fast@1,2,3,4", "poor", "deposits", 64, 4, 64, "cdda6c00e040cc2f687f1251"},
}

func goldenDigest(t *testing.T, cfgID, bal, policy string, n int, seed int64, slots int) string {
	cfg, err := ConfigByID(cfgID)
	if err != nil {
		t.Fatal(err)
	}
	c, err := NewChain(cfg, n, bal, seed)
	if err != nil {
		t.Fatal(err)
	}
	c.Policy = PolicyByName(policy)
	h := sha256.New()
	for i := 0; i < slots; i++ {
		s, err := c.NextSlot(&SlotOpts{NoVerify: true})
		if err != nil {
			t.Fatal(err)
		}
		if s.Block != nil {
			h.Write(s.Block.Bytes(c.Spec))
		}
	}
	r := c.State.HashTreeRoot(tree.GetHashFn())
	h.Write(r[:])
	return hex.EncodeToString(h.Sum(nil)[:12])
}

func TestGoldenChains(t *testing.T) {
	for _, g := range goldenLines {
		got := goldenDigest(t, g.cfg, g.bal, g.policy, g.n, g.seed, g.slots)
		if g.want == "" {
			fmt.Printf("GOLDEN {%q, %q, %q, %d, %d, %d, %q},\n", g.cfg, g.bal, g.policy, g.n, g.seed, g.slots, got)
		} else if got != g.want {
			t.Errorf("%s %s %s n=%d seed=%d: digest %s, want %s (an existing chain changed)", g.cfg, g.bal, g.policy, g.n, g.seed, got, g.want)
		}
	}
}
