package chain

import (
	"bytes"
	"fmt"

	"github.com/protolambda/zrnt/eth2/beacon"
	"github.com/protolambda/zrnt/eth2/beacon/altair"
	"github.com/protolambda/zrnt/eth2/beacon/bellatrix"
	"github.com/protolambda/zrnt/eth2/beacon/capella"
	"github.com/protolambda/zrnt/eth2/beacon/common"
	"github.com/protolambda/zrnt/eth2/beacon/deneb"
	"github.com/protolambda/zrnt/eth2/beacon/phase0"
	"github.com/protolambda/ztyp/codec"
	"github.com/protolambda/ztyp/tree"
	"github.com/protolambda/ztyp/view"
)

// BlockObj is what every fork's *SignedBeaconBlock offers.
type BlockObj interface {
	common.SpecObj
	common.EnvelopeBuilder
}

// SignedBlock is a typed signed beacon block together with the fork whose format it has. Exactly the field
// named after Fork is non-nil; Obj is the same pointer as an interface.
type SignedBlock struct {
	Fork      Fork
	Obj       BlockObj
	Phase0    *phase0.SignedBeaconBlock
	Altair    *altair.SignedBeaconBlock
	Bellatrix *bellatrix.SignedBeaconBlock
	Capella   *capella.SignedBeaconBlock
	Deneb     *deneb.SignedBeaconBlock
}

// NewBlock allocates an empty signed block of the given fork.
func NewBlock(f Fork) *SignedBlock {
	b := &SignedBlock{Fork: f}
	switch f {
	case Phase0:
		b.Phase0 = new(phase0.SignedBeaconBlock)
		b.Obj = b.Phase0
	case Altair:
		b.Altair = new(altair.SignedBeaconBlock)
		b.Obj = b.Altair
	case Bellatrix:
		b.Bellatrix = new(bellatrix.SignedBeaconBlock)
		b.Obj = b.Bellatrix
	case Capella:
		b.Capella = new(capella.SignedBeaconBlock)
		b.Obj = b.Capella
	case Deneb:
		b.Deneb = new(deneb.SignedBeaconBlock)
		b.Obj = b.Deneb
	default:
		panic(fmt.Sprintf("unsupported fork %d", f))
	}
	return b
}

// HeaderRef gives fork-independent pointers into the block's outer fields.
type HeaderRef struct {
	Slot          *common.Slot
	ProposerIndex *common.ValidatorIndex
	ParentRoot    *common.Root
	StateRoot     *common.Root
	Signature     *common.BLSSignature
}

// PayloadRef gives fork-independent pointers into an execution payload (bellatrix+). Withdrawals is nil
// before capella; BlobGasUsed/ExcessBlobGas are nil before deneb.
type PayloadRef struct {
	ParentHash    *common.Hash32
	FeeRecipient  *common.Eth1Address
	StateRoot     *common.Bytes32
	ReceiptsRoot  *common.Bytes32
	LogsBloom     *common.LogsBloom
	PrevRandao    *common.Bytes32
	BlockNumber   *view.Uint64View
	GasLimit      *view.Uint64View
	GasUsed       *view.Uint64View
	Timestamp     *common.Timestamp
	ExtraData     *common.ExtraData
	BaseFeePerGas *view.Uint256View
	BlockHash     *common.Hash32
	Transactions  *common.PayloadTransactions
	Withdrawals   *common.Withdrawals
	BlobGasUsed   *view.Uint64View
	ExcessBlobGas *view.Uint64View
}

// BodyRef gives fork-independent pointers into the block body. Fields a fork does not have are nil.
type BodyRef struct {
	RandaoReveal       *common.BLSSignature
	Eth1Data           *common.Eth1Data
	Graffiti           *common.Root
	ProposerSlashings  *phase0.ProposerSlashings
	AttesterSlashings  *phase0.AttesterSlashings
	Attestations       *phase0.Attestations
	Deposits           *phase0.Deposits
	VoluntaryExits     *phase0.VoluntaryExits
	SyncAggregate      *altair.SyncAggregate               // altair+
	Payload            *PayloadRef                         // bellatrix+
	BLSChanges         *common.SignedBLSToExecutionChanges // capella+
	BlobKZGCommitments *deneb.KZGCommitments               // deneb
}

// Header returns pointers to slot, proposer, parent root, state root and signature.
func (b *SignedBlock) Header() HeaderRef {
	switch b.Fork {
	case Phase0:
		m := &b.Phase0.Message
		return HeaderRef{&m.Slot, &m.ProposerIndex, &m.ParentRoot, &m.StateRoot, &b.Phase0.Signature}
	case Altair:
		m := &b.Altair.Message
		return HeaderRef{&m.Slot, &m.ProposerIndex, &m.ParentRoot, &m.StateRoot, &b.Altair.Signature}
	case Bellatrix:
		m := &b.Bellatrix.Message
		return HeaderRef{&m.Slot, &m.ProposerIndex, &m.ParentRoot, &m.StateRoot, &b.Bellatrix.Signature}
	case Capella:
		m := &b.Capella.Message
		return HeaderRef{&m.Slot, &m.ProposerIndex, &m.ParentRoot, &m.StateRoot, &b.Capella.Signature}
	default:
		m := &b.Deneb.Message
		return HeaderRef{&m.Slot, &m.ProposerIndex, &m.ParentRoot, &m.StateRoot, &b.Deneb.Signature}
	}
}

// Body returns pointers to the body fields.
func (b *SignedBlock) Body() BodyRef {
	switch b.Fork {
	case Phase0:
		x := &b.Phase0.Message.Body
		return BodyRef{RandaoReveal: &x.RandaoReveal, Eth1Data: &x.Eth1Data, Graffiti: &x.Graffiti,
			ProposerSlashings: &x.ProposerSlashings, AttesterSlashings: &x.AttesterSlashings, Attestations: &x.Attestations,
			Deposits: &x.Deposits, VoluntaryExits: &x.VoluntaryExits}
	case Altair:
		x := &b.Altair.Message.Body
		return BodyRef{RandaoReveal: &x.RandaoReveal, Eth1Data: &x.Eth1Data, Graffiti: &x.Graffiti,
			ProposerSlashings: &x.ProposerSlashings, AttesterSlashings: &x.AttesterSlashings, Attestations: &x.Attestations,
			Deposits: &x.Deposits, VoluntaryExits: &x.VoluntaryExits, SyncAggregate: &x.SyncAggregate}
	case Bellatrix:
		x := &b.Bellatrix.Message.Body
		p := &x.ExecutionPayload
		return BodyRef{RandaoReveal: &x.RandaoReveal, Eth1Data: &x.Eth1Data, Graffiti: &x.Graffiti,
			ProposerSlashings: &x.ProposerSlashings, AttesterSlashings: &x.AttesterSlashings, Attestations: &x.Attestations,
			Deposits: &x.Deposits, VoluntaryExits: &x.VoluntaryExits, SyncAggregate: &x.SyncAggregate,
			Payload: &PayloadRef{ParentHash: &p.ParentHash, FeeRecipient: &p.FeeRecipient, StateRoot: &p.StateRoot,
				ReceiptsRoot: &p.ReceiptsRoot, LogsBloom: &p.LogsBloom, PrevRandao: &p.PrevRandao, BlockNumber: &p.BlockNumber,
				GasLimit: &p.GasLimit, GasUsed: &p.GasUsed, Timestamp: &p.Timestamp, ExtraData: &p.ExtraData,
				BaseFeePerGas: &p.BaseFeePerGas, BlockHash: &p.BlockHash, Transactions: &p.Transactions}}
	case Capella:
		x := &b.Capella.Message.Body
		p := &x.ExecutionPayload
		return BodyRef{RandaoReveal: &x.RandaoReveal, Eth1Data: &x.Eth1Data, Graffiti: &x.Graffiti,
			ProposerSlashings: &x.ProposerSlashings, AttesterSlashings: &x.AttesterSlashings, Attestations: &x.Attestations,
			Deposits: &x.Deposits, VoluntaryExits: &x.VoluntaryExits, SyncAggregate: &x.SyncAggregate,
			BLSChanges: &x.BLSToExecutionChanges,
			Payload: &PayloadRef{ParentHash: &p.ParentHash, FeeRecipient: &p.FeeRecipient, StateRoot: &p.StateRoot,
				ReceiptsRoot: &p.ReceiptsRoot, LogsBloom: &p.LogsBloom, PrevRandao: &p.PrevRandao, BlockNumber: &p.BlockNumber,
				GasLimit: &p.GasLimit, GasUsed: &p.GasUsed, Timestamp: &p.Timestamp, ExtraData: &p.ExtraData,
				BaseFeePerGas: &p.BaseFeePerGas, BlockHash: &p.BlockHash, Transactions: &p.Transactions, Withdrawals: &p.Withdrawals}}
	default:
		x := &b.Deneb.Message.Body
		p := &x.ExecutionPayload
		return BodyRef{RandaoReveal: &x.RandaoReveal, Eth1Data: &x.Eth1Data, Graffiti: &x.Graffiti,
			ProposerSlashings: &x.ProposerSlashings, AttesterSlashings: &x.AttesterSlashings, Attestations: &x.Attestations,
			Deposits: &x.Deposits, VoluntaryExits: &x.VoluntaryExits, SyncAggregate: &x.SyncAggregate,
			BLSChanges: &x.BLSToExecutionChanges, BlobKZGCommitments: &x.BlobKZGCommitments,
			Payload: &PayloadRef{ParentHash: &p.ParentHash, FeeRecipient: &p.FeeRecipient, StateRoot: &p.StateRoot,
				ReceiptsRoot: &p.ReceiptsRoot, LogsBloom: &p.LogsBloom, PrevRandao: &p.PrevRandao, BlockNumber: &p.BlockNumber,
				GasLimit: &p.GasLimit, GasUsed: &p.GasUsed, Timestamp: &p.Timestamp, ExtraData: &p.ExtraData,
				BaseFeePerGas: &p.BaseFeePerGas, BlockHash: &p.BlockHash, Transactions: &p.Transactions, Withdrawals: &p.Withdrawals,
				BlobGasUsed: &p.BlobGasUsed, ExcessBlobGas: &p.ExcessBlobGas}}
	}
}

// BodyRoot is the hash-tree-root of the block body.
func (b *SignedBlock) BodyRoot(spec *common.Spec) common.Root {
	h := tree.GetHashFn()
	switch b.Fork {
	case Phase0:
		return b.Phase0.Message.Body.HashTreeRoot(spec, h)
	case Altair:
		return b.Altair.Message.Body.HashTreeRoot(spec, h)
	case Bellatrix:
		return b.Bellatrix.Message.Body.HashTreeRoot(spec, h)
	case Capella:
		return b.Capella.Message.Body.HashTreeRoot(spec, h)
	default:
		return b.Deneb.Message.Body.HashTreeRoot(spec, h)
	}
}

// BeaconHeader is the block's BeaconBlockHeader (body replaced by its root).
func (b *SignedBlock) BeaconHeader(spec *common.Spec) common.BeaconBlockHeader {
	h := b.Header()
	return common.BeaconBlockHeader{Slot: *h.Slot, ProposerIndex: *h.ProposerIndex, ParentRoot: *h.ParentRoot,
		StateRoot: *h.StateRoot, BodyRoot: b.BodyRoot(spec)}
}

// Root is the hash-tree-root of the (unsigned) block message, i.e. the block root.
func (b *SignedBlock) Root(spec *common.Spec) common.Root {
	h := b.BeaconHeader(spec)
	return h.HashTreeRoot(tree.GetHashFn())
}

// Envelope builds the BeaconBlockEnvelope that common.StateTransition consumes. version is the fork version
// the fork digest is derived from; the transition requires it to be the post-slots state's
// fork.current_version (use Chain.Envelope / Step.Envelope to get that right automatically).
func (b *SignedBlock) Envelope(spec *common.Spec, version common.Version, genesisValidatorsRoot common.Root) *common.BeaconBlockEnvelope {
	return b.Obj.Envelope(spec, common.ComputeForkDigest(version, genesisValidatorsRoot))
}

// Bytes is the SSZ encoding of the signed block.
func (b *SignedBlock) Bytes(spec *common.Spec) []byte {
	var buf bytes.Buffer
	if err := b.Obj.Serialize(spec, codec.NewEncodingWriter(&buf)); err != nil {
		panic(err) // only on writer failure; a bytes.Buffer never fails
	}
	return buf.Bytes()
}

// DecodeBlock decodes SSZ bytes as a signed block of the given fork.
func DecodeBlock(spec *common.Spec, f Fork, data []byte) (*SignedBlock, error) {
	b := NewBlock(f)
	if err := b.Obj.Deserialize(spec, codec.NewDecodingReader(bytes.NewReader(data), uint64(len(data)))); err != nil {
		return nil, err
	}
	return b, nil
}

// Clone is a deep copy (through SSZ, so nothing is shared with the original).
func (b *SignedBlock) Clone(spec *common.Spec) *SignedBlock {
	c, err := DecodeBlock(spec, b.Fork, b.Bytes(spec))
	if err != nil {
		panic(fmt.Sprintf("chain: block does not survive an SSZ round trip: %v", err))
	}
	return c
}

// StateBytes is the SSZ encoding of a (tree-backed) beacon state.
func StateBytes(state common.BeaconState) []byte {
	if u, ok := state.(*beacon.StandardUpgradeableBeaconState); ok {
		state = u.BeaconState
	}
	var buf bytes.Buffer
	if err := state.Serialize(codec.NewEncodingWriter(&buf)); err != nil {
		panic(err)
	}
	return buf.Bytes()
}

// DecodeState decodes SSZ bytes as a beacon state of the given fork.
func DecodeState(spec *common.Spec, f Fork, data []byte) (common.BeaconState, error) {
	dr := codec.NewDecodingReader(bytes.NewReader(data), uint64(len(data)))
	switch f {
	case Phase0:
		return phase0.AsBeaconStateView(phase0.BeaconStateType(spec).Deserialize(dr))
	case Altair:
		return altair.AsBeaconStateView(altair.BeaconStateType(spec).Deserialize(dr))
	case Bellatrix:
		return bellatrix.AsBeaconStateView(bellatrix.BeaconStateType(spec).Deserialize(dr))
	case Capella:
		return capella.AsBeaconStateView(capella.BeaconStateType(spec).Deserialize(dr))
	case Deneb:
		return deneb.AsBeaconStateView(deneb.BeaconStateType(spec).Deserialize(dr))
	}
	return nil, fmt.Errorf("unsupported fork %d", f)
}

// ForkOfState reports the format of a state (unwrapping a StandardUpgradeableBeaconState).
func ForkOfState(state common.BeaconState) Fork {
	switch s := state.(type) {
	case *phase0.BeaconStateView:
		return Phase0
	case *altair.BeaconStateView:
		return Altair
	case *bellatrix.BeaconStateView:
		return Bellatrix
	case *capella.BeaconStateView:
		return Capella
	case *deneb.BeaconStateView:
		return Deneb
	case *beacon.StandardUpgradeableBeaconState:
		return ForkOfState(s.BeaconState)
	}
	panic(fmt.Sprintf("chain: unsupported state type %T", state))
}
