package chain

import (
	"context"
	"errors"
	"fmt"
	"math/rand"

	"github.com/protolambda/zrnt/eth2/beacon"
	"github.com/protolambda/zrnt/eth2/beacon/altair"
	"github.com/protolambda/zrnt/eth2/beacon/bellatrix"
	"github.com/protolambda/zrnt/eth2/beacon/capella"
	"github.com/protolambda/zrnt/eth2/beacon/common"
	"github.com/protolambda/zrnt/eth2/beacon/deneb"
	"github.com/protolambda/zrnt/eth2/beacon/phase0"
	"github.com/protolambda/ztyp/tree"
	"github.com/protolambda/ztyp/view"
)

const gwei = common.Gwei(1_000_000_000)

// GenesisOpts selects how the chain starts.
type GenesisOpts struct {
	Validators int    // 16..256 (more works, slower); must be >= SLOTS_PER_EPOCH
	Balances   string // balance pattern: "uniform" | "mixed" | "rich" | "poor"   (see genesisBalances)
	Seed       int64  // everything random derives from it
	// Mode "kickstart" (default): phase0.KickStartStateWithSignatures. "eth1": phase0.GenesisFromEth1 with
	// real deposit proofs and proof/signature verification switched ON (the initialize_beacon_state_from_eth1 path).
	Mode string
	// ExecCredsEvery k: validators with index % k == k-1 start with 0x01 execution credentials, all
	// others with 0x00 BLS credentials. 0 means 4. Negative: none.
	ExecCredsEvery int
	// PostMerge: when the genesis fork is bellatrix or later, start with a non-empty latest execution
	// payload header. nil: bellatrix genesis draws it from the seed, capella+ genesis is post-merge.
	PostMerge *bool
}

// Chain is a live chain on the real zrnt state-transition code.
type Chain struct {
	Cfg      *Config
	Spec     *common.Spec // private copy of Cfg.Spec with Engine installed as ExecutionEngine
	Keys     *KeySet
	Engine   *MockEngine
	State    *beacon.StandardUpgradeableBeaconState // head state (tree-backed view; use CopyState before keeping it)
	Epc      *common.EpochsContext                  // the live epochs context belonging to State
	Contract *DepositTree                           // the deposit contract (includes the genesis deposits)
	Rng      *rand.Rand

	GenesisValidatorsRoot common.Root
	GenesisTime           common.Timestamp
	GenesisFork           Fork
	Genesis               common.BeaconState // copy of the genesis state

	// FollowCodeSyncCommittee selects how the generator deals with the /repo defect that the live epochs
	// context never rotates its sync committees (EpochsContext.RotateEpochs type-asserts the
	// UpgradeableBeaconState wrapper, see the package comment).
	//   false (default): blocks are correct by the consensus spec. After slot processing the generator
	//     reloads the sync committees of the epochs context from the state (counted in Counters.EpcRepairs);
	//     sync aggregates are signed by the state's current sync committee. A block that the plain
	//     common.StateTransition refuses for no other reason than its stale epochs context is validated
	//     through ProcessSlots + reload + PostSlotTransition instead (Step.PlainRejected, Counters.PlainRejected).
	//   true: blocks are what the real code accepts as it is: the sync aggregate is signed by whatever the
	//     live epochs context calls the current sync committee (stale after the first real rotation).
	FollowCodeSyncCommittee bool

	// Policy steers what NextSlot(nil) and the random parts of NextSlot(opts) do. Change it at any time.
	Policy Policy
	// Counters accumulate what happened so far.
	Counters Counters
	// NoHealMutants switches off the state-root healing of Mutations (see Mutant.Healed): faster, but a
	// missing check in /repo can then hide behind the mutant's stale state root.
	NoHealMutants bool
	// LastRejected is the step whose block the real code refused in the most recent NextSlot call (nil if
	// that call did not end in ErrNotAccepted); see RejectedError.
	LastRejected *Step

	duties      map[common.Slot][]*duty
	partSets    map[common.Epoch]map[common.ValidatorIndex]bool
	depMeta     []depMeta
	genesisN    int
	nextKey     int   // next never-used key index (for new-validator deposits)
	burnedKeys  []int // keys whose first deposit had an invalid proof of possession (no validator was created)
	votePeriod  uint64
	voteData    common.Eth1Data
	haveVote    bool
	proposed    map[common.Slot]common.BeaconBlockHeader // real headers of this chain (with state roots)
	mergeDelay  int                                      // bellatrix blocks still to produce before the merge transition block
	prevFlat    []common.FlatValidator
	lastFork    Fork
	lastEth1Cnt common.DepositIndex
}

// NewChain builds genesis for cfg with n validators (key i = validator i), the named balance pattern and
// seed, through the real genesis code of /repo, in whichever fork is active at epoch 0 for the spec. zrnt
// only has a phase0 genesis; for a spec whose first fork epochs are 0 the phase0 genesis state is upgraded
// at slot 0 with the real Upgrade* functions and given the fork record / empty-body header the consensus
// spec's (testing-only) later-fork genesis prescribes.
func NewChain(cfg *Config, n int, balances string, seed int64) (*Chain, error) {
	return NewChainOpts(cfg, GenesisOpts{Validators: n, Balances: balances, Seed: seed})
}

// genesisBalances draws the genesis balances.
//
//	uniform: everybody MAX_EFFECTIVE_BALANCE
//	mixed:   ~70% max; ~12% above max (33..40 ETH: partial withdrawals, capped effective balance);
//	         ~8% slightly above max by a fraction; ~10% below max (17..31.x ETH: NOT activated at genesis,
//	         a later top-up makes them eligible) — at least SLOTS_PER_EPOCH*2 validators stay at/above max
//	rich:    everybody above max (32..64 ETH)
//	poor:    first half max, second half below max (pending validators waiting for top-ups)
func genesisBalances(spec *common.Spec, rng *rand.Rand, n int, pattern string) ([]common.Gwei, error) {
	max := spec.MAX_EFFECTIVE_BALANCE
	out := make([]common.Gwei, n)
	floor := int(spec.SLOTS_PER_EPOCH) * 2
	if floor > n {
		floor = n
	}
	for i := range out {
		switch pattern {
		case "", "uniform":
			out[i] = max
		case "rich":
			out[i] = max + common.Gwei(rng.Int63n(int64(32*gwei)))
		case "poor":
			if i < n/2 || i < floor {
				out[i] = max
			} else {
				out[i] = max/2 + gwei + common.Gwei(rng.Int63n(int64(max/2-2*gwei))) // 17..31 ETH for a 32 ETH cap
			}
		case "mixed":
			r := rng.Intn(100)
			switch {
			case i < floor || r < 70:
				out[i] = max
			case r < 82:
				out[i] = max + gwei + common.Gwei(rng.Int63n(int64(8*gwei)))
			case r < 90:
				out[i] = max + common.Gwei(rng.Int63n(int64(gwei)))
			default:
				out[i] = max/2 + gwei + common.Gwei(rng.Int63n(int64(max/2-gwei))) // 17..32 ETH for a 32 ETH cap
			}
		default:
			return nil, fmt.Errorf("unknown balance pattern %q", pattern)
		}
	}
	return out, nil
}

// DepositSigningRoot is the message a deposit's proof of possession signs (fork-agnostic domain).
func DepositSigningRoot(spec *common.Spec, d *common.DepositData) common.Root {
	dom := common.ComputeDomain(common.DOMAIN_DEPOSIT, spec.GENESIS_FORK_VERSION, common.Root{})
	return common.ComputeSigningRoot(d.MessageRoot(), dom)
}

// NewChainOpts is NewChain with every genesis option.
func NewChainOpts(cfg *Config, g GenesisOpts) (c *Chain, err error) {
	defer func() {
		if r := recover(); r != nil {
			c, err = nil, fmt.Errorf("chain: panic during genesis: %v", r)
		}
	}()
	spec := cloneSpec(cfg.Spec)
	if g.Validators < int(spec.SLOTS_PER_EPOCH) {
		return nil, fmt.Errorf("need at least SLOTS_PER_EPOCH=%d validators", spec.SLOTS_PER_EPOCH)
	}
	fe := ForkEpochs(spec)
	for i := 1; i < len(fe); i++ {
		if fe[i] < fe[i-1] {
			return nil, fmt.Errorf("fork epochs are not monotone: %v", fe)
		}
	}
	c = &Chain{
		Cfg: cfg, Spec: spec, Keys: Keys(), Contract: &DepositTree{},
		Rng:      rand.New(rand.NewSource(g.Seed)),
		duties:   map[common.Slot][]*duty{},
		partSets: map[common.Epoch]map[common.ValidatorIndex]bool{},
		proposed: map[common.Slot]common.BeaconBlockHeader{},
		Policy:   DefaultPolicy(),
	}
	c.Engine = NewMockEngine(spec)
	spec.ExecutionEngine = c.Engine

	bals, err := genesisBalances(spec, c.Rng, g.Validators, g.Balances)
	if err != nil {
		return nil, err
	}
	every := g.ExecCredsEvery
	if every == 0 {
		every = 4
	}
	vals := make([]phase0.KickstartValidatorData, g.Validators)
	secrets := make([][32]byte, g.Validators)
	for i := range vals {
		creds := c.Keys.BLSCredentials(i)
		if every > 0 && i%every == every-1 {
			creds = c.Keys.ExecutionCredentials(i)
		}
		vals[i] = phase0.KickstartValidatorData{Pubkey: c.Keys.Pubkey(i), WithdrawalCredentials: creds, Balance: bals[i]}
		secrets[i] = c.Keys.SecretBytes(i)
		d := common.DepositData{Pubkey: vals[i].Pubkey, WithdrawalCredentials: creds, Amount: bals[i]}
		d.Signature = c.Keys.Sign(i, DepositSigningRoot(spec, &d))
		c.submitDeposit(d, depGenesis, i)
	}
	c.nextKey, c.genesisN = g.Validators, g.Validators

	var eth1Hash common.Root
	c.Rng.Read(eth1Hash[:])
	genesisTime := common.Timestamp(1_700_000_000 + c.Rng.Intn(1_000_000))

	var st0 *phase0.BeaconStateView
	var epc *common.EpochsContext
	switch g.Mode {
	case "", "kickstart":
		st0, epc, err = phase0.KickStartStateWithSignatures(spec, eth1Hash, genesisTime, vals, secrets)
	case "eth1":
		deps := make([]common.Deposit, g.Validators)
		for i := range deps {
			deps[i] = c.Contract.Deposit(uint64(i), uint64(i)+1)
		}
		st0, epc, err = phase0.GenesisFromEth1(spec, eth1Hash, genesisTime, deps, false)
	default:
		err = fmt.Errorf("unknown genesis mode %q", g.Mode)
	}
	if err != nil {
		return nil, fmt.Errorf("genesis: %w", err)
	}
	if e1, err := st0.Eth1Data(); err != nil {
		return nil, err
	} else if e1.DepositRoot != c.Contract.Root() || uint64(e1.DepositCount) != c.Contract.Count() {
		return nil, fmt.Errorf("genesis deposit root/count %s/%d differs from the harness deposit tree %s/%d",
			e1.DepositRoot, e1.DepositCount, c.Contract.Root(), c.Contract.Count())
	}

	var st common.BeaconState = st0
	gf := ForkAtEpoch(spec, 0)
	if gf >= Altair {
		a, err := altair.UpgradeToAltair(spec, epc, st0)
		if err != nil {
			return nil, fmt.Errorf("genesis upgrade to altair: %w", err)
		}
		if err := epc.LoadSyncCommittees(a); err != nil {
			return nil, err
		}
		st = a
		if gf >= Bellatrix {
			b, err := bellatrix.UpgradeToBellatrix(spec, epc, a)
			if err != nil {
				return nil, fmt.Errorf("genesis upgrade to bellatrix: %w", err)
			}
			st = b
			if gf >= Capella {
				cp, err := capella.UpgradeToCapella(spec, epc, b)
				if err != nil {
					return nil, fmt.Errorf("genesis upgrade to capella: %w", err)
				}
				st = cp
				if gf >= Deneb {
					d, err := deneb.UpgradeToDeneb(spec, epc, cp)
					if err != nil {
						return nil, fmt.Errorf("genesis upgrade to deneb: %w", err)
					}
					st = d
				}
			}
		}
		v := ForkVersionOf(spec, gf)
		if err := st.SetFork(common.Fork{PreviousVersion: v, CurrentVersion: v, Epoch: common.GENESIS_EPOCH}); err != nil {
			return nil, err
		}
		hdr := &common.BeaconBlockHeader{BodyRoot: NewBlock(gf).BodyRoot(spec)}
		if err := st.SetLatestBlockHeader(hdr); err != nil {
			return nil, err
		}
		if gf >= Bellatrix {
			post := gf >= Capella || c.Rng.Intn(2) == 0
			if g.PostMerge != nil {
				post = *g.PostMerge
			}
			if post {
				if err := installGenesisPayloadHeader(spec, st, eth1Hash, genesisTime); err != nil {
					return nil, err
				}
			}
		}
	}
	gt, err := st.GenesisTime()
	if err != nil {
		return nil, err
	}
	c.GenesisTime = gt
	c.GenesisValidatorsRoot, err = st.GenesisValidatorsRoot()
	if err != nil {
		return nil, err
	}
	c.GenesisFork = gf
	c.lastFork = gf
	c.State = &beacon.StandardUpgradeableBeaconState{BeaconState: st}
	c.Epc = epc
	c.Genesis = CopyState(st)
	c.Counters = newCounters()
	c.Counters.Forks[gf.String()] = true
	c.mergeDelay = c.Rng.Intn(3)
	if v, err := st.Validators(); err == nil {
		c.prevFlat, _ = common.FlattenValidators(v)
	}
	if e1, err := st.Eth1Data(); err == nil {
		c.lastEth1Cnt = e1.DepositCount
	}
	return c, nil
}

// installGenesisPayloadHeader gives a bellatrix+ genesis state a non-empty latest execution payload header
// (a chain that starts after the merge).
func installGenesisPayloadHeader(spec *common.Spec, st common.BeaconState, eth1Hash common.Root, t common.Timestamp) error {
	blockHash := tree.Hash(eth1Hash, common.Root{0x9e})
	switch s := st.(type) {
	case *bellatrix.BeaconStateView:
		return s.SetLatestExecutionPayloadHeader(&bellatrix.ExecutionPayloadHeader{BlockHash: blockHash, PrevRandao: eth1Hash,
			Timestamp: t, GasLimit: 30_000_000, BaseFeePerGas: view.Uint256View{7}, TransactionsRoot: emptyTxRoot(spec)})
	case *capella.BeaconStateView:
		return s.SetLatestExecutionPayloadHeader(&capella.ExecutionPayloadHeader{BlockHash: blockHash, PrevRandao: eth1Hash,
			Timestamp: t, GasLimit: 30_000_000, BaseFeePerGas: view.Uint256View{7}, TransactionsRoot: emptyTxRoot(spec),
			WithdrawalsRoot: common.Withdrawals{}.HashTreeRoot(spec, tree.GetHashFn())})
	case *deneb.BeaconStateView:
		return s.SetLatestExecutionPayloadHeader(&deneb.ExecutionPayloadHeader{BlockHash: blockHash, PrevRandao: eth1Hash,
			Timestamp: t, GasLimit: 30_000_000, BaseFeePerGas: view.Uint256View{7}, TransactionsRoot: emptyTxRoot(spec),
			WithdrawalsRoot: common.Withdrawals{}.HashTreeRoot(spec, tree.GetHashFn())})
	}
	return fmt.Errorf("no payload header in %T", st)
}

func emptyTxRoot(spec *common.Spec) common.Root {
	return common.PayloadTransactions{}.HashTreeRoot(spec, tree.GetHashFn())
}

// CopyState returns an independent copy of a tree-backed state (O(1): the backing tree is immutable and
// shared). A StandardUpgradeableBeaconState wrapper is stripped; WrapState puts one back on.
func CopyState(s common.BeaconState) common.BeaconState {
	if u, ok := s.(*beacon.StandardUpgradeableBeaconState); ok {
		s = u.BeaconState
	}
	cp, err := s.CopyState()
	if err != nil {
		panic(fmt.Sprintf("chain: CopyState: %v", err)) // ztyp view copy of a valid view cannot fail
	}
	return cp
}

// WrapState copies a state and wraps it so that it can be handed to common.StateTransition / ProcessSlots.
func WrapState(s common.BeaconState) *beacon.StandardUpgradeableBeaconState {
	return &beacon.StandardUpgradeableBeaconState{BeaconState: CopyState(s)}
}

// CopyEpc returns an epochs context that can be advanced independently of the original along the SAME
// history. (The validator pubkey cache is append-only and stays shared; the real code is written for that.
// To try blocks that are not part of the chain — mutants — use FreshEpc, which shares nothing.)
func CopyEpc(e *common.EpochsContext) *common.EpochsContext { return e.Clone() }

// FreshEpc computes a new epochs context from a state (nothing shared with the chain's live context).
func FreshEpc(spec *common.Spec, s common.BeaconState) (*common.EpochsContext, error) {
	if u, ok := s.(*beacon.StandardUpgradeableBeaconState); ok {
		s = u.BeaconState
	}
	return common.NewEpochsContext(spec, s)
}

// Slot is the head state's slot.
func (c *Chain) Slot() common.Slot {
	s, err := c.State.Slot()
	if err != nil {
		panic(err)
	}
	return s
}

// Fork is the head state's format.
func (c *Chain) Fork() Fork { return ForkOfState(c.State.BeaconState) }

// Step is everything that happened in one slot.
type Step struct {
	Slot     common.Slot
	Skipped  bool // no block in this slot
	Forced   bool // ... because the real proposer is slashed (a block would be invalid)
	Fork     Fork // format of Post (and of Block)
	Proposer common.ValidatorIndex

	Pre    common.BeaconState    // copy of the state before the slot (at Slot-1 or earlier)
	PreEpc *common.EpochsContext // epochs context belonging to Pre
	// PreBlock is the state after ProcessSlots(Slot) and before the block (== Post if skipped).
	PreBlock    common.BeaconState
	PreBlockEpc *common.EpochsContext
	Block       *SignedBlock // nil if skipped
	Post        common.BeaconState
	PostEpc     *common.EpochsContext
	PostRoot    common.Root

	Ops []OpInfo // operations in the block, in processing order, with kinds
	// ExpectedWithdrawals is what capella.GetExpectedWithdrawals returned on PreBlock and what was put into
	// the payload (capella+; nil before).
	ExpectedWithdrawals []common.Withdrawal
	EngineCalls         []EngineCall // calls made while the block was applied (verification run if enabled)
	Verified            bool         // the block went through the real transition with validateResult=true on Pre
	// EpcRepaired: after slot processing the epochs context's sync committees differed from the state's and
	// were reloaded from the state (only when Chain.FollowCodeSyncCommittee is false).
	EpcRepaired bool
	// PlainRejected: the plain common.StateTransition(Pre, PreEpc, block, true) refused this spec-valid
	// block (stale sync committees in the epochs context); it was validated with the reload in between.
	PlainRejected bool

	spec   *common.Spec
	gvr    common.Root
	repair bool
	extra  map[string]int // counters the builder wants added on commit
}

// Envelope builds the envelope of the step's block for common.StateTransition on a copy of step.Pre.
func (s *Step) Envelope() *common.BeaconBlockEnvelope {
	return envelopeFor(s.spec, s.gvr, s.PreBlock, s.Block)
}

// EnvelopeOf builds an envelope for another block (e.g. a mutant) to be applied to a copy of step.Pre: the
// fork digest is taken from PreBlock's fork version, as the transition demands.
func (s *Step) EnvelopeOf(b *SignedBlock) *common.BeaconBlockEnvelope {
	return envelopeFor(s.spec, s.gvr, s.PreBlock, b)
}

func envelopeFor(spec *common.Spec, gvr common.Root, preBlock common.BeaconState, b *SignedBlock) *common.BeaconBlockEnvelope {
	f, err := preBlock.Fork()
	if err != nil {
		panic(err)
	}
	return b.Envelope(spec, f.CurrentVersion, gvr)
}

// Transition is common.StateTransition, optionally (repair) with the sync committees of the epochs context
// reloaded from the state between slot processing and block processing.
func Transition(ctx context.Context, spec *common.Spec, epc *common.EpochsContext, st *beacon.StandardUpgradeableBeaconState,
	env *common.BeaconBlockEnvelope, validate, repair bool) error {
	if !repair {
		return common.StateTransition(ctx, spec, epc, st, env, validate)
	}
	if err := common.ProcessSlots(ctx, spec, epc, st, env.Slot); err != nil {
		return err
	}
	if _, err := RepairSyncCommittees(epc, st); err != nil {
		return err
	}
	return common.PostSlotTransition(ctx, spec, epc, st, env, validate)
}

// RepairSyncCommittees makes the sync-committee part of an epochs context agree with the state (altair+); it
// reports whether anything had to change. It is what EpochsContext.RotateEpochs fails to do when it is
// handed the StandardUpgradeableBeaconState wrapper.
func RepairSyncCommittees(epc *common.EpochsContext, s common.BeaconState) (changed bool, err error) {
	if u, ok := s.(*beacon.StandardUpgradeableBeaconState); ok {
		s = u.BeaconState
	}
	ss, ok := s.(common.SyncCommitteeBeaconState)
	if !ok {
		return false, nil
	}
	oc, on := epc.CurrentSyncCommittee, epc.NextSyncCommittee
	if err := epc.LoadSyncCommittees(ss); err != nil {
		return false, err
	}
	same := func(a, b *common.IndexedSyncCommittee) bool {
		if a == nil || b == nil || len(a.Indices) != len(b.Indices) {
			return false
		}
		for i := range a.Indices {
			if a.Indices[i] != b.Indices[i] {
				return false
			}
		}
		return true
	}
	return !same(oc, epc.CurrentSyncCommittee) || !same(on, epc.NextSyncCommittee), nil
}

// Apply runs the real state transition for block b on a copy of step.Pre with a fresh epochs context and
// full validation; it returns the post-state or the rejection error. It uses the same treatment of the
// epochs context's sync committees as the chain the step comes from (see Chain.FollowCodeSyncCommittee).
// Panics are not recovered here.
func (s *Step) Apply(b *SignedBlock) (common.BeaconState, error) {
	return s.apply(b, s.repair)
}

// ApplyPlain is Apply with nothing but common.StateTransition.
func (s *Step) ApplyPlain(b *SignedBlock) (common.BeaconState, error) {
	return s.apply(b, false)
}

func (s *Step) apply(b *SignedBlock, repair bool) (common.BeaconState, error) {
	st := WrapState(s.Pre)
	epc, err := FreshEpc(s.spec, st)
	if err != nil {
		return nil, err
	}
	if err := Transition(context.Background(), s.spec, epc, st, s.EnvelopeOf(b), true, repair); err != nil {
		return nil, err
	}
	return st.BeaconState, nil
}

// SlotOpts steers one slot. The zero value (or nil) lets the chain's Policy decide everything at random.
type SlotOpts struct {
	Skip    bool   // process the slot without a block
	Propose bool   // never skip by chance (a slashed proposer still forces a skip)
	Mix     *OpMix // exact operation mix; nil: drawn from Policy
	// NoVerify skips the second, fully validated run of the block (the caller validates it itself).
	NoVerify bool
	// Edit, if set, is called with the assembled, still unsigned block (state root zero) and the post-slots
	// state / epochs context it was built for, before the state root is computed: the place to add or change
	// operations by hand (use the Sign*/Make* helpers of Chain to keep them valid). The edited block must
	// still be valid, otherwise NextSlot fails with ErrNotAccepted.
	Edit func(b *SignedBlock, st common.BeaconState, epc *common.EpochsContext) error
}

// RejectedError is what NextSlot returns when the real code refused the block it built; errors.Is(err,
// ErrNotAccepted) holds. Step carries the failing input: Pre/PreEpc/PreBlock/PreBlockEpc/Fork/Proposer/Ops
// and Block (signed by the proposer). Stage "process_block": refused by the first, unvalidated run — the
// state root is still zero; stage "state_transition": refused by the fully validated run.
type RejectedError struct {
	Step  *Step
	Stage string
	Err   error // what the real code said
}

func (e *RejectedError) Error() string {
	return fmt.Sprintf("slot %d (%s): %v at %s: %v [ops: %s]", e.Step.Slot, e.Step.Fork, ErrNotAccepted, e.Stage, e.Err, opSummary(e.Step.Ops))
}

func (e *RejectedError) Unwrap() error { return ErrNotAccepted }

// ErrNotAccepted wraps the error of a generated block that the real transition refused (a generator bug or a
// defect in /repo — either way it must be looked at).
var ErrNotAccepted = errors.New("generated block was not accepted")

// NextSlot advances the chain by exactly one slot: either only slot processing, or slot processing followed
// by a freshly built, signed, valid block of the slot's real proposer.
func (c *Chain) NextSlot(o *SlotOpts) (step *Step, err error) {
	defer func() {
		if r := recover(); r != nil {
			step, err = nil, fmt.Errorf("chain: panic in slot %d: %v", c.Slot()+1, r)
		}
	}()
	if o == nil {
		o = &SlotOpts{}
	}
	c.LastRejected = nil
	ctx := context.Background()
	slot := c.Slot() + 1
	step = &Step{Slot: slot, Pre: CopyState(c.State), PreEpc: c.Epc.Clone(), spec: c.Spec, gvr: c.GenesisValidatorsRoot, repair: !c.FollowCodeSyncCommittee}

	work := WrapState(c.State)
	wepc := c.Epc.Clone()
	if err := common.ProcessSlots(ctx, c.Spec, wepc, work, slot); err != nil {
		return nil, fmt.Errorf("ProcessSlots(%d): %w", slot, err)
	}
	if step.repair {
		if step.EpcRepaired, err = RepairSyncCommittees(wepc, work); err != nil {
			return nil, err
		}
	}
	step.PreBlock, step.PreBlockEpc = CopyState(work), wepc.Clone()
	step.Fork = ForkOfState(work.BeaconState)
	step.Proposer, err = wepc.GetBeaconProposer(slot)
	if err != nil {
		return nil, err
	}
	skip := o.Skip
	showcase := false
	if c.Policy.Showcase {
		_, showcase = forkBoundary(c.Spec, slot)
	}
	if !skip && !o.Propose && !showcase && c.Rng.Float64() < c.Policy.SkipProb {
		skip = true
		if c.Policy.Showcase {
			// the epoch before a fork boundary stays complete, so that the eth1 votes can be timed
			if _, near := nextForkBoundary(c.Spec, slot, c.Spec.SLOTS_PER_EPOCH); near {
				skip = false
			}
		}
	}
	if !skip {
		if sl, err := c.isSlashed(work, step.Proposer); err != nil {
			return nil, err
		} else if sl {
			skip, step.Forced = true, true
		}
	}
	if skip {
		step.Skipped = true
		step.Post, step.PostEpc = CopyState(work), wepc.Clone()
		step.PostRoot = step.Post.HashTreeRoot(tree.GetHashFn())
		c.commit(work, wepc, step)
		return step, nil
	}

	mix := o.Mix
	if mix == nil {
		mix = c.Policy.draw(c.Rng)
		if showcase { // every signed operation kind in the first block of the fork
			atLeast := func(p *int) {
				if *p < 1 {
					*p = 1
				}
			}
			atLeast(&mix.ProposerSlashings)
			atLeast(&mix.AttesterSlashings)
			atLeast(&mix.Exits)
			atLeast(&mix.BLSChanges)
			if mix.SyncParticipation < 0.5 {
				mix.SyncParticipation = 0.9
			}
			mix.NoAttestations = false
		}
	}
	blk, err := c.buildBlock(work.BeaconState, wepc, slot, step, mix)
	if err != nil {
		return nil, fmt.Errorf("slot %d: building block: %w", slot, err)
	}
	if o.Edit != nil {
		if err := o.Edit(blk, step.PreBlock, step.PreBlockEpc); err != nil {
			return nil, fmt.Errorf("slot %d: Edit: %w", slot, err)
		}
	}
	// first run: no signature / state-root validation, to learn the post-state root
	mark := c.Engine.Mark()
	env := envelopeFor(c.Spec, c.GenesisValidatorsRoot, step.PreBlock, blk)
	if err := common.PostSlotTransition(ctx, c.Spec, wepc, work, env, false); err != nil {
		c.SignBlock(blk, step.PreBlock)
		step.Block = blk
		c.LastRejected = step
		return nil, &RejectedError{Step: step, Stage: "process_block", Err: err}
	}
	step.PostRoot = work.HashTreeRoot(tree.GetHashFn())
	*blk.Header().StateRoot = step.PostRoot
	c.SignBlock(blk, step.PreBlock)
	step.Block = blk
	step.EngineCalls = c.Engine.CallsSince(mark)

	if !o.NoVerify {
		mark = c.Engine.Mark()
		v := WrapState(step.Pre)
		vepc := step.PreEpc.Clone()
		err := common.StateTransition(ctx, c.Spec, vepc, v, step.Envelope(), true)
		if err != nil && step.repair && step.EpcRepaired {
			step.PlainRejected = true
			c.Engine.truncate(mark)
			v, vepc = WrapState(step.Pre), step.PreEpc.Clone()
			err = Transition(ctx, c.Spec, vepc, v, step.Envelope(), true, true)
		}
		if err != nil {
			c.LastRejected = step
			return nil, &RejectedError{Step: step, Stage: "state_transition", Err: err}
		}
		if r := v.HashTreeRoot(tree.GetHashFn()); r != step.PostRoot {
			return nil, fmt.Errorf("slot %d: validated run ended in state root %s, first run in %s", slot, r, step.PostRoot)
		}
		step.Verified = true
		step.EngineCalls = c.Engine.CallsSince(mark)
	}
	step.Post, step.PostEpc = CopyState(work), wepc.Clone()
	c.proposed[slot] = blk.BeaconHeader(c.Spec)
	c.commit(work, wepc, step)
	return step, nil
}

// Run advances n slots with NextSlot(nil) and returns the steps.
func (c *Chain) Run(n int) ([]*Step, error) {
	out := make([]*Step, 0, n)
	for i := 0; i < n; i++ {
		s, err := c.NextSlot(nil)
		if err != nil {
			return out, err
		}
		out = append(out, s)
	}
	return out, nil
}

func (c *Chain) isSlashed(st common.BeaconState, i common.ValidatorIndex) (bool, error) {
	vals, err := st.Validators()
	if err != nil {
		return false, err
	}
	v, err := vals.Validator(i)
	if err != nil {
		return false, err
	}
	return v.Slashed()
}

// SignBlock (re)computes the proposer signature of b for the proposer named in b (which must be a
// validator of this chain's key set), with the proposer domain of preBlock's fork at the block's epoch.
func (c *Chain) SignBlock(b *SignedBlock, preBlock common.BeaconState) {
	h := b.Header()
	dom, err := common.GetDomain(preBlock, common.DOMAIN_BEACON_PROPOSER, c.Spec.SlotToEpoch(*h.Slot))
	if err != nil {
		panic(err)
	}
	root := common.ComputeSigningRoot(b.Root(c.Spec), dom)
	k, ok := c.keyOfIn(preBlock, *h.ProposerIndex)
	if !ok {
		*h.Signature = common.BLSSignature{}
		return
	}
	*h.Signature = c.Keys.Sign(k, root)
}

// KeyOf maps a validator index of the head state to its key index in the key set.
func (c *Chain) KeyOf(v common.ValidatorIndex) (int, bool) { return c.keyOfIn(c.State, v) }

func (c *Chain) keyOfIn(st common.BeaconState, v common.ValidatorIndex) (int, bool) {
	vals, err := st.Validators()
	if err != nil {
		return 0, false
	}
	if ok, err := vals.IsValidIndex(v); err != nil || !ok {
		return 0, false
	}
	val, err := vals.Validator(v)
	if err != nil {
		return 0, false
	}
	pub, err := val.Pubkey()
	if err != nil {
		return 0, false
	}
	return c.Keys.IndexOf(pub)
}
