package chain

import (
	"fmt"
	"os"
	"sort"
	"strconv"
	"strings"
	"testing"

	"github.com/protolambda/ztyp/tree"
)

func TestApartConfigsAllForks(t *testing.T) {
	n := 4
	if testing.Short() {
		n = 2
	}
	tot := newCounters()
	for seed := int64(0); seed < int64(n); seed++ {
		cfg := Apart(seed)
		nv := []int{64, 50, 97, 33}[seed%4]
		c := runChain(t, cfg, nv, []string{"mixed", "rich", "poor", "uniform"}[seed%4], seed, (int(ForkEpochs(cfg.Spec)[3])+2)*int(cfg.Spec.SLOTS_PER_EPOCH), nil)
		if len(c.Counters.Forks) != 5 {
			t.Errorf("%s: forks %v", cfg.ID, c.Counters.Forks)
		}
		tot.Add(&c.Counters)
	}
	t.Logf("TOTAL %s", tot.Summary())
}

func TestBranchSiblings(t *testing.T) {
	c, err := NewChain(Fast(1, 2, 3, 4), 48, "mixed", 31)
	if err != nil {
		t.Fatal(err)
	}
	c.Policy = PolicyByName("eventful")
	if _, err := c.Run(20); err != nil {
		t.Fatal(err)
	}
	headRoot := c.State.HashTreeRoot(tree.GetHashFn())
	a, err := c.Branch(1)
	if err != nil {
		t.Fatal(err)
	}
	b, err := c.Branch(2)
	if err != nil {
		t.Fatal(err)
	}
	a2, _ := c.Branch(1)
	sa, err := a.Run(24)
	if err != nil {
		t.Fatal(err)
	}
	sb, err := b.Run(24)
	if err != nil {
		t.Fatal(err)
	}
	sa2, err := a2.Run(24)
	if err != nil {
		t.Fatal(err)
	}
	if c.State.HashTreeRoot(tree.GetHashFn()) != headRoot || c.Slot() != 20 {
		t.Fatal("advancing the branches moved the original chain")
	}
	differ := false
	for i := range sa {
		if sa[i].PostRoot != sa2[i].PostRoot {
			t.Fatalf("same seed, different continuation at slot %d", sa[i].Slot)
		}
		if sa[i].PostRoot != sb[i].PostRoot {
			differ = true
		}
	}
	if !differ {
		t.Fatal("siblings with different seeds produced the same chain")
	}
	// the original goes on as well, and all three heads share the ancestor
	if _, err := c.Run(24); err != nil {
		t.Fatal(err)
	}
	if a.Contract.Count() == c.Contract.Count() && b.Contract.Count() == c.Contract.Count() && a.Contract.Root() == c.Contract.Root() {
		t.Log("note: deposit contracts happen to agree")
	}
	t.Logf("a: %s", a.Counters.Summary())
	t.Logf("b: %s", b.Counters.Summary())
}

func opsWith(c *Chain, prefix string) string {
	out := ""
	keys := make([]string, 0)
	for k := range c.Counters.Ops {
		if strings.HasPrefix(k, prefix) {
			keys = append(keys, k)
		}
	}
	sort.Strings(keys)
	for _, k := range keys {
		out += fmt.Sprintf(" %s=%d", k, c.Counters.Ops[k])
	}
	return out
}

func runPolicy(t *testing.T, cfgID string, n int, bal, policy string, seed int64, slots int) *Chain {
	t.Helper()
	cfg, err := ConfigByID(cfgID)
	if err != nil {
		t.Fatal(err)
	}
	c, err := NewChain(cfg, n, bal, seed)
	if err != nil {
		t.Fatal(err)
	}
	c.Policy = PolicyByName(policy)
	for i := 0; i < slots; i++ {
		if _, err := c.NextSlot(nil); err != nil {
			t.Fatalf("%s %s: %v", cfgID, policy, err)
		}
	}
	return c
}

func need(t *testing.T, c *Chain, keys ...string) {
	t.Helper()
	for _, k := range keys {
		if c.Counters.Ops[k] == 0 {
			t.Errorf("%s: counter %s is 0", c.Cfg.ID, k)
		}
	}
}

func TestLatePolicy(t *testing.T) {
	c := runPolicy(t, "fast@1,2,3,5", 64, "uniform", "late", 11, 10*8)
	t.Logf("late:%s%s finalized=%d", opsWith(c, "att_delay:"), opsWith(c, "attestation_re"), c.Counters.Finalized)
	need(t, c, "att_delay:min", "att_delay:sqrt", "att_delay:sqrt+1", "att_delay:spe", "att_delay:over_spe", "attestation_reincluded")
}

func TestFullPolicy(t *testing.T) {
	c := runPolicy(t, "fast@1,2,3,4", 128, "rich", "full", 12, 10*8)
	t.Logf("full:%s", opsWith(c, "block_full:"))
	need(t, c, "block_full:proposer_slashings", "block_full:attester_slashings", "block_full:exits", "block_full:deposits", "block_full:bls_changes", "block_full:withdrawals")
}

func TestEdgePolicy(t *testing.T) {
	c := runPolicy(t, "fast@0,0,1,2", 48, "mixed", "edge", 13, 5*8)
	t.Logf("edge:%s%s%s", opsWith(c, "extra_data:"), opsWith(c, "txs:"), opsWith(c, "block_full:blobs"))
	need(t, c, "extra_data:0", "extra_data:31", "extra_data:32", "txs:0", "txs:many", "block_full:blobs")
}

func TestEarlyExitPolicy(t *testing.T) {
	c := runPolicy(t, "fast@1,2,3,4", 48, "uniform", "earlyexit", 14, 12*8)
	t.Logf("earlyexit:%s activations=%d", opsWith(c, "voluntary_exit"), c.Counters.Activations)
	need(t, c, "voluntary_exit:at-earliest")
}

func TestShowcasePolicy(t *testing.T) {
	c := runPolicy(t, "fast2@3,7,11,15", 64, "mixed", "showcase", 15, 17*8)
	t.Logf("showcase:%s%s", opsWith(c, "fork_boundary"), opsWith(c, "eth1_vote:"))
	need(t, c, "fork_boundary_block:altair", "fork_boundary_block:deneb")
	n := 0
	for _, f := range forkNames[1:] {
		n += c.Counters.Ops["fork_boundary_complete:"+f]
	}
	if n == 0 {
		t.Errorf("no fork-boundary block carried every operation kind")
	}
}

func TestMainnetConst(t *testing.T) {
	if testing.Short() {
		t.Skip()
	}
	c := runPolicy(t, "mainnetconst@1,2,3,4", 64, "rich", "default", 16, 6*8)
	if len(c.Counters.Forks) != 5 {
		t.Errorf("forks: %v", c.Counters.Forks)
	}
	t.Log(c.Counters.Summary())
}

// TestSoak2: CHAIN_SOAK2=<n>: n apart:/rand2: configurations x the round-2 policies, 12 epochs each.
func TestSoak2(t *testing.T) {
	n, _ := strconv.Atoi(os.Getenv("CHAIN_SOAK2"))
	if n == 0 {
		t.Skip("set CHAIN_SOAK2=<n>")
	}
	tot := newCounters()
	pols := []string{"late", "full", "edge", "earlyexit", "showcase", "default", "eventful", "exits", "leak-recover"}
	for seed := int64(0); seed < int64(n); seed++ {
		var cfg *Config
		switch seed % 3 {
		case 0, 1:
			cfg = Apart(seed)
		default:
			cfg = RandomConfig2(seed)
		}
		nv := 24 + int(seed*41%200)
		if nv < int(cfg.Spec.SLOTS_PER_EPOCH) {
			nv = int(cfg.Spec.SLOTS_PER_EPOCH)
		}
		c, err := NewChainOpts(cfg, GenesisOpts{Validators: nv, Balances: []string{"mixed", "uniform", "rich", "poor"}[seed%4], Seed: seed, Mode: []string{"kickstart", "eth1"}[seed%2]})
		if err != nil {
			t.Errorf("%s: genesis: %v", cfg.ID, err)
			continue
		}
		pol := pols[int(seed)%len(pols)]
		c.Policy = PolicyByName(pol)
		for i := 0; i < 12*int(cfg.Spec.SLOTS_PER_EPOCH); i++ {
			if _, err := c.NextSlot(nil); err != nil {
				t.Errorf("%s n=%d seed=%d policy=%s: %v", cfg.ID, nv, seed, pol, err)
				break
			}
		}
		tot.Add(&c.Counters)
	}
	t.Logf("TOTAL %s", tot.Summary())
}

// TestApartRound3: the round-3 ingredients occur over the seeds and do what they are for.
func TestApartRound3(t *testing.T) {
	var nonMult, cap16, cap64, blobs7 int
	seeds := int64(3) // CHAIN_SOAK3=<n> for more
	if v, _ := strconv.Atoi(os.Getenv("CHAIN_SOAK3")); v > 0 {
		seeds = int64(v)
	}
	// the ingredients occur over the seeds (no chains needed for that)
	var inm, icap, iblob int
	for seed := int64(1); seed <= 40; seed++ {
		sp := Apart(seed).Spec
		if uint64(sp.SLOTS_PER_HISTORICAL_ROOT)%uint64(sp.SLOTS_PER_EPOCH) != 0 {
			inm++
		}
		if sp.MAX_EFFECTIVE_BALANCE != 32*gwei {
			icap++
		}
		if sp.MAX_BLOBS_PER_BLOCK >= 7 {
			iblob++
		}
	}
	t.Logf("of 40 seeds: non-multiple SPHR %d, cap != 32 ETH %d, blobs >= 7 %d", inm, icap, iblob)
	if inm < 8 || icap < 8 || iblob < 8 {
		t.Errorf("an ingredient is too rare")
	}
	for seed := int64(1); seed <= seeds; seed++ {
		cfg := Apart(seed)
		sp := cfg.Spec
		period := uint64(sp.SLOTS_PER_HISTORICAL_ROOT) / uint64(sp.SLOTS_PER_EPOCH)
		nm := uint64(sp.SLOTS_PER_HISTORICAL_ROOT)%uint64(sp.SLOTS_PER_EPOCH) != 0
		if uint64(sp.SLOTS_PER_HISTORICAL_ROOT)%(uint64(sp.EPOCHS_PER_ETH1_VOTING_PERIOD)*uint64(sp.SLOTS_PER_EPOCH)) == 0 {
			t.Errorf("%s: eth1 voting period divides SLOTS_PER_HISTORICAL_ROOT", cfg.ID)
		}
		if sp.EPOCHS_PER_SLASHINGS_VECTOR == sp.EPOCHS_PER_HISTORICAL_VECTOR || sp.MIN_ACTIVATION_BALANCE == sp.MAX_EFFECTIVE_BALANCE ||
			sp.MAX_ATTESTATIONS_ELECTRA == sp.MAX_ATTESTATIONS || sp.MAX_BLOBS_PER_BLOCK_ELECTRA == sp.MAX_BLOBS_PER_BLOCK {
			t.Errorf("%s: coinciding constants", cfg.ID)
		}
		epochs := int(ForkEpochs(sp)[3]) + int(period) + 3
		c, err := NewChain(cfg, 64, "mixed", seed)
		if err != nil {
			t.Fatalf("%s: %v", cfg.ID, err)
		}
		c.Policy = PolicyByName("deposits")
		c.Policy.Blobs = 1
		for i := 0; i < epochs*int(sp.SLOTS_PER_EPOCH); i++ {
			if _, err := c.NextSlot(nil); err != nil {
				t.Fatalf("%s: %v", cfg.ID, err)
			}
		}
		if nm {
			nonMult++
			for _, f := range forkNames {
				if c.Counters.Ops["historical_accumulation:"+f] == 0 {
					t.Errorf("%s (SPE %d, SPHR %d, forks %v): no historical accumulation processed by %s", cfg.ID, sp.SLOTS_PER_EPOCH, sp.SLOTS_PER_HISTORICAL_ROOT, ForkEpochs(sp), f)
				}
			}
		}
		if sp.MAX_EFFECTIVE_BALANCE != 32*gwei {
			if sp.MAX_EFFECTIVE_BALANCE == 16*gwei {
				cap16++
			} else {
				cap64++
			}
			if c.Counters.Ops["deposit_new"] > 0 && opsWith(c, "deposit_new_above_cap:") == "" {
				t.Errorf("%s: no new-validator deposit above the cap", cfg.ID)
			}
		}
		if sp.MAX_BLOBS_PER_BLOCK >= 7 {
			blobs7++
			if c.Counters.Ops["blobs:7+"] == 0 {
				t.Errorf("%s: MAX_BLOBS_PER_BLOCK %d but no block with 7+ commitments", cfg.ID, sp.MAX_BLOBS_PER_BLOCK)
			}
		}
		t.Logf("%s SPE=%d SPHR=%d cap=%d blobs=%d forks=%v:%s%s blobs7+=%d finalized=%d", cfg.ID, sp.SLOTS_PER_EPOCH, sp.SLOTS_PER_HISTORICAL_ROOT,
			sp.MAX_EFFECTIVE_BALANCE/gwei, sp.MAX_BLOBS_PER_BLOCK, ForkEpochs(sp), opsWith(c, "historical_accumulation:"), opsWith(c, "deposit_new_above_cap:"), c.Counters.Ops["blobs:7+"], c.Counters.Finalized)
	}
	t.Logf("non-multiple SPHR: %d, cap 16: %d, cap 64: %d, blobs>=7: %d of %d seeds", nonMult, cap16, cap64, blobs7, seeds)
	if nonMult == 0 || cap16+cap64 == 0 || blobs7 == 0 {
		t.Errorf("an ingredient never occurred")
	}
}
