package chain

import (
	"context"
	"encoding/binary"
	"fmt"
	"math/rand"
	"sort"

	"github.com/protolambda/zrnt/eth2/beacon/altair"
	"github.com/protolambda/zrnt/eth2/beacon/bellatrix"
	"github.com/protolambda/zrnt/eth2/beacon/capella"
	"github.com/protolambda/zrnt/eth2/beacon/common"
	"github.com/protolambda/zrnt/eth2/beacon/deneb"
	"github.com/protolambda/zrnt/eth2/beacon/phase0"
	"github.com/protolambda/zrnt/eth2/util/hashing"
	"github.com/protolambda/ztyp/tree"
	"github.com/protolambda/ztyp/view"
)

// duty is one committee's attestation assignment of one slot, with who wants to attest and who already
// has been included on chain.
type duty struct {
	slot      common.Slot
	index     common.CommitteeIndex
	committee []common.ValidatorIndex
	want      []bool
	done      []bool
	notBefore common.Slot // LateMode: planned earliest inclusion slot (0: none)
}

type depKind uint8

const (
	depGenesis depKind = iota
	depNew
	depBadPoP
	depTopUp
)

// builder carries what the block under construction needs.
type builder struct {
	c     *Chain
	st    common.BeaconState
	epc   *common.EpochsContext
	slot  common.Slot
	epoch common.Epoch
	fork  Fork
	step  *Step
	mix   *OpMix
	flats []common.FlatValidator
	// validators that are slashed or begin their exit inside this block
	gone   map[common.ValidatorIndex]bool
	active int
	// Showcase: the proposer of an upcoming fork-boundary slot must stay unslashed and active
	protected map[common.ValidatorIndex]bool
	showcase  bool // this is a fork-boundary block of a Showcase chain
}

func (b *builder) count(key string) {
	if b.step.extra == nil {
		b.step.extra = map[string]int{}
	}
	b.step.extra[key]++
}

func (b *builder) fills(kind string) bool {
	for _, k := range b.mix.Fill {
		if k == kind {
			return true
		}
	}
	return false
}

func (c *Chain) rndRoot() (r common.Root) {
	c.Rng.Read(r[:])
	return
}

func newBitlist(n int) phase0.AttestationBits {
	b := make([]byte, n/8+1)
	b[n/8] |= 1 << uint(n%8)
	return b
}

func (b *builder) op(o OpInfo) { b.step.Ops = append(b.step.Ops, o) }

func (b *builder) key(v common.ValidatorIndex) int {
	k, ok := b.c.keyOfIn(b.st, v)
	if !ok {
		panic(fmt.Sprintf("validator %d has a key outside the key set", v))
	}
	return k
}

func (b *builder) minActive() int {
	if m := b.c.Policy.MinActive; m > 0 {
		return m
	}
	m := 2 * int(b.c.Spec.SLOTS_PER_EPOCH)
	if h := b.c.genesisN / 2; h > m {
		m = h
	}
	return m
}

// buildBlock assembles an unsigned block (state root still zero) for the post-slots state st.
func (c *Chain) buildBlock(st common.BeaconState, epc *common.EpochsContext, slot common.Slot, step *Step, mix *OpMix) (*SignedBlock, error) {
	spec := c.Spec
	h := tree.GetHashFn()
	b := &builder{c: c, st: st, epc: epc, slot: slot, epoch: spec.SlotToEpoch(slot), fork: step.Fork, step: step, mix: mix,
		gone: map[common.ValidatorIndex]bool{}}
	vals, err := st.Validators()
	if err != nil {
		return nil, err
	}
	if b.flats, err = common.FlattenValidators(vals); err != nil {
		return nil, err
	}
	for i := range b.flats {
		if b.flats[i].IsActive(b.epoch) && b.flats[i].ExitEpoch == common.FAR_FUTURE_EPOCH {
			b.active++
		}
	}

	if c.Policy.Showcase {
		_, b.showcase = forkBoundary(spec, slot)
		if bd, ok := nextForkBoundary(spec, slot, spec.SLOTS_PER_EPOCH); ok {
			// who proposes the fork-boundary block if nothing else happens? keep him unslashed and active
			sim, sepc := WrapState(st), epc.Clone()
			if err := common.ProcessSlots(context.Background(), spec, sepc, sim, bd); err == nil {
				if pr, err := sepc.GetBeaconProposer(bd); err == nil {
					b.protected = map[common.ValidatorIndex]bool{pr: true}
				}
			}
		}
	}
	blk := NewBlock(b.fork)
	hdr, body := blk.Header(), blk.Body()
	*hdr.Slot, *hdr.ProposerIndex = slot, step.Proposer
	latest, err := st.LatestBlockHeader()
	if err != nil {
		return nil, err
	}
	*hdr.ParentRoot = latest.HashTreeRoot(h)

	dom, err := common.GetDomain(st, common.DOMAIN_RANDAO, b.epoch)
	if err != nil {
		return nil, err
	}
	*body.RandaoReveal = c.Keys.Sign(b.key(step.Proposer), common.ComputeSigningRoot(b.epoch.HashTreeRoot(h), dom))
	copy(body.Graffiti[:], fmt.Sprintf("verif chain slot %d", slot))

	// payload first: withdrawals and prev_randao are defined on the state before any other operation
	if b.fork >= Bellatrix {
		if err := b.fillPayload(blk, body); err != nil {
			return nil, err
		}
	}
	c.submitDeposits(b)
	vote, adopted, err := b.eth1Vote()
	if err != nil {
		return nil, err
	}
	*body.Eth1Data = vote

	if err := b.proposerSlashings(body); err != nil {
		return nil, err
	}
	if err := b.attesterSlashings(body); err != nil {
		return nil, err
	}
	if err := b.attestations(body); err != nil {
		return nil, err
	}
	if err := b.deposits(body, adopted); err != nil {
		return nil, err
	}
	if err := b.exits(body); err != nil {
		return nil, err
	}
	if b.fork >= Capella {
		if err := b.blsChanges(body); err != nil {
			return nil, err
		}
	}
	if b.fork >= Altair {
		if err := b.syncAggregate(body); err != nil {
			return nil, err
		}
	}
	return blk, nil
}

// ---------------------------------------------------------------------------------------------- eth1 / deposits

// SubmitDeposit appends a deposit to the deposit contract; the protocol decides when it is included (once an
// eth1 vote covering it has been adopted, every block must carry the next pending ones).
func (c *Chain) SubmitDeposit(d common.DepositData) uint64 {
	kind := depNew
	if _, ok := c.Epc.ValidatorPubkeyCache.ValidatorIndex(d.Pubkey); ok {
		kind = depTopUp
	}
	c.submitDeposit(d, kind, -1)
	return c.Contract.Count() - 1
}

func (c *Chain) submitDeposit(d common.DepositData, kind depKind, key int) {
	c.Contract.Add(d)
	c.depMeta = append(c.depMeta, depMeta{kind, key})
}

type depMeta struct {
	kind depKind
	key  int
}

// MakeDeposit builds deposit data for key k, signed by key signer (signer == k: valid proof of possession).
func (c *Chain) MakeDeposit(k int, creds common.Root, amount common.Gwei, signer int) common.DepositData {
	d := common.DepositData{Pubkey: c.Keys.Pubkey(k), WithdrawalCredentials: creds, Amount: amount}
	d.Signature = c.Keys.Sign(signer, DepositSigningRoot(c.Spec, &d))
	return d
}

func (c *Chain) submitDeposits(b *builder) {
	spec, rng := c.Spec, c.Rng
	creds := func(k int) common.Root {
		if rng.Intn(3) == 0 {
			return c.Keys.ExecutionCredentials(k)
		}
		return c.Keys.BLSCredentials(k)
	}
	nNew := b.mix.NewDeposits
	if b.fills("deposits") {
		nNew = 2 * int(spec.MAX_DEPOSITS)
	}
	for i := 0; i < nNew; i++ {
		k := c.nextKey
		if len(c.burnedKeys) > 0 && rng.Intn(3) == 0 { // second, valid attempt of a key whose first deposit was refused
			k, c.burnedKeys = c.burnedKeys[0], c.burnedKeys[1:]
		} else {
			c.nextKey++
		}
		amount := spec.MAX_EFFECTIVE_BALANCE
		switch rng.Intn(6) {
		case 0:
			amount = spec.MIN_DEPOSIT_AMOUNT + common.Gwei(rng.Int63n(int64(8*gwei))) // needs top-ups to activate
		case 1:
			amount += common.Gwei(rng.Int63n(int64(4 * gwei)))
		case 2, 3:
			if spec.MAX_EFFECTIVE_BALANCE != 32*gwei { // configurations with an unusual cap: many deposits above it
				amount += gwei + common.Gwei(rng.Int63n(int64(40*gwei)))
			}
		}
		c.submitDeposit(c.MakeDeposit(k, creds(k), amount, k), depNew, k)
	}
	for i := 0; i < b.mix.BadPoPDeposits; i++ {
		k := c.nextKey
		c.nextKey++
		var d common.DepositData
		switch rng.Intn(5) {
		case 3: // the "public key" is not a curve point at all (processed, ignored; the key index stays unused)
			d = c.MakeDeposit(k, creds(k), spec.MAX_EFFECTIVE_BALANCE, k)
			for j := 1; j < len(d.Pubkey); j++ {
				d.Pubkey[j] = byte(rng.Intn(256))
			}
			d.Pubkey[0] = 0x80 | byte(rng.Intn(0x20))
			if _, err := d.Pubkey.Pubkey(); err == nil {
				d.Pubkey[47] ^= 1
			}
			c.submitDeposit(d, depBadPoP, -1)
			continue
		case 4: // identity public key with the identity signature
			d = common.DepositData{WithdrawalCredentials: creds(k), Amount: spec.MAX_EFFECTIVE_BALANCE, Signature: InfinitySignature()}
			d.Pubkey[0] = 0xc0
			c.submitDeposit(d, depBadPoP, -1)
			continue
		case 0: // signed by somebody else
			d = c.MakeDeposit(k, creds(k), spec.MAX_EFFECTIVE_BALANCE, k+1)
		case 1: // signature over another amount
			d = c.MakeDeposit(k, creds(k), spec.MAX_EFFECTIVE_BALANCE, k)
			d.Amount += gwei
		default: // signed for another domain (a proposer-domain signature of the right key)
			d = common.DepositData{Pubkey: c.Keys.Pubkey(k), WithdrawalCredentials: creds(k), Amount: spec.MAX_EFFECTIVE_BALANCE}
			dm := common.ComputeDomain(common.DOMAIN_BEACON_PROPOSER, spec.GENESIS_FORK_VERSION, common.Root{})
			d.Signature = c.Keys.Sign(k, common.ComputeSigningRoot(d.MessageRoot(), dm))
		}
		c.burnedKeys = append(c.burnedKeys, k)
		c.submitDeposit(d, depBadPoP, k)
	}
	for i := 0; i < b.mix.TopUps && len(b.flats) > 0; i++ {
		// prefer validators that are waiting below the activation balance, else anybody (also exited ones)
		v := common.ValidatorIndex(rng.Intn(len(b.flats)))
		var low []common.ValidatorIndex
		for j := range b.flats {
			if b.flats[j].ActivationEligibilityEpoch == common.FAR_FUTURE_EPOCH {
				low = append(low, common.ValidatorIndex(j))
			}
		}
		amount := gwei + common.Gwei(rng.Int63n(int64(3*gwei)))
		if len(low) > 0 && rng.Intn(3) > 0 {
			v = low[rng.Intn(len(low))]
			amount = spec.MAX_EFFECTIVE_BALANCE / 2
		}
		k := b.key(v)
		d := common.DepositData{Pubkey: c.Keys.Pubkey(k), WithdrawalCredentials: c.rndRoot(), Amount: amount}
		if rng.Intn(2) == 0 { // the signature of a top-up is never looked at: half of them carry garbage
			d.Signature = c.Keys.Sign(k, DepositSigningRoot(spec, &d))
		} else {
			rng.Read(d.Signature[:])
		}
		c.submitDeposit(d, depTopUp, k)
	}
}

// eth1Vote picks this block's eth1 data vote and tells which eth1 data the state will have when the
// deposits of this block are processed (the vote of this very block may be the one that tips the majority).
func (b *builder) eth1Vote() (vote common.Eth1Data, effective common.Eth1Data, err error) {
	c, spec := b.c, b.c.Spec
	cur, err := b.st.Eth1Data()
	if err != nil {
		return
	}
	period := uint64(spec.EPOCHS_PER_ETH1_VOTING_PERIOD) * uint64(spec.SLOTS_PER_EPOCH)
	p := uint64(b.slot) / period
	if !c.haveVote || p != c.votePeriod {
		c.haveVote, c.votePeriod = true, p
		if c.Contract.Count() > uint64(cur.DepositCount) {
			c.voteData = c.Contract.Eth1DataAt(c.Contract.Count())
		} else {
			c.voteData = cur
		}
	}
	vote = c.voteData
	kind := "honest"
	if vote == cur {
		kind = "nochange"
	}
	if c.Policy.Showcase && vote != cur {
		// time the votes so that the one that tips the majority is cast by the fork-boundary block
		start := common.Slot(p * period)
		if bd, ok := nextForkBoundary(spec, b.slot, start+common.Slot(period)-1-b.slot); ok && uint64(bd-start) >= period/2 {
			votes, verr := b.st.Eth1DataVotes()
			if verr != nil {
				return vote, effective, verr
			}
			n, verr := votes.Count(vote)
			if verr != nil {
				return vote, effective, verr
			}
			if n >= period/2 { // one more would tip it too early
				vote, kind = cur, "held"
			}
		}
	}
	if c.Rng.Float64() < b.mix.Eth1VoteNoise {
		kind = "noise"
		vote = common.Eth1Data{DepositRoot: c.rndRoot(), DepositCount: cur.DepositCount + common.DepositIndex(c.Rng.Intn(3)), BlockHash: c.rndRoot()}
	}
	b.op(OpInfo{Kind: OpEth1Vote, Detail: kind})
	votes, err := b.st.Eth1DataVotes()
	if err != nil {
		return
	}
	n, err := votes.Count(vote)
	if err != nil {
		return
	}
	effective = cur
	if (n+1)*2 > period {
		effective = vote
	}
	return
}

func (b *builder) deposits(body BodyRef, eth1 common.Eth1Data) error {
	c := b.c
	idx, err := b.st.Eth1DepositIndex()
	if err != nil {
		return err
	}
	if eth1.DepositCount < idx {
		return fmt.Errorf("eth1 data deposit count %d below the state's deposit index %d", eth1.DepositCount, idx)
	}
	n := uint64(eth1.DepositCount - idx)
	if m := uint64(c.Spec.MAX_DEPOSITS); n > m {
		n = m
	}
	for i := uint64(0); i < n; i++ {
		di := uint64(idx) + i
		*body.Deposits = append(*body.Deposits, c.Contract.Deposit(di, uint64(eth1.DepositCount)))
		kind, det := OpDepositNew, ""
		if int(di) < len(c.depMeta) {
			switch c.depMeta[di].kind {
			case depBadPoP:
				kind = OpDepositBadPoP
			case depTopUp:
				kind = OpDepositTopUp
			}
		}
		// what it really is at processing time: a pubkey already in the registry is a top-up
		if kind == OpDepositNew {
			if vi, ok := b.epc.ValidatorPubkeyCache.ValidatorIndex(c.Contract.Data[di].Pubkey); ok && int(vi) < len(b.flats) {
				kind, det = OpDepositTopUp, "repeat"
			}
		}
		b.op(OpInfo{Kind: kind, Index: int(i), Detail: det})
		if kind == OpDepositNew && c.Contract.Data[di].Amount > c.Spec.MAX_EFFECTIVE_BALANCE {
			b.count("deposit_new_above_cap:" + b.fork.String())
		}
	}
	return nil
}

// ---------------------------------------------------------------------------------------------- slashings

func (b *builder) slashable(v common.ValidatorIndex) bool {
	f := &b.flats[v]
	return !f.Slashed && !b.gone[v] && !b.protected[v] && f.ActivationEpoch <= b.epoch && b.epoch < f.WithdrawableEpoch
}

// pickSlashable returns a random slashable validator whose loss the chain can afford.
func (b *builder) pickSlashable() (common.ValidatorIndex, bool) {
	var cand []common.ValidatorIndex
	for i := range b.flats {
		v := common.ValidatorIndex(i)
		if !b.slashable(v) {
			continue
		}
		stillActive := b.flats[i].IsActive(b.epoch) && b.flats[i].ExitEpoch == common.FAR_FUTURE_EPOCH
		if stillActive && b.active <= b.minActive() {
			continue
		}
		cand = append(cand, v)
	}
	if len(cand) == 0 {
		return 0, false
	}
	return cand[b.c.Rng.Intn(len(cand))], true
}

func (b *builder) markGone(v common.ValidatorIndex) {
	if f := &b.flats[v]; f.IsActive(b.epoch) && f.ExitEpoch == common.FAR_FUTURE_EPOCH && !b.gone[v] {
		b.active--
	}
	b.gone[v] = true
}

// SignHeader signs a beacon block header with the proposer domain the state st prescribes for the header's epoch.
func (c *Chain) SignHeader(st common.BeaconState, hd common.BeaconBlockHeader, key int) common.SignedBeaconBlockHeader {
	dom, err := common.GetDomain(st, common.DOMAIN_BEACON_PROPOSER, c.Spec.SlotToEpoch(hd.Slot))
	if err != nil {
		panic(err)
	}
	return common.SignedBeaconBlockHeader{Message: hd, Signature: c.Keys.Sign(key, common.ComputeSigningRoot(hd.HashTreeRoot(tree.GetHashFn()), dom))}
}

func (b *builder) proposerSlashings(body BodyRef) error {
	c := b.c
	n := b.mix.ProposerSlashings
	if m := int(c.Spec.MAX_PROPOSER_SLASHINGS); n > m || b.fills("proposer_slashings") {
		n = m
	}
	for i := 0; i < n; i++ {
		v, ok := b.pickSlashable()
		if !ok {
			break
		}
		// a real double proposal if v proposed a block of this chain recently, else two made-up headers
		var h1 common.BeaconBlockHeader
		det := "synthetic"
		for s := b.slot - 1; s+2*c.Spec.SLOTS_PER_EPOCH >= b.slot && s < b.slot; s-- {
			if hd, ok := c.proposed[s]; ok && hd.ProposerIndex == v {
				h1, det = hd, "real"
				break
			}
			if s == 0 {
				break
			}
		}
		if det == "synthetic" {
			back := common.Slot(c.Rng.Intn(int(2*c.Spec.SLOTS_PER_EPOCH) + 1))
			if back > b.slot {
				back = b.slot
			}
			h1 = common.BeaconBlockHeader{Slot: b.slot - back, ProposerIndex: v, ParentRoot: c.rndRoot(), StateRoot: c.rndRoot(), BodyRoot: c.rndRoot()}
			if c.Rng.Intn(6) == 0 { // nothing forbids slashing for a double proposal that lies in the future
				h1.Slot, det = b.slot+common.Slot(1+c.Rng.Intn(int(3*c.Spec.SLOTS_PER_EPOCH))), "future"
			}
		}
		h2 := h1
		switch c.Rng.Intn(3) {
		case 0:
			h2.BodyRoot = c.rndRoot()
		case 1:
			h2.StateRoot = c.rndRoot()
		default:
			h2.ParentRoot = c.rndRoot()
		}
		k := b.key(v)
		ps := phase0.ProposerSlashing{SignedHeader1: c.SignHeader(b.st, h1, k), SignedHeader2: c.SignHeader(b.st, h2, k)}
		if c.Rng.Intn(2) == 0 {
			ps.SignedHeader1, ps.SignedHeader2 = ps.SignedHeader2, ps.SignedHeader1
		}
		*body.ProposerSlashings = append(*body.ProposerSlashings, ps)
		b.markGone(v)
		b.op(OpInfo{Kind: OpProposerSlashing, Index: i, Detail: det, Validators: []common.ValidatorIndex{v}})
	}
	return nil
}

// SignIndexed signs attestation data for the given validators with the attester domain of st.
func (c *Chain) SignIndexed(st common.BeaconState, data *phase0.AttestationData, who []common.ValidatorIndex) common.BLSSignature {
	dom, err := common.GetDomain(st, common.DOMAIN_BEACON_ATTESTER, data.Target.Epoch)
	if err != nil {
		panic(err)
	}
	keys := make([]int, len(who))
	for i, v := range who {
		k, ok := c.keyOfIn(st, v)
		if !ok {
			panic(fmt.Sprintf("validator %d has no key", v))
		}
		keys[i] = k
	}
	return c.Keys.SignAggregate(keys, common.ComputeSigningRoot(data.HashTreeRoot(tree.GetHashFn()), dom))
}

func sortedSet(m map[common.ValidatorIndex]bool) common.CommitteeIndices {
	out := make(common.CommitteeIndices, 0, len(m))
	for v := range m {
		out = append(out, v)
	}
	sort.Slice(out, func(i, j int) bool { return out[i] < out[j] })
	return out
}

// AttestationData is the attestation data an honest member of committee (a, index) signs when it sees the
// chain exactly as the state st (at a later slot, at most SLOTS_PER_HISTORICAL_ROOT later) remembers it:
// head = block root at slot a, target = block root at the start of a's epoch, source = the justified
// checkpoint st prescribes for attestations of that epoch (current or previous).
func (c *Chain) AttestationData(st common.BeaconState, a common.Slot, index common.CommitteeIndex) (phase0.AttestationData, error) {
	spec := c.Spec
	d := phase0.AttestationData{Slot: a, Index: index}
	var err error
	if d.BeaconBlockRoot, err = common.GetBlockRootAtSlot(spec, st, a); err != nil {
		return d, err
	}
	te := spec.SlotToEpoch(a)
	d.Target.Epoch = te
	if d.Target.Root, err = common.GetBlockRoot(spec, st, te); err != nil {
		return d, err
	}
	slot, err := st.Slot()
	if err != nil {
		return d, err
	}
	if te == spec.SlotToEpoch(slot) {
		d.Source, err = st.CurrentJustifiedCheckpoint()
	} else {
		d.Source, err = st.PreviousJustifiedCheckpoint()
	}
	return d, err
}

// MakeAttestation builds a signed aggregate attestation of committee (a, index) as seen from st/epc with the
// given participation (participate[j] for committee position j; nil = everybody).
func (c *Chain) MakeAttestation(st common.BeaconState, epc *common.EpochsContext, a common.Slot, index common.CommitteeIndex, participate []bool) (*phase0.Attestation, error) {
	com, err := epc.GetBeaconCommittee(a, index)
	if err != nil {
		return nil, err
	}
	data, err := c.AttestationData(st, a, index)
	if err != nil {
		return nil, err
	}
	bits := newBitlist(len(com))
	var who []common.ValidatorIndex
	for j, v := range com {
		if participate == nil || (j < len(participate) && participate[j]) {
			bits.SetBit(uint64(j), true)
			who = append(who, v)
		}
	}
	sig := InfinitySignature()
	if len(who) > 0 {
		sig = c.SignIndexed(st, &data, who)
	}
	return &phase0.Attestation{AggregationBits: bits, Data: data, Signature: sig}, nil
}

func (b *builder) honestData(a common.Slot, index common.CommitteeIndex) (phase0.AttestationData, error) {
	return b.c.AttestationData(b.st, a, index)
}

func (b *builder) attesterSlashings(body BodyRef) error {
	c, rng := b.c, b.c.Rng
	n := b.mix.AttesterSlashings
	if m := int(c.Spec.MAX_ATTESTER_SLASHINGS); n > m || b.fills("attester_slashings") {
		n = m
	}
	for i := 0; i < n; i++ {
		v, ok := b.pickSlashable()
		if !ok {
			break
		}
		// the two signer sets: both contain v; each gets some bystanders; a few more common (slashable or
		// already slashed) members may join the intersection
		s1, s2 := map[common.ValidatorIndex]bool{v: true}, map[common.ValidatorIndex]bool{v: true}
		victims := []common.ValidatorIndex{v}
		b.markGone(v)
		for j := rng.Intn(3); j > 0; j-- {
			if w, ok := b.pickSlashable(); ok && rng.Intn(2) == 0 {
				s1[w], s2[w] = true, true
				victims = append(victims, w)
				b.markGone(w)
			} else {
				w := common.ValidatorIndex(rng.Intn(len(b.flats)))
				if b.flats[w].Slashed { // an already slashed validator in the intersection is simply passed over
					s1[w], s2[w] = true, true
				}
			}
		}
		for j := rng.Intn(4); j > 0; j-- {
			w := common.ValidatorIndex(rng.Intn(len(b.flats)))
			if !s1[w] && !s2[w] {
				if rng.Intn(2) == 0 {
					s1[w] = true
				} else {
					s2[w] = true
				}
			}
		}
		var d1, d2 phase0.AttestationData
		det := "double"
		// base: what v would honestly have signed for a recent slot
		a := b.slot - 1
		if back := common.Slot(rng.Intn(int(c.Spec.SLOTS_PER_EPOCH))); back < a {
			a -= back
		}
		var err error
		if d1, err = b.honestData(a, 0); err != nil {
			return err
		}
		if rng.Intn(2) == 0 {
			// double vote: same target epoch, another head (and maybe another target root)
			d2 = d1
			d2.BeaconBlockRoot = c.rndRoot()
			if rng.Intn(2) == 0 {
				d2.Target.Root = c.rndRoot()
			}
			if rng.Intn(2) == 0 {
				d1, d2 = d2, d1
			}
		} else {
			// surround vote: attestation_1 (source s, target t) surrounds attestation_2 (s+1.., ..t-1)
			det = "surround"
			t := d1.Target.Epoch
			if t < 3 {
				t = 3
			}
			d1.Target.Epoch, d1.Source.Epoch = t, t-3
			d1.Slot = common.Slot(t) * c.Spec.SLOTS_PER_EPOCH
			d2 = d1
			d2.Source.Epoch, d2.Target.Epoch = t-2, t-1-common.Epoch(rng.Intn(2))
			d2.Slot = common.Slot(d2.Target.Epoch) * c.Spec.SLOTS_PER_EPOCH
			d2.Source.Root, d2.Target.Root = c.rndRoot(), c.rndRoot()
		}
		i1, i2 := sortedSet(s1), sortedSet(s2)
		as := phase0.AttesterSlashing{
			Attestation1: phase0.IndexedAttestation{AttestingIndices: i1, Data: d1, Signature: c.SignIndexed(b.st, &d1, i1)},
			Attestation2: phase0.IndexedAttestation{AttestingIndices: i2, Data: d2, Signature: c.SignIndexed(b.st, &d2, i2)},
		}
		*body.AttesterSlashings = append(*body.AttesterSlashings, as)
		b.op(OpInfo{Kind: OpAttesterSlashing, Index: i, Detail: det, Validators: victims})
	}
	return nil
}

// ---------------------------------------------------------------------------------------------- attestations

// partSet decides who attests in epoch e.
func (b *builder) partSet(e common.Epoch) map[common.ValidatorIndex]bool {
	c := b.c
	if s, ok := c.partSets[e]; ok {
		return s
	}
	pat := Full
	if c.Policy.Participation != nil {
		pat = c.Policy.Participation(e)
	}
	var sh *common.ShufflingEpoch
	switch e {
	case b.epc.PreviousEpoch.Epoch:
		sh = b.epc.PreviousEpoch
	case b.epc.CurrentEpoch.Epoch:
		sh = b.epc.CurrentEpoch
	default:
		sh = b.epc.NextEpoch
	}
	act := sh.ActiveIndices
	set := map[common.ValidatorIndex]bool{}
	perm := c.Rng.Perm(len(act))
	var total common.Gwei
	for _, v := range act {
		total += b.flats[v].EffectiveBalance
	}
	var sum common.Gwei
	for _, pi := range perm {
		v := act[pi]
		eb := b.flats[v].EffectiveBalance
		switch pat {
		case Full:
			set[v] = true
		case Sparse:
			if c.Rng.Intn(10) < 3 {
				set[v] = true
			}
		case JustUnderTwoThirds:
			if (sum+eb)*3 < total*2 {
				set[v] = true
				sum += eb
			}
		case JustOverTwoThirds:
			if sum*3 < total*2 {
				set[v] = true
				sum += eb
			}
		}
	}
	c.partSets[e] = set
	c.Counters.Ops["participation:"+pat.String()]++
	return set
}

func (b *builder) dutiesOf(a common.Slot) ([]*duty, error) {
	c := b.c
	if d, ok := c.duties[a]; ok {
		return d, nil
	}
	e := c.Spec.SlotToEpoch(a)
	n, err := b.epc.GetCommitteeCountPerSlot(e)
	if err != nil {
		return nil, err
	}
	set := b.partSet(e)
	var out []*duty
	for i := uint64(0); i < n; i++ {
		com, err := b.epc.GetBeaconCommittee(a, common.CommitteeIndex(i))
		if err != nil {
			return nil, err
		}
		d := &duty{slot: a, index: common.CommitteeIndex(i), committee: com, want: make([]bool, len(com)), done: make([]bool, len(com))}
		for j, v := range com {
			d.want[j] = set[v]
		}
		if c.Policy.LateMode {
			d.notBefore = b.planInclusion(a)
		}
		out = append(out, d)
	}
	c.duties[a] = out
	return out, nil
}

func (b *builder) attestations(body BodyRef) error {
	c, spec, rng := b.c, b.c.Spec, b.c.Rng
	limit := int(spec.MAX_ATTESTATIONS)
	if m := b.mix.MaxAttestations; m > 0 && m < limit {
		limit = m
	}
	if b.slot == 0 || limit == 0 || b.mix.NoAttestations {
		return nil
	}
	if c.Policy.LateMode {
		return b.attestationsLate(body, limit)
	}
	// inclusion window
	var lo common.Slot
	if b.fork >= Deneb {
		lo = common.Slot(b.epoch.Previous()) * spec.SLOTS_PER_EPOCH
	} else if b.slot > spec.SLOTS_PER_EPOCH {
		lo = b.slot - spec.SLOTS_PER_EPOCH
	}
	for a := b.slot - spec.MIN_ATTESTATION_INCLUSION_DELAY; ; a-- {
		if a < lo || len(*body.Attestations) >= limit {
			break
		}
		ds, err := b.dutiesOf(a)
		if err != nil {
			return err
		}
		for _, d := range ds {
			if len(*body.Attestations) >= limit {
				break
			}
			var pend []int
			for j := range d.committee {
				if d.want[j] && !d.done[j] {
					pend = append(pend, j)
				}
			}
			if len(pend) == 0 {
				continue
			}
			if rng.Float64() < c.Policy.LateInclusionProb && !b.showcase {
				continue // held back; a later block may still take it
			}
			data, err := b.honestData(a, d.index)
			if err != nil {
				return err
			}
			det := "head"
			if r := rng.Float64(); r < b.mix.OddVoteProb {
				det = "oddhead"
				data.BeaconBlockRoot = c.rndRoot()
				if r < b.mix.OddVoteProb/3 {
					det = "oddtarget"
					data.Target.Root = c.rndRoot()
				}
			}
			parts := [][]int{pend}
			if len(pend) >= 2 && rng.Float64() < c.Policy.SplitProb {
				k := 1 + rng.Intn(len(pend)-1)
				parts = [][]int{pend[:k], pend[k:]}
				if rng.Intn(2) == 0 { // overlapping aggregates
					parts[1] = append(append([]int{}, pend[k-1]), pend[k:]...)
				}
			}
			for _, part := range parts {
				if len(*body.Attestations) >= limit {
					break
				}
				bits := newBitlist(len(d.committee))
				who := make([]common.ValidatorIndex, 0, len(part))
				for _, j := range part {
					bits.SetBit(uint64(j), true)
					who = append(who, d.committee[j])
					d.done[j] = true
				}
				att := phase0.Attestation{AggregationBits: bits, Data: data, Signature: c.SignIndexed(b.st, &data, who)}
				b.op(OpInfo{Kind: OpAttestation, Index: len(*body.Attestations), Detail: det, Count: int(b.slot - a), Validators: who})
				*body.Attestations = append(*body.Attestations, att)
			}
		}
		if a == 0 {
			break
		}
	}
	return nil
}

// ---------------------------------------------------------------------------------------------- exits, bls changes

// SignExit signs a voluntary exit as the fork of st demands (deneb: always the capella fork version).
func (c *Chain) SignExit(st common.BeaconState, ex phase0.VoluntaryExit, key int) phase0.SignedVoluntaryExit {
	var dom common.BLSDomain
	if ForkOfState(st) >= Deneb {
		dom = common.ComputeDomain(common.DOMAIN_VOLUNTARY_EXIT, c.Spec.CAPELLA_FORK_VERSION, c.GenesisValidatorsRoot)
	} else {
		var err error
		if dom, err = common.GetDomain(st, common.DOMAIN_VOLUNTARY_EXIT, ex.Epoch); err != nil {
			panic(err)
		}
	}
	return phase0.SignedVoluntaryExit{Message: ex, Signature: c.Keys.Sign(key, common.ComputeSigningRoot(ex.HashTreeRoot(tree.GetHashFn()), dom))}
}

func (b *builder) exits(body BodyRef) error {
	c, spec := b.c, b.c.Spec
	if c.Policy.ExitAtEarliest {
		// deposit-activated validators leave at the first moment they may
		for i := range b.flats {
			f := &b.flats[i]
			v := common.ValidatorIndex(i)
			if uint64(len(*body.VoluntaryExits)) >= uint64(spec.MAX_VOLUNTARY_EXITS) || b.active <= b.minActive() {
				break
			}
			if f.ActivationEpoch > 0 && f.IsActive(b.epoch) && f.ExitEpoch == common.FAR_FUTURE_EPOCH && !b.gone[v] && !b.protected[v] &&
				b.epoch == f.ActivationEpoch+spec.SHARD_COMMITTEE_PERIOD {
				ex := phase0.VoluntaryExit{Epoch: b.epoch, ValidatorIndex: v}
				b.op(OpInfo{Kind: OpExit, Index: len(*body.VoluntaryExits), Detail: "at-earliest", Validators: []common.ValidatorIndex{v}})
				*body.VoluntaryExits = append(*body.VoluntaryExits, c.SignExit(b.st, ex, b.key(v)))
				b.markGone(v)
			}
		}
	}
	n := b.mix.Exits
	if m := int(spec.MAX_VOLUNTARY_EXITS); n > m || b.fills("exits") {
		n = m
	}
	n -= len(*body.VoluntaryExits)
	if n <= 0 {
		return nil
	}
	var cand []common.ValidatorIndex
	for i := range b.flats {
		f := &b.flats[i]
		v := common.ValidatorIndex(i)
		if f.IsActive(b.epoch) && f.ExitEpoch == common.FAR_FUTURE_EPOCH && !b.gone[v] && !b.protected[v] && b.epoch >= f.ActivationEpoch+spec.SHARD_COMMITTEE_PERIOD {
			cand = append(cand, v)
		}
	}
	c.Rng.Shuffle(len(cand), func(i, j int) { cand[i], cand[j] = cand[j], cand[i] })
	for i := 0; i < n && i < len(cand) && b.active > b.minActive(); i++ {
		v := cand[i]
		ex := phase0.VoluntaryExit{Epoch: b.epoch, ValidatorIndex: v}
		if back := common.Epoch(c.Rng.Intn(3)); back <= ex.Epoch {
			ex.Epoch -= back
		}
		b.op(OpInfo{Kind: OpExit, Index: len(*body.VoluntaryExits), Validators: []common.ValidatorIndex{v}})
		*body.VoluntaryExits = append(*body.VoluntaryExits, c.SignExit(b.st, ex, b.key(v)))
		b.markGone(v)
	}
	return nil
}

// SignBLSChange signs a BLS-to-execution change with the withdrawal key of key k.
func (c *Chain) SignBLSChange(ch common.BLSToExecutionChange, k int) common.SignedBLSToExecutionChange {
	dom := common.ComputeDomain(common.DOMAIN_BLS_TO_EXECUTION_CHANGE, c.Spec.GENESIS_FORK_VERSION, c.GenesisValidatorsRoot)
	return common.SignedBLSToExecutionChange{BLSToExecutionChange: ch,
		Signature: c.Keys.SignWithdrawal(k, common.ComputeSigningRoot(ch.HashTreeRoot(tree.GetHashFn()), dom))}
}

func (b *builder) blsChanges(body BodyRef) error {
	c := b.c
	n := b.mix.BLSChanges
	if m := int(c.Spec.MAX_BLS_TO_EXECUTION_CHANGES); n > m || b.fills("bls_changes") {
		n = m
	}
	if n == 0 {
		return nil
	}
	vals, err := b.st.Validators()
	if err != nil {
		return err
	}
	var cand []common.ValidatorIndex
	for i := range b.flats {
		v, err := vals.Validator(common.ValidatorIndex(i))
		if err != nil {
			return err
		}
		wc, err := v.WithdrawalCredentials()
		if err != nil {
			return err
		}
		if wc[0] == common.BLS_WITHDRAWAL_PREFIX && wc == c.Keys.BLSCredentials(b.key(common.ValidatorIndex(i))) {
			cand = append(cand, common.ValidatorIndex(i))
		}
	}
	c.Rng.Shuffle(len(cand), func(i, j int) { cand[i], cand[j] = cand[j], cand[i] })
	for i := 0; i < n && i < len(cand); i++ {
		k := b.key(cand[i])
		ch := common.BLSToExecutionChange{ValidatorIndex: cand[i], FromBLSPubKey: c.Keys.WithdrawalPubkey(k), ToExecutionAddress: c.Keys.ExecutionAddress(k)}
		*body.BLSChanges = append(*body.BLSChanges, c.SignBLSChange(ch, k))
		b.op(OpInfo{Kind: OpBLSChange, Index: i, Validators: []common.ValidatorIndex{cand[i]}})
	}
	return nil
}

// ---------------------------------------------------------------------------------------------- sync aggregate

// SyncSigningRoot is the message the sync committee signs in a block at slot: the block root of slot-1.
func (c *Chain) SyncSigningRoot(st common.BeaconState, slot common.Slot) (common.Root, error) {
	prev := slot.Previous()
	dom, err := common.GetDomain(st, common.DOMAIN_SYNC_COMMITTEE, c.Spec.SlotToEpoch(prev))
	if err != nil {
		return common.Root{}, err
	}
	r, err := common.GetBlockRootAtSlot(c.Spec, st, prev)
	if err != nil {
		return common.Root{}, err
	}
	return common.ComputeSigningRoot(r, dom), nil
}

func (b *builder) syncAggregate(body BodyRef) error {
	c := b.c
	size := uint64(c.Spec.SYNC_COMMITTEE_SIZE)
	bits := make(altair.SyncCommitteeBits, (size+7)/8)
	if b.epc.CurrentSyncCommittee == nil {
		return fmt.Errorf("epochs context has no current sync committee")
	}
	var keys []int
	var who []common.ValidatorIndex
	for i := uint64(0); i < size; i++ {
		if c.Rng.Float64() < b.mix.SyncParticipation {
			bits.SetBit(i, true)
			v := b.epc.CurrentSyncCommittee.Indices[i]
			keys = append(keys, b.key(v))
			who = append(who, v)
		}
	}
	root, err := c.SyncSigningRoot(b.st, b.slot)
	if err != nil {
		return err
	}
	*body.SyncAggregate = altair.SyncAggregate{SyncCommitteeBits: bits, SyncCommitteeSignature: c.Keys.SignAggregate(keys, root)}
	b.op(OpInfo{Kind: OpSyncAggregate, Count: len(keys), Validators: who})
	return nil
}

// ---------------------------------------------------------------------------------------------- execution payload

// payloadParent reads (block hash, block number, is-empty) of the state's latest execution payload header.
func payloadParent(st common.BeaconState) (hash common.Hash32, number uint64, empty bool, err error) {
	switch s := st.(type) {
	case *bellatrix.BeaconStateView:
		hv, e := s.LatestExecutionPayloadHeader()
		if e != nil {
			return hash, 0, false, e
		}
		hd, e := hv.Raw()
		if e != nil {
			return hash, 0, false, e
		}
		done, e := s.IsTransitionCompleted()
		return hd.BlockHash, uint64(hd.BlockNumber), !done, e
	case *capella.BeaconStateView:
		hv, e := s.LatestExecutionPayloadHeader()
		if e != nil {
			return hash, 0, false, e
		}
		hd, e := hv.Raw()
		if e != nil {
			return hash, 0, false, e
		}
		return hd.BlockHash, uint64(hd.BlockNumber), false, nil
	case *deneb.BeaconStateView:
		hv, e := s.LatestExecutionPayloadHeader()
		if e != nil {
			return hash, 0, false, e
		}
		hd, e := hv.Raw()
		if e != nil {
			return hash, 0, false, e
		}
		return hd.BlockHash, uint64(hd.BlockNumber), false, nil
	}
	return hash, 0, false, fmt.Errorf("state %T has no execution payload header", st)
}

// ExpectedWithdrawals is what the repo's capella.GetExpectedWithdrawals says for a capella/deneb state.
func ExpectedWithdrawals(spec *common.Spec, st common.BeaconState) ([]common.Withdrawal, error) {
	ws, ok := st.(capella.BeaconStateWithWithdrawals)
	if !ok {
		return nil, fmt.Errorf("state %T has no withdrawals", st)
	}
	return capella.GetExpectedWithdrawals(ws, spec)
}

func (b *builder) fillPayload(blk *SignedBlock, body BodyRef) error {
	c, spec, rng := b.c, b.c.Spec, b.c.Rng
	p := body.Payload
	parentHash, parentNumber, preMerge, err := payloadParent(b.st)
	if err != nil {
		return err
	}
	kind := OpPayload
	if b.fork == Bellatrix && preMerge {
		if c.mergeDelay > 0 {
			c.mergeDelay--
			b.op(OpInfo{Kind: OpEmptyPayload})
			return nil
		}
		kind = OpMergeBlock
		parentHash = c.rndRoot() // the terminal proof-of-work block
		parentNumber = uint64(1000 + rng.Intn(1000))
	}
	mixes, err := b.st.RandaoMixes()
	if err != nil {
		return err
	}
	*p.ParentHash = parentHash
	*p.FeeRecipient = c.Keys.ExecutionAddress(b.key(b.step.Proposer))
	*p.StateRoot, *p.ReceiptsRoot = c.rndRoot(), c.rndRoot()
	if *p.PrevRandao, err = mixes.GetRandomMix(b.epoch); err != nil {
		return err
	}
	*p.BlockNumber = view.Uint64View(parentNumber + 1)
	*p.GasLimit = 30_000_000
	if *p.Timestamp, err = spec.TimeAtSlot(b.slot, c.GenesisTime); err != nil {
		return err
	}
	*p.ExtraData = common.ExtraData("verif")
	*p.BaseFeePerGas = view.Uint256View{7 + uint64(rng.Intn(100))}
	nTx, nBlobs := b.mix.Transactions, b.mix.Blobs
	if b.mix.PayloadEdge {
		ed := make(common.ExtraData, []int{0, 31, common.MAX_EXTRA_DATA_BYTES}[rng.Intn(3)])
		rng.Read(ed)
		*p.ExtraData = ed
		nTx = []int{0, 0, 3 + rng.Intn(4)}[rng.Intn(3)]
		nBlobs = []int{0, int(spec.MAX_BLOBS_PER_BLOCK)}[rng.Intn(2)]
	}
	for i := 0; i < nTx; i++ {
		tx := make(common.Transaction, 1+rng.Intn(40))
		rng.Read(tx)
		*p.Transactions = append(*p.Transactions, tx)
	}
	*p.GasUsed = view.Uint64View(21000 * len(*p.Transactions))
	if b.fork >= Capella {
		ws, err := ExpectedWithdrawals(spec, b.st)
		if err != nil {
			return err
		}
		*p.Withdrawals = append(common.Withdrawals{}, ws...)
		b.step.ExpectedWithdrawals = ws
		for i, w := range ws {
			k := OpWithdrawalPart
			if f := &b.flats[w.ValidatorIndex]; f.WithdrawableEpoch <= b.epoch {
				k = OpWithdrawalFull
			}
			b.op(OpInfo{Kind: k, Index: i, Validators: []common.ValidatorIndex{w.ValidatorIndex}})
		}
	}
	if b.fork >= Deneb {
		n := nBlobs
		if m := int(spec.MAX_BLOBS_PER_BLOCK); m > 6 && !b.mix.PayloadEdge {
			n = n * m / 2 // configurations with a large blob limit: 0, m/2, m commitments
		}
		if m := int(spec.MAX_BLOBS_PER_BLOCK); n > m {
			n = m
		}
		for i := 0; i < n; i++ {
			// any 48 bytes pass the consensus checks; use real compressed G1 points
			*body.BlobKZGCommitments = append(*body.BlobKZGCommitments, common.KZGCommitment(c.Keys.Pubkey(rng.Intn(64))))
		}
		*p.BlobGasUsed = view.Uint64View(131072 * n)
		b.op(OpInfo{Kind: OpBlobCommitments, Count: n})
	}
	// the block hash: any value the engine accepts; make it depend on the content
	var sb [8]byte
	binary.LittleEndian.PutUint64(sb[:], uint64(b.slot))
	txRoot := p.Transactions.HashTreeRoot(spec, tree.GetHashFn())
	*p.BlockHash = hashing.Hash(append(append(append(parentHash[:], sb[:]...), txRoot[:]...), p.StateRoot[:]...))
	b.op(OpInfo{Kind: kind, Count: len(*p.Transactions)})
	return nil
}

// ---------------------------------------------------------------------------------------------- bookkeeping

// commit installs the new head and updates the counters.
func (c *Chain) commit(work common.BeaconState, epc *common.EpochsContext, step *Step) {
	spec := c.Spec
	prevEpoch := spec.SlotToEpoch(c.Slot())
	c.State.BeaconState = CopyState(work)
	c.Epc = epc
	ct := &c.Counters
	ct.Slots++
	if step.EpcRepaired {
		ct.EpcRepairs++
	}
	if step.PlainRejected {
		ct.PlainRejected++
	}
	if step.Skipped {
		ct.Skipped++
		if step.Forced {
			ct.ForcedSkips++
		}
	} else {
		ct.Blocks++
	}
	for _, o := range step.Ops {
		ct.Ops[string(o.Kind)]++
		if o.Detail != "" {
			ct.Ops[string(o.Kind)+":"+o.Detail]++
		}
		if o.Kind == OpAttestation {
			ct.Ops["att_delay:"+delayBucket(spec, common.Slot(o.Count))]++
		}
	}
	for k, v := range step.extra {
		ct.Ops[k] += v
	}
	if step.Block != nil {
		c.countShapes(step)
	}
	if step.Fork != c.lastFork {
		ct.Upgrades += int(step.Fork - c.lastFork)
		c.lastFork = step.Fork
	}
	ct.Forks[step.Fork.String()] = true
	epoch := spec.SlotToEpoch(step.Slot)
	post := step.Post
	if epoch != prevEpoch {
		ct.Epochs++
		// was the epoch transition run under a leak? (finality delay measured on the state before it)
		if fin, err := step.Pre.FinalizedCheckpoint(); err == nil {
			if prevEpoch.Previous()-fin.Epoch > spec.MIN_EPOCHS_TO_INACTIVITY_PENALTY && prevEpoch.Previous() >= fin.Epoch {
				ct.LeakEpochs++
			}
		}
		if step.Fork >= Altair && epoch%spec.EPOCHS_PER_SYNC_COMMITTEE_PERIOD == 0 && ForkOfState(step.Pre) >= Altair {
			ct.SyncPeriodBoundaries++
		}
		if epoch%spec.SlotToEpoch(spec.SLOTS_PER_HISTORICAL_ROOT) == 0 {
			ct.HistoricalAccumulations++
			ct.Ops["historical_accumulation:"+ForkOfState(step.Pre).String()]++ // the fork whose epoch processing did it
		}
		for s := range c.duties {
			if s+3*spec.SLOTS_PER_EPOCH < step.Slot {
				delete(c.duties, s)
			}
		}
		for e := range c.partSets {
			if e+3 < epoch {
				delete(c.partSets, e)
			}
		}
		for s := range c.proposed {
			if s+4*spec.SLOTS_PER_EPOCH < step.Slot {
				delete(c.proposed, s)
			}
		}
	}
	if fin, err := post.FinalizedCheckpoint(); err == nil && fin.Epoch != ct.Finalized {
		ct.Finalized = fin.Epoch
		ct.FinalityAdvances++
	}
	if j, err := post.CurrentJustifiedCheckpoint(); err == nil {
		ct.Justified = j.Epoch
	}
	if e1, err := post.Eth1Data(); err == nil && e1.DepositCount != c.lastEth1Cnt {
		c.lastEth1Cnt = e1.DepositCount
		ct.Eth1Adoptions++
	}
	if vals, err := post.Validators(); err == nil {
		if flats, err := common.FlattenValidators(vals); err == nil {
			pending, span := 0, 0
			for i := range flats {
				f := &flats[i]
				if f.ActivationEligibilityEpoch != common.FAR_FUTURE_EPOCH && f.ActivationEpoch == common.FAR_FUTURE_EPOCH {
					pending++
				}
				if f.ExitEpoch != common.FAR_FUTURE_EPOCH && f.ExitEpoch > epoch {
					if d := int(f.ExitEpoch - epoch); d > span {
						span = d
					}
				}
				if i >= len(c.prevFlat) {
					continue
				}
				o := &c.prevFlat[i]
				if o.ActivationEpoch == common.FAR_FUTURE_EPOCH && f.ActivationEpoch != common.FAR_FUTURE_EPOCH {
					ct.Activations++
				}
				if o.ExitEpoch == common.FAR_FUTURE_EPOCH && f.ExitEpoch != common.FAR_FUTURE_EPOCH {
					ct.ExitsBegun++
					if !f.Slashed {
						// not slashed: either a voluntary exit of this block or an ejection by epoch processing
						vol := false
						for _, op := range step.Ops {
							if op.Kind == OpExit && len(op.Validators) == 1 && int(op.Validators[0]) == i {
								vol = true
							}
						}
						if !vol {
							ct.Ejections++
						}
					}
				}
				if !o.Slashed && f.Slashed {
					ct.Slashed++
				}
			}
			if pending > ct.MaxPendingActivations {
				ct.MaxPendingActivations = pending
			}
			if span > ct.MaxExitQueueSpan {
				ct.MaxExitQueueSpan = span
			}
			c.prevFlat = flats
			ct.Validators = len(flats)
		}
	}
}

// rngFor derives an independent random source from the chain seed and a label (for consumers that want
// randomness that does not disturb the chain's own stream).
func rngFor(seed int64, label string) *rand.Rand {
	h := hashing.Hash(append([]byte(label), byte(seed), byte(seed>>8), byte(seed>>16), byte(seed>>24), byte(seed>>32), byte(seed>>40), byte(seed>>48), byte(seed>>56)))
	return rand.New(rand.NewSource(int64(binary.LittleEndian.Uint64(h[:8]))))
}

// countShapes records the unusual-but-valid block shapes a block has (round-2 counters): lists at exactly
// their maximum, payload fields at their limits, fork-boundary blocks and what they carry.
func (c *Chain) countShapes(step *Step) {
	spec, ct := c.Spec, &c.Counters
	body := step.Block.Body()
	full := func(name string, n int, max view.Uint64View) {
		if n > 0 && uint64(n) == uint64(max) {
			ct.Ops["block_full:"+name]++
		}
	}
	full("proposer_slashings", len(*body.ProposerSlashings), spec.MAX_PROPOSER_SLASHINGS)
	full("attester_slashings", len(*body.AttesterSlashings), spec.MAX_ATTESTER_SLASHINGS)
	full("attestations", len(*body.Attestations), spec.MAX_ATTESTATIONS)
	full("deposits", len(*body.Deposits), spec.MAX_DEPOSITS)
	full("exits", len(*body.VoluntaryExits), spec.MAX_VOLUNTARY_EXITS)
	if body.BLSChanges != nil {
		full("bls_changes", len(*body.BLSChanges), spec.MAX_BLS_TO_EXECUTION_CHANGES)
	}
	if p := body.Payload; p != nil && *p.BlockHash != (common.Hash32{}) {
		if p.Withdrawals != nil {
			full("withdrawals", len(*p.Withdrawals), spec.MAX_WITHDRAWALS_PER_PAYLOAD)
		}
		switch n := len(*p.ExtraData); n {
		case 0, 31, common.MAX_EXTRA_DATA_BYTES:
			ct.Ops[fmt.Sprintf("extra_data:%d", n)]++
		}
		switch n := len(*p.Transactions); {
		case n == 0:
			ct.Ops["txs:0"]++
		case n >= 3:
			ct.Ops["txs:many"]++
		}
		if body.BlobKZGCommitments != nil {
			full("blobs", len(*body.BlobKZGCommitments), spec.MAX_BLOBS_PER_BLOCK)
			if len(*body.BlobKZGCommitments) >= 7 {
				ct.Ops["blobs:7+"]++
			}
		}
	}
	if f, ok := forkBoundary(spec, step.Slot); ok {
		ct.Ops["fork_boundary_block:"+f.String()]++
		has := map[OpKind]bool{}
		for _, o := range step.Ops {
			if o.Kind == OpSyncAggregate && o.Count == 0 {
				continue
			}
			has[o.Kind] = true
		}
		missing := ""
		need := []OpKind{OpProposerSlashing, OpAttesterSlashing, OpAttestation, OpExit}
		if f >= Altair {
			need = append(need, OpSyncAggregate)
		}
		if f >= Capella {
			need = append(need, OpBLSChange)
		}
		for _, k := range need {
			if !has[k] {
				missing += " " + string(k)
				ct.Ops["fork_boundary_missing:"+string(k)]++
			}
		}
		if !has[OpDepositNew] && !has[OpDepositTopUp] && !has[OpDepositBadPoP] {
			missing += " deposit"
			ct.Ops["fork_boundary_missing:deposit"]++
		}
		if missing == "" {
			ct.Ops["fork_boundary_complete:"+f.String()]++
		}
	}
}

// forkBoundary tells whether slot is the first slot of a fork epoch (> 0) and of which fork (the last one if
// several forks share the epoch).
func forkBoundary(spec *common.Spec, slot common.Slot) (Fork, bool) {
	if slot == 0 || slot%spec.SLOTS_PER_EPOCH != 0 {
		return 0, false
	}
	e := spec.SlotToEpoch(slot)
	f, ok := Phase0, false
	for i, fe := range ForkEpochs(spec) {
		if fe == e {
			f, ok = Fork(i+1), true
		}
	}
	return f, ok
}

// nextForkBoundary returns the first fork-boundary slot in (from, from+within].
func nextForkBoundary(spec *common.Spec, from common.Slot, within common.Slot) (common.Slot, bool) {
	for _, fe := range ForkEpochs(spec) {
		if fe == Never || fe == 0 || uint64(fe) > 1<<40 {
			continue
		}
		b := common.Slot(fe) * spec.SLOTS_PER_EPOCH
		if b > from && b <= from+within {
			return b, true
		}
	}
	return 0, false
}
