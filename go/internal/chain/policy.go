package chain

import (
	"fmt"
	"math/rand"
	"sort"
	"strings"

	"github.com/protolambda/zrnt/eth2/beacon/common"
)

// Pattern is the attestation participation of one epoch: which of the epoch's active validators make their
// attestation at all.
type Pattern int

const (
	Full               Pattern = iota // everybody
	JustOverTwoThirds                 // the smallest hash-ordered prefix with >= 2/3 of the active effective balance
	JustUnderTwoThirds                // the largest hash-ordered prefix with  < 2/3 (never justifies)
	Sparse                            // ~30% (inactivity leak once finality is far enough behind)
	Nobody                            // no attestations at all
)

func (p Pattern) String() string {
	return [...]string{"full", "just-over-2/3", "just-under-2/3", "sparse", "nobody"}[p]
}

// OpMix is the exact mix of operations to put into one block. Counts are upper bounds: they are cut down to
// what is possible (candidates available, per-block limits, keeping enough validators active). Deposits are
// *submitted to the deposit contract* in this slot; the protocol decides when they must be included (as soon
// as the eth1-data vote that covers them is adopted, every block must carry the next ones).
type OpMix struct {
	ProposerSlashings int
	AttesterSlashings int
	NewDeposits       int // new validators with a valid proof of possession
	BadPoPDeposits    int // new pubkeys with an invalid proof of possession (processed, creates nothing)
	TopUps            int // deposits for pubkeys that already are validators
	Exits             int
	BLSChanges        int // capella+
	// MaxAttestations: 0 = as many as available (up to MAX_ATTESTATIONS); otherwise an upper bound.
	// NoAttestations: none at all.
	MaxAttestations int
	NoAttestations  bool
	// SyncParticipation is the probability of each sync-committee bit (altair+). Negative: 0.
	SyncParticipation float64
	Blobs             int // number of blob KZG commitments (deneb; cut to MAX_BLOBS_PER_BLOCK)
	Transactions      int // opaque transactions in the payload
	// OddVoteProb: probability that an attestation votes for a wrong head (valid, but earns less).
	OddVoteProb float64
	// Eth1VoteNoise: probability that this block's eth1 vote is a random one instead of the honest one.
	Eth1VoteNoise float64
	// PayloadEdge: the payload's variable-size fields sit at their limits: extra_data of 0, 31 or 32 bytes,
	// no transaction or several, blob commitments none or exactly MAX_BLOBS_PER_BLOCK (Blobs/Transactions are
	// then ignored).
	PayloadEdge bool
	// Fill names the operation kinds of which this block should carry exactly the per-block maximum if enough
	// candidates exist (the matching count above is then ignored): any of "proposer_slashings",
	// "attester_slashings", "exits", "deposits" (submits enough deposits to fill later blocks),
	// "bls_changes".
	Fill []string
}

// Policy is the random source of OpMix and of skipping.
type Policy struct {
	SkipProb float64
	// Participation returns the pattern of an epoch (consulted once, the first time an attestation of that
	// epoch could be included). nil: Full.
	Participation func(e common.Epoch) Pattern
	// Rates: expected number per block of each operation kind (Poisson-ish: n = floor(rate) + Bernoulli(frac)).
	ProposerSlashings, AttesterSlashings, NewDeposits, BadPoPDeposits, TopUps, Exits, BLSChanges float64
	SyncParticipation                                                                            float64 // mean; each block draws its own value around it (and sometimes 0 or 1)
	Blobs                                                                                        float64
	Transactions                                                                                 float64
	OddVoteProb                                                                                  float64
	Eth1VoteNoise                                                                                float64
	LateInclusionProb                                                                            float64 // probability that an available attestation is held back for a later block
	SplitProb                                                                                    float64 // probability that a committee's attestation is included as two aggregates
	// --- round 2: unusual but valid block shapes. All zero: the round-1 behaviour, bit for bit. ---
	// LateMode: every committee's attestation gets a planned inclusion delay when its slot first becomes
	// includable: 1, isqrt(SLOTS_PER_EPOCH)-1 / +0 / +1 (timely-source boundary), exactly SLOTS_PER_EPOCH (the
	// last slot allowed before deneb, timely-target boundary) and — since deneb — more than SLOTS_PER_EPOCH
	// (a previous-epoch attestation in the second half of the next epoch). It is included in the first block at
	// or after that delay that still may carry it; older attestations are served first.
	LateMode bool
	// ReincludeProb: probability per block and committee that an aggregate whose members were (partly)
	// included before is included AGAIN, as the superset of everybody who wants to attest (overlap, repeat).
	ReincludeProb float64
	// BurstProb: probability that a block is asked to carry exactly the maximum of one random operation kind
	// (OpMix.Fill), e.g. 16 proposer slashings at once.
	BurstProb float64
	// PayloadEdgeProb: probability of OpMix.PayloadEdge.
	PayloadEdgeProb float64
	// ExitAtEarliest: every validator that was activated through a deposit (activation_epoch > 0) exits in the
	// first block of the epoch activation_epoch + SHARD_COMMITTEE_PERIOD (the earliest moment allowed), on top of
	// the exits the rates ask for.
	ExitAtEarliest bool
	// Showcase: the first slot of every fork epoch always has a block (unless its proposer is slashed — the
	// generator keeps that proposer out of slashings and exits beforehand), carrying every signed operation
	// kind the fork has: proposer slashing, attester slashing, attestations, exit, BLS change, sync aggregate,
	// and — by timing the eth1 votes so that the tipping vote is this block's — deposits.
	Showcase bool
	burstSeq int
	// MinActive: slashings and exits are not generated when fewer than this many validators would stay
	// active. 0: max(2*SLOTS_PER_EPOCH, half of the genesis validators).
	MinActive int
}

// DefaultPolicy: an eventful but mostly healthy chain.
func DefaultPolicy() Policy {
	return Policy{
		SkipProb:          0.1,
		ProposerSlashings: 0.06, AttesterSlashings: 0.06,
		NewDeposits: 0.25, BadPoPDeposits: 0.05, TopUps: 0.15,
		Exits: 0.15, BLSChanges: 0.3,
		SyncParticipation: 0.85, Blobs: 1.0, Transactions: 1.5,
		OddVoteProb: 0.04, Eth1VoteNoise: 0.05, LateInclusionProb: 0.12, SplitProb: 0.12,
	}
}

// QuietPolicy: every slot has a block with full attestations and full sync participation, no other
// operations (the shortest way to finality).
func QuietPolicy() Policy {
	return Policy{SyncParticipation: 1}
}

func drawCount(rng *rand.Rand, rate float64) int {
	n := int(rate)
	if rng.Float64() < rate-float64(n) {
		n++
	}
	return n
}

func (p *Policy) draw(rng *rand.Rand) *OpMix {
	m := p.drawBase(rng)
	// round-2 knobs draw only when switched on, so that the random stream of the old policies is untouched
	if p.PayloadEdgeProb > 0 && rng.Float64() < p.PayloadEdgeProb {
		m.PayloadEdge = true
	}
	if p.BurstProb > 0 && rng.Float64() < p.BurstProb {
		kinds := []string{"proposer_slashings", "bls_changes", "attester_slashings", "exits", "deposits", "bls_changes"}
		m.Fill = []string{kinds[p.burstSeq%len(kinds)]} // round robin: every kind gets its turn
		p.burstSeq++
	}
	return m
}

func (p *Policy) drawBase(rng *rand.Rand) *OpMix {
	m := &OpMix{
		ProposerSlashings: drawCount(rng, p.ProposerSlashings),
		AttesterSlashings: drawCount(rng, p.AttesterSlashings),
		NewDeposits:       drawCount(rng, p.NewDeposits),
		BadPoPDeposits:    drawCount(rng, p.BadPoPDeposits),
		TopUps:            drawCount(rng, p.TopUps),
		Exits:             drawCount(rng, p.Exits),
		BLSChanges:        drawCount(rng, p.BLSChanges),
		Blobs:             drawCount(rng, p.Blobs*2*rng.Float64()),
		Transactions:      drawCount(rng, p.Transactions*2*rng.Float64()),
		OddVoteProb:       p.OddVoteProb,
		Eth1VoteNoise:     p.Eth1VoteNoise,
	}
	switch sp := p.SyncParticipation; {
	case sp >= 1:
		m.SyncParticipation = 1
	case sp <= 0:
		m.SyncParticipation = 0
	default:
		switch r := rng.Intn(10); r {
		case 0:
			m.SyncParticipation = 0
		case 1:
			m.SyncParticipation = 1
		default:
			m.SyncParticipation = sp + (rng.Float64()-0.5)*0.3
		}
	}
	return m
}

// OpKind names what an included operation is.
type OpKind string

const (
	OpProposerSlashing OpKind = "proposer_slashing"
	OpAttesterSlashing OpKind = "attester_slashing" // Detail: "double" | "surround"
	OpAttestation      OpKind = "attestation"       // Detail: "head" | "oddhead" | "oddtarget", delay
	OpDepositNew       OpKind = "deposit_new"
	OpDepositBadPoP    OpKind = "deposit_badpop"
	OpDepositTopUp     OpKind = "deposit_topup"
	OpExit             OpKind = "voluntary_exit"
	OpBLSChange        OpKind = "bls_to_execution_change"
	OpSyncAggregate    OpKind = "sync_aggregate" // Count = participants
	OpPayload          OpKind = "execution_payload"
	OpMergeBlock       OpKind = "merge_transition_payload"
	OpEmptyPayload     OpKind = "empty_payload" // bellatrix before the merge
	OpWithdrawalFull   OpKind = "withdrawal_full"
	OpWithdrawalPart   OpKind = "withdrawal_partial"
	OpBlobCommitments  OpKind = "blob_kzg_commitments" // Count = commitments
	OpEth1Vote         OpKind = "eth1_vote"            // Detail: "honest" | "nochange" | "noise"
)

// OpInfo describes one operation of a block: its kind, its position in its list of the body, and the
// validators it is about.
type OpInfo struct {
	Kind       OpKind
	Index      int // position inside its own list of the block body (0 for singletons)
	Detail     string
	Count      int
	Validators []common.ValidatorIndex
}

func opSummary(ops []OpInfo) string {
	m := map[string]int{}
	for _, o := range ops {
		m[string(o.Kind)]++
	}
	k := make([]string, 0, len(m))
	for s := range m {
		k = append(k, s)
	}
	sort.Strings(k)
	var b strings.Builder
	for i, s := range k {
		if i > 0 {
			b.WriteByte(' ')
		}
		fmt.Fprintf(&b, "%s=%d", s, m[s])
	}
	return b.String()
}

// Counters accumulate the events of a chain (for the evidence: generator quality bounds what a tie sees).
type Counters struct {
	Slots, Blocks, Skipped, ForcedSkips int
	Ops                                 map[string]int  // per OpKind (+ ":detail" variants)
	Forks                               map[string]bool // forks the chain has been in
	Upgrades                            int             // fork boundaries crossed by slot processing
	Epochs                              int             // epoch transitions processed
	LeakEpochs                          int             // epoch transitions that ran with finality delay > MIN_EPOCHS_TO_INACTIVITY_PENALTY
	Justified, Finalized                common.Epoch    // latest checkpoints
	FinalityAdvances                    int             // how often the finalized epoch moved
	Activations, Ejections, ExitsBegun  int             // registry changes seen (ejections: exits begun by epoch processing)
	Slashed                             int
	SyncPeriodBoundaries                int // epoch transitions that rotated the sync committees
	Eth1Adoptions                       int // blocks after which state.eth1_data had a new deposit count
	HistoricalAccumulations             int
	MaxExitQueueSpan                    int // largest (max exit epoch - current epoch) over not yet exited validators
	MaxPendingActivations               int
	Validators                          int
	// EpcRepairs: slots after whose processing the live epochs context's sync committees disagreed with the
	// state (the /repo defect) and were reloaded. PlainRejected: spec-valid blocks the plain StateTransition refused because of it.
	EpcRepairs, PlainRejected int
}

func newCounters() Counters {
	return Counters{Ops: map[string]int{}, Forks: map[string]bool{}}
}

// Summary renders the counters canonically on one line.
func (c *Counters) Summary() string {
	var b strings.Builder
	fmt.Fprintf(&b, "slots=%d blocks=%d skipped=%d forced=%d epochs=%d", c.Slots, c.Blocks, c.Skipped, c.ForcedSkips, c.Epochs)
	forks := make([]string, 0, len(c.Forks))
	for _, n := range forkNames {
		if c.Forks[n] {
			forks = append(forks, n)
		}
	}
	fmt.Fprintf(&b, " forks=%s upgrades=%d justified=%d finalized=%d finality_advances=%d leak_epochs=%d",
		strings.Join(forks, "+"), c.Upgrades, c.Justified, c.Finalized, c.FinalityAdvances, c.LeakEpochs)
	fmt.Fprintf(&b, " validators=%d activations=%d ejections=%d exits_begun=%d slashed=%d sync_period_boundaries=%d eth1_adoptions=%d max_exit_queue_span=%d max_pending_activations=%d",
		c.Validators, c.Activations, c.Ejections, c.ExitsBegun, c.Slashed, c.SyncPeriodBoundaries, c.Eth1Adoptions, c.MaxExitQueueSpan, c.MaxPendingActivations)
	fmt.Fprintf(&b, " epc_sync_repairs=%d plain_transition_rejected=%d", c.EpcRepairs, c.PlainRejected)
	keys := make([]string, 0, len(c.Ops))
	for k := range c.Ops {
		keys = append(keys, k)
	}
	sort.Strings(keys)
	b.WriteString(" ops{")
	for i, k := range keys {
		if i > 0 {
			b.WriteByte(' ')
		}
		fmt.Fprintf(&b, "%s=%d", k, c.Ops[k])
	}
	b.WriteString("}")
	return b.String()
}

// Each calls f(histogram, bucket, n) for every counter — the shape hreg.Stats wants
// (for i := 0; i < n; i++ { o.Stats.Add(hist, bucket) } or a direct add).
func (c *Counters) Each(f func(hist, bucket string, n int)) {
	f("chain", "slots", c.Slots)
	f("chain", "blocks", c.Blocks)
	f("chain", "skipped", c.Skipped)
	f("chain", "forced-skips", c.ForcedSkips)
	f("chain", "epochs", c.Epochs)
	f("chain", "upgrades", c.Upgrades)
	f("chain", "leak-epochs", c.LeakEpochs)
	f("chain", "finality-advances", c.FinalityAdvances)
	f("chain", "activations", c.Activations)
	f("chain", "ejections", c.Ejections)
	f("chain", "exits-begun", c.ExitsBegun)
	f("chain", "slashed", c.Slashed)
	f("chain", "sync-period-boundaries", c.SyncPeriodBoundaries)
	f("chain", "eth1-adoptions", c.Eth1Adoptions)
	f("chain", "historical-accumulations", c.HistoricalAccumulations)
	f("chain", "epc-sync-repairs", c.EpcRepairs)
	f("chain", "plain-transition-rejected", c.PlainRejected)
	for k, v := range c.Forks {
		if v {
			f("fork", k, 1)
		}
	}
	for k, v := range c.Ops {
		f("op", k, v)
	}
}

// Add merges another chain's counters into c (for totals over several chains).
func (c *Counters) Add(o *Counters) {
	c.Slots += o.Slots
	c.Blocks += o.Blocks
	c.Skipped += o.Skipped
	c.ForcedSkips += o.ForcedSkips
	c.Upgrades += o.Upgrades
	c.Epochs += o.Epochs
	c.LeakEpochs += o.LeakEpochs
	c.FinalityAdvances += o.FinalityAdvances
	c.Activations += o.Activations
	c.Ejections += o.Ejections
	c.ExitsBegun += o.ExitsBegun
	c.Slashed += o.Slashed
	c.SyncPeriodBoundaries += o.SyncPeriodBoundaries
	c.Eth1Adoptions += o.Eth1Adoptions
	c.HistoricalAccumulations += o.HistoricalAccumulations
	c.Validators += o.Validators
	c.EpcRepairs += o.EpcRepairs
	c.PlainRejected += o.PlainRejected
	if o.Finalized > c.Finalized {
		c.Finalized = o.Finalized
	}
	if o.Justified > c.Justified {
		c.Justified = o.Justified
	}
	if o.MaxExitQueueSpan > c.MaxExitQueueSpan {
		c.MaxExitQueueSpan = o.MaxExitQueueSpan
	}
	if o.MaxPendingActivations > c.MaxPendingActivations {
		c.MaxPendingActivations = o.MaxPendingActivations
	}
	for k, v := range o.Ops {
		c.Ops[k] += v
	}
	for k, v := range o.Forks {
		if v {
			c.Forks[k] = true
		}
	}
}

// PolicyByName returns one of the named policies:
//
//	default       DefaultPolicy
//	quiet         QuietPolicy (all blocks, full participation, nothing else)
//	eventful      many slashings, exits, deposits, skips
//	exits         no slashings, many voluntary exits and BLS changes (full withdrawals follow)
//	deposits      quiet chain with a steady stream of new deposits and top-ups (activations)
//	late          attestations included late: at the timely-source / timely-target boundaries, in deneb later than
//	              SLOTS_PER_EPOCH; re-included and overlapping aggregates
//	full          bursts: blocks with exactly MAX_x proposer slashings / attester slashings / exits / deposits / BLS changes
//	edge          payload extra_data of 0/31/32 bytes, no or several transactions, 0 or MAX_BLOBS_PER_BLOCK commitments
//	earlyexit     deposits + every deposit-activated validator exits at activation_epoch + SHARD_COMMITTEE_PERIOD
//	showcase      the first block of every fork carries every signed operation kind (use with fast2@ / apart:)
//	sparse        default operations, ~30% participation in every epoch (leak, ejections)
//	under         participation just under 2/3 in every epoch (no justification)
//	over          participation just over 2/3 in every epoch (justification at the threshold)
//	leak-recover  full for 4 epochs (finality), sparse for 5 (leak), then full again (leak ends, finality resumes)
//	leak-recover-calm  the same without slashings
//	nobody        blocks without any attestation
func PolicyByName(name string) Policy {
	p := DefaultPolicy()
	fixed := func(pt Pattern) func(common.Epoch) Pattern { return func(common.Epoch) Pattern { return pt } }
	switch name {
	case "quiet":
		return QuietPolicy()
	case "exits":
		// no slashings; everybody who may exit does, everybody who can changes credentials: full withdrawals
		p.ProposerSlashings, p.AttesterSlashings, p.Exits, p.BLSChanges = 0, 0, 1.5, 1.5
		p.SkipProb, p.LateInclusionProb, p.OddVoteProb = 0.05, 0.05, 0
	case "deposits":
		// a healthy, finalizing chain with a steady stream of deposits (activation queue)
		p = QuietPolicy()
		p.NewDeposits, p.TopUps, p.BadPoPDeposits = 0.6, 0.4, 0.1
	case "late":
		// attestations arrive late (see Policy.LateMode); almost no skipped slots so that the planned delays are hit
		p.LateMode, p.ReincludeProb, p.SplitProb, p.LateInclusionProb = true, 0.15, 0.3, 0
		p.SkipProb = 0.03
		p.ProposerSlashings, p.AttesterSlashings = 0.02, 0.02
	case "full":
		// blocks carrying exactly MAX_x operations of one kind
		p.BurstProb = 0.45
		p.NewDeposits, p.TopUps, p.BLSChanges, p.Exits = 0.6, 0.3, 0.5, 0.3
		p.ProposerSlashings, p.AttesterSlashings = 0.02, 0.02
		p.SkipProb = 0.05
		p.MinActive = 24 // bursts need a large budget of validators that may go
	case "edge":
		// payload fields at their limits in every block
		p.PayloadEdgeProb = 1
	case "earlyexit":
		// quiet finalizing chain with a stream of deposits; every deposit-activated validator exits at once
		p = QuietPolicy()
		p.NewDeposits, p.TopUps, p.ExitAtEarliest = 0.7, 0.2, true
	case "showcase":
		// fork-boundary blocks carrying every operation kind
		p.Showcase = true
		p.SkipProb, p.Eth1VoteNoise = 0.04, 0
		p.NewDeposits, p.TopUps, p.BLSChanges = 0.9, 0.3, 0.4
		p.ProposerSlashings, p.AttesterSlashings, p.Exits = 0.03, 0.03, 0.1
	case "eventful":
		p.SkipProb = 0.2
		p.ProposerSlashings, p.AttesterSlashings, p.Exits = 0.15, 0.15, 0.5
		p.NewDeposits, p.BadPoPDeposits, p.TopUps, p.BLSChanges = 0.8, 0.2, 0.5, 0.8
		p.LateInclusionProb, p.SplitProb, p.OddVoteProb = 0.25, 0.3, 0.1
	case "sparse":
		p.Participation = fixed(Sparse)
	case "under":
		p.Participation = fixed(JustUnderTwoThirds)
	case "over":
		p.Participation = fixed(JustOverTwoThirds)
	case "nobody":
		p.Participation = fixed(Nobody)
	case "leak-recover-calm":
		// leak-recover without slashings (a slashing wave can keep finality away for good)
		p = PolicyByName("leak-recover")
		p.ProposerSlashings, p.AttesterSlashings = 0, 0
	case "leak-recover":
		p.Participation = func(e common.Epoch) Pattern {
			if e >= 4 && e < 9 {
				return Sparse
			}
			return Full
		}
	}
	return p
}

// PolicyNames lists the names PolicyByName knows.
var PolicyNames = []string{"default", "quiet", "eventful", "exits", "deposits", "sparse", "under", "over", "leak-recover", "nobody",
	"late", "full", "edge", "earlyexit", "showcase", "leak-recover-calm"}
