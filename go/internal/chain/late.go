package chain

import (
	"github.com/protolambda/zrnt/eth2/beacon/common"
	"github.com/protolambda/zrnt/eth2/beacon/phase0"
	zmath "github.com/protolambda/zrnt/eth2/util/math"
)

// planInclusion draws, for LateMode, the slot from which on the attestations of slot a are offered to blocks.
func (b *builder) planInclusion(a common.Slot) common.Slot {
	c, spec, rng := b.c, b.c.Spec, b.c.Rng
	spe := spec.SLOTS_PER_EPOCH
	sq := common.Slot(zmath.IntegerSquareroot(uint64(spe)))
	min := spec.MIN_ATTESTATION_INCLUSION_DELAY
	e := spec.SlotToEpoch(a)
	denebThen := ForkAtEpoch(spec, e+1) >= Deneb
	type opt struct {
		w  int
		at common.Slot
	}
	opts := []opt{{2, a + min}, {2, a + sq}, {2, a + sq + 1}, {3, a + spe}}
	if sq > min+1 || sq-1 >= min {
		opts = append(opts, opt{1, a + sq - 1})
	}
	if denebThen {
		// somewhere in the second half of the next epoch, more than SLOTS_PER_EPOCH after a
		first := common.Slot(e+1)*spe + spe/2
		if first <= a+spe {
			first = a + spe + 1
		}
		last := common.Slot(e+2)*spe - 1
		if first <= last {
			opts = append(opts, opt{4, first + common.Slot(rng.Intn(int(last-first)+1))})
		}
	}
	tot := 0
	for _, o := range opts {
		tot += o.w
	}
	r := rng.Intn(tot)
	for _, o := range opts {
		if r < o.w {
			if o.at < a+min {
				return a + min
			}
			return o.at
		}
		r -= o.w
	}
	_ = c
	return a + min
}

// attestationsLate is the LateMode variant of attestations: oldest slots first, each committee not before its
// planned slot, with re-inclusion of already included aggregates.
func (b *builder) attestationsLate(body BodyRef, limit int) error {
	c, spec, rng := b.c, b.c.Spec, b.c.Rng
	var lo common.Slot
	if b.fork >= Deneb {
		lo = common.Slot(b.epoch.Previous()) * spec.SLOTS_PER_EPOCH
	} else if b.slot > spec.SLOTS_PER_EPOCH {
		lo = b.slot - spec.SLOTS_PER_EPOCH
	}
	if b.slot < spec.MIN_ATTESTATION_INCLUSION_DELAY {
		return nil
	}
	hi := b.slot - spec.MIN_ATTESTATION_INCLUSION_DELAY
	for a := lo; a <= hi && len(*body.Attestations) < limit; a++ {
		ds, err := b.dutiesOf(a)
		if err != nil {
			return err
		}
		for _, d := range ds {
			if len(*body.Attestations) >= limit {
				break
			}
			if b.slot < d.notBefore {
				continue
			}
			var pend, all []int
			anyDone := false
			for j := range d.committee {
				if d.want[j] {
					all = append(all, j)
					if d.done[j] {
						anyDone = true
					} else {
						pend = append(pend, j)
					}
				}
			}
			var parts [][]int
			re := false
			switch {
			case anyDone && c.Policy.ReincludeProb > 0 && rng.Float64() < c.Policy.ReincludeProb:
				parts, re = [][]int{all}, true // everybody again: overlaps what earlier blocks carried
			case len(pend) == 0:
				continue
			case len(pend) >= 2 && rng.Float64() < c.Policy.SplitProb:
				k := 1 + rng.Intn(len(pend)-1)
				parts = [][]int{pend[:k], append(append([]int{}, pend[k-1]), pend[k:]...)}
				if rng.Intn(2) == 0 { // hold the second half back for a later block
					parts = parts[:1]
				}
			default:
				parts = [][]int{pend}
			}
			data, err := b.honestData(a, d.index)
			if err != nil {
				return err
			}
			det := "head"
			if r := rng.Float64(); r < b.mix.OddVoteProb {
				det = "oddhead"
				data.BeaconBlockRoot = c.rndRoot()
			}
			for _, part := range parts {
				if len(*body.Attestations) >= limit {
					break
				}
				bits := newBitlist(len(d.committee))
				who := make([]common.ValidatorIndex, 0, len(part))
				for _, j := range part {
					bits.SetBit(uint64(j), true)
					who = append(who, d.committee[j])
					d.done[j] = true
				}
				if re {
					b.count("attestation_reincluded")
				}
				att := phase0.Attestation{AggregationBits: bits, Data: data, Signature: c.SignIndexed(b.st, &data, who)}
				b.op(OpInfo{Kind: OpAttestation, Index: len(*body.Attestations), Detail: det, Count: int(b.slot - a), Validators: who})
				*body.Attestations = append(*body.Attestations, att)
			}
		}
	}
	return nil
}

// delayBucket names an inclusion delay relative to the boundaries the reward rules know.
func delayBucket(spec *common.Spec, d common.Slot) string {
	sq := common.Slot(zmath.IntegerSquareroot(uint64(spec.SLOTS_PER_EPOCH)))
	switch {
	case d == spec.MIN_ATTESTATION_INCLUSION_DELAY:
		return "min"
	case d+1 == sq:
		return "sqrt-1"
	case d == sq:
		return "sqrt"
	case d == sq+1:
		return "sqrt+1"
	case d == spec.SLOTS_PER_EPOCH:
		return "spe"
	case d > spec.SLOTS_PER_EPOCH:
		return "over_spe"
	}
	return "other"
}
