package chain

import (
	"bufio"
	"fmt"
	"os"
	"strconv"
	"strings"

	"github.com/protolambda/zrnt/eth2/beacon/common"
	"github.com/protolambda/ztyp/tree"

	"verifharness/internal/hreg"
)

// Harness mode "chainselftest": exercises the library through `harness gen/exec`.
//
//	chain <cfgId> <n> <seed> <slots> [balances] [policy] [mutants=<k>] [mode=eth1] [followcode] [branch=<slot>] [want:<cond>,<cond>...]
//
// Exec builds the chain on the real code — every block must be accepted by the real transition with
// signature and state-root validation on — and answers one canonical line:
//
//	ok <Counters.Summary()> [mutants{...}]      all wants met
//	unmet <cond> <Counters.Summary()>           the chain ran, but a want: condition does not hold
//	err slot=<n>                                a generated block was refused / something failed (detail on stderr)
//	bad-op                                      unparseable line
//
// mutants=<k>: the mutants of every k-th block are run through the real transition as well; the answer then
// carries mutants{n=.. rejected=.. valid_accepted=.. wrongly_accepted=.. wrongly_rejected=.. panics=..}.
// branch=<k>: after k slots three siblings are made with Chain.Branch (two seeds, one repeated), advanced 16
// slots each: different seeds must give different chains, equal seeds equal chains, the original must not move.
// want: conditions are <key>>=<n> or <key>=<n> over the keys of wantValue (op.<key> reads Counters.Ops).
func init() { hreg.Register(&hreg.Mode{Name: "chainselftest", Gen: selftestGen, Exec: selftestExec}) }

func selftestGen(o hreg.Opts, w *bufio.Writer) error {
	rng := o.Rand()
	seed := func() int64 { return rng.Int63n(1 << 40) }
	line := func(f string, a ...interface{}) {
		s := fmt.Sprintf(f, a...)
		o.Stats.Add("cfg", strings.SplitN(strings.Fields(s)[1], "@", 2)[0])
		fmt.Fprintln(w, s)
	}
	// the fixed scenarios that must show each phenomenon
	line("chain fast@1,2,3,4 64 %d 80 mixed default mutants=9 want:forks=5,upgrades=4,syncb>=2,eth1>=1,finality_advances>=1", seed())
	line("chain fast@1,2,3,4 64 %d 96 mixed eventful want:forks=5,exits>=2,pslash>=2,aslash>=2,dep_new>=4,dep_badpop>=1,dep_topup>=2,bls>=2,wd_part>=1,syncb>=4", seed())
	line("chain fast@0,0,0,1 64 %d 96 uniform exits want:forks=2,exits>=8,bls>=8,wd_full>=2", seed())
	line("chain fast@1,2,3,4 64 %d 96 poor deposits want:forks=5,dep_new>=4,dep_topup>=2,eth1>=2,activations>=2,finalized>=6", seed())
	line("chain minimal 64 %d 40 uniform quiet want:finalized>=3,leak=0,forks=1", seed())
	line("chain minimal@1,2,3,4 64 %d 48 uniform quiet want:finalized>=4,leak=0,forks=5", seed())
	line("chain fast@1,1,2,3 64 %d 64 uniform sparse want:finalized=0,leak>=3,ejections>=1", seed())
	line("chain fast@2,4,6,8 48 %d 120 uniform leak-recover-calm want:leak>=2,finality_advances>=2,forks=5", seed())
	line("chain fast@0,0,0,0 64 %d 40 mixed default mutants=7 want:forks=1,wd_part>=1", seed())
	line("chain fast@0,0,1,n 64 %d 40 rich over want:forks=2,wd_part>=4", seed())
	line("chain fast@1,2,3,4 32 %d 40 poor under mode=eth1 want:finalized=0,justified=0", seed())
	line("chain fast@0,1,2,3 48 %d 64 mixed default followcode want:plainrej=0,epcrepairs=0", seed())
	// round 2: constants that do not coincide, unusual block shapes, sibling chains
	line("chain fast@1,2,3,5 64 %d 88 uniform late want:forks=5,op.att_delay:min>=1,op.att_delay:sqrt>=1,op.att_delay:sqrt+1>=1,op.att_delay:spe>=1,op.att_delay:over_spe>=1,op.attestation_reincluded>=1", seed())
	line("chain fast@1,2,3,4 160 %d 104 rich full want:forks=5,op.block_full:proposer_slashings>=1,op.block_full:attester_slashings>=1,op.block_full:exits>=1,op.block_full:deposits>=1,op.block_full:bls_changes>=1,op.block_full:withdrawals>=1", seed())
	line("chain apart:1 96 %d 96 mixed full want:forks=5,op.block_full:proposer_slashings>=1,op.block_full:deposits>=1,op.block_full:bls_changes>=1", seed())
	line("chain fast@0,0,1,2 48 %d 48 mixed edge want:op.extra_data:0>=1,op.extra_data:31>=1,op.extra_data:32>=1,op.txs:0>=1,op.txs:many>=1,op.block_full:blobs>=1", seed())
	line("chain fast@1,2,3,4 48 %d 104 uniform earlyexit want:forks=5,activations>=2,op.voluntary_exit:at-earliest>=1", seed())
	line("chain fast2@3,7,11,15 64 %d 136 mixed showcase want:forks=5,fbblocks>=3,fbcomplete>=1,op.eth1_vote:held>=1", seed())
	line("chain apart:%d 64 %d 80 mixed default mutants=13 want:forks=5", rng.Int63n(1<<20), seed())
	line("chain apart:%d 97 %d 80 rich eventful want:forks=5", rng.Int63n(1<<20), seed())
	line("chain apart:%d 50 %d 80 poor late want:forks=5", rng.Int63n(1<<20), seed())
	line("chain mainnetconst@1,2,3,4 64 %d 48 rich default want:forks=5,wd_part>=1", seed())
	line("chain fast@1,2,3,4 48 %d 40 mixed eventful branch=20 want:forks=5", seed())
	// random configurations
	n := o.Pick(6, 30)
	bal := []string{"mixed", "uniform", "rich", "poor"}
	for i := 0; i < n; i++ {
		cs := rng.Int63n(1 << 30)
		cfg := RandomConfig(cs)
		nv := 16 + rng.Intn(o.Pick(113, 241))
		if nv < int(cfg.Spec.SLOTS_PER_EPOCH) {
			nv = int(cfg.Spec.SLOTS_PER_EPOCH)
		}
		epochs := o.Pick(5, 10) + rng.Intn(o.Pick(3, 30))
		extra := ""
		if i%3 == 0 {
			extra = " mutants=11"
		}
		if i%4 == 1 {
			extra += " mode=eth1"
		}
		fam := "rand"
		if i%3 == 1 {
			fam = "rand2" // same base configuration with the "apart" ingredients mixed in
		} else if i%3 == 2 {
			fam = "rand3" // ... and the round-3 ingredients
		}
		line("chain %s:%d %d %d %d %s %s%s", fam, cs, nv, seed(), epochs*int(cfg.Spec.SLOTS_PER_EPOCH), bal[rng.Intn(len(bal))], PolicyNames[rng.Intn(len(PolicyNames))], extra)
	}
	return nil
}

// wantValue maps the keys usable in want: conditions to counter values.
func wantValue(c *Counters, key string) (int, bool) {
	op := func(k OpKind) int { return c.Ops[string(k)] }
	switch key {
	case "forks":
		n := 0
		for _, v := range c.Forks {
			if v {
				n++
			}
		}
		return n, true
	case "upgrades":
		return c.Upgrades, true
	case "finalized":
		return int(c.Finalized), true
	case "justified":
		return int(c.Justified), true
	case "finality_advances":
		return c.FinalityAdvances, true
	case "leak":
		return c.LeakEpochs, true
	case "exits":
		return op(OpExit), true
	case "pslash":
		return op(OpProposerSlashing), true
	case "aslash":
		return op(OpAttesterSlashing), true
	case "dep_new":
		return op(OpDepositNew), true
	case "dep_topup":
		return op(OpDepositTopUp), true
	case "dep_badpop":
		return op(OpDepositBadPoP), true
	case "bls":
		return op(OpBLSChange), true
	case "wd_full":
		return op(OpWithdrawalFull), true
	case "wd_part":
		return op(OpWithdrawalPart), true
	case "syncb":
		return c.SyncPeriodBoundaries, true
	case "ejections":
		return c.Ejections, true
	case "activations":
		return c.Activations, true
	case "eth1":
		return c.Eth1Adoptions, true
	case "plainrej":
		return c.PlainRejected, true
	case "epcrepairs":
		return c.EpcRepairs, true
	case "blocks":
		return c.Blocks, true
	case "skipped":
		return c.Skipped, true
	case "fbblocks", "fbcomplete": // fork-boundary blocks / those carrying every operation kind, over all forks
		n := 0
		for _, f := range forkNames[1:] {
			if key == "fbblocks" {
				n += c.Ops["fork_boundary_block:"+f]
			} else {
				n += c.Ops["fork_boundary_complete:"+f]
			}
		}
		return n, true
	}
	if strings.HasPrefix(key, "op.") { // any key of Counters.Ops, e.g. op.att_delay:spe, op.block_full:exits
		return c.Ops[key[3:]], true
	}
	return 0, false
}

func checkWant(c *Counters, cond string) (bool, error) {
	for _, sep := range []string{">=", "="} {
		if i := strings.Index(cond, sep); i > 0 {
			v, ok := wantValue(c, cond[:i])
			n, err := strconv.Atoi(cond[i+len(sep):])
			if !ok || err != nil {
				return false, fmt.Errorf("bad condition %q", cond)
			}
			if sep == ">=" {
				return v >= n, nil
			}
			return v == n, nil
		}
	}
	return false, fmt.Errorf("bad condition %q", cond)
}

// SelfTestLine runs one chainselftest op line and returns the canonical answer.
func SelfTestLine(text string) string {
	res, _ := selfTestLine(text)
	return res
}

func selfTestLine(text string) (string, *Counters) {
	res, c := selfTestRun(text)
	return res, c
}

func selfTestRun(text string) (res string, ct *Counters) {
	defer func() {
		if r := recover(); r != nil {
			fmt.Fprintf(os.Stderr, "chainselftest: %s: panic %v\n", text, r)
			res, ct = "panic", nil
		}
	}()
	return selfTestBody(text)
}

func selfTestBody(text string) (string, *Counters) {
	f := strings.Fields(text)
	if len(f) < 5 || f[0] != "chain" {
		return "bad-op", nil
	}
	cfg, err := ConfigByID(f[1])
	if err != nil {
		return "bad-op", nil
	}
	n, err1 := strconv.Atoi(f[2])
	seed, err2 := strconv.ParseInt(f[3], 10, 64)
	slots, err3 := strconv.Atoi(f[4])
	if err1 != nil || err2 != nil || err3 != nil || n <= 0 || slots < 0 {
		return "bad-op", nil
	}
	g := GenesisOpts{Validators: n, Balances: "mixed", Seed: seed}
	policy, mutEvery, follow, branchAt := "default", 0, false, 0
	branchOut := ""
	var wants []string
	pos := 0
	for _, a := range f[5:] {
		switch {
		case strings.HasPrefix(a, "mutants="):
			v, err := strconv.Atoi(a[len("mutants="):])
			if err != nil || v < 0 {
				return "bad-op", nil
			}
			mutEvery = v
		case strings.HasPrefix(a, "mode="):
			g.Mode = a[len("mode="):]
		case a == "followcode":
			follow = true
		case strings.HasPrefix(a, "branch="):
			v, err := strconv.Atoi(a[len("branch="):])
			if err != nil || v <= 0 {
				return "bad-op", nil
			}
			branchAt = v
		case strings.HasPrefix(a, "want:"):
			wants = append(wants, strings.Split(a[len("want:"):], ",")...)
		case pos == 0:
			g.Balances, pos = a, 1
		case pos == 1:
			policy, pos = a, 2
		default:
			return "bad-op", nil
		}
	}
	known := false
	for _, p := range PolicyNames {
		known = known || p == policy
	}
	if !known {
		return "bad-op", nil
	}
	c, err := NewChainOpts(cfg, g)
	if err != nil {
		fmt.Fprintf(os.Stderr, "chainselftest: %s: %v\n", text, err)
		return "err slot=0", nil
	}
	c.Policy = PolicyByName(policy)
	c.FollowCodeSyncCommittee = follow
	var mn, mRej, mValidOK, mWrongAcc, mWrongRej, mPanic int
	blocks := 0
	for i := 0; i < slots; i++ {
		s, err := c.NextSlot(nil)
		if err != nil {
			fmt.Fprintf(os.Stderr, "chainselftest: %s: %v\n", text, err)
			return fmt.Sprintf("err slot=%d", uint64(c.Slot())+1), &c.Counters
		}
		if branchAt > 0 && i+1 == branchAt {
			res, err := selfTestBranch(c, seed)
			if err != nil {
				fmt.Fprintf(os.Stderr, "chainselftest: %s: branch: %v\n", text, err)
				return fmt.Sprintf("err slot=%d", uint64(c.Slot())+1), &c.Counters
			}
			branchOut = res
		}
		if s.Block == nil {
			continue
		}
		blocks++
		if mutEvery > 0 && blocks%mutEvery == 0 {
			for _, mu := range c.Mutations(s, 2) {
				mu := mu
				mn++
				switch o := c.ApplyMutant(s, &mu); {
				case o.Panic != nil:
					mPanic++
					fmt.Fprintf(os.Stderr, "chainselftest: %s: slot %d mutant %s: panic %v\n", text, s.Slot, mu.Label, o.Panic)
				case mu.Unclassified:
					mRej++ // validity not known by construction: only a panic counts
				case o.Accepted && mu.ExpectValid:
					mValidOK++
				case o.Accepted:
					mWrongAcc++
					fmt.Fprintf(os.Stderr, "chainselftest: %s: slot %d mutant %s [%s] accepted\n", text, s.Slot, mu.Label, mu.Rule)
				case mu.ExpectValid:
					mWrongRej++
					fmt.Fprintf(os.Stderr, "chainselftest: %s: slot %d valid mutant %s rejected: %v\n", text, s.Slot, mu.Label, o.Err)
				default:
					mRej++
				}
			}
		}
	}
	out := c.Counters.Summary()
	if mutEvery > 0 {
		out += fmt.Sprintf(" mutants{n=%d rejected=%d valid_accepted=%d wrongly_accepted=%d wrongly_rejected=%d panics=%d}", mn, mRej, mValidOK, mWrongAcc, mWrongRej, mPanic)
	}
	out += branchOut
	if strings.Contains(branchOut, "differ=false") || strings.Contains(branchOut, "original_moved=true") {
		return "unmet branch " + out, &c.Counters
	}
	for _, w := range wants {
		ok, err := checkWant(&c.Counters, w)
		if err != nil {
			return "bad-op", nil
		}
		if !ok {
			return "unmet " + w + " " + out, &c.Counters
		}
	}
	if mWrongAcc+mWrongRej+mPanic > 0 {
		return "unmet mutants " + out, &c.Counters
	}
	return "ok " + out, &c.Counters
}

func selftestExec(o hreg.Opts, sc *bufio.Scanner, w *bufio.Writer) error {
	tot := newCounters()
	lines, ok := 0, 0
	for sc.Scan() {
		res, ct := selfTestLine(sc.Text())
		fmt.Fprintln(w, res)
		lines++
		if strings.HasPrefix(res, "ok ") {
			ok++
		}
		if ct != nil {
			tot.Add(ct)
		}
	}
	fmt.Fprintf(os.Stderr, "chainselftest: %d lines, %d ok; totals: %s\n", lines, ok, tot.Summary())
	return sc.Err()
}

// selfTestBranch makes two siblings of c with different seeds and a third with the first one's seed, advances
// them 16 slots and reports whether they differ / coincide as they should and whether c stayed put.
func selfTestBranch(c *Chain, seed int64) (string, error) {
	head := c.State.HashTreeRoot(tree.GetHashFn())
	var sib [3]*Chain
	for i, sd := range []int64{seed + 1, seed + 2, seed + 1} {
		b, err := c.Branch(sd)
		if err != nil {
			return "", err
		}
		sib[i] = b
	}
	var roots [3][]common.Root
	blocks := 0
	for i, b := range sib {
		steps, err := b.Run(16)
		if err != nil {
			return "", err
		}
		for _, s := range steps {
			roots[i] = append(roots[i], s.PostRoot)
			if i < 2 && s.Block != nil {
				blocks++
			}
		}
	}
	differ, same := false, true
	for j := range roots[0] {
		differ = differ || roots[0][j] != roots[1][j]
		same = same && roots[0][j] == roots[2][j]
	}
	moved := c.State.HashTreeRoot(tree.GetHashFn()) != head
	return fmt.Sprintf(" branch{siblings=3 sibling_blocks=%d differ=%v same_seed_same_chain=%v original_moved=%v}", blocks, differ && same, same, moved), nil
}
