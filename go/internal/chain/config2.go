package chain

import (
	"fmt"
	"math/rand"

	"github.com/protolambda/zrnt/eth2/beacon/common"
	"github.com/protolambda/zrnt/eth2/configs"
	"github.com/protolambda/ztyp/view"
)

// Round-2 configuration families. They exist because in the published minimal preset (and hence in fast@ and
// rand:) many constants COINCIDE (MIN_SLASHING_PENALTY_QUOTIENT = _ALTAIR = 64, MAX_COMMITTEES_PER_SLOT =
// TARGET_COMMITTEE_SIZE = 4, several MAX_* = 16, every vector length a power of two ...), so a change of /repo
// that confuses two of them goes unnoticed. The ids of round 1 keep producing the very same chains.

// allForkSchedules are strictly increasing fork schedules: the chain is in every one of the five formats for
// at least an epoch, and in deneb from epoch 7 at the latest.
var allForkSchedules = [][4]common.Epoch{
	{1, 2, 3, 4}, {1, 3, 4, 6}, {2, 3, 5, 6}, {1, 2, 4, 5}, {1, 3, 5, 7}, {2, 4, 5, 7}, {1, 2, 3, 5}, {2, 3, 4, 6}, {1, 4, 5, 6},
}

// distinct draws k pairwise different values from pool.
func distinct(rng *rand.Rand, pool []uint64, k int) []uint64 {
	p := append([]uint64(nil), pool...)
	rng.Shuffle(len(p), func(i, j int) { p[i], p[j] = p[j], p[i] })
	return p[:k]
}

// applyApart overwrites, in s, every family of constants that should not coincide. all=true applies every
// ingredient (apart:), otherwise each ingredient with probability 1/2 (rand2:).
func applyApart(s *common.Spec, rng *rand.Rand, all bool) {
	use := func() bool { return all || rng.Intn(2) == 0 }
	u := func(v uint64) view.Uint64View { return view.Uint64View(v) }

	if use() { // per-fork slashing / leak families: pairwise different across the forks
		q := distinct(rng, []uint64{16, 24, 40, 48, 96, 128}, 3)
		s.MIN_SLASHING_PENALTY_QUOTIENT, s.MIN_SLASHING_PENALTY_QUOTIENT_ALTAIR, s.MIN_SLASHING_PENALTY_QUOTIENT_BELLATRIX = u(q[0]), u(q[1]), u(q[2])
		m := distinct(rng, []uint64{1, 2, 3, 4, 5}, 3)
		s.PROPORTIONAL_SLASHING_MULTIPLIER, s.PROPORTIONAL_SLASHING_MULTIPLIER_ALTAIR, s.PROPORTIONAL_SLASHING_MULTIPLIER_BELLATRIX = u(m[0]), u(m[1]), u(m[2])
		i := distinct(rng, []uint64{1 << 8, 3 << 7, 1 << 9, 3 << 8, 5 << 8, 1 << 11}, 3)
		s.INACTIVITY_PENALTY_QUOTIENT, s.INACTIVITY_PENALTY_QUOTIENT_ALTAIR, s.INACTIVITY_PENALTY_QUOTIENT_BELLATRIX = u(i[0]), u(i[1]), u(i[2])
		s.WHISTLEBLOWER_REWARD_QUOTIENT, s.PROPOSER_REWARD_QUOTIENT = u([]uint64{512, 200, 96}[rng.Intn(3)]), u([]uint64{8, 6, 10}[rng.Intn(3)])
		s.INACTIVITY_SCORE_BIAS, s.INACTIVITY_SCORE_RECOVERY_RATE = u([]uint64{3, 4, 5}[rng.Intn(3)]), u([]uint64{7, 16, 9}[rng.Intn(3)])
	}
	if use() { // churn: the deneb activation cap differs from the churn limit (binding or not)
		c := distinct(rng, []uint64{2, 3, 4, 5}, 2)
		s.MIN_PER_EPOCH_CHURN_LIMIT, s.MAX_PER_EPOCH_ACTIVATION_CHURN_LIMIT = u(c[0]), u(c[1])
		s.CHURN_LIMIT_QUOTIENT = u([]uint64{12, 20, 48}[rng.Intn(3)])
	}
	if use() { // per-block limits: pairwise different from each other
		v := distinct(rng, []uint64{3, 4, 5, 6, 7, 9, 10, 11, 13}, 6)
		s.MAX_PROPOSER_SLASHINGS, s.MAX_ATTESTATIONS, s.MAX_DEPOSITS = u(v[0]), u(v[1]+4), u(v[2])
		s.MAX_VOLUNTARY_EXITS, s.MAX_BLS_TO_EXECUTION_CHANGES = u(v[3]), u(v[4])
		s.MAX_ATTESTER_SLASHINGS = 2
		s.MAX_WITHDRAWALS_PER_PAYLOAD = u(v[5])
		// v[1]+4 may collide with another value: nudge until all seven differ
		for {
			seen := map[view.Uint64View]int{}
			for _, x := range []view.Uint64View{s.MAX_PROPOSER_SLASHINGS, s.MAX_ATTESTER_SLASHINGS, s.MAX_DEPOSITS, s.MAX_VOLUNTARY_EXITS, s.MAX_BLS_TO_EXECUTION_CHANGES, s.MAX_WITHDRAWALS_PER_PAYLOAD} {
				seen[x]++
			}
			if seen[s.MAX_ATTESTATIONS] == 0 {
				break
			}
			s.MAX_ATTESTATIONS++
		}
		s.MAX_BLOBS_PER_BLOCK = u([]uint64{3, 5}[rng.Intn(2)])
	}
	if use() { // committees: TARGET_COMMITTEE_SIZE != MAX_COMMITTEES_PER_SLOT, not powers of two
		s.TARGET_COMMITTEE_SIZE, s.MAX_COMMITTEES_PER_SLOT = u([]uint64{3, 5, 6}[rng.Intn(3)]), u([]uint64{2, 4, 7}[rng.Intn(3)])
	}
	if use() { // vector lengths that are not powers of two (and wrap within a short chain when small)
		spe := uint64(s.SLOTS_PER_EPOCH)
		s.SLOTS_PER_HISTORICAL_ROOT = common.Slot(spe * []uint64{3, 5, 6, 12}[rng.Intn(4)]) // multiple of, and >= 2x, SLOTS_PER_EPOCH
		s.EPOCHS_PER_HISTORICAL_VECTOR = common.Epoch([]uint64{12, 24, 72, 96}[rng.Intn(4)])
		s.EPOCHS_PER_SLASHINGS_VECTOR = common.Epoch([]uint64{6, 10, 12, 48}[rng.Intn(4)]) // even
		s.SYNC_COMMITTEE_SIZE = u([]uint64{12, 20, 24}[rng.Intn(3)])                       // multiple of the 4 subnets
	}
	if use() { // the sweep is larger than, or does not divide, the registry
		s.MAX_VALIDATORS_PER_WITHDRAWALS_SWEEP = u([]uint64{7, 11, 13, 311}[rng.Intn(4)])
	}
	if use() { // epoch-valued waiting times: pairwise different and different from MIN_SEED_LOOKAHEAD = 1
		w := distinct(rng, []uint64{2, 3, 4, 5}, 4)
		s.MAX_SEED_LOOKAHEAD, s.SHARD_COMMITTEE_PERIOD = common.Epoch(w[0]), common.Epoch(w[1])
		s.MIN_VALIDATOR_WITHDRAWABILITY_DELAY, s.MIN_EPOCHS_TO_INACTIVITY_PENALTY = common.Epoch(w[2]), common.Epoch(w[3])
		p := distinct(rng, []uint64{2, 3}, 2)
		s.EPOCHS_PER_ETH1_VOTING_PERIOD, s.EPOCHS_PER_SYNC_COMMITTEE_PERIOD = common.Epoch(p[0]), common.Epoch(p[1])
	}
	if use() {
		s.SECONDS_PER_SLOT = common.Timestamp([]uint64{5, 7, 13}[rng.Intn(3)])
	}
}

// Apart derives, from the seed, a configuration in which no two constants of a family coincide: the
// per-fork slashing / leak constants differ across forks, the MAX_* per-block limits are pairwise different,
// the deneb activation cap differs from the churn limit, committee parameters differ from each other, the
// vector lengths are not powers of two, the withdrawal sweep is larger than or does not divide the registry
// size, the epoch-valued waiting times are pairwise different; the fork schedule always leads through all
// five forks within 7 epochs (8 or 12 for the seeds with a historical-root period of 2 or 3, see applyApart3).
// SLOTS_PER_EPOCH is 8, sometimes 6. ID "apart:<seed>" (round 3 added applyApart3; apart0:<seed> is the round-2 meaning).
func Apart(seed int64) *Config {
	c := apartBase(seed)
	applyApart3(c.Spec, rand.New(rand.NewSource(seed^0x3a9a_47)), true)
	return c
}

// Apart0 is apart:<seed> as it was before round 3 (without the applyApart3 ingredients). ID "apart0:<seed>".
func Apart0(seed int64) *Config {
	c := apartBase(seed)
	c.ID = fmt.Sprintf("apart0:%d", seed)
	return c
}

func apartBase(seed int64) *Config {
	rng := rand.New(rand.NewSource(seed ^ 0x0a9a_47))
	s := cloneSpec(configs.Minimal)
	setForks(s, allForkSchedules[rng.Intn(len(allForkSchedules))])
	// shortened waiting times as in fast@ (overwritten below by pairwise different ones)
	s.SLOTS_PER_EPOCH = common.Slot([]uint64{8, 8, 6}[rng.Intn(3)])
	s.HYSTERESIS_QUOTIENT, s.HYSTERESIS_DOWNWARD_MULTIPLIER, s.HYSTERESIS_UPWARD_MULTIPLIER = 64, 1, 80
	s.EJECTION_BALANCE = 31_000_000_000
	applyApart(s, rng, true)
	return &Config{ID: fmt.Sprintf("apart:%d", seed), Spec: s}
}

// applyApart3 (round 3) separates constants that still coincided or divided each other in every generated
// configuration. all=true: apart: (each ingredient is still only drawn for part of the seeds where it costs
// chain length); false: rand2: (each with probability 1/2 on top).
//
//   - SLOTS_PER_HISTORICAL_ROOT that is NOT a multiple of SLOTS_PER_EPOCH (about half of the seeds): mostly 15
//     with 8 / 11 with 6 slots per epoch (period floor(SPHR/SPE) = 1: a historical root / summary every epoch,
//     hence in every fork, any fork schedule); sometimes 20 with 8 or 14 with 6 (period 2, fork schedule 2,4,6,8)
//     and rarely 20 with 6 (period 3, fork schedule 3,6,9,12), so that every fork's epoch processing crosses
//     a multiple of the period (deneb then starts at epoch 8 / 12: run such chains for 10 / 15 epochs). The vector still holds all block
//     roots an includable attestation can refer to (>= 2*SPE-1 slots back).
//   - MAX_EFFECTIVE_BALANCE of 16 or 64 ETH (two thirds of the seeds), EJECTION_BALANCE one ETH below; the
//     generator then makes half of the new-validator deposits exceed the cap.
//   - MAX_BLOBS_PER_BLOCK of 7, 9 or 12 with MAX_BLOB_COMMITMENTS_PER_BLOCK 16 (half of the seeds): blocks carry
//     up to that many commitments (more than the published 6).
//   - EPOCHS_PER_ETH1_VOTING_PERIOD * SLOTS_PER_EPOCH does not divide SLOTS_PER_HISTORICAL_ROOT;
//     EPOCHS_PER_SLASHINGS_VECTOR != EPOCHS_PER_HISTORICAL_VECTOR.
//   - every electra preset / config constant differs from the phase0..deneb constant of the same unit
//     (MIN_ACTIVATION_BALANCE != MAX_EFFECTIVE_BALANCE, MAX_ATTESTATIONS_ELECTRA != MAX_ATTESTATIONS, ...).
func applyApart3(s *common.Spec, rng *rand.Rand, all bool) {
	use := func() bool { return all || rng.Intn(2) == 0 }
	u := func(v uint64) view.Uint64View { return view.Uint64View(v) }
	spe := uint64(s.SLOTS_PER_EPOCH)

	if use() && rng.Intn(2) == 0 { // non-multiple historical root vector
		switch r := rng.Intn(20); {
		case r < 15: // period 1
			s.SLOTS_PER_HISTORICAL_ROOT = common.Slot(2*spe - 1)
		case r < 19: // period 2
			if r%2 == 0 {
				s.SLOTS_PER_EPOCH, spe, s.SLOTS_PER_HISTORICAL_ROOT = 8, 8, 20
			} else {
				s.SLOTS_PER_EPOCH, spe, s.SLOTS_PER_HISTORICAL_ROOT = 6, 6, 14
			}
			setForks(s, [4]common.Epoch{2, 4, 6, 8})
		default: // period 3
			s.SLOTS_PER_EPOCH, spe = 6, 6
			s.SLOTS_PER_HISTORICAL_ROOT = 20
			setForks(s, [4]common.Epoch{3, 6, 9, 12})
		}
	}
	if use() && rng.Intn(3) > 0 { // effective balance cap away from 32 ETH
		s.MAX_EFFECTIVE_BALANCE = common.Gwei([]uint64{16, 64}[rng.Intn(2)]) * gwei
		s.EJECTION_BALANCE = s.MAX_EFFECTIVE_BALANCE - gwei
	}
	if use() && rng.Intn(2) == 0 { // more blobs than the published limit, still below the list limit
		s.MAX_BLOBS_PER_BLOCK = u([]uint64{7, 9, 12}[rng.Intn(3)])
		s.MAX_BLOB_COMMITMENTS_PER_BLOCK = 16
	}
	if use() {
		sphr := uint64(s.SLOTS_PER_HISTORICAL_ROOT)
		for sphr%(uint64(s.EPOCHS_PER_ETH1_VOTING_PERIOD)*spe) == 0 {
			s.EPOCHS_PER_ETH1_VOTING_PERIOD++
		}
		if s.EPOCHS_PER_ETH1_VOTING_PERIOD == s.EPOCHS_PER_SYNC_COMMITTEE_PERIOD {
			s.EPOCHS_PER_SYNC_COMMITTEE_PERIOD++
		}
		for s.EPOCHS_PER_SLASHINGS_VECTOR == s.EPOCHS_PER_HISTORICAL_VECTOR {
			s.EPOCHS_PER_SLASHINGS_VECTOR += 2
		}
	}
	if use() { // electra constants: never equal to the earlier constant of the same unit
		if s.MIN_ACTIVATION_BALANCE == s.MAX_EFFECTIVE_BALANCE {
			s.MIN_ACTIVATION_BALANCE = s.MAX_EFFECTIVE_BALANCE - 8*gwei
		}
		for s.MAX_EFFECTIVE_BALANCE_ELECTRA <= s.MAX_EFFECTIVE_BALANCE {
			s.MAX_EFFECTIVE_BALANCE_ELECTRA *= 2
		}
		differ := func(x *view.Uint64View, others ...view.Uint64View) {
			for again := true; again; {
				again = false
				for _, o := range others {
					if *x == o {
						*x++
						again = true
					}
				}
			}
		}
		differ(&s.MIN_SLASHING_PENALTY_QUOTIENT_ELECTRA, s.MIN_SLASHING_PENALTY_QUOTIENT, s.MIN_SLASHING_PENALTY_QUOTIENT_ALTAIR, s.MIN_SLASHING_PENALTY_QUOTIENT_BELLATRIX)
		s.WHISTLEBLOWER_REWARD_QUOTIENT_ELECTRA = s.MIN_SLASHING_PENALTY_QUOTIENT_ELECTRA + 1024 // the published values coincide (4096)
		differ(&s.WHISTLEBLOWER_REWARD_QUOTIENT_ELECTRA, s.WHISTLEBLOWER_REWARD_QUOTIENT, s.PROPOSER_REWARD_QUOTIENT)
		differ(&s.MAX_ATTESTER_SLASHINGS_ELECTRA, s.MAX_ATTESTER_SLASHINGS)
		differ(&s.MAX_ATTESTATIONS_ELECTRA, s.MAX_ATTESTATIONS)
		limits := []view.Uint64View{s.MAX_PROPOSER_SLASHINGS, s.MAX_ATTESTER_SLASHINGS, s.MAX_ATTESTATIONS, s.MAX_DEPOSITS, s.MAX_VOLUNTARY_EXITS,
			s.MAX_BLS_TO_EXECUTION_CHANGES, s.MAX_WITHDRAWALS_PER_PAYLOAD, s.MAX_ATTESTER_SLASHINGS_ELECTRA, s.MAX_ATTESTATIONS_ELECTRA}
		s.MAX_DEPOSIT_REQUESTS_PER_PAYLOAD, s.MAX_WITHDRAWAL_REQUESTS_PER_PAYLOAD, s.MAX_CONSOLIDATION_REQUESTS_PER_PAYLOAD = 14, 15, 17
		differ(&s.MAX_DEPOSIT_REQUESTS_PER_PAYLOAD, limits...)
		limits = append(limits, s.MAX_DEPOSIT_REQUESTS_PER_PAYLOAD)
		differ(&s.MAX_WITHDRAWAL_REQUESTS_PER_PAYLOAD, limits...)
		limits = append(limits, s.MAX_WITHDRAWAL_REQUESTS_PER_PAYLOAD)
		differ(&s.MAX_CONSOLIDATION_REQUESTS_PER_PAYLOAD, limits...)
		differ(&s.MAX_PENDING_PARTIALS_PER_WITHDRAWALS_SWEEP, s.MAX_VALIDATORS_PER_WITHDRAWALS_SWEEP, s.MAX_WITHDRAWALS_PER_PAYLOAD)
		differ(&s.MAX_PENDING_DEPOSITS_PER_EPOCH, s.MAX_DEPOSITS, s.MIN_PER_EPOCH_CHURN_LIMIT, s.MAX_PER_EPOCH_ACTIVATION_CHURN_LIMIT)
		differ(&s.MAX_BLOBS_PER_BLOCK_ELECTRA, s.MAX_BLOBS_PER_BLOCK, s.MAX_BLOB_COMMITMENTS_PER_BLOCK)
		differ(&s.MAX_BLOBS_PER_BLOCK_FULU, s.MAX_BLOBS_PER_BLOCK, s.MAX_BLOB_COMMITMENTS_PER_BLOCK, s.MAX_BLOBS_PER_BLOCK_ELECTRA)
		// gwei-valued churn limits of electra vs the validator-count-valued ones cannot be confused by unit;
		// keep them different from every balance constant anyway
		for common.Gwei(s.MIN_PER_EPOCH_CHURN_LIMIT_ELECTRA) == s.MAX_EFFECTIVE_BALANCE || common.Gwei(s.MIN_PER_EPOCH_CHURN_LIMIT_ELECTRA) == s.MIN_ACTIVATION_BALANCE {
			s.MIN_PER_EPOCH_CHURN_LIMIT_ELECTRA += view.Uint64View(8 * gwei)
		}
	}
}

// RandomConfig2 is RandomConfig(seed) with each ingredient of Apart applied with probability 1/2.
// ID "rand2:<seed>". (rand:<seed> itself is frozen: other components' evidence depends on it.)
func RandomConfig2(seed int64) *Config {
	c := RandomConfig(seed)
	rng := rand.New(rand.NewSource(seed ^ 0x2a2d_2))
	applyApart(c.Spec, rng, false)
	c.ID = fmt.Sprintf("rand2:%d", seed)
	return c
}

// MainnetConst is the published MAINNET preset and config with only SLOTS_PER_EPOCH reduced to the minimal
// preset's 8 (so that epochs — and chains — stay short) and the fork schedule set: mainnet-style constants
// (slashing quotients 128/64/32, multipliers 1/2/3, leak quotients 2^26 / 3*2^24 / 2^24, 90 shuffle rounds,
// sync committee of 512, sweep of 16384, vectors of 8192 / 65536 / 8192, MAX_* 16/2/128/16/16/16/16 ...).
// The long mainnet waiting times stay: no voluntary exits (SHARD_COMMITTEE_PERIOD 256) and no deposit
// adoption (eth1 voting period 64 epochs) within a short chain. ID "mainnetconst@a,b,c,d".
func MainnetConst(altair, bellatrix, capella, deneb common.Epoch) *Config {
	s := cloneSpec(configs.Mainnet)
	s.SLOTS_PER_EPOCH = configs.Minimal.SLOTS_PER_EPOCH
	e := [4]common.Epoch{altair, bellatrix, capella, deneb}
	setForks(s, e)
	return &Config{ID: "mainnetconst@" + fmtEpochs(e), Spec: s}
}

// Fast2 is Fast with an eth1 voting period of 4 epochs: the vote that tips the majority can be timed to fall on
// the first slot of an epoch in the second half of the period (epochs = 2 or 3 mod 4), so that a fork-boundary
// block can carry deposits (policy "showcase"; e.g. fast2@3,7,11,15).
// ID "fast2@a,b,c,d".
func Fast2(altair, bellatrix, capella, deneb common.Epoch) *Config {
	c := Fast(altair, bellatrix, capella, deneb)
	c.Spec.EPOCHS_PER_ETH1_VOTING_PERIOD = 4
	c.Spec.MAX_DEPOSITS = 3 // a small cap keeps a backlog of pending deposits
	c.ID = "fast2@" + fmtEpochs([4]common.Epoch{altair, bellatrix, capella, deneb})
	return c
}

// RandomConfig3 is rand2:<seed> with each round-3 ingredient (applyApart3) applied with probability 1/2 — except
// the non-multiple historical root vector with a period above 1, which would need its own fork schedule.
// ID "rand3:<seed>". (rand2:<seed> stays as it is.)
func RandomConfig3(seed int64) *Config {
	c := RandomConfig2(seed)
	forks := ForkEpochs(c.Spec)
	spe := c.Spec.SLOTS_PER_EPOCH
	applyApart3(c.Spec, rand.New(rand.NewSource(seed^0x3a2d_3)), false)
	if c.Spec.SLOTS_PER_EPOCH != spe || ForkEpochs(c.Spec) != forks {
		// keep rand's own epoch length and schedule; fall back to the period-1 vector
		c.Spec.SLOTS_PER_EPOCH = spe
		setForks(c.Spec, forks)
		c.Spec.SLOTS_PER_HISTORICAL_ROOT = 2*spe - 1
		for uint64(c.Spec.SLOTS_PER_HISTORICAL_ROOT)%(uint64(c.Spec.EPOCHS_PER_ETH1_VOTING_PERIOD)*uint64(spe)) == 0 {
			c.Spec.EPOCHS_PER_ETH1_VOTING_PERIOD++
		}
	}
	c.ID = fmt.Sprintf("rand3:%d", seed)
	return c
}
