package chain

import (
	"fmt"
	"math/rand"
	"strconv"
	"strings"

	"github.com/protolambda/zrnt/eth2/beacon/common"
	"github.com/protolambda/zrnt/eth2/configs"
	"github.com/protolambda/ztyp/view"
)

// Fork identifies one of the five supported state/block formats.
type Fork int

const (
	Phase0 Fork = iota
	Altair
	Bellatrix
	Capella
	Deneb
)

var forkNames = [...]string{"phase0", "altair", "bellatrix", "capella", "deneb"}

func (f Fork) String() string {
	if f < 0 || int(f) >= len(forkNames) {
		return "fork?" + strconv.Itoa(int(f))
	}
	return forkNames[f]
}

// ParseFork is the inverse of Fork.String.
func ParseFork(s string) (Fork, bool) {
	for i, n := range forkNames {
		if n == s {
			return Fork(i), true
		}
	}
	return 0, false
}

// Never is the "fork never happens" epoch.
const Never = common.Epoch(^uint64(0))

// ForkEpochs returns the four scheduled upgrade epochs of a spec in order altair..deneb.
func ForkEpochs(spec *common.Spec) [4]common.Epoch {
	return [4]common.Epoch{spec.ALTAIR_FORK_EPOCH, spec.BELLATRIX_FORK_EPOCH, spec.CAPELLA_FORK_EPOCH, spec.DENEB_FORK_EPOCH}
}

// ForkAtEpoch is the fork a chain of this spec is in at the given epoch, following the upgrade rule of
// beacon.StandardUpgradeableBeaconState (monotone fork epochs assumed): the last fork whose epoch is <= e.
func ForkAtEpoch(spec *common.Spec, e common.Epoch) Fork {
	f := Phase0
	for i, fe := range ForkEpochs(spec) {
		if fe <= e {
			f = Fork(i + 1)
		} else {
			break
		}
	}
	return f
}

// ForkVersionOf is the version constant of a fork in a spec.
func ForkVersionOf(spec *common.Spec, f Fork) common.Version {
	switch f {
	case Phase0:
		return spec.GENESIS_FORK_VERSION
	case Altair:
		return spec.ALTAIR_FORK_VERSION
	case Bellatrix:
		return spec.BELLATRIX_FORK_VERSION
	case Capella:
		return spec.CAPELLA_FORK_VERSION
	default:
		return spec.DENEB_FORK_VERSION
	}
}

// Config is a named spec. The *common.Spec is a private copy (safe to install an execution engine in).
type Config struct {
	ID   string
	Spec *common.Spec
}

// cloneSpec copies the Spec struct (all fields are values; the embedded engine interface is reset).
func cloneSpec(s *common.Spec) *common.Spec {
	c := *s
	c.ExecutionEngine = nil
	return &c
}

// setForks installs the four fork epochs and makes electra (and later) unreachable.
func setForks(s *common.Spec, e [4]common.Epoch) {
	s.ALTAIR_FORK_EPOCH, s.BELLATRIX_FORK_EPOCH, s.CAPELLA_FORK_EPOCH, s.DENEB_FORK_EPOCH = e[0], e[1], e[2], e[3]
	s.ELECTRA_FORK_EPOCH, s.FULU_FORK_EPOCH = Never, Never
	s.EIP7441_FORK_EPOCH, s.EIP7732_FORK_EPOCH = Never, Never
}

// Minimal is the published minimal preset/config unchanged (all forks at FAR_FUTURE: a pure phase0 chain).
func Minimal() *Config {
	return &Config{ID: "minimal", Spec: cloneSpec(configs.Minimal)}
}

// Mainnet is the published mainnet preset/config unchanged. Needs >= 32 validators; slow (90 shuffle rounds,
// 32 slots per epoch) — meant for a few sanity chains, not for bulk generation.
func Mainnet() *Config {
	return &Config{ID: "mainnet", Spec: cloneSpec(configs.Mainnet)}
}

// MinimalAt is the published minimal preset with the fork schedule replaced ("minimal@a,b,c,d"; n = never).
func MinimalAt(altair, bellatrix, capella, deneb common.Epoch) *Config {
	s := cloneSpec(configs.Minimal)
	setForks(s, [4]common.Epoch{altair, bellatrix, capella, deneb})
	return &Config{ID: "minimal@" + fmtEpochs([4]common.Epoch{altair, bellatrix, capella, deneb}), Spec: s}
}

func fmtEpochs(e [4]common.Epoch) string {
	p := make([]string, 4)
	for i, v := range e {
		if v == Never {
			p[i] = "n"
		} else {
			p[i] = strconv.FormatUint(uint64(v), 10)
		}
	}
	return strings.Join(p, ",")
}

// Fast is the minimal preset with every waiting period shortened so that each kind of event happens within
// a few epochs (the work-horse configuration): exits after 1 epoch of activity, withdrawable 1 epoch after
// exit, exit/activation delay 2 epochs, eth1 voting period of one epoch, sync-committee period of 2 epochs,
// leak after 2 epochs, strong leak, hair-trigger hysteresis, ejection at 31 ETH, slashings vector of 8 epochs.
// ID "fast@a,b,c,d".
func Fast(altair, bellatrix, capella, deneb common.Epoch) *Config {
	s := cloneSpec(configs.Minimal)
	setForks(s, [4]common.Epoch{altair, bellatrix, capella, deneb})
	s.SHARD_COMMITTEE_PERIOD = 1
	s.MIN_VALIDATOR_WITHDRAWABILITY_DELAY = 1
	s.MAX_SEED_LOOKAHEAD = 1
	s.EPOCHS_PER_ETH1_VOTING_PERIOD = 1
	s.EPOCHS_PER_SYNC_COMMITTEE_PERIOD = 2
	s.MIN_EPOCHS_TO_INACTIVITY_PENALTY = 2
	s.INACTIVITY_PENALTY_QUOTIENT = 1 << 8
	s.INACTIVITY_PENALTY_QUOTIENT_ALTAIR = 1 << 8
	s.INACTIVITY_PENALTY_QUOTIENT_BELLATRIX = 1 << 8
	s.HYSTERESIS_QUOTIENT = 64
	s.HYSTERESIS_DOWNWARD_MULTIPLIER = 1
	s.HYSTERESIS_UPWARD_MULTIPLIER = 80
	s.EJECTION_BALANCE = 31_000_000_000
	s.MIN_PER_EPOCH_CHURN_LIMIT = 2
	s.CHURN_LIMIT_QUOTIENT = 16
	s.MAX_VALIDATORS_PER_WITHDRAWALS_SWEEP = 8
	s.MAX_WITHDRAWALS_PER_PAYLOAD = 2
	s.EPOCHS_PER_SLASHINGS_VECTOR = 8 // proportional slashing penalty 4 epochs after the slashing, withdrawable after 8
	return &Config{ID: "fast@" + fmtEpochs([4]common.Epoch{altair, bellatrix, capella, deneb}), Spec: s}
}

// RandomForkEpochs draws a monotone fork schedule: each gap to the next fork is 0 (equal epochs), 1
// (adjacent), 2..3, or the tail of the schedule is "never" / far future. The first fork may be at epoch 0
// (genesis already in a later fork).
func RandomForkEpochs(rng *rand.Rand, horizon int) [4]common.Epoch {
	var e [4]common.Epoch
	cur := uint64(0)
	switch rng.Intn(4) {
	case 0:
		cur = 0
	case 1:
		cur = 1
	default:
		cur = uint64(1 + rng.Intn(max(1, horizon/2)))
	}
	never := false
	for i := 0; i < 4; i++ {
		if i > 0 {
			switch r := rng.Intn(10); {
			case r < 3: // equal
			case r < 6:
				cur++
			case r < 8:
				cur += uint64(2 + rng.Intn(2))
			case r < 9:
				cur += 1 << 40 // far future, still monotone
			default:
				never = true
			}
		}
		if never {
			e[i] = Never
		} else {
			e[i] = common.Epoch(cur)
		}
	}
	return e
}

// RandomConfig derives a randomised small custom spec from the minimal preset. Everything that is changed
// stays inside the structural constraints the code relies on (see the comments); NewChain + a run on the
// result is the final arbiter (TestRandomConfigsRun does that for many seeds).
// ID "rand:<seed>"; ConfigByID re-creates it from the ID alone.
func RandomConfig(seed int64) *Config {
	rng := rand.New(rand.NewSource(seed ^ 0x5eed_c0f1))
	s := cloneSpec(configs.Minimal)
	pick := func(vs ...uint64) uint64 { return vs[rng.Intn(len(vs))] }

	setForks(s, RandomForkEpochs(rng, 6))

	// SLOTS_PER_EPOCH: 4 or 8. SLOTS_PER_HISTORICAL_ROOT (64) stays a multiple of it and >= 2 epochs, so
	// block-root look-ups of the previous epoch stay inside the vector. sqrt(4)=sqrt(8)=2 (timely source).
	s.SLOTS_PER_EPOCH = common.Slot(pick(4, 8))
	// committees: TARGET_COMMITTEE_SIZE / MAX_COMMITTEES_PER_SLOT only steer CommitteeCount.
	s.TARGET_COMMITTEE_SIZE = view.Uint64View(pick(2, 4, 8))
	s.MAX_COMMITTEES_PER_SLOT = view.Uint64View(pick(1, 2, 4))
	s.SHUFFLE_ROUND_COUNT = 10

	// registry dynamics
	s.MIN_PER_EPOCH_CHURN_LIMIT = view.Uint64View(pick(1, 2, 3, 4))
	s.CHURN_LIMIT_QUOTIENT = view.Uint64View(pick(4, 8, 16, 32))
	s.MAX_PER_EPOCH_ACTIVATION_CHURN_LIMIT = view.Uint64View(pick(1, 2, 4))
	s.SHARD_COMMITTEE_PERIOD = common.Epoch(pick(0, 1, 2, 3))
	s.MIN_VALIDATOR_WITHDRAWABILITY_DELAY = common.Epoch(pick(0, 1, 2, 4))
	// MAX_SEED_LOOKAHEAD only enters compute_activation_exit_epoch; MIN_SEED_LOOKAHEAD must stay 1 (the
	// epochs context pre-computes exactly one epoch of shuffling ahead).
	s.MAX_SEED_LOOKAHEAD = common.Epoch(pick(1, 2, 4))
	s.EJECTION_BALANCE = common.Gwei(pick(16, 24, 30, 31) * 1_000_000_000)
	switch rng.Intn(3) {
	case 0: // published hysteresis
	case 1:
		s.HYSTERESIS_QUOTIENT, s.HYSTERESIS_DOWNWARD_MULTIPLIER, s.HYSTERESIS_UPWARD_MULTIPLIER = 64, 1, 80
	case 2:
		s.HYSTERESIS_QUOTIENT, s.HYSTERESIS_DOWNWARD_MULTIPLIER, s.HYSTERESIS_UPWARD_MULTIPLIER = 2, 1, 3
	}
	// leak
	s.MIN_EPOCHS_TO_INACTIVITY_PENALTY = common.Epoch(pick(1, 2, 4))
	q := view.Uint64View(pick(1<<8, 1<<12, 1<<25))
	s.INACTIVITY_PENALTY_QUOTIENT, s.INACTIVITY_PENALTY_QUOTIENT_ALTAIR, s.INACTIVITY_PENALTY_QUOTIENT_BELLATRIX = q, q*3/2, q/2
	s.INACTIVITY_SCORE_BIAS = view.Uint64View(pick(1, 4))
	s.INACTIVITY_SCORE_RECOVERY_RATE = view.Uint64View(pick(1, 16))

	// eth1 voting period: the votes list limit is EPOCHS_PER_ETH1_VOTING_PERIOD * SLOTS_PER_EPOCH (derived).
	s.EPOCHS_PER_ETH1_VOTING_PERIOD = common.Epoch(pick(1, 2, 4))
	// sync committees: size must stay a multiple of SYNC_COMMITTEE_SUBNET_COUNT (4).
	s.EPOCHS_PER_SYNC_COMMITTEE_PERIOD = common.Epoch(pick(1, 2, 3, 8))
	s.SYNC_COMMITTEE_SIZE = view.Uint64View(pick(8, 16, 32))

	// per-block limits (SSZ list limits of the block body; states do not depend on them)
	s.MAX_PROPOSER_SLASHINGS = view.Uint64View(pick(1, 2, 16))
	s.MAX_ATTESTER_SLASHINGS = view.Uint64View(pick(1, 2))
	s.MAX_ATTESTATIONS = view.Uint64View(pick(4, 8, 128))
	s.MAX_DEPOSITS = view.Uint64View(pick(1, 2, 16))
	s.MAX_VOLUNTARY_EXITS = view.Uint64View(pick(1, 2, 16))
	s.MAX_BLS_TO_EXECUTION_CHANGES = view.Uint64View(pick(1, 2, 16))
	s.MAX_WITHDRAWALS_PER_PAYLOAD = view.Uint64View(pick(1, 2, 4))
	s.MAX_VALIDATORS_PER_WITHDRAWALS_SWEEP = view.Uint64View(pick(2, 8, 16))
	s.MAX_BLOBS_PER_BLOCK = view.Uint64View(pick(1, 2, 6))
	s.SECONDS_PER_SLOT = common.Timestamp(pick(2, 6, 12))

	// state vector lengths (all derived from the spec by the type constructors):
	// SLOTS_PER_HISTORICAL_ROOT >= 2*SLOTS_PER_EPOCH (block roots of the whole previous epoch must still be
	// there when the last block of the current epoch includes its attestations) and a multiple of
	// SLOTS_PER_EPOCH; EPOCHS_PER_HISTORICAL_VECTOR > MIN_SEED_LOOKAHEAD + a few epochs of seeds;
	// EPOCHS_PER_SLASHINGS_VECTOR even (the proportional penalty hits at half of it).
	s.SLOTS_PER_HISTORICAL_ROOT = common.Slot(pick(16, 32, 64))
	s.EPOCHS_PER_HISTORICAL_VECTOR = common.Epoch(pick(8, 16, 64))
	s.EPOCHS_PER_SLASHINGS_VECTOR = common.Epoch(pick(4, 8, 64))
	return &Config{ID: fmt.Sprintf("rand:%d", seed), Spec: s}
}

func parseEpochs(s string) ([4]common.Epoch, error) {
	var e [4]common.Epoch
	p := strings.Split(s, ",")
	if len(p) != 4 {
		return e, fmt.Errorf("need 4 fork epochs, got %q", s)
	}
	for i, x := range p {
		if x == "n" {
			e[i] = Never
			continue
		}
		v, err := strconv.ParseUint(x, 10, 64)
		if err != nil {
			return e, err
		}
		e[i] = common.Epoch(v)
	}
	return e, nil
}

// ConfigByID re-creates a configuration from its ID: "minimal", "mainnet", "minimal@a,b,c,d",
// "fast@a,b,c,d", "fast2@a,b,c,d", "mainnetconst@a,b,c,d", "rand:<seed>", "rand2:<seed>", "apart:<seed>"
// (epochs: decimal or n = never).
func ConfigByID(id string) (*Config, error) {
	switch {
	case id == "minimal":
		return Minimal(), nil
	case id == "mainnet":
		return Mainnet(), nil
	case strings.HasPrefix(id, "minimal@"):
		e, err := parseEpochs(id[len("minimal@"):])
		if err != nil {
			return nil, err
		}
		return MinimalAt(e[0], e[1], e[2], e[3]), nil
	case strings.HasPrefix(id, "fast@"):
		e, err := parseEpochs(id[len("fast@"):])
		if err != nil {
			return nil, err
		}
		return Fast(e[0], e[1], e[2], e[3]), nil
	case strings.HasPrefix(id, "fast2@"):
		e, err := parseEpochs(id[len("fast2@"):])
		if err != nil {
			return nil, err
		}
		return Fast2(e[0], e[1], e[2], e[3]), nil
	case strings.HasPrefix(id, "mainnetconst@"):
		e, err := parseEpochs(id[len("mainnetconst@"):])
		if err != nil {
			return nil, err
		}
		return MainnetConst(e[0], e[1], e[2], e[3]), nil
	case strings.HasPrefix(id, "apart0:"):
		v, err := strconv.ParseInt(id[len("apart0:"):], 10, 64)
		if err != nil {
			return nil, err
		}
		return Apart0(v), nil
	case strings.HasPrefix(id, "rand3:"):
		v, err := strconv.ParseInt(id[len("rand3:"):], 10, 64)
		if err != nil {
			return nil, err
		}
		return RandomConfig3(v), nil
	case strings.HasPrefix(id, "apart:"):
		v, err := strconv.ParseInt(id[len("apart:"):], 10, 64)
		if err != nil {
			return nil, err
		}
		return Apart(v), nil
	case strings.HasPrefix(id, "rand2:"):
		v, err := strconv.ParseInt(id[len("rand2:"):], 10, 64)
		if err != nil {
			return nil, err
		}
		return RandomConfig2(v), nil
	case strings.HasPrefix(id, "rand:"):
		v, err := strconv.ParseInt(id[len("rand:"):], 10, 64)
		if err != nil {
			return nil, err
		}
		return RandomConfig(v), nil
	}
	return nil, fmt.Errorf("unknown config id %q", id)
}
