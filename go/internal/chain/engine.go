package chain

import (
	"context"
	"errors"
	"sync"

	"github.com/protolambda/zrnt/eth2/beacon/bellatrix"
	"github.com/protolambda/zrnt/eth2/beacon/capella"
	"github.com/protolambda/zrnt/eth2/beacon/common"
	"github.com/protolambda/zrnt/eth2/beacon/deneb"
	"github.com/protolambda/ztyp/tree"
)

// Verdict is what the mock execution engine answers to one call.
type Verdict int

const (
	EngineValid   Verdict = iota // (true, nil)
	EngineInvalid                // (false, nil)
	EngineError                  // (false, ErrEngine)
	EngineErrorTrue              // (true, ErrEngine): an error reported together with a positive verdict; the error decides
)

// ErrEngine is the error a scripted EngineError answer returns.
var ErrEngine = errors.New("mock execution engine: scripted failure")

// EngineCall records one call the consensus code made into the engine, with the arguments it was shown.
type EngineCall struct {
	Method                string // e.g. "CapellaIsValidBlockHash"
	Fork                  Fork
	BlockHash             common.Hash32
	ParentHash            common.Hash32
	PrevRandao            common.Bytes32
	Timestamp             common.Timestamp
	BlockNumber           uint64
	PayloadRoot           common.Root // hash-tree-root of the payload as passed
	Withdrawals           []common.Withdrawal
	VersionedHashes       []common.Hash32 // deneb IsValidVersionedHashes only
	ParentBeaconBlockRoot common.Root     // deneb only
	CtxErr                bool            // the context was already cancelled when the call arrived
	Answer                Verdict
}

// MockEngine implements the bellatrix, capella and deneb ExecutionEngine interfaces. By default every call
// answers valid. Script queues answers that are consumed one per call (any method); ScriptFor queues
// answers for one method name only (consulted first). All calls are recorded.
type MockEngine struct {
	mu      sync.Mutex
	spec    *common.Spec
	Default Verdict
	script  []Verdict
	per     map[string][]Verdict
	Calls   []EngineCall
	// Hook, if set, is called for every call after the scripted answer was chosen and may override it.
	Hook func(c *EngineCall) Verdict
}

func NewMockEngine(spec *common.Spec) *MockEngine {
	return &MockEngine{spec: spec, per: map[string][]Verdict{}}
}

// Script appends answers consumed in order by the next calls (whatever the method).
func (e *MockEngine) Script(v ...Verdict) {
	e.mu.Lock()
	e.script = append(e.script, v...)
	e.mu.Unlock()
}

// ScriptFor appends answers consumed in order by the next calls of the named method.
func (e *MockEngine) ScriptFor(method string, v ...Verdict) {
	e.mu.Lock()
	e.per[method] = append(e.per[method], v...)
	e.mu.Unlock()
}

// Reset drops pending scripts and the call log.
func (e *MockEngine) Reset() {
	e.mu.Lock()
	e.script, e.per, e.Calls = nil, map[string][]Verdict{}, nil
	e.mu.Unlock()
}

// Mark returns the current length of the call log; CallsSince(mark) returns the calls made after it.
func (e *MockEngine) Mark() int {
	e.mu.Lock()
	defer e.mu.Unlock()
	return len(e.Calls)
}

func (e *MockEngine) truncate(mark int) {
	e.mu.Lock()
	if mark <= len(e.Calls) {
		e.Calls = e.Calls[:mark]
	}
	e.mu.Unlock()
}

func (e *MockEngine) CallsSince(mark int) []EngineCall {
	e.mu.Lock()
	defer e.mu.Unlock()
	return append([]EngineCall(nil), e.Calls[mark:]...)
}

func (e *MockEngine) answer(ctx context.Context, c EngineCall) (bool, error) {
	e.mu.Lock()
	v := e.Default
	if q := e.per[c.Method]; len(q) > 0 {
		v, e.per[c.Method] = q[0], q[1:]
	} else if len(e.script) > 0 {
		v, e.script = e.script[0], e.script[1:]
	}
	c.CtxErr = ctx != nil && ctx.Err() != nil
	c.Answer = v
	hook := e.Hook
	e.mu.Unlock()
	if hook != nil {
		c.Answer = hook(&c)
	}
	e.mu.Lock()
	e.Calls = append(e.Calls, c)
	e.mu.Unlock()
	switch c.Answer {
	case EngineValid:
		return true, nil
	case EngineInvalid:
		return false, nil
	case EngineErrorTrue:
		return true, ErrEngine
	default:
		return false, ErrEngine
	}
}

func (e *MockEngine) bellatrixCall(m string, p *bellatrix.ExecutionPayload) EngineCall {
	return EngineCall{Method: m, Fork: Bellatrix, BlockHash: p.BlockHash, ParentHash: p.ParentHash, PrevRandao: p.PrevRandao,
		Timestamp: p.Timestamp, BlockNumber: uint64(p.BlockNumber), PayloadRoot: p.HashTreeRoot(e.spec, tree.GetHashFn())}
}

func (e *MockEngine) capellaCall(m string, p *capella.ExecutionPayload) EngineCall {
	return EngineCall{Method: m, Fork: Capella, BlockHash: p.BlockHash, ParentHash: p.ParentHash, PrevRandao: p.PrevRandao,
		Timestamp: p.Timestamp, BlockNumber: uint64(p.BlockNumber), PayloadRoot: p.HashTreeRoot(e.spec, tree.GetHashFn()),
		Withdrawals: append([]common.Withdrawal(nil), p.Withdrawals...)}
}

func (e *MockEngine) denebCall(m string, p *deneb.ExecutionPayload) EngineCall {
	return EngineCall{Method: m, Fork: Deneb, BlockHash: p.BlockHash, ParentHash: p.ParentHash, PrevRandao: p.PrevRandao,
		Timestamp: p.Timestamp, BlockNumber: uint64(p.BlockNumber), PayloadRoot: p.HashTreeRoot(e.spec, tree.GetHashFn()),
		Withdrawals: append([]common.Withdrawal(nil), p.Withdrawals...)}
}

func (e *MockEngine) BellatrixNotifyNewPayload(ctx context.Context, p *bellatrix.ExecutionPayload) (bool, error) {
	return e.answer(ctx, e.bellatrixCall("BellatrixNotifyNewPayload", p))
}

func (e *MockEngine) BellatrixIsValidBlockHash(ctx context.Context, p *bellatrix.ExecutionPayload) (bool, error) {
	return e.answer(ctx, e.bellatrixCall("BellatrixIsValidBlockHash", p))
}

func (e *MockEngine) CapellaNotifyNewPayload(ctx context.Context, p *capella.ExecutionPayload) (bool, error) {
	return e.answer(ctx, e.capellaCall("CapellaNotifyNewPayload", p))
}

func (e *MockEngine) CapellaIsValidBlockHash(ctx context.Context, p *capella.ExecutionPayload) (bool, error) {
	return e.answer(ctx, e.capellaCall("CapellaIsValidBlockHash", p))
}

func (e *MockEngine) DenebNotifyNewPayload(ctx context.Context, p *deneb.ExecutionPayload, parentBeaconBlockRoot common.Root) (bool, error) {
	c := e.denebCall("DenebNotifyNewPayload", p)
	c.ParentBeaconBlockRoot = parentBeaconBlockRoot
	return e.answer(ctx, c)
}

func (e *MockEngine) DenebIsValidVersionedHashes(ctx context.Context, p *deneb.ExecutionPayload, versionedHashes []common.Hash32) (bool, error) {
	c := e.denebCall("DenebIsValidVersionedHashes", p)
	c.VersionedHashes = append([]common.Hash32(nil), versionedHashes...)
	return e.answer(ctx, c)
}

func (e *MockEngine) DenebIsValidBlockHash(ctx context.Context, p *deneb.ExecutionPayload, parentBeaconBlockRoot common.Root) (bool, error) {
	c := e.denebCall("DenebIsValidBlockHash", p)
	c.ParentBeaconBlockRoot = parentBeaconBlockRoot
	return e.answer(ctx, c)
}

var (
	_ bellatrix.ExecutionEngine = (*MockEngine)(nil)
	_ capella.ExecutionEngine   = (*MockEngine)(nil)
	_ deneb.ExecutionEngine     = (*MockEngine)(nil)
)
