package fc

// Generators of the modes fc09 / fc10 / fc11.
//
// The generator keeps a small mirror of what it believes the fork choice looks like under the INTENDED
// semantics (known nodes in array order, block root -> slot/parent, last vote epoch per validator,
// justified/finalized checkpoints, pin). The mirror only steers the choice of arguments so that most
// operations are meaningful and deep states are reached; it is never used as an oracle.

import (
	"bufio"
	"fmt"
	"math/rand"
	"sort"
	"strconv"
	"strings"

	"verifharness/internal/hreg"
)

// pool: the only roots ever used as block roots / anchors. Byte order differs from pool order, several
// share prefixes ("02" / "0201", the two 32-byte roots differing in the last byte only).
var pool = []string{
	"01", "02", "0201", "ff", "fe", "80", "7f",
	"aa" + strings.Repeat("0", 60) + "01",
	"aa" + strings.Repeat("0", 60) + "02",
	"10",
}

// strangers are never blocks: used wherever an unknown root is wanted.
var strangers = []string{"de", "ad00be", "03", "0202", "aa"}

const zeroRoot = "00"
const sinkPlaceholder = "%SINK%"

type nref struct {
	root string
	slot int
}

type blk struct {
	root   string
	slot   int
	parent string
	max    int // nodes (root, slot..max) exist contiguously
	je, fe int
	kids   []string
}

type mirror struct {
	spe       int
	blocks    map[string]*blk
	order     []string // block roots in insertion order
	arr       []nref   // believed node array
	has       map[nref]bool
	jE, fE    int
	jR, fR    string
	pin       *nref
	bals      []int
	last      map[int]int // validator -> epoch of the latest accepted vote
	lastVoted string
}

func (m *mirror) epoch(slot int) int { return slot / m.spe }

func (m *mirror) addNode(n nref) {
	if !m.has[n] {
		m.has[n] = true
		m.arr = append(m.arr, n)
	}
}

func (m *mirror) procSlot(root string, slot int) {
	n := nref{root, slot}
	if m.has[n] {
		return
	}
	if b := m.blocks[root]; b != nil {
		for s := b.slot + 1; s < slot; s++ {
			m.addNode(nref{root, s})
		}
		if slot > b.max {
			b.max = slot
		}
	}
	m.addNode(n)
}

func (m *mirror) procBlock(parent, root string, slot, je, fe int) bool {
	if m.has[nref{root, slot}] || m.blocks[root] != nil {
		return true
	}
	p := m.blocks[parent]
	if p == nil || p.slot >= slot {
		return false
	}
	m.procSlot(parent, slot)
	m.blocks[root] = &blk{root: root, slot: slot, parent: parent, max: slot, je: je, fe: fe}
	m.order = append(m.order, root)
	p.kids = append(p.kids, root)
	m.addNode(nref{root, slot})
	return true
}

func (m *mirror) unused() []string {
	var out []string
	for _, r := range pool {
		if m.blocks[r] == nil {
			out = append(out, r)
		}
	}
	return out
}

func (m *mirror) liveKids(b *blk) []string {
	var out []string
	for _, k := range b.kids {
		if m.blocks[k] != nil {
			out = append(out, k)
		}
	}
	return out
}

func (m *mirror) leaves() []string {
	var out []string
	for _, r := range m.order {
		if len(m.liveKids(m.blocks[r])) == 0 {
			out = append(out, r)
		}
	}
	return out
}

func (m *mirror) inner() []string {
	var out []string
	for _, r := range m.order {
		if len(m.liveKids(m.blocks[r])) > 0 {
			out = append(out, r)
		}
	}
	return out
}

// chain: from the block up to the root of the believed tree.
func (m *mirror) chain(from string) []string {
	var out []string
	for b := m.blocks[from]; b != nil && len(out) < 64; b = m.blocks[b.parent] {
		out = append(out, b.root)
	}
	return out
}

func (m *mirror) isDesc(anc, r string) bool {
	for _, x := range m.chain(r) {
		if x == anc {
			return true
		}
	}
	return false
}

func (m *mirror) blockNodes() []nref {
	var out []nref
	for _, r := range m.order {
		out = append(out, nref{r, m.blocks[r].slot})
	}
	return out
}

func (m *mirror) gapNodes() []nref {
	var out []nref
	for _, n := range m.arr {
		if b := m.blocks[n.root]; b != nil && n.slot > b.slot {
			out = append(out, n)
		}
	}
	return out
}

func (m *mirror) forks() int {
	n := 0
	for _, r := range m.order {
		if len(m.liveKids(m.blocks[r])) >= 2 {
			n++
		}
	}
	return n
}

func (m *mirror) index(n nref) int {
	for i, x := range m.arr {
		if x == n {
			return i
		}
	}
	return -1
}

// prune mimics the intended OnPrune(root, slot): everything before the anchor node in array order goes.
func (m *mirror) prune(root string, slot int) {
	idx := m.index(nref{root, slot})
	if idx <= 0 {
		return
	}
	for _, n := range m.arr[:idx] {
		delete(m.has, n)
		if b := m.blocks[n.root]; b != nil && b.slot == n.slot && n.root != root {
			delete(m.blocks, n.root)
		}
	}
	m.arr = append([]nref(nil), m.arr[idx:]...)
	if b := m.blocks[root]; b != nil && b.slot < slot {
		b.slot = slot
	}
	var order []string
	for _, r := range m.order {
		if m.blocks[r] != nil {
			order = append(order, r)
		}
	}
	m.order = order
}

// ---- generator state ----

type gen struct {
	o     hreg.Opts
	mode  string
	rng   *rand.Rand
	w     *bufio.Writer
	st    *hreg.Stats
	first bool

	seq       []string
	m         *mirror
	nv        int     // validators voting in this sequence
	headP     float64 // probability of a `head` after a mutating op
	reserve   int     // fresh roots kept back for later phases of the sequence
	sinkKind  string
	sinkK     int // -1: undecided
	finalizes bool
	label     string
}

func (g *gen) chance(p float64) bool { return g.rng.Float64() < p }

func (g *gen) pick(l []string) string { return l[g.rng.Intn(len(l))] }

func (g *gen) pickN(l []nref) nref { return l[g.rng.Intn(len(l))] }

// wpick picks an index with probability proportional to its weight.
func (g *gen) wpick(weights ...int) int {
	total := 0
	for _, w := range weights {
		total += w
	}
	x := g.rng.Intn(total)
	for i, w := range weights {
		if x < w {
			return i
		}
		x -= w
	}
	return len(weights) - 1
}

// rs spells a root token; now and then non-canonically (with a trailing zero byte).
func (g *gen) rs(root string) string {
	if len(root) < 64 && g.chance(0.02) {
		g.st.Add("root-spelling", "trailing-00")
		return root + "00"
	}
	return root
}

func (g *gen) stranger() string {
	if un := g.m.unused(); len(un) > 0 && g.chance(0.5) {
		return g.pick(un)
	}
	return g.pick(strangers)
}

func (g *gen) emit(kind, line string) {
	g.st.Add("op", kind)
	g.seq = append(g.seq, line)
}

func (g *gen) afterMut() {
	if g.m != nil && g.chance(g.headP) {
		g.emit("head", "head")
	}
}

func bucket(n, step int) string {
	lo := n / step * step
	return strconv.Itoa(lo) + "-" + strconv.Itoa(lo+step-1)
}

func (g *gen) begin(label string) {
	g.seq = g.seq[:0]
	g.m = nil
	g.sinkKind, g.sinkK = "", -1
	g.finalizes = false
	g.label = label
}

// resolveSink fixes the sink token of the pending init line (fail<k>: k is chosen as late as possible,
// when the first finalizing justify of the sequence is known).
func (g *gen) resolveSink() {
	sink := g.sinkKind
	if sink == "fail" {
		if g.sinkK < 0 {
			g.sinkK = g.rng.Intn(5)
		}
		sink = "fail" + strconv.Itoa(g.sinkK)
	}
	for i, l := range g.seq {
		if strings.Contains(l, sinkPlaceholder) {
			if g.sinkKind == "fail" {
				g.st.Add("sink-fail-k", bucket(g.sinkK, 4))
			}
			g.seq[i] = strings.Replace(l, sinkPlaceholder, sink, 1)
		}
	}
}

func (g *gen) flush() {
	if !g.first {
		fmt.Fprintln(g.w, "reset")
	}
	g.first = false
	g.resolveSink()
	for _, l := range g.seq {
		fmt.Fprintln(g.w, l)
	}
	g.st.Add("sequences", g.label)
	g.st.Add("seq-len", bucket(len(g.seq), 10))
	if g.m != nil {
		g.st.Add("tree-blocks", strconv.Itoa(len(g.m.blocks)))
		g.st.Add("tree-nodes", bucket(len(g.m.arr), 5))
		g.st.Add("forks", strconv.Itoa(g.m.forks()))
		if g.finalizes {
			g.st.Add("seq-finalizing", "yes")
		} else {
			g.st.Add("seq-finalizing", "no")
		}
	}
}

func balStr(b []int) string {
	if len(b) == 0 {
		return "-"
	}
	p := make([]string, len(b))
	for i, v := range b {
		p[i] = strconv.Itoa(v)
	}
	return strings.Join(p, ",")
}

var balVals = []int{32, 32, 33, 1, 0, 32, 33}

// ---- init ----

// opInit emits an init line; returns whether the generator believes it succeeds.
func (g *gen) opInit(wNil, wRec, wFail int) bool {
	rng := g.rng
	spe := []int{2, 3, 4, 4, 4, 8}[rng.Intn(6)]
	g.st.Add("spe", strconv.Itoa(spe))
	anchor := g.pick(pool)
	anchorSlot, jE, fE := 0, 0, 0
	jR, fR := anchor, anchor
	ok := true
	kind := ""
	switch x := rng.Intn(100); {
	case x < 68:
		kind = "genesis"
	case x < 80:
		kind = "late-anchor"
		anchorSlot = 1 + rng.Intn(5)
	case x < 93:
		kind = "epoch1"
		jE, fE, anchorSlot = 1, rng.Intn(2), spe
	case x < 96:
		kind = "j-lt-f"
		jE, fE, anchorSlot, ok = 0, 1, spe, false
	default:
		kind = "odd-checkpoints"
		jE, anchorSlot = 1+rng.Intn(2), rng.Intn(6)
		fE = rng.Intn(jE + 1)
		jR = g.pick(append(append([]string{}, pool...), strangers...))
		if g.chance(0.5) {
			fR = g.pick(pool)
		}
	}
	g.st.Add("init", kind)
	parent := zeroRoot
	switch rng.Intn(10) {
	case 0, 1, 2:
		parent = anchor
		g.st.Add("anchor-parent", "self")
	case 3, 4, 5:
		for parent = g.pick(pool); parent == anchor; parent = g.pick(pool) {
		}
		g.st.Add("anchor-parent", "other")
	default:
		g.st.Add("anchor-parent", "zero")
	}
	nb := rng.Intn(9)
	bals := make([]int, nb)
	for i := range bals {
		bals[i] = balVals[rng.Intn(len(balVals))]
	}
	g.st.Add("balances-len", strconv.Itoa(nb))
	g.resolveSink() // a re-init: the earlier init line of this sequence keeps its own sink
	g.sinkKind = []string{"nil", "rec", "fail"}[g.wpick(wNil, wRec, wFail)]
	g.sinkK = -1
	g.st.Add("sink", g.sinkKind)
	g.nv = []int{1, 2, 2, 3, 3, 4, 5, 6, 8}[rng.Intn(9)] // few validators: most votes are re-votes
	g.emit("init", fmt.Sprintf("init %d %s %d %s %d %s %d %s %s %s", spe, g.rs(anchor), anchorSlot, parent,
		jE, g.rs(jR), fE, g.rs(fR), sinkPlaceholder, balStr(bals)))
	if !ok {
		g.m = nil
		return false
	}
	m := &mirror{spe: spe, blocks: map[string]*blk{}, has: map[nref]bool{}, jE: jE, fE: fE, jR: jR, fR: fR,
		bals: bals, last: map[int]int{}}
	m.blocks[anchor] = &blk{root: anchor, slot: anchorSlot, max: anchorSlot, je: jE, fe: fE}
	m.order = []string{anchor}
	m.addNode(nref{anchor, anchorSlot})
	m.pin = &nref{anchor, anchorSlot}
	g.m = m
	return true
}

// ---- tree building ----

func (g *gen) epochsFor(parent string) (int, int) {
	m := g.m
	switch x := g.rng.Intn(100); {
	case x < 62:
		g.st.Add("node-epochs", "current")
		return m.jE, m.fE
	case x < 77:
		g.st.Add("node-epochs", "parent")
		if b := m.blocks[parent]; b != nil {
			return b.je, b.fe
		}
		return m.jE, m.fE
	case x < 94:
		g.st.Add("node-epochs", "next")
		if g.chance(0.7) {
			return m.jE + 1, m.fE
		}
		return m.jE + 1, m.fE + 1
	default:
		g.st.Add("node-epochs", "arbitrary")
		return g.rng.Intn(4), g.rng.Intn(3)
	}
}

func (g *gen) pickLeaf() string {
	m := g.m
	ls := m.leaves()
	if len(ls) == 0 {
		return m.order[0]
	}
	if g.chance(0.6) {
		best := ls[0]
		for _, l := range ls {
			if m.blocks[l].slot > m.blocks[best].slot {
				best = l
			}
		}
		return best
	}
	return g.pick(ls)
}

func (g *gen) opBlock() {
	m, rng := g.m, g.rng
	un := m.unused()
	kinds := []string{"extend", "gap", "fork", "double", "late", "reinsert-same", "reinsert-other-slot", "unknown-parent", "slot-le-parent"}
	var kind string
	if len(un) <= g.reserve {
		kind = kinds[5+g.wpick(4, 3, 3, 3)]
	} else {
		kind = kinds[g.wpick(34, 12, 18, 8, 6, 4, 3, 5, 6)]
	}
	inner := m.inner()
	if len(inner) == 0 && (kind == "fork" || kind == "double" || kind == "late") {
		kind = "extend"
	}
	var parent, root string
	var slot int
	if len(un) > 0 {
		root = g.pick(un)
	} else {
		root = g.pick(strangers)
	}
	switch kind {
	case "extend", "gap":
		parent = g.pickLeaf()
		b := m.blocks[parent]
		slot = b.slot + 1
		if kind == "gap" {
			slot = b.slot + 2 + rng.Intn(5)
		} else if b.max > b.slot && g.chance(0.3) {
			slot = b.max + rng.Intn(2)
		}
	case "fork":
		parent = g.pick(inner)
		slot = m.blocks[parent].slot + 1 + rng.Intn(3)
	case "double", "late":
		parent = g.pick(inner)
		b := m.blocks[parent]
		ks := m.liveKids(b)
		minSlot := m.blocks[ks[0]].slot
		for _, k := range ks {
			if s := m.blocks[k].slot; s < minSlot {
				minSlot = s
			}
		}
		slot = m.blocks[g.pick(ks)].slot
		if kind == "late" {
			if minSlot-1 > b.slot {
				slot = b.slot + 1 + rng.Intn(minSlot-1-b.slot)
			} else {
				kind = "double"
			}
		}
	case "reinsert-same":
		root = g.pick(m.order)
		b := m.blocks[root]
		parent, slot = b.parent, b.slot
		if parent == "" {
			parent = zeroRoot
		}
	case "reinsert-other-slot":
		root = g.pick(m.order)
		b := m.blocks[root]
		parent, slot = b.parent, b.slot+1+rng.Intn(3)
		if parent == "" || g.chance(0.3) {
			parent = g.pick(m.order)
		}
	case "unknown-parent":
		parent = g.pick(strangers)
		if len(un) > 1 && g.chance(0.5) {
			for parent = g.pick(un); parent == root; parent = g.pick(un) {
			}
		}
		slot = 1 + rng.Intn(20)
	case "slot-le-parent":
		parent = g.pick(m.order)
		slot = m.blocks[parent].slot - rng.Intn(3)
		if slot < 0 {
			slot = 0
		}
	}
	if (kind == "extend" || kind == "gap" || kind == "fork") && g.chance(0.25) {
		// land exactly on the next epoch start slot: such blocks are proper checkpoint blocks
		if s := (m.blocks[parent].slot/m.spe + 1) * m.spe; s <= 40 {
			slot = s
			g.st.Add("block-slot", "epoch-start")
		}
	}
	if slot > 40 {
		// the chosen branch is at the end of the slot range: fork from somewhere earlier instead
		kind = "fork"
		var early []string
		for _, r := range m.order {
			if m.blocks[r].slot < 36 {
				early = append(early, r)
			}
		}
		if len(early) == 0 {
			early = m.order[:1]
		}
		parent = g.pick(early)
		slot = m.blocks[parent].slot + 1 + rng.Intn(3)
	}
	g.st.Add("block", kind)
	je, fe := g.epochsFor(parent)
	g.emit("block", fmt.Sprintf("block %s %s %d %d %d", g.rs(parent), g.rs(root), slot, je, fe))
	m.procBlock(parent, root, slot, je, fe)
	g.afterMut()
}

func (g *gen) opSlot() {
	m, rng := g.m, g.rng
	kind := []string{"extend", "reinsert", "unknown-parent", "below-block"}[g.wpick(60, 15, 10, 15)]
	var root string
	var slot int
	switch kind {
	case "extend":
		root = g.pick(m.order)
		if g.chance(0.6) {
			root = g.pickLeaf()
		}
		slot = m.blocks[root].max + 1 + rng.Intn(4)
	case "reinsert":
		root = g.pick(m.order)
		b := m.blocks[root]
		slot = b.slot + rng.Intn(b.max-b.slot+1)
	case "unknown-parent":
		root = g.stranger()
		slot = rng.Intn(12)
	case "below-block":
		root = g.pick(m.order)
		b := m.blocks[root]
		if b.slot == 0 {
			kind = "reinsert"
			slot = 0
		} else {
			slot = rng.Intn(b.slot)
		}
	}
	g.st.Add("slot", kind)
	je, fe := g.epochsFor(root)
	g.emit("slot", fmt.Sprintf("slot %s %d %d %d", g.rs(root), slot, je, fe))
	m.procSlot(root, slot)
	g.afterMut()
}

// ---- votes ----

func (g *gen) lastEpoch(v int) int {
	if e, ok := g.m.last[v]; ok {
		return e
	}
	return -1
}

func (g *gen) newer(c []nref, v int) []nref {
	var out []nref
	for _, n := range c {
		if g.m.epoch(n.slot) > g.lastEpoch(v) {
			out = append(out, n)
		}
	}
	return out
}

func (g *gen) vote(v int, n nref, target string) {
	m := g.m
	e, last := m.epoch(n.slot), g.lastEpoch(v)
	switch {
	case last < 0:
		g.st.Add("vote-epoch", "first")
	case e > last:
		g.st.Add("vote-epoch", "newer")
	case e == last:
		g.st.Add("vote-epoch", "same-epoch")
	default:
		g.st.Add("vote-epoch", "older")
	}
	g.st.Add("vote", target)
	if v >= len(m.bals) {
		g.st.Add("vote-validator", "beyond-balances")
	} else {
		g.st.Add("vote-validator", "within-balances")
	}
	g.emit("att", fmt.Sprintf("att %d %s %d", v, g.rs(n.root), n.slot))
	if m.blocks[n.root] != nil {
		if e > last {
			m.last[v] = e
		}
		m.lastVoted = n.root
	}
	g.afterMut()
}

func (g *gen) pickValidator() int {
	if g.chance(0.05) {
		return 8 + g.rng.Intn(5)
	}
	return g.rng.Intn(g.nv)
}

func (g *gen) opAtt() {
	m, rng := g.m, g.rng
	v := g.pickValidator()
	kind := []string{"block-node", "gap-slot", "flip", "same-epoch", "older", "unknown-root", "nonexistent-after", "nonexistent-below-block"}[g.wpick(42, 15, 13, 6, 6, 5, 6, 7)]
	bn, gn := m.blockNodes(), m.gapNodes()
	if kind == "gap-slot" && len(gn) == 0 {
		kind = "block-node"
	}
	if kind == "flip" && len(m.leaves()) < 2 {
		kind = "block-node"
	}
	switch kind {
	case "block-node":
		c := bn
		if nw := g.newer(c, v); len(nw) > 0 {
			c = nw
		} else {
			// try the validator that is furthest behind
			for w := 0; w < g.nv; w++ {
				if g.lastEpoch(w) < g.lastEpoch(v) {
					v = w
				}
			}
			if nw := g.newer(bn, v); len(nw) > 0 {
				c = nw
			}
		}
		g.vote(v, g.pickN(c), "block-node")
	case "gap-slot":
		c := gn
		if nw := g.newer(c, v); len(nw) > 0 {
			c = nw
		}
		g.vote(v, g.pickN(c), "gap-slot")
	case "flip":
		// vote with a few validators for a branch that does not contain the last voted block
		var cands []string
		for _, l := range m.leaves() {
			if m.lastVoted == "" || !m.isDesc(m.lastVoted, l) {
				cands = append(cands, l)
			}
		}
		if len(cands) == 0 {
			cands = m.leaves()
		}
		leaf := g.pick(cands)
		var part []nref
		for _, r := range m.chain(leaf) {
			if m.lastVoted != "" && m.isDesc(r, m.lastVoted) {
				break // shared with the last voted branch
			}
			part = append(part, nref{r, m.blocks[r].slot})
		}
		if len(part) == 0 {
			part = []nref{{leaf, m.blocks[leaf].slot}}
		}
		k := 1 + rng.Intn(3)
		for i := 0; i < k; i++ {
			w := (v + i) % 8
			if i == 0 {
				w = v
			}
			c := part
			if nw := g.newer(c, w); len(nw) > 0 {
				c = nw
			}
			g.vote(w, g.pickN(c), "flip")
		}
	case "same-epoch", "older":
		var c []nref
		for _, n := range m.arr {
			e := m.epoch(n.slot)
			if m.blocks[n.root] != nil && (kind == "same-epoch" && e == g.lastEpoch(v) || kind == "older" && e < g.lastEpoch(v)) {
				c = append(c, n)
			}
		}
		if len(c) == 0 {
			c = bn
		}
		g.vote(v, g.pickN(c), "repeat-or-older")
	case "unknown-root":
		g.vote(v, nref{g.stranger(), rng.Intn(41)}, "unknown-root")
	case "nonexistent-after":
		r := g.pick(m.order)
		g.vote(v, nref{r, m.blocks[r].max + 1 + rng.Intn(3)}, "nonexistent-after")
	case "nonexistent-below-block":
		var c []string
		for _, r := range m.order {
			if m.blocks[r].slot > 0 {
				c = append(c, r)
			}
		}
		if len(c) == 0 {
			g.vote(v, g.pickN(bn), "block-node")
			return
		}
		r := g.pick(c)
		b := m.blocks[r]
		var later []int
		for s := 0; s < b.slot; s++ {
			if m.epoch(s) > g.lastEpoch(v) && !m.has[nref{r, s}] {
				later = append(later, s)
			}
		}
		s := rng.Intn(b.slot)
		if len(later) > 0 {
			s = later[rng.Intn(len(later))]
		}
		g.vote(v, nref{r, s}, "nonexistent-below-block")
	}
}

// ---- justify ----

func (g *gen) newBalances() []int {
	rng := g.rng
	b := append([]int(nil), g.m.bals...)
	for i, k := 0, 1+rng.Intn(3); i < k && len(b) > 0; i++ {
		p := rng.Intn(len(b))
		old := b[p]
		for b[p] == old {
			b[p] = balVals[rng.Intn(len(balVals))]
		}
	}
	switch rng.Intn(8) {
	case 0:
		if len(b) > 0 {
			b = b[:len(b)-1]
		}
	case 1:
		b = append(b, balVals[rng.Intn(len(balVals))])
	}
	return b
}

var justifyKinds = []string{"ahead-justified-only", "ahead-both", "equal", "behind", "unknown-jroot", "unknown-froot",
	"unknown-trigger", "conflict", "j-lt-f"}

func (g *gen) opJustify(kind string, pChanged int) {
	m, rng := g.m, g.rng
	spe := m.spe
	jE, jR, fE, fR := m.jE, m.jR, m.fE, m.fR
	valid := true
	leaf := g.pickLeaf()
	ch := m.chain(leaf)
	latest := func(slot int) string {
		for _, r := range ch {
			if m.blocks[r].slot <= slot {
				return r
			}
		}
		return ch[len(ch)-1]
	}
	pickTrigger := func(from string) string {
		x := rng.Intn(100)
		idx := 0
		for i, r := range ch {
			if r == from {
				idx = i
			}
		}
		switch {
		case x < 45:
			g.st.Add("justify-trigger", "descendant")
			return ch[rng.Intn(idx+1)]
		case x < 65:
			g.st.Add("justify-trigger", "root-itself")
			return from
		case m.pin != nil:
			g.st.Add("justify-trigger", "pin-root")
			return m.pin.root
		}
		g.st.Add("justify-trigger", "leaf")
		return leaf
	}
	// pickEpoch: the next epoch, or (preferred) a close one whose start slot carries a block of the chain.
	pickEpoch := func(minE int) int {
		if g.chance(0.65) {
			var c []int
			for e := minE; e <= minE+2; e++ {
				for _, r := range ch {
					if m.blocks[r].slot == e*spe {
						c = append(c, e)
					}
				}
			}
			if len(c) > 0 {
				g.st.Add("justify-epoch", "block-at-start")
				return c[rng.Intn(len(c))]
			}
		}
		if g.chance(0.15) {
			g.st.Add("justify-epoch", "skip-one")
			return minE + 1
		}
		g.st.Add("justify-epoch", "next")
		return minE
	}
	// preSlot: make sure (mostly) that the checkpoint's node (root, epoch start slot) exists; its own
	// justified/finalized epochs are the current ones or the ones about to be set.
	preSlot := func(root string, slot int, p float64, nj, nf int) {
		b := m.blocks[root]
		if b == nil || slot > 60 || slot < b.slot || m.has[nref{root, slot}] || !g.chance(p) {
			return
		}
		if g.chance(0.5) {
			nj, nf = m.jE, m.fE
		}
		g.emit("slot", fmt.Sprintf("slot %s %d %d %d", g.rs(root), slot, nj, nf))
		g.st.Add("slot", "checkpoint-node")
		m.procSlot(root, slot)
		g.afterMut()
	}
	var trigger string
	sub := ""
	switch kind {
	case "ahead-justified-only":
		jE = pickEpoch(m.jE + 1)
		jR = latest(jE * spe)
		trigger = pickTrigger(jR)
		preSlot(jR, jE*spe, 0.5, jE, fE)
	case "ahead-both":
		fE = pickEpoch(m.fE + 1)
		start := fE * spe
		fR = latest(start)
		existed := m.has[nref{fR, start}]
		nj := m.jE + 1
		if nj < fE {
			nj = fE
		}
		preSlot(fR, start, 0.8, nj, fE)
		switch {
		case m.blocks[fR].slot == start:
			sub = "/at-block"
		case existed:
			sub = "/gap-node-existed"
		case m.has[nref{fR, start}]:
			sub = "/gap-node-added"
		default:
			sub = "/gap-node-missing"
		}
		jE = m.jE + 1
		if jE < fE {
			jE = fE
		}
		switch x := rng.Intn(10); {
		case x < 2 && m.jE >= fE:
			jE = m.jE // justified checkpoint unchanged
		case x < 6:
			jE = pickEpoch(jE)
		}
		if jE == m.jE {
			jR = m.jR
		} else {
			jR = latest(jE * spe)
			preSlot(jR, jE*spe, 0.5, jE, fE)
		}
		trigger = pickTrigger(jR)
		if m.blocks[m.fR] != nil && !m.isDesc(m.fR, fR) {
			valid = false
		}
	case "equal":
		trigger = g.pick(m.order)
	case "behind":
		if m.jE > 0 {
			jE = m.jE - 1
			jR = latest(jE * spe)
			sub = "/justified"
		}
		if m.fE > 0 && g.chance(0.5) {
			fE = m.fE - 1
			sub += "/finalized"
		}
		if sub == "" {
			kind = "equal"
		}
		trigger = g.pick(m.order)
	case "unknown-jroot":
		jE = m.jE + 1
		jR = g.stranger()
		trigger = leaf
		if m.pin != nil && g.chance(0.5) {
			trigger = m.pin.root
		}
		valid = false
	case "unknown-froot":
		fE = m.fE + 1
		jE = m.jE + 1
		if jE < fE {
			jE = fE
		}
		jR = latest(jE * spe)
		fR = g.stranger()
		trigger = pickTrigger(jR)
		valid = false
	case "unknown-trigger":
		jE = m.jE + 1
		jR = latest(jE * spe)
		trigger = g.stranger()
		valid = m.pin == nil
	case "j-lt-f":
		fE, jE = m.jE+2, m.jE+1
		fR, jR = latest(fE*spe), latest(jE*spe)
		trigger = pickTrigger(jR)
		valid = false
	case "conflict":
		valid = false
		var outside, offPin []string
		for _, r := range m.order {
			if m.blocks[m.fR] != nil && !m.isDesc(m.fR, r) {
				outside = append(outside, r)
			}
			if m.pin != nil && m.blocks[m.pin.root] != nil && !m.isDesc(m.pin.root, r) {
				offPin = append(offPin, r)
			}
		}
		var forked *blk
		for _, r := range m.order {
			if len(m.liveKids(m.blocks[r])) >= 2 {
				forked = m.blocks[r]
			}
		}
		switch {
		case len(outside) > 0 && g.chance(0.6):
			sub = "/froot-outside-finalized"
			fE = m.fE + 1
			fR = g.pick(outside)
			jE = m.jE + 1
			if jE < fE {
				jE = fE
			}
			jR, trigger = fR, fR
		case len(offPin) > 0 && g.chance(0.7):
			sub = "/trigger-off-pin"
			jE = m.jE + 1
			jR = latest(jE * spe)
			trigger = g.pick(offPin)
		case forked != nil && g.chance(0.7):
			sub = "/pin-then-trigger-off-pin"
			ks := m.liveKids(forked)
			i := rng.Intn(len(ks))
			k1, k2 := ks[i], ks[(i+1)%len(ks)]
			g.emit("pin", fmt.Sprintf("pin %s %d", g.rs(k1), m.blocks[k1].slot))
			g.st.Add("pin", "for-conflict")
			m.pin = &nref{k1, m.blocks[k1].slot}
			g.afterMut()
			jE = m.jE + 1
			jR = latest(jE * spe)
			trigger = k2
		default:
			sub = "/jroot-above-froot"
			fE = m.fE + 1
			fR = latest(fE * spe)
			preSlot(fR, fE*spe, 0.8, m.jE+1, fE)
			jE = m.jE + 1
			if jE <= fE {
				jE = fE + 1
			}
			jR = ch[len(ch)-1]
			if jR == fR {
				// a chain of one block: cannot conflict, fall back to an unknown root
				jR = g.pick(strangers)
			}
			trigger = pickTrigger(fR)
		}
	}
	if (kind == "ahead-justified-only" || kind == "ahead-both") && g.chance(0.7) {
		// The realistic history: the update is triggered by a fresh block whose state carries the new
		// checkpoints, so that block (and what is built on it later) stays viable for the head.
		if un := m.unused(); len(un) > 0 {
			t := g.pick(un)
			slot := m.blocks[leaf].slot + 1 + rng.Intn(2)
			g.emit("block", fmt.Sprintf("block %s %s %d %d %d", g.rs(leaf), g.rs(t), slot, jE, fE))
			g.st.Add("block", "justify-trigger")
			m.procBlock(leaf, t, slot, jE, fE)
			g.afterMut()
			trigger = t
			g.st.Add("justify-trigger", "fresh-block")
		}
	}
	g.st.Add("justify", kind+sub)
	tok := ""
	nb := m.bals
	switch x := rng.Intn(100); {
	case x < pChanged:
		nb = g.newBalances()
		tok = balStr(nb)
		g.st.Add("justify-balances", "changed")
	case x < pChanged+(100-pChanged)*2/3:
		tok = balStr(nb)
		g.st.Add("justify-balances", "same")
	default:
		tok = "fail"
		valid = false
		g.st.Add("justify-balances", "fail")
	}
	finalizing := fE != m.fE || fR != m.fR
	if finalizing {
		g.finalizes = true
		if g.sinkKind == "fail" && g.sinkK < 0 {
			est := m.index(nref{fR, fE * spe})
			if est < 0 {
				est = rng.Intn(5)
			}
			k := est + []int{-2, -1, -1, 0, 0, 1, 3}[rng.Intn(7)]
			if k < 0 {
				k = 0
			}
			g.sinkK = k
		}
	}
	g.emit("justify", fmt.Sprintf("justify %s %d %s %d %s %s", g.rs(trigger), jE, g.rs(jR), fE, g.rs(fR), tok))
	// the live node set right after every update: what was (not) pruned shows at once
	g.emit("nodes", "nodes")
	if valid && (jE > m.jE || fE > m.fE) {
		m.jE, m.jR, m.fE, m.fR, m.bals = jE, jR, fE, fR, nb
		if finalizing {
			m.pin = nil
			m.prune(fR, fE*spe)
		}
	}
	g.afterMut()
}

// ---- pin ----

func (g *gen) opPin() {
	m, rng := g.m, g.rng
	kind := []string{"block-node", "gap-node", "beyond-chain", "unknown-root", "below-block", "tree-root"}[g.wpick(30, 18, 12, 8, 8, 24)]
	gn := m.gapNodes()
	if kind == "gap-node" && len(gn) == 0 {
		kind = "block-node"
	}
	var n nref
	switch kind {
	case "block-node":
		n = g.pickN(m.blockNodes())
	case "gap-node":
		n = g.pickN(gn)
	case "tree-root":
		// back to the first block the generator knows of (a pin on a gap-slot node freezes the head)
		n = nref{m.order[0], m.blocks[m.order[0]].slot}
	case "beyond-chain":
		r := g.pick(m.order)
		n = nref{r, m.blocks[r].max + 1 + rng.Intn(3)}
	case "unknown-root":
		n = nref{g.stranger(), rng.Intn(20)}
	case "below-block":
		r := g.pick(m.order)
		s := m.blocks[r].slot
		if s > 0 {
			s = rng.Intn(s)
		} else {
			kind = "block-node"
		}
		n = nref{r, s}
	}
	g.st.Add("pin", kind)
	g.emit("pin", fmt.Sprintf("pin %s %d", g.rs(n.root), n.slot))
	if m.has[n] {
		m.pin = &nref{n.root, n.slot}
	}
	g.afterMut()
}

// ---- queries ----

// anchorNode picks a (root, slot) to query; returns a label for the stats.
func (g *gen) anchorNode() (nref, string) {
	m, rng := g.m, g.rng
	gn := m.gapNodes()
	switch x := rng.Intn(100); {
	case x < 36:
		return g.pickN(m.blockNodes()), "block-node"
	case x < 58 && len(gn) > 0:
		return g.pickN(gn), "gap-node"
	case x < 66:
		return g.pickN(m.arr), "any-node"
	case x < 76:
		return nref{g.stranger(), rng.Intn(41)}, "unknown-root"
	case x < 86:
		r := g.pick(m.order)
		if s := m.blocks[r].slot; s > 0 {
			return nref{r, rng.Intn(s)}, "slot-before-block"
		}
		return nref{r, 0}, "block-node"
	case x < 96:
		r := g.pick(m.order)
		return nref{r, m.blocks[r].max + 1 + rng.Intn(5)}, "slot-after-last"
	default:
		return nref{g.pick(pool), rng.Intn(41)}, "random"
	}
}

// farSlot is a query slot at the far end of the uint64 range: MaxUint64, MaxUint64-1, 2^63, 2^63±1, and
// 2^64 - k for small k around the slot of the anchor (where min+max wraps in a careless midpoint).
func (g *gen) farSlot(near int) uint64 {
	max := ^uint64(0)
	switch g.rng.Intn(8) {
	case 0, 1:
		return max
	case 2:
		return max - 1
	case 3:
		return 1 << 63
	case 4:
		return 1<<63 - 1
	case 5:
		return 1<<63 + 1
	default:
		return max - uint64(g.rng.Intn(near+3))
	}
}

var queryKinds = []string{"chain", "closest", "canonat0", "canonat1", "getslot", "insub", "search", "findhead", "nodes", "head", "just", "fin", "pinq"}

func (g *gen) opQuery(kind string) {
	m, rng := g.m, g.rng
	n, label := g.anchorNode()
	rootTok := func() string {
		switch x := rng.Intn(10); {
		case x < 7:
			return g.pick(m.order)
		case x < 8:
			return g.pick(pool)
		}
		return g.stranger()
	}
	q := func(line string) {
		g.st.Add("query", kind)
		g.emit(strings.Fields(line)[0], line)
	}
	switch kind {
	case "chain", "closest", "findhead":
		g.st.Add("query-anchor", label)
		if g.chance(0.12) {
			g.st.Add("query-anchor", "far-slot")
			q(fmt.Sprintf("%s %s %d", kind, g.rs(n.root), g.farSlot(n.slot)))
			return
		}
		q(fmt.Sprintf("%s %s %d", kind, g.rs(n.root), n.slot))
	case "canonat0", "canonat1":
		g.st.Add("query-anchor", label)
		if g.chance(0.08) {
			g.st.Add("query-anchor", "far-slot")
			q(fmt.Sprintf("canonat %s %d %s", g.rs(n.root), g.farSlot(n.slot), kind[7:]))
			return
		}
		// the anchor of canonat is a root; the slot is a free target
		s := n.slot
		if g.chance(0.5) {
			s = rng.Intn(41)
		}
		q(fmt.Sprintf("canonat %s %d %s", g.rs(n.root), s, kind[7:]))
	case "getslot":
		q("getslot " + g.rs(rootTok()))
	case "insub":
		q(fmt.Sprintf("insub %s %s", g.rs(rootTok()), g.rs(rootTok())))
	case "search":
		g.st.Add("query-anchor", label)
		p, s := "-", "-"
		combo := rng.Intn(4)
		if combo&1 == 1 {
			p = g.rs(rootTok())
			if in := m.inner(); len(in) > 0 && g.chance(0.6) {
				p = g.rs(g.pick(in))
			}
		}
		if combo&2 == 2 {
			s = strconv.Itoa(m.blocks[g.pick(m.order)].slot)
			if g.chance(0.25) {
				s = strconv.Itoa(rng.Intn(41))
			}
		}
		g.st.Add("search-options", []string{"none", "parent", "slot", "parent+slot"}[combo])
		q(fmt.Sprintf("search %s %d %s %s", g.rs(n.root), n.slot, p, s))
	default: // nodes head just fin pinq
		q(kind)
	}
}

func (g *gen) someQuery() {
	g.opQuery(queryKinds[g.wpick(12, 12, 10, 10, 7, 9, 16, 12, 4, 3, 1, 1, 2)])
}

// insubSweep: insub over all ordered pairs (equal ones included) of a few known and unknown roots.
func (g *gen) insubSweep() {
	m := g.m
	var roots []string
	perm := g.rng.Perm(len(m.order))
	for i := 0; i < len(perm) && i < 3; i++ {
		roots = append(roots, m.order[perm[i]])
	}
	small := g.chance(0.5)
	if small && len(roots) > 2 {
		roots = roots[:2]
	}
	// siblings are the interesting pair
	for _, r := range m.order {
		if ks := m.liveKids(m.blocks[r]); len(ks) >= 2 && g.chance(0.7) {
			if small {
				roots = []string{ks[0], ks[1]}
			} else {
				roots = append(roots[:1], ks[0], ks[1])
			}
			break
		}
	}
	roots = append(roots, g.stranger())
	for _, a := range roots {
		for _, b := range roots {
			g.st.Add("query", "insub-pairs")
			g.emit("insub", fmt.Sprintf("insub %s %s", g.rs(a), g.rs(b)))
		}
	}
}

// buildOp: one tree-building / voting op with the given weights (block, slot, att, pin).
func (g *gen) buildOp(wBlock, wSlot, wAtt, wPin int) {
	switch g.wpick(wBlock, wSlot, wAtt, wPin) {
	case 0:
		if len(g.m.unused()) <= g.reserve && g.chance(0.75) {
			// (nearly) out of fresh roots: vote instead of piling up rejected blocks
			g.opAtt()
			return
		}
		g.opBlock()
	case 1:
		g.opSlot()
	case 2:
		g.opAtt()
	case 3:
		g.opPin()
	}
}

// ---- profiles ----

func (g *gen) failedInitTail() {
	// the init was meant to fail: everything after it must answer `noinit`
	for _, l := range []string{"head", "block 01 02 1 0 0", "nodes", "just"} {
		g.emit(strings.Fields(l)[0], l)
	}
}

func (g *gen) seqFc09(maxLines int) {
	g.begin("random")
	g.headP = 1
	if !g.opInit(40, 40, 20) {
		g.failedInitTail()
		g.flush()
		return
	}
	g.emit("head", "head")
	g.reserve = 0
	target := 8 + g.rng.Intn(maxLines-8+1)
	// where the justify ops go (never early: on a tree where an effective justify kills the instance the
	// first part of the sequence still exercises head after block/att)
	var jpos []int
	var jkind []string
	if g.chance(0.5) {
		n := 1 + g.rng.Intn(2)
		fin := g.chance(0.2) // ~10% of all sequences
		for i := 0; i < n; i++ {
			jpos = append(jpos, target*35/100+g.rng.Intn(target*55/100+1))
			k := "ahead-justified-only"
			if g.chance(0.15) {
				k = []string{"equal", "behind", "unknown-trigger", "unknown-jroot", "j-lt-f", "conflict"}[g.rng.Intn(6)]
			}
			jkind = append(jkind, k)
		}
		if fin {
			jkind[g.rng.Intn(n)] = "ahead-both"
		}
		sort.Ints(jpos)
		g.reserve = n
	}
	for len(g.seq) < target {
		if len(jpos) > 0 && len(g.seq) >= jpos[0] {
			g.opJustify(jkind[0], 70)
			g.reserve--
			jpos, jkind = jpos[1:], jkind[1:]
			continue
		}
		if g.chance(0.003) {
			// an init in the middle of a sequence replaces the instance
			g.st.Add("init", "re-init")
			if !g.opInit(40, 40, 20) {
				g.failedInitTail()
				break
			}
			g.emit("head", "head")
			continue
		}
		switch x := g.rng.Intn(100); {
		case x < 93:
			g.buildOp(38, 8, 42, 5)
		default:
			g.opQuery("findhead")
		}
	}
	g.flush()
}

func (g *gen) seqFc10() {
	g.begin("random")
	g.headP = 0.25
	if !g.opInit(25, 40, 35) {
		g.failedInitTail()
		g.flush()
		return
	}
	nj := 1 + g.rng.Intn(3)
	g.reserve = 1 + nj
	for i, n := 0, 15+g.rng.Intn(16); i < n; i++ {
		g.buildOp(50, 8, 38, 4)
	}
	g.emit("head", "head")
	for i := 0; i < nj; i++ {
		g.reserve = nj - i
		var kind string
		if i == 0 {
			kind = []string{"ahead-both", "ahead-justified-only", "other"}[g.wpick(78, 8, 14)]
		} else {
			kind = []string{"ahead-both", "ahead-justified-only", "other"}[g.wpick(35, 20, 45)]
		}
		if kind == "other" {
			kind = justifyKinds[2+g.rng.Intn(len(justifyKinds)-2)]
		}
		g.headP = 0.25
		g.opJustify(kind, 50)
		for _, q := range []string{"nodes", "head", "just", "fin", "pinq"} {
			g.opQuery(q)
		}
		for j, n := 0, 2+g.rng.Intn(3); j < n; j++ {
			g.someQuery()
		}
		g.headP = 1
		for j, n := 0, 3+g.rng.Intn(6); j < n; j++ {
			g.buildOp(50, 6, 44, 0)
		}
	}
	g.opQuery("nodes")
	g.flush()
}

func (g *gen) seqFc11() {
	g.begin("random")
	g.headP = 0.1
	if !g.opInit(50, 40, 10) {
		g.failedInitTail()
		g.flush()
		return
	}
	n := 12 + g.rng.Intn(14)
	g.reserve = 0
	jat := -1
	if g.chance(0.15) {
		jat = n/2 + g.rng.Intn(n/2)
	}
	for i := 0; i < n; i++ {
		if i == jat {
			g.opJustify([]string{"ahead-justified-only", "ahead-both"}[g.rng.Intn(2)], 50)
			continue
		}
		g.buildOp(64, 12, 20, 4)
	}
	total := 30 + g.rng.Intn(31)
	start := len(g.seq)
	sweepAt := start + g.rng.Intn(total)
	swept := false
	for len(g.seq)-start < total {
		if !swept && len(g.seq) >= sweepAt {
			g.insubSweep()
			swept = true
			continue
		}
		g.someQuery()
	}
	g.flush()
}

// ---- hand-written sequences ----

func (g *gen) fixed(label string, lines ...string) {
	g.begin(label)
	for _, l := range lines {
		g.emit(strings.Fields(l)[0], l)
	}
	g.flush()
}

func (g *gen) handWritten() {
	// The scenario of fctest/lighthouse.go (mainnet slots per epoch and balances), with pool roots:
	// anchor 10 (its own parent, as the repo's test does), block 02 at slot 2, late block 01 at slot 1.
	g.fixed("hand/lighthouse",
		"init 32 10 0 10 0 10 0 10 nil 32000000000,32000000000",
		"head",
		"block 10 02 2 0 0", "head",
		"block 10 01 1 0 0", "head",
		"att 0 02 2", "head",
		"att 1 01 1", "head",
		"chain 10 0", "search 10 0 - -", "nodes")
	g.fixed("hand/lighthouse-rec",
		"init 4 10 0 00 0 10 0 10 rec 32,32",
		"head",
		"block 10 02 2 0 0", "head",
		"block 10 01 1 0 0", "head",
		"att 0 01 1", "head",
		"att 1 01 1", "head",
		"att 0 02 2", "head",
		"att 0 02 4", "head", "nodes")
	// sibling leaves: neither is in the other's subtree
	g.fixed("hand/siblings-insub",
		"init 4 01 0 00 0 01 0 01 rec 32,32",
		"block 01 02 1 0 0", "block 01 ff 1 0 0", "head",
		"insub 02 ff", "insub ff 02", "insub 01 02", "insub 01 ff", "insub 02 01", "insub 02 02",
		"insub 02 de", "insub de 02", "insub de de", "insub 00 00",
		// a third sibling leaf at a later slot
		"block 01 80 2 0 0", "head", "insub 02 80", "insub ff 80", "insub 80 02", "insub 80 ff", "insub 01 80",
		"block 02 0201 2 0 0", "block ff fe 2 0 0",
		"insub 02 fe", "insub ff 0201", "insub 0201 fe", "insub fe 0201", "insub 02 0201", "insub ff fe",
		"search 01 0 - -", "search 01 0 01 -", "search 01 0 - 2", "search 01 0 02 2", "search 02 1 - -", "nodes")
	// a vote for a gap-slot node (slot after the block's slot)
	g.fixed("hand/vote-gap-slot",
		"init 4 01 0 00 0 01 0 01 nil 32,32,32",
		"block 01 02 1 0 0", "block 01 ff 1 0 0", "head",
		"slot 02 6 0 0", "head",
		"att 0 02 5", "head",
		"att 1 ff 1", "head",
		"att 2 ff 1", "head",
		"att 0 02 9", "head",
		"att 1 02 6", "head", "chain 01 0", "nodes")
	// a vote below the block's slot, in a later epoch than the validator's previous vote
	g.fixed("hand/vote-below-block-slot",
		"init 2 01 0 00 0 01 0 01 nil 32,32,32",
		"block 01 02 5 0 0", "block 01 ff 1 0 0", "head",
		"att 0 ff 1", "head",
		"att 0 02 2", "head", "head",
		"att 1 02 5", "head",
		"att 2 ff 1", "head", "head",
		"att 1 ff 1", "head",
		"att 2 02 5", "head", "head", "findhead 01 0", "chain 01 0")
	// justify ahead twice (trigger = pin root, then a descendant)
	g.fixed("hand/justify-ahead-twice",
		"init 4 01 0 00 0 01 0 01 rec 32,32",
		"block 01 02 1 0 0", "block 02 0201 4 1 0", "block 0201 ff 8 2 0", "block 0201 fe 5 1 0", "head",
		"att 0 ff 8", "att 1 fe 5", "head",
		"justify 01 1 0201 0 01 32,33", "head", "just", "fin", "pinq",
		"justify ff 2 ff 0 01 1,33", "head", "just", "fin", "pinq", "nodes",
		"justify ff 2 ff 0 01 1,33", "justify 01 1 0201 0 01 32,32", "head", "just")
	// finalization with a recording sink, then more activity
	g.fixed("hand/finalize-rec",
		"init 4 01 0 00 0 01 0 01 rec 32,32,32",
		"block 01 02 1 0 0", "block 01 ff 2 0 0", "block 02 0201 4 0 0", "block 0201 fe 5 1 1", "block ff 80 3 0 0", "head",
		"att 0 fe 5", "att 1 80 3", "att 2 0201 4", "head", "nodes",
		"justify fe 1 0201 1 0201 32,32,33", "head", "nodes", "just", "fin", "pinq",
		"block fe 7f 6 1 1", "att 1 7f 6", "head", "chain 0201 4", "getslot 01", "getslot 02", "getslot 0201", "insub 0201 7f")
	// the same with a sink that fails at once, after two calls, and with no sink at all
	for _, sink := range []string{"fail0", "fail2", "nil"} {
		g.fixed("hand/finalize-"+sink,
			"init 4 01 0 00 0 01 0 01 "+sink+" 32,32,32",
			"block 01 02 1 0 0", "block 01 ff 2 0 0", "block 02 0201 4 0 0", "block 0201 fe 5 1 1", "head",
			"att 0 fe 5", "att 1 ff 2", "head", "nodes",
			"justify fe 1 0201 1 0201 32,32,33", "head", "nodes", "just", "fin", "pinq",
			"justify fe 1 0201 1 0201 32,32,33", "nodes",
			"block fe 7f 6 1 1", "att 1 7f 6", "head", "getslot 01", "getslot 0201")
	}
	// finalization at a gap-slot position (the finalized root's block is before the epoch start slot)
	g.fixed("hand/finalize-gap-position",
		"init 4 01 0 00 0 01 0 01 rec 32,32",
		"block 01 02 2 0 0", "block 02 ff 6 0 0", "block 02 fe 3 0 0", "slot 02 4 0 0", "head", "nodes",
		"justify ff 1 02 1 02 32,32", "head", "nodes", "just", "fin", "pinq", "getslot 02", "closest 02 4", "canonat 02 4 0", "canonat 02 6 1")
	// init variants: failing init, re-init replacing a live instance
	g.fixed("hand/init-variants",
		"init 4 01 4 01 0 01 1 01 rec 32",
		"head", "nodes",
		"init 4 01 4 01 1 01 1 01 rec 32",
		"head", "just", "fin", "pinq", "block 01 02 5 1 1", "head",
		"init 8 ff 3 7f 0 ff 0 ff fail1 -",
		"head", "nodes", "getslot 01", "getslot ff", "canonat ff 3 0", "canonat ff 3 1", "closest ff 2", "chain ff 3",
		"init 4 01 0 00 0 01 1 01 nil 32",
		"head")
	// double proposal, tie-break by root, gaps, and the view queries
	g.fixed("hand/double-proposal-view",
		"init 4 10 0 10 0 10 0 10 nil 32,32",
		"block 10 7f 3 0 0", "block 10 80 3 0 0", "head",
		"block 80 aa000000000000000000000000000000000000000000000000000000000001 6 0 0",
		"block 80 aa000000000000000000000000000000000000000000000000000000000002 6 0 0", "head",
		"canonat 10 0 0", "canonat 10 0 1", "canonat 10 1 0", "canonat 10 1 1", "canonat 10 3 0", "canonat 10 3 1",
		"canonat 10 5 0", "canonat 10 5 1", "canonat 10 6 1", "canonat 10 9 1", "canonat 80 3 0", "canonat 80 2 1",
		"closest 10 0", "closest 10 2", "closest 10 3", "closest 10 7", "closest 80 5", "closest 80 2", "closest de 1",
		"chain 10 0", "chain 10 2", "chain 80 3", "chain 7f 3", "chain 10 9",
		"att 0 7f 3", "att 1 7f 3", "head", "chain 10 0", "search 10 0 - -", "search 10 0 10 -", "search 10 0 80 6", "search 10 0 - 3",
		"findhead 80 3", "findhead 80 4", "findhead 7f 3", "findhead 10 1", "getslot aa", "nodes")
	// pin on one fork; justification triggered from the other fork; bad pins
	g.fixed("hand/pin",
		"init 4 01 0 00 0 01 0 01 rec 32,32",
		"block 01 02 1 0 0", "block 01 ff 1 0 0", "block 02 0201 5 0 0", "block ff fe 4 0 0", "head", "pinq",
		"att 0 fe 4", "att 1 fe 4", "head",
		"pin 02 1", "pinq", "head",
		"pin 02 3", "pinq", "head",
		"pin 02 9", "pin de 1", "pin 02 0", "pinq",
		"justify fe 1 fe 0 01 32,32", "just", "head",
		"justify 0201 1 02 0 01 32,32", "just", "head", "pinq")
	// anchor above slot 0 that is its own parent; validators beyond the balances; long balances
	g.fixed("hand/late-anchor-balances",
		"init 3 fe 5 fe 0 fe 0 fe nil 33",
		"head", "canonat fe 5 0", "canonat fe 5 1", "canonat fe 4 0", "closest fe 4", "chain fe 5", "chain fe 4", "findhead fe 4",
		"block fe 02 6 0 0", "block fe 01 6 0 0", "head",
		"att 5 01 6", "head", "att 0 01 6", "head", "att 12 02 6", "head",
		"slot fe 2 0 0", "nodes", "head", "closest fe 2", "getslot fe",
		"init 3 fe 5 00 0 fe 0 fe nil 0,0,0,0,0,0,0,0,1",
		"canonat fe 5 0", "block fe 02 6 0 0", "block fe 01 6 0 0", "att 8 01 6", "head", "att 0 02 9", "head")
}

// ---- bounded-exhaustive family (fc09, thorough) ----

type exState struct {
	blocks []nref // block nodes in insertion order (root, slot)
	nodes  []nref
	jE     int
}

func (g *gen) exhaustive(depth int) {
	const anchor = "02"
	alphabet := []string{"02", "01", "ff"}
	initLine := "init 2 02 0 00 0 02 0 02 rec 32,33"
	var rec func(s exState, ops []string)
	rec = func(s exState, ops []string) {
		if len(ops) == depth {
			g.begin("exhaustive")
			g.emit("init", initLine)
			g.emit("head", "head")
			for _, l := range ops {
				g.emit(strings.Fields(l)[0], l)
				g.emit("head", "head")
			}
			g.flush()
			return
		}
		known := map[string]bool{}
		for _, b := range s.blocks {
			known[b.root] = true
		}
		has := map[nref]bool{}
		for _, n := range s.nodes {
			has[n] = true
		}
		for _, p := range s.blocks {
			for _, r := range alphabet {
				if known[r] {
					continue
				}
				ns := exState{jE: s.jE}
				ns.blocks = append(append([]nref(nil), s.blocks...), nref{r, p.slot + 1})
				ns.nodes = append([]nref(nil), s.nodes...)
				if !has[nref{p.root, p.slot + 1}] {
					ns.nodes = append(ns.nodes, nref{p.root, p.slot + 1})
				}
				ns.nodes = append(ns.nodes, nref{r, p.slot + 1})
				rec(ns, append(ops[:len(ops):len(ops)], fmt.Sprintf("block %s %s %d %d 0", p.root, r, p.slot+1, s.jE)))
			}
		}
		for _, n := range s.nodes {
			for v := 0; v < 2; v++ {
				rec(s, append(ops[:len(ops):len(ops)], fmt.Sprintf("att %d %s %d", v, n.root, n.slot)))
			}
		}
		ns := s
		ns.jE = s.jE + 1
		rec(ns, append(ops[:len(ops):len(ops)], fmt.Sprintf("justify %s %d %s 0 %s 33,32", anchor, s.jE+1, anchor, anchor)))
	}
	rec(exState{blocks: []nref{{anchor, 0}}, nodes: []nref{{anchor, 0}}}, nil)
}

// ---- malformed stream ----

func (g *gen) malformed() {
	long66 := strings.Repeat("ab", 33)
	g.begin("malformed")
	for _, l := range []string{
		"head", "block 01 02 1 0 0", "nodes", "justify 01 1 01 0 01 -", // noinit
		"foo", "HEAD", "Nodes", "0", "-", "resetx", "init",
		"init 4 01 0 00 0 01 0 01 nil",
		"init 4 01 0 00 0 01 0 01 nil - -",
		"init 0 01 0 00 0 01 0 01 nil -",
		"init 65 01 0 00 0 01 0 01 nil -",
		"init 4 01 1001 00 0 01 0 01 nil -",
		"init 4 01 0 00 1001 01 0 01 nil -",
		"init 4 0g 0 00 0 01 0 01 nil -",
		"init 4 01 0 00 0 01 0 01 fail1001 -",
		"init 4 01 0 00 0 01 0 01 fail -",
		"init 4 01 0 00 0 01 0 01 fail-1 -",
		"init 4 01 0 00 0 01 0 01 Rec -",
		"init 4 01 0 00 0 01 0 01 nil 1,,2",
		"init 4 01 0 00 0 01 0 01 nil 1,2,",
		"init 4 01 0 00 0 01 0 01 nil ,1",
		"init 4 01 0 00 0 01 0 01 nil 1234567890123",
		"init 4 01 0 00 0 01 0 01 nil fail",
		"init 4 01 0 00 0 01 0 01 nil 1;2",
		"head", // still noinit
		"init 4 01 0 00 0 01 0 01 rec 32,999999999999",
		"block 01 02 1 0", "block 01 02 1 0 0 0",
		"block 01 2 1 0 0", "block 01 020 1 0 0", "block 01 0x 1 0 0", "block 01 AB 1 0 0", "block 01 0xab 1 0 0",
		"block 01 " + long66 + " 1 0 0",
		"block 01 02 -1 0 0", "block 01 02 +1 0 0", "block 01 02 1.0 0 0", "block 01 02 1e2 0 0",
		"block 01 02 12345678 0 0", "block 01 02 99999999999999999999 0 0", "block 01 02 1001 0 0",
		"block 01 02 1 1001 0", "block 01 02 1 0 9999999",
		"slot 01 1 0", "slot 01 x 0 0",
		"att 64 01 0", "att 0 01", "att x 01 0", "att -1 01 0",
		"canonat 01 0 2", "canonat 01 0 true", "canonat 01 0",
		"search 01 0 -", "search 01 0 -- -", "search 01 0 - x", "search - 0 - -",
		"justify 01 1 01 0 01 FAIL", "justify 01 1 01 0 01", "justify 01 1 01 0 01 1,2,x",
		"getslot", "getslot 0x01", "getslot -", "insub 01", "pin 01", "pin 01 1 1", "head 1", "just now", "nodes all",
		"nodes", "head", // nothing above changed the state
		"att 007 0100 000", "head", // leading zeros and a non-canonical root spelling are legal
		"getslot 0100000000000000000000000000000000000000000000000000000000000000",
		"init 4 01 0 00 1 01 2 01 nil -", // err: the instance is gone
		"head",
	} {
		k := strings.Fields(l)[0]
		if _, ok := grammar[k]; !ok {
			k = "garbage"
		}
		g.st.Add("malformed", k)
		g.seq = append(g.seq, l)
	}
	g.flush()
}

// seqViability: viability changes together with weight changes. A small tree whose nodes carry mixed
// justified epochs (all of them viable while the store is at the genesis epoch), votes spread over the
// forks, then justified-only updates (finalized unchanged, so nothing is pruned) to an epoch that makes only
// part of the tree viable, each with a re-drawn balance vector so that the weight order of siblings flips in
// the same pass that changes viability. Head from the pin and from every block node after each step.
func (g *gen) seqViability() {
	rng := g.rng
	g.begin("viability")
	spe := []int{2, 4, 4, 8}[rng.Intn(4)]
	roots := append([]string(nil), pool...)
	rng.Shuffle(len(roots), func(i, j int) { roots[i], roots[j] = roots[j], roots[i] })
	nv := 3 + rng.Intn(5)
	bals := make([]int, nv)
	for i := range bals {
		bals[i] = balVals[rng.Intn(len(balVals))]
	}
	anchor := roots[0]
	g.emit("init", fmt.Sprintf("init %d %s 0 00 0 %s 0 %s nil %s", spe, anchor, anchor, anchor, balStr(bals)))
	g.st.Add("init", "viability")
	type vb struct {
		root string
		slot int
	}
	blocks := []vb{{anchor, 0}}
	nb := 3 + rng.Intn(6)
	maxE := 1 + rng.Intn(2)
	for i := 1; i <= nb && i < len(roots); i++ {
		p := blocks[rng.Intn(len(blocks))]
		if rng.Intn(3) == 0 {
			p = blocks[len(blocks)-1]
		}
		slot := p.slot + 1 + rng.Intn(3)
		jE := rng.Intn(maxE + 1)
		fE := 0
		if rng.Intn(8) == 0 {
			fE = rng.Intn(2)
		}
		g.emit("block", fmt.Sprintf("block %s %s %d %d %d", p.root, roots[i], slot, jE, fE))
		g.st.Add("block", "viability")
		g.st.Add("node-epochs", fmt.Sprintf("viab-j%d-f%d", jE, fE))
		blocks = append(blocks, vb{roots[i], slot})
		if rng.Intn(4) == 0 {
			g.emit("slot", fmt.Sprintf("slot %s %d %d %d", roots[i], slot+1+rng.Intn(2), rng.Intn(maxE+1), 0))
		}
	}
	lastE := make([]int, nv)
	for i := range lastE {
		lastE[i] = -1
	}
	votes := func(n int) {
		for i := 0; i < n; i++ {
			v := rng.Intn(nv)
			b := blocks[rng.Intn(len(blocks))]
			g.emit("att", fmt.Sprintf("att %d %s %d", v, b.root, b.slot))
			if b.slot/spe > lastE[v] {
				lastE[v] = b.slot / spe
				g.st.Add("vote", "viability-new")
			} else {
				g.st.Add("vote", "viability-stale")
			}
		}
	}
	sweep := func() {
		g.emit("head", "head")
		for _, b := range blocks {
			if rng.Intn(2) == 0 {
				g.emit("findhead", fmt.Sprintf("findhead %s %d", b.root, b.slot))
			}
		}
	}
	votes(nv + rng.Intn(4))
	sweep()
	jE := 0
	for round, n := 0, 1+rng.Intn(3); round < n; round++ {
		jE += 1 + rng.Intn(2)/1*rng.Intn(2)
		nbals := make([]int, nv)
		for i := range nbals {
			nbals[i] = balVals[rng.Intn(len(balVals))]
		}
		if rng.Intn(3) == 0 {
			rng.Shuffle(len(nbals), func(i, j int) { nbals[i], nbals[j] = nbals[j], nbals[i] })
		}
		// justified root: the anchor (always inside the finalized subtree); trigger = pin root
		g.emit("justify", fmt.Sprintf("justify %s %d %s 0 %s %s", anchor, jE, anchor, anchor, balStr(nbals)))
		g.st.Add("justify", "viability/justified-only-rebalance")
		g.emit("nodes", "nodes")
		sweep()
		if rng.Intn(2) == 0 {
			votes(1 + rng.Intn(3))
			sweep()
		}
		if rng.Intn(3) == 0 && len(blocks) < len(roots) {
			p := blocks[rng.Intn(len(blocks))]
			r := roots[len(blocks)]
			g.emit("block", fmt.Sprintf("block %s %s %d %d %d", p.root, r, p.slot+1+rng.Intn(2), jE, 0))
			blocks = append(blocks, vb{r, p.slot + 1})
			sweep()
		}
	}
	g.flush()
}

// ---- entry point ----

func generate(mode string, o hreg.Opts, w *bufio.Writer) error {
	g := &gen{o: o, mode: mode, rng: o.Rand(), w: w, st: o.Stats, first: true}
	g.handWritten()
	switch mode {
	case "fc09":
		if o.Thorough() {
			g.exhaustive(4)
		} else {
			g.exhaustive(2)
		}
		n, maxLines := o.Pick(3000, 60000), o.Pick(40, 120)
		for i := 0; i < n; i++ {
			if i%5 == 4 {
				g.seqViability()
			} else {
				g.seqFc09(maxLines)
			}
		}
	case "fc10":
		for i, n := 0, o.Pick(1500, 30000); i < n; i++ {
			if i%10 == 9 {
				g.seqViability()
			} else {
				g.seqFc10()
			}
		}
	case "fc11":
		for i, n := 0, o.Pick(1500, 30000); i < n; i++ {
			g.seqFc11()
		}
	}
	g.malformed()
	return nil
}
