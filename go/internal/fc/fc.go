// Package fc: differential harness component for the proto-array fork choice of zrnt
// (eth2/forkchoice and eth2/forkchoice/proto), modes fc09 / fc10 / fc11.
//
// The three modes share one executor (a stateful line protocol, sequences separated by `reset`) and
// differ only in what their generators emphasise:
//
//	fc09  head == GHOST: block/slot/att/justify/pin histories, `head` after every mutating op
//	fc10  justification / finalization / pruning / node sink: justify ops of all kinds, then inspection
//	fc11  the read-only view: chain/closest/canonat/getslot/insub/search/findhead sweeps over a built tree
//
// Line protocol: see the comment block above `grammar`. Every call into the code under test runs in its
// own goroutine with recover (=> `panic`) and a 2 s watchdog (=> `blocked`); after either the instance
// is dead and is never called again (a blocked goroutine is leaked on purpose).
//
// Sequences are independent (each `reset` drops the instance), so the executor runs them on a pool of
// workers and writes the answers in input order. The workers mostly sleep in the watchdog when the code
// under test deadlocks, therefore the pool is much larger than the number of CPUs.
package fc

import (
	"bufio"
	"bytes"
	"context"
	"encoding/hex"
	"errors"
	"fmt"
	"os"
	"sort"
	"strconv"
	"strings"
	"sync"
	"time"

	"github.com/protolambda/zrnt/eth2/beacon/common"
	"github.com/protolambda/zrnt/eth2/forkchoice"
	"github.com/protolambda/zrnt/eth2/forkchoice/proto"

	"verifharness/internal/hreg"
)

func init() {
	for _, name := range []string{"fc09", "fc10", "fc11"} {
		name := name
		hreg.Register(&hreg.Mode{
			Name: name,
			Gen:  func(o hreg.Opts, w *bufio.Writer) error { return generate(name, o, w) },
			Exec: exec,
		})
	}
}

const watchdog = 2 * time.Second

// Bounds of the protocol.
const (
	maxSlotEpoch = 1000
	maxSpe       = 64
	maxValidator = 63
	maxSinkK     = 1000
)

// grammar: op name -> one letter per argument token.
//
//	n  slot or epoch        decimal ^[0-9]{1,7}$, <= 1000
//	p  slots per epoch      decimal, 1..64
//	v  validator index      decimal, <= 63
//	r  root                 ^([0-9a-f]{2}){1,32}$, leading bytes of the root
//	R  root or `-`
//	N  slot or `-`
//	q  query slot           ^[0-9]{1,20}$, any uint64 (queries only: nothing is inserted at it)
//	z  `0` or `1`
//	k  sink                 nil | rec | fail<k>, k <= 1000
//	b  balances             `-` or comma separated ^[0-9]{1,12}$
//	B  balances or `fail`
var grammar = map[string]string{
	"init":     "prnrnrnrkb",
	"slot":     "rnnn",
	"block":    "rrnnn",
	"att":      "vrn",
	"justify":  "rnrnrB",
	"pin":      "rn",
	"head":     "",
	"findhead": "rq",
	"chain":    "rq",
	"closest":  "rq",
	"canonat":  "rqz",
	"getslot":  "r",
	"insub":    "rr",
	"search":   "rqRN",
	"just":     "",
	"fin":      "",
	"pinq":     "",
	"nodes":    "",
}

// val is one parsed argument token.
type val struct {
	n    uint64
	r    common.Root
	none bool // `-` for R/N, `fail` for B, `nil` for k
	rec  bool // k: rec
	bals []common.Gwei
}

type op struct {
	kind string
	a    []val
}

func parseNum(s string, digits int, max uint64) (uint64, bool) {
	if len(s) < 1 || len(s) > digits {
		return 0, false
	}
	var v uint64
	for i := 0; i < len(s); i++ {
		c := s[i]
		if c < '0' || c > '9' {
			return 0, false
		}
		v = v*10 + uint64(c-'0')
	}
	if v > max {
		return 0, false
	}
	return v, true
}

// parseU64 accepts 1..20 decimal digits whose value fits in a uint64.
func parseU64(s string) (uint64, bool) {
	if len(s) < 1 || len(s) > 20 {
		return 0, false
	}
	var v uint64
	for i := 0; i < len(s); i++ {
		c := s[i]
		if c < '0' || c > '9' {
			return 0, false
		}
		d := uint64(c - '0')
		if v > (^uint64(0)-d)/10 {
			return 0, false
		}
		v = v*10 + d
	}
	return v, true
}

func parseRoot(s string) (r common.Root, ok bool) {
	if len(s) < 2 || len(s) > 64 || len(s)%2 != 0 {
		return r, false
	}
	for i := 0; i < len(s); i++ {
		c := s[i]
		if !(c >= '0' && c <= '9' || c >= 'a' && c <= 'f') {
			return r, false
		}
	}
	b, err := hex.DecodeString(s)
	if err != nil {
		return r, false
	}
	copy(r[:], b)
	return r, true
}

func parseBalances(s string) ([]common.Gwei, bool) {
	if s == "-" {
		return nil, true
	}
	parts := strings.Split(s, ",")
	out := make([]common.Gwei, 0, len(parts))
	for _, p := range parts {
		v, ok := parseNum(p, 12, ^uint64(0))
		if !ok {
			return nil, false
		}
		out = append(out, common.Gwei(v))
	}
	return out, true
}

// parse returns nil for an unparsable line.
func parse(line string) *op {
	tok := strings.Split(line, " ")
	g, ok := grammar[tok[0]]
	if !ok || len(tok) != len(g)+1 {
		return nil
	}
	o := &op{kind: tok[0], a: make([]val, len(g))}
	for i := 0; i < len(g); i++ {
		t := tok[i+1]
		v := &o.a[i]
		ok := false
		switch g[i] {
		case 'n':
			v.n, ok = parseNum(t, 7, maxSlotEpoch)
		case 'q':
			v.n, ok = parseU64(t)
		case 'p':
			v.n, ok = parseNum(t, 7, maxSpe)
			ok = ok && v.n >= 1
		case 'v':
			v.n, ok = parseNum(t, 7, maxValidator)
		case 'r':
			v.r, ok = parseRoot(t)
		case 'R':
			if t == "-" {
				v.none, ok = true, true
			} else {
				v.r, ok = parseRoot(t)
			}
		case 'N':
			if t == "-" {
				v.none, ok = true, true
			} else {
				v.n, ok = parseNum(t, 7, maxSlotEpoch)
			}
		case 'z':
			ok = t == "0" || t == "1"
			if t == "1" {
				v.n = 1
			}
		case 'k':
			switch {
			case t == "nil":
				v.none, ok = true, true
			case t == "rec":
				v.rec, ok = true, true
			case strings.HasPrefix(t, "fail"):
				v.n, ok = parseNum(t[4:], 7, maxSinkK)
			}
		case 'b':
			v.bals, ok = parseBalances(t)
		case 'B':
			if t == "fail" {
				v.none, ok = true, true
			} else {
				v.bals, ok = parseBalances(t)
			}
		}
		if !ok {
			return nil
		}
	}
	return o
}

// ---- canonical printing ----

func rootStr(r common.Root) string {
	n := 32
	for n > 1 && r[n-1] == 0 {
		n--
	}
	return hex.EncodeToString(r[:n])
}

func u64Str(v uint64) string { return strconv.FormatUint(v, 10) }

func refStr(n common.NodeRef) string { return rootStr(n.Root) + "@" + u64Str(uint64(n.Slot)) }

func refLess(a, b common.NodeRef) bool {
	if a.Slot != b.Slot {
		return a.Slot < b.Slot
	}
	return bytes.Compare(a.Root[:], b.Root[:]) < 0
}

func refList(refs []common.NodeRef) string {
	s := append([]common.NodeRef(nil), refs...)
	sort.SliceStable(s, func(i, j int) bool { return refLess(s[i], s[j]) })
	parts := make([]string, len(s))
	for i, r := range s {
		parts[i] = refStr(r)
	}
	return "[" + strings.Join(parts, ",") + "]"
}

// ---- node sink ----

type sinkCall struct {
	ref       common.NodeRef
	canonical bool
}

func (c sinkCall) String() string {
	if c.canonical {
		return refStr(c.ref) + ":1"
	}
	return refStr(c.ref) + ":0"
}

var errSink = errors.New("sink failure")
var errBalances = errors.New("balances failure")

// recSink records the calls of the current justify op. Call number failAt (0-based, counted from the
// start of the op) returns an error; every other call returns nil and is recorded.
// The mutex only protects against a leaked (blocked, then late) goroutine of a dead instance.
type recSink struct {
	mu     sync.Mutex
	failAt int // -1: never
	n      int
	ok     []sinkCall
	failed *sinkCall
}

func (s *recSink) OnPrunedNode(ctx context.Context, ref common.NodeRef, canonical bool) error {
	s.mu.Lock()
	defer s.mu.Unlock()
	i := s.n
	s.n++
	if i == s.failAt {
		s.failed = &sinkCall{ref, canonical}
		return errSink
	}
	s.ok = append(s.ok, sinkCall{ref, canonical})
	return nil
}

func (s *recSink) begin() {
	if s == nil {
		return
	}
	s.mu.Lock()
	s.n, s.ok, s.failed = 0, nil, nil
	s.mu.Unlock()
}

func (s *recSink) report() string {
	if s == nil {
		return "pruned=[] failed=-"
	}
	s.mu.Lock()
	defer s.mu.Unlock()
	calls := append([]sinkCall(nil), s.ok...)
	sort.SliceStable(calls, func(i, j int) bool {
		a, b := calls[i], calls[j]
		if a.ref != b.ref {
			return refLess(a.ref, b.ref)
		}
		return !a.canonical && b.canonical
	})
	parts := make([]string, len(calls))
	for i, c := range calls {
		parts[i] = c.String()
	}
	failed := "-"
	if s.failed != nil {
		failed = s.failed.String()
	}
	return "pruned=[" + strings.Join(parts, ",") + "] failed=" + failed
}

// ---- one fork choice instance ----

type instance struct {
	fc   forkchoice.Forkchoice
	pa   *proto.ProtoArray
	sink *recSink // nil when the array got a nil NodeSink
}

func newInstance(o *op) (*instance, bool) {
	a := o.a
	spec := &common.Spec{}
	spec.SLOTS_PER_EPOCH = common.Slot(a[0].n)
	anchorRoot, anchorSlot, anchorParent := a[1].r, common.Slot(a[2].n), a[3].r
	justified := common.Checkpoint{Epoch: common.Epoch(a[4].n), Root: a[5].r}
	finalized := common.Checkpoint{Epoch: common.Epoch(a[6].n), Root: a[7].r}
	in := &instance{}
	var sink proto.NodeSink // stays a nil interface value for `nil`
	if !a[8].none {
		in.sink = &recSink{failAt: -1}
		if !a[8].rec {
			in.sink.failAt = int(a[8].n)
		}
		sink = in.sink
	}
	in.pa = proto.NewProtoArray(anchorParent, anchorRoot, anchorSlot, justified.Epoch, finalized.Epoch, sink)
	fc, err := forkchoice.NewForkChoice(spec, finalized, justified, anchorRoot, anchorSlot,
		in.pa, proto.NewProtoVoteStore(spec), a[9].bals)
	if err != nil || fc == nil {
		return nil, false
	}
	in.fc = fc
	return in, true
}

func okRef(ref common.NodeRef, err error) string {
	if err != nil {
		return "err"
	}
	return "ok " + refStr(ref)
}

func (in *instance) run(o *op) string {
	a := o.a
	fc := in.fc
	switch o.kind {
	case "slot":
		fc.ProcessSlot(a[0].r, common.Slot(a[1].n), common.Epoch(a[2].n), common.Epoch(a[3].n))
		return "ok"
	case "block":
		return "ok " + hreg.B2S(fc.ProcessBlock(a[0].r, a[1].r, common.Slot(a[2].n), common.Epoch(a[3].n), common.Epoch(a[4].n)))
	case "att":
		return "ok " + hreg.B2S(fc.ProcessAttestation(common.ValidatorIndex(a[0].n), a[1].r, common.Slot(a[2].n)))
	case "justify":
		justified := common.Checkpoint{Epoch: common.Epoch(a[1].n), Root: a[2].r}
		finalized := common.Checkpoint{Epoch: common.Epoch(a[3].n), Root: a[4].r}
		bals, fail := a[5].bals, a[5].none
		in.sink.begin()
		err := fc.UpdateJustified(context.Background(), a[0].r, justified, finalized, func() ([]common.Gwei, error) {
			if fail {
				return nil, errBalances
			}
			return bals, nil
		})
		res := "ok "
		if err != nil {
			res = "err "
		}
		return res + in.sink.report()
	case "pin":
		if err := fc.SetPin(a[0].r, common.Slot(a[1].n)); err != nil {
			return "err"
		}
		return "ok"
	case "head":
		return okRef(fc.Head())
	case "findhead":
		return okRef(fc.FindHead(a[0].r, common.Slot(a[1].n)))
	case "chain":
		chain, err := fc.CanonicalChain(a[0].r, common.Slot(a[1].n))
		if err != nil {
			return "err"
		}
		parts := make([]string, len(chain))
		for i, e := range chain {
			parts[i] = refStr(e.NodeRef) + "/" + rootStr(e.ParentRoot)
		}
		return "ok [" + strings.Join(parts, ",") + "]"
	case "closest":
		return okRef(fc.ClosestToSlot(a[0].r, common.Slot(a[1].n)))
	case "canonat":
		return okRef(fc.CanonAtSlot(a[0].r, common.Slot(a[1].n), a[2].n == 1))
	case "getslot":
		slot, ok := fc.GetSlot(a[0].r)
		if !ok {
			return "none"
		}
		return "ok " + u64Str(uint64(slot))
	case "insub":
		unknown, inSubtree := fc.InSubtree(a[0].r, a[1].r)
		if unknown {
			return "unknown"
		}
		return "ok " + hreg.B2S(inSubtree)
	case "search":
		var parent *common.Root
		var slot *common.Slot
		if !a[2].none {
			r := a[2].r
			parent = &r
		}
		if !a[3].none {
			s := common.Slot(a[3].n)
			slot = &s
		}
		nc, c, err := fc.Search(common.NodeRef{Root: a[0].r, Slot: common.Slot(a[1].n)}, parent, slot)
		if err != nil {
			return "err"
		}
		return "ok nc=" + refList(nc) + " c=" + refList(c)
	case "just":
		cp := fc.Justified()
		return "ok " + u64Str(uint64(cp.Epoch)) + " " + rootStr(cp.Root)
	case "fin":
		cp := fc.Finalized()
		return "ok " + u64Str(uint64(cp.Epoch)) + " " + rootStr(cp.Root)
	case "pinq":
		p := fc.Pin()
		if p == nil {
			return "none"
		}
		return "ok " + refStr(*p)
	case "nodes":
		idx := in.pa.Indices()
		refs := make([]common.NodeRef, 0, len(idx))
		for r := range idx {
			refs = append(refs, r)
		}
		return "ok " + refList(refs)
	}
	return "bad-op"
}

// watch runs f in its own goroutine: a Go panic gives "panic", no answer within the watchdog period
// gives "blocked" (the goroutine is abandoned).
func watch(f func() string) string {
	ch := make(chan string, 1)
	go func() {
		defer func() {
			if r := recover(); r != nil {
				ch <- "panic"
			}
		}()
		ch <- f()
	}()
	t := time.NewTimer(watchdog)
	defer t.Stop()
	select {
	case r := <-ch:
		return r
	case <-t.C:
		return "blocked"
	}
}

// runner executes the lines of one stretch of input in order.
type runner struct {
	inst *instance
	dead bool
}

func (r *runner) line(s string) string {
	if s == "reset" {
		r.inst, r.dead = nil, false
		return "reset"
	}
	o := parse(s)
	if o == nil {
		return "bad-op"
	}
	if o.kind == "init" {
		// An init always replaces (drops) whatever was there and clears the dead flag.
		r.inst, r.dead = nil, false
		var made *instance
		res := watch(func() string {
			in, ok := newInstance(o)
			if !ok {
				return "err"
			}
			made = in
			return "ok"
		})
		if res == "ok" {
			r.inst = made // written before the channel send, read after the receive
		}
		return res
	}
	if r.inst == nil {
		return "noinit"
	}
	if r.dead {
		return "dead"
	}
	in := r.inst
	res := watch(func() string { return in.run(o) })
	if res == "panic" || res == "blocked" {
		r.dead = true
	}
	return res
}

func runLines(lines []string) []string {
	var r runner
	out := make([]string, len(lines))
	for i, l := range lines {
		out[i] = r.line(l)
	}
	return out
}

func workerCount() int {
	if s := os.Getenv("VERIF_FC_WORKERS"); s != "" {
		if n, err := strconv.Atoi(s); err == nil && n >= 1 && n <= 4096 {
			return n
		}
	}
	return 256
}

// exec splits the input at `reset` lines (a reset line starts a new stretch; `reset` drops all state, so
// stretches are independent), runs the stretches on a worker pool and writes the answers in input order.
func exec(o hreg.Opts, sc *bufio.Scanner, w *bufio.Writer) error {
	type job struct {
		lines []string
		out   chan []string
	}
	workers := workerCount()
	jobs := make(chan job, workers)
	order := make(chan chan []string, 4*workers)
	var wg sync.WaitGroup
	for i := 0; i < workers; i++ {
		wg.Add(1)
		go func() {
			defer wg.Done()
			for j := range jobs {
				j.out <- runLines(j.lines)
			}
		}()
	}
	var scanErr error
	go func() {
		var cur []string
		flush := func() {
			if len(cur) == 0 {
				return
			}
			j := job{lines: cur, out: make(chan []string, 1)}
			order <- j.out
			jobs <- j
			cur = nil
		}
		for sc.Scan() {
			l := sc.Text()
			if l == "reset" {
				flush()
			}
			cur = append(cur, l)
		}
		flush()
		scanErr = sc.Err()
		close(jobs)
		close(order)
	}()
	var werr error
	for out := range order {
		for _, l := range <-out {
			if _, err := fmt.Fprintln(w, l); err != nil && werr == nil {
				werr = err
			}
		}
	}
	wg.Wait()
	if scanErr != nil {
		return scanErr
	}
	return werr
}
