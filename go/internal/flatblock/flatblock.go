// Package flatblock is the Go side of the Go<->Lean signed-beacon-block exchange format.
//
// A real typed zrnt signed block of any fork phase0..deneb (*phase0.SignedBeaconBlock, ...,
// *deneb.SignedBeaconBlock) is printed as tokens `key=value` on one line (Dump) and parsed back into a
// typed block (Parse). The Lean side (/verif/lean/Zrnt/Beacon/Block.lean: parseBlock) reads exactly the
// same text; Lean never sees SSZ. Conventions are those of package flat: `:` joins the fields of a
// record, `;` joins records, `,` joins scalars / byte strings inside one field, `-` is the empty value,
// bytes are lowercase hex, scalars decimal, booleans 0|1.
//
// # Block tokens (always all present, in this order; a part the fork lacks has the filler `-`)
//
//	fork                 phase0 | altair | bellatrix | capella | deneb    (the block container type)
//	slot proposer_index  scalars
//	parent_root state_root   bytes32
//	signature            bytes96 (the proposer's signature of the signed block)
//	randao_reveal        bytes96
//	eth1_data            deposit_root:deposit_count:block_hash
//	graffiti             bytes32
//	proposer_slashings   list of <sh>:<sh>;  <sh> = slot:proposer_index:parent_root:state_root:body_root:signature:sig_ok
//	attester_slashings   list of <ia>:<ia>;  <ia> = i,i,..:slot:index:beacon_block_root:source_epoch:source_root:
//	                                                 target_epoch:target_root:signature:sig_ok
//	attestations         list of bits:slot:index:beacon_block_root:source_epoch:source_root:target_epoch:target_root:
//	                             signature:sig_ok:oidx
//	                     bits = the RAW SSZ bitlist bytes (with the delimiter bit) as hex, `-` if there are no bytes;
//	                     oidx = i,i,.. sorted attesting indices the oracle derived (`-` none, `x` underivable)
//	deposits             list of proof:pubkey:withdrawal_credentials:amount:signature:data_root:sig_ok
//	                     proof = the 33 branch nodes joined by `,`; data_root = hash_tree_root(deposit.data)
//	voluntary_exits      list of epoch:validator_index:signature:sig_ok
//	sync_aggregate       altair+: bits:signature:sig_ok   (bits = the RAW SSZ bitvector bytes as hex)
//	payload              bellatrix+: the payload's fields in the shape of the payload header of package flat
//	                     (14 / 15 / 17 fields); transactions_root and withdrawals_root are hash-tree-roots
//	transactions         bellatrix+: list (`,`) of hex; an empty transaction is `e`
//	withdrawals          capella+: list of index:validator_index:address:amount
//	bls_changes          capella+: list of validator_index:from_bls_pubkey:to_execution_address:signature:sig_ok
//	blob_kzg_commitments deneb: list (`,`) of bytes48
//
// # Oracle tokens (package beaconblock computes them; Dump prints, Parse reads them back)
//
//	o_block_sig o_randao   0|1
//	o_body_root            hash_tree_root(block.body) (computed by Dump with the real library)
//	o_engine               valid | invalid | error
//	o_post_root            bytes32 | -
//
// Every `sig_ok` and `oidx` field above is an oracle value too. Roots (`data_root`, `o_body_root`, the two
// payload list roots) are recomputed by Dump from the typed block, never taken from the parsed text, so
// Dump(Parse(line)) == line holds exactly when the text is the image of the typed block the real code runs on.
package flatblock

import (
	"encoding/hex"
	"fmt"
	"math/big"
	"strconv"
	"strings"

	"github.com/protolambda/zrnt/eth2/beacon/altair"
	"github.com/protolambda/zrnt/eth2/beacon/bellatrix"
	"github.com/protolambda/zrnt/eth2/beacon/capella"
	"github.com/protolambda/zrnt/eth2/beacon/common"
	"github.com/protolambda/zrnt/eth2/beacon/deneb"
	"github.com/protolambda/zrnt/eth2/beacon/phase0"
	"github.com/protolambda/ztyp/tree"
	"github.com/protolambda/ztyp/view"
)

// Typed is a signed block of one fork: exactly the field named by Fork is non-nil.
type Typed struct {
	Fork      string
	Phase0    *phase0.SignedBeaconBlock
	Altair    *altair.SignedBeaconBlock
	Bellatrix *bellatrix.SignedBeaconBlock
	Capella   *capella.SignedBeaconBlock
	Deneb     *deneb.SignedBeaconBlock
}

// Obj returns the typed block as the interface the transition's envelope builder wants.
func (t *Typed) Obj() interface {
	common.SpecObj
	common.EnvelopeBuilder
} {
	switch t.Fork {
	case "phase0":
		return t.Phase0
	case "altair":
		return t.Altair
	case "bellatrix":
		return t.Bellatrix
	case "capella":
		return t.Capella
	case "deneb":
		return t.Deneb
	}
	return nil
}

// Of wraps a typed signed block pointer of any supported fork.
func Of(obj interface{}) (*Typed, error) {
	switch b := obj.(type) {
	case *phase0.SignedBeaconBlock:
		return &Typed{Fork: "phase0", Phase0: b}, nil
	case *altair.SignedBeaconBlock:
		return &Typed{Fork: "altair", Altair: b}, nil
	case *bellatrix.SignedBeaconBlock:
		return &Typed{Fork: "bellatrix", Bellatrix: b}, nil
	case *capella.SignedBeaconBlock:
		return &Typed{Fork: "capella", Capella: b}, nil
	case *deneb.SignedBeaconBlock:
		return &Typed{Fork: "deneb", Deneb: b}, nil
	}
	return nil, fmt.Errorf("flatblock: unsupported block type %T", obj)
}

// New allocates an empty signed block of the named fork.
func New(fork string) (*Typed, error) {
	switch fork {
	case "phase0":
		return &Typed{Fork: fork, Phase0: new(phase0.SignedBeaconBlock)}, nil
	case "altair":
		return &Typed{Fork: fork, Altair: new(altair.SignedBeaconBlock)}, nil
	case "bellatrix":
		return &Typed{Fork: fork, Bellatrix: new(bellatrix.SignedBeaconBlock)}, nil
	case "capella":
		return &Typed{Fork: fork, Capella: new(capella.SignedBeaconBlock)}, nil
	case "deneb":
		return &Typed{Fork: fork, Deneb: new(deneb.SignedBeaconBlock)}, nil
	}
	return nil, fmt.Errorf("flatblock: unknown fork %q", fork)
}

// Payload gives fork-independent pointers into an execution payload.
type Payload struct {
	ParentHash    *common.Hash32
	FeeRecipient  *common.Eth1Address
	StateRoot     *common.Bytes32
	ReceiptsRoot  *common.Bytes32
	LogsBloom     *common.LogsBloom
	PrevRandao    *common.Bytes32
	BlockNumber   *view.Uint64View
	GasLimit      *view.Uint64View
	GasUsed       *view.Uint64View
	Timestamp     *common.Timestamp
	ExtraData     *common.ExtraData
	BaseFeePerGas *view.Uint256View
	BlockHash     *common.Hash32
	Transactions  *common.PayloadTransactions
	Withdrawals   *common.Withdrawals // nil before capella
	BlobGasUsed   *view.Uint64View    // nil before deneb
	ExcessBlobGas *view.Uint64View
}

// Ref gives fork-independent pointers into the signed block.
type Ref struct {
	Slot               *common.Slot
	ProposerIndex      *common.ValidatorIndex
	ParentRoot         *common.Root
	StateRoot          *common.Root
	Signature          *common.BLSSignature
	RandaoReveal       *common.BLSSignature
	Eth1Data           *common.Eth1Data
	Graffiti           *common.Root
	ProposerSlashings  *phase0.ProposerSlashings
	AttesterSlashings  *phase0.AttesterSlashings
	Attestations       *phase0.Attestations
	Deposits           *phase0.Deposits
	VoluntaryExits     *phase0.VoluntaryExits
	SyncAggregate      *altair.SyncAggregate
	Payload            *Payload
	BLSChanges         *common.SignedBLSToExecutionChanges
	BlobKZGCommitments *deneb.KZGCommitments
}

// Ref returns the pointers of the block.
func (t *Typed) Ref() *Ref {
	switch t.Fork {
	case "phase0":
		m, x := &t.Phase0.Message, &t.Phase0.Message.Body
		return &Ref{Slot: &m.Slot, ProposerIndex: &m.ProposerIndex, ParentRoot: &m.ParentRoot, StateRoot: &m.StateRoot,
			Signature: &t.Phase0.Signature, RandaoReveal: &x.RandaoReveal, Eth1Data: &x.Eth1Data, Graffiti: &x.Graffiti,
			ProposerSlashings: &x.ProposerSlashings, AttesterSlashings: &x.AttesterSlashings, Attestations: &x.Attestations,
			Deposits: &x.Deposits, VoluntaryExits: &x.VoluntaryExits}
	case "altair":
		m, x := &t.Altair.Message, &t.Altair.Message.Body
		return &Ref{Slot: &m.Slot, ProposerIndex: &m.ProposerIndex, ParentRoot: &m.ParentRoot, StateRoot: &m.StateRoot,
			Signature: &t.Altair.Signature, RandaoReveal: &x.RandaoReveal, Eth1Data: &x.Eth1Data, Graffiti: &x.Graffiti,
			ProposerSlashings: &x.ProposerSlashings, AttesterSlashings: &x.AttesterSlashings, Attestations: &x.Attestations,
			Deposits: &x.Deposits, VoluntaryExits: &x.VoluntaryExits, SyncAggregate: &x.SyncAggregate}
	case "bellatrix":
		m, x := &t.Bellatrix.Message, &t.Bellatrix.Message.Body
		p := &x.ExecutionPayload
		return &Ref{Slot: &m.Slot, ProposerIndex: &m.ProposerIndex, ParentRoot: &m.ParentRoot, StateRoot: &m.StateRoot,
			Signature: &t.Bellatrix.Signature, RandaoReveal: &x.RandaoReveal, Eth1Data: &x.Eth1Data, Graffiti: &x.Graffiti,
			ProposerSlashings: &x.ProposerSlashings, AttesterSlashings: &x.AttesterSlashings, Attestations: &x.Attestations,
			Deposits: &x.Deposits, VoluntaryExits: &x.VoluntaryExits, SyncAggregate: &x.SyncAggregate,
			Payload: &Payload{ParentHash: &p.ParentHash, FeeRecipient: &p.FeeRecipient, StateRoot: &p.StateRoot,
				ReceiptsRoot: &p.ReceiptsRoot, LogsBloom: &p.LogsBloom, PrevRandao: &p.PrevRandao, BlockNumber: &p.BlockNumber,
				GasLimit: &p.GasLimit, GasUsed: &p.GasUsed, Timestamp: &p.Timestamp, ExtraData: &p.ExtraData,
				BaseFeePerGas: &p.BaseFeePerGas, BlockHash: &p.BlockHash, Transactions: &p.Transactions}}
	case "capella":
		m, x := &t.Capella.Message, &t.Capella.Message.Body
		p := &x.ExecutionPayload
		return &Ref{Slot: &m.Slot, ProposerIndex: &m.ProposerIndex, ParentRoot: &m.ParentRoot, StateRoot: &m.StateRoot,
			Signature: &t.Capella.Signature, RandaoReveal: &x.RandaoReveal, Eth1Data: &x.Eth1Data, Graffiti: &x.Graffiti,
			ProposerSlashings: &x.ProposerSlashings, AttesterSlashings: &x.AttesterSlashings, Attestations: &x.Attestations,
			Deposits: &x.Deposits, VoluntaryExits: &x.VoluntaryExits, SyncAggregate: &x.SyncAggregate,
			BLSChanges: &x.BLSToExecutionChanges,
			Payload: &Payload{ParentHash: &p.ParentHash, FeeRecipient: &p.FeeRecipient, StateRoot: &p.StateRoot,
				ReceiptsRoot: &p.ReceiptsRoot, LogsBloom: &p.LogsBloom, PrevRandao: &p.PrevRandao, BlockNumber: &p.BlockNumber,
				GasLimit: &p.GasLimit, GasUsed: &p.GasUsed, Timestamp: &p.Timestamp, ExtraData: &p.ExtraData,
				BaseFeePerGas: &p.BaseFeePerGas, BlockHash: &p.BlockHash, Transactions: &p.Transactions, Withdrawals: &p.Withdrawals}}
	case "deneb":
		m, x := &t.Deneb.Message, &t.Deneb.Message.Body
		p := &x.ExecutionPayload
		return &Ref{Slot: &m.Slot, ProposerIndex: &m.ProposerIndex, ParentRoot: &m.ParentRoot, StateRoot: &m.StateRoot,
			Signature: &t.Deneb.Signature, RandaoReveal: &x.RandaoReveal, Eth1Data: &x.Eth1Data, Graffiti: &x.Graffiti,
			ProposerSlashings: &x.ProposerSlashings, AttesterSlashings: &x.AttesterSlashings, Attestations: &x.Attestations,
			Deposits: &x.Deposits, VoluntaryExits: &x.VoluntaryExits, SyncAggregate: &x.SyncAggregate,
			BLSChanges: &x.BLSToExecutionChanges, BlobKZGCommitments: &x.BlobKZGCommitments,
			Payload: &Payload{ParentHash: &p.ParentHash, FeeRecipient: &p.FeeRecipient, StateRoot: &p.StateRoot,
				ReceiptsRoot: &p.ReceiptsRoot, LogsBloom: &p.LogsBloom, PrevRandao: &p.PrevRandao, BlockNumber: &p.BlockNumber,
				GasLimit: &p.GasLimit, GasUsed: &p.GasUsed, Timestamp: &p.Timestamp, ExtraData: &p.ExtraData,
				BaseFeePerGas: &p.BaseFeePerGas, BlockHash: &p.BlockHash, Transactions: &p.Transactions, Withdrawals: &p.Withdrawals,
				BlobGasUsed: &p.BlobGasUsed, ExcessBlobGas: &p.ExcessBlobGas}}
	}
	return nil
}

// BodyRoot is hash_tree_root(block.body) by the real library.
func (t *Typed) BodyRoot(spec *common.Spec) common.Root {
	h := tree.GetHashFn()
	switch t.Fork {
	case "phase0":
		return t.Phase0.Message.Body.HashTreeRoot(spec, h)
	case "altair":
		return t.Altair.Message.Body.HashTreeRoot(spec, h)
	case "bellatrix":
		return t.Bellatrix.Message.Body.HashTreeRoot(spec, h)
	case "capella":
		return t.Capella.Message.Body.HashTreeRoot(spec, h)
	default:
		return t.Deneb.Message.Body.HashTreeRoot(spec, h)
	}
}

// MessageRoot is hash_tree_root(block) (the unsigned message), by the real library.
func (t *Typed) MessageRoot(spec *common.Spec) common.Root {
	h := tree.GetHashFn()
	switch t.Fork {
	case "phase0":
		return t.Phase0.Message.HashTreeRoot(spec, h)
	case "altair":
		return t.Altair.Message.HashTreeRoot(spec, h)
	case "bellatrix":
		return t.Bellatrix.Message.HashTreeRoot(spec, h)
	case "capella":
		return t.Capella.Message.HashTreeRoot(spec, h)
	default:
		return t.Deneb.Message.HashTreeRoot(spec, h)
	}
}

// AttOracle is the oracle's verdict on one attestation.
type AttOracle struct {
	OK      bool
	Derived bool     // the attesting indices could be derived
	Indices []uint64 // sorted
}

// Oracle carries every harness-computed input of the specification for one block.
type Oracle struct {
	BlockSig bool
	Randao   bool
	Engine   string // valid | invalid | error
	PostRoot *[32]byte
	PS       [][2]bool
	AS       [][2]bool
	Att      []AttOracle
	Dep      []bool
	Exit     []bool
	BLS      []bool
	Sync     bool
}

// Shape makes the per-operation slices of o as long as the block's lists (missing entries are false).
func (o *Oracle) Shape(r *Ref) {
	grow2 := func(l [][2]bool, n int) [][2]bool {
		for len(l) < n {
			l = append(l, [2]bool{})
		}
		return l[:n]
	}
	grow := func(l []bool, n int) []bool {
		for len(l) < n {
			l = append(l, false)
		}
		return l[:n]
	}
	o.PS = grow2(o.PS, len(*r.ProposerSlashings))
	o.AS = grow2(o.AS, len(*r.AttesterSlashings))
	for len(o.Att) < len(*r.Attestations) {
		o.Att = append(o.Att, AttOracle{})
	}
	o.Att = o.Att[:len(*r.Attestations)]
	o.Dep = grow(o.Dep, len(*r.Deposits))
	o.Exit = grow(o.Exit, len(*r.VoluntaryExits))
	if r.BLSChanges != nil {
		o.BLS = grow(o.BLS, len(*r.BLSChanges))
	} else {
		o.BLS = nil
	}
	if o.Engine == "" {
		o.Engine = "valid"
	}
}

func hx(b []byte) string {
	if len(b) == 0 {
		return "-"
	}
	return hex.EncodeToString(b)
}

func u(v uint64) string { return strconv.FormatUint(v, 10) }

func b01(b bool) string {
	if b {
		return "1"
	}
	return "0"
}

func joinOr(sep string, l []string) string {
	if len(l) == 0 {
		return "-"
	}
	return strings.Join(l, sep)
}

func u256big(v view.Uint256View) *big.Int {
	b := v.Bytes32() // little endian
	for i, j := 0, 31; i < j; i, j = i+1, j-1 {
		b[i], b[j] = b[j], b[i]
	}
	return new(big.Int).SetBytes(b[:])
}

func attData(d *phase0.AttestationData) string {
	return u(uint64(d.Slot)) + ":" + u(uint64(d.Index)) + ":" + hx(d.BeaconBlockRoot[:]) + ":" +
		u(uint64(d.Source.Epoch)) + ":" + hx(d.Source.Root[:]) + ":" + u(uint64(d.Target.Epoch)) + ":" + hx(d.Target.Root[:])
}

func signedHeader(h *common.SignedBeaconBlockHeader, ok bool) string {
	m := &h.Message
	return u(uint64(m.Slot)) + ":" + u(uint64(m.ProposerIndex)) + ":" + hx(m.ParentRoot[:]) + ":" + hx(m.StateRoot[:]) + ":" +
		hx(m.BodyRoot[:]) + ":" + hx(h.Signature[:]) + ":" + b01(ok)
}

func indexed(a *phase0.IndexedAttestation, ok bool) string {
	ix := make([]string, len(a.AttestingIndices))
	for i, v := range a.AttestingIndices {
		ix[i] = u(uint64(v))
	}
	return joinOr(",", ix) + ":" + attData(&a.Data) + ":" + hx(a.Signature[:]) + ":" + b01(ok)
}

// Fields returns the ordered (key, value) pairs of the flat form of the block with the oracle's values.
func Fields(spec *common.Spec, t *Typed, o *Oracle) [][2]string {
	r := t.Ref()
	o.Shape(r)
	hf := tree.GetHashFn()
	var f [][2]string
	add := func(k, v string) { f = append(f, [2]string{k, v}) }
	add("fork", t.Fork)
	add("slot", u(uint64(*r.Slot)))
	add("proposer_index", u(uint64(*r.ProposerIndex)))
	add("parent_root", hx(r.ParentRoot[:]))
	add("state_root", hx(r.StateRoot[:]))
	add("signature", hx(r.Signature[:]))
	add("randao_reveal", hx(r.RandaoReveal[:]))
	add("eth1_data", hx(r.Eth1Data.DepositRoot[:])+":"+u(uint64(r.Eth1Data.DepositCount))+":"+hx(r.Eth1Data.BlockHash[:]))
	add("graffiti", hx(r.Graffiti[:]))
	var l []string
	for i := range *r.ProposerSlashings {
		ps := &(*r.ProposerSlashings)[i]
		l = append(l, signedHeader(&ps.SignedHeader1, o.PS[i][0])+":"+signedHeader(&ps.SignedHeader2, o.PS[i][1]))
	}
	add("proposer_slashings", joinOr(";", l))
	l = nil
	for i := range *r.AttesterSlashings {
		as := &(*r.AttesterSlashings)[i]
		l = append(l, indexed(&as.Attestation1, o.AS[i][0])+":"+indexed(&as.Attestation2, o.AS[i][1]))
	}
	add("attester_slashings", joinOr(";", l))
	l = nil
	for i := range *r.Attestations {
		a := &(*r.Attestations)[i]
		oidx := "x"
		if o.Att[i].Derived {
			ix := make([]string, len(o.Att[i].Indices))
			for j, v := range o.Att[i].Indices {
				ix[j] = u(v)
			}
			oidx = joinOr(",", ix)
		}
		l = append(l, hx(a.AggregationBits)+":"+attData(&a.Data)+":"+hx(a.Signature[:])+":"+b01(o.Att[i].OK)+":"+oidx)
	}
	add("attestations", joinOr(";", l))
	l = nil
	for i := range *r.Deposits {
		d := &(*r.Deposits)[i]
		pr := make([]string, len(d.Proof))
		for j := range d.Proof {
			pr[j] = hx(d.Proof[j][:])
		}
		root := d.Data.HashTreeRoot(hf)
		l = append(l, strings.Join(pr, ",")+":"+hx(d.Data.Pubkey[:])+":"+hx(d.Data.WithdrawalCredentials[:])+":"+
			u(uint64(d.Data.Amount))+":"+hx(d.Data.Signature[:])+":"+hx(root[:])+":"+b01(o.Dep[i]))
	}
	add("deposits", joinOr(";", l))
	l = nil
	for i := range *r.VoluntaryExits {
		e := &(*r.VoluntaryExits)[i]
		l = append(l, u(uint64(e.Message.Epoch))+":"+u(uint64(e.Message.ValidatorIndex))+":"+hx(e.Signature[:])+":"+b01(o.Exit[i]))
	}
	add("voluntary_exits", joinOr(";", l))
	if r.SyncAggregate != nil {
		add("sync_aggregate", hx(r.SyncAggregate.SyncCommitteeBits)+":"+hx(r.SyncAggregate.SyncCommitteeSignature[:])+":"+b01(o.Sync))
	} else {
		add("sync_aggregate", "-")
	}
	if p := r.Payload; p != nil {
		txRoot := p.Transactions.HashTreeRoot(spec, hf)
		pf := []string{hx(p.ParentHash[:]), hx(p.FeeRecipient[:]), hx(p.StateRoot[:]), hx(p.ReceiptsRoot[:]), hx(p.LogsBloom[:]),
			hx(p.PrevRandao[:]), u(uint64(*p.BlockNumber)), u(uint64(*p.GasLimit)), u(uint64(*p.GasUsed)), u(uint64(*p.Timestamp)),
			hx(*p.ExtraData), u256big(*p.BaseFeePerGas).String(), hx(p.BlockHash[:]), hx(txRoot[:])}
		if p.Withdrawals != nil {
			wr := p.Withdrawals.HashTreeRoot(spec, hf)
			pf = append(pf, hx(wr[:]))
			if p.BlobGasUsed != nil {
				pf = append(pf, u(uint64(*p.BlobGasUsed)), u(uint64(*p.ExcessBlobGas)))
			}
		}
		add("payload", strings.Join(pf, ":"))
		l = nil
		for _, tx := range *p.Transactions {
			if len(tx) == 0 {
				l = append(l, "e")
			} else {
				l = append(l, hex.EncodeToString(tx))
			}
		}
		add("transactions", joinOr(",", l))
		l = nil
		if p.Withdrawals != nil {
			for _, w := range *p.Withdrawals {
				l = append(l, u(uint64(w.Index))+":"+u(uint64(w.ValidatorIndex))+":"+hx(w.Address[:])+":"+u(uint64(w.Amount)))
			}
		}
		add("withdrawals", joinOr(";", l))
	} else {
		add("payload", "-")
		add("transactions", "-")
		add("withdrawals", "-")
	}
	l = nil
	if r.BLSChanges != nil {
		for i := range *r.BLSChanges {
			c := &(*r.BLSChanges)[i]
			m := &c.BLSToExecutionChange
			l = append(l, u(uint64(m.ValidatorIndex))+":"+hx(m.FromBLSPubKey[:])+":"+hx(m.ToExecutionAddress[:])+":"+
				hx(c.Signature[:])+":"+b01(o.BLS[i]))
		}
	}
	add("bls_changes", joinOr(";", l))
	l = nil
	if r.BlobKZGCommitments != nil {
		for _, c := range *r.BlobKZGCommitments {
			l = append(l, hx(c[:]))
		}
	}
	add("blob_kzg_commitments", joinOr(",", l))
	add("o_block_sig", b01(o.BlockSig))
	add("o_randao", b01(o.Randao))
	br := t.BodyRoot(spec)
	add("o_body_root", hx(br[:]))
	add("o_engine", o.Engine)
	if o.PostRoot != nil {
		add("o_post_root", hx(o.PostRoot[:]))
	} else {
		add("o_post_root", "-")
	}
	return f
}

// Dump prints the block with its oracle values as one run of `key=value` tokens.
func Dump(spec *common.Spec, t *Typed, o *Oracle) string {
	var sb strings.Builder
	for i, kv := range Fields(spec, t, o) {
		if i > 0 {
			sb.WriteByte(' ')
		}
		sb.WriteString(kv[0])
		sb.WriteByte('=')
		sb.WriteString(kv[1])
	}
	return sb.String()
}

// Keys lists the block/oracle token keys in order.
var Keys = []string{"fork", "slot", "proposer_index", "parent_root", "state_root", "signature", "randao_reveal", "eth1_data",
	"graffiti", "proposer_slashings", "attester_slashings", "attestations", "deposits", "voluntary_exits", "sync_aggregate",
	"payload", "transactions", "withdrawals", "bls_changes", "blob_kzg_commitments", "o_block_sig", "o_randao", "o_body_root",
	"o_engine", "o_post_root"}

// ---------------------------------------------------------------------------------------------
// parsing

type parser struct{ err error }

func (p *parser) fail(f string, a ...interface{}) {
	if p.err == nil {
		p.err = fmt.Errorf(f, a...)
	}
}

func (p *parser) u64(s string) uint64 {
	if s == "" || s[0] == '+' || s[0] == '-' {
		p.fail("bad number %q", s)
		return 0
	}
	v, err := strconv.ParseUint(s, 10, 64)
	if err != nil {
		p.fail("bad number %q", s)
	}
	return v
}

// hex parses n bytes (n < 0: any length, `-` = none).
func (p *parser) hex(s string, n int) []byte {
	if s == "-" {
		if n > 0 {
			p.fail("expected %d bytes, got none", n)
			return make([]byte, n)
		}
		return nil
	}
	b, err := hex.DecodeString(s)
	if err != nil || (n >= 0 && len(b) != n) || strings.ToLower(s) != s {
		p.fail("bad hex (want %d bytes) %q", n, s)
		if n < 0 {
			n = 0
		}
		return make([]byte, n)
	}
	return b
}

func (p *parser) h32(s string) (o [32]byte) { copy(o[:], p.hex(s, 32)); return }
func (p *parser) h48(s string) (o [48]byte) { copy(o[:], p.hex(s, 48)); return }
func (p *parser) h96(s string) (o [96]byte) { copy(o[:], p.hex(s, 96)); return }
func (p *parser) h20(s string) (o [20]byte) { copy(o[:], p.hex(s, 20)); return }

func (p *parser) bool01(s string) bool {
	if s != "0" && s != "1" {
		p.fail("bad bool %q", s)
	}
	return s == "1"
}

func (p *parser) list(s, sep string) []string {
	if s == "-" {
		return nil
	}
	return strings.Split(s, sep)
}

func (p *parser) rec(s string, n int) []string {
	f := strings.Split(s, ":")
	if len(f) != n {
		p.fail("record with %d fields, want %d: %.60q", len(f), n, s)
		return make([]string, n)
	}
	return f
}

func (p *parser) attData(f []string) phase0.AttestationData {
	return phase0.AttestationData{Slot: common.Slot(p.u64(f[0])), Index: common.CommitteeIndex(p.u64(f[1])), BeaconBlockRoot: p.h32(f[2]),
		Source: common.Checkpoint{Epoch: common.Epoch(p.u64(f[3])), Root: p.h32(f[4])},
		Target: common.Checkpoint{Epoch: common.Epoch(p.u64(f[5])), Root: p.h32(f[6])}}
}

func (p *parser) signedHeader(f []string) (common.SignedBeaconBlockHeader, bool) {
	return common.SignedBeaconBlockHeader{Message: common.BeaconBlockHeader{Slot: common.Slot(p.u64(f[0])),
		ProposerIndex: common.ValidatorIndex(p.u64(f[1])), ParentRoot: p.h32(f[2]), StateRoot: p.h32(f[3]), BodyRoot: p.h32(f[4])},
		Signature: p.h96(f[5])}, p.bool01(f[6])
}

func (p *parser) indexed(f []string) (phase0.IndexedAttestation, bool) {
	var ix common.CommitteeIndices
	for _, s := range p.list(f[0], ",") {
		ix = append(ix, common.ValidatorIndex(p.u64(s)))
	}
	return phase0.IndexedAttestation{AttestingIndices: ix, Data: p.attData(f[1:8]), Signature: p.h96(f[8])}, p.bool01(f[9])
}

// Parse builds the typed block and the oracle from the tokens of a line (see flat.KV). Unknown keys are
// ignored; a missing key or a malformed value is an error.
func Parse(spec *common.Spec, kv map[string]string) (*Typed, *Oracle, error) {
	p := &parser{}
	get := func(k string) string {
		v, ok := kv[k]
		if !ok {
			p.fail("missing key %s", k)
			return "-"
		}
		return v
	}
	t, err := New(get("fork"))
	if err != nil {
		return nil, nil, err
	}
	r := t.Ref()
	o := &Oracle{}
	*r.Slot = common.Slot(p.u64(get("slot")))
	*r.ProposerIndex = common.ValidatorIndex(p.u64(get("proposer_index")))
	*r.ParentRoot = p.h32(get("parent_root"))
	*r.StateRoot = p.h32(get("state_root"))
	*r.Signature = p.h96(get("signature"))
	*r.RandaoReveal = p.h96(get("randao_reveal"))
	e := p.rec(get("eth1_data"), 3)
	*r.Eth1Data = common.Eth1Data{DepositRoot: p.h32(e[0]), DepositCount: common.DepositIndex(p.u64(e[1])), BlockHash: p.h32(e[2])}
	*r.Graffiti = p.h32(get("graffiti"))
	for _, s := range p.list(get("proposer_slashings"), ";") {
		f := p.rec(s, 14)
		h1, ok1 := p.signedHeader(f[:7])
		h2, ok2 := p.signedHeader(f[7:])
		*r.ProposerSlashings = append(*r.ProposerSlashings, phase0.ProposerSlashing{SignedHeader1: h1, SignedHeader2: h2})
		o.PS = append(o.PS, [2]bool{ok1, ok2})
	}
	for _, s := range p.list(get("attester_slashings"), ";") {
		f := p.rec(s, 20)
		a1, ok1 := p.indexed(f[:10])
		a2, ok2 := p.indexed(f[10:])
		*r.AttesterSlashings = append(*r.AttesterSlashings, phase0.AttesterSlashing{Attestation1: a1, Attestation2: a2})
		o.AS = append(o.AS, [2]bool{ok1, ok2})
	}
	for _, s := range p.list(get("attestations"), ";") {
		f := p.rec(s, 11)
		a := phase0.Attestation{AggregationBits: phase0.AttestationBits(p.hex(f[0], -1)), Data: p.attData(f[1:8]), Signature: p.h96(f[8])}
		ao := AttOracle{OK: p.bool01(f[9])}
		if f[10] != "x" {
			ao.Derived = true
			for _, x := range p.list(f[10], ",") {
				ao.Indices = append(ao.Indices, p.u64(x))
			}
		}
		*r.Attestations = append(*r.Attestations, a)
		o.Att = append(o.Att, ao)
	}
	for _, s := range p.list(get("deposits"), ";") {
		f := p.rec(s, 7)
		var d common.Deposit
		pr := p.list(f[0], ",")
		if len(pr) != len(d.Proof) {
			p.fail("deposit proof with %d nodes", len(pr))
		} else {
			for i := range pr {
				d.Proof[i] = p.h32(pr[i])
			}
		}
		d.Data = common.DepositData{Pubkey: p.h48(f[1]), WithdrawalCredentials: p.h32(f[2]), Amount: common.Gwei(p.u64(f[3])), Signature: p.h96(f[4])}
		p.h32(f[5]) // data_root: recomputed by Dump
		*r.Deposits = append(*r.Deposits, d)
		o.Dep = append(o.Dep, p.bool01(f[6]))
	}
	for _, s := range p.list(get("voluntary_exits"), ";") {
		f := p.rec(s, 4)
		*r.VoluntaryExits = append(*r.VoluntaryExits, phase0.SignedVoluntaryExit{
			Message:   phase0.VoluntaryExit{Epoch: common.Epoch(p.u64(f[0])), ValidatorIndex: common.ValidatorIndex(p.u64(f[1]))},
			Signature: p.h96(f[2])})
		o.Exit = append(o.Exit, p.bool01(f[3]))
	}
	if sa := get("sync_aggregate"); r.SyncAggregate != nil {
		f := p.rec(sa, 3)
		r.SyncAggregate.SyncCommitteeBits = altair.SyncCommitteeBits(p.hex(f[0], -1))
		r.SyncAggregate.SyncCommitteeSignature = p.h96(f[1])
		o.Sync = p.bool01(f[2])
	} else if sa != "-" {
		p.fail("sync_aggregate in a %s block", t.Fork)
	}
	pl, txs, wds := get("payload"), get("transactions"), get("withdrawals")
	if pp := r.Payload; pp != nil {
		f := strings.Split(pl, ":")
		want := 14
		if pp.Withdrawals != nil {
			want = 15
		}
		if pp.BlobGasUsed != nil {
			want = 17
		}
		if len(f) != want {
			p.fail("payload with %d fields in a %s block", len(f), t.Fork)
		} else {
			*pp.ParentHash = p.h32(f[0])
			*pp.FeeRecipient = p.h20(f[1])
			*pp.StateRoot = p.h32(f[2])
			*pp.ReceiptsRoot = p.h32(f[3])
			copy(pp.LogsBloom[:], p.hex(f[4], len(pp.LogsBloom)))
			*pp.PrevRandao = p.h32(f[5])
			*pp.BlockNumber = view.Uint64View(p.u64(f[6]))
			*pp.GasLimit = view.Uint64View(p.u64(f[7]))
			*pp.GasUsed = view.Uint64View(p.u64(f[8]))
			*pp.Timestamp = common.Timestamp(p.u64(f[9]))
			*pp.ExtraData = common.ExtraData(p.hex(f[10], -1))
			bf, ok := new(big.Int).SetString(f[11], 10)
			if !ok || bf.Sign() < 0 || bf.BitLen() > 256 || strings.HasPrefix(f[11], "+") {
				p.fail("bad base fee %q", f[11])
			} else {
				pp.BaseFeePerGas.SetFromBig(bf)
			}
			*pp.BlockHash = p.h32(f[12])
			p.h32(f[13]) // transactions_root: recomputed by Dump
			if want >= 15 {
				p.h32(f[14])
			}
			if want == 17 {
				*pp.BlobGasUsed = view.Uint64View(p.u64(f[15]))
				*pp.ExcessBlobGas = view.Uint64View(p.u64(f[16]))
			}
		}
		for _, s := range p.list(txs, ",") {
			if s == "e" {
				*pp.Transactions = append(*pp.Transactions, common.Transaction{})
			} else {
				*pp.Transactions = append(*pp.Transactions, common.Transaction(p.hex(s, -1)))
			}
		}
		if pp.Withdrawals != nil {
			for _, s := range p.list(wds, ";") {
				f := p.rec(s, 4)
				*pp.Withdrawals = append(*pp.Withdrawals, common.Withdrawal{Index: common.WithdrawalIndex(p.u64(f[0])),
					ValidatorIndex: common.ValidatorIndex(p.u64(f[1])), Address: p.h20(f[2]), Amount: common.Gwei(p.u64(f[3]))})
			}
		} else if wds != "-" {
			p.fail("withdrawals in a %s block", t.Fork)
		}
	} else if pl != "-" || txs != "-" || wds != "-" {
		p.fail("payload in a %s block", t.Fork)
	}
	if bc := get("bls_changes"); r.BLSChanges != nil {
		for _, s := range p.list(bc, ";") {
			f := p.rec(s, 5)
			*r.BLSChanges = append(*r.BLSChanges, common.SignedBLSToExecutionChange{
				BLSToExecutionChange: common.BLSToExecutionChange{ValidatorIndex: common.ValidatorIndex(p.u64(f[0])),
					FromBLSPubKey: p.h48(f[1]), ToExecutionAddress: p.h20(f[2])},
				Signature: p.h96(f[3])})
			o.BLS = append(o.BLS, p.bool01(f[4]))
		}
	} else if bc != "-" {
		p.fail("bls_changes in a %s block", t.Fork)
	}
	if kc := get("blob_kzg_commitments"); r.BlobKZGCommitments != nil {
		for _, s := range p.list(kc, ",") {
			*r.BlobKZGCommitments = append(*r.BlobKZGCommitments, common.KZGCommitment(p.h48(s)))
		}
	} else if kc != "-" {
		p.fail("blob_kzg_commitments in a %s block", t.Fork)
	}
	o.BlockSig = p.bool01(get("o_block_sig"))
	o.Randao = p.bool01(get("o_randao"))
	p.h32(get("o_body_root"))
	o.Engine = get("o_engine")
	if o.Engine != "valid" && o.Engine != "invalid" && o.Engine != "error" {
		p.fail("bad engine verdict %q", o.Engine)
	}
	if pr := get("o_post_root"); pr != "-" {
		x := p.h32(pr)
		o.PostRoot = &x
	}
	if p.err != nil {
		return nil, nil, p.err
	}
	return t, o, nil
}
