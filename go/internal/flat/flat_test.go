package flat

import (
	"testing"

	blsu "github.com/protolambda/bls12-381-util"
	"github.com/protolambda/zrnt/eth2/beacon/altair"
	"github.com/protolambda/zrnt/eth2/beacon/bellatrix"
	"github.com/protolambda/zrnt/eth2/beacon/capella"
	"github.com/protolambda/zrnt/eth2/beacon/common"
	"github.com/protolambda/zrnt/eth2/beacon/deneb"
	"github.com/protolambda/zrnt/eth2/beacon/phase0"
	"github.com/protolambda/zrnt/eth2/configs"
	"github.com/protolambda/ztyp/tree"
)

// Round trip on every fork: view -> flat -> text -> flat -> view has the same hash-tree-root and the same text.
func TestRoundTrip(t *testing.T) {
	spec := configs.Minimal
	var vals []phase0.KickstartValidatorData
	for i := 0; i < 64; i++ {
		var skb [32]byte
		skb[31] = byte(i + 1)
		var sk blsu.SecretKey
		if err := sk.Deserialize(&skb); err != nil {
			t.Fatal(err)
		}
		pk, _ := blsu.SkToPk(&sk)
		vals = append(vals, phase0.KickstartValidatorData{Pubkey: pk.Serialize(), Balance: spec.MAX_EFFECTIVE_BALANCE})
	}
	st, epc, err := phase0.KickStartState(spec, common.Root{1}, 1000, vals)
	if err != nil {
		t.Fatal(err)
	}
	check := func(name string, s common.BeaconState) {
		f, err := From(spec, s)
		if err != nil {
			t.Fatal(name, err)
		}
		if f.Fork != name {
			t.Fatal("fork name", f.Fork, name)
		}
		line := f.String() + " " + SpecTokens(spec)
		kv, rest := KV(line)
		if len(rest) != 0 {
			t.Fatal("rest", rest)
		}
		g, err := Parse(kv)
		if err != nil {
			t.Fatal(name, err)
		}
		if g.String() != f.String() {
			t.Fatal(name, "text round trip differs")
		}
		v, err := g.ToView(spec)
		if err != nil {
			t.Fatal(name, err)
		}
		if v.HashTreeRoot(tree.GetHashFn()) != s.HashTreeRoot(tree.GetHashFn()) {
			t.Fatal(name, "root differs after round trip")
		}
		sp := *spec
		if err := ApplySpecTokens(&sp, kv); err != nil || SpecTokens(&sp) != SpecTokens(spec) {
			t.Fatal("spec tokens round trip", err)
		}
		t.Log(name, len(line), f.Abbrev())
	}
	check("phase0", st)
	a, err := altair.UpgradeToAltair(spec, epc, st)
	if err != nil {
		t.Fatal(err)
	}
	check("altair", a)
	b, err := bellatrix.UpgradeToBellatrix(spec, epc, a)
	if err != nil {
		t.Fatal(err)
	}
	check("bellatrix", b)
	c, err := capella.UpgradeToCapella(spec, epc, b)
	if err != nil {
		t.Fatal(err)
	}
	check("capella", c)
	d, err := deneb.UpgradeToDeneb(spec, epc, c)
	if err != nil {
		t.Fatal(err)
	}
	check("deneb", d)
}
