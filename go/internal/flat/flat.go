// Package flat is the Go side of the Go<->Lean beacon-state exchange format.
//
// A real zrnt BeaconState (any fork phase0..deneb, tree view or struct form) is converted into the
// plain struct State, which is printed as ONE LINE of `key=value` tokens (String) and parsed back
// (Parse). The Lean side (/verif/lean/Zrnt/Beacon/State.lean: parseState / printState) reads and
// writes exactly the same text. Lean never sees SSZ.
//
// # Format
//
// One line; tokens separated by a single space; every token is `key=value`; no spaces inside a token.
//
//	scalar            decimal, no sign, no leading '+' (uint64; base_fee_per_gas: uint256)
//	bytes             lowercase hex without 0x; the empty byte string is `-`
//	list of scalars   elements joined by `,`;  empty list `-`
//	list of bytes     elements joined by `,`;  empty list `-`
//	record            fields joined by `:`
//	list of records   records joined by `;`;   empty list `-`
//	bits              string of the characters 0 and 1, index 0 first; empty `-`
//
// State keys, always all present, always in this order (a field the fork lacks has the stated filler):
//
//	fork                         phase0 | altair | bellatrix | capella | deneb   (the BeaconState container type)
//	genesis_time                 scalar
//	genesis_validators_root      bytes32
//	slot                         scalar
//	fork_previous_version        bytes4     (state.fork.previous_version)
//	fork_current_version         bytes4
//	fork_epoch                   scalar
//	header                       slot:proposer_index:parent_root:state_root:body_root     (latest_block_header)
//	block_roots                  list of bytes32, SLOTS_PER_HISTORICAL_ROOT entries
//	state_roots                  list of bytes32, SLOTS_PER_HISTORICAL_ROOT entries
//	historical_roots             list of bytes32
//	eth1_data                    deposit_root:deposit_count:block_hash
//	eth1_data_votes              list of deposit_root:deposit_count:block_hash
//	eth1_deposit_index           scalar
//	validators                   list of pubkey(48):withdrawal_credentials(32):effective_balance:slashed(0|1):
//	                                     activation_eligibility_epoch:activation_epoch:exit_epoch:withdrawable_epoch
//	balances                     list of scalars (same length as validators in well-formed states)
//	randao_mixes                 list of bytes32, EPOCHS_PER_HISTORICAL_VECTOR entries
//	slashings                    list of scalars, EPOCHS_PER_SLASHINGS_VECTOR entries
//	prev_atts, curr_atts         phase0: list of  bits:slot:index:beacon_block_root:source_epoch:source_root:
//	                                              target_epoch:target_root:inclusion_delay:proposer_index
//	                             (bits = aggregation bits without the SSZ delimiter);  later forks: `-`
//	justification_bits           4 characters 0/1, bit 0 (the most recent epoch) first
//	prev_justified, curr_justified, finalized      epoch:root
//	prev_participation, curr_participation         altair+: list of scalars (flag bytes); phase0: `-`
//	inactivity_scores            altair+: list of scalars; phase0: `-`
//	current_sync_committee, next_sync_committee    altair+: aggregate_pubkey(48):pk,pk,...(48 each); phase0: `-`
//	payload_header               bellatrix: parent_hash:fee_recipient(20):state_root:receipts_root:logs_bloom(256):
//	                                prev_randao:block_number:gas_limit:gas_used:timestamp:extra_data:
//	                                base_fee_per_gas(decimal uint256):block_hash:transactions_root      (14 fields)
//	                             capella: the same + :withdrawals_root                                   (15 fields)
//	                             deneb: the same + :blob_gas_used:excess_blob_gas                        (17 fields)
//	                             before bellatrix: `-`
//	next_withdrawal_index, next_withdrawal_validator_index     capella+: scalar; before: 0
//	historical_summaries         capella+: list of block_summary_root:state_summary_root; before: `-`
//
// Configuration tokens (SpecTokens) use the UPPER_CASE constant names of common.Spec: every uint64-like
// field of the presets and of Config as a decimal scalar, fork versions as bytes4. State keys are lower
// case, so state and configuration tokens can share a line.
//
// Abbrev gives the form used for result lines: a value longer than 90 characters is replaced by `#` and
// the first 16 hex digits of SHA-256(value); so mismatches are localised to a field and lines stay short.
package flat

import (
	"bytes"
	"crypto/sha256"
	"encoding/hex"
	"errors"
	"fmt"
	"math/big"
	"reflect"
	"sort"
	"strconv"
	"strings"

	"github.com/protolambda/zrnt/eth2/beacon/altair"
	"github.com/protolambda/zrnt/eth2/beacon/bellatrix"
	"github.com/protolambda/zrnt/eth2/beacon/capella"
	"github.com/protolambda/zrnt/eth2/beacon/common"
	"github.com/protolambda/zrnt/eth2/beacon/deneb"
	"github.com/protolambda/zrnt/eth2/beacon/phase0"
	"github.com/protolambda/ztyp/codec"
	"github.com/protolambda/ztyp/view"
)

type Validator struct {
	Pubkey                     [48]byte
	WithdrawalCredentials      [32]byte
	EffectiveBalance           uint64
	Slashed                    bool
	ActivationEligibilityEpoch uint64
	ActivationEpoch            uint64
	ExitEpoch                  uint64
	WithdrawableEpoch          uint64
}

type Checkpoint struct {
	Epoch uint64
	Root  [32]byte
}

type Header struct {
	Slot, ProposerIndex              uint64
	ParentRoot, StateRoot, BodyRoot [32]byte
}

type Eth1Data struct {
	DepositRoot  [32]byte
	DepositCount uint64
	BlockHash    [32]byte
}

type PendingAtt struct {
	Bits            []bool
	Slot, Index     uint64
	BeaconBlockRoot [32]byte
	Source, Target  Checkpoint
	InclusionDelay  uint64
	ProposerIndex   uint64
}

type SyncCommittee struct {
	Pubkeys   [][48]byte
	Aggregate [48]byte
}

type PayloadHeader struct {
	ParentHash       [32]byte
	FeeRecipient     [20]byte
	StateRoot        [32]byte
	ReceiptsRoot     [32]byte
	LogsBloom        [256]byte
	PrevRandao       [32]byte
	BlockNumber      uint64
	GasLimit         uint64
	GasUsed          uint64
	Timestamp        uint64
	ExtraData        []byte
	BaseFeePerGas    *big.Int
	BlockHash        [32]byte
	TransactionsRoot [32]byte
	WithdrawalsRoot  *[32]byte // capella+
	BlobGasUsed      *uint64   // deneb+
	ExcessBlobGas    *uint64   // deneb+
}

type Summary struct{ Block, State [32]byte }

// State is the flat form of a BeaconState of any fork phase0..deneb.
type State struct {
	Fork                  string // phase0 | altair | bellatrix | capella | deneb
	GenesisTime           uint64
	GenesisValidatorsRoot [32]byte
	Slot                  uint64
	ForkPrevVersion       [4]byte
	ForkCurrVersion       [4]byte
	ForkEpoch             uint64
	Header                Header
	BlockRoots            [][32]byte
	StateRoots            [][32]byte
	HistoricalRoots       [][32]byte
	Eth1Data              Eth1Data
	Eth1DataVotes         []Eth1Data
	Eth1DepositIndex      uint64
	Validators            []Validator
	Balances              []uint64
	RandaoMixes           [][32]byte
	Slashings             []uint64
	PrevAtts, CurrAtts    []PendingAtt
	JustificationBits     [4]bool
	PrevJustified         Checkpoint
	CurrJustified         Checkpoint
	Finalized             Checkpoint
	PrevParticipation     []uint64
	CurrParticipation     []uint64
	InactivityScores      []uint64
	CurrentSyncCommittee  *SyncCommittee
	NextSyncCommittee     *SyncCommittee
	PayloadHeader         *PayloadHeader
	NextWithdrawalIndex   uint64
	NextWithdrawalValIdx  uint64
	HistoricalSummaries   []Summary
}

var Forks = []string{"phase0", "altair", "bellatrix", "capella", "deneb"}

// ForkIndex: 0 phase0 … 4 deneb; -1 unknown.
func ForkIndex(name string) int {
	for i, f := range Forks {
		if f == name {
			return i
		}
	}
	return -1
}

// ---------------------------------------------------------------------------------------------
// printing

func hx(b []byte) string {
	if len(b) == 0 {
		return "-"
	}
	return hex.EncodeToString(b)
}

func u(v uint64) string { return strconv.FormatUint(v, 10) }

func joinOr(sep string, l []string) string {
	if len(l) == 0 {
		return "-"
	}
	return strings.Join(l, sep)
}

func roots(l [][32]byte) string {
	s := make([]string, len(l))
	for i := range l {
		s[i] = hx(l[i][:])
	}
	return joinOr(",", s)
}

func nums(l []uint64) string {
	s := make([]string, len(l))
	for i := range l {
		s[i] = u(l[i])
	}
	return joinOr(",", s)
}

func b01(b bool) string {
	if b {
		return "1"
	}
	return "0"
}

func bits(l []bool) string {
	if len(l) == 0 {
		return "-"
	}
	var sb strings.Builder
	for _, b := range l {
		sb.WriteString(b01(b))
	}
	return sb.String()
}

func (c Checkpoint) String() string { return u(c.Epoch) + ":" + hx(c.Root[:]) }
func (e Eth1Data) String() string {
	return hx(e.DepositRoot[:]) + ":" + u(e.DepositCount) + ":" + hx(e.BlockHash[:])
}
func (v Validator) String() string {
	return strings.Join([]string{hx(v.Pubkey[:]), hx(v.WithdrawalCredentials[:]), u(v.EffectiveBalance), b01(v.Slashed),
		u(v.ActivationEligibilityEpoch), u(v.ActivationEpoch), u(v.ExitEpoch), u(v.WithdrawableEpoch)}, ":")
}
func (h Header) String() string {
	return strings.Join([]string{u(h.Slot), u(h.ProposerIndex), hx(h.ParentRoot[:]), hx(h.StateRoot[:]), hx(h.BodyRoot[:])}, ":")
}
func (a PendingAtt) String() string {
	return strings.Join([]string{bits(a.Bits), u(a.Slot), u(a.Index), hx(a.BeaconBlockRoot[:]), u(a.Source.Epoch), hx(a.Source.Root[:]),
		u(a.Target.Epoch), hx(a.Target.Root[:]), u(a.InclusionDelay), u(a.ProposerIndex)}, ":")
}
func syncStr(c *SyncCommittee) string {
	if c == nil {
		return "-"
	}
	s := make([]string, len(c.Pubkeys))
	for i := range c.Pubkeys {
		s[i] = hx(c.Pubkeys[i][:])
	}
	return hx(c.Aggregate[:]) + ":" + joinOr(",", s)
}
func payloadStr(h *PayloadHeader) string {
	if h == nil {
		return "-"
	}
	bf := h.BaseFeePerGas
	if bf == nil {
		bf = new(big.Int)
	}
	f := []string{hx(h.ParentHash[:]), hx(h.FeeRecipient[:]), hx(h.StateRoot[:]), hx(h.ReceiptsRoot[:]), hx(h.LogsBloom[:]),
		hx(h.PrevRandao[:]), u(h.BlockNumber), u(h.GasLimit), u(h.GasUsed), u(h.Timestamp), hx(h.ExtraData), bf.String(),
		hx(h.BlockHash[:]), hx(h.TransactionsRoot[:])}
	if h.WithdrawalsRoot != nil {
		f = append(f, hx(h.WithdrawalsRoot[:]))
		if h.BlobGasUsed != nil && h.ExcessBlobGas != nil {
			f = append(f, u(*h.BlobGasUsed), u(*h.ExcessBlobGas))
		}
	}
	return strings.Join(f, ":")
}

// Fields returns the ordered (key, value) pairs of the flat form.
func (s *State) Fields() [][2]string {
	strs := func(n int, f func(i int) string) string {
		l := make([]string, n)
		for i := range l {
			l[i] = f(i)
		}
		return l2(l)
	}
	jb := ""
	for _, b := range s.JustificationBits {
		jb += b01(b)
	}
	return [][2]string{
		{"fork", s.Fork},
		{"genesis_time", u(s.GenesisTime)},
		{"genesis_validators_root", hx(s.GenesisValidatorsRoot[:])},
		{"slot", u(s.Slot)},
		{"fork_previous_version", hx(s.ForkPrevVersion[:])},
		{"fork_current_version", hx(s.ForkCurrVersion[:])},
		{"fork_epoch", u(s.ForkEpoch)},
		{"header", s.Header.String()},
		{"block_roots", roots(s.BlockRoots)},
		{"state_roots", roots(s.StateRoots)},
		{"historical_roots", roots(s.HistoricalRoots)},
		{"eth1_data", s.Eth1Data.String()},
		{"eth1_data_votes", strs(len(s.Eth1DataVotes), func(i int) string { return s.Eth1DataVotes[i].String() })},
		{"eth1_deposit_index", u(s.Eth1DepositIndex)},
		{"validators", strs(len(s.Validators), func(i int) string { return s.Validators[i].String() })},
		{"balances", nums(s.Balances)},
		{"randao_mixes", roots(s.RandaoMixes)},
		{"slashings", nums(s.Slashings)},
		{"prev_atts", strs(len(s.PrevAtts), func(i int) string { return s.PrevAtts[i].String() })},
		{"curr_atts", strs(len(s.CurrAtts), func(i int) string { return s.CurrAtts[i].String() })},
		{"justification_bits", jb},
		{"prev_justified", s.PrevJustified.String()},
		{"curr_justified", s.CurrJustified.String()},
		{"finalized", s.Finalized.String()},
		{"prev_participation", nums(s.PrevParticipation)},
		{"curr_participation", nums(s.CurrParticipation)},
		{"inactivity_scores", nums(s.InactivityScores)},
		{"current_sync_committee", syncStr(s.CurrentSyncCommittee)},
		{"next_sync_committee", syncStr(s.NextSyncCommittee)},
		{"payload_header", payloadStr(s.PayloadHeader)},
		{"next_withdrawal_index", u(s.NextWithdrawalIndex)},
		{"next_withdrawal_validator_index", u(s.NextWithdrawalValIdx)},
		{"historical_summaries", strs(len(s.HistoricalSummaries), func(i int) string {
			return hx(s.HistoricalSummaries[i].Block[:]) + ":" + hx(s.HistoricalSummaries[i].State[:])
		})},
	}
}

func l2(l []string) string { return joinOr(";", l) }

// String is the full flat form (one line, no trailing newline).
func (s *State) String() string {
	var sb strings.Builder
	for i, kv := range s.Fields() {
		if i > 0 {
			sb.WriteByte(' ')
		}
		sb.WriteString(kv[0])
		sb.WriteByte('=')
		sb.WriteString(kv[1])
	}
	return sb.String()
}

// AbbrevValue: values longer than 90 characters become `#` + first 16 hex digits of SHA-256(value).
func AbbrevValue(v string) string {
	if len(v) <= 90 {
		return v
	}
	h := sha256.Sum256([]byte(v))
	return "#" + hex.EncodeToString(h[:8])
}

// Abbrev is the abbreviated flat form used for result lines.
func (s *State) Abbrev() string {
	var sb strings.Builder
	for i, kv := range s.Fields() {
		if i > 0 {
			sb.WriteByte(' ')
		}
		sb.WriteString(kv[0])
		sb.WriteByte('=')
		sb.WriteString(AbbrevValue(kv[1]))
	}
	return sb.String()
}

// ---------------------------------------------------------------------------------------------
// parsing

// KV splits a line into its key=value tokens; tokens without '=' are returned in rest (op name, plain args).
func KV(line string) (kv map[string]string, rest []string) {
	kv = map[string]string{}
	for _, t := range strings.Fields(line) {
		if i := strings.IndexByte(t, '='); i > 0 && strings.Count(t, "=") == 1 {
			kv[t[:i]] = t[i+1:]
		} else {
			rest = append(rest, t)
		}
	}
	return
}

type parser struct{ err error }

func (p *parser) fail(f string, a ...interface{}) {
	if p.err == nil {
		p.err = fmt.Errorf(f, a...)
	}
}

func (p *parser) u64(s string) uint64 {
	if s == "" || s[0] == '+' || s[0] == '-' {
		p.fail("bad number %q", s)
		return 0
	}
	v, err := strconv.ParseUint(s, 10, 64)
	if err != nil {
		p.fail("bad number %q", s)
	}
	return v
}

func (p *parser) hex(s string, n int) []byte {
	if s == "-" {
		if n > 0 {
			p.fail("expected %d bytes, got none", n)
		}
		return nil
	}
	b, err := hex.DecodeString(s)
	if err != nil || (n >= 0 && len(b) != n) {
		p.fail("bad hex (want %d bytes) %q", n, s)
		return make([]byte, max0(n))
	}
	return b
}

func max0(n int) int {
	if n < 0 {
		return 0
	}
	return n
}

func (p *parser) h32(s string) (o [32]byte) { copy(o[:], p.hex(s, 32)); return }
func (p *parser) h48(s string) (o [48]byte) { copy(o[:], p.hex(s, 48)); return }
func (p *parser) h4(s string) (o [4]byte)   { copy(o[:], p.hex(s, 4)); return }

func (p *parser) list(s, sep string) []string {
	if s == "-" {
		return nil
	}
	return strings.Split(s, sep)
}

func (p *parser) rec(s string, n int) []string {
	f := strings.Split(s, ":")
	if len(f) != n {
		p.fail("record with %d fields, want %d: %q", len(f), n, s)
		return make([]string, n)
	}
	return f
}

func (p *parser) roots(s string) [][32]byte {
	l := p.list(s, ",")
	out := make([][32]byte, len(l))
	for i := range l {
		out[i] = p.h32(l[i])
	}
	return out
}

func (p *parser) nums(s string) []uint64 {
	l := p.list(s, ",")
	out := make([]uint64, len(l))
	for i := range l {
		out[i] = p.u64(l[i])
	}
	return out
}

func (p *parser) bits(s string) []bool {
	if s == "-" {
		return nil
	}
	out := make([]bool, len(s))
	for i, c := range s {
		switch c {
		case '0':
		case '1':
			out[i] = true
		default:
			p.fail("bad bits %q", s)
		}
	}
	return out
}

func (p *parser) bool01(s string) bool {
	if s != "0" && s != "1" {
		p.fail("bad bool %q", s)
	}
	return s == "1"
}

func (p *parser) checkpoint(s string) Checkpoint {
	f := p.rec(s, 2)
	return Checkpoint{p.u64(f[0]), p.h32(f[1])}
}

func (p *parser) eth1(s string) Eth1Data {
	f := p.rec(s, 3)
	return Eth1Data{p.h32(f[0]), p.u64(f[1]), p.h32(f[2])}
}

func (p *parser) atts(s string) []PendingAtt {
	l := p.list(s, ";")
	out := make([]PendingAtt, len(l))
	for i := range l {
		f := p.rec(l[i], 10)
		out[i] = PendingAtt{Bits: p.bits(f[0]), Slot: p.u64(f[1]), Index: p.u64(f[2]), BeaconBlockRoot: p.h32(f[3]),
			Source: Checkpoint{p.u64(f[4]), p.h32(f[5])}, Target: Checkpoint{p.u64(f[6]), p.h32(f[7])},
			InclusionDelay: p.u64(f[8]), ProposerIndex: p.u64(f[9])}
	}
	return out
}

func (p *parser) sync(s string) *SyncCommittee {
	if s == "-" {
		return nil
	}
	f := p.rec(s, 2)
	c := &SyncCommittee{Aggregate: p.h48(f[0])}
	for _, k := range p.list(f[1], ",") {
		c.Pubkeys = append(c.Pubkeys, p.h48(k))
	}
	return c
}

func (p *parser) payload(s string) *PayloadHeader {
	if s == "-" {
		return nil
	}
	f := strings.Split(s, ":")
	if len(f) != 14 && len(f) != 15 && len(f) != 17 {
		p.fail("bad payload header")
		return nil
	}
	h := &PayloadHeader{ParentHash: p.h32(f[0]), StateRoot: p.h32(f[2]), ReceiptsRoot: p.h32(f[3]), PrevRandao: p.h32(f[5]),
		BlockNumber: p.u64(f[6]), GasLimit: p.u64(f[7]), GasUsed: p.u64(f[8]), Timestamp: p.u64(f[9]),
		ExtraData: p.hex(f[10], -1), BlockHash: p.h32(f[12]), TransactionsRoot: p.h32(f[13])}
	copy(h.FeeRecipient[:], p.hex(f[1], 20))
	copy(h.LogsBloom[:], p.hex(f[4], 256))
	bf, ok := new(big.Int).SetString(f[11], 10)
	if !ok || bf.Sign() < 0 || bf.BitLen() > 256 || strings.HasPrefix(f[11], "+") {
		p.fail("bad base fee %q", f[11])
		bf = new(big.Int)
	}
	h.BaseFeePerGas = bf
	if len(f) >= 15 {
		r := p.h32(f[14])
		h.WithdrawalsRoot = &r
	}
	if len(f) == 17 {
		a, b := p.u64(f[15]), p.u64(f[16])
		h.BlobGasUsed, h.ExcessBlobGas = &a, &b
	}
	return h
}

// Parse reads the state keys out of kv (see KV). Unknown keys are ignored; a missing key is an error.
func Parse(kv map[string]string) (*State, error) {
	p := &parser{}
	get := func(k string) string {
		v, ok := kv[k]
		if !ok {
			p.fail("missing %s", k)
			return "-"
		}
		return v
	}
	s := &State{Fork: get("fork")}
	if ForkIndex(s.Fork) < 0 {
		p.fail("bad fork %q", s.Fork)
	}
	s.GenesisTime = p.u64(get("genesis_time"))
	s.GenesisValidatorsRoot = p.h32(get("genesis_validators_root"))
	s.Slot = p.u64(get("slot"))
	s.ForkPrevVersion = p.h4(get("fork_previous_version"))
	s.ForkCurrVersion = p.h4(get("fork_current_version"))
	s.ForkEpoch = p.u64(get("fork_epoch"))
	hf := p.rec(get("header"), 5)
	s.Header = Header{p.u64(hf[0]), p.u64(hf[1]), p.h32(hf[2]), p.h32(hf[3]), p.h32(hf[4])}
	s.BlockRoots = p.roots(get("block_roots"))
	s.StateRoots = p.roots(get("state_roots"))
	s.HistoricalRoots = p.roots(get("historical_roots"))
	s.Eth1Data = p.eth1(get("eth1_data"))
	for _, e := range p.list(get("eth1_data_votes"), ";") {
		s.Eth1DataVotes = append(s.Eth1DataVotes, p.eth1(e))
	}
	s.Eth1DepositIndex = p.u64(get("eth1_deposit_index"))
	for _, vs := range p.list(get("validators"), ";") {
		f := p.rec(vs, 8)
		s.Validators = append(s.Validators, Validator{p.h48(f[0]), p.h32(f[1]), p.u64(f[2]), p.bool01(f[3]),
			p.u64(f[4]), p.u64(f[5]), p.u64(f[6]), p.u64(f[7])})
	}
	s.Balances = p.nums(get("balances"))
	s.RandaoMixes = p.roots(get("randao_mixes"))
	s.Slashings = p.nums(get("slashings"))
	s.PrevAtts = p.atts(get("prev_atts"))
	s.CurrAtts = p.atts(get("curr_atts"))
	jb := p.bits(get("justification_bits"))
	if len(jb) != 4 {
		p.fail("justification_bits must have 4 bits")
	} else {
		copy(s.JustificationBits[:], jb)
	}
	s.PrevJustified = p.checkpoint(get("prev_justified"))
	s.CurrJustified = p.checkpoint(get("curr_justified"))
	s.Finalized = p.checkpoint(get("finalized"))
	s.PrevParticipation = p.nums(get("prev_participation"))
	s.CurrParticipation = p.nums(get("curr_participation"))
	s.InactivityScores = p.nums(get("inactivity_scores"))
	s.CurrentSyncCommittee = p.sync(get("current_sync_committee"))
	s.NextSyncCommittee = p.sync(get("next_sync_committee"))
	s.PayloadHeader = p.payload(get("payload_header"))
	s.NextWithdrawalIndex = p.u64(get("next_withdrawal_index"))
	s.NextWithdrawalValIdx = p.u64(get("next_withdrawal_validator_index"))
	for _, e := range p.list(get("historical_summaries"), ";") {
		f := p.rec(e, 2)
		s.HistoricalSummaries = append(s.HistoricalSummaries, Summary{p.h32(f[0]), p.h32(f[1])})
	}
	return s, p.err
}

// ---------------------------------------------------------------------------------------------
// configuration

// SpecTokens dumps every uint64-like constant and every fork version of the real *common.Spec as
// `NAME=value` tokens (sorted by name). Found by reflection, so new constants appear automatically.
func SpecTokens(spec *common.Spec) string {
	out := map[string]string{}
	var walk func(v reflect.Value)
	walk = func(v reflect.Value) {
		t := v.Type()
		for i := 0; i < t.NumField(); i++ {
			f, fv := t.Field(i), v.Field(i)
			if !f.IsExported() {
				continue
			}
			switch {
			case fv.Kind() == reflect.Uint64 || fv.Kind() == reflect.Uint8:
				out[f.Name] = u(fv.Uint())
			case fv.Type() == reflect.TypeOf(common.Version{}):
				ver := fv.Interface().(common.Version)
				out[f.Name] = hx(ver[:])
			case fv.Kind() == reflect.Struct && f.Anonymous:
				walk(fv)
			}
		}
	}
	walk(reflect.ValueOf(*spec))
	keys := make([]string, 0, len(out))
	for k := range out {
		keys = append(keys, k)
	}
	sort.Strings(keys)
	var sb strings.Builder
	for i, k := range keys {
		if i > 0 {
			sb.WriteByte(' ')
		}
		sb.WriteString(k + "=" + out[k])
	}
	return sb.String()
}

// ApplySpecTokens overwrites the constants of spec named in kv (inverse of SpecTokens; unknown keys ignored).
func ApplySpecTokens(spec *common.Spec, kv map[string]string) error {
	var firstErr error
	var walk func(v reflect.Value)
	walk = func(v reflect.Value) {
		t := v.Type()
		for i := 0; i < t.NumField(); i++ {
			f, fv := t.Field(i), v.Field(i)
			if !f.IsExported() {
				continue
			}
			s, ok := kv[f.Name]
			switch {
			case fv.Kind() == reflect.Uint64 || fv.Kind() == reflect.Uint8:
				if ok {
					n, err := strconv.ParseUint(s, 10, 64)
					if err != nil || (fv.Kind() == reflect.Uint8 && n > 255) {
						if firstErr == nil {
							firstErr = fmt.Errorf("bad constant %s=%s", f.Name, s)
						}
						continue
					}
					fv.SetUint(n)
				}
			case fv.Type() == reflect.TypeOf(common.Version{}):
				if ok {
					b, err := hex.DecodeString(s)
					if err != nil || len(b) != 4 {
						if firstErr == nil {
							firstErr = fmt.Errorf("bad version %s=%s", f.Name, s)
						}
						continue
					}
					var ver common.Version
					copy(ver[:], b)
					fv.Set(reflect.ValueOf(ver))
				}
			case fv.Kind() == reflect.Struct && f.Anonymous:
				walk(fv)
			}
		}
	}
	walk(reflect.ValueOf(spec).Elem())
	return firstErr
}

// ---------------------------------------------------------------------------------------------
// from real states

func cp(c common.Checkpoint) Checkpoint { return Checkpoint{uint64(c.Epoch), c.Root} }

func rootsOf(l []common.Root) [][32]byte {
	out := make([][32]byte, len(l))
	for i := range l {
		out[i] = l[i]
	}
	return out
}

func gweis(l []common.Gwei) []uint64 {
	out := make([]uint64, len(l))
	for i := range l {
		out[i] = uint64(l[i])
	}
	return out
}

func (s *State) fillCommon(genesisTime common.Timestamp, gvr common.Root, slot common.Slot, fork common.Fork,
	hdr common.BeaconBlockHeader, br, sr phase0.HistoricalBatchRoots, hr phase0.HistoricalRoots, e1 common.Eth1Data,
	votes phase0.Eth1DataVotes, depIdx common.DepositIndex, vals phase0.ValidatorRegistry, bals phase0.Balances,
	mixes phase0.RandaoMixes, sl phase0.SlashingsHistory, jb common.JustificationBits, pj, cj, fin common.Checkpoint) {
	s.GenesisTime = uint64(genesisTime)
	s.GenesisValidatorsRoot = gvr
	s.Slot = uint64(slot)
	s.ForkPrevVersion, s.ForkCurrVersion, s.ForkEpoch = fork.PreviousVersion, fork.CurrentVersion, uint64(fork.Epoch)
	s.Header = Header{uint64(hdr.Slot), uint64(hdr.ProposerIndex), hdr.ParentRoot, hdr.StateRoot, hdr.BodyRoot}
	s.BlockRoots, s.StateRoots, s.HistoricalRoots = rootsOf(br), rootsOf(sr), rootsOf(hr)
	s.Eth1Data = Eth1Data{e1.DepositRoot, uint64(e1.DepositCount), e1.BlockHash}
	for _, v := range votes {
		s.Eth1DataVotes = append(s.Eth1DataVotes, Eth1Data{v.DepositRoot, uint64(v.DepositCount), v.BlockHash})
	}
	s.Eth1DepositIndex = uint64(depIdx)
	for _, v := range vals {
		s.Validators = append(s.Validators, Validator{v.Pubkey, v.WithdrawalCredentials, uint64(v.EffectiveBalance), v.Slashed,
			uint64(v.ActivationEligibilityEpoch), uint64(v.ActivationEpoch), uint64(v.ExitEpoch), uint64(v.WithdrawableEpoch)})
	}
	s.Balances = gweis(bals)
	s.RandaoMixes = rootsOf(mixes)
	s.Slashings = gweis(sl)
	for i := 0; i < 4; i++ {
		s.JustificationBits[i] = jb[0]&(1<<uint(i)) != 0
	}
	s.PrevJustified, s.CurrJustified, s.Finalized = cp(pj), cp(cj), cp(fin)
}

func attsOf(l phase0.PendingAttestations) []PendingAtt {
	var out []PendingAtt
	for _, a := range l {
		n := a.AggregationBits.BitLen()
		b := make([]bool, n)
		for i := uint64(0); i < n; i++ {
			b[i] = a.AggregationBits.GetBit(i)
		}
		out = append(out, PendingAtt{Bits: b, Slot: uint64(a.Data.Slot), Index: uint64(a.Data.Index), BeaconBlockRoot: a.Data.BeaconBlockRoot,
			Source: cp(a.Data.Source), Target: cp(a.Data.Target), InclusionDelay: uint64(a.InclusionDelay), ProposerIndex: uint64(a.ProposerIndex)})
	}
	return out
}

func (s *State) fillAltair(pp, cpn altair.ParticipationRegistry, is altair.InactivityScores, csc, nsc common.SyncCommittee) {
	s.PrevParticipation = make([]uint64, len(pp))
	for i := range pp {
		s.PrevParticipation[i] = uint64(pp[i])
	}
	s.CurrParticipation = make([]uint64, len(cpn))
	for i := range cpn {
		s.CurrParticipation[i] = uint64(cpn[i])
	}
	s.InactivityScores = make([]uint64, len(is))
	for i := range is {
		s.InactivityScores[i] = uint64(is[i])
	}
	conv := func(c common.SyncCommittee) *SyncCommittee {
		o := &SyncCommittee{Aggregate: c.AggregatePubkey}
		for _, k := range c.Pubkeys {
			o.Pubkeys = append(o.Pubkeys, k)
		}
		return o
	}
	s.CurrentSyncCommittee, s.NextSyncCommittee = conv(csc), conv(nsc)
}

func u256big(v view.Uint256View) *big.Int {
	b := v.Bytes32() // little endian
	for i, j := 0, 31; i < j; i, j = i+1, j-1 {
		b[i], b[j] = b[j], b[i]
	}
	return new(big.Int).SetBytes(b[:])
}

func FromPhase0(r *phase0.BeaconState) *State {
	s := &State{Fork: "phase0"}
	s.fillCommon(r.GenesisTime, r.GenesisValidatorsRoot, r.Slot, r.Fork, r.LatestBlockHeader, r.BlockRoots, r.StateRoots, r.HistoricalRoots,
		r.Eth1Data, r.Eth1DataVotes, r.Eth1DepositIndex, r.Validators, r.Balances, r.RandaoMixes, r.Slashings, r.JustificationBits,
		r.PreviousJustifiedCheckpoint, r.CurrentJustifiedCheckpoint, r.FinalizedCheckpoint)
	s.PrevAtts, s.CurrAtts = attsOf(r.PreviousEpochAttestations), attsOf(r.CurrentEpochAttestations)
	return s
}

func FromAltair(r *altair.BeaconState) *State {
	s := &State{Fork: "altair"}
	s.fillCommon(r.GenesisTime, r.GenesisValidatorsRoot, r.Slot, r.Fork, r.LatestBlockHeader, r.BlockRoots, r.StateRoots, r.HistoricalRoots,
		r.Eth1Data, r.Eth1DataVotes, r.Eth1DepositIndex, r.Validators, r.Balances, r.RandaoMixes, r.Slashings, r.JustificationBits,
		r.PreviousJustifiedCheckpoint, r.CurrentJustifiedCheckpoint, r.FinalizedCheckpoint)
	s.fillAltair(r.PreviousEpochParticipation, r.CurrentEpochParticipation, r.InactivityScores, r.CurrentSyncCommittee, r.NextSyncCommittee)
	return s
}

func FromBellatrix(r *bellatrix.BeaconState) *State {
	s := &State{Fork: "bellatrix"}
	s.fillCommon(r.GenesisTime, r.GenesisValidatorsRoot, r.Slot, r.Fork, r.LatestBlockHeader, r.BlockRoots, r.StateRoots, r.HistoricalRoots,
		r.Eth1Data, r.Eth1DataVotes, r.Eth1DepositIndex, r.Validators, r.Balances, r.RandaoMixes, r.Slashings, r.JustificationBits,
		r.PreviousJustifiedCheckpoint, r.CurrentJustifiedCheckpoint, r.FinalizedCheckpoint)
	s.fillAltair(r.PreviousEpochParticipation, r.CurrentEpochParticipation, r.InactivityScores, r.CurrentSyncCommittee, r.NextSyncCommittee)
	h := &r.LatestExecutionPayloadHeader
	s.PayloadHeader = &PayloadHeader{ParentHash: h.ParentHash, FeeRecipient: h.FeeRecipient, StateRoot: h.StateRoot, ReceiptsRoot: h.ReceiptsRoot,
		LogsBloom: h.LogsBloom, PrevRandao: h.PrevRandao, BlockNumber: uint64(h.BlockNumber), GasLimit: uint64(h.GasLimit), GasUsed: uint64(h.GasUsed),
		Timestamp: uint64(h.Timestamp), ExtraData: append([]byte{}, h.ExtraData...), BaseFeePerGas: u256big(h.BaseFeePerGas),
		BlockHash: h.BlockHash, TransactionsRoot: h.TransactionsRoot}
	return s
}

func summaries(l capella.HistoricalSummaries) []Summary {
	var out []Summary
	for _, x := range l {
		out = append(out, Summary{x.BlockSummaryRoot, x.StateSummaryRoot})
	}
	return out
}

func FromCapella(r *capella.BeaconState) *State {
	s := &State{Fork: "capella"}
	s.fillCommon(r.GenesisTime, r.GenesisValidatorsRoot, r.Slot, r.Fork, r.LatestBlockHeader, r.BlockRoots, r.StateRoots, r.HistoricalRoots,
		r.Eth1Data, r.Eth1DataVotes, r.Eth1DepositIndex, r.Validators, r.Balances, r.RandaoMixes, r.Slashings, r.JustificationBits,
		r.PreviousJustifiedCheckpoint, r.CurrentJustifiedCheckpoint, r.FinalizedCheckpoint)
	s.fillAltair(r.PreviousEpochParticipation, r.CurrentEpochParticipation, r.InactivityScores, r.CurrentSyncCommittee, r.NextSyncCommittee)
	h := &r.LatestExecutionPayloadHeader
	wr := [32]byte(h.WithdrawalsRoot)
	s.PayloadHeader = &PayloadHeader{ParentHash: h.ParentHash, FeeRecipient: h.FeeRecipient, StateRoot: h.StateRoot, ReceiptsRoot: h.ReceiptsRoot,
		LogsBloom: h.LogsBloom, PrevRandao: h.PrevRandao, BlockNumber: uint64(h.BlockNumber), GasLimit: uint64(h.GasLimit), GasUsed: uint64(h.GasUsed),
		Timestamp: uint64(h.Timestamp), ExtraData: append([]byte{}, h.ExtraData...), BaseFeePerGas: u256big(h.BaseFeePerGas),
		BlockHash: h.BlockHash, TransactionsRoot: h.TransactionsRoot, WithdrawalsRoot: &wr}
	s.NextWithdrawalIndex, s.NextWithdrawalValIdx = uint64(r.NextWithdrawalIndex), uint64(r.NextWithdrawalValidatorIndex)
	s.HistoricalSummaries = summaries(r.HistoricalSummaries)
	return s
}

func FromDeneb(r *deneb.BeaconState) *State {
	s := &State{Fork: "deneb"}
	s.fillCommon(r.GenesisTime, r.GenesisValidatorsRoot, r.Slot, r.Fork, r.LatestBlockHeader, r.BlockRoots, r.StateRoots, r.HistoricalRoots,
		r.Eth1Data, r.Eth1DataVotes, r.Eth1DepositIndex, r.Validators, r.Balances, r.RandaoMixes, r.Slashings, r.JustificationBits,
		r.PreviousJustifiedCheckpoint, r.CurrentJustifiedCheckpoint, r.FinalizedCheckpoint)
	s.fillAltair(r.PreviousEpochParticipation, r.CurrentEpochParticipation, r.InactivityScores, r.CurrentSyncCommittee, r.NextSyncCommittee)
	h := &r.LatestExecutionPayloadHeader
	wr := [32]byte(h.WithdrawalsRoot)
	bgu, ebg := uint64(h.BlobGasUsed), uint64(h.ExcessBlobGas)
	s.PayloadHeader = &PayloadHeader{ParentHash: h.ParentHash, FeeRecipient: h.FeeRecipient, StateRoot: h.StateRoot, ReceiptsRoot: h.ReceiptsRoot,
		LogsBloom: h.LogsBloom, PrevRandao: h.PrevRandao, BlockNumber: uint64(h.BlockNumber), GasLimit: uint64(h.GasLimit), GasUsed: uint64(h.GasUsed),
		Timestamp: uint64(h.Timestamp), ExtraData: append([]byte{}, h.ExtraData...), BaseFeePerGas: u256big(h.BaseFeePerGas),
		BlockHash: h.BlockHash, TransactionsRoot: h.TransactionsRoot, WithdrawalsRoot: &wr, BlobGasUsed: &bgu, ExcessBlobGas: &ebg}
	s.NextWithdrawalIndex, s.NextWithdrawalValIdx = uint64(r.NextWithdrawalIndex), uint64(r.NextWithdrawalValidatorIndex)
	s.HistoricalSummaries = summaries(r.HistoricalSummaries)
	return s
}

// Unwrap strips wrappers such as beacon.StandardUpgradeableBeaconState (anything with an embedded common.BeaconState).
func Unwrap(st common.BeaconState) common.BeaconState {
	for {
		v := reflect.ValueOf(st)
		if v.Kind() == reflect.Ptr {
			v = v.Elem()
		}
		if v.Kind() != reflect.Struct {
			return st
		}
		f := v.FieldByName("BeaconState")
		if !f.IsValid() || f.Kind() != reflect.Interface || f.IsNil() {
			return st
		}
		inner, ok := f.Interface().(common.BeaconState)
		if !ok {
			return st
		}
		st = inner
	}
}

// From converts a real state view of any supported fork.
func From(spec *common.Spec, st common.BeaconState) (*State, error) {
	switch v := Unwrap(st).(type) {
	case *phase0.BeaconStateView:
		r, err := v.Raw(spec)
		if err != nil {
			return nil, err
		}
		return FromPhase0(r), nil
	case *altair.BeaconStateView:
		r, err := v.Raw(spec)
		if err != nil {
			return nil, err
		}
		return FromAltair(r), nil
	case *bellatrix.BeaconStateView:
		r, err := v.Raw(spec)
		if err != nil {
			return nil, err
		}
		return FromBellatrix(r), nil
	case *capella.BeaconStateView:
		r, err := v.Raw(spec)
		if err != nil {
			return nil, err
		}
		return FromCapella(r), nil
	case *deneb.BeaconStateView:
		r, err := v.Raw(spec)
		if err != nil {
			return nil, err
		}
		return FromDeneb(r), nil
	}
	return nil, fmt.Errorf("flat.From: unsupported state type %T", st)
}

// ---------------------------------------------------------------------------------------------
// back to real states

func toRoots(l [][32]byte) []common.Root {
	out := make([]common.Root, len(l))
	for i := range l {
		out[i] = l[i]
	}
	return out
}

func toGweis(l []uint64) []common.Gwei {
	out := make([]common.Gwei, len(l))
	for i := range l {
		out[i] = common.Gwei(l[i])
	}
	return out
}

func toCp(c Checkpoint) common.Checkpoint {
	return common.Checkpoint{Epoch: common.Epoch(c.Epoch), Root: c.Root}
}

func (s *State) vals() phase0.ValidatorRegistry {
	out := make(phase0.ValidatorRegistry, len(s.Validators))
	for i, v := range s.Validators {
		out[i] = &phase0.Validator{Pubkey: v.Pubkey, WithdrawalCredentials: v.WithdrawalCredentials, EffectiveBalance: common.Gwei(v.EffectiveBalance),
			Slashed: v.Slashed, ActivationEligibilityEpoch: common.Epoch(v.ActivationEligibilityEpoch), ActivationEpoch: common.Epoch(v.ActivationEpoch),
			ExitEpoch: common.Epoch(v.ExitEpoch), WithdrawableEpoch: common.Epoch(v.WithdrawableEpoch)}
	}
	return out
}

func (s *State) votes() phase0.Eth1DataVotes {
	out := make(phase0.Eth1DataVotes, len(s.Eth1DataVotes))
	for i, e := range s.Eth1DataVotes {
		out[i] = common.Eth1Data{DepositRoot: e.DepositRoot, DepositCount: common.DepositIndex(e.DepositCount), BlockHash: e.BlockHash}
	}
	return out
}

func (s *State) jbits() common.JustificationBits {
	var b common.JustificationBits
	for i := 0; i < 4; i++ {
		if s.JustificationBits[i] {
			b[0] |= 1 << uint(i)
		}
	}
	return b
}

func toAtts(l []PendingAtt) phase0.PendingAttestations {
	out := make(phase0.PendingAttestations, len(l))
	for i, a := range l {
		n := len(a.Bits)
		raw := make(phase0.AttestationBits, n/8+1)
		for j, b := range a.Bits {
			if b {
				raw[j/8] |= 1 << uint(j%8)
			}
		}
		raw[n/8] |= 1 << uint(n%8) // delimiter
		out[i] = &phase0.PendingAttestation{AggregationBits: raw, Data: phase0.AttestationData{Slot: common.Slot(a.Slot), Index: common.CommitteeIndex(a.Index),
			BeaconBlockRoot: a.BeaconBlockRoot, Source: toCp(a.Source), Target: toCp(a.Target)},
			InclusionDelay: common.Slot(a.InclusionDelay), ProposerIndex: common.ValidatorIndex(a.ProposerIndex)}
	}
	return out
}

func toPart(l []uint64) altair.ParticipationRegistry {
	out := make(altair.ParticipationRegistry, len(l))
	for i := range l {
		out[i] = altair.ParticipationFlags(l[i])
	}
	return out
}

func toScores(l []uint64) altair.InactivityScores {
	out := make(altair.InactivityScores, len(l))
	for i := range l {
		out[i] = view.Uint64View(l[i])
	}
	return out
}

func toSync(c *SyncCommittee) common.SyncCommittee {
	if c == nil {
		return common.SyncCommittee{}
	}
	o := common.SyncCommittee{AggregatePubkey: c.Aggregate}
	for _, k := range c.Pubkeys {
		o.Pubkeys = append(o.Pubkeys, k)
	}
	return o
}

func bigTo256(b *big.Int) (v view.Uint256View) {
	if b != nil {
		v.SetFromBig(b)
	}
	return
}

func (s *State) fork() common.Fork {
	return common.Fork{PreviousVersion: s.ForkPrevVersion, CurrentVersion: s.ForkCurrVersion, Epoch: common.Epoch(s.ForkEpoch)}
}

func (s *State) hdr() common.BeaconBlockHeader {
	return common.BeaconBlockHeader{Slot: common.Slot(s.Header.Slot), ProposerIndex: common.ValidatorIndex(s.Header.ProposerIndex),
		ParentRoot: s.Header.ParentRoot, StateRoot: s.Header.StateRoot, BodyRoot: s.Header.BodyRoot}
}

func (s *State) e1() common.Eth1Data {
	return common.Eth1Data{DepositRoot: s.Eth1Data.DepositRoot, DepositCount: common.DepositIndex(s.Eth1Data.DepositCount), BlockHash: s.Eth1Data.BlockHash}
}

func toSummaries(l []Summary) capella.HistoricalSummaries {
	out := make(capella.HistoricalSummaries, len(l))
	for i, x := range l {
		out[i] = capella.HistoricalSummary{BlockSummaryRoot: x.Block, StateSummaryRoot: x.State}
	}
	return out
}

type serializable interface {
	Serialize(spec *common.Spec, w *codec.EncodingWriter) error
}

func encode(spec *common.Spec, v serializable) ([]byte, error) {
	var buf bytes.Buffer
	if err := v.Serialize(spec, codec.NewEncodingWriter(&buf)); err != nil {
		return nil, err
	}
	return buf.Bytes(), nil
}

// ToView builds the real zrnt tree-view state of the fork named by s.Fork (struct form -> SSZ -> view).
// Vector-length mismatches with the spec (block_roots, randao_mixes, …) surface as an error here.
func (s *State) ToView(spec *common.Spec) (common.BeaconState, error) {
	if uint64(len(s.BlockRoots)) != uint64(spec.SLOTS_PER_HISTORICAL_ROOT) || uint64(len(s.StateRoots)) != uint64(spec.SLOTS_PER_HISTORICAL_ROOT) ||
		uint64(len(s.RandaoMixes)) != uint64(spec.EPOCHS_PER_HISTORICAL_VECTOR) || uint64(len(s.Slashings)) != uint64(spec.EPOCHS_PER_SLASHINGS_VECTOR) {
		return nil, errors.New("flat.ToView: vector length does not match the spec")
	}
	if s.Fork != "phase0" {
		if s.CurrentSyncCommittee == nil || s.NextSyncCommittee == nil ||
			uint64(len(s.CurrentSyncCommittee.Pubkeys)) != uint64(spec.SYNC_COMMITTEE_SIZE) || uint64(len(s.NextSyncCommittee.Pubkeys)) != uint64(spec.SYNC_COMMITTEE_SIZE) {
			return nil, errors.New("flat.ToView: sync committee size does not match the spec")
		}
	}
	dec := func(data []byte) *codec.DecodingReader {
		return codec.NewDecodingReader(bytes.NewReader(data), uint64(len(data)))
	}
	ph := s.PayloadHeader
	if ph == nil {
		ph = &PayloadHeader{}
	}
	switch s.Fork {
	case "phase0":
		r := &phase0.BeaconState{GenesisTime: common.Timestamp(s.GenesisTime), GenesisValidatorsRoot: s.GenesisValidatorsRoot, Slot: common.Slot(s.Slot), Fork: s.fork(),
			LatestBlockHeader: s.hdr(), BlockRoots: toRoots(s.BlockRoots), StateRoots: toRoots(s.StateRoots), HistoricalRoots: toRoots(s.HistoricalRoots),
			Eth1Data: s.e1(), Eth1DataVotes: s.votes(), Eth1DepositIndex: common.DepositIndex(s.Eth1DepositIndex), Validators: s.vals(), Balances: toGweis(s.Balances),
			RandaoMixes: toRoots(s.RandaoMixes), Slashings: toGweis(s.Slashings), PreviousEpochAttestations: toAtts(s.PrevAtts), CurrentEpochAttestations: toAtts(s.CurrAtts),
			JustificationBits: s.jbits(), PreviousJustifiedCheckpoint: toCp(s.PrevJustified), CurrentJustifiedCheckpoint: toCp(s.CurrJustified), FinalizedCheckpoint: toCp(s.Finalized)}
		data, err := encode(spec, r)
		if err != nil {
			return nil, err
		}
		return phase0.AsBeaconStateView(phase0.BeaconStateType(spec).Deserialize(dec(data)))
	case "altair":
		r := &altair.BeaconState{GenesisTime: common.Timestamp(s.GenesisTime), GenesisValidatorsRoot: s.GenesisValidatorsRoot, Slot: common.Slot(s.Slot), Fork: s.fork(),
			LatestBlockHeader: s.hdr(), BlockRoots: toRoots(s.BlockRoots), StateRoots: toRoots(s.StateRoots), HistoricalRoots: toRoots(s.HistoricalRoots),
			Eth1Data: s.e1(), Eth1DataVotes: s.votes(), Eth1DepositIndex: common.DepositIndex(s.Eth1DepositIndex), Validators: s.vals(), Balances: toGweis(s.Balances),
			RandaoMixes: toRoots(s.RandaoMixes), Slashings: toGweis(s.Slashings), PreviousEpochParticipation: toPart(s.PrevParticipation), CurrentEpochParticipation: toPart(s.CurrParticipation),
			JustificationBits: s.jbits(), PreviousJustifiedCheckpoint: toCp(s.PrevJustified), CurrentJustifiedCheckpoint: toCp(s.CurrJustified), FinalizedCheckpoint: toCp(s.Finalized),
			InactivityScores: toScores(s.InactivityScores), CurrentSyncCommittee: toSync(s.CurrentSyncCommittee), NextSyncCommittee: toSync(s.NextSyncCommittee)}
		data, err := encode(spec, r)
		if err != nil {
			return nil, err
		}
		return altair.AsBeaconStateView(altair.BeaconStateType(spec).Deserialize(dec(data)))
	case "bellatrix":
		r := &bellatrix.BeaconState{GenesisTime: common.Timestamp(s.GenesisTime), GenesisValidatorsRoot: s.GenesisValidatorsRoot, Slot: common.Slot(s.Slot), Fork: s.fork(),
			LatestBlockHeader: s.hdr(), BlockRoots: toRoots(s.BlockRoots), StateRoots: toRoots(s.StateRoots), HistoricalRoots: toRoots(s.HistoricalRoots),
			Eth1Data: s.e1(), Eth1DataVotes: s.votes(), Eth1DepositIndex: common.DepositIndex(s.Eth1DepositIndex), Validators: s.vals(), Balances: toGweis(s.Balances),
			RandaoMixes: toRoots(s.RandaoMixes), Slashings: toGweis(s.Slashings), PreviousEpochParticipation: toPart(s.PrevParticipation), CurrentEpochParticipation: toPart(s.CurrParticipation),
			JustificationBits: s.jbits(), PreviousJustifiedCheckpoint: toCp(s.PrevJustified), CurrentJustifiedCheckpoint: toCp(s.CurrJustified), FinalizedCheckpoint: toCp(s.Finalized),
			InactivityScores: toScores(s.InactivityScores), CurrentSyncCommittee: toSync(s.CurrentSyncCommittee), NextSyncCommittee: toSync(s.NextSyncCommittee),
			LatestExecutionPayloadHeader: bellatrix.ExecutionPayloadHeader{ParentHash: ph.ParentHash, FeeRecipient: ph.FeeRecipient, StateRoot: ph.StateRoot, ReceiptsRoot: ph.ReceiptsRoot,
				LogsBloom: ph.LogsBloom, PrevRandao: ph.PrevRandao, BlockNumber: view.Uint64View(ph.BlockNumber), GasLimit: view.Uint64View(ph.GasLimit), GasUsed: view.Uint64View(ph.GasUsed),
				Timestamp: common.Timestamp(ph.Timestamp), ExtraData: ph.ExtraData, BaseFeePerGas: bigTo256(ph.BaseFeePerGas), BlockHash: ph.BlockHash, TransactionsRoot: ph.TransactionsRoot}}
		data, err := encode(spec, r)
		if err != nil {
			return nil, err
		}
		return bellatrix.AsBeaconStateView(bellatrix.BeaconStateType(spec).Deserialize(dec(data)))
	case "capella":
		var wr common.Root
		if ph.WithdrawalsRoot != nil {
			wr = *ph.WithdrawalsRoot
		}
		r := &capella.BeaconState{GenesisTime: common.Timestamp(s.GenesisTime), GenesisValidatorsRoot: s.GenesisValidatorsRoot, Slot: common.Slot(s.Slot), Fork: s.fork(),
			LatestBlockHeader: s.hdr(), BlockRoots: toRoots(s.BlockRoots), StateRoots: toRoots(s.StateRoots), HistoricalRoots: toRoots(s.HistoricalRoots),
			Eth1Data: s.e1(), Eth1DataVotes: s.votes(), Eth1DepositIndex: common.DepositIndex(s.Eth1DepositIndex), Validators: s.vals(), Balances: toGweis(s.Balances),
			RandaoMixes: toRoots(s.RandaoMixes), Slashings: toGweis(s.Slashings), PreviousEpochParticipation: toPart(s.PrevParticipation), CurrentEpochParticipation: toPart(s.CurrParticipation),
			JustificationBits: s.jbits(), PreviousJustifiedCheckpoint: toCp(s.PrevJustified), CurrentJustifiedCheckpoint: toCp(s.CurrJustified), FinalizedCheckpoint: toCp(s.Finalized),
			InactivityScores: toScores(s.InactivityScores), CurrentSyncCommittee: toSync(s.CurrentSyncCommittee), NextSyncCommittee: toSync(s.NextSyncCommittee),
			LatestExecutionPayloadHeader: capella.ExecutionPayloadHeader{ParentHash: ph.ParentHash, FeeRecipient: ph.FeeRecipient, StateRoot: ph.StateRoot, ReceiptsRoot: ph.ReceiptsRoot,
				LogsBloom: ph.LogsBloom, PrevRandao: ph.PrevRandao, BlockNumber: view.Uint64View(ph.BlockNumber), GasLimit: view.Uint64View(ph.GasLimit), GasUsed: view.Uint64View(ph.GasUsed),
				Timestamp: common.Timestamp(ph.Timestamp), ExtraData: ph.ExtraData, BaseFeePerGas: bigTo256(ph.BaseFeePerGas), BlockHash: ph.BlockHash, TransactionsRoot: ph.TransactionsRoot,
				WithdrawalsRoot: wr},
			NextWithdrawalIndex: common.WithdrawalIndex(s.NextWithdrawalIndex), NextWithdrawalValidatorIndex: common.ValidatorIndex(s.NextWithdrawalValIdx),
			HistoricalSummaries: toSummaries(s.HistoricalSummaries)}
		data, err := encode(spec, r)
		if err != nil {
			return nil, err
		}
		return capella.AsBeaconStateView(capella.BeaconStateType(spec).Deserialize(dec(data)))
	case "deneb":
		var wr common.Root
		if ph.WithdrawalsRoot != nil {
			wr = *ph.WithdrawalsRoot
		}
		var bgu, ebg uint64
		if ph.BlobGasUsed != nil {
			bgu = *ph.BlobGasUsed
		}
		if ph.ExcessBlobGas != nil {
			ebg = *ph.ExcessBlobGas
		}
		r := &deneb.BeaconState{GenesisTime: common.Timestamp(s.GenesisTime), GenesisValidatorsRoot: s.GenesisValidatorsRoot, Slot: common.Slot(s.Slot), Fork: s.fork(),
			LatestBlockHeader: s.hdr(), BlockRoots: toRoots(s.BlockRoots), StateRoots: toRoots(s.StateRoots), HistoricalRoots: toRoots(s.HistoricalRoots),
			Eth1Data: s.e1(), Eth1DataVotes: s.votes(), Eth1DepositIndex: common.DepositIndex(s.Eth1DepositIndex), Validators: s.vals(), Balances: toGweis(s.Balances),
			RandaoMixes: toRoots(s.RandaoMixes), Slashings: toGweis(s.Slashings), PreviousEpochParticipation: toPart(s.PrevParticipation), CurrentEpochParticipation: toPart(s.CurrParticipation),
			JustificationBits: s.jbits(), PreviousJustifiedCheckpoint: toCp(s.PrevJustified), CurrentJustifiedCheckpoint: toCp(s.CurrJustified), FinalizedCheckpoint: toCp(s.Finalized),
			InactivityScores: toScores(s.InactivityScores), CurrentSyncCommittee: toSync(s.CurrentSyncCommittee), NextSyncCommittee: toSync(s.NextSyncCommittee),
			LatestExecutionPayloadHeader: deneb.ExecutionPayloadHeader{ParentHash: ph.ParentHash, FeeRecipient: ph.FeeRecipient, StateRoot: ph.StateRoot, ReceiptsRoot: ph.ReceiptsRoot,
				LogsBloom: ph.LogsBloom, PrevRandao: ph.PrevRandao, BlockNumber: view.Uint64View(ph.BlockNumber), GasLimit: view.Uint64View(ph.GasLimit), GasUsed: view.Uint64View(ph.GasUsed),
				Timestamp: common.Timestamp(ph.Timestamp), ExtraData: ph.ExtraData, BaseFeePerGas: bigTo256(ph.BaseFeePerGas), BlockHash: ph.BlockHash, TransactionsRoot: ph.TransactionsRoot,
				WithdrawalsRoot: wr, BlobGasUsed: view.Uint64View(bgu), ExcessBlobGas: view.Uint64View(ebg)},
			NextWithdrawalIndex: common.WithdrawalIndex(s.NextWithdrawalIndex), NextWithdrawalValidatorIndex: common.ValidatorIndex(s.NextWithdrawalValIdx),
			HistoricalSummaries: toSummaries(s.HistoricalSummaries)}
		data, err := encode(spec, r)
		if err != nil {
			return nil, err
		}
		return deneb.AsBeaconStateView(deneb.BeaconStateType(spec).Deserialize(dec(data)))
	}
	return nil, fmt.Errorf("flat.ToView: unknown fork %q", s.Fork)
}
