// Package c19: numeric, time and Merkle helpers (property C19), driven over boundary-heavy inputs.
package c19

import (
	"bufio"
	"encoding/hex"
	"fmt"
	"math/rand"
	"strconv"
	"time"

	"github.com/protolambda/zrnt/eth2/beacon/common"
	"github.com/protolambda/zrnt/eth2/beacon/phase0"
	"github.com/protolambda/zrnt/eth2/gossipval"
	"github.com/protolambda/zrnt/eth2/util/hashing"
	zmath "github.com/protolambda/zrnt/eth2/util/math"
	"github.com/protolambda/zrnt/eth2/util/merkle"
	"github.com/protolambda/ztyp/tree"
	"github.com/protolambda/ztyp/view"

	"verifharness/internal/hreg"
)

func init() { hreg.Register(&hreg.Mode{Name: "c19", Gen: gen, Exec: exec}) }

const maxU = ^uint64(0)

// interesting returns boundary values: 0,1, 2^k, 2^k±1, perfect squares ±1, top of the range.
func interesting() []uint64 {
	set := map[uint64]bool{}
	add := func(v uint64) { set[v] = true }
	for k := uint(0); k < 64; k++ {
		p := uint64(1) << k
		add(p)
		add(p - 1)
		add(p + 1)
		add(maxU - p)
		add(maxU - p + 1)
	}
	for _, r := range []uint64{0, 1, 2, 3, 4, 5, 7, 10, 255, 256, 65535, 65536, 1<<31 - 1, 1 << 31, 1<<32 - 2, 1<<32 - 1, 3037000499, 3037000500, 4294967295} {
		sq := r * r
		add(sq)
		add(sq - 1)
		add(sq + 1)
		add(r*r + 2*r) // (r+1)^2 - 1 (may wrap for the largest r; still a fine test value)
	}
	add(0)
	add(maxU)
	add(maxU - 1)
	add(maxU - 2)
	out := make([]uint64, 0, len(set))
	for v := range set {
		out = append(out, v)
	}
	// deterministic order
	for i := 1; i < len(out); i++ {
		for j := i; j > 0 && out[j] < out[j-1]; j-- {
			out[j], out[j-1] = out[j-1], out[j]
		}
	}
	return out
}

func rnd64(rng *rand.Rand) uint64 {
	switch rng.Intn(6) {
	case 0:
		return rng.Uint64()
	case 1:
		return rng.Uint64() >> uint(rng.Intn(64))
	case 2:
		r := rng.Uint64() >> 32
		return r*r + uint64(rng.Intn(3)) - 1
	case 3:
		return maxU - (rng.Uint64() >> uint(rng.Intn(64)))
	case 4:
		return uint64(rng.Intn(2000))
	default:
		return (uint64(1) << uint(rng.Intn(64))) + uint64(rng.Intn(3)) - 1
	}
}

func gen(o hreg.Opts, w *bufio.Writer) error {
	rng := o.Rand()
	st := o.Stats
	line := func(kind string, f string, a ...interface{}) {
		st.Add("op", kind)
		fmt.Fprintf(w, kind+" "+f+"\n", a...)
	}
	in := interesting()
	small := []uint64{1, 2, 3, 4, 6, 8, 12, 32, 64, 128, 2048, 65536, 1 << 32, 1<<63 - 1, 1 << 63, maxU}
	// the float-estimate square root: every perfect square of the table and its neighbours, k^2-1 for k whose
	// square is not exactly representable in a float64 (k >= 2^27), top of the range
	for k := uint(0); k <= 32; k++ {
		r := uint64(1) << k
		for _, d := range []uint64{0, 1, 2, 3} {
			for _, q := range []uint64{r - d, r + d} {
				sq := q * q
				if q <= 4294967295 {
					line("isqrtp", "%d", sq)
					line("isqrtp", "%d", sq-1)
					line("isqrtp", "%d", sq+1)
					line("isqrtp", "%d", sq+2*q) // (q+1)^2 - 1
				}
			}
		}
	}
	// attestation subnets: guard boundary committeeIndex = committeesPerSlot*SLOTS_PER_EPOCH (-1, +0, +1), wrapping products
	for _, spe := range []uint64{0, 1, 6, 8, 32, 48, 1 << 32, maxU} {
		for _, cps := range []uint64{0, 1, 3, 4, 64, 65, 1 << 31, 1 << 32, maxU / 32, maxU} {
			lim := cps * spe
			for _, ci := range []uint64{0, 1, 63, 64, lim - 1, lim, lim + 1, maxU} {
				for _, slot := range []uint64{0, 1, spe - 1, spe, 2*spe + 5, maxU} {
					line("subnet", "%d %d %d %d", spe, cps, slot, ci)
				}
			}
		}
	}
	for _, v := range in {
		line("isqrtp", "%d", v)
		line("isqrt", "%d", v)
		line("ispow2", "%d", v)
		line("nextpow2", "%d", v)
		line("slotprev", "%d", v)
		line("epochprev", "%d", v)
		for _, s := range small {
			line("slottoepoch", "%d %d", s, v)
			line("epochstart", "%d %d", s, v)
			line("actexit", "%d %d", s%1024, v)
		}
	}
	for _, a := range in[:40] {
		for _, b := range in[len(in)-40:] {
			line("maxu64", "%d %d", a, b)
			line("minu64", "%d %d", b, a)
		}
	}
	// time conversions around the overflow boundary
	for _, sps := range []uint64{1, 2, 6, 12, 13, 1 << 20, 1 << 40, maxU} {
		for _, g := range []uint64{0, 1, 1606824023, 1 << 40, maxU - 12, maxU - 1, maxU} {
			lim := (maxU - g) / sps
			for _, s := range []uint64{0, 1, lim - 2, lim - 1, lim, lim + 1, lim + 2, maxU} {
				line("timeatslot", "%d %d %d", sps, s, g)
			}
			for _, t := range []uint64{0, g - 1, g, g + 1, g + sps - 1, g + sps, g + sps + 1, maxU} {
				line("timetoslot", "%d %d %d", sps, t, g)
			}
		}
	}
	for _, n := range in {
		line("churn", "%d %d %d", 4, 65536, n)
		line("churn", "%d %d %d", 2, 32, n)
		line("committeecount", "32 128 64 %d", n)
		line("committeecount", "8 4 4 %d", n)
	}
	n := o.Pick(20000, 1000000)
	for i := 0; i < n; i++ {
		switch i % 16 {
		case 14:
			if i%32 == 14 {
				// k^2 - 1 and k^2 for large k: float64(k^2-1) rounds up to k^2 when k >= 2^27
				k := uint64(1)<<27 + rng.Uint64()%((uint64(1)<<32)-(uint64(1)<<27))
				line("isqrtp", "%d", k*k-uint64(rng.Intn(2)))
			} else {
				line("isqrtp", "%d", rnd64(rng))
			}
		case 15:
			spe, cps := 1+uint64(rng.Intn(64)), uint64(rng.Intn(70))
			ci := uint64(rng.Intn(int(cps*spe) + 3))
			line("subnet", "%d %d %d %d", spe, cps, rnd64(rng), ci)
		case 0:
			line("isqrt", "%d", rnd64(rng))
		case 1:
			line("nextpow2", "%d", rnd64(rng))
		case 2:
			line("ispow2", "%d", rnd64(rng))
		case 3:
			line("timetoslot", "%d %d %d", 1+rnd64(rng)%maxU, rnd64(rng), rnd64(rng))
		case 4:
			line("timeatslot", "%d %d %d", 1+rnd64(rng)%maxU, rnd64(rng), rnd64(rng))
		case 5:
			sps, g := 1+uint64(rng.Intn(64)), rnd64(rng)
			lim := (maxU - g) / sps
			line("timeatslot", "%d %d %d", sps, lim+uint64(rng.Intn(5))-2, g)
		case 6:
			line("epochstart", "%d %d", 1+uint64(rng.Intn(64)), rnd64(rng))
		case 7:
			spe := 1 + rnd64(rng)%maxU
			line("epochstart", "%d %d", spe, maxU/spe+uint64(rng.Intn(5))-2)
		case 8:
			line("churn", "%d %d %d", rnd64(rng), 1+rnd64(rng)%maxU, rnd64(rng))
		case 9:
			line("committeecount", "%d %d %d %d", 1+uint64(rng.Intn(64)), 1+uint64(rng.Intn(256)), uint64(rng.Intn(130)), rnd64(rng))
		case 10:
			a := rnd64(rng)
			line("slotspan", "%d %d %d %d", a, a+uint64(rng.Intn(40)), a+uint64(rng.Intn(60))-10, uint64(rng.Intn(40)))
		case 11:
			line("slotspan", "%d %d %d %d", rnd64(rng), rnd64(rng), rnd64(rng), rnd64(rng))
		case 12:
			line("actexit", "%d %d", uint64(rng.Intn(16)), rnd64(rng))
		case 13:
			line("slottoepoch", "%d %d", 1+rnd64(rng)%maxU, rnd64(rng))
		}
	}
	// Merkle branches: honest proofs from random trees of every depth 0..64 (sparse path), and corruptions.
	m := o.Pick(500, 20000)
	for i := 0; i < m; i++ {
		// depths 0..72: beyond 64 every further level treats the node as a left child (bit i of a
		// 64-bit index is 0 for i >= 64); the code must neither panic nor misplace the sibling there
		depth := uint64(i % 73)
		if i >= 73*3 {
			depth = uint64(rng.Intn(40))
			if rng.Intn(10) == 0 {
				depth = 60 + uint64(rng.Intn(20))
			}
		}
		var leaf tree.Root
		rng.Read(leaf[:])
		extra := rng.Intn(3)
		branch := make([]tree.Root, int(depth)+extra)
		for j := range branch {
			rng.Read(branch[j][:])
		}
		index := rng.Uint64()
		if depth < 64 && rng.Intn(2) == 0 {
			index &= (uint64(1) << depth) - 1
		}
		// honest root
		value := leaf
		for j := uint64(0); j < depth; j++ {
			if (index>>j)&1 == 1 {
				value = hashing.Hash(append(append([]byte{}, branch[j][:]...), value[:]...))
			} else {
				value = hashing.Hash(append(append([]byte{}, value[:]...), branch[j][:]...))
			}
		}
		root := value
		kind := "honest"
		switch rng.Intn(7) {
		case 0:
			kind = "badroot"
			root[rng.Intn(32)] ^= 1 << uint(rng.Intn(8))
		case 1:
			if depth > 0 {
				kind = "badbranch"
				branch[rng.Intn(int(depth))][rng.Intn(32)] ^= 0x80
			}
		case 2:
			if depth > 0 && depth < 64 {
				kind = "badindex"
				index ^= 1 << uint(rng.Intn(int(depth)))
			}
		case 3:
			kind = "badleaf"
			leaf[0] ^= 1
		case 4:
			if len(branch) > 0 && rng.Intn(2) == 0 {
				kind = "shortbranch" // depth > len(branch): documented domain violated -> Go panics, model says panic
				branch = branch[:rng.Intn(len(branch))]
				if uint64(len(branch)) >= depth {
					kind = "honest-trimmed"
				}
			}
		}
		st.Add("merkle-kind", kind)
		st.Add("merkle-depth", strconv.Itoa(int(depth)/8*8)+"+")
		var bb []byte
		for _, b := range branch {
			bb = append(bb, b[:]...)
		}
		bs := "-"
		if len(bb) > 0 {
			bs = hex.EncodeToString(bb)
		}
		line("merkle", "%s %s %d %d %s", hex.EncodeToString(leaf[:]), bs, depth, index, hex.EncodeToString(root[:]))
	}
	// SHA-256 transcription audit
	for i := 0; i < 200; i++ {
		b := make([]byte, []int{0, 1, 31, 32, 33, 55, 56, 57, 63, 64, 65, 119, 120, 128, 1000}[i%15]+rng.Intn(2))
		rng.Read(b)
		s := "-"
		if len(b) > 0 {
			s = hex.EncodeToString(b)
		}
		line("sha256", "%s", s)
	}
	return nil
}

func u(s string) uint64 {
	v, err := strconv.ParseUint(s, 10, 64)
	if err != nil {
		panic("bad number " + s)
	}
	return v
}

func okU(v uint64) string { return "ok " + strconv.FormatUint(v, 10) }

func exec(o hreg.Opts, sc *bufio.Scanner, w *bufio.Writer) error {
	for sc.Scan() {
		f := hreg.Fields(sc.Text())
		if len(f) == 0 {
			fmt.Fprintln(w, "bad-op")
			continue
		}
		res := hreg.Guard(func() string {
			switch f[0] {
			case "isqrt":
				return okU(zmath.IntegerSquareroot(u(f[1])))
			case "isqrtp":
				return okU(zmath.IntegerSquareRootPrysm(u(f[1])))
			case "subnet":
				spec := &common.Spec{}
				spec.SLOTS_PER_EPOCH = common.Slot(u(f[1]))
				v, err := phase0.ComputeSubnetForAttestation(spec, u(f[2]), common.Slot(u(f[3])), common.CommitteeIndex(u(f[4])))
				if err != nil {
					return "err"
				}
				return okU(v)
			case "ispow2":
				return "ok " + hreg.B2S(zmath.IsPowerOfTwo(u(f[1])))
			case "nextpow2":
				return okU(zmath.NextPowerOfTwo(u(f[1])))
			case "maxu64":
				return okU(zmath.MaxU64(u(f[1]), u(f[2])))
			case "minu64":
				return okU(zmath.MinU64(u(f[1]), u(f[2])))
			case "timetoslot":
				spec := &common.Spec{}
				spec.SECONDS_PER_SLOT = common.Timestamp(u(f[1]))
				return okU(uint64(spec.TimeToSlot(common.Timestamp(u(f[2])), common.Timestamp(u(f[3])))))
			case "timeatslot":
				spec := &common.Spec{}
				spec.SECONDS_PER_SLOT = common.Timestamp(u(f[1]))
				t, err := spec.TimeAtSlot(common.Slot(u(f[2])), common.Timestamp(u(f[3])))
				if err != nil {
					return "err"
				}
				return okU(uint64(t))
			case "slottoepoch":
				spec := &common.Spec{}
				spec.SLOTS_PER_EPOCH = common.Slot(u(f[1]))
				return okU(uint64(spec.SlotToEpoch(common.Slot(u(f[2])))))
			case "epochstart":
				spec := &common.Spec{}
				spec.SLOTS_PER_EPOCH = common.Slot(u(f[1]))
				s, err := spec.EpochStartSlot(common.Epoch(u(f[2])))
				if err != nil {
					return "err"
				}
				return okU(uint64(s))
			case "actexit":
				spec := &common.Spec{}
				spec.MAX_SEED_LOOKAHEAD = common.Epoch(u(f[1]))
				return okU(uint64(spec.ComputeActivationExitEpoch(common.Epoch(u(f[2])))))
			case "churn":
				spec := &common.Spec{}
				spec.MIN_PER_EPOCH_CHURN_LIMIT = view.Uint64View(u(f[1]))
				spec.CHURN_LIMIT_QUOTIENT = view.Uint64View(u(f[2]))
				return okU(spec.GetChurnLimit(u(f[3])))
			case "slotprev":
				return okU(uint64(common.Slot(u(f[1])).Previous()))
			case "epochprev":
				return okU(uint64(common.Epoch(u(f[1])).Previous()))
			case "committeecount":
				spec := &common.Spec{}
				spec.SLOTS_PER_EPOCH = common.Slot(u(f[1]))
				spec.TARGET_COMMITTEE_SIZE = view.Uint64View(u(f[2]))
				spec.MAX_COMMITTEES_PER_SLOT = view.Uint64View(u(f[3]))
				return okU(common.CommitteeCount(spec, u(f[4])))
			case "slotspan":
				minS, maxS := common.Slot(u(f[1])), common.Slot(u(f[2]))
				err := gossipval.CheckSlotSpan(func(d time.Duration) common.Slot {
					if d < 0 {
						return minS
					}
					return maxS
				}, common.Slot(u(f[3])), common.Slot(u(f[4])))
				if err != nil {
					return "err"
				}
				return "ok nil"
			case "merkle":
				var leaf, root tree.Root
				lb, _ := hex.DecodeString(f[1])
				copy(leaf[:], lb)
				var branch []tree.Root
				if f[2] != "-" {
					bb, _ := hex.DecodeString(f[2])
					for i := 0; i+32 <= len(bb); i += 32 {
						var r tree.Root
						copy(r[:], bb[i:i+32])
						branch = append(branch, r)
					}
				}
				rb, _ := hex.DecodeString(f[5])
				copy(root[:], rb)
				return "ok " + hreg.B2S(merkle.VerifyMerkleBranch(leaf, branch, u(f[3]), u(f[4]), root))
			case "sha256":
				var b []byte
				if f[1] != "-" {
					b, _ = hex.DecodeString(f[1])
				}
				h := hashing.Hash(b)
				return hex.EncodeToString(h[:])
			}
			return "bad-op"
		})
		fmt.Fprintln(w, res)
	}
	return sc.Err()
}
