package gossip

import (
	"bufio"
	"encoding/hex"
	"fmt"
	"runtime"
	"sync"
	"time"

	"github.com/protolambda/zrnt/eth2/beacon/altair"
	"github.com/protolambda/zrnt/eth2/beacon/common"
	"github.com/protolambda/zrnt/eth2/beacon/phase0"
	"github.com/protolambda/zrnt/eth2/gossipval"
	"github.com/protolambda/ztyp/view"

	"verifharness/internal/hreg"
)

func init() { hreg.Register(&hreg.Mode{Name: "c12", Gen: gen, Exec: exec}) }

var preparers = map[string]func(k *kvs, derive bool) func() string{
	"block":   blockPrepare,
	"att":     attPrepare,
	"agg":     aggPrepare,
	"exit":    exitPrepare,
	"pslash":  pslashPrepare,
	"aslash":  aslashPrepare,
	"syncmsg": syncMsgPrepare,
	"contrib": contribPrepare,
}

func workers() int {
	n := runtime.NumCPU() / 2
	if n < 1 {
		n = 1
	}
	if n > 6 {
		n = 6
	}
	return n
}

// prepareSafe runs a preparer; a badOp panic yields ok=false (the line is not meaningful).
func prepareSafe(k *kvs, derive bool) (run func() string, status string) {
	defer func() {
		if r := recover(); r != nil {
			if _, isBad := r.(badOp); isBad {
				run, status = nil, "bad-op"
			} else {
				run, status = nil, "exec-error"
			}
		}
	}()
	p, ok := preparers[k.kind]
	if !ok {
		return nil, "bad-op"
	}
	return p(k, derive), ""
}

func hexBytes(s string, n int) ([]byte, bool) {
	b, err := hex.DecodeString(s)
	if err != nil || len(b) != n {
		return nil, false
	}
	return b, true
}

// unitLine executes the arithmetic-helper lines against the real functions.
func unitLine(k *kvs) (out string, handled bool) {
	defer func() {
		if r := recover(); r != nil {
			if _, isBad := r.(badOp); isBad {
				out, handled = "bad-op", true
				return
			}
			out, handled = "panic", true
		}
	}()
	switch k.kind {
	case "isagg":
		p, ok := hexBytes(k.s("proof"), 96)
		if !ok {
			return "bad-op", true
		}
		var sig common.BLSSignature
		copy(sig[:], p)
		return hreg.B2S(phase0.IsAggregator(nil, k.u("n"), sig)), true
	case "syncagg":
		p, ok := hexBytes(k.s("proof"), 96)
		if !ok {
			return "bad-op", true
		}
		var sig common.BLSSignature
		copy(sig[:], p)
		spec := &common.Spec{}
		spec.SYNC_COMMITTEE_SIZE = view.Uint64View(k.u("size"))
		return hreg.B2S(altair.IsSyncCommitteeAggregator(spec, sig)), true
	case "subnet":
		spec := &common.Spec{}
		spec.SLOTS_PER_EPOCH = common.Slot(k.u("spe"))
		if spec.SLOTS_PER_EPOCH == 0 {
			return "bad-op", true
		}
		s, err := phase0.ComputeSubnetForAttestation(spec, k.u("cps"), common.Slot(k.u("slot")), common.CommitteeIndex(k.u("idx")))
		if err != nil {
			return "err", true
		}
		return fmt.Sprintf("ok %d", s), true
	case "insubnet":
		spec := &common.Spec{}
		spec.SYNC_COMMITTEE_SIZE = view.Uint64View(k.u("size"))
		if spec.SYNC_COMMITTEE_SIZE < 4 {
			return "bad-op", true
		}
		isc := &common.IndexedSyncCommittee{}
		for _, v := range k.list("comm") {
			isc.Indices = append(isc.Indices, common.ValidatorIndex(v))
		}
		return hreg.B2S(isc.InSubnet(spec, common.ValidatorIndex(k.u("v")), k.u("subnet"))), true
	case "subcomm":
		spec := &common.Spec{}
		spec.SYNC_COMMITTEE_SIZE = view.Uint64View(k.u("size"))
		comm := k.list("comm")
		if spec.SYNC_COMMITTEE_SIZE < 4 || uint64(len(comm)) != uint64(spec.SYNC_COMMITTEE_SIZE) {
			return "bad-op", true
		}
		isc := &common.IndexedSyncCommittee{CachedPubkeys: make([]*common.CachedPubkey, len(comm))}
		for _, v := range comm {
			isc.Indices = append(isc.Indices, common.ValidatorIndex(v))
		}
		_, idx, err := isc.Subcommittee(spec, k.u("subnet"))
		if err != nil {
			return "err", true
		}
		return "ok " + fmtList(idxArgs(idx)), true
	case "slotspan":
		mn, mx := common.Slot(k.u("min")), common.Slot(k.u("max"))
		err := gossipval.CheckSlotSpan(func(d time.Duration) common.Slot {
			if d < 0 {
				return mn
			}
			return mx
		}, common.Slot(k.u("slot")), common.Slot(k.u("span")))
		return hreg.B2S(err == nil), true
	}
	return "", false
}

func execLine(line string) string {
	k, ok := parseLine(line)
	if !ok {
		return "bad-op"
	}
	if out, handled := unitLine(k); handled {
		return out
	}
	run, status := prepareSafe(k, false)
	if run == nil {
		return status
	}
	return hreg.Guard(run)
}

// parallelMap applies f to every item with a bounded worker pool, preserving order.
func parallelMap(items []string, f func(string) string) []string {
	out := make([]string, len(items))
	var wg sync.WaitGroup
	ch := make(chan int, 256)
	for w := 0; w < workers(); w++ {
		wg.Add(1)
		go func() {
			defer wg.Done()
			for i := range ch {
				out[i] = f(items[i])
			}
		}()
	}
	for i := range items {
		ch <- i
	}
	close(ch)
	wg.Wait()
	return out
}

func exec(o hreg.Opts, sc *bufio.Scanner, w *bufio.Writer) error {
	var lines []string
	for sc.Scan() {
		lines = append(lines, sc.Text())
	}
	if err := sc.Err(); err != nil {
		return err
	}
	for _, r := range parallelMap(lines, execLine) {
		fmt.Fprintln(w, r)
	}
	return nil
}
