package gossip

import (
	"context"
	"encoding/binary"
	"encoding/hex"
	"fmt"
	"sort"
	"strings"

	"github.com/protolambda/zrnt/eth2/beacon/altair"
	"github.com/protolambda/zrnt/eth2/beacon/common"
	"github.com/protolambda/zrnt/eth2/beacon/phase0"
	"github.com/protolambda/zrnt/eth2/gossipval"
	"github.com/protolambda/ztyp/tree"
	"github.com/protolambda/ztyp/view"
)

const maxEpoch = 40 // real states are built for epochs 0..maxEpoch only

func mustCtx(k *kvs) *netCtx {
	c, err := getCtx(k.s("cfg"))
	if err != nil {
		panic(badOp(err.Error()))
	}
	return c
}

func (c *netCtx) mustAt(epoch uint64) *stateAt {
	if epoch > maxEpoch {
		panic(badOp("epoch beyond the built states"))
	}
	s, err := c.at(epoch)
	if err != nil {
		panic(fmt.Sprintf("state construction failed: %v", err))
	}
	return s
}

// atOrNil: the real context of an epoch, nil when it lies beyond what is built (then the script must not reach it).
func (c *netCtx) atOrNil(epoch uint64) *stateAt {
	if epoch > maxEpoch {
		return nil
	}
	return c.mustAt(epoch)
}

func nVals(s *stateAt) uint64 {
	vals, err := s.state.Validators()
	if err != nil {
		panic(err)
	}
	n, err := vals.ValidatorCount()
	if err != nil {
		panic(err)
	}
	return n
}

func verdictLine(res gossipval.GossipValidatorResult, be *backend, ret []common.ValidatorIndex) string {
	v := "UNKNOWN"
	switch res.Result {
	case gossipval.ACCEPT:
		v = "ACCEPT"
	case gossipval.IGNORE:
		v = "IGNORE"
	case gossipval.REJECT:
		v = "REJECT"
	}
	join := func(l []string) string {
		if len(l) == 0 {
			return "-"
		}
		return strings.Join(l, ";")
	}
	return fmt.Sprintf("%s seen=%s marks=%s ret=%s", v, join(be.queries), join(be.marks), fmtList(idxArgs(ret)))
}

// signerKey maps a validator index to the key that signs for it: its own key when the harness has one
// (the registry plus two never-deposited keys), else key 0.
func (c *netCtx) signerKey(v uint64) int {
	if v < uint64(len(c.secret)) {
		return int(v)
	}
	return 0
}

func uint64Root(v uint64) (r [32]byte) {
	binary.LittleEndian.PutUint64(r[:8], v)
	return
}

// bitlist builds an SSZ bitlist (with delimiter) of the given length with the given positions set.
func bitlist(bitLen uint64, set []uint64) phase0.AttestationBits {
	if bitLen > 1<<16 {
		panic(badOp("bitlen too large"))
	}
	b := make([]byte, bitLen/8+1)
	b[bitLen/8] |= 1 << (bitLen % 8)
	for _, p := range set {
		if p >= bitLen {
			panic(badOp("set bit beyond bitlen"))
		}
		b[p/8] |= 1 << (p % 8)
	}
	return phase0.AttestationBits(b)
}

// ---------------------------------------------------------------------------------------------
// beacon_block
//
// desc:   cfg slot proposer proot pslot sigk digestk
// script: max seen pknown fepoch froot fsub pepc tow sepc
// facts:  spe pubkey digest sig sameprop slotprop

func blockPrepare(k *kvs, derive bool) func() string {
	c := mustCtx(k)
	spe := uint64(c.spec.SLOTS_PER_EPOCH)
	slot, proposer, pslot := k.u("slot"), k.u("proposer"), k.u("pslot")
	bEpoch, pEpoch := slot/spe, pslot/spe
	parentAt, slotAt := c.mustAt(pEpoch), c.mustAt(bEpoch)
	parentRoot, finRoot := symRoot(k.u("proot")), symRoot(k.u("froot"))
	hdr := common.BeaconBlockHeader{Slot: common.Slot(slot), ProposerIndex: common.ValidatorIndex(proposer),
		ParentRoot: parentRoot, StateRoot: symRoot(77), BodyRoot: symRoot(78)}
	blockRoot := hdr.HashTreeRoot(tree.GetHashFn())
	version := c.forkVersionAt(bEpoch)
	fdr := oracleForkDataRoot(version, c.gvr)
	var digest common.ForkDigest
	copy(digest[:], fdr[:4])
	digestOk := true
	switch k.s("digestk") {
	case "ok":
	case "wrong":
		digest[0] ^= 0x55
		digestOk = false
	default:
		panic(badOp("digestk"))
	}
	sigk := k.sig("sigk")
	sig := c.sign(sigk, c.signerKey(proposer), common.DOMAIN_BEACON_PROPOSER, bEpoch, bEpoch, blockRoot)
	env := &common.BeaconBlockEnvelope{ForkDigest: digest, BeaconBlockHeader: hdr, BlockRoot: blockRoot, Signature: sig}

	if derive {
		k.setU("spe", spe)
		n := nVals(parentAt)
		k.setB("pubkey", proposer < n)
		k.setB("digest", digestOk)
		r := oracleSigningRoot(blockRoot, c.oracleGetDomain(bEpoch, common.DOMAIN_BEACON_PROPOSER, bEpoch))
		k.setB("sig", proposer < n && c.oracleVerify(int(proposer), r[:], sig))
		prop := func(s *stateAt) string {
			p, err := s.epc.GetBeaconProposer(common.Slot(slot))
			if err != nil {
				return "err"
			}
			return fmt.Sprintf("%d", p)
		}
		k.set("sameprop", prop(parentAt))
		k.set("slotprop", prop(slotAt))
	}

	be := newBackend(c)
	be.maxSlot = common.Slot(k.u("max"))
	be.seenFlag["SeenBlock"] = k.b("seen")
	if k.b("pknown") {
		be.byBlock[parentRoot] = &entryScript{slot: common.Slot(pslot), at: parentAt, epcOk: k.b("pepc"), stateOk: true}
	} else {
		be.byBlock[parentRoot] = nil
	}
	be.finalized = common.Checkpoint{Epoch: common.Epoch(k.u("fepoch")), Root: finRoot}
	be.inSubtree[[2]common.Root{finRoot, parentRoot}] = k.tri("fsub")
	tkey := bsKey(parentRoot, common.Slot(bEpoch*spe))
	if k.b("tow") {
		be.towards[tkey] = &entryScript{slot: common.Slot(bEpoch * spe), at: slotAt, epcOk: k.b("sepc"), stateOk: true}
	} else {
		_ = k.b("sepc")
		be.towards[tkey] = nil
	}
	return func() string {
		res := gossipval.ValidateBeaconBlock(context.Background(), env, be)
		return verdictLine(res, be, nil)
	}
}

// ---------------------------------------------------------------------------------------------
// beacon_attestation_{subnet}
//
// desc:   cfg fork slot idx tepoch bitlen bits subnet broot troot sigk signer
// script: min max bad bknown bslot anc denebepoch tsub froot fsub fepoch tow epc seen dom
// facts:  spe bisfin cps comm sig

type attParts struct {
	c        *netCtx
	spe      uint64
	tAt      *stateAt
	cps      uint64
	comm     []uint64
	commOk   bool
	data     phase0.AttestationData
	dataRoot common.Root
	bits     []uint64
	bitLen   uint64
}

func attCommon(k *kvs) *attParts {
	c := mustCtx(k)
	p := &attParts{c: c, spe: uint64(c.spec.SLOTS_PER_EPOCH)}
	slot, idx, tepoch := k.u("slot"), k.u("idx"), k.u("tepoch")
	p.tAt = c.atOrNil(tepoch)
	if p.tAt != nil {
		p.cps = uint64(len(p.tAt.epc.CurrentEpoch.Committees[0]))
		if comm, err := p.tAt.epc.GetBeaconCommittee(common.Slot(slot), common.CommitteeIndex(idx)); err == nil {
			p.comm, p.commOk = idxArgs(comm), true
		}
	}
	p.data = phase0.AttestationData{Slot: common.Slot(slot), Index: common.CommitteeIndex(idx),
		BeaconBlockRoot: symRoot(k.u("broot")),
		Source:          common.Checkpoint{Epoch: 0, Root: symRoot(90)},
		Target:          common.Checkpoint{Epoch: common.Epoch(tepoch), Root: symRoot(k.u("troot"))}}
	p.dataRoot = p.data.HashTreeRoot(tree.GetHashFn())
	p.bits, p.bitLen = k.list("bits"), k.u("bitlen")
	return p
}

// participants: committee members at the set bit positions (empty when the bit length does not fit the committee)
func (p *attParts) participants() []uint64 {
	if !p.commOk || p.bitLen != uint64(len(p.comm)) {
		return nil
	}
	var out []uint64
	for _, b := range p.bits {
		out = append(out, p.comm[b])
	}
	return out
}

func stateEpochCap(e uint64) uint64 {
	if e > maxEpoch {
		return maxEpoch
	}
	return e
}

// scriptAttChain installs the chain answers shared by attestation and aggregate lines.
func scriptAttChain(k *kvs, be *backend, p *attParts, withByBlock bool, stateOk bool) {
	c := p.c
	broot, troot, froot := symRoot(k.u("broot")), symRoot(k.u("troot")), symRoot(k.u("froot"))
	if k.u("troot") == k.u("froot") {
		panic(badOp("troot and froot must be distinct symbols"))
	}
	be.minSlot, be.maxSlot = common.Slot(k.u("min")), common.Slot(k.u("max"))
	be.bad = k.b("bad")
	_ = withByBlock
	if k.u("bslot") >= 1<<63 {
		panic(badOp("bslot not representable as a chain Step"))
	}
	// the voted block and the parents the chain view resolves: block -> anc[0] -> anc[1] -> … -> (unknown root)
	anc := k.pairs("anc")
	unknown := symRoot(999)
	be.byBlock[unknown] = nil
	parentOf := func(i int) *common.Root { // parent root of chain element i (0 = the voted block)
		if i < len(anc) {
			r := symRoot(anc[i][0])
			return &r
		}
		return &unknown
	}
	seenRoot := map[uint64]bool{k.u("broot"): true, 999: true}
	for i := range anc {
		// roots name blocks: each occurs once in a chain
		if anc[i][1] >= 1<<63 || seenRoot[anc[i][0]] {
			panic(badOp("bad ancestor"))
		}
		seenRoot[anc[i][0]] = true
	}
	for i := len(anc) - 1; i >= 0; i-- {
		be.byBlock[symRoot(anc[i][0])] = &entryScript{slot: common.Slot(anc[i][1]), parent: parentOf(i + 1)}
	}
	if k.b("bknown") {
		be.byBlock[broot] = &entryScript{slot: common.Slot(k.u("bslot")), parent: parentOf(0)}
	} else {
		be.byBlock[broot] = nil
	}
	be.inSubtree[[2]common.Root{troot, broot}] = k.tri("tsub")
	be.inSubtree[[2]common.Root{froot, broot}] = k.tri("fsub")
	be.finalized = common.Checkpoint{Epoch: common.Epoch(k.u("fepoch")), Root: froot}
	tepoch := k.u("tepoch")
	if tepoch <= maxEpoch {
		tkey := bsKey(troot, common.Slot(tepoch*p.spe))
		if k.b("tow") {
			be.towards[tkey] = &entryScript{slot: common.Slot(tepoch * p.spe), at: p.tAt, epcOk: k.b("epc"), stateOk: stateOk}
		} else {
			_ = k.b("epc")
			be.towards[tkey] = nil
		}
	} else if k.b("tow") {
		panic(badOp("tow=1 needs a target epoch with a built state"))
	} else {
		_ = k.b("epc")
		// any Towards query fails
		be.towards[bsKey(troot, common.Slot(tepoch*p.spe))] = nil
	}
	be.domEpoch = stateEpochCap(tepoch)
	// the node's spec: DENEB_FORK_EPOCH as scripted (everything else as in the network's configuration)
	sp := *c.spec
	sp.DENEB_FORK_EPOCH = common.Epoch(k.u("denebepoch"))
	be.spec = &sp
}

func attPrepare(k *kvs, derive bool) func() string {
	p := attCommon(k)
	c := p.c
	tepoch := k.u("tepoch")
	if f := k.s("fork"); f != "phase0" && f != "deneb" {
		panic(badOp("fork"))
	}
	parts := p.participants()
	var signer uint64
	if s := k.s("signer"); s == "voter" {
		if len(parts) >= 1 {
			signer = parts[0]
		}
	} else {
		signer = k.u("signer")
	}
	sig := c.sign(k.sig("sigk"), c.signerKey(signer), common.DOMAIN_BEACON_ATTESTER, stateEpochCap(tepoch), tepoch, p.dataRoot)
	att := &phase0.Attestation{AggregationBits: bitlist(p.bitLen, p.bits), Data: p.data, Signature: sig}

	if derive {
		k.setU("spe", p.spe)
		k.setB("bisfin", k.u("broot") == k.u("froot"))
		k.setU("cps", p.cps)
		k.setL("comm", p.comm)
		ok := false
		if len(parts) == 1 {
			r := oracleSigningRoot(p.dataRoot, c.oracleGetDomain(stateEpochCap(tepoch), common.DOMAIN_BEACON_ATTESTER, tepoch))
			ok = c.oracleVerify(int(parts[0]), r[:], sig)
		}
		k.setB("sig", ok)
	}

	be := newBackend(c)
	scriptAttChain(k, be, p, true, true)
	be.seenFlag["SeenAttestation"] = k.b("seen")
	be.domOk = k.b("dom")
	subnet := k.u("subnet")
	return func() string {
		ret, res := gossipval.ValidateAttestation(context.Background(), subnet, att, be)
		return verdictLine(res, be, ret)
	}
}

// ---------------------------------------------------------------------------------------------
// beacon_aggregate_and_proof
//
// desc:   cfg fork slot idx tepoch aggregator bitlen bits broot troot selk osigk asigk
// script: min max seenaggr seenagg bad bknown bslot anc denebepoch tsub froot fsub fepoch tow epc state
// facts:  spe bisfin aggroot nvals commok comm selproof seldec selsig osig osigtrunc maxpc aggsig

func aggPrepare(k *kvs, derive bool) func() string {
	p := attCommon(k)
	c := p.c
	slot, tepoch, aggregator := k.u("slot"), k.u("tepoch"), k.u("aggregator")
	if f := k.s("fork"); f != "phase0" && f != "deneb" {
		panic(badOp("fork"))
	}
	sEpoch := stateEpochCap(tepoch)
	parts := p.participants()
	// aggregate signature
	attDom := c.oracleGetDomain(sEpoch, common.DOMAIN_BEACON_ATTESTER, tepoch)
	attRoot := oracleSigningRoot(p.dataRoot, attDom)
	signers := make([]int, len(parts))
	for i, v := range parts {
		signers[i] = c.signerKey(v)
	}
	var aggSig common.BLSSignature
	switch asigk := k.s("asigk"); asigk {
	case "ok":
		aggSig = c.aggSign(signers, attRoot[:])
	case "wrongkey": // one participant's share comes from an outsider key
		s := append([]int{}, signers...)
		if len(s) > 0 {
			s[0] = len(c.secret) - 1
		}
		aggSig = c.aggSign(s, attRoot[:])
	case "missing": // the last participant did not sign
		s := signers
		if len(s) > 0 {
			s = s[:len(s)-1]
		}
		aggSig = c.aggSign(s, attRoot[:])
	case "wrongmsg":
		o := attRoot
		o[5] ^= 1
		aggSig = c.aggSign(signers, o[:])
	case "wrongdomain":
		d := common.DOMAIN_BEACON_ATTESTER
		d[0] ^= 0x10
		r := oracleSigningRoot(p.dataRoot, c.oracleGetDomain(sEpoch, d, tepoch))
		aggSig = c.aggSign(signers, r[:])
	case "garbage", "infinity", "zero":
		aggSig = c.sign(sigKind(asigk), 0, common.DOMAIN_BEACON_ATTESTER, sEpoch, tepoch, p.dataRoot)
	default:
		panic(badOp("asigk"))
	}
	att := phase0.Attestation{AggregationBits: bitlist(p.bitLen, p.bits), Data: p.data, Signature: aggSig}
	aggRoot := att.HashTreeRoot(c.spec, tree.GetHashFn())
	// selection proof: signature over the slot, domain SELECTION_PROOF at the slot's epoch
	slotEpoch := slot / p.spe
	selProof := c.sign(k.sig("selk"), c.signerKey(aggregator), common.DOMAIN_SELECTION_PROOF, sEpoch, slotEpoch, uint64Root(slot))
	msg := phase0.AggregateAndProof{AggregatorIndex: common.ValidatorIndex(aggregator), Aggregate: att, SelectionProof: selProof}
	msgRoot := msg.HashTreeRoot(c.spec, tree.GetHashFn())
	outer := c.sign(k.sig("osigk"), c.signerKey(aggregator), common.DOMAIN_AGGREGATE_AND_PROOF, sEpoch, slotEpoch, msgRoot)
	signed := &phase0.SignedAggregateAndProof{Message: msg, Signature: outer}

	if derive {
		k.setU("spe", p.spe)
		k.setB("bisfin", k.u("broot") == k.u("froot"))
		k.set("aggroot", hex.EncodeToString(aggRoot[:]))
		var n uint64
		if p.tAt != nil {
			n = nVals(p.tAt)
		}
		k.setU("nvals", n)
		k.setB("commok", p.commOk)
		k.setL("comm", p.comm)
		k.set("selproof", hex.EncodeToString(selProof[:]))
		_, decErr := selProof.Signature()
		k.setB("seldec", decErr == nil)
		inReg := aggregator < n
		selRoot := oracleSigningRoot(uint64Root(slot), c.oracleGetDomain(sEpoch, common.DOMAIN_SELECTION_PROOF, slotEpoch))
		k.setB("selsig", inReg && c.oracleVerify(int(aggregator), selRoot[:], selProof))
		oRoot := oracleSigningRoot(msgRoot, c.oracleGetDomain(sEpoch, common.DOMAIN_AGGREGATE_AND_PROOF, slotEpoch))
		k.setB("osig", inReg && c.oracleVerify(int(aggregator), oRoot[:], outer))
		k.setB("osigtrunc", inReg && c.oracleVerify(int(aggregator), oRoot[:2], outer))
		k.setU("maxpc", uint64(c.spec.MAX_VALIDATORS_PER_COMMITTEE))
		ok := false
		if len(parts) > 0 {
			ps := make([]int, len(parts))
			for i, v := range parts {
				ps[i] = int(v)
			}
			ok = c.oracleFastAggVerify(ps, attRoot[:], aggSig)
		}
		k.setB("aggsig", ok)
	}

	be := newBackend(c)
	scriptAttChain(k, be, p, false, k.b("state"))
	be.seenFlag["SeenAggregator"] = k.b("seenaggr")
	be.seenFlag["SeenAggregate"] = k.b("seenagg")
	return func() string {
		ret, res := gossipval.ValidateAggregateAndProof(context.Background(), signed, be)
		return verdictLine(res, be, ret)
	}
}

// ---------------------------------------------------------------------------------------------
// head states with modified validators (operations topics)

var modCache = map[string]*stateAt{}

// headState returns the real state of `ep` with validator modifications `idx:mod;idx:mod` applied:
// exited (exit_epoch = cur), exiting (exit_epoch = cur+5), inactive (activation = cur+3), young (activation = cur-1),
// justactive (activation = cur), actnext (activation = cur+1), wdnext (exit cur, withdrawable cur+1),
// slashed, withdrawn (withdrawable_epoch = cur), unwd (exit cur-1 and withdrawable cur+9: exited, still slashable).
func (c *netCtx) headState(ep uint64, mods string) *stateAt {
	base := c.mustAt(ep)
	if mods == "-" {
		return base
	}
	key := fmt.Sprintf("%s/%d/%s", c.def.name, ep, mods)
	ctxMu.Lock()
	defer ctxMu.Unlock()
	if s, ok := modCache[key]; ok {
		return s
	}
	st, err := base.state.CopyState()
	if err != nil {
		panic(err)
	}
	vals, err := st.Validators()
	if err != nil {
		panic(err)
	}
	n := nVals(base)
	for _, m := range strings.Split(mods, ";") {
		p := strings.Split(m, ":")
		if len(p) != 2 {
			panic(badOp("vmod"))
		}
		var idx uint64
		if _, err := fmt.Sscanf(p[0], "%d", &idx); err != nil || idx >= n {
			panic(badOp("vmod index"))
		}
		v, err := vals.Validator(common.ValidatorIndex(idx))
		if err != nil {
			panic(err)
		}
		vv := v.(*phase0.ValidatorView)
		switch p[1] {
		case "exited":
			err = vv.SetExitEpoch(common.Epoch(ep))
		case "exiting":
			err = vv.SetExitEpoch(common.Epoch(ep + 5))
		case "inactive":
			err = vv.SetActivationEpoch(common.Epoch(ep + 3))
		case "young":
			err = vv.SetActivationEpoch(common.Epoch(ep - 1))
		case "justactive": // activated in the head's epoch: active and slashable from this epoch on
			err = vv.SetActivationEpoch(common.Epoch(ep))
		case "actnext": // activation next epoch: not yet active, not slashable
			err = vv.SetActivationEpoch(common.Epoch(ep + 1))
		case "wdnext": // exited, withdrawable next epoch: still slashable in this epoch
			if err = vv.SetExitEpoch(common.Epoch(ep)); err == nil {
				err = vv.SetWithdrawableEpoch(common.Epoch(ep + 1))
			}
		case "slashed":
			err = vv.MakeSlashed()
		case "withdrawn":
			err = vv.SetWithdrawableEpoch(common.Epoch(ep))
		case "unwd":
			if err = vv.SetExitEpoch(common.Epoch(ep - 1)); err == nil {
				err = vv.SetWithdrawableEpoch(common.Epoch(ep + 9))
			}
		default:
			panic(badOp("vmod kind"))
		}
		if err != nil {
			panic(err)
		}
	}
	s := &stateAt{epoch: ep, state: st, epc: base.epc}
	modCache[key] = s
	return s
}

type valFacts struct {
	slashed               bool
	act, exit, withdrawal uint64
}

func readVal(s *stateAt, idx uint64) valFacts {
	vals, err := s.state.Validators()
	if err != nil {
		panic(err)
	}
	v, err := vals.Validator(common.ValidatorIndex(idx))
	if err != nil {
		panic(err)
	}
	var f valFacts
	f.slashed, _ = v.Slashed()
	a, _ := v.ActivationEpoch()
	e, _ := v.ExitEpoch()
	w, _ := v.WithdrawableEpoch()
	f.act, f.exit, f.withdrawal = uint64(a), uint64(e), uint64(w)
	return f
}

func scriptHead(k *kvs, be *backend, s *stateAt) {
	if k.b("head") {
		be.head = &entryScript{slot: common.Slot(s.epoch) * be.c.spec.SLOTS_PER_EPOCH, at: s, epcOk: true, stateOk: true}
	}
}

// ---------------------------------------------------------------------------------------------
// voluntary_exit
//
// desc:   cfg ep vindex xepoch sigk vmod
// script: seen head
// facts:  nvals cur act vexit shard sig

func exitPrepare(k *kvs, derive bool) func() string {
	c := mustCtx(k)
	ep, vindex, xepoch := k.u("ep"), k.u("vindex"), k.u("xepoch")
	s := c.headState(ep, k.s("vmod"))
	ex := phase0.VoluntaryExit{Epoch: common.Epoch(xepoch), ValidatorIndex: common.ValidatorIndex(vindex)}
	root := ex.HashTreeRoot(tree.GetHashFn())
	sig := c.sign(k.sig("sigk"), c.signerKey(vindex), common.DOMAIN_VOLUNTARY_EXIT, ep, xepoch, root)
	signed := &phase0.SignedVoluntaryExit{Message: ex, Signature: sig}
	if derive {
		n := nVals(s)
		k.setU("nvals", n)
		k.setU("cur", uint64(s.epc.CurrentEpoch.Epoch))
		var f valFacts
		if vindex < n {
			f = readVal(s, vindex)
		}
		k.setU("act", f.act)
		k.setU("vexit", f.exit)
		k.setU("shard", uint64(c.spec.SHARD_COMMITTEE_PERIOD))
		r := oracleSigningRoot(root, c.oracleGetDomain(ep, common.DOMAIN_VOLUNTARY_EXIT, xepoch))
		k.setB("sig", vindex < n && c.oracleVerify(int(vindex), r[:], sig))
	}
	be := newBackend(c)
	be.seenFlag["SeenExit"] = k.b("seen")
	scriptHead(k, be, s)
	return func() string {
		return verdictLine(gossipval.ValidateVoluntaryExit(context.Background(), signed, be), be, nil)
	}
}

// ---------------------------------------------------------------------------------------------
// proposer_slashing
//
// desc:   cfg ep slot1 slot2 prop1 prop2 hdiff sigk1 sigk2 vmod
// script: seen head
// facts:  spe heq nvals cur slashed act wd sig1 sig2

func pslashPrepare(k *kvs, derive bool) func() string {
	c := mustCtx(k)
	spe := uint64(c.spec.SLOTS_PER_EPOCH)
	ep := k.u("ep")
	s := c.headState(ep, k.s("vmod"))
	mk := func(slot, prop uint64, body uint64, sk sigKind) (common.SignedBeaconBlockHeader, [32]byte) {
		h := common.BeaconBlockHeader{Slot: common.Slot(slot), ProposerIndex: common.ValidatorIndex(prop),
			ParentRoot: symRoot(5), StateRoot: symRoot(6), BodyRoot: symRoot(body)}
		root := h.HashTreeRoot(tree.GetHashFn())
		sig := c.sign(sk, c.signerKey(prop), common.DOMAIN_BEACON_PROPOSER, ep, slot/spe, root)
		return common.SignedBeaconBlockHeader{Message: h, Signature: sig}, root
	}
	slot1, slot2, prop1, prop2 := k.u("slot1"), k.u("slot2"), k.u("prop1"), k.u("prop2")
	h1, r1 := mk(slot1, prop1, 7, k.sig("sigk1"))
	body2 := uint64(8)
	if !k.b("hdiff") {
		body2 = 7
	}
	h2, r2 := mk(slot2, prop2, body2, k.sig("sigk2"))
	ps := &phase0.ProposerSlashing{SignedHeader1: h1, SignedHeader2: h2}
	if derive {
		k.setU("spe", spe)
		k.setB("heq", h1.Message == h2.Message)
		n := nVals(s)
		k.setU("nvals", n)
		k.setU("cur", uint64(s.epc.CurrentEpoch.Epoch))
		var f valFacts
		if prop1 < n {
			f = readVal(s, prop1)
		}
		k.setB("slashed", f.slashed)
		k.setU("act", f.act)
		k.setU("wd", f.withdrawal)
		// process_proposer_slashing verifies both headers with the pubkey of header_1.proposer_index
		dom := c.oracleGetDomain(ep, common.DOMAIN_BEACON_PROPOSER, slot1/spe)
		sr1 := oracleSigningRoot(r1, dom)
		dom2 := c.oracleGetDomain(ep, common.DOMAIN_BEACON_PROPOSER, slot2/spe)
		sr2 := oracleSigningRoot(r2, dom2)
		k.setB("sig1", prop1 < n && c.oracleVerify(int(prop1), sr1[:], h1.Signature))
		k.setB("sig2", prop1 < n && c.oracleVerify(int(prop1), sr2[:], h2.Signature))
	}
	be := newBackend(c)
	be.seenFlag["SeenProposerSlashing"] = k.b("seen")
	scriptHead(k, be, s)
	return func() string {
		return verdictLine(gossipval.ValidateProposerSlashing(context.Background(), ps, be), be, nil)
	}
}

// ---------------------------------------------------------------------------------------------
// attester_slashing
//
// desc:   cfg ep src1 tgt1 src2 tgt2 deq idx1 idx2 sigk1 sigk2 vmod
// script: allseen head
// facts:  maxpc nvals vals cur sig1 sig2

func aslashPrepare(k *kvs, derive bool) func() string {
	c := mustCtx(k)
	spe := uint64(c.spec.SLOTS_PER_EPOCH)
	ep := k.u("ep")
	s := c.headState(ep, k.s("vmod"))
	deq := k.b("deq")
	src1, tgt1, src2, tgt2 := k.u("src1"), k.u("tgt1"), k.u("src2"), k.u("tgt2")
	if deq && (src1 != src2 || tgt1 != tgt2) {
		panic(badOp("deq=1 needs equal epochs"))
	}
	mkData := func(src, tgt uint64, head uint64) phase0.AttestationData {
		return phase0.AttestationData{Slot: common.Slot(tgt * spe), Index: 0, BeaconBlockRoot: symRoot(head),
			Source: common.Checkpoint{Epoch: common.Epoch(src), Root: symRoot(2)},
			Target: common.Checkpoint{Epoch: common.Epoch(tgt), Root: symRoot(3)}}
	}
	d1 := mkData(src1, tgt1, 11)
	head2 := uint64(12)
	if deq {
		head2 = 11
	}
	d2 := mkData(src2, tgt2, head2)
	mk := func(d phase0.AttestationData, idx []uint64, sk string) (phase0.IndexedAttestation, [32]byte, []int) {
		root := d.HashTreeRoot(tree.GetHashFn())
		sr := oracleSigningRoot(root, c.oracleGetDomain(ep, common.DOMAIN_BEACON_ATTESTER, uint64(d.Target.Epoch)))
		signers := make([]int, len(idx))
		for i, v := range idx {
			signers[i] = c.signerKey(v)
		}
		var sig common.BLSSignature
		switch sk {
		case "ok":
			sig = c.aggSign(signers, sr[:])
		case "wrongkey":
			sg := append([]int{}, signers...)
			if len(sg) > 0 {
				sg[0] = len(c.secret) - 1
			}
			sig = c.aggSign(sg, sr[:])
		case "wrongmsg":
			o := sr
			o[3] ^= 1
			sig = c.aggSign(signers, o[:])
		case "compplus", "compminus": // honest aggregate plus / minus a fixed point: a pair keeps the sum of both aggregates
			sig = c.shiftSig(c.aggSign(signers, sr[:]), sk == "compminus")
		case "garbage", "zero", "infinity":
			sig = c.sign(sigKind(sk), 0, common.DOMAIN_BEACON_ATTESTER, ep, 0, root)
		default:
			panic(badOp("sigk"))
		}
		ci := make(common.CommitteeIndices, len(idx))
		for i, v := range idx {
			ci[i] = common.ValidatorIndex(v)
		}
		return phase0.IndexedAttestation{AttestingIndices: ci, Data: d, Signature: sig}, sr, signers
	}
	idx1, idx2 := k.list("idx1"), k.list("idx2")
	a1, sr1, _ := mk(d1, idx1, k.s("sigk1"))
	a2, sr2, _ := mk(d2, idx2, k.s("sigk2"))
	as := &phase0.AttesterSlashing{Attestation1: a1, Attestation2: a2}
	if derive {
		n := nVals(s)
		k.setU("maxpc", uint64(c.spec.MAX_VALIDATORS_PER_COMMITTEE))
		k.setU("nvals", n)
		seenIdx := map[uint64]bool{}
		var vs []string
		all := append(append([]uint64{}, idx1...), idx2...)
		sort.Slice(all, func(i, j int) bool { return all[i] < all[j] })
		for _, v := range all {
			if v < n && !seenIdx[v] {
				seenIdx[v] = true
				f := readVal(s, v)
				sl := 0
				if f.slashed {
					sl = 1
				}
				vs = append(vs, fmt.Sprintf("%d:%d:%d:%d", v, sl, f.act, f.withdrawal))
			}
		}
		if len(vs) == 0 {
			k.set("vals", "-")
		} else {
			k.set("vals", strings.Join(vs, ";"))
		}
		k.setU("cur", uint64(s.epc.CurrentEpoch.Epoch))
		verify := func(idx []uint64, sr [32]byte, sig common.BLSSignature) bool {
			if len(idx) == 0 {
				return false
			}
			ps := make([]int, len(idx))
			for i, v := range idx {
				if v >= n {
					return false
				}
				ps[i] = int(v)
			}
			return c.oracleFastAggVerify(ps, sr[:], sig)
		}
		k.setB("sig1", verify(idx1, sr1, a1.Signature))
		k.setB("sig2", verify(idx2, sr2, a2.Signature))
	}
	be := newBackend(c)
	be.seenFlag["AttesterSlashableAllSeen"] = k.b("allseen")
	scriptHead(k, be, s)
	return func() string {
		return verdictLine(gossipval.ValidateAttesterSlashing(context.Background(), as, be), be, nil)
	}
}

// ---------------------------------------------------------------------------------------------
// sync_committee_{subnet}
//
// desc:   cfg slot vindex subnet broot sigk
// script: min max bknown epc seen dom
// facts:  spe epp size cur next nvals sig

func syncFacts(k *kvs, c *netCtx, s *stateAt) {
	k.setU("spe", uint64(c.spec.SLOTS_PER_EPOCH))
	k.setU("epp", uint64(c.spec.EPOCHS_PER_SYNC_COMMITTEE_PERIOD))
	k.setU("size", uint64(c.spec.SYNC_COMMITTEE_SIZE))
	k.setL("cur", idxArgs(s.epc.CurrentSyncCommittee.Indices))
	k.setL("next", idxArgs(s.epc.NextSyncCommittee.Indices))
	k.setU("nvals", nVals(s))
}

// syncInCharge: (committee in charge at slot, the other one) by the spec's rule: the next committee signs at the
// last slot of a sync committee period. Written independently of gossipval.
func (c *netCtx) syncInCharge(s *stateAt, slot uint64) (inCharge, other []common.ValidatorIndex) {
	spe, epp := uint64(c.spec.SLOTS_PER_EPOCH), uint64(c.spec.EPOCHS_PER_SYNC_COMMITTEE_PERIOD)
	if (slot/spe)/epp == ((slot+1)/spe)/epp {
		return s.epc.CurrentSyncCommittee.Indices, s.epc.NextSyncCommittee.Indices
	}
	return s.epc.NextSyncCommittee.Indices, s.epc.CurrentSyncCommittee.Indices
}

func syncState(c *netCtx, slot uint64) *stateAt {
	ep := slot / uint64(c.spec.SLOTS_PER_EPOCH)
	if ep < altairEpoch {
		panic(badOp("sync topics need an altair slot"))
	}
	return c.mustAt(ep)
}

func scriptSync(k *kvs, be *backend, s *stateAt, root common.Root, slot uint64) {
	be.minSlot, be.maxSlot = common.Slot(k.u("min")), common.Slot(k.u("max"))
	if k.b("bknown") {
		be.byBlockSlot[bsKey(root, common.Slot(slot))] = &entryScript{slot: common.Slot(slot), at: s, epcOk: k.b("epc"), stateOk: true}
	} else {
		_ = k.b("epc")
		be.byBlockSlot[bsKey(root, common.Slot(slot))] = nil
	}
	be.domOk = k.b("dom")
	be.domEpoch = s.epoch
}

func syncMsgPrepare(k *kvs, derive bool) func() string {
	c := mustCtx(k)
	slot, vindex, subnet := k.u("slot"), k.u("vindex"), k.u("subnet")
	s := syncState(c, slot)
	root := symRoot(k.u("broot"))
	sig := c.sign(k.sig("sigk"), c.signerKey(vindex), common.DOMAIN_SYNC_COMMITTEE, s.epoch, s.epoch, root)
	msg := &altair.SyncCommitteeMessage{Slot: common.Slot(slot), BeaconBlockRoot: root,
		ValidatorIndex: common.ValidatorIndex(vindex), Signature: sig}
	if derive {
		syncFacts(k, c, s)
		r := oracleSigningRoot(root, c.oracleGetDomain(s.epoch, common.DOMAIN_SYNC_COMMITTEE, s.epoch))
		k.setB("sig", vindex < nVals(s) && c.oracleVerify(int(vindex), r[:], sig))
	}
	be := newBackend(c)
	scriptSync(k, be, s, root, slot)
	be.seenFlag["SeenSyncCommMsg"] = k.b("seen")
	return func() string {
		ret, res := gossipval.ValidateSyncCommitteeSubnet(context.Background(), subnet, msg, be)
		return verdictLine(res, be, ret)
	}
}

// ---------------------------------------------------------------------------------------------
// sync_committee_contribution_and_proof
//
// desc:   cfg slot subidx aggregator bits broot selk osigk csigk
// script: min max bknown epc seen dom
// facts:  spe epp size ones selproof cur next nvals selsig osig csigcur csignext

func contribPrepare(k *kvs, derive bool) func() string {
	c := mustCtx(k)
	slot, subidx, aggregator := k.u("slot"), k.u("subidx"), k.u("aggregator")
	s := syncState(c, slot)
	root := symRoot(k.u("broot"))
	size := uint64(c.spec.SYNC_COMMITTEE_SIZE)
	subSize := size / common.SYNC_COMMITTEE_SUBNET_COUNT
	bits := k.list("bits")
	bv := make(altair.SyncCommitteeSubnetBits, (subSize+7)/8)
	for _, b := range bits {
		if b >= subSize {
			panic(badOp("bit beyond subcommittee"))
		}
		bv[b/8] |= 1 << (b % 8)
	}
	// participants: the honest sender signs with the members of the subcommittee of the committee in charge at
	// this slot (kind "ok"); "other" uses the other committee (current <-> next).
	sub := func(indices []common.ValidatorIndex) []uint64 {
		if subidx >= common.SYNC_COMMITTEE_SUBNET_COUNT {
			return nil
		}
		return idxArgs(indices[subidx*subSize : (subidx+1)*subSize])
	}
	inCharge, other := c.syncInCharge(s, slot)
	members := sub(inCharge)
	csigk := k.s("csigk")
	if csigk == "other" {
		members = sub(other)
	}
	var signers []int
	for _, b := range bits {
		if int(b) < len(members) {
			signers = append(signers, c.signerKey(members[b]))
		}
	}
	sr := oracleSigningRoot(root, c.oracleGetDomain(s.epoch, common.DOMAIN_SYNC_COMMITTEE, s.epoch))
	var csig common.BLSSignature
	switch csigk {
	case "ok", "other":
		csig = c.aggSign(signers, sr[:])
	case "wrongkey":
		sg := append([]int{}, signers...)
		if len(sg) > 0 {
			sg[0] = len(c.secret) - 1
		}
		csig = c.aggSign(sg, sr[:])
	case "missing":
		sg := signers
		if len(sg) > 0 {
			sg = sg[:len(sg)-1]
		}
		csig = c.aggSign(sg, sr[:])
	case "wrongmsg":
		o := sr
		o[9] ^= 1
		csig = c.aggSign(signers, o[:])
	case "garbage", "zero", "infinity":
		csig = c.sign(sigKind(csigk), 0, common.DOMAIN_SYNC_COMMITTEE, s.epoch, s.epoch, root)
	default:
		panic(badOp("csigk"))
	}
	contrib := altair.SyncCommitteeContribution{Slot: common.Slot(slot), BeaconBlockRoot: root,
		SubcommitteeIndex: view.Uint64View(subidx), AggregationBits: bv, Signature: csig}
	selData := altair.SyncAggregatorSelectionData{Slot: common.Slot(slot), SubcommitteeIndex: view.Uint64View(subidx)}
	selObj := selData.HashTreeRoot(tree.GetHashFn())
	// independent check of the tiny container root: hash(slot_le32 ++ subidx_le32)
	if a, b := uint64Root(slot), uint64Root(subidx); sha(a[:], b[:]) != [32]byte(selObj) {
		panic("SyncAggregatorSelectionData root differs from the hand computation")
	}
	selProof := c.sign(k.sig("selk"), c.signerKey(aggregator), common.DOMAIN_SYNC_COMMITTEE_SELECTION_PROOF, s.epoch, s.epoch, selObj)
	msg := altair.ContributionAndProof{AggregatorIndex: common.ValidatorIndex(aggregator), Contribution: contrib, SelectionProof: selProof}
	msgRoot := msg.HashTreeRoot(c.spec, tree.GetHashFn())
	outer := c.sign(k.sig("osigk"), c.signerKey(aggregator), common.DOMAIN_CONTRIBUTION_AND_PROOF, s.epoch, s.epoch, msgRoot)
	signed := &altair.SignedContributionAndProof{Message: msg, Signature: outer}
	if derive {
		syncFacts(k, c, s)
		k.setU("ones", uint64(len(bits)))
		k.set("selproof", hex.EncodeToString(selProof[:]))
		n := nVals(s)
		inReg := aggregator < n
		selRoot := oracleSigningRoot(selObj, c.oracleGetDomain(s.epoch, common.DOMAIN_SYNC_COMMITTEE_SELECTION_PROOF, s.epoch))
		k.setB("selsig", inReg && c.oracleVerify(int(aggregator), selRoot[:], selProof))
		oRoot := oracleSigningRoot(msgRoot, c.oracleGetDomain(s.epoch, common.DOMAIN_CONTRIBUTION_AND_PROOF, s.epoch))
		k.setB("osig", inReg && c.oracleVerify(int(aggregator), oRoot[:], outer))
		verifyWith := func(indices []common.ValidatorIndex) bool {
			var ps []int
			m := sub(indices)
			for _, b := range bits {
				if int(b) < len(m) {
					ps = append(ps, int(m[b]))
				}
			}
			return c.oracleFastAggVerify(ps, sr[:], csig)
		}
		k.setB("csigcur", verifyWith(s.epc.CurrentSyncCommittee.Indices))
		k.setB("csignext", verifyWith(s.epc.NextSyncCommittee.Indices))
	}
	be := newBackend(c)
	scriptSync(k, be, s, root, slot)
	be.seenFlag["SeenContribution"] = k.b("seen")
	return func() string {
		ret, res := gossipval.ValidateSyncContribAndProof(context.Background(), signed, be)
		return verdictLine(res, be, ret)
	}
}
