package gossip

import (
	"fmt"
	"strconv"
	"strings"
)

// kvs is one op line: `<kind> key=value ...` (keys in a fixed order for readability).
type kvs struct {
	kind string
	keys []string
	m    map[string]string
}

// badOp is raised (panic) by the accessors on a missing / malformed key; the executor answers `bad-op`.
type badOp string

func newKVs(kind string) *kvs { return &kvs{kind: kind, m: map[string]string{}} }

func parseLine(line string) (*kvs, bool) {
	f := strings.Fields(line)
	if len(f) == 0 {
		return nil, false
	}
	k := newKVs(f[0])
	for _, t := range f[1:] {
		p := strings.Split(t, "=")
		if len(p) != 2 || p[0] == "" || p[1] == "" {
			return nil, false
		}
		if _, dup := k.m[p[0]]; dup {
			// the first occurrence wins on the model side as well; duplicates are not generated
			continue
		}
		k.set(p[0], p[1])
	}
	return k, true
}

func (k *kvs) set(key, val string) *kvs {
	if _, ok := k.m[key]; !ok {
		k.keys = append(k.keys, key)
	}
	k.m[key] = val
	return k
}
func (k *kvs) setU(key string, v uint64) *kvs { return k.set(key, strconv.FormatUint(v, 10)) }
func (k *kvs) setB(key string, v bool) *kvs {
	if v {
		return k.set(key, "1")
	}
	return k.set(key, "0")
}
func (k *kvs) setL(key string, v []uint64) *kvs { return k.set(key, fmtList(v)) }

func fmtList(v []uint64) string {
	if len(v) == 0 {
		return "-"
	}
	s := make([]string, len(v))
	for i, x := range v {
		s[i] = strconv.FormatUint(x, 10)
	}
	return strings.Join(s, ",")
}

func (k *kvs) has(key string) bool { _, ok := k.m[key]; return ok }
func (k *kvs) s(key string) string {
	v, ok := k.m[key]
	if !ok {
		panic(badOp("missing " + key))
	}
	return v
}
func (k *kvs) u(key string) uint64 {
	v, err := strconv.ParseUint(k.s(key), 10, 64)
	if err != nil {
		panic(badOp("bad number " + key))
	}
	return v
}
func (k *kvs) b(key string) bool {
	switch k.s(key) {
	case "1":
		return true
	case "0":
		return false
	}
	panic(badOp("bad bool " + key))
}
func (k *kvs) tri(key string) tri {
	t, ok := parseTri(k.s(key))
	if !ok {
		panic(badOp("bad tri " + key))
	}
	return t
}
func (k *kvs) list(key string) []uint64 {
	s := k.s(key)
	if s == "-" {
		return nil
	}
	var out []uint64
	for _, p := range strings.Split(s, ",") {
		v, err := strconv.ParseUint(p, 10, 64)
		if err != nil {
			panic(badOp("bad list " + key))
		}
		out = append(out, v)
	}
	return out
}
// pairs parses `a:b,a:b,…` or `-`.
func (k *kvs) pairs(key string) [][2]uint64 {
	s := k.s(key)
	if s == "-" {
		return nil
	}
	var out [][2]uint64
	for _, p := range strings.Split(s, ",") {
		ab := strings.Split(p, ":")
		if len(ab) != 2 {
			panic(badOp("bad pairs " + key))
		}
		a, err1 := strconv.ParseUint(ab[0], 10, 64)
		b, err2 := strconv.ParseUint(ab[1], 10, 64)
		if err1 != nil || err2 != nil {
			panic(badOp("bad pairs " + key))
		}
		out = append(out, [2]uint64{a, b})
	}
	return out
}

func fmtPairs(v [][2]uint64) string {
	if len(v) == 0 {
		return "-"
	}
	s := make([]string, len(v))
	for i, x := range v {
		s[i] = fmt.Sprintf("%d:%d", x[0], x[1])
	}
	return strings.Join(s, ",")
}

func (k *kvs) sig(key string) sigKind {
	s := k.s(key)
	if !validSigKind(s) {
		panic(badOp("bad sig kind " + key))
	}
	return sigKind(s)
}

func (k *kvs) clone() *kvs {
	n := newKVs(k.kind)
	for _, key := range k.keys {
		n.set(key, k.m[key])
	}
	return n
}

func (k *kvs) String() string {
	var sb strings.Builder
	sb.WriteString(k.kind)
	for _, key := range k.keys {
		fmt.Fprintf(&sb, " %s=%s", key, k.m[key])
	}
	return sb.String()
}
