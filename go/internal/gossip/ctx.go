// Package gossip: correspondence harness for property C12 (gossip validation, eth2/gossipval).
//
// zrnt ships no chain backend, so the backend interfaces are implemented here as scripted mocks.
// Every op line carries (a) a compact description of the message, (b) the scripted backend answers,
// (c) facts derived at generation time from the real state / real keys (committee, proposer, signature
// oracle answers). The executor rebuilds the message with REAL BLS keys and signatures over REAL
// committees/domains of a small BeaconState and runs the REAL validator.
package gossip

import (
	"context"
	"crypto/sha256"
	"encoding/binary"
	"fmt"
	"sync"

	kbls "github.com/kilic/bls12-381"
	blsu "github.com/protolambda/bls12-381-util"
	"github.com/protolambda/zrnt/eth2/beacon"
	"github.com/protolambda/zrnt/eth2/beacon/common"
	"github.com/protolambda/zrnt/eth2/beacon/phase0"
	"github.com/protolambda/zrnt/eth2/configs"
	"github.com/protolambda/ztyp/view"
)

const farFuture = ^uint64(0)

// altairEpoch is the altair fork epoch of every custom configuration: epochs 0,1 are phase0, 2.. are altair.
const altairEpoch = 2

// cfgDef describes one small network configuration.
type cfgDef struct {
	name       string
	validators int
	targetComm uint64 // TARGET_COMMITTEE_SIZE
	syncSize   uint64 // SYNC_COMMITTEE_SIZE
	spe        uint64 // SLOTS_PER_EPOCH (0: the minimal preset's 8)
	// later fork epochs bellatrix, capella, deneb (nil: never). Altair is always at altairEpoch.
	laterForks []uint64
	epp        uint64 // EPOCHS_PER_SYNC_COMMITTEE_PERIOD (0: 4)
	maxComm    uint64 // MAX_COMMITTEES_PER_SLOT (0: the minimal preset's 4)
}

var cfgDefs = map[string]cfgDef{
	// 64 validators, 2 committees of 4 per slot (aggregator modulo 1), sync committee 32 (sync aggregator modulo 1)
	"s": {"s", 64, 4, 32, 0, nil, 0, 0},
	// 256 validators, 1 committee of 32 per slot (aggregator modulo 2), sync committee 128 (sync aggregator modulo 2)
	"b": {"b", 256, 32, 128, 0, nil, 0, 0},
	// 64 validators with mainnet's 32 slots per epoch (1 committee of 2 per slot): the deneb attestation window
	// (up to 63 slots) is WIDER than the phase0 one here, on the 8-slot networks it is narrower
	"m": {"m", 64, 4, 32, 32, nil, 0, 0},
	// a finite fork schedule: altair 2, bellatrix 3, capella 5, deneb 6 (electra/fulu never): block signatures and fork
	// digests around every fork activation epoch
	"f": {"f", 64, 4, 32, 0, []uint64{3, 5, 6}, 0, 0},
	// Presets in which package constants are pulled apart from the preset constants they equal on mainnet/minimal:
	// SLOTS_PER_EPOCH = 48 > ATTESTATION_PROPAGATION_SLOT_RANGE (32): more than 32 blocks can lie between a target
	// epoch's start and a voted block; EPOCHS_PER_SYNC_COMMITTEE_PERIOD = 3 != SYNC_COMMITTEE_SUBNET_COUNT (4)
	"w": {"w", 96, 4, 32, 48, nil, 3, 0},
	// SLOTS_PER_EPOCH = 4 < 8, MAX_COMMITTEES_PER_SLOT = 3 != SYNC_COMMITTEE_SUBNET_COUNT, sync period 3 epochs,
	// SYNC_COMMITTEE_SIZE = 64 (subcommittees of 16 = TARGET_AGGREGATORS_PER_SYNC_SUBCOMMITTEE)
	"t": {"t", 64, 4, 64, 4, nil, 3, 3},
	// SYNC_COMMITTEE_SIZE not a multiple of SYNC_COMMITTEE_SUBNET_COUNT: subcommittees are the fixed slices of
	// floor(size / 4) members; 30 -> 7 (positions 28, 29 belong to no subcommittee), 13 -> 3 (position 12 to none)
	"o": {"o", 64, 4, 30, 0, nil, 0, 0},
	"p": {"p", 64, 4, 13, 0, nil, 0, 0},
}

type netCtx struct {
	def    cfgDef
	spec   *common.Spec
	secret []*blsu.SecretKey
	pubs   []common.BLSPubkey
	gvr    common.Root // genesis validators root

	mu     sync.Mutex
	states map[uint64]*stateAt // by epoch (state at the epoch's start slot)
}

type stateAt struct {
	epoch uint64
	state common.BeaconState
	epc   *common.EpochsContext
}

var (
	ctxMu sync.Mutex
	ctxs  = map[string]*netCtx{}
)

func makeSpec(d cfgDef) *common.Spec {
	s := *configs.Minimal // copy
	s.ALTAIR_FORK_EPOCH = altairEpoch
	s.BELLATRIX_FORK_EPOCH = common.Epoch(farFuture)
	s.CAPELLA_FORK_EPOCH = common.Epoch(farFuture)
	s.DENEB_FORK_EPOCH = common.Epoch(farFuture)
	if len(d.laterForks) == 3 {
		s.BELLATRIX_FORK_EPOCH = common.Epoch(d.laterForks[0])
		s.CAPELLA_FORK_EPOCH = common.Epoch(d.laterForks[1])
		s.DENEB_FORK_EPOCH = common.Epoch(d.laterForks[2])
	}
	s.ELECTRA_FORK_EPOCH = common.Epoch(farFuture)
	s.FULU_FORK_EPOCH = common.Epoch(farFuture)
	if d.spe != 0 {
		s.SLOTS_PER_EPOCH = common.Slot(d.spe)
		// keep the vectors that are sized in epochs*slots consistent with the preset's assumptions
		s.SLOTS_PER_HISTORICAL_ROOT = common.Slot(64 * d.spe / 8)
	}
	s.TARGET_COMMITTEE_SIZE = view.Uint64View(d.targetComm)
	s.SYNC_COMMITTEE_SIZE = view.Uint64View(d.syncSize)
	s.SHARD_COMMITTEE_PERIOD = 2
	s.EPOCHS_PER_SYNC_COMMITTEE_PERIOD = 4
	if d.epp != 0 {
		s.EPOCHS_PER_SYNC_COMMITTEE_PERIOD = common.Epoch(d.epp)
	}
	if d.maxComm != 0 {
		s.MAX_COMMITTEES_PER_SLOT = view.Uint64View(d.maxComm)
	}
	s.MIN_GENESIS_ACTIVE_VALIDATOR_COUNT = view.Uint64View(d.validators)
	return &s
}

// secretKey i: the scalar i+1000 (big-endian), a valid non-zero secret below the group order.
func secretKey(i int) *blsu.SecretKey {
	var b [32]byte
	binary.BigEndian.PutUint64(b[24:], uint64(i)+1000)
	var sk blsu.SecretKey
	if err := sk.Deserialize(&b); err != nil {
		panic(err)
	}
	return &sk
}

func getCtx(name string) (*netCtx, error) {
	ctxMu.Lock()
	defer ctxMu.Unlock()
	if c, ok := ctxs[name]; ok {
		return c, nil
	}
	d, ok := cfgDefs[name]
	if !ok {
		return nil, fmt.Errorf("unknown cfg %q", name)
	}
	c := &netCtx{def: d, spec: makeSpec(d), states: map[uint64]*stateAt{}}
	vals := make([]phase0.KickstartValidatorData, d.validators)
	// two extra keys (never deposited) serve as "wrong key" signers
	for i := 0; i < d.validators+2; i++ {
		sk := secretKey(i)
		pk, err := blsu.SkToPk(sk)
		if err != nil {
			return nil, err
		}
		c.secret = append(c.secret, sk)
		c.pubs = append(c.pubs, common.BLSPubkey(pk.Serialize()))
		if i < d.validators {
			vals[i] = phase0.KickstartValidatorData{Pubkey: c.pubs[i], Balance: c.spec.MAX_EFFECTIVE_BALANCE}
			vals[i].WithdrawalCredentials[0] = 0
			vals[i].WithdrawalCredentials[31] = byte(i)
		}
	}
	st, epc, err := phase0.KickStartState(c.spec, common.Root{0x42}, 1_600_000_000, vals)
	if err != nil {
		return nil, err
	}
	c.gvr, err = st.GenesisValidatorsRoot()
	if err != nil {
		return nil, err
	}
	c.states[0] = &stateAt{0, st, epc}
	ctxs[name] = c
	return c, nil
}

// at returns the real state and epochs context at the start slot of the given epoch (empty slots only).
func (c *netCtx) at(epoch uint64) (*stateAt, error) {
	c.mu.Lock()
	defer c.mu.Unlock()
	if s, ok := c.states[epoch]; ok {
		return s, nil
	}
	if epoch > 64 {
		return nil, fmt.Errorf("epoch %d too far", epoch)
	}
	// start from the closest earlier state
	var from *stateAt
	for e := epoch; ; e-- {
		if s, ok := c.states[e]; ok {
			from = s
			break
		}
	}
	cp, err := from.state.CopyState()
	if err != nil {
		return nil, err
	}
	epc := from.epc.Clone()
	up := &beacon.StandardUpgradeableBeaconState{BeaconState: cp}
	for e := from.epoch + 1; e <= epoch; e++ {
		if err := common.ProcessSlots(context.Background(), c.spec, epc, up, common.Slot(e)*c.spec.SLOTS_PER_EPOCH); err != nil {
			return nil, err
		}
		snap, err := up.BeaconState.CopyState()
		if err != nil {
			return nil, err
		}
		// a from-scratch context of the snapshot: the incrementally rotated one does not re-hydrate its sync
		// committees when driven through StandardUpgradeableBeaconState (the wrapper hides the
		// SyncCommitteeBeaconState methods from RotateEpochs' type assertion), which is outside C12
		fresh, err := common.NewEpochsContext(c.spec, snap)
		if err != nil {
			return nil, err
		}
		c.states[e] = &stateAt{e, snap, fresh}
	}
	return c.states[epoch], nil
}

// ---------------------------------------------------------------------------------------------
// Independent signing-root computation (written from the consensus spec; uses only SHA-256 here and the
// hash-tree-root of the signed object).

func sha(b ...[]byte) (out [32]byte) {
	h := sha256.New()
	for _, x := range b {
		h.Write(x)
	}
	copy(out[:], h.Sum(nil))
	return
}

// compute_fork_data_root: hash_tree_root(ForkData(current_version: Bytes4, genesis_validators_root: Bytes32))
func oracleForkDataRoot(version [4]byte, gvr [32]byte) [32]byte {
	var leaf0 [32]byte
	copy(leaf0[:4], version[:])
	return sha(leaf0[:], gvr[:])
}

// compute_domain(domain_type, fork_version, genesis_validators_root) = domain_type ++ fork_data_root[:28]
func oracleDomain(domType [4]byte, version [4]byte, gvr [32]byte) (out [32]byte) {
	r := oracleForkDataRoot(version, gvr)
	copy(out[:4], domType[:])
	copy(out[4:], r[:28])
	return
}

// compute_signing_root(obj, domain) = hash_tree_root(SigningData(object_root, domain))
func oracleSigningRoot(objRoot [32]byte, domain [32]byte) [32]byte {
	return sha(objRoot[:], domain[:])
}

type forkAt struct {
	epoch   uint64
	version [4]byte
}

// schedule: the fork schedule of the configuration, written out directly from its definition (activation epoch,
// fork version), ascending; index 0 is genesis.
func (c *netCtx) schedule() []forkAt {
	out := []forkAt{{0, c.spec.GENESIS_FORK_VERSION}, {altairEpoch, c.spec.ALTAIR_FORK_VERSION}}
	if f := c.def.laterForks; len(f) == 3 {
		out = append(out, forkAt{f[0], c.spec.BELLATRIX_FORK_VERSION}, forkAt{f[1], c.spec.CAPELLA_FORK_VERSION},
			forkAt{f[2], c.spec.DENEB_FORK_VERSION})
	}
	return out
}

// forkIndexAt: index into schedule() of the fork active at the epoch.
func (c *netCtx) forkIndexAt(epoch uint64) int {
	sch := c.schedule()
	idx := 0
	for i, f := range sch {
		if f.epoch <= epoch {
			idx = i
		}
	}
	return idx
}

func (c *netCtx) forkVersionAt(epoch uint64) [4]byte { return c.schedule()[c.forkIndexAt(epoch)].version }

// neighbourForkVersion: the version of the fork before the one active at epoch (the one after it at genesis).
func (c *netCtx) neighbourForkVersion(epoch uint64) [4]byte {
	sch := c.schedule()
	if i := c.forkIndexAt(epoch); i > 0 {
		return sch[i-1].version
	}
	return sch[1].version
}

// oracleGetDomain: get_domain(state, domain_type, epoch) for a state whose own epoch is stateEpoch: state.fork is
// (previous_version, current_version, epoch) of the fork active at stateEpoch;
// fork_version = previous_version if epoch < fork.epoch else current_version.
func (c *netCtx) oracleGetDomain(stateEpoch uint64, domType [4]byte, msgEpoch uint64) [32]byte {
	sch := c.schedule()
	i := c.forkIndexAt(stateEpoch)
	cur, prev, forkEpoch := sch[i].version, sch[i].version, sch[i].epoch
	if i > 0 {
		prev = sch[i-1].version
	}
	v := cur
	if msgEpoch < forkEpoch {
		v = prev
	}
	return oracleDomain(domType, v, c.gvr)
}

// ---------------------------------------------------------------------------------------------
// Signing with provenance: every signature blob is produced here with the real library.

type sigKind string

const (
	sigOK          sigKind = "ok"          // right key, right domain, right message
	sigWrongKey    sigKind = "wrongkey"    // another validator's key
	sigWrongDomain sigKind = "wrongdomain" // right key, another domain type
	sigWrongFork   sigKind = "wrongfork"   // right key, the other fork version
	sigWrongMsg    sigKind = "wrongmsg"    // right key and domain, different object root
	sigTrunc       sigKind = "trunc"       // right key, signed over the first 2 bytes of the signing root only
	sigGarbage     sigKind = "garbage"     // 96 bytes that do not decode to a curve point
	sigInfinity    sigKind = "infinity"    // the point at infinity (compressed: c0 00..)
	sigZero        sigKind = "zero"        // 96 zero bytes
)

// compplus / compminus: the honest signature plus / minus a fixed other G2 point X (a valid signature by another key
// over another message). Each is individually invalid; a pair (s1 + X, s2 - X) has the same SUM as (s1, s2).
const (
	sigCompPlus  sigKind = "compplus"
	sigCompMinus sigKind = "compminus"
)

var sigKinds = []sigKind{sigOK, sigWrongKey, sigWrongDomain, sigWrongFork, sigWrongMsg, sigTrunc, sigGarbage, sigInfinity, sigZero,
	sigCompPlus, sigCompMinus}

// shiftSig returns sig + X (minus = false) or sig - X (minus = true) for the fixed point X.
func (c *netCtx) shiftSig(sig common.BLSSignature, minus bool) common.BLSSignature {
	x := c.rawSign(len(c.secret)-1, []byte("c12 compensating point"))
	sp, err := sig.Signature()
	if err != nil {
		panic(err)
	}
	xp, err := x.Signature()
	if err != nil {
		panic(err)
	}
	g2 := kbls.NewG2()
	var out kbls.PointG2
	if minus {
		g2.Sub(&out, (*kbls.PointG2)(sp), (*kbls.PointG2)(xp))
	} else {
		g2.Add(&out, (*kbls.PointG2)(sp), (*kbls.PointG2)(xp))
	}
	return common.BLSSignature((*blsu.Signature)(&out).Serialize())
}

func validSigKind(k string) bool {
	for _, s := range sigKinds {
		if string(s) == k {
			return true
		}
	}
	return false
}

var (
	signMu    sync.Mutex
	signCache = map[string]common.BLSSignature{}
)

func (c *netCtx) rawSign(signer int, msg []byte) common.BLSSignature {
	key := fmt.Sprintf("%s/%d/%x", c.def.name, signer, msg)
	signMu.Lock()
	if s, ok := signCache[key]; ok {
		signMu.Unlock()
		return s
	}
	signMu.Unlock()
	s := common.BLSSignature(blsu.Sign(c.secret[signer], msg).Serialize())
	signMu.Lock()
	signCache[key] = s
	signMu.Unlock()
	return s
}

// sign produces a signature blob of the requested kind for (signer, domain type, message epoch, object root),
// for a verifier whose state is at stateEpoch.
func (c *netCtx) sign(kind sigKind, signer int, domType [4]byte, stateEpoch, msgEpoch uint64, objRoot [32]byte) common.BLSSignature {
	dom := c.oracleGetDomain(stateEpoch, domType, msgEpoch)
	switch kind {
	case sigOK:
		r := oracleSigningRoot(objRoot, dom)
		return c.rawSign(signer, r[:])
	case sigWrongKey:
		other := (signer + 1) % len(c.secret)
		r := oracleSigningRoot(objRoot, dom)
		return c.rawSign(other, r[:])
	case sigWrongDomain:
		dt := domType
		dt[0] ^= 0x10
		r := oracleSigningRoot(objRoot, c.oracleGetDomain(stateEpoch, dt, msgEpoch))
		return c.rawSign(signer, r[:])
	case sigWrongFork:
		r := oracleSigningRoot(objRoot, oracleDomain(domType, c.neighbourForkVersion(msgEpoch), c.gvr))
		return c.rawSign(signer, r[:])
	case sigWrongMsg:
		o := objRoot
		o[0] ^= 1
		r := oracleSigningRoot(o, dom)
		return c.rawSign(signer, r[:])
	case sigTrunc:
		r := oracleSigningRoot(objRoot, dom)
		return c.rawSign(signer, r[:2])
	case sigGarbage:
		var s common.BLSSignature
		for i := range s {
			s[i] = 0xff
		}
		return s
	case sigInfinity:
		var s common.BLSSignature
		s[0] = 0xc0
		return s
	case sigZero:
		return common.BLSSignature{}
	case sigCompPlus, sigCompMinus:
		r := oracleSigningRoot(objRoot, dom)
		return c.shiftSig(c.rawSign(signer, r[:]), kind == sigCompMinus)
	}
	panic("bad sig kind")
}

// oracleVerify: does blob verify for (signer, message)? Uses the real library on the harness's own key table.
func (c *netCtx) oracleVerify(signer int, msg []byte, blob common.BLSSignature) bool {
	sig, err := blob.Signature()
	if err != nil {
		return false
	}
	pk, err := c.pubs[signer].Pubkey()
	if err != nil {
		return false
	}
	return blsu.Verify(pk, msg, sig)
}

// oracleFastAggVerify: eth2_fast_aggregate_verify for the signers' keys.
func (c *netCtx) oracleFastAggVerify(signers []int, msg []byte, blob common.BLSSignature) bool {
	sig, err := blob.Signature()
	if err != nil {
		return false
	}
	var pks []*blsu.Pubkey
	for _, s := range signers {
		pk, err := c.pubs[s].Pubkey()
		if err != nil {
			return false
		}
		pks = append(pks, pk)
	}
	return blsu.Eth2FastAggregateVerify(pks, msg, sig)
}

// aggSign aggregates honest signatures of all signers over msg (nil signers: infinity blob).
func (c *netCtx) aggSign(signers []int, msg []byte) common.BLSSignature {
	if len(signers) == 0 {
		var s common.BLSSignature
		s[0] = 0xc0
		return s
	}
	var sigs []*blsu.Signature
	for _, s := range signers {
		b := c.rawSign(s, msg)
		sg, err := b.Signature()
		if err != nil {
			panic(err)
		}
		sigs = append(sigs, sg)
	}
	agg, err := blsu.Aggregate(sigs)
	if err != nil {
		panic(err)
	}
	return common.BLSSignature(agg.Serialize())
}

func symRoot(n uint64) (r common.Root) {
	// symbolic block roots: small integers spread into 32 bytes (0 is the zero root)
	if n == 0 {
		return
	}
	h := sha([]byte("c12-root"), []byte{byte(n), byte(n >> 8)})
	return h
}
