package gossip

import (
	"context"
	"errors"
	"fmt"
	"strings"
	"time"

	"github.com/protolambda/zrnt/eth2/beacon"
	"github.com/protolambda/zrnt/eth2/beacon/common"
)

// tri is the scripted answer of Chain.InSubtree(anchor, root).
type tri string

const (
	triYes tri = "yes"
	triNo  tri = "no"
	triUnk tri = "unk"
)

func parseTri(s string) (tri, bool) {
	switch s {
	case "yes", "no", "unk":
		return tri(s), true
	}
	return "", false
}

var errScripted = errors.New("scripted backend failure")

// entryScript describes one ChainEntry the mock chain can hand out.
type entryScript struct {
	parent   *common.Root // ParentRoot() answer; nil = unscripted
	slot     common.Slot
	at       *stateAt // real state/epc backing the entry (may be nil if epcOk/stateOk are false)
	epcOk    bool
	stateOk  bool
	blockSet bool
}

type mockEntry struct{ s entryScript }

func (e *mockEntry) Step() common.Step                     { return common.AsStep(e.s.slot, true) }
func (e *mockEntry) BlockRoot() (common.Root, error)       { panic("unscripted: BlockRoot") }
func (e *mockEntry) ParentRoot() (common.Root, error) {
	if e.s.parent == nil {
		panic("unscripted: ParentRoot")
	}
	return *e.s.parent, nil
}
func (e *mockEntry) StateRoot() (common.Root, error)       { panic("unscripted: StateRoot") }
func (e *mockEntry) EpochsContext(ctx context.Context) (*common.EpochsContext, error) {
	if !e.s.epcOk || e.s.at == nil {
		return nil, errScripted
	}
	return e.s.at.epc, nil
}
func (e *mockEntry) State(ctx context.Context) (common.BeaconState, error) {
	if !e.s.stateOk || e.s.at == nil {
		return nil, errScripted
	}
	return e.s.at.state, nil
}

// backend implements every *ValBackend interface of gossipval plus beacon.Chain, fully scripted.
// An unscripted query panics (the executor reports `panic`), so an unexpected extra lookup is visible.
type backend struct {
	c        *netCtx
	spec     *common.Spec // nil: the network's spec
	minSlot  common.Slot
	maxSlot  common.Slot
	seenFlag map[string]bool // by Seen* method name
	bad      bool
	domOk    bool
	domEpoch uint64 // epoch of the state the domain getter reads the fork from

	byBlock     map[common.Root]*entryScript // nil entry value = not found
	byBlockSlot map[string]*entryScript
	inSubtree   map[[2]common.Root]tri
	finalized   common.Checkpoint
	towards     map[string]*entryScript // key root/slot; nil value = error
	head        *entryScript            // nil = HeadInfo error

	queries []string
	marks   []string
}

func newBackend(c *netCtx) *backend {
	return &backend{c: c, seenFlag: map[string]bool{}, byBlock: map[common.Root]*entryScript{},
		byBlockSlot: map[string]*entryScript{}, inSubtree: map[[2]common.Root]tri{}, towards: map[string]*entryScript{},
		domOk: true}
}

func fmtCall(name string, args ...uint64) string {
	s := make([]string, len(args))
	for i, a := range args {
		s[i] = fmt.Sprintf("%d", a)
	}
	return name + "(" + strings.Join(s, ",") + ")"
}

func (b *backend) seen(name string, args ...uint64) bool {
	b.queries = append(b.queries, fmtCall(name, args...))
	return b.seenFlag[name]
}
func (b *backend) mark(name string, args ...uint64) { b.marks = append(b.marks, fmtCall(name, args...)) }

func (b *backend) Spec() *common.Spec {
	if b.spec != nil {
		return b.spec
	}
	return b.c.spec
}
func (b *backend) SlotAfter(delta time.Duration) common.Slot {
	if delta < 0 {
		return b.minSlot
	}
	return b.maxSlot
}
func (b *backend) Chain() beacon.Chain              { return (*mockChain)(b) }
func (b *backend) GenesisValidatorsRoot() common.Root { return b.c.gvr }
func (b *backend) IsBadBlock(root common.Root) bool   { return b.bad }
func (b *backend) GetDomain(typ common.BLSDomainType, epoch common.Epoch) (common.BLSDomain, error) {
	if !b.domOk {
		return common.BLSDomain{}, errScripted
	}
	// an honest backend: get_domain on its head state (independent computation, see ctx.go)
	return common.BLSDomain(b.c.oracleGetDomain(b.domEpoch, typ, uint64(epoch))), nil
}

func (b *backend) SeenBlock(slot common.Slot, proposer common.ValidatorIndex) bool {
	return b.seen("SeenBlock", uint64(slot), uint64(proposer))
}
func (b *backend) MarkBlock(slot common.Slot, proposer common.ValidatorIndex) {
	b.mark("MarkBlock", uint64(slot), uint64(proposer))
}
func (b *backend) SeenAttestation(e common.Epoch, v common.ValidatorIndex) bool {
	return b.seen("SeenAttestation", uint64(e), uint64(v))
}
func (b *backend) MarkAttestation(e common.Epoch, v common.ValidatorIndex) {
	b.mark("MarkAttestation", uint64(e), uint64(v))
}
func (b *backend) SeenAggregate(r common.Root) bool {
	b.queries = append(b.queries, fmt.Sprintf("SeenAggregate(%x)", r[:]))
	return b.seenFlag["SeenAggregate"]
}
func (b *backend) MarkAggregate(r common.Root) {
	b.marks = append(b.marks, fmt.Sprintf("MarkAggregate(%x)", r[:]))
}
func (b *backend) SeenAggregator(e common.Epoch, v common.ValidatorIndex) bool {
	return b.seen("SeenAggregator", uint64(e), uint64(v))
}
func (b *backend) MarkAggregator(e common.Epoch, v common.ValidatorIndex) {
	b.mark("MarkAggregator", uint64(e), uint64(v))
}
func (b *backend) SeenExit(v common.ValidatorIndex) bool { return b.seen("SeenExit", uint64(v)) }
func (b *backend) MarkExit(v common.ValidatorIndex)      { b.mark("MarkExit", uint64(v)) }
func (b *backend) SeenProposerSlashing(v common.ValidatorIndex) bool {
	return b.seen("SeenProposerSlashing", uint64(v))
}
func (b *backend) MarkProposerSlashing(v common.ValidatorIndex) {
	b.mark("MarkProposerSlashing", uint64(v))
}
func idxArgs(indices []common.ValidatorIndex) []uint64 {
	out := make([]uint64, len(indices))
	for i, v := range indices {
		out[i] = uint64(v)
	}
	return out
}
func (b *backend) AttesterSlashableAllSeen(indices []common.ValidatorIndex) bool {
	return b.seen("AttesterSlashableAllSeen", idxArgs(indices)...)
}
func (b *backend) MarkAttesterSlashings(indices []common.ValidatorIndex) {
	b.mark("MarkAttesterSlashings", idxArgs(indices)...)
}
func (b *backend) SeenSyncCommMsg(v common.ValidatorIndex, slot common.Slot, subnet uint64) bool {
	return b.seen("SeenSyncCommMsg", uint64(v), uint64(slot), subnet)
}
func (b *backend) MarkSyncCommMsg(v common.ValidatorIndex, slot common.Slot, subnet uint64) {
	b.mark("MarkSyncCommMsg", uint64(v), uint64(slot), subnet)
}
func (b *backend) SeenContribution(v common.ValidatorIndex, slot common.Slot, subnet uint64) bool {
	return b.seen("SeenContribution", uint64(v), uint64(slot), subnet)
}
func (b *backend) MarkContribution(v common.ValidatorIndex, slot common.Slot, subnet uint64) {
	b.mark("MarkContribution", uint64(v), uint64(slot), subnet)
}
func (b *backend) HeadInfo(ctx context.Context) (beacon.ChainEntry, *common.EpochsContext, common.BeaconState, error) {
	if b.head == nil {
		return nil, nil, nil, errScripted
	}
	return &mockEntry{*b.head}, b.head.at.epc, b.head.at.state, nil
}

// mockChain is the beacon.Chain view of the same scripted backend.
type mockChain backend

func (m *mockChain) ByStateRoot(root common.Root) (beacon.ChainEntry, bool) { panic("unscripted: ByStateRoot") }
func (m *mockChain) ByBlock(root common.Root) (beacon.ChainEntry, bool) {
	e, ok := m.byBlock[root]
	if !ok {
		panic("unscripted: ByBlock")
	}
	if e == nil {
		return nil, false
	}
	return &mockEntry{*e}, true
}
func bsKey(root common.Root, slot common.Slot) string { return fmt.Sprintf("%x/%d", root[:4], uint64(slot)) }
func (m *mockChain) ByBlockSlot(root common.Root, slot common.Slot) (beacon.ChainEntry, bool) {
	e, ok := m.byBlockSlot[bsKey(root, slot)]
	if !ok {
		panic("unscripted: ByBlockSlot")
	}
	if e == nil {
		return nil, false
	}
	return &mockEntry{*e}, true
}
func (m *mockChain) Search(parentRoot *common.Root, slot *common.Slot) ([]beacon.SearchEntry, error) {
	panic("unscripted: Search")
}
func (m *mockChain) Closest(fromBlockRoot common.Root, toSlot common.Slot) (beacon.ChainEntry, bool) {
	panic("unscripted: Closest")
}
func (m *mockChain) InSubtree(anchor common.Root, root common.Root) (unknown bool, inSubtree bool) {
	t, ok := m.inSubtree[[2]common.Root{anchor, root}]
	if !ok {
		panic("unscripted: InSubtree")
	}
	switch t {
	case triUnk:
		return true, false
	case triYes:
		return false, true
	default:
		return false, false
	}
}
func (m *mockChain) ByCanonStep(step common.Step) (beacon.ChainEntry, bool) { panic("unscripted: ByCanonStep") }
func (m *mockChain) Iter() (beacon.ChainIter, error)                        { panic("unscripted: Iter") }
func (m *mockChain) JustifiedCheckpoint() common.Checkpoint                 { panic("unscripted: JustifiedCheckpoint") }
func (m *mockChain) FinalizedCheckpoint() common.Checkpoint                 { return m.finalized }
func (m *mockChain) Justified() (beacon.ChainEntry, error)                  { panic("unscripted: Justified") }
func (m *mockChain) Finalized() (beacon.ChainEntry, error)                  { panic("unscripted: Finalized") }
func (m *mockChain) Head() (beacon.ChainEntry, error)                       { panic("unscripted: Head") }
func (m *mockChain) Towards(ctx context.Context, fromBlockRoot common.Root, toSlot common.Slot) (beacon.ChainEntry, error) {
	e, ok := m.towards[bsKey(fromBlockRoot, toSlot)]
	if !ok {
		panic("unscripted: Towards")
	}
	if e == nil {
		return nil, errScripted
	}
	return &mockEntry{*e}, nil
}
func (m *mockChain) Genesis() beacon.GenesisInfo { panic("unscripted: Genesis") }
