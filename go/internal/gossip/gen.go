package gossip

import (
	"bufio"
	"encoding/binary"
	"encoding/hex"
	"fmt"
	"math/rand"
	"strings"
	"sync"

	"github.com/protolambda/zrnt/eth2/beacon/common"
	"github.com/protolambda/zrnt/eth2/beacon/phase0"

	"verifharness/internal/hreg"
)

// A family is one validator's generator: honest base cases, and variables (scripted backend answers and
// single-condition message corruptions). Emitted: every base; every base × every single alternative; for the
// first `pairBases` bases every pair of alternatives of two different variables (so that the ORDER of checks
// and the short-circuit structure are observed); plus random triples.
type mutation struct {
	name string
	f    func(k *kvs)
}
type variable struct {
	name string
	alts []mutation
}
type family struct {
	kind      string
	bases     []*kvs
	vars      []variable
	pairBases int
	triples   int
}

func set(key, val string) func(k *kvs) { return func(k *kvs) { k.set(key, val) } }
func setU(key string, v uint64) func(k *kvs) { return func(k *kvs) { k.setU(key, v) } }
func m(name string, fs ...func(k *kvs)) mutation {
	return mutation{name, func(k *kvs) {
		for _, f := range fs {
			f(k)
		}
	}}
}

// rel sets key to (value of other key) + delta (wrapping).
func rel(key, other string, delta int64) func(k *kvs) {
	return func(k *kvs) { k.setU(key, k.u(other)+uint64(delta)) }
}

func sigAlts(key string) []mutation {
	var out []mutation
	for _, s := range sigKinds {
		if s != sigOK {
			out = append(out, m(key+"="+string(s), set(key, string(s))))
		}
	}
	return out
}

type item struct {
	k    *kvs
	tags []string
}

func (f *family) expand(rng *rand.Rand) []item {
	var out []item
	type alt struct {
		v int
		m mutation
	}
	var all []alt
	for vi, v := range f.vars {
		for _, a := range v.alts {
			all = append(all, alt{vi, a})
		}
	}
	for bi, b := range f.bases {
		out = append(out, item{b.clone(), []string{"honest"}})
		for _, a := range all {
			k := b.clone()
			a.m.f(k)
			out = append(out, item{k, []string{a.m.name}})
		}
		if bi < f.pairBases {
			for i, a := range all {
				for _, b2 := range all[i+1:] {
					if a.v == b2.v {
						continue
					}
					k := b.clone()
					a.m.f(k)
					b2.m.f(k)
					out = append(out, item{k, []string{a.m.name, b2.m.name}})
				}
			}
		}
	}
	for t := 0; t < f.triples && len(all) >= 3; t++ {
		k := f.bases[rng.Intn(len(f.bases))].clone()
		var tags []string
		used := map[int]bool{}
		for n := 0; n < 3+rng.Intn(2); n++ {
			a := all[rng.Intn(len(all))]
			if used[a.v] {
				continue
			}
			used[a.v] = true
			a.m.f(k)
			tags = append(tags, a.m.name)
		}
		out = append(out, item{k, tags})
	}
	return out
}

// ---------------------------------------------------------------------------------------------
// families

func mustGet(name string) *netCtx {
	c, err := getCtx(name)
	if err != nil {
		panic(err)
	}
	return c
}

func specSubnet(spe, cps, slot, idx uint64) uint64 { return (cps*(slot%spe) + idx) % 64 }

func blockFamily(o hreg.Opts) *family {
	f := &family{kind: "block", pairBases: o.Pick(2, 6), triples: o.Pick(300, 5000)}
	for _, cfg := range []string{"s", "b"} {
		c := mustGet(cfg)
		spe := uint64(c.spec.SLOTS_PER_EPOCH)
		// (slot, parent slot): same epoch / parent in the previous epoch / across the altair fork / first slot of an epoch
		for _, sp := range [][2]uint64{{26, 25}, {26, 23}, {17, 15}, {16, 15}, {9, 8}, {31, 24}, {12, 3}, {41, 40}} {
			slot, pslot := sp[0], sp[1]
			exp, err := c.mustAt(slot / spe).epc.GetBeaconProposer(common.Slot(slot))
			if err != nil {
				panic(err)
			}
			k := newKVs("block")
			k.set("cfg", cfg).setU("slot", slot).setU("proposer", uint64(exp)).setU("proot", 1).setU("pslot", pslot).
				set("sigk", "ok").set("digestk", "ok").
				setU("max", slot).set("seen", "0").set("pknown", "1").setU("fepoch", (slot/spe)-1).setU("froot", 2).
				set("fsub", "yes").set("pepc", "1").set("tow", "1").set("sepc", "1")
			f.bases = append(f.bases, k)
			if cfg == "b" && len(f.bases) >= 11 {
				break
			}
		}
	}
	// finite fork schedule (altair 2, bellatrix 3, capella 5, deneb 6): first / second / last slot of every fork
	// activation epoch and the slot before it. Honest signature and digest: ACCEPT; the `wrongfork` signature and the
	// wrong digest alternatives below sign / tag with the neighbouring fork version: REJECT.
	{
		c := mustGet("f")
		for _, sp := range [][2]uint64{{15, 14}, {16, 15}, {17, 16}, {23, 22}, {24, 23}, {25, 24}, {31, 30}, {32, 31}, {39, 38}, {40, 39},
			{41, 40}, {47, 46}, {48, 47}, {49, 48}, {55, 54}, {56, 55}, {57, 56}} {
			slot, pslot := sp[0], sp[1]
			exp, err := c.mustAt(slot / 8).epc.GetBeaconProposer(common.Slot(slot))
			if err != nil {
				panic(err)
			}
			k := newKVs("block")
			k.set("cfg", "f").setU("slot", slot).setU("proposer", uint64(exp)).setU("proot", 1).setU("pslot", pslot).
				set("sigk", "ok").set("digestk", "ok").
				setU("max", slot).set("seen", "0").set("pknown", "1").setU("fepoch", (slot/8)-1).setU("froot", 2).
				set("fsub", "yes").set("pepc", "1").set("tow", "1").set("sepc", "1")
			f.bases = append(f.bases, k)
		}
	}
	// no block for more than a full epoch: the parent is 2, 3 and 5 epochs before the block's epoch
	for _, cfg := range []string{"s", "b", "f"} {
		c := mustGet(cfg)
		for _, sp := range [][2]uint64{{26, 9}, {24, 15}, {33, 8}, {39, 10}, {41, 3}, {47, 7}, {56, 37}} {
			slot, pslot := sp[0], sp[1]
			exp, err := c.mustAt(slot / 8).epc.GetBeaconProposer(common.Slot(slot))
			if err != nil {
				panic(err)
			}
			k := newKVs("block")
			k.set("cfg", cfg).setU("slot", slot).setU("proposer", uint64(exp)).setU("proot", 1).setU("pslot", pslot).
				set("sigk", "ok").set("digestk", "ok").
				setU("max", slot).set("seen", "0").set("pknown", "1").setU("fepoch", 0).setU("froot", 2).
				set("fsub", "yes").set("pepc", "1").set("tow", "1").set("sepc", "1")
			f.bases = append(f.bases, k)
		}
	}
	wrongProposer := func(k *kvs) {
		n := uint64(mustCtx(k).def.validators)
		k.setU("proposer", (k.u("proposer")+1)%n)
	}
	f.vars = []variable{
		{"clock", []mutation{m("max=slot-1", rel("max", "slot", -1)), m("max=slot+1", rel("max", "slot", 1)),
			m("max=slot+100", rel("max", "slot", 100)), m("max=0", setU("max", 0))}},
		{"seen", []mutation{m("seen", set("seen", "1"))}},
		{"parent", []mutation{m("parent-unknown", set("pknown", "0")), m("pslot=slot", rel("pslot", "slot", 0)),
			m("pslot=slot+1", rel("pslot", "slot", 1)), m("pslot=slot-1", rel("pslot", "slot", -1))}},
		{"finalized", []mutation{
			m("fepoch=epoch(slot)", func(k *kvs) { k.setU("fepoch", k.u("slot")/8) }),
			m("fepoch=epoch(slot)+1", func(k *kvs) { k.setU("fepoch", k.u("slot")/8+1) }),
			m("fepoch=0", setU("fepoch", 0)),
			m("fepoch-overflow", setU("fepoch", 1<<61)),
			m("fepoch-max", setU("fepoch", ^uint64(0)))}},
		{"fsub", []mutation{m("fsub=unk", set("fsub", "unk")), m("fsub=no", set("fsub", "no"))}},
		{"pepc", []mutation{m("parent-epc-err", set("pepc", "0"))}},
		{"proposer", []mutation{m("wrong-proposer", wrongProposer),
			m("proposer=n", func(k *kvs) { k.setU("proposer", uint64(mustCtx(k).def.validators)) }),
			m("proposer=n+1", func(k *kvs) { k.setU("proposer", uint64(mustCtx(k).def.validators)+1) }),
			m("proposer=max", setU("proposer", ^uint64(0)))}},
		{"sig", sigAlts("sigk")},
		{"digest", []mutation{m("wrong-digest", set("digestk", "wrong"))}},
		{"towards", []mutation{m("towards-err", set("tow", "0")), m("slot-epc-err", set("sepc", "0"))}},
	}
	return f
}

// attBase: an honest attestation of committee member `pos` of committee (slot, idx).
func attBase(cfg string, slot, idx uint64, pos int) *kvs {
	c := mustGet(cfg)
	spe := uint64(c.spec.SLOTS_PER_EPOCH)
	ep := slot / spe
	s := c.mustAt(ep)
	cps := uint64(len(s.epc.CurrentEpoch.Committees[0]))
	comm, err := s.epc.GetBeaconCommittee(common.Slot(slot), common.CommitteeIndex(idx))
	if err != nil {
		panic(err)
	}
	fe := uint64(0)
	if ep >= 2 {
		fe = ep - 2
	}
	bslot := slot
	if slot > 0 {
		bslot = slot - 1
	}
	troot, anc := voteChain(ep*spe, bslot, pos)
	k := newKVs("att")
	k.set("cfg", cfg).set("fork", "phase0").setU("slot", slot).setU("idx", idx).setU("tepoch", ep).
		setU("bitlen", uint64(len(comm))).setL("bits", []uint64{uint64(pos % len(comm))}).
		setU("subnet", specSubnet(spe, cps, slot, idx)).setU("broot", 1).setU("troot", troot).set("sigk", "ok").set("signer", "voter").
		setU("min", slot).setU("max", slot).set("bad", "0").set("bknown", "1").setU("bslot", bslot).set("anc", fmtPairs(anc)).
		setU("denebepoch", ^uint64(0)).set("tsub", "yes").
		setU("froot", 2).set("fsub", "yes").setU("fepoch", fe).set("tow", "1").set("epc", "1").
		set("seen", "0").set("dom", "1")
	return k
}

// voteChain: an honest chain view below the voted block (root 1 at bslot) for a target epoch starting at tslot:
// the target root and the ancestors. If the block is not after tslot it is its own checkpoint block.
func voteChain(tslot, bslot uint64, variant int) (troot uint64, anc [][2]uint64) {
	if bslot <= tslot {
		return 1, [][2]uint64{{3, bslot - minU(bslot, 1)}}
	}
	at := tslot // slot of the checkpoint block: at the epoch start, or earlier (empty slots)
	if variant%3 == 1 && tslot >= 2 {
		at = tslot - 2
	}
	if variant%3 == 2 && bslot > tslot+1 {
		// a block between the checkpoint and the voted block
		return 3, [][2]uint64{{8, tslot + 1}, {3, at}}
	}
	return 3, [][2]uint64{{3, at}}
}

// denseChain: a block in EVERY slot between the target epoch's start (the checkpoint block, root 3) and the voted
// block: the parent walk needs bslot - tslot steps.
func denseChain(tslot, bslot uint64) [][2]uint64 {
	var anc [][2]uint64
	for sl := bslot - 1; sl > tslot; sl-- {
		anc = append(anc, [2]uint64{100 + (bslot - sl), sl})
	}
	return append(anc, [2]uint64{3, tslot})
}

func minU(a, b uint64) uint64 {
	if a < b {
		return a
	}
	return b
}

// straddle(d): deneb rules, clock interval [last slot of epoch e+d-1, first slot of epoch e+d] for data of epoch e.
func straddle(d uint64) func(k *kvs) {
	return func(k *kvs) {
		spe := uint64(mustCtx(k).spec.SLOTS_PER_EPOCH)
		e := k.u("slot") / spe
		if e > 1<<40 {
			return
		}
		k.set("fork", "deneb").setU("denebepoch", 0).setU("min", (e+d)*spe-1).setU("max", (e+d)*spe)
	}
}

func windowAlts() []mutation {
	w := func(name string, dmin, dmax int64) mutation {
		return m("window:"+name, rel("min", "slot", dmin), rel("max", "slot", dmax))
	}
	return []mutation{
		w("+32,+32", 32, 32), w("+33,+33", 33, 33), w("+32,+33", 32, 33), w("+33,+34", 33, 34), w("+31,+32", 31, 32),
		w("-1,-1", -1, -1), w("-1,0", -1, 0), w("0,+1", 0, 1), w("+8,+8", 8, 8), w("+15,+15", 15, 15), w("+16,+16", 16, 16),
		w("+20,+20", 20, 20), w("-2,-1", -2, -1), w("+40,+40", 40, 40), w("+63,+63", 63, 63), w("+64,+64", 64, 64),
		m("window:min>max", rel("min", "slot", 5), rel("max", "slot", 0)),
	}
}

func chainAlts(withBlockSlot bool) []variable {
	vs := []variable{
		{"bad", []mutation{m("bad-block", set("bad", "1"))}},
		{"bknown", []mutation{m("block-unknown", set("bknown", "0"), set("tsub", "unk"), set("fsub", "unk")),
			m("block-unknown-inconsistent-view", set("bknown", "0"))}},
		{"tsub", []mutation{m("tsub=unk", set("tsub", "unk")), m("tsub=no", set("tsub", "no"), set("anc", "9:0"))}},
		{"checkpoint", []mutation{
			// the target is an older ancestor; another block is the checkpoint block of the epoch
			m("target-not-checkpoint", func(k *kvs) {
				t := k.u("tepoch") * 8
				if c := mustCtx(k); c != nil {
					t = k.u("tepoch") * uint64(c.spec.SLOTS_PER_EPOCH)
				}
				if k.u("bslot") > t && t >= 1 {
					k.set("anc", fmt.Sprintf("7:%d,%d:%d", t, k.u("troot"), t-1))
				} else if t >= 2 {
					// the voted block itself is the checkpoint block, the target names its parent
					k.setU("troot", 3).set("anc", fmt.Sprintf("3:%d", minU(k.u("bslot"), t)-1))
				}
			}),
			m("dense-chain", func(k *kvs) {
				t := k.u("tepoch") * uint64(mustCtx(k).spec.SLOTS_PER_EPOCH)
				if k.u("bslot") > t && k.u("bslot")-t < 200 {
					k.setU("troot", 3).set("anc", fmtPairs(denseChain(t, k.u("bslot"))))
				}
			}),
			m("target=block-after-epoch-start", func(k *kvs) { k.setU("troot", k.u("broot")) }),
			m("ancestors-unknown", set("anc", "-")),
			m("ancestors-never-reach-target", func(k *kvs) {
				var a [][2]uint64
				for j := uint64(0); j < 40; j++ {
					a = append(a, [2]uint64{20 + j, k.u("bslot")})
				}
				k.set("anc", fmtPairs(a))
			}),
			m("two-blocks-between", func(k *kvs) {
				t := k.u("tepoch") * uint64(mustCtx(k).spec.SLOTS_PER_EPOCH)
				if k.u("bslot") > t+2 {
					k.set("anc", fmt.Sprintf("8:%d,9:%d,%d:%d", t+2, t+1, k.u("troot"), t))
				}
			})}},
		{"fin", []mutation{m("fsub=unk", set("fsub", "unk")), m("fsub=no", set("fsub", "no")),
			m("block-is-finalized", rel("broot", "froot", 0)),
			m("block-is-finalized,fepoch>tepoch", rel("broot", "froot", 0), rel("fepoch", "tepoch", 1)),
			m("block-is-finalized,fepoch=tepoch", rel("broot", "froot", 0), rel("fepoch", "tepoch", 0)),
			m("fepoch>tepoch", rel("fepoch", "tepoch", 1))}},
		{"towards", []mutation{m("towards-err", set("tow", "0")), m("epc-err", set("epc", "0"))}},
	}
	if withBlockSlot {
		vs = append(vs, variable{"bslot", []mutation{m("bslot=slot", rel("bslot", "slot", 0)), m("bslot=slot+1", rel("bslot", "slot", 1)),
			m("bslot=slot+9", rel("bslot", "slot", 9))}})
	}
	return vs
}

func attFamily(o hreg.Opts) *family {
	f := &family{kind: "att", pairBases: o.Pick(1, 4), triples: o.Pick(400, 8000)}
	// every slot/committee of epoch 3 (altair) and of epoch 1 (phase0) of the small network, some of the big one
	f.bases = append(f.bases, attBase("s", 26, 1, 2))
	for _, ep := range []uint64{3, 1, 0} {
		for sl := ep * 8; sl < ep*8+8; sl++ {
			for idx := uint64(0); idx < 2; idx++ {
				if !o.Thorough() && (sl+idx)%3 != 0 {
					continue
				}
				f.bases = append(f.bases, attBase("s", sl, idx, int(sl+idx)))
			}
		}
	}
	for _, sl := range []uint64{24, 29, 15} {
		f.bases = append(f.bases, attBase("b", sl, 0, int(sl)))
	}
	// SLOTS_PER_EPOCH = 32: epoch 2 = slots 64..95
	for _, sl := range []uint64{64, 77, 95, 40} {
		f.bases = append(f.bases, attBase("m", sl, 0, int(sl)))
	}
	// SLOTS_PER_EPOCH = 48 (epoch 3 = slots 144..191, altair; epoch 1 = 48..95, phase0), every slot of the chain filled:
	// votes for blocks up to 46 slots after the epoch start need that many parent steps
	for _, sl := range []uint64{144, 145, 177, 178, 179, 185, 191, 48 + 35, 48 + 47} {
		k := attBase("w", sl, 0, int(sl))
		if t := (sl / 48) * 48; k.u("bslot") > t {
			k.setU("troot", 3).set("anc", fmtPairs(denseChain(t, k.u("bslot"))))
		}
		f.bases = append(f.bases, k)
	}
	// SLOTS_PER_EPOCH = 4, 3 committees per slot
	for _, sl := range []uint64{12, 13, 15, 5, 7} {
		for idx := uint64(0); idx < 3; idx++ {
			f.bases = append(f.bases, attBase("t", sl, idx, int(sl+idx)))
		}
	}
	bitsAlts := []mutation{
		m("bits:none", set("bits", "-")),
		m("bits:two", func(k *kvs) { k.setL("bits", []uint64{0, k.u("bitlen") - 1}) }),
		m("bits:all", func(k *kvs) {
			var b []uint64
			for i := uint64(0); i < k.u("bitlen"); i++ {
				b = append(b, i)
			}
			k.setL("bits", b)
		}),
		m("bits:first", set("bits", "0")),
		m("bitlen+1", rel("bitlen", "bitlen", 1)),
		m("bitlen-1", func(k *kvs) { k.setU("bitlen", k.u("bitlen")-1); k.set("bits", "0") }),
		m("bitlen+1,lastbit", func(k *kvs) { k.setU("bitlen", k.u("bitlen")+1); k.setL("bits", []uint64{k.u("bitlen") - 1}) }),
	}
	f.vars = append([]variable{
		{"window", windowAlts()},
		{"epoch", []mutation{m("tepoch+1", rel("tepoch", "tepoch", 1)), m("tepoch-1", rel("tepoch", "tepoch", -1)),
			m("slot+8", rel("slot", "slot", 8), rel("min", "slot", 0), rel("max", "slot", 0)),
			m("tepoch-overflow", setU("tepoch", 1<<61), set("tow", "0")),
			m("slot-huge", func(k *kvs) {
				s := ^uint64(0) - 3
				k.setU("slot", s).setU("tepoch", s/8).setU("min", s).setU("max", s).set("tow", "0").setU("bslot", 1)
			}),
			m("slot-huge-33", func(k *kvs) {
				s := ^uint64(0) - 33
				k.setU("slot", s).setU("tepoch", s/8).setU("min", s).setU("max", s).set("tow", "0").setU("bslot", 1)
			})}},
		{"bits", bitsAlts},
		{"index", []mutation{m("idx=cps", func(k *kvs) { k.setU("idx", cpsOf(k)) }), m("idx=cps+1", func(k *kvs) { k.setU("idx", cpsOf(k)+1) }),
			m("idx=63", setU("idx", 63)), m("idx=64", setU("idx", 64)), m("idx=max", setU("idx", ^uint64(0))),
			m("idx-other", func(k *kvs) { k.setU("idx", (k.u("idx")+1)%cpsOf(k)) })}},
		{"subnet", []mutation{m("subnet+1", func(k *kvs) { k.setU("subnet", (k.u("subnet")+1)%64) }),
			m("subnet+64", rel("subnet", "subnet", 64)), m("subnet=max", setU("subnet", ^uint64(0)))}},
		{"seen", []mutation{m("seen", set("seen", "1"))}},
		{"dom", []mutation{m("domain-err", set("dom", "0"))}},
		{"sig", append(sigAlts("sigk"), m("signer=other-member", func(k *kvs) { k.setU("signer", otherMember(k)) }),
			m("signer=outsider", func(k *kvs) { k.setU("signer", uint64(mustCtx(k).def.validators)) }))},
		{"fork", []mutation{m("fork=deneb", set("fork", "deneb"), setU("denebepoch", 0)),
			m("deneb-at-current-epoch", set("fork", "deneb"), func(k *kvs) { k.setU("denebepoch", k.u("max")/uint64(mustCtx(k).spec.SLOTS_PER_EPOCH)) }),
			m("deneb-next-epoch", func(k *kvs) { k.setU("denebepoch", k.u("max")/uint64(mustCtx(k).spec.SLOTS_PER_EPOCH)+1) }),
			m("fork=deneb,window+20", set("fork", "deneb"), setU("denebepoch", 0), rel("min", "slot", 20), rel("max", "slot", 20)),
			m("fork=deneb,window+33", set("fork", "deneb"), setU("denebepoch", 0), rel("min", "slot", 33), rel("max", "slot", 33)),
			m("fork=deneb,window+40", set("fork", "deneb"), setU("denebepoch", 0), rel("min", "slot", 40), rel("max", "slot", 40)),
			m("fork=deneb,window+63", set("fork", "deneb"), setU("denebepoch", 0), rel("min", "slot", 63), rel("max", "slot", 63)),
			m("fork=deneb,window+64", set("fork", "deneb"), setU("denebepoch", 0), rel("min", "slot", 64), rel("max", "slot", 64)),
			// the clock's disparity interval straddles an epoch boundary: SlotAfter(-disparity) is the last slot of epoch N,
			// SlotAfter(+disparity) the first slot of epoch N+1
			m("deneb,straddle:previous-epoch-by-early-end", straddle(2)), // data epoch N-1: valid only w.r.t. the early end
			m("deneb,straddle:current-epoch-by-early-end", straddle(1)),  // data epoch N: current by the early end, previous by the late end
			m("deneb,straddle:two-epochs-old", straddle(3)),              // data epoch N-2: IGNORE
			// data in the first slot of epoch N+1 while the early end is still in epoch N: valid only w.r.t. the late end
			m("deneb,straddle:current-epoch-by-late-end", func(k *kvs) {
				spe := uint64(mustCtx(k).spec.SLOTS_PER_EPOCH)
				k.set("fork", "deneb").setU("denebepoch", 0)
				if sl := k.u("slot"); sl%spe == 0 && sl > 0 {
					k.setU("min", sl-1).setU("max", sl)
				}
			}),
			// pre-deneb analogue: the two ends of the interval lie on either side of the edge of the 32-slot range
			m("phase0,straddle:range-edge", rel("min", "slot", 32), rel("max", "slot", 33)),
			m("phase0,straddle:past-range-edge", rel("min", "slot", 33), rel("max", "slot", 34)),
			m("phase0,straddle:future-edge", rel("min", "slot", -1), rel("max", "slot", 0))}},
	}, chainAlts(true)...)
	return f
}

func cpsOf(k *kvs) uint64 {
	c := mustCtx(k)
	s := c.atOrNil(k.u("tepoch"))
	if s == nil {
		return 2
	}
	return uint64(len(s.epc.CurrentEpoch.Committees[0]))
}

// otherMember: a member of the attestation's committee other than the voter (or validator 0).
func otherMember(k *kvs) uint64 {
	p := attCommon(k)
	bits := k.list("bits")
	for i, v := range p.comm {
		if len(bits) == 0 || uint64(i) != bits[0] {
			return v
		}
	}
	return 0
}

// isAggSel: spec formula on the harness side, used to search for selected / unselected aggregators.
func hashMod(sig common.BLSSignature, modulo uint64) uint64 {
	h := sha(sig[:])
	if modulo == 0 {
		modulo = 1
	}
	return binary.LittleEndian.Uint64(h[:8]) % modulo
}

// pickAggregator returns a committee member whose honest selection proof selects (want=true) or does not.
func pickAggregator(c *netCtx, ep, slot uint64, comm []uint64, want bool) (uint64, bool) {
	spe := uint64(c.spec.SLOTS_PER_EPOCH)
	modulo := uint64(len(comm)) / 16
	for _, v := range comm {
		proof := c.sign(sigOK, int(v), common.DOMAIN_SELECTION_PROOF, ep, slot/spe, uint64Root(slot))
		if (hashMod(proof, modulo) == 0) == want {
			return v, true
		}
	}
	return 0, false
}

func aggBase(cfg string, slot, idx uint64, bits []uint64) *kvs {
	c := mustGet(cfg)
	spe := uint64(c.spec.SLOTS_PER_EPOCH)
	ep := slot / spe
	s := c.mustAt(ep)
	comm, err := s.epc.GetBeaconCommittee(common.Slot(slot), common.CommitteeIndex(idx))
	if err != nil {
		panic(err)
	}
	aggr, ok := pickAggregator(c, ep, slot, idxArgs(comm), true)
	if !ok {
		panic("no selected aggregator in committee")
	}
	fe := uint64(0)
	if ep >= 2 {
		fe = ep - 2
	}
	if bits == nil {
		for i := 0; i < len(comm); i += 2 {
			bits = append(bits, uint64(i))
		}
	}
	bslot := slot
	if slot > 0 {
		bslot = slot - 1
	}
	troot, anc := voteChain(ep*spe, bslot, int(slot))
	k := newKVs("agg")
	k.set("cfg", cfg).set("fork", "phase0").setU("slot", slot).setU("idx", idx).setU("tepoch", ep).setU("aggregator", aggr).
		setU("bitlen", uint64(len(comm))).setL("bits", bits).setU("broot", 1).setU("troot", troot).
		set("selk", "ok").set("osigk", "ok").set("asigk", "ok").
		setU("min", slot).setU("max", slot).set("seenaggr", "0").set("seenagg", "0").set("bad", "0").set("bknown", "1").
		setU("bslot", bslot).set("anc", fmtPairs(anc)).setU("denebepoch", ^uint64(0)).
		set("tsub", "yes").setU("froot", 2).set("fsub", "yes").setU("fepoch", fe).set("tow", "1").
		set("epc", "1").set("state", "1")
	return k
}

func aggFamily(o hreg.Opts) *family {
	f := &family{kind: "agg", pairBases: o.Pick(1, 3), triples: o.Pick(300, 6000)}
	f.bases = append(f.bases, aggBase("s", 27, 0, nil), aggBase("b", 25, 0, nil))
	for _, sl := range []uint64{24, 30, 9, 14, 2} {
		for idx := uint64(0); idx < 2; idx++ {
			if !o.Thorough() && (sl+idx)%2 != 0 {
				continue
			}
			f.bases = append(f.bases, aggBase("s", sl, idx, []uint64{uint64(sl % 4)}))
		}
	}
	f.bases = append(f.bases, aggBase("b", 13, 0, []uint64{0, 1, 2, 3, 4, 5, 6, 7, 8, 9, 10, 31}))
	f.bases = append(f.bases, aggBase("m", 70, 0, []uint64{0, 1}))
	for _, sl := range []uint64{144, 178, 185, 191, 48 + 40} {
		k := aggBase("w", sl, 0, []uint64{0})
		if t := (sl / 48) * 48; k.u("bslot") > t {
			k.setU("troot", 3).set("anc", fmtPairs(denseChain(t, k.u("bslot"))))
		}
		f.bases = append(f.bases, k)
	}
	for _, sl := range []uint64{13, 15, 6} {
		f.bases = append(f.bases, aggBase("t", sl, 1, []uint64{0, 1}))
	}
	notSelected := func(k *kvs) {
		c := mustCtx(k)
		p := attCommon(k)
		if v, ok := pickAggregator(c, stateEpochCap(k.u("tepoch")), k.u("slot"), p.comm, false); ok {
			k.setU("aggregator", v)
		}
	}
	nonMember := func(k *kvs) {
		p := attCommon(k)
		in := map[uint64]bool{}
		for _, v := range p.comm {
			in[v] = true
		}
		for v := uint64(0); v < uint64(p.c.def.validators); v++ {
			if !in[v] {
				k.setU("aggregator", v)
				return
			}
		}
	}
	asig := func(kinds ...string) []mutation {
		var out []mutation
		for _, s := range kinds {
			out = append(out, m("asigk="+s, set("asigk", s)))
		}
		return out
	}
	f.vars = append([]variable{
		{"window", windowAlts()},
		{"epoch", []mutation{m("tepoch+1", rel("tepoch", "tepoch", 1)), m("tepoch-1", rel("tepoch", "tepoch", -1))}},
		{"seenaggr", []mutation{m("seen-aggregator", set("seenaggr", "1"))}},
		{"seenagg", []mutation{m("seen-aggregate", set("seenagg", "1"))}},
		{"bits", []mutation{m("bits:none", set("bits", "-")), m("bits:one", set("bits", "1")),
			m("bits:all", func(k *kvs) {
				var b []uint64
				for i := uint64(0); i < k.u("bitlen"); i++ {
					b = append(b, i)
				}
				k.setL("bits", b)
			}),
			m("bitlen+1", rel("bitlen", "bitlen", 1)),
			m("bitlen-1", func(k *kvs) { k.setU("bitlen", k.u("bitlen")-1); k.set("bits", "0") })}},
		{"index", []mutation{m("idx=cps", func(k *kvs) { k.setU("idx", cpsOf(k)) }), m("idx=64", setU("idx", 64)),
			m("idx=max", setU("idx", ^uint64(0)))}},
		{"aggregator", []mutation{m("aggregator-not-selected", notSelected), m("aggregator-not-member", nonMember),
			m("aggregator=n", func(k *kvs) { k.setU("aggregator", uint64(mustCtx(k).def.validators)) }),
			m("aggregator=max", setU("aggregator", ^uint64(0)))}},
		{"selproof", sigAlts("selk")},
		{"outer", sigAlts("osigk")},
		{"aggsig", asig("wrongkey", "missing", "wrongmsg", "wrongdomain", "garbage", "infinity", "zero")},
		{"state", []mutation{m("state-err", set("state", "0"))}},
		{"fork", []mutation{m("fork=deneb", set("fork", "deneb"), setU("denebepoch", 0)),
			m("deneb-at-current-epoch", set("fork", "deneb"), func(k *kvs) { k.setU("denebepoch", k.u("max")/uint64(mustCtx(k).spec.SLOTS_PER_EPOCH)) }),
			m("deneb-next-epoch", func(k *kvs) { k.setU("denebepoch", k.u("max")/uint64(mustCtx(k).spec.SLOTS_PER_EPOCH)+1) }),
			m("fork=deneb,window+20", set("fork", "deneb"), setU("denebepoch", 0), rel("min", "slot", 20), rel("max", "slot", 20)),
			m("fork=deneb,window+33", set("fork", "deneb"), setU("denebepoch", 0), rel("min", "slot", 33), rel("max", "slot", 33)),
			m("fork=deneb,window+40", set("fork", "deneb"), setU("denebepoch", 0), rel("min", "slot", 40), rel("max", "slot", 40)),
			m("fork=deneb,window+63", set("fork", "deneb"), setU("denebepoch", 0), rel("min", "slot", 63), rel("max", "slot", 63)),
			m("fork=deneb,window+64", set("fork", "deneb"), setU("denebepoch", 0), rel("min", "slot", 64), rel("max", "slot", 64)),
			// the clock's disparity interval straddles an epoch boundary: SlotAfter(-disparity) is the last slot of epoch N,
			// SlotAfter(+disparity) the first slot of epoch N+1
			m("deneb,straddle:previous-epoch-by-early-end", straddle(2)), // data epoch N-1: valid only w.r.t. the early end
			m("deneb,straddle:current-epoch-by-early-end", straddle(1)),  // data epoch N: current by the early end, previous by the late end
			m("deneb,straddle:two-epochs-old", straddle(3)),              // data epoch N-2: IGNORE
			// data in the first slot of epoch N+1 while the early end is still in epoch N: valid only w.r.t. the late end
			m("deneb,straddle:current-epoch-by-late-end", func(k *kvs) {
				spe := uint64(mustCtx(k).spec.SLOTS_PER_EPOCH)
				k.set("fork", "deneb").setU("denebepoch", 0)
				if sl := k.u("slot"); sl%spe == 0 && sl > 0 {
					k.setU("min", sl-1).setU("max", sl)
				}
			}),
			// pre-deneb analogue: the two ends of the interval lie on either side of the edge of the 32-slot range
			m("phase0,straddle:range-edge", rel("min", "slot", 32), rel("max", "slot", 33)),
			m("phase0,straddle:past-range-edge", rel("min", "slot", 33), rel("max", "slot", 34)),
			m("phase0,straddle:future-edge", rel("min", "slot", -1), rel("max", "slot", 0))}},
	}, chainAlts(true)...)
	return f
}

func exitFamily(o hreg.Opts) *family {
	f := &family{kind: "exit", pairBases: 3, triples: o.Pick(200, 3000)}
	for _, b := range []struct {
		cfg            string
		ep, vi, xepoch uint64
	}{{"s", 3, 5, 3}, {"s", 3, 63, 0}, {"s", 2, 0, 1}, {"b", 4, 200, 2}, {"s", 5, 17, 5}, {"s", 1, 9, 0}} {
		k := newKVs("exit")
		k.set("cfg", b.cfg).setU("ep", b.ep).setU("vindex", b.vi).setU("xepoch", b.xepoch).set("sigk", "ok").set("vmod", "-").
			set("seen", "0").set("head", "1")
		f.bases = append(f.bases, k)
	}
	vm := func(kind string) mutation {
		return m("validator:"+kind, func(k *kvs) {
			if k.u("vindex") < uint64(mustCtx(k).def.validators) {
				k.set("vmod", fmt.Sprintf("%d:%s", k.u("vindex"), kind))
			}
		})
	}
	f.vars = []variable{
		{"seen", []mutation{m("seen", set("seen", "1"))}},
		{"head", []mutation{m("head-err", set("head", "0"))}},
		{"vindex", []mutation{m("vindex=n", func(k *kvs) { k.setU("vindex", uint64(mustCtx(k).def.validators)) }),
			m("vindex=n+1", func(k *kvs) { k.setU("vindex", uint64(mustCtx(k).def.validators)+1) }),
			m("vindex=max", setU("vindex", ^uint64(0)))}},
		{"xepoch", []mutation{m("xepoch=cur+1", rel("xepoch", "ep", 1)), m("xepoch=cur", rel("xepoch", "ep", 0)),
			m("xepoch=0", setU("xepoch", 0)), m("xepoch=1", setU("xepoch", 1)), m("xepoch=max", setU("xepoch", ^uint64(0)))}},
		{"validator", []mutation{vm("exited"), vm("exiting"), vm("inactive"), vm("young")}},
		{"sig", sigAlts("sigk")},
	}
	return f
}

func pslashFamily(o hreg.Opts) *family {
	f := &family{kind: "pslash", pairBases: 2, triples: o.Pick(200, 3000)}
	for _, b := range []struct {
		cfg          string
		ep, slot, pr uint64
	}{{"s", 3, 20, 7}, {"s", 3, 9, 40}, {"b", 2, 16, 255}, {"s", 1, 3, 0}, {"s", 5, 44, 33},
		// head in epoch 0: every genesis validator is in its activation epoch
		{"s", 0, 3, 5}, {"b", 0, 1, 200}} {
		k := newKVs("pslash")
		k.set("cfg", b.cfg).setU("ep", b.ep).setU("slot1", b.slot).setU("slot2", b.slot).setU("prop1", b.pr).setU("prop2", b.pr).
			set("hdiff", "1").set("sigk1", "ok").set("sigk2", "ok").set("vmod", "-").set("seen", "0").set("head", "1")
		f.bases = append(f.bases, k)
	}
	vm := func(kind string) mutation {
		return m("validator:"+kind, func(k *kvs) {
			if k.u("prop1") < uint64(mustCtx(k).def.validators) {
				k.set("vmod", fmt.Sprintf("%d:%s", k.u("prop1"), kind))
			}
		})
	}
	f.vars = []variable{
		{"slots", []mutation{m("slot2+1", rel("slot2", "slot2", 1)), m("slot2-epoch", rel("slot2", "slot2", 8))}},
		{"proposers", []mutation{m("prop2+1", rel("prop2", "prop2", 1)),
			m("both=n", func(k *kvs) { n := uint64(mustCtx(k).def.validators); k.setU("prop1", n).setU("prop2", n) }),
			m("both=max", setU("prop1", ^uint64(0)), setU("prop2", ^uint64(0)))}},
		{"headers", []mutation{m("identical-headers", set("hdiff", "0"))}},
		{"seen", []mutation{m("seen", set("seen", "1"))}},
		{"head", []mutation{m("head-err", set("head", "0"))}},
		// all four edges of is_slashable_validator: activation_epoch in {epoch, epoch+1}, withdrawable_epoch in {epoch, epoch+1}
		{"validator", []mutation{vm("slashed"), vm("withdrawn"), vm("inactive"), vm("unwd"), vm("exited"),
			vm("justactive"), vm("actnext"), vm("wdnext")}},
		// two individually invalid signatures whose SUM equals the sum of the two honest ones (s1 + X, s2 - X)
		{"compensating", []mutation{m("compensating-signatures", set("sigk1", "compplus"), set("sigk2", "compminus")),
			m("compensating-signatures-swapped", set("sigk1", "compminus"), set("sigk2", "compplus"))}},
		{"sig1", sigAlts("sigk1")},
		{"sig2", sigAlts("sigk2")},
	}
	return f
}

func aslashFamily(o hreg.Opts) *family {
	f := &family{kind: "aslash", pairBases: 2, triples: o.Pick(200, 3000)}
	mk := func(cfg string, ep, s1, t1, s2, t2 uint64, i1, i2 []uint64) *kvs {
		k := newKVs("aslash")
		k.set("cfg", cfg).setU("ep", ep).setU("src1", s1).setU("tgt1", t1).setU("src2", s2).setU("tgt2", t2).set("deq", "0").
			setL("idx1", i1).setL("idx2", i2).set("sigk1", "ok").set("sigk2", "ok").set("vmod", "-").set("allseen", "0").set("head", "1")
		return k
	}
	f.bases = []*kvs{
		mk("s", 3, 1, 2, 1, 2, []uint64{3, 5, 9}, []uint64{5, 9, 11}),     // double vote
		mk("s", 3, 0, 3, 1, 2, []uint64{1, 2, 3, 60}, []uint64{2, 60}),    // surround vote
		mk("b", 4, 1, 3, 2, 3, []uint64{100, 255}, []uint64{0, 100, 255}), // double vote (different source)
		mk("s", 3, 2, 3, 2, 3, []uint64{7}, []uint64{7}),
		// head in epoch 0: every genesis validator is in its activation epoch
		mk("s", 0, 0, 0, 0, 0, []uint64{4, 8}, []uint64{8, 30}),
		mk("b", 0, 0, 1, 0, 1, []uint64{17}, []uint64{17, 18}),
	}
	vmAll := func(kind string) mutation {
		return m("intersection:"+kind, func(k *kvs) {
			var mods []string
			in := map[uint64]bool{}
			for _, v := range k.list("idx2") {
				in[v] = true
			}
			for _, v := range k.list("idx1") {
				if in[v] && v < uint64(mustCtx(k).def.validators) {
					mods = append(mods, fmt.Sprintf("%d:%s", v, kind))
				}
			}
			if len(mods) > 0 {
				k.set("vmod", strings.Join(mods, ";"))
			}
		})
	}
	vmFirst := func(kind string) mutation {
		return m("first-common:"+kind, func(k *kvs) {
			in := map[uint64]bool{}
			for _, v := range k.list("idx2") {
				in[v] = true
			}
			for _, v := range k.list("idx1") {
				if in[v] && v < uint64(mustCtx(k).def.validators) {
					k.set("vmod", fmt.Sprintf("%d:%s", v, kind))
					return
				}
			}
		})
	}
	asig := func(key string) []mutation {
		var out []mutation
		for _, s := range []string{"wrongkey", "wrongmsg", "garbage", "zero", "infinity"} {
			out = append(out, m(key+"="+s, set(key, s)))
		}
		return out
	}
	f.vars = []variable{
		{"data", []mutation{
			m("same-data", func(k *kvs) { k.setU("src2", k.u("src1")).setU("tgt2", k.u("tgt1")).set("deq", "1") }),
			m("not-slashable", setU("src1", 1), setU("tgt1", 2), setU("src2", 2), setU("tgt2", 3)),
			m("surrounded-not-surrounding", setU("src1", 1), setU("tgt1", 2), setU("src2", 0), setU("tgt2", 3)),
			m("same-source-nested", setU("src1", 1), setU("tgt1", 3), setU("src2", 1), setU("tgt2", 2))}},
		{"idx1", []mutation{m("idx1-unsorted", set("idx1", "9,5,3")), m("idx1-dup", set("idx1", "5,5,9")), m("idx1-empty", set("idx1", "-")),
			m("idx1-out-of-range", func(k *kvs) { k.setL("idx1", append(k.list("idx1"), uint64(mustCtx(k).def.validators)+3)) })}},
		{"idx2", []mutation{m("idx2-unsorted", set("idx2", "11,9,5")), m("idx2-dup", set("idx2", "9,9")), m("idx2-empty", set("idx2", "-")),
			m("idx2-disjoint", set("idx2", "20,21")),
			m("both-out-of-range", func(k *kvs) {
				n := uint64(mustCtx(k).def.validators) + 3
				k.setL("idx1", append(k.list("idx1"), n)).setL("idx2", append(k.list("idx2"), n))
			})}},
		{"allseen", []mutation{m("all-seen", set("allseen", "1"))}},
		{"head", []mutation{m("head-err", set("head", "0"))}},
		{"validators", []mutation{vmAll("slashed"), vmAll("withdrawn"), vmAll("inactive"), vmFirst("slashed"), vmFirst("unwd"),
			vmAll("justactive"), vmAll("actnext"), vmAll("wdnext"), vmFirst("actnext"), vmFirst("justactive")}},
		{"compensating", []mutation{m("compensating-signatures", set("sigk1", "compplus"), set("sigk2", "compminus")),
			m("compensating-signatures-swapped", set("sigk1", "compminus"), set("sigk2", "compplus"))}},
		{"sig1", asig("sigk1")},
		{"sig2", asig("sigk2")},
	}
	return f
}

// onSubnet: is validator v a member of the committee on the given subnet?
func onSubnet(c *netCtx, ind []common.ValidatorIndex, v, subnet uint64) bool {
	sub := uint64(c.spec.SYNC_COMMITTEE_SIZE) / 4
	for i, w := range ind {
		if uint64(w) == v && uint64(i)/sub == subnet {
			return true
		}
	}
	return false
}

// exclusiveMember: a (validator, subnet) of committee `in` that is NOT valid for committee `out` (so that a validator
// that consults the wrong committee answers differently); falls back to position `pick` when the committees agree.
func exclusiveMember(c *netCtx, in, out []common.ValidatorIndex, pick int) (uint64, uint64) {
	sub := uint64(c.spec.SYNC_COMMITTEE_SIZE) / 4
	for j := 0; j < len(in); j++ {
		i := (pick + j) % len(in)
		v, sn := uint64(in[i]), uint64(i)/sub
		if !onSubnet(c, out, v, sn) {
			return v, sn
		}
	}
	i := pick % len(in)
	return uint64(in[i]), uint64(i) / sub
}

// syncMember returns a (validator, subnet) of the committee in charge at the slot, exclusive to it where possible.
func syncMember(c *netCtx, slot uint64, pick int) (uint64, uint64) {
	s := syncState(c, slot)
	in, out := c.syncInCharge(s, slot)
	return exclusiveMember(c, in, out, pick)
}

func syncWindowAlts() []mutation {
	w := func(name string, dmin, dmax int64) mutation {
		return m("window:"+name, rel("min", "slot", dmin), rel("max", "slot", dmax))
	}
	return []mutation{w("+1,+1", 1, 1), w("+2,+2", 2, 2), w("-1,-1", -1, -1), w("-1,0", -1, 0), w("0,+1", 0, 1),
		w("+1,+2", 1, 2), w("-2,-1", -2, -1), w("+33,+33", 33, 33)}
}

func syncMsgFamily(o hreg.Opts) *family {
	f := &family{kind: "syncmsg", pairBases: 3, triples: o.Pick(300, 4000)}
	for _, b := range []struct {
		cfg  string
		slot uint64
		pick int
	}{{"s", 26, 0}, {"s", 24, 13}, {"b", 29, 77}, {"s", 17, 31}, {"s", 31, 5}, {"b", 63, 100}, {"s", 30, 20}, {"s", 33, 9},
		// every slot of the last epoch of sync committee period 1 (epochs 4..7; the committees differ after the rotation
		// at epoch 4), and the first slot of the next period
		{"b", 56, 3}, {"b", 57, 40}, {"b", 58, 77}, {"b", 59, 101}, {"b", 60, 9}, {"b", 61, 64}, {"b", 62, 127}, {"b", 64, 5},
		{"s", 56, 1}, {"s", 59, 14}, {"s", 62, 30}, {"s", 63, 7}, {"s", 95, 11}, {"s", 94, 20},
		// sync period of 3 epochs (!= SYNC_COMMITTEE_SUBNET_COUNT): SLOTS_PER_EPOCH 4 (period 1 = slots 12..23) and 48
		// (period 1 = slots 144..287)
		{"t", 20, 1}, {"t", 21, 17}, {"t", 22, 40}, {"t", 23, 63}, {"t", 24, 5}, {"t", 13, 9},
		// SYNC_COMMITTEE_SIZE 30 (slices of 7) and 13 (slices of 3): the member at the first and the last position of every
		// slice, and the members beyond the last slice (their formula subnet is 4)
		{"o", 26, 0}, {"o", 26, 6}, {"o", 26, 7}, {"o", 26, 13}, {"o", 27, 14}, {"o", 27, 20}, {"o", 27, 21}, {"o", 27, 27},
		{"o", 28, 28}, {"o", 28, 29},
		{"p", 26, 0}, {"p", 26, 2}, {"p", 26, 3}, {"p", 26, 5}, {"p", 27, 6}, {"p", 27, 8}, {"p", 27, 9}, {"p", 27, 11}, {"p", 28, 12},
		{"w", 287, 2}, {"w", 286, 5}, {"w", 240, 9}, {"w", 288, 30}} {
		c := mustGet(b.cfg)
		v, sn := syncMember(c, b.slot, b.pick)
		k := newKVs("syncmsg")
		k.set("cfg", b.cfg).setU("slot", b.slot).setU("vindex", v).setU("subnet", sn).setU("broot", 1).set("sigk", "ok").
			setU("min", b.slot).setU("max", b.slot).set("bknown", "1").set("epc", "1").set("seen", "0").set("dom", "1")
		f.bases = append(f.bases, k)
	}
	nonMember := func(k *kvs) {
		c := mustCtx(k)
		s := syncState(c, k.u("slot"))
		in := map[uint64]bool{}
		ind, _ := c.syncInCharge(s, k.u("slot"))
		for _, v := range ind {
			in[uint64(v)] = true
		}
		for v := uint64(0); v < uint64(c.def.validators); v++ {
			if !in[v] {
				k.setU("vindex", v)
				return
			}
		}
	}
	// a member of the OTHER committee (next when the current one is in charge and vice versa), on its subnet there
	nextMember := func(k *kvs) {
		c := mustCtx(k)
		s := syncState(c, k.u("slot"))
		in, out := c.syncInCharge(s, k.u("slot"))
		v, sn := exclusiveMember(c, out, in, 3)
		k.setU("vindex", v).setU("subnet", sn)
	}
	f.vars = []variable{
		{"window", syncWindowAlts()},
		{"bknown", []mutation{m("block-unknown", set("bknown", "0"), set("tsub", "unk"), set("fsub", "unk")),
			m("block-unknown-inconsistent-view", set("bknown", "0"))}},
		{"epc", []mutation{m("epc-err", set("epc", "0"))}},
		{"validator", []mutation{m("non-member", nonMember), m("other-committee-member", nextMember),
			m("vindex=n", func(k *kvs) { k.setU("vindex", uint64(mustCtx(k).def.validators)) }), m("vindex=max", setU("vindex", ^uint64(0)))}},
		{"subnet", []mutation{m("subnet+1", func(k *kvs) { k.setU("subnet", (k.u("subnet")+1)%4) }), m("subnet+2", func(k *kvs) { k.setU("subnet", (k.u("subnet")+2)%4) }),
			m("subnet=4", setU("subnet", 4)), m("subnet=max", setU("subnet", ^uint64(0)))}},
		{"seen", []mutation{m("seen", set("seen", "1"))}},
		{"dom", []mutation{m("domain-err", set("dom", "0"))}},
		{"sig", sigAlts("sigk")},
	}
	return f
}

// pickSyncAggregator: a member of subcommittee subidx (committee in charge) whose selection proof selects / does not.
func pickSyncAggregator(c *netCtx, slot, subidx uint64, want bool) (uint64, bool) {
	s := syncState(c, slot)
	size := uint64(c.spec.SYNC_COMMITTEE_SIZE)
	sub := size / 4
	modulo := size / 4 / 16
	sd := sha(func() []byte { a := uint64Root(slot); return a[:] }(), func() []byte { a := uint64Root(subidx); return a[:] }())
	inCharge, other := c.syncInCharge(s, slot)
	// prefer an aggregator that is not in the other committee's subcommittee (second pass: anyone)
	for pass := 0; pass < 2; pass++ {
		for _, v := range inCharge[subidx*sub : (subidx+1)*sub] {
			if pass == 0 && onSubnet(c, other, uint64(v), subidx) {
				continue
			}
			proof := c.sign(sigOK, int(v), common.DOMAIN_SYNC_COMMITTEE_SELECTION_PROOF, s.epoch, s.epoch, sd)
			if (hashMod(proof, modulo) == 0) == want {
				return uint64(v), true
			}
		}
	}
	return 0, false
}

// aggrAt: make the member at committee position pos(subcommittee size, subcommittee index, committee size) of the
// committee in charge the aggregator (no change when the position does not exist).
func aggrAt(pos func(sub, idx, n uint64) uint64) func(k *kvs) {
	return func(k *kvs) {
		c := mustCtx(k)
		if k.u("subidx") >= 4 {
			return
		}
		s := syncState(c, k.u("slot"))
		in, _ := c.syncInCharge(s, k.u("slot"))
		p := pos(uint64(c.spec.SYNC_COMMITTEE_SIZE)/4, k.u("subidx"), uint64(len(in)))
		if p < uint64(len(in)) {
			k.setU("aggregator", uint64(in[p]))
		}
	}
}

func contribFamily(o hreg.Opts) *family {
	f := &family{kind: "contrib", pairBases: 2, triples: o.Pick(300, 4000)}
	for _, b := range []struct {
		cfg          string
		slot, subidx uint64
		bits         []uint64
	}{{"s", 26, 1, []uint64{0, 3, 7}}, {"b", 28, 2, []uint64{1, 2, 3, 30, 31}}, {"s", 24, 0, []uint64{5}}, {"s", 31, 3, []uint64{0, 1}},
		{"b", 63, 0, []uint64{4, 9}}, {"s", 17, 2, []uint64{0, 1, 2, 3, 4, 5, 6, 7}},
		{"b", 56, 1, []uint64{0, 5}}, {"b", 58, 3, []uint64{2}}, {"b", 60, 0, []uint64{7, 8, 9}}, {"b", 62, 2, []uint64{31}},
		{"s", 57, 0, []uint64{1, 2}}, {"s", 61, 3, []uint64{0}}, {"s", 64, 1, []uint64{3, 4}},
		{"t", 22, 1, []uint64{0, 15}}, {"t", 23, 3, []uint64{7}}, {"t", 24, 0, []uint64{1, 2, 3}}, {"w", 287, 2, []uint64{0, 1}},
		// every subcommittee of a sync committee of 30 (slices of 7) and of 13 (slices of 3); participants at the first and
		// the last position of the slice
		{"o", 26, 0, []uint64{0, 6}}, {"o", 26, 1, []uint64{0, 6}}, {"o", 27, 2, []uint64{0, 6}}, {"o", 27, 3, []uint64{0, 6}},
		{"o", 28, 2, []uint64{3}}, {"o", 28, 3, []uint64{0, 1, 2, 3, 4, 5, 6}},
		{"p", 26, 0, []uint64{0, 2}}, {"p", 26, 1, []uint64{0, 2}}, {"p", 27, 2, []uint64{0, 2}}, {"p", 27, 3, []uint64{0, 2}}, {"p", 28, 3, []uint64{1}}} {
		c := mustGet(b.cfg)
		aggr, ok := pickSyncAggregator(c, b.slot, b.subidx, true)
		if !ok {
			panic("no selected sync aggregator")
		}
		k := newKVs("contrib")
		k.set("cfg", b.cfg).setU("slot", b.slot).setU("subidx", b.subidx).setU("aggregator", aggr).setL("bits", b.bits).setU("broot", 1).
			set("selk", "ok").set("osigk", "ok").set("csigk", "ok").
			setU("min", b.slot).setU("max", b.slot).set("bknown", "1").set("epc", "1").set("seen", "0").set("dom", "1")
		f.bases = append(f.bases, k)
	}
	notSelected := func(k *kvs) {
		if k.u("subidx") < 4 {
			if v, ok := pickSyncAggregator(mustCtx(k), k.u("slot"), k.u("subidx"), false); ok {
				k.setU("aggregator", v)
			}
		}
	}
	otherSub := func(k *kvs) {
		c := mustCtx(k)
		s := syncState(c, k.u("slot"))
		if k.u("subidx") >= 4 {
			return
		}
		sub := uint64(c.spec.SYNC_COMMITTEE_SIZE) / 4
		in := map[uint64]bool{}
		inCharge, _ := c.syncInCharge(s, k.u("slot"))
		for _, v := range inCharge[k.u("subidx")*sub : (k.u("subidx")+1)*sub] {
			in[uint64(v)] = true
		}
		for v := uint64(0); v < uint64(c.def.validators); v++ {
			if !in[v] {
				k.setU("aggregator", v)
				return
			}
		}
	}
	csig := func(kinds ...string) []mutation {
		var out []mutation
		for _, s := range kinds {
			out = append(out, m("csigk="+s, set("csigk", s)))
		}
		return out
	}
	f.vars = []variable{
		{"window", syncWindowAlts()},
		{"subidx", []mutation{m("subidx=4", setU("subidx", 4)), m("subidx=max", setU("subidx", ^uint64(0))),
			m("subidx+1", func(k *kvs) { k.setU("subidx", (k.u("subidx")+1)%4) })}},
		{"bits", []mutation{m("bits:none", set("bits", "-")), m("bits:one", set("bits", "2"))}},
		{"aggregator", []mutation{m("aggregator-not-selected", notSelected), m("aggregator-other-subcommittee", otherSub),
			m("aggregator=last-of-slice", aggrAt(func(sub, idx, n uint64) uint64 { return sub*(idx+1) - 1 })),
			m("aggregator=first-of-next-slice", aggrAt(func(sub, idx, n uint64) uint64 { return sub * (idx + 1) })),
			m("aggregator=last-of-previous-slice", aggrAt(func(sub, idx, n uint64) uint64 { return sub*idx - 1 })),
			m("aggregator=last-committee-position", aggrAt(func(sub, idx, n uint64) uint64 { return n - 1 })),
			m("aggregator=n", func(k *kvs) { k.setU("aggregator", uint64(mustCtx(k).def.validators)) }), m("aggregator=max", setU("aggregator", ^uint64(0)))}},
		{"bknown", []mutation{m("block-unknown", set("bknown", "0"), set("tsub", "unk"), set("fsub", "unk")),
			m("block-unknown-inconsistent-view", set("bknown", "0"))}},
		{"epc", []mutation{m("epc-err", set("epc", "0"))}},
		{"seen", []mutation{m("seen", set("seen", "1"))}},
		{"dom", []mutation{m("domain-err", set("dom", "0"))}},
		{"selproof", sigAlts("selk")},
		{"outer", sigAlts("osigk")},
		{"contribsig", csig("wrongkey", "missing", "wrongmsg", "garbage", "infinity", "zero", "other")},
	}
	return f
}

// ---------------------------------------------------------------------------------------------

func verdictOf(line string) string {
	if i := strings.IndexByte(line, ' '); i > 0 {
		return line[:i]
	}
	return line
}

func gen(o hreg.Opts, w *bufio.Writer) error {
	rng := o.Rand()
	st := o.Stats
	var items []item
	for _, f := range []*family{blockFamily(o), attFamily(o), aggFamily(o), exitFamily(o), pslashFamily(o), aslashFamily(o),
		syncMsgFamily(o), contribFamily(o)} {
		items = append(items, f.expand(rng)...)
	}
	// derive facts (signature oracle etc.) and observe the verdict of the real code (statistics only), in parallel
	lines := make([]string, len(items))
	verdicts := make([]string, len(items))
	var wg sync.WaitGroup
	ch := make(chan int, 256)
	for wk := 0; wk < workers(); wk++ {
		wg.Add(1)
		go func() {
			defer wg.Done()
			for i := range ch {
				run, status := prepareSafe(items[i].k, true)
				if run == nil {
					verdicts[i] = "skipped:" + status
					continue
				}
				lines[i] = items[i].k.String()
				verdicts[i] = verdictOf(hreg.Guard(run))
			}
		}()
	}
	for i := range items {
		ch <- i
	}
	close(ch)
	wg.Wait()
	for i, it := range items {
		kind := it.k.kind
		if lines[i] == "" {
			st.Add("skipped", kind+" "+verdicts[i])
			continue
		}
		fmt.Fprintln(w, lines[i])
		st.Add("kind", kind)
		st.Add("verdict:"+kind, verdicts[i])
		st.Add("cfg", it.k.s("cfg"))
		if len(it.tags) == 1 {
			st.Add("single:"+kind, it.tags[0])
		} else {
			st.Add("combined:"+kind, fmt.Sprintf("%d conditions varied", len(it.tags)))
		}
	}
	genUnits(o, rng, w)
	// malformed stream: both sides must answer bad-op
	for _, l := range []string{"", "nosuchkind a=1", "block", "att cfg", "block cfg=s slot", "att =1", "exit vindex=x",
		"isagg n=1 proof=zz", "subnet spe=0 cps=1 slot=1 idx=0", "slotspan min=1 max=2 slot=3", "syncagg size=128"} {
		fmt.Fprintln(w, l)
		st.Add("kind", "malformed")
	}
	return nil
}

func genUnits(o hreg.Opts, rng *rand.Rand, w *bufio.Writer) {
	st := o.Stats
	n := o.Pick(1500, 60000)
	proof := func() string {
		b := make([]byte, 96)
		rng.Read(b)
		return hex.EncodeToString(b)
	}
	sizes := []uint64{0, 1, 15, 16, 17, 31, 32, 33, 47, 48, 64, 128, 160, 2048, 1 << 20, 1<<63 - 1, 1 << 63, ^uint64(0)}
	for i := 0; i < n; i++ {
		sz := sizes[rng.Intn(len(sizes))]
		if rng.Intn(3) == 0 {
			sz = uint64(rng.Intn(400))
		}
		switch i % 6 {
		case 0:
			fmt.Fprintf(w, "isagg n=%d proof=%s\n", sz, proof())
			st.Add("kind", "isagg")
		case 1:
			// SYNC_COMMITTEE_SIZE; modulo = size/4/16
			s := []uint64{4, 32, 63, 64, 127, 128, 129, 192, 256, 512, 1024, 1 << 40, ^uint64(0)}[rng.Intn(13)]
			fmt.Fprintf(w, "syncagg size=%d proof=%s\n", s, proof())
			st.Add("kind", "syncagg")
		case 2:
			spe := []uint64{1, 8, 32, 6}[rng.Intn(4)]
			cps := uint64(rng.Intn(70))
			idx := uint64(rng.Intn(80))
			slot := rng.Uint64() >> uint(rng.Intn(64))
			if rng.Intn(8) == 0 {
				cps = rng.Uint64() >> uint(rng.Intn(64))
				idx = rng.Uint64() >> uint(rng.Intn(64))
			}
			fmt.Fprintf(w, "subnet spe=%d cps=%d slot=%d idx=%d\n", spe, cps, slot, idx)
			st.Add("kind", "subnet")
		case 3, 4:
			size := []uint64{4, 8, 32, 128, 5, 6, 13, 30, 511}[rng.Intn(9)]
			comm := make([]uint64, size)
			for j := range comm {
				comm[j] = uint64(rng.Intn(int(size)/2 + 2))
			}
			if i%6 == 3 {
				fmt.Fprintf(w, "insubnet size=%d comm=%s v=%d subnet=%d\n", size, fmtList(comm), uint64(rng.Intn(int(size)/2+3)), uint64(rng.Intn(6)))
				st.Add("kind", "insubnet")
			} else {
				fmt.Fprintf(w, "subcomm size=%d comm=%s subnet=%d\n", size, fmtList(comm), uint64(rng.Intn(6)))
				st.Add("kind", "subcomm")
			}
		case 5:
			a := rng.Uint64() >> uint(rng.Intn(64))
			if rng.Intn(4) == 0 {
				a = ^uint64(0) - uint64(rng.Intn(70))
			}
			span := []uint64{0, 1, 32}[rng.Intn(3)]
			fmt.Fprintf(w, "slotspan min=%d max=%d slot=%d span=%d\n", a+uint64(rng.Intn(40)), a+uint64(rng.Intn(40)), a+uint64(rng.Intn(60))-10, span)
			st.Add("kind", "slotspan")
		}
	}
	_ = phase0.IsAggregator
}
