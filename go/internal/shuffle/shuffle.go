// Package shuffle: PermuteIndex, UnpermuteIndex, ShuffleList, UnshuffleList of eth2/beacon/common
// (property C06) driven over all small sizes, the 256-/8-aligned boundary sizes, pivots at both ends,
// and a malformed / out-of-domain stream.
package shuffle

import (
	"bufio"
	"crypto/sha256"
	"encoding/binary"
	"encoding/hex"
	"fmt"
	"runtime"
	"strconv"
	"strings"
	"sync"

	"github.com/protolambda/zrnt/eth2/beacon/common"

	"verifharness/internal/hreg"
)

func init() { hreg.Register(&hreg.Mode{Name: "shuffle", Gen: gen, Exec: exec}) }

var bigSizes = []int{767, 768, 769, 1023, 1024, 1025, 4095, 4096, 4097}
var boundary = []int{0, 1, 2, 3, 4, 7, 8, 9, 15, 16, 17, 31, 32, 33, 63, 64, 65, 127, 128, 129, 254, 255, 256, 257, 258,
	263, 264, 265, 300, 383, 384, 385, 510, 511, 512, 513, 514, 519, 520}

func isBoundary(n int) bool {
	for _, b := range boundary {
		if b == n {
			return true
		}
	}
	return false
}

// pivotOf is the generator's own computation of the round pivot (only used to steer seeds and for stats).
func pivotOf(seed [32]byte, round uint8, n uint64) uint64 {
	var buf [33]byte
	copy(buf[:32], seed[:])
	buf[32] = round
	h := sha256.Sum256(buf[:])
	return binary.LittleEndian.Uint64(h[:8]) % n
}

func gen(o hreg.Opts, w *bufio.Writer) error {
	rng := o.Rand()
	st := o.Stats
	newSeed := func() [32]byte {
		var s [32]byte
		rng.Read(s[:])
		return s
	}
	sizeBucket := func(n int) string {
		switch {
		case n <= 1:
			return "0-1"
		case n < 8:
			return "2-7"
		case n < 256:
			return "8-255"
		case n <= 258:
			return "256-258"
		case n <= 520:
			return "259-520"
		case n <= 1025:
			return "521-1025"
		case n <= 4097:
			return "1026-4097"
		default:
			return ">=65535"
		}
	}
	pivStats := func(seed [32]byte, rounds int, n int) {
		if n < 2 {
			return
		}
		for r := 0; r < rounds; r++ {
			p := pivotOf(seed, uint8(r), uint64(n))
			switch {
			case p == 0:
				st.Add("pivot", "0")
			case p == uint64(n-1):
				st.Add("pivot", "n-1")
			case p&0xff == 0xff:
				st.Add("pivot", "≡255 mod 256")
			case p&7 == 7:
				st.Add("pivot", "≡7 mod 8")
			default:
				st.Add("pivot", "other")
			}
		}
	}
	list := func(n int, rounds int, seed [32]byte) {
		st.Add("op", "list")
		st.Add("list-size", sizeBucket(n))
		st.Add("list-rounds", strconv.Itoa(rounds))
		pivStats(seed, rounds, n)
		off := uint64(0)
		switch rng.Intn(3) {
		case 1:
			off = uint64(rng.Intn(1000))
		case 2:
			off = ^uint64(0) - uint64(n) - uint64(rng.Intn(5)) // values up to the top of the uint64 range
		}
		fmt.Fprintf(w, "list %d %d %d %s\n", n, off, rounds, hex.EncodeToString(seed[:]))
	}
	idx := func(n int, rounds int, seed [32]byte) {
		st.Add("op", "idx")
		st.Add("idx-size", sizeBucket(n))
		st.Add("idx-rounds", strconv.Itoa(rounds))
		pivStats(seed, rounds, n)
		fmt.Fprintf(w, "idx %d %d %s\n", n, rounds, hex.EncodeToString(seed[:]))
	}
	one := func(dir string, rounds int, index, n uint64, seed [32]byte, kind string) {
		st.Add("op", "one")
		st.Add("one-kind", kind)
		fmt.Fprintf(w, "one %s %d %d %d %s\n", dir, rounds, index, n, hex.EncodeToString(seed[:]))
	}

	nseeds := o.Pick(3, 50)
	seeds := make([][32]byte, nseeds)
	for i := range seeds {
		seeds[i] = newSeed()
	}
	maxN := o.Pick(520, 2100)
	var sizes []int
	for n := 0; n <= maxN; n++ {
		sizes = append(sizes, n)
	}
	sizes = append(sizes, bigSizes[len(bigSizes)-o.Pick(9, 3):]...) // thorough already walks through 767..1025
	// A. whole-list functions
	for _, n := range sizes {
		big := n > 520
		list(n, 3, seeds[0])
		list(n, 10, seeds[1%nseeds])
		list(n, []int{0, 1, 2}[n%3], seeds[2%nseeds])
		if isBoundary(n) || (big && n >= 1023 && n <= 1025) {
			list(n, 90, seeds[n%nseeds])
		}
		if n == 1 || n == 2 || n == 3 || n == 8 || n == 9 || n == 255 || n == 256 || n == 257 || n == 512 || n == 513 {
			list(n, 255, seeds[(n+1)%nseeds])
		}
		if o.Thorough() {
			if n <= 40 {
				for r := 0; r <= 255; r++ {
					list(n, r, seeds[(n+r)%nseeds])
				}
			}
			if isBoundary(n) {
				for _, s := range seeds[:20] {
					list(n, 10, s)
				}
			}
		}
	}
	// A2. lists whose pivot / position windows exceed 8 and 16 bits (window = position >> 8), and degenerate seeds
	for i, n := range []int{65535, 65536, 65537, 70001} {
		list(n, 1+i/3, seeds[i%nseeds])
	}
	if o.Thorough() {
		list(1<<19+1, 2, seeds[0])
	}
	var zeroSeed, ffSeed [32]byte
	for i := range ffSeed {
		ffSeed[i] = 0xff
	}
	for _, n := range []int{1, 2, 9, 256, 257, 513} {
		list(n, 10, zeroSeed)
		list(n, 90, ffSeed)
		idx(min(n, 300), 10, zeroSeed)
		idx(min(n, 300), 3, ffSeed)
	}
	// B. per-index functions on all indices of all sizes <= 300
	for n := 1; n <= 300; n++ {
		idx(n, []int{1, 2, 3, 10}[n%4], seeds[n%nseeds])
		if isBoundary(n) {
			idx(n, 90, seeds[(n+1)%nseeds])
		}
		if n == 1 || n == 2 || n == 9 || n == 255 || n == 256 || n == 257 {
			idx(n, 255, seeds[(n+2)%nseeds])
		}
		if o.Thorough() {
			for _, r := range []int{1, 2, 3, 10, 90, 255} {
				idx(n, r, newSeed())
			}
		}
	}
	// C. seeds searched so that the round-0 pivot is 0 resp. n-1
	for _, n := range []int{2, 3, 4, 5, 7, 8, 9, 16, 17, 255, 256, 257, 258, 264, 512, 513, 1024, 1025} {
		for _, want := range []uint64{0, uint64(n - 1)} {
			var s [32]byte
			found := false
			for try := 0; try < 200000; try++ {
				s = newSeed()
				if pivotOf(s, 0, uint64(n)) == want {
					found = true
					break
				}
			}
			if !found {
				st.Add("pivot-search", "not-found")
				continue
			}
			if want == 0 {
				st.Add("pivot-search", "round0-pivot-0")
			} else {
				st.Add("pivot-search", "round0-pivot-n-1")
			}
			list(n, 1, s)
			list(n, 3, s)
			if n <= 300 {
				idx(n, 1, s)
				idx(n, 2, s)
			}
		}
	}
	// P. the same list operations from several goroutines at once (each on its own slice, its own seed): ordinary use
	// when sibling states are processed in parallel; the results must be what the sequential calls give
	for i, n := range []int{257, 1000, 3000, 513, 2048} {
		st.Add("op", "par")
		st.Add("par-workers", strconv.Itoa(8+4*(i%3)))
		s := seeds[i%nseeds]
		fmt.Fprintf(w, "par %d %d %d %d %s\n", 8+4*(i%3), o.Pick(300, 3000), n, []int{10, 10, 3, 90, 10}[i], hex.EncodeToString(s[:]))
	}
	// D. single calls: in-domain large sizes, and outside the documented domain
	m := o.Pick(300, 5000)
	maxU := ^uint64(0)
	for i := 0; i < m; i++ {
		s := seeds[i%nseeds]
		dir := []string{"p", "u"}[i%2]
		rounds := []int{0, 1, 2, 3, 10, 90, 255}[rng.Intn(7)]
		switch i % 10 {
		case 0:
			one(dir, rounds, uint64(rng.Intn(5)), 0, s, "n=0")
		case 1:
			n := uint64(1 + rng.Intn(300))
			one(dir, rounds, n+uint64(rng.Intn(4)), n, s, "index>=n small")
		case 2:
			n := uint64(1 + rng.Intn(300))
			one(dir, rounds, maxU-uint64(rng.Intn(1000)), n, s, "index near 2^64")
		case 3:
			n := (uint64(1) << 63) + uint64(rng.Intn(5)) - 2
			one(dir, 1+rounds%3, rng.Uint64()%n, n, s, "n near 2^63")
		case 4:
			n := maxU - uint64(rng.Intn(3))
			one(dir, 1+rounds%3, rng.Uint64()%n, n, s, "n near 2^64")
		case 5:
			n := (uint64(1) << 40) + uint64(rng.Intn(5)) - 2
			one(dir, rounds, rng.Uint64()%n, n, s, "n near 2^40")
		case 6:
			n := uint64(1) << uint(8+rng.Intn(32))
			one(dir, rounds, rng.Uint64()%n, n, s, "in-domain large n")
		default:
			n := uint64(1 + rng.Intn(300))
			one(dir, rounds, uint64(rng.Intn(int(n))), n, s, "in-domain small n")
		}
	}
	// E. malformed lines
	for _, l := range []string{"list", "list 5", "list x 0 3 " + strings.Repeat("00", 32), "list 5 0 256 " + strings.Repeat("00", 32),
		"list 5 0 3 abcd", "idx 0 3 " + strings.Repeat("00", 32), "idx 5 3", "idx 5 300 " + strings.Repeat("11", 32),
		"one x 3 1 5 " + strings.Repeat("00", 32), "one p 3 1 5 zz", "one p 3 -1 5 " + strings.Repeat("00", 32), "frobnicate 1 2 3", ""} {
		st.Add("op", "malformed")
		fmt.Fprintln(w, l)
	}
	return nil
}

func fmtList(xs []common.ValidatorIndex) string {
	buf := make([]byte, 8*len(xs))
	for i, v := range xs {
		binary.LittleEndian.PutUint64(buf[8*i:], uint64(v))
	}
	d := sha256.Sum256(buf)
	out := hex.EncodeToString(d[:])
	if len(xs) <= 40 {
		parts := make([]string, len(xs))
		for i, v := range xs {
			parts[i] = strconv.FormatUint(uint64(v), 10)
		}
		out += "[" + strings.Join(parts, ",") + "]"
	}
	return out
}

func parseSeed(s string) (common.Root, bool) {
	var r common.Root
	b, err := hex.DecodeString(s)
	if err != nil || len(b) != 32 {
		return r, false
	}
	copy(r[:], b)
	return r, true
}

func pu(s string) (uint64, bool) {
	v, err := strconv.ParseUint(s, 10, 64)
	return v, err == nil
}

// parallelLists runs, in `workers` goroutines released together, `reps` times: ShuffleList and UnshuffleList of
// [0,n) with the worker's own seed (seed with its first byte xor-ed with the worker number) on the worker's own
// slices. Answer: per worker the digests of the two results, or `unstable` if some repetition gave a different
// result than the first one. Deterministic when the code under test is free of shared mutable state.
func parallelLists(workers, reps int, n uint64, rounds uint8, seed common.Root) string {
	if runtime.GOMAXPROCS(0) < 4 {
		defer runtime.GOMAXPROCS(runtime.GOMAXPROCS(4))
	}
	out := make([]string, workers)
	start := make(chan struct{})
	var wg sync.WaitGroup
	for g := 0; g < workers; g++ {
		wg.Add(1)
		go func(g int) {
			defer wg.Done()
			defer func() {
				if r := recover(); r != nil {
					out[g] = "panic"
				}
			}()
			sd := seed
			sd[0] ^= byte(g)
			a := make([]common.ValidatorIndex, n)
			b := make([]common.ValidatorIndex, n)
			first := ""
			stable := true
			<-start
			for r := 0; r < reps; r++ {
				for i := range a {
					a[i] = common.ValidatorIndex(i)
					b[i] = common.ValidatorIndex(i)
				}
				common.ShuffleList(rounds, a, sd)
				common.UnshuffleList(rounds, b, sd)
				cur := "s=" + fmtList(a) + " u=" + fmtList(b)
				if r == 0 {
					first = cur
				} else if cur != first {
					stable = false
				}
			}
			if stable {
				out[g] = first
			} else {
				out[g] = "unstable"
			}
		}(g)
	}
	close(start)
	wg.Wait()
	return "ok " + strings.Join(out, " ; ")
}

func exec(o hreg.Opts, sc *bufio.Scanner, w *bufio.Writer) error {
	for sc.Scan() {
		f := hreg.Fields(sc.Text())
		res := "bad-op"
		switch {
		case len(f) == 5 && f[0] == "list":
			n, ok1 := pu(f[1])
			off, ok2 := pu(f[2])
			rounds, ok3 := pu(f[3])
			seed, ok4 := parseSeed(f[4])
			if !(ok1 && ok2 && ok3 && ok4) || rounds > 255 || n > 1000000 || off > ^uint64(0)-n {
				break
			}
			res = hreg.Guard(func() string {
				a := make([]common.ValidatorIndex, n)
				b := make([]common.ValidatorIndex, n)
				for i := range a {
					a[i] = common.ValidatorIndex(off + uint64(i))
					b[i] = a[i]
				}
				common.ShuffleList(uint8(rounds), a, seed)
				common.UnshuffleList(uint8(rounds), b, seed)
				return "ok s=" + fmtList(a) + " u=" + fmtList(b)
			})
		case len(f) == 6 && f[0] == "par":
			workers, ok1 := pu(f[1])
			reps, ok2 := pu(f[2])
			n, ok3 := pu(f[3])
			rounds, ok4 := pu(f[4])
			seed, ok5 := parseSeed(f[5])
			if !(ok1 && ok2 && ok3 && ok4 && ok5) || rounds > 255 || n > 100000 || workers == 0 || workers > 64 || reps == 0 || reps > 100000 {
				break
			}
			res = parallelLists(int(workers), int(reps), n, uint8(rounds), seed)
		case len(f) == 4 && f[0] == "idx":
			n, ok1 := pu(f[1])
			rounds, ok2 := pu(f[2])
			seed, ok3 := parseSeed(f[3])
			if !(ok1 && ok2 && ok3) || rounds > 255 || n > 100000 || n == 0 {
				break
			}
			res = hreg.Guard(func() string {
				p := make([]common.ValidatorIndex, n)
				u := make([]common.ValidatorIndex, n)
				for i := uint64(0); i < n; i++ {
					p[i] = common.PermuteIndex(uint8(rounds), common.ValidatorIndex(i), n, seed)
					u[i] = common.UnpermuteIndex(uint8(rounds), common.ValidatorIndex(i), n, seed)
				}
				return "ok p=" + fmtList(p) + " u=" + fmtList(u)
			})
		case len(f) == 6 && f[0] == "one":
			rounds, ok1 := pu(f[2])
			index, ok2 := pu(f[3])
			n, ok3 := pu(f[4])
			seed, ok4 := parseSeed(f[5])
			if !(ok1 && ok2 && ok3 && ok4) || rounds > 255 || (f[1] != "p" && f[1] != "u") {
				break
			}
			res = hreg.Guard(func() string {
				var v common.ValidatorIndex
				if f[1] == "p" {
					v = common.PermuteIndex(uint8(rounds), common.ValidatorIndex(index), n, seed)
				} else {
					v = common.UnpermuteIndex(uint8(rounds), common.ValidatorIndex(index), n, seed)
				}
				return "ok " + strconv.FormatUint(uint64(v), 10)
			})
		}
		fmt.Fprintln(w, res)
	}
	return sc.Err()
}
