// Package hreg is the registry and shared plumbing of the verification harness.
//
// Every component registers a Mode with two functions:
//
//	Gen(o, w)        write generated operation lines to w (deterministic in o.Seed / o.Tier)
//	Exec(o, r, w)    read operation lines from r, run each against the REAL zrnt code in-process,
//	                 write exactly one canonical result line per operation line to w
//
// The same operation lines are piped to `zmodel <mode>`; the check driver diffs the two outputs.
package hreg

import (
	"bufio"
	"encoding/json"
	"fmt"
	"io"
	"math/rand"
	"os"
	"sort"
	"strings"
)

type Opts struct {
	Seed  int64
	Tier  string // quick | thorough
	Stats *Stats
}

func (o Opts) Thorough() bool { return o.Tier == "thorough" }

// Pick returns q for the quick tier and t for the thorough tier.
func (o Opts) Pick(q, t int) int {
	if o.Thorough() {
		return t
	}
	return q
}

func (o Opts) Rand() *rand.Rand { return rand.New(rand.NewSource(o.Seed)) }

type Mode struct {
	Name string
	Gen  func(o Opts, w *bufio.Writer) error
	Exec func(o Opts, r *bufio.Scanner, w *bufio.Writer) error
}

var modes = map[string]*Mode{}

func Register(m *Mode) { modes[m.Name] = m }

func Get(name string) *Mode { return modes[name] }

func Names() []string {
	var n []string
	for k := range modes {
		n = append(n, k)
	}
	sort.Strings(n)
	return n
}

// Stats collects the input distribution of a generator run (histograms) for the evidence file.
type Stats struct {
	Hist map[string]map[string]int `json:"hist"`
}

func NewStats() *Stats { return &Stats{Hist: map[string]map[string]int{}} }

func (s *Stats) Add(hist, bucket string) {
	if s == nil {
		return
	}
	h := s.Hist[hist]
	if h == nil {
		h = map[string]int{}
		s.Hist[hist] = h
	}
	h[bucket]++
}

func (s *Stats) Write(path string) error {
	b, err := json.MarshalIndent(s, "", " ")
	if err != nil {
		return err
	}
	return os.WriteFile(path, b, 0o644)
}

// Guard runs f and converts a panic into the canonical result "panic".
func Guard(f func() string) (out string) {
	defer func() {
		if r := recover(); r != nil {
			out = "panic"
		}
	}()
	return f()
}

func NewScanner(r io.Reader) *bufio.Scanner {
	sc := bufio.NewScanner(r)
	sc.Buffer(make([]byte, 1<<20), 1<<30)
	return sc
}

func Fields(line string) []string { return strings.Fields(line) }

func B2S(b bool) string {
	if b {
		return "true"
	}
	return "false"
}

func Fatalf(f string, a ...interface{}) {
	fmt.Fprintf(os.Stderr, "harness: "+f+"\n", a...)
	os.Exit(2)
}
