// Package faults: fault enumeration for property C18 (cancellation and execution-engine faults always
// surface as errors) on the REAL transition code, along chains from the chain library.
//
// Operation lines (chains are rebuilt deterministically from <cfg> <n> <seed> <slots>; step = slot index):
//
//	clean  <cfg> <n> <seed> <slots> <step>                an instrumented run (counting context, recording
//	                                                      engine) gives the same result/root as a plain run  -> same
//	cancel <cfg> <n> <seed> <slots> <step> <k> <N>        the context reports cancellation from its k-th poll on;
//	                                                      N = polls of the clean run. k < N must give  -> err ; k >= N -> same
//	engine <cfg> <n> <seed> <slots> <step> <j> <M> <v>    the j-th engine call answers v (invalid|error|trueerror|ctxerror|valid; ctxerror = an engine
//	                                                      error wrapping context.DeadlineExceeded while the caller's context is alive);
//	                                                      M = engine calls of the clean run. j < M and v != valid -> err ; else same
//	engine-nv …                                           the same with validateResult=false (no signature / state-root check)
//	args   <cfg> <n> <seed> <slots> <step>                the engine was shown exactly the block's payload, the versioned
//	                                                      hashes 0x01‖sha256(commitment)[1:] and the block's parent root -> ok
//
//	mergeblk <cfg> <n> <seed> <slots> <step>              (bellatrix+, payload not the default payload) the same block with the
//	                                                      payload's block_hash zeroed, run without signature/state-root validation:
//	                                                      execution is still enabled (is_execution_enabled looks at the WHOLE payload),
//	                                                      so the engine must be consulted with the spec's call sequence -> ok
//
//	premerge <cfg> <n> <seed> <slots> <step> <fork>       (bellatrix+) pre-state with the default execution header, block with the
//	                                                      all-zero payload: bellatrix -> ok calls=0 (execution not enabled), capella and
//	                                                      deneb -> err (process_execution_payload is unconditional from capella on)
//
// A result `polls-mismatch` / `calls-mismatch` means the clean run was not deterministic (machinery error).
package faults

import (
	"bufio"
	"bytes"
	"context"
	"crypto/sha256"
	"fmt"
	"os"
	"strconv"
	"strings"

	"github.com/protolambda/zrnt/eth2/beacon/bellatrix"
	"github.com/protolambda/zrnt/eth2/beacon/capella"
	"github.com/protolambda/zrnt/eth2/beacon/deneb"
	"github.com/protolambda/zrnt/eth2/beacon/common"
	"github.com/protolambda/ztyp/tree"

	"verifharness/internal/chain"
	"verifharness/internal/hreg"
)

func init() { hreg.Register(&hreg.Mode{Name: "c18", Gen: gen, Exec: exec}) }

// countCtx counts Err() polls and reports cancellation from poll index cancelFrom on (-1: never).
type countCtx struct {
	context.Context
	n          int
	cancelFrom int
}

func (c *countCtx) Err() error {
	i := c.n
	c.n++
	if c.cancelFrom >= 0 && i >= c.cancelFrom {
		return context.Canceled
	}
	return nil
}

type chainKey struct {
	cfg   string // configuration id, optionally "<id>+<policy>" (chain.PolicyByName)
	n     int
	seed  int64
	slots int
}

var cache = map[chainKey][]*chain.Step{}
var cacheChain = map[chainKey]*chain.Chain{}

func steps(k chainKey) ([]*chain.Step, *chain.Chain, error) {
	if s, ok := cache[k]; ok {
		return s, cacheChain[k], nil
	}
	cfgID, policy := k.cfg, ""
	if i := strings.Index(k.cfg, "+"); i >= 0 {
		cfgID, policy = k.cfg[:i], k.cfg[i+1:]
	}
	cfg, err := chain.ConfigByID(cfgID)
	if err != nil {
		return nil, nil, err
	}
	c, err := chain.NewChain(cfg, k.n, "mixed", k.seed)
	if err != nil {
		return nil, nil, err
	}
	if policy != "" {
		c.Policy = chain.PolicyByName(policy)
	}
	s, err := c.Run(k.slots)
	if err != nil {
		return nil, nil, err
	}
	if len(cache) > 8 { // bound memory
		cache = map[chainKey][]*chain.Step{}
		cacheChain = map[chainKey]*chain.Chain{}
	}
	cache[k] = s
	cacheChain[k] = c
	return s, c, nil
}

type outcome struct {
	err   error
	root  common.Root
	polls int
	calls []chain.EngineCall
}

// transition runs the step's transition (slots + block, or slots only) on a copy of step.Pre.
// engineAt >= 0: the engineAt-th engine call answers v. cancelFrom >= 0: cancellation from that poll on.
// plain: use context.Background() (no instrumentation of the context).
func transition(c *chain.Chain, st *chain.Step, cancelFrom int, engineAt int, v chain.Verdict, plain bool) (o outcome) {
	return transitionM(c, st, cancelFrom, engineAt, v, plain, false)
}

// transitionM: slotsOnly runs only common.ProcessSlots up to the step's slot (the block, if any, is left
// out), so that the LAST polls of slot/epoch/upgrade processing are not followed by block-processing polls.
// wrapCtxErr: scripted engine errors are delivered as errors that WRAP context.DeadlineExceeded (an engine-side
// timeout) while the caller's own context is alive: still an engine failure, must surface as an error.
var wrapCtxErr = false

// noValidate: run StateTransition with validateResult=false (the mode a block producer uses to compute the
// state root): no proposer-signature and no state-root check that could turn a swallowed fault into an error.
var noValidate = false

type ctxErrEngine struct{ *chain.MockEngine }

func rewrap(ok bool, err error) (bool, error) {
	if err != nil && wrapCtxErr {
		return false, fmt.Errorf("execution engine request timed out: %w", context.DeadlineExceeded)
	}
	return ok, err
}
func (e ctxErrEngine) BellatrixNotifyNewPayload(ctx context.Context, p *bellatrix.ExecutionPayload) (bool, error) {
	return rewrap(e.MockEngine.BellatrixNotifyNewPayload(ctx, p))
}
func (e ctxErrEngine) BellatrixIsValidBlockHash(ctx context.Context, p *bellatrix.ExecutionPayload) (bool, error) {
	return rewrap(e.MockEngine.BellatrixIsValidBlockHash(ctx, p))
}
func (e ctxErrEngine) CapellaNotifyNewPayload(ctx context.Context, p *capella.ExecutionPayload) (bool, error) {
	return rewrap(e.MockEngine.CapellaNotifyNewPayload(ctx, p))
}
func (e ctxErrEngine) CapellaIsValidBlockHash(ctx context.Context, p *capella.ExecutionPayload) (bool, error) {
	return rewrap(e.MockEngine.CapellaIsValidBlockHash(ctx, p))
}
func (e ctxErrEngine) DenebNotifyNewPayload(ctx context.Context, p *deneb.ExecutionPayload, r common.Root) (bool, error) {
	return rewrap(e.MockEngine.DenebNotifyNewPayload(ctx, p, r))
}
func (e ctxErrEngine) DenebIsValidVersionedHashes(ctx context.Context, p *deneb.ExecutionPayload, h []common.Hash32) (bool, error) {
	return rewrap(e.MockEngine.DenebIsValidVersionedHashes(ctx, p, h))
}
func (e ctxErrEngine) DenebIsValidBlockHash(ctx context.Context, p *deneb.ExecutionPayload, r common.Root) (bool, error) {
	return rewrap(e.MockEngine.DenebIsValidBlockHash(ctx, p, r))
}

func transitionM(c *chain.Chain, st *chain.Step, cancelFrom int, engineAt int, v chain.Verdict, plain bool, slotsOnly bool) (o outcome) {
	spec := *c.Spec
	eng := chain.NewMockEngine(&spec)
	idx := 0
	eng.Hook = func(call *chain.EngineCall) chain.Verdict {
		i := idx
		idx++
		if engineAt >= 0 && i == engineAt {
			return v
		}
		return chain.EngineValid
	}
	spec.ExecutionEngine = ctxErrEngine{eng}
	state := chain.WrapState(st.Pre)
	epc, err := chain.FreshEpc(&spec, state)
	if err != nil {
		o.err = err
		return
	}
	var ctx context.Context = context.Background()
	cc := &countCtx{Context: context.Background(), cancelFrom: cancelFrom}
	if !plain {
		ctx = cc
	}
	if slotsOnly || st.Skipped || st.Block == nil {
		o.err = common.ProcessSlots(ctx, &spec, epc, state, st.Slot)
	} else {
		o.err = common.StateTransition(ctx, &spec, epc, state, st.EnvelopeOf(st.Block), !noValidate)
	}
	o.polls = cc.n
	o.calls = eng.Calls
	if o.err == nil {
		o.root = state.HashTreeRoot(tree.GetHashFn())
	}
	return
}

func gen(o hreg.Opts, w *bufio.Writer) error {
	rng := o.Rand()
	type plan struct {
		cfg   string
		n     int
		slots int
	}
	plans := []plan{
		{"fast@0,0,0,1", 32, 12},    // capella -> deneb
		{"fast@1,2,3,4", 32, 40},    // all five forks, every upgrade boundary crossed
		{"minimal@n,n,n,n", 32, 10}, // published minimal preset, phase0 only
		{"fast@0,0,1,2+edge", 32, 24}, // payload fields at their limits (extra_data 0/31/32 bytes, blob lists at the limit)
		{"apart:" + strconv.FormatInt(o.Seed, 10), 32, 44}, // all per-fork constants and per-block limits pairwise different
	}
	if o.Thorough() {
		plans = append(plans, plan{"fast@0,1,2,3", 64, 40}, plan{"fast@0,0,0,0", 32, 24}, plan{"rand:" + strconv.FormatInt(o.Seed, 10), 32, 24},
			plan{"rand:" + strconv.FormatInt(o.Seed+1, 10), 48, 24})
	}
	perStepCancel := o.Pick(64, 1<<30) // quick: every poll of a transition with <= 64 polls, else a sample
	for pi, p := range plans {
		k := chainKey{p.cfg, p.n, o.Seed + int64(pi), p.slots}
		pre := fmt.Sprintf("%s %d %d %d", k.cfg, k.n, k.seed, k.slots)
		ss, c, err := steps(k)
		if err != nil {
			// the chain library could not build this chain on the code under test (a defect elsewhere in the
			// transition): not an input of this property; the other plans are still explored
			o.Stats.Add("chain", "not-generated")
			fmt.Fprintf(w, "genfail %s chain\n", pre)
			continue
		}
		o.Stats.Add("chain", "built")
		for si, st := range ss {
			cl := transition(c, st, -1, -1, chain.EngineValid, false)
			if cl.err != nil {
				o.Stats.Add("chain", "clean-run-failed")
				fmt.Fprintf(w, "genfail %s %d\n", pre, si)
				break
			}
			o.Stats.Add("fork", st.Fork.String())
			o.Stats.Add("kind", map[bool]string{true: "slots-only", false: "block"}[st.Skipped || st.Block == nil])
			o.Stats.Add("polls", fmt.Sprintf("%d+", cl.polls/10*10))
			o.Stats.Add("engine-calls", strconv.Itoa(len(cl.calls)))
			fmt.Fprintf(w, "clean %s %d\n", pre, si)
			// cancellation points: every poll on the thorough tier; first, last, beyond-last and a random sample on quick
			ks := map[int]bool{0: true, cl.polls - 1: true, cl.polls: true}
			if cl.polls <= perStepCancel {
				for i := 0; i < cl.polls; i++ {
					ks[i] = true
				}
			} else {
				want := perStepCancel + 3
				if want > cl.polls+1 {
					want = cl.polls + 1
				}
				for len(ks) < want {
					ks[rng.Intn(cl.polls)] = true
				}
			}
			for i := 0; i <= cl.polls; i++ {
				if ks[i] {
					fmt.Fprintf(w, "cancel %s %d %d %d\n", pre, si, i, cl.polls)
				}
			}
			if !(st.Skipped || st.Block == nil) {
				// the same slot processing without the block: every poll, and one beyond
				so := transitionM(c, st, -1, -1, chain.EngineValid, false, true)
				if so.err != nil {
					return fmt.Errorf("chain %v step %d: clean slots-only run failed: %v", k, si, so.err)
				}
				o.Stats.Add("slots-only-polls", fmt.Sprintf("%d+", so.polls/10*10))
				fmt.Fprintf(w, "clean-s %s %d\n", pre, si)
				for i := 0; i <= so.polls; i++ {
					fmt.Fprintf(w, "cancel-s %s %d %d %d\n", pre, si, i, so.polls)
				}
			}
			for j := 0; j <= len(cl.calls); j++ {
				for _, v := range []string{"invalid", "error", "ctxerror", "trueerror"} {
					fmt.Fprintf(w, "engine %s %d %d %d %s\n", pre, si, j, len(cl.calls), v)
					fmt.Fprintf(w, "engine-nv %s %d %d %d %s\n", pre, si, j, len(cl.calls), v)
				}
			}
			if len(cl.calls) > 0 {
				fmt.Fprintf(w, "engine %s %d 0 %d valid\n", pre, si, len(cl.calls))
			}
			if st.Block != nil && st.Block.Fork >= chain.Bellatrix {
				fmt.Fprintf(w, "args %s %d\n", pre, si)
				if len(cl.calls) > 0 {
					fmt.Fprintf(w, "mergeblk %s %d\n", pre, si)
				}
				// the fork name is part of the line: the expected answer depends on it (and only on it)
				fmt.Fprintf(w, "premerge %s %d %s\n", pre, si, strings.ToLower(st.Block.Fork.String()))
				o.Stats.Add("premerge", strings.ToLower(st.Block.Fork.String()))
				o.Stats.Add("execution", map[bool]string{true: "enabled", false: "pre-merge empty payload"}[len(cl.calls) > 0])
			}
		}
	}
	return nil
}

func parseKey(f []string) (chainKey, int, error) {
	if len(f) < 6 {
		return chainKey{}, 0, fmt.Errorf("short line")
	}
	n, e1 := strconv.Atoi(f[2])
	seed, e2 := strconv.ParseInt(f[3], 10, 64)
	slots, e3 := strconv.Atoi(f[4])
	step, e4 := strconv.Atoi(f[5])
	if e1 != nil || e2 != nil || e3 != nil || e4 != nil {
		return chainKey{}, 0, fmt.Errorf("bad number")
	}
	return chainKey{f[1], n, seed, slots}, step, nil
}

func versionedHash(commitment []byte) (h common.Hash32) {
	s := sha256.Sum256(commitment)
	copy(h[:], s[:])
	h[0] = 0x01
	return
}

func exec(o hreg.Opts, sc *bufio.Scanner, w *bufio.Writer) error {
	for sc.Scan() {
		f := hreg.Fields(sc.Text())
		res := hreg.Guard(func() string {
			if len(f) == 0 {
				return "bad-op"
			}
			if f[0] == "genfail" {
				return "genfail"
			}
			k, si, err := parseKey(f)
			if err != nil {
				return "bad-op"
			}
			ss, c, err := steps(k)
			if err != nil || si < 0 || si >= len(ss) {
				return "bad-op"
			}
			st := ss[si]
			switch f[0] {
			case "clean":
				a := transition(c, st, -1, -1, chain.EngineValid, false)
				b := transition(c, st, -1, -1, chain.EngineValid, true)
				if (a.err == nil) != (b.err == nil) || a.root != b.root {
					return fmt.Sprintf("differs instrumented-err=%v plain-err=%v", a.err != nil, b.err != nil)
				}
				if a.err == nil && a.root != st.PostRoot {
					return "differs from the chain's own post-state root"
				}
				return "same"
			case "clean-s":
				a := transitionM(c, st, -1, -1, chain.EngineValid, false, true)
				b := transitionM(c, st, -1, -1, chain.EngineValid, true, true)
				if (a.err == nil) != (b.err == nil) || a.root != b.root {
					return fmt.Sprintf("differs instrumented-err=%v plain-err=%v", a.err != nil, b.err != nil)
				}
				return "same"
			case "cancel-s":
				if len(f) != 8 {
					return "bad-op"
				}
				kk, e1 := strconv.Atoi(f[6])
				nn, e2 := strconv.Atoi(f[7])
				if e1 != nil || e2 != nil {
					return "bad-op"
				}
				cl := transitionM(c, st, -1, -1, chain.EngineValid, false, true)
				if cl.polls != nn {
					return "polls-mismatch"
				}
				r := transitionM(c, st, kk, -1, chain.EngineValid, false, true)
				if r.err != nil {
					return "err"
				}
				if r.root == cl.root {
					return "same"
				}
				return "ok-with-different-root"
			case "cancel":
				if len(f) != 8 {
					return "bad-op"
				}
				kk, e1 := strconv.Atoi(f[6])
				nn, e2 := strconv.Atoi(f[7])
				if e1 != nil || e2 != nil {
					return "bad-op"
				}
				cl := transition(c, st, -1, -1, chain.EngineValid, false)
				if cl.polls != nn {
					return "polls-mismatch"
				}
				r := transition(c, st, kk, -1, chain.EngineValid, false)
				if r.err != nil {
					return "err"
				}
				if r.root == cl.root {
					return "same"
				}
				return "ok-with-different-root"
			case "engine", "engine-nv":
				if f[0] == "engine-nv" {
					noValidate = true
					defer func() { noValidate = false }()
				}
				if len(f) != 9 {
					return "bad-op"
				}
				j, e1 := strconv.Atoi(f[6])
				m, e2 := strconv.Atoi(f[7])
				if e1 != nil || e2 != nil {
					return "bad-op"
				}
				var v chain.Verdict
				switch f[8] {
				case "valid":
					v = chain.EngineValid
				case "invalid":
					v = chain.EngineInvalid
				case "error":
					v = chain.EngineError
				case "trueerror":
					v = chain.EngineErrorTrue // (true, err): a Go callee may return a non-zero value together with an error
				case "ctxerror":
					v = chain.EngineError
					wrapCtxErr = true
					defer func() { wrapCtxErr = false }()
				default:
					return "bad-op"
				}
				cl := transition(c, st, -1, -1, chain.EngineValid, false)
				if len(cl.calls) != m {
					return "calls-mismatch"
				}
				r := transition(c, st, -1, j, v, false)
				if r.err != nil {
					return "err"
				}
				if r.root == cl.root {
					return "same"
				}
				return "ok-with-different-root"
			case "mergeblk":
				if st.Block == nil || st.Block.Fork < chain.Bellatrix {
					return "bad-op"
				}
				return mergeVariant(c, st)
			case "premerge":
				if st.Block == nil || st.Block.Fork < chain.Bellatrix || len(f) != 7 {
					return "bad-op"
				}
				return premergeVariant(c, st)
			case "args":
				cl := transition(c, st, -1, -1, chain.EngineValid, false)
				if st.Block == nil {
					return "ok"
				}
				return checkArgs(c, st, cl.calls)
			}
			return "bad-op"
		})
		fmt.Fprintln(w, res)
	}
	return sc.Err()
}

// checkArgs compares what the engine was shown with what the specification's NewPayloadRequest prescribes,
// computed here independently of the transition code from the block itself.
func checkArgs(c *chain.Chain, st *chain.Step, calls []chain.EngineCall) string {
	var payloadRoot common.Root
	var commitments [][]byte
	var parentRoot common.Root
	hfn := tree.GetHashFn()
	switch {
	case st.Block.Bellatrix != nil:
		payloadRoot = st.Block.Bellatrix.Message.Body.ExecutionPayload.HashTreeRoot(c.Spec, hfn)
	case st.Block.Capella != nil:
		payloadRoot = st.Block.Capella.Message.Body.ExecutionPayload.HashTreeRoot(c.Spec, hfn)
	case st.Block.Deneb != nil:
		payloadRoot = st.Block.Deneb.Message.Body.ExecutionPayload.HashTreeRoot(c.Spec, hfn)
		for _, k := range st.Block.Deneb.Message.Body.BlobKZGCommitments {
			commitments = append(commitments, append([]byte{}, k[:]...))
		}
		parentRoot = st.Block.Deneb.Message.ParentRoot
	default:
		if len(calls) != 0 {
			return "engine called for a pre-merge fork block"
		}
		return "ok"
	}
	var problems []string
	// is_execution_enabled(state, body) = merge complete (latest header != default) or payload != default payload
	enabled, err := executionEnabled(c, st)
	if err != nil {
		return "wrong-args cannot-determine-execution-enabled"
	}
	if enabled && len(calls) == 0 {
		return "wrong-args execution-enabled-but-engine-never-consulted"
	}
	if !enabled && len(calls) != 0 {
		return "wrong-args engine-consulted-although-execution-disabled"
	}
	if !enabled {
		return "ok"
	}
	// the specification's verify_and_notify_new_payload: is_valid_block_hash, (deneb: is_valid_versioned_hashes,) notify_new_payload
	want := map[chain.Fork][]string{
		chain.Bellatrix: {"BellatrixIsValidBlockHash", "BellatrixNotifyNewPayload"},
		chain.Capella:   {"CapellaIsValidBlockHash", "CapellaNotifyNewPayload"},
		chain.Deneb:     {"DenebIsValidBlockHash", "DenebIsValidVersionedHashes", "DenebNotifyNewPayload"},
	}[st.Block.Fork]
	{
		var got []string
		for _, call := range calls {
			got = append(got, call.Method)
		}
		if strings.Join(got, ",") != strings.Join(want, ",") {
			problems = append(problems, "call-sequence:"+strings.Join(got, "+"))
		}
	}
	sawNotify := false
	for _, call := range calls {
		if call.PayloadRoot != payloadRoot {
			problems = append(problems, call.Method+":payload")
		}
		if strings.HasPrefix(call.Method, "Deneb") && strings.Contains(call.Method, "VersionedHashes") {
			if len(call.VersionedHashes) != len(commitments) {
				problems = append(problems, call.Method+":versioned-hash-count")
			} else {
				for i, cm := range commitments {
					want := versionedHash(cm)
					if !bytes.Equal(call.VersionedHashes[i][:], want[:]) {
						problems = append(problems, call.Method+":versioned-hash")
						break
					}
				}
			}
		}
		if strings.HasPrefix(call.Method, "Deneb") && !strings.Contains(call.Method, "VersionedHashes") {
			if call.ParentBeaconBlockRoot != parentRoot {
				problems = append(problems, call.Method+":parent-beacon-root")
			}
		}
		if strings.Contains(call.Method, "NotifyNewPayload") {
			sawNotify = true
		}
	}
	if len(calls) > 0 && !sawNotify {
		problems = append(problems, "no-notify-new-payload")
	}
	if len(problems) > 0 {
		return "wrong-args " + strings.Join(problems, ",")
	}
	return "ok"
}


// executionEnabled evaluates the specification's is_execution_enabled on the step's pre-block state and block,
// independently of the transition code: by hash-tree-roots against the default header / default payload.
func executionEnabled(c *chain.Chain, st *chain.Step) (bool, error) {
	hfn := tree.GetHashFn()
	var payloadRoot, defaultPayload, headerRoot, defaultHeader common.Root
	switch {
	case st.Block.Bellatrix != nil:
		payloadRoot = st.Block.Bellatrix.Message.Body.ExecutionPayload.HashTreeRoot(c.Spec, hfn)
		defaultPayload = bellatrix.ExecutionPayloadType(c.Spec).DefaultNode().MerkleRoot(hfn)
		defaultHeader = bellatrix.ExecutionPayloadHeaderType.DefaultNode().MerkleRoot(hfn)
		s, ok := st.PreBlock.(*bellatrix.BeaconStateView)
		if !ok {
			return false, fmt.Errorf("pre-block state is not bellatrix")
		}
		h, err := s.LatestExecutionPayloadHeader()
		if err != nil {
			return false, err
		}
		headerRoot = h.HashTreeRoot(hfn)
	default:
		// capella and deneb: the specification runs process_execution_payload unconditionally
		return true, nil
	}
	return headerRoot != defaultHeader || payloadRoot != defaultPayload, nil
}

// mergeVariant: zero the payload's block_hash and run the block without signature / state-root validation.
// premergeVariant: the pre-state with latest_execution_payload_header reset to the default header (a chain that reached
// this fork before its merge) and the same block carrying the all-zero (default) payload, run without signature / state
// root validation. Bellatrix: is_execution_enabled is false, the payload step is skipped, the engine is not consulted
// and the block is accepted -> "ok calls=0". From capella on process_execution_payload runs unconditionally: the zero
// payload fails the prev_randao (or withdrawals) check, the block is refused -> "err"; accepting it would be success for a
// payload the engine never approved.
func premergeVariant(c *chain.Chain, st *chain.Step) string {
	b := st.Block.Clone(c.Spec)
	spec := *c.Spec
	eng := chain.NewMockEngine(&spec)
	spec.ExecutionEngine = eng
	state := chain.WrapState(st.Pre)
	epc, err := chain.FreshEpc(&spec, state)
	if err != nil {
		return "err-setup"
	}
	env := st.EnvelopeOf(b)
	// slots (and fork upgrades) first, so that the header is reset on a state of the block's fork
	if err := common.ProcessSlots(context.Background(), &spec, epc, state, env.Slot); err != nil {
		return "err-setup"
	}
	switch {
	case b.Bellatrix != nil:
		b.Bellatrix.Message.Body.ExecutionPayload = bellatrix.ExecutionPayload{}
		s, ok := state.BeaconState.(interface {
			SetLatestExecutionPayloadHeader(h *bellatrix.ExecutionPayloadHeader) error
		})
		if !ok || s.SetLatestExecutionPayloadHeader(&bellatrix.ExecutionPayloadHeader{}) != nil {
			return "err-setup"
		}
	case b.Capella != nil:
		b.Capella.Message.Body.ExecutionPayload = capella.ExecutionPayload{}
		s, ok := state.BeaconState.(interface {
			SetLatestExecutionPayloadHeader(h *capella.ExecutionPayloadHeader) error
		})
		if !ok || s.SetLatestExecutionPayloadHeader(&capella.ExecutionPayloadHeader{}) != nil {
			return "err-setup"
		}
	case b.Deneb != nil:
		b.Deneb.Message.Body.ExecutionPayload = deneb.ExecutionPayload{}
		b.Deneb.Message.Body.BlobKZGCommitments = nil
		s, ok := state.BeaconState.(interface {
			SetLatestExecutionPayloadHeader(h *deneb.ExecutionPayloadHeader) error
		})
		if !ok || s.SetLatestExecutionPayloadHeader(&deneb.ExecutionPayloadHeader{}) != nil {
			return "err-setup"
		}
	default:
		return "bad-op"
	}
	env = st.EnvelopeOf(b)
	if err := common.PostSlotTransition(context.Background(), &spec, epc, state, env, false); err != nil {
		if os.Getenv("C18_DEBUG") != "" {
			return "err " + err.Error()
		}
		return "err"
	}
	return fmt.Sprintf("ok calls=%d", len(eng.Calls))
}

func mergeVariant(c *chain.Chain, st *chain.Step) string {
	b := st.Block.Clone(c.Spec)
	switch {
	case b.Bellatrix != nil:
		b.Bellatrix.Message.Body.ExecutionPayload.BlockHash = common.Hash32{}
	case b.Capella != nil:
		b.Capella.Message.Body.ExecutionPayload.BlockHash = common.Hash32{}
	case b.Deneb != nil:
		b.Deneb.Message.Body.ExecutionPayload.BlockHash = common.Hash32{}
	default:
		return "bad-op"
	}
	spec := *c.Spec
	eng := chain.NewMockEngine(&spec)
	spec.ExecutionEngine = eng
	state := chain.WrapState(st.Pre)
	epc, err := chain.FreshEpc(&spec, state)
	if err != nil {
		return "err-setup"
	}
	if err := common.StateTransition(context.Background(), &spec, epc, state, st.EnvelopeOf(b), false); err != nil {
		return "err " + strings.SplitN(err.Error(), ":", 2)[0]
	}
	var got []string
	for _, call := range eng.Calls {
		got = append(got, call.Method)
	}
	want := map[chain.Fork][]string{
		chain.Bellatrix: {"BellatrixIsValidBlockHash", "BellatrixNotifyNewPayload"},
		chain.Capella:   {"CapellaIsValidBlockHash", "CapellaNotifyNewPayload"},
		chain.Deneb:     {"DenebIsValidBlockHash", "DenebIsValidVersionedHashes", "DenebNotifyNewPayload"},
	}[b.Fork]
	if strings.Join(got, ",") != strings.Join(want, ",") {
		return "engine-not-consulted calls=" + strings.Join(got, "+")
	}
	return "ok"
}
