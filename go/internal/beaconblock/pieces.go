package beaconblock

// Mode c01pieces: drives the exported Go functions that the code-shaped Lean model M
// (/verif/lean/Zrnt/Beacon/Impl/Block.lean) models, directly, with generated inputs.

import (
	"bufio"
	"context"
	"encoding/hex"
	"fmt"
	"math/rand"
	"sort"
	"strconv"
	"strings"

	"github.com/protolambda/zrnt/eth2/beacon/capella"
	"github.com/protolambda/zrnt/eth2/beacon/common"
	"github.com/protolambda/zrnt/eth2/beacon/phase0"
	"github.com/protolambda/zrnt/eth2/configs"
	"github.com/protolambda/ztyp/view"

	"verifharness/internal/chain"
	"verifharness/internal/flat"
	"verifharness/internal/hreg"
)

func init() {
	hreg.Register(&hreg.Mode{Name: "c01pieces", Gen: genPieces, Exec: execPieces})
}

const markerU = ^uint64(0)

func natList(l []uint64) string {
	if len(l) == 0 {
		return "-"
	}
	s := make([]string, len(l))
	for i, v := range l {
		s[i] = strconv.FormatUint(v, 10)
	}
	return strings.Join(s, ",")
}

func randSet(rng *rand.Rand, n int, universe uint64) []uint64 {
	m := map[uint64]bool{}
	for len(m) < n {
		m[uint64(rng.Int63n(int64(universe)))] = true
	}
	out := make([]uint64, 0, n)
	for k := range m {
		out = append(out, k)
	}
	sort.Slice(out, func(a, b int) bool { return out[a] < out[b] })
	return out
}

func dataStr(d *phase0.AttestationData) string {
	return fmt.Sprintf("%d:%d:%x:%d:%x:%d:%x", d.Slot, d.Index, d.BeaconBlockRoot[:], d.Source.Epoch, d.Source.Root[:], d.Target.Epoch, d.Target.Root[:])
}

func genPieces(o hreg.Opts, w *bufio.Writer) error {
	rng := o.Rand()
	st := o.Stats
	// ---- zigzag ----
	nz := o.Pick(3000, 100000)
	for i := 0; i < nz; i++ {
		u := uint64(4 + rng.Intn(60))
		if rng.Intn(8) == 0 {
			u = 1 << 40
		}
		a := randSet(rng, rng.Intn(int(min64(u, 24))+1), u)
		b := randSet(rng, rng.Intn(int(min64(u, 24))+1), u)
		kind := "sorted"
		switch rng.Intn(12) {
		case 0:
			a = append(a, markerU)
			kind = "marker-in-source"
		case 1:
			b = append(b, markerU)
			kind = "marker-in-target"
		case 2:
			a, b = append(a, markerU), append(b, markerU)
			kind = "marker-in-both"
		case 3:
			if len(a) > 1 {
				rng.Shuffle(len(a), func(x, y int) { a[x], a[y] = a[y], a[x] })
				kind = "unsorted"
			}
		case 4:
			if len(a) > 0 {
				a = append(a, a[len(a)-1])
				kind = "duplicate"
			}
		case 5:
			b = nil
			kind = "empty-target"
		case 6:
			a = nil
			kind = "empty-source"
		case 7:
			b = append([]uint64(nil), a...)
			kind = "equal"
		}
		st.Add("zigzag", kind)
		fmt.Fprintf(w, "zigzag %s %s\n", natList(a), natList(b))
	}
	// ---- slashable ----
	ns := o.Pick(3000, 100000)
	for i := 0; i < ns; i++ {
		var d1, d2 phase0.AttestationData
		d1.Slot, d1.Index = common.Slot(rng.Intn(4)), common.CommitteeIndex(rng.Intn(2))
		d1.BeaconBlockRoot[0] = byte(rng.Intn(2))
		d1.Source.Epoch, d1.Target.Epoch = common.Epoch(rng.Intn(5)), common.Epoch(rng.Intn(5))
		d1.Source.Root[0], d1.Target.Root[31] = byte(rng.Intn(2)), byte(rng.Intn(2))
		d2 = d1
		switch rng.Intn(6) {
		case 0: // identical
		case 1:
			d2.BeaconBlockRoot[0] ^= 1
		case 2:
			d2.Source.Epoch, d2.Target.Epoch = common.Epoch(rng.Intn(5)), common.Epoch(rng.Intn(5))
		case 3:
			d2.Source.Root[0] ^= 1
		case 4:
			d2.Slot++
		default:
			d2.Source.Epoch, d2.Target.Epoch = common.Epoch(rng.Uint64()), common.Epoch(rng.Uint64())
			d2.Index = common.CommitteeIndex(rng.Intn(2))
		}
		k := "other"
		switch {
		case d1 == d2:
			k = "identical"
		case d1.Target.Epoch == d2.Target.Epoch:
			k = "double"
		case d1.Source.Epoch < d2.Source.Epoch && d2.Target.Epoch < d1.Target.Epoch:
			k = "surround-1-2"
		case d2.Source.Epoch < d1.Source.Epoch && d1.Target.Epoch < d2.Target.Epoch:
			k = "surrounded-2-1"
		}
		st.Add("slashable", k)
		fmt.Fprintf(w, "slashable %s %s\n", dataStr(&d1), dataStr(&d2))
	}
	// ---- indexed ----
	ni := o.Pick(3000, 100000)
	for i := 0; i < ni; i++ {
		mx := uint64(1 + rng.Intn(12))
		l := randSet(rng, rng.Intn(14), 40)
		k := "sorted-unique"
		switch rng.Intn(8) {
		case 0:
			if len(l) > 1 {
				j := rng.Intn(len(l) - 1)
				l[j], l[j+1] = l[j+1], l[j]
				k = "adjacent-swap"
			}
		case 1:
			if len(l) > 0 {
				j := rng.Intn(len(l))
				l = append(l[:j+1], l[j:]...)
				k = "adjacent-duplicate"
			}
		case 2:
			l = nil
			k = "empty"
		case 3:
			if len(l) > 2 {
				l[len(l)-1] = l[0]
				k = "last-equals-first"
			}
		}
		if uint64(len(l)) > mx {
			k += "+over-limit"
		}
		st.Add("indexed", k)
		fmt.Fprintf(w, "indexed max=%d %s\n", mx, natList(l))
	}
	// ---- domain ----
	nd := o.Pick(1500, 50000)
	for i := 0; i < nd; i++ {
		var t, v [4]byte
		var g, ob [32]byte
		t[0] = byte(rng.Intn(11))
		if rng.Intn(4) == 0 {
			rng.Read(t[:])
		}
		rng.Read(v[:])
		rng.Read(g[:])
		rng.Read(ob[:])
		if rng.Intn(5) == 0 {
			g = [32]byte{}
		}
		st.Add("domain", fmt.Sprintf("type-%d", t[0]%11))
		fmt.Fprintf(w, "domain %x %x %x %x\n", t[:], v[:], g[:], ob[:])
	}
	// ---- withdrawals / initexit on chain states ----
	type plan struct {
		cfg   *chain.Config
		n     int
		bal   string
		slots int
	}
	N := chain.Never
	ps := []plan{{chain.Fast(0, 0, 0, 1), 32, "rich", o.Pick(40, 200)}, {chain.Fast(0, 0, 0, N), 48, "mixed", o.Pick(40, 200)},
		{chain.Fast(N, N, N, N), 32, "mixed", o.Pick(24, 120)}, {chain.RandomConfig(rng.Int63n(1 << 30)), 32, "mixed", o.Pick(24, 120)}}
	for _, p := range ps {
		c, err := chain.NewChain(p.cfg, p.n, p.bal, rng.Int63())
		if err != nil {
			return err
		}
		c.Policy = chain.DefaultPolicy()
		c.Policy.Exits, c.Policy.BLSChanges = 0.5, 0.8
		cfgToks := flat.SpecTokens(c.Spec)
		for i := 0; i < p.slots; i++ {
			step, err := c.NextSlot(nil)
			if err != nil {
				return err
			}
			fs, err := flat.From(c.Spec, step.PreBlock)
			if err != nil {
				return err
			}
			if flat.ForkIndex(fs.Fork) >= 3 && (i%2 == 0 || step.Block != nil) {
				st.Add("withdrawals", fs.Fork)
				fmt.Fprintf(w, "withdrawals %s %s\n", cfgToks, fs.String())
				// a cursor variant: same state, cursor moved (still inside the registry)
				if rng.Intn(3) == 0 {
					g := *fs
					g.NextWithdrawalValIdx = uint64(rng.Intn(len(g.Validators)))
					st.Add("withdrawals", fs.Fork+"+moved-cursor")
					fmt.Fprintf(w, "withdrawals %s %s\n", cfgToks, g.String())
				}
			}
			if flat.ForkIndex(fs.Fork) >= 3 && i%4 == 1 {
				// ProcessWithdrawals' whole state update over (registry size, sweep size, cursor, payload limit) grids:
				// the same state under configuration variants, every cursor position
				n := uint64(len(fs.Validators))
				for _, sw := range []uint64{1, n - 1, n, n + 1, n + 3, 2*n + 1} {
					for _, mw := range []uint64{1, 2, 16} {
						sp := *c.Spec
						sp.MAX_VALIDATORS_PER_WITHDRAWALS_SWEEP = view.Uint64View(sw)
						sp.MAX_WITHDRAWALS_PER_PAYLOAD = view.Uint64View(mw)
						g := *fs
						g.NextWithdrawalValIdx = uint64(rng.Intn(int(n)))
						stv, err := g.ToView(&sp)
						if err != nil {
							continue
						}
						ws, ok := stv.(capella.BeaconStateWithWithdrawals)
						if !ok {
							continue
						}
						exp, err := capella.GetExpectedWithdrawals(ws, &sp)
						if err != nil {
							continue
						}
						kind := "expected"
						if rng.Intn(6) == 0 && len(exp) > 0 {
							exp[rng.Intn(len(exp))].Amount++
							kind = "amount+1"
						} else if rng.Intn(8) == 0 {
							exp = append(exp, common.Withdrawal{})
							kind = "one-too-many"
						}
						recs := make([]string, len(exp))
						for k, x := range exp {
							recs[k] = fmt.Sprintf("%d:%d:%x:%d", x.Index, x.ValidatorIndex, x.Address[:], x.Amount)
						}
						pw := "-"
						if len(recs) > 0 {
							pw = strings.Join(recs, ";")
						}
						rel := "sweep<registry"
						if sw == n {
							rel = "sweep=registry"
						} else if sw > n {
							rel = "sweep>registry"
						}
						full := "not-full"
						if uint64(len(exp)) == mw {
							full = "full-payload"
						}
						st.Add("wdapply", rel+":"+full+":"+kind)
						fmt.Fprintf(w, "wdapply pw=%s %s %s\n", pw, flat.SpecTokens(&sp), g.String())
					}
				}
			}
			if i%3 == 0 {
				idx := rng.Intn(len(fs.Validators) + 1)
				k := "in-range"
				if idx == len(fs.Validators) {
					k = "out-of-range"
				} else if fs.Validators[idx].ExitEpoch != markerU {
					k = "already-exiting"
				}
				st.Add("initexit", fs.Fork+":"+k)
				fmt.Fprintf(w, "initexit index=%d %s %s\n", idx, cfgToks, fs.String())
			}
		}
	}
	return nil
}

func min64(a, b uint64) uint64 {
	if a < b {
		return a
	}
	return b
}

func parseNats(s string) ([]uint64, bool) {
	if s == "-" {
		return nil, true
	}
	var out []uint64
	for _, t := range strings.Split(s, ",") {
		if t == "" || t[0] == '+' {
			return nil, false
		}
		v, err := strconv.ParseUint(t, 10, 64)
		if err != nil {
			return nil, false
		}
		out = append(out, v)
	}
	return out, true
}

func parseData(s string) (d phase0.AttestationData, ok bool) {
	f := strings.Split(s, ":")
	if len(f) != 7 {
		return d, false
	}
	nums := [4]uint64{}
	for i, j := range []int{0, 1, 3, 5} {
		v, err := strconv.ParseUint(f[j], 10, 64)
		if err != nil {
			return d, false
		}
		nums[i] = v
	}
	roots := [3][32]byte{}
	for i, j := range []int{2, 4, 6} {
		b, err := hex.DecodeString(f[j])
		if err != nil || len(b) != 32 {
			return d, false
		}
		copy(roots[i][:], b)
	}
	d.Slot, d.Index, d.Source.Epoch, d.Target.Epoch = common.Slot(nums[0]), common.CommitteeIndex(nums[1]), common.Epoch(nums[2]), common.Epoch(nums[3])
	d.BeaconBlockRoot, d.Source.Root, d.Target.Root = roots[0], roots[1], roots[2]
	return d, true
}

func execPieces(o hreg.Opts, r *bufio.Scanner, w *bufio.Writer) error {
	for r.Scan() {
		line := strings.TrimSpace(r.Text())
		out := hreg.Guard(func() string { return pieceLine(line) })
		w.WriteString(out)
		w.WriteByte('\n')
	}
	return r.Err()
}

func pieceLine(line string) string {
	kv, rest := flat.KV(line)
	if len(rest) == 0 {
		return "bad-op"
	}
	switch rest[0] {
	case "zigzag":
		if len(rest) != 3 {
			return "bad-op"
		}
		a, ok1 := parseNats(rest[1])
		b, ok2 := parseNats(rest[2])
		if !ok1 || !ok2 {
			return "bad-op"
		}
		vs, tg := make(common.ValidatorSet, len(a)), make(common.ValidatorSet, len(b))
		for i, v := range a {
			vs[i] = common.ValidatorIndex(v)
		}
		for i, v := range b {
			tg[i] = common.ValidatorIndex(v)
		}
		var in []uint64
		vs.ZigZagJoin(tg, func(i common.ValidatorIndex) { in = append(in, uint64(i)) }, nil)
		return "ok " + natList(in)
	case "slashable":
		if len(rest) != 3 {
			return "bad-op"
		}
		d1, ok1 := parseData(rest[1])
		d2, ok2 := parseData(rest[2])
		if !ok1 || !ok2 {
			return "bad-op"
		}
		return "ok " + hreg.B2S(phase0.IsSlashableAttestationData(&d1, &d2))
	case "indexed":
		if len(rest) != 2 {
			return "bad-op"
		}
		mx, err := strconv.ParseUint(kv["max"], 10, 64)
		l, ok := parseNats(rest[1])
		if err != nil || !ok {
			return "bad-op"
		}
		sp := *configs.Minimal
		sp.MAX_VALIDATORS_PER_COMMITTEE = view.Uint64View(mx)
		ia := &phase0.IndexedAttestation{}
		for _, v := range l {
			ia.AttestingIndices = append(ia.AttestingIndices, common.ValidatorIndex(v))
		}
		_, e := phase0.ValidateIndexedAttestationIndicesSet(&sp, ia)
		return "ok " + hreg.B2S(e == nil)
	case "domain":
		if len(rest) != 5 {
			return "bad-op"
		}
		var b [4][]byte
		for i := 0; i < 4; i++ {
			x, err := hex.DecodeString(rest[i+1])
			if err != nil {
				return "bad-op"
			}
			b[i] = x
		}
		if len(b[0]) != 4 || len(b[1]) != 4 || len(b[2]) != 32 || len(b[3]) != 32 {
			return "bad-op"
		}
		var t common.BLSDomainType
		var v common.Version
		var g, ob common.Root
		copy(t[:], b[0])
		copy(v[:], b[1])
		copy(g[:], b[2])
		copy(ob[:], b[3])
		sr := common.ComputeSigningRoot(ob, common.ComputeDomain(t, v, g))
		return hex.EncodeToString(sr[:])
	case "withdrawals", "initexit", "wdapply":
		if len(rest) != 1 {
			return "bad-op"
		}
		p := loadPre(kv)
		if p == nil {
			return "bad-op"
		}
		if rest[0] == "wdapply" {
			// capella.ProcessWithdrawals with the payload carrying exactly the expected withdrawals (or a corrupted list)
			ws, ok := p.st.(capella.BeaconStateWithWithdrawals)
			if !ok {
				return "bad-op"
			}
			var wl common.Withdrawals
			if w := kv["pw"]; w != "-" {
				for _, rec := range strings.Split(w, ";") {
					f := strings.Split(rec, ":")
					if len(f) != 4 {
						return "bad-op"
					}
					a, e1 := strconv.ParseUint(f[0], 10, 64)
					b, e2 := strconv.ParseUint(f[1], 10, 64)
					ad, e3 := hex.DecodeString(f[2])
					am, e4 := strconv.ParseUint(f[3], 10, 64)
					if e1 != nil || e2 != nil || e3 != nil || e4 != nil || len(ad) != 20 {
						return "bad-op"
					}
					x := common.Withdrawal{Index: common.WithdrawalIndex(a), ValidatorIndex: common.ValidatorIndex(b), Amount: common.Gwei(am)}
					copy(x.Address[:], ad)
					wl = append(wl, x)
				}
			}
			payload := &capella.ExecutionPayload{Withdrawals: wl}
			if err := capella.ProcessWithdrawals(context.Background(), p.spec, ws, payload); err != nil {
				return "err"
			}
			fs, err := flat.From(p.spec, p.st)
			if err != nil {
				return "err-dump"
			}
			return "ok " + fs.Abbrev()
		}
		if rest[0] == "withdrawals" {
			ws, ok := p.st.(capella.BeaconStateWithWithdrawals)
			if !ok {
				return "bad-op"
			}
			l, err := capella.GetExpectedWithdrawals(ws, p.spec)
			if err != nil {
				return "err"
			}
			s := make([]string, len(l))
			for i, x := range l {
				s[i] = fmt.Sprintf("%d:%d:%x:%d", x.Index, x.ValidatorIndex, x.Address[:], x.Amount)
			}
			if len(s) == 0 {
				return "ok -"
			}
			return "ok " + strings.Join(s, ";")
		}
		idx, err := strconv.ParseUint(kv["index"], 10, 64)
		if err != nil {
			return "bad-op"
		}
		epc, err := common.NewEpochsContext(p.spec, p.st)
		if err != nil {
			return "err"
		}
		if err := phase0.InitiateValidatorExit(p.spec, epc, p.st, common.ValidatorIndex(idx)); err != nil {
			return "err"
		}
		fs, err := flat.From(p.spec, p.st)
		if err != nil {
			return "err-dump"
		}
		return "ok " + fs.Abbrev()
	}
	return "bad-op"
}
