package beaconblock

// mode=full: the op line's pre-state is the chain state BEFORE slot processing; both sides run the whole
// state_transition (process_slots incl. epoch processing and fork upgrades, then the block). The
// specification's process_slots (lean/Zrnt/Beacon/Spec/Transition.lean) needs two kinds of inputs that are not
// modelled in Lean; they are computed here by stepping the real ProcessSlots one slot at a time:
//   sroots  hash_tree_root(state) at the start of every processed slot (library merkleization, property C05)
//   aggs    eth_aggregate_pubkeys of every sync committee that appears (real BLS, from the pubkeys alone)

import (
	"context"
	"crypto/sha256"
	"encoding/hex"
	"sort"
	"strconv"
	"strings"
	"sync"

	blsu "github.com/protolambda/bls12-381-util"
	"github.com/protolambda/zrnt/eth2/beacon/common"
	"github.com/protolambda/ztyp/tree"

	"verifharness/internal/chain"
	"verifharness/internal/flat"
)

var (
	aggMu    sync.Mutex
	aggCache = map[[32]byte][48]byte{}
)

func aggEntry(pubkeys [][48]byte) (string, bool) {
	h := sha256.New()
	for _, p := range pubkeys {
		h.Write(p[:])
	}
	var key [32]byte
	copy(key[:], h.Sum(nil))
	aggMu.Lock()
	agg, ok := aggCache[key]
	aggMu.Unlock()
	if !ok {
		pks := make([]*blsu.Pubkey, 0, len(pubkeys))
		for i := range pubkeys {
			pk := new(blsu.Pubkey)
			if err := pk.Deserialize(&pubkeys[i]); err != nil {
				return "", false
			}
			pks = append(pks, pk)
		}
		a, err := blsu.AggregatePubkeys(pks)
		if err != nil {
			return "", false
		}
		agg = a.Serialize()
		aggMu.Lock()
		aggCache[key] = agg
		aggMu.Unlock()
	}
	return hex.EncodeToString(key[:]) + ":" + hex.EncodeToString(agg[:]), true
}

// slotExtras steps the real slot processing from pre to target and returns the `sroots=… aggs=…` tokens.
func slotExtras(spec *common.Spec, pre common.BeaconState, target common.Slot) (toks string, ok bool) {
	defer func() {
		if r := recover(); r != nil {
			ok = false
		}
	}()
	st := chain.WrapState(pre)
	epc, err := common.NewEpochsContext(spec, st.BeaconState)
	if err != nil {
		return "", false
	}
	slot, err := st.Slot()
	if err != nil {
		return "", false
	}
	var sroots []string
	aggs := map[string]bool{}
	addAggs := func() {
		f, err := flat.From(spec, st.BeaconState)
		if err != nil {
			return
		}
		for _, c := range []*flat.SyncCommittee{f.CurrentSyncCommittee, f.NextSyncCommittee} {
			if c != nil {
				if s, ok := aggEntry(c.Pubkeys); ok {
					aggs[s] = true
				}
			}
		}
	}
	for ; slot < target; slot++ {
		root := st.BeaconState.HashTreeRoot(tree.GetHashFn())
		sroots = append(sroots, strconv.FormatUint(uint64(slot), 10)+":"+hex.EncodeToString(root[:]))
		crossing := spec.SlotToEpoch(slot+1) != spec.SlotToEpoch(slot)
		if err := common.ProcessSlots(context.Background(), spec, epc, st, slot+1); err != nil {
			return "", false
		}
		if crossing {
			addAggs()
		}
	}
	al := make([]string, 0, len(aggs))
	for k := range aggs {
		al = append(al, k)
	}
	sort.Strings(al)
	dash := func(l []string) string {
		if len(l) == 0 {
			return "-"
		}
		return strings.Join(l, ",")
	}
	return "sroots=" + dash(sroots) + " aggs=" + dash(al), true
}
