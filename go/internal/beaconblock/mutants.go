package beaconblock

import (
	"math/rand"

	"verifharness/internal/chain"
)

// extraMutants are this component's additions to chain.Mutations.
func extraMutants(c *chain.Chain, s *chain.Step, rng *rand.Rand) []chain.Mutant {
	return nil
}
